package main

// GossipValidateFuns: the decision logic of the core gossip validators, translated statement by
// statement from the current source (second tie of C04, used by C03 and C05 through the same
// model):
//
//   medley/medley.go                      Uint64ToInt64Safe
//   keyper/database/extend.go             (*Queries).GetKeyperIndex
//   keyper/epochkghandler/keyshare.go     checkKeyShares, DecryptionKeyShareHandler.ValidateMessage
//   keyper/epochkghandler/key.go          checkKeysErrors, DecryptionKeyHandler.ValidateMessage
//   keyper/epochkghandler/eonpublickey.go EonPublicKeyHandler.ValidateMessage
//
// What is translated: every guard in source order with its comparison operator and its integer
// casts (int32 / int64 / int / uint64 written out as wrap-arounds), which verdict each guard
// returns (and the rejection reason, read off the error text), every slice index (an index
// outside the slice is the verdict GPanic), the `for i, x := range l` loops with early return and
// `continue`, the short-circuit of `a && l[i]...`, which error value of which call is tested
// where (nil / pgx.ErrNoRows / another error), and which values reach which query or crypto call.
// What stays a parameter (record gen_oracles): the configuration, the rows the four queries
// return (with the error class), DecodePureDKGResult, the decoders of a share / key and the two
// pairing checks.
//
// The translator understands a small fragment and REFUSES everything else: unknown statement or
// expression form, unknown callee, unknown field, unknown rejection text, assignment with `=`,
// `if` with an initialiser or an else branch, a block that neither returns nor continues.

import (
	"fmt"
	"go/ast"
	"go/token"
	"sort"
	"strings"
)

func init() { register("GossipValidateFuns", genGossipValidateFuns) }

// rejection text -> reason of Model/Gossip.v (first match wins)
var gvReasons = []struct{ sub, reason string }{
	{"instance ID mismatch", "GS RInstance"},
	{"overflows int64", "GS REonOverflow"},
	{"overflow error while converting eon", "GS REonOverflow"},
	{"no DKG result found", "GNoDkg"},
	{"failed to get dkg result", "GNoDkg"},
	{"no successful DKG result", "GDkgFailed"},
	{"error while decoding pure DKG result", "GDkgDecode"},
	{"no key shares in message", "GS RNoKeysCommon"},
	{"no keys in message", "GS RNoKeysCommon"},
	{"too many key shares in message", "GS RTooManyKeys"},
	{"too many keys in message", "GS RTooManyKeys"},
	{"out of range", "GSenderRange"},
	{"cannot verify secret key share", "GShareInvalid"},
	{"keyshares not ordered", "GS RKeysUnordered"},
	{"keys not ordered", "GS RKeysUnordered"},
	{"failed to get decryption key", "GS RKeyInvalid"},
	{"error while checking epoch secret key", "GS RKeyInvalid"},
	{"is not valid", "GS RKeyInvalid"},
}

// `return ValidationReject, err`: the reason is that of the call err came from
var gvErrReasons = map[string]string{
	"GetKeyperIndex":         "GNoBatchConfig",
	"GetEpochSecretKeyShare": "GS RKeyDecode",
	"GetEpochSecretKey":      "GS RKeyDecode",
}

type gvField struct{ coq, typ string }

// type tag -> selector ("F" a field, "F()" a method without arguments) -> Coq term, type tag
var gvFields = map[string]map[string]gvField{
	"shares_msg": {
		"InstanceId": {"(Z.of_N (s_inst %s))", "int"}, "GetInstanceId()": {"(Z.of_N (s_inst %s))", "int"},
		"Eon": {"(Z.of_N (s_eon %s))", "int"}, "GetEon()": {"(Z.of_N (s_eon %s))", "int"},
		"KeyperIndex": {"(Z.of_N (s_kidx %s))", "int"}, "GetKeyperIndex()": {"(Z.of_N (s_kidx %s))", "int"},
		"Shares": {"(s_shares %s)", "list:elem"}, "GetShares()": {"(s_shares %s)", "list:elem"},
	},
	"keys_msg": {
		"InstanceId": {"(Z.of_N (km_inst %s))", "int"}, "GetInstanceId()": {"(Z.of_N (km_inst %s))", "int"},
		"Eon": {"(Z.of_N (km_eon %s))", "int"}, "GetEon()": {"(Z.of_N (km_eon %s))", "int"},
		"Keys": {"(km_keys %s)", "list:elem"}, "GetKeys()": {"(km_keys %s)", "list:elem"},
	},
	"eonpk_msg": {
		"InstanceId": {"(Z.of_N (e_inst %s))", "int"}, "GetInstanceId()": {"(Z.of_N (e_inst %s))", "int"},
	},
	"elem": {
		"IdentityPreimage": {"(fst %s)", "bytes"}, "GetIdentityPreimage()": {"(fst %s)", "bytes"},
		"Share": {"(o_raw gen_O (snd %s))", "bytes"}, "GetShare()": {"(o_raw gen_O (snd %s))", "bytes"},
		"Key": {"(o_raw gen_O (snd %s))", "bytes"}, "GetKey()": {"(o_raw gen_O (snd %s))", "bytes"},
		"GetEpochSecretKeyShare()": {"(o_decode_share gen_O (snd %s))", "tuple:sshare,err"},
		"GetEpochSecretKey()":      {"(o_decode_key gen_O (snd %s))", "tuple:skey,err"},
	},
	"dkgrow":      {"Success": {"(o_success gen_O %s)", "bool"}, "PureResult": {"%s", "pure"}},
	"dkgres":      {"PublicKeyShares": {"(o_pk_shares gen_O %s)", "list:pkshare"}, "PublicKey": {"(o_pub_key gen_O %s)", "pubkey"}},
	"batchconfig": {"Keypers": {"%s", "list:addr"}},
	"keyrow":      {"DecryptionKey": {"%s", "bytes"}},
	"config": {
		"GetInstanceID()":           {"(o_instance gen_O)", "int"},
		"GetMaxNumKeysPerMessage()": {"(o_max_keys gen_O)", "int"},
		"GetAddress()":              {"(o_self gen_O)", "addr"},
	},
	"handler": {"config": {"", "config"}, "dbpool": {"", "dbpool"}},
}

// Go parameter type -> type tag, Coq type ("" = no Coq parameter)
var gvParamTypes = map[string][2]string{
	"context.Context":             {"ctx", ""},
	"*database.Queries":           {"queries", ""},
	"*p2pmsg.DecryptionKeyShares": {"shares_msg", "shares_msg"},
	"*p2pmsg.DecryptionKeys":      {"keys_msg", "keys_msg"},
	"*puredkg.Result":             {"dkgres", "(N * N)"},
	"int64":                       {"int", "Z"},
	"uint64":                      {"int", "Z"},
	"common.Address":              {"addr", "N"},
}

var gvResultTypes = map[string]string{"int64": "int", "bool": "bool", "error": "err"}

var gvCoqTypes = map[string]string{"int": "Z", "bool": "bool", "err": "gen_err"}

// names a Go local must not take in the generated text
var gvDeny = map[string]bool{}

func init() {
	for _, w := range strings.Fields(`as at cofix else end exists exists2 fix for forall fun if IF in let match mod
		return Set Prop Type then using where with fst snd length negb andb orb Some None map true false
		bytes_ltb bytes_eqb nth_error pair list option bool nat N Z kv lbl dkg GAccept GReject GPanic GS
		ENil ENoRows EOther O S`) {
		gvDeny[w] = true
	}
}

func gvName(n string) string {
	if n == "_" {
		return "_"
	}
	if gvDeny[n] || strings.HasPrefix(n, "gen_") || strings.HasPrefix(n, "o_") || strings.HasPrefix(n, "s_") ||
		strings.HasPrefix(n, "km_") || strings.HasPrefix(n, "e_") || strings.HasPrefix(n, "c_") || strings.HasPrefix(n, "go_") ||
		(n[0] >= 'A' && n[0] <= 'Z') {
		return "go_" + n
	}
	return n
}

// a translated function: how it is called from another translated function
type gvSig struct {
	coq     string
	params  []string // type tags in Go order
	results string   // type tag of the call
}

type gv struct {
	fn      string
	kind    string            // "verdict" or "tuple"
	results []string          // tuple kind: type tags of the results
	vars    map[string]string // Go local -> type tag
	errFrom map[string]string // error variable -> callee it came from
	msgType string            // type tag the parameter of interface type p2pmsg.Message is asserted to
	loop    bool
	hoisted map[ast.Expr][2]string // index expression -> Coq variable, type tag
	fresh   *int
	sigs    map[string]gvSig
	err     *error
}

func (t *gv) fail(format string, a ...any) string {
	if *t.err == nil {
		*t.err = fmt.Errorf(t.fn+": "+format, a...)
	}
	return "GPanic"
}

func (t *gv) child() *gv {
	c := *t
	c.vars = map[string]string{}
	for k, v := range t.vars {
		c.vars[k] = v
	}
	c.errFrom = map[string]string{}
	for k, v := range t.errFrom {
		c.errFrom[k] = v
	}
	return &c
}

func (t *gv) wrap(v string) string {
	if t.loop {
		return "Some (" + v + ")"
	}
	return v
}

func (t *gv) panicValue() string {
	if t.kind != "verdict" {
		return t.fail("slice index in a function that does not return a verdict")
	}
	return t.wrap("GPanic")
}

func gvSel(e ast.Expr) (string, string, bool) {
	s, ok := e.(*ast.SelectorExpr)
	if !ok {
		return "", "", false
	}
	x, ok := s.X.(*ast.Ident)
	if !ok {
		return "", "", false
	}
	return x.Name, s.Sel.Name, true
}

func gvIsPkg(e ast.Expr, pkg, name string) bool {
	p, n, ok := gvSel(e)
	return ok && p == pkg && n == name
}

func gvIsNil(e ast.Expr) bool {
	id, ok := e.(*ast.Ident)
	return ok && id.Name == "nil"
}

// ---- expressions --------------------------------------------------------------------------

func (t *gv) expr(e ast.Expr) (string, string) {
	if h, ok := t.hoisted[e]; ok {
		return h[0], h[1]
	}
	switch x := e.(type) {
	case *ast.ParenExpr:
		return t.expr(x.X)
	case *ast.Ident:
		if x.Name == "true" || x.Name == "false" {
			return x.Name, "bool"
		}
		if ty, ok := t.vars[x.Name]; ok {
			return gvName(x.Name), ty
		}
		return t.fail("unknown identifier %s", x.Name), "?"
	case *ast.BasicLit:
		if x.Kind == token.INT {
			return x.Value, "int"
		}
		return t.fail("literal %s", x.Value), "?"
	case *ast.UnaryExpr:
		a, ty := t.expr(x.X)
		switch {
		case x.Op == token.NOT && ty == "bool":
			return "(negb " + a + ")", "bool"
		case x.Op == token.SUB && ty == "int":
			if _, lit := x.X.(*ast.BasicLit); lit {
				return "(-" + a + ")", "int"
			}
		}
		return t.fail("unary %s on %s", x.Op, ty), "?"
	case *ast.BinaryExpr:
		return t.binary(x)
	case *ast.SelectorExpr:
		if gvIsPkg(x, "math", "MaxInt64") {
			return "9223372036854775807", "int"
		}
		return t.field(x.X, x.Sel.Name)
	case *ast.CallExpr:
		return t.call(x)
	case *ast.IndexExpr:
		return t.fail("slice index in an unsupported position: %s", ksText(e)), "?"
	}
	return t.fail("expression form %T: %s", e, ksText(e)), "?"
}

func (t *gv) field(recv ast.Expr, sel string) (string, string) {
	r, ty := t.expr(recv)
	f, ok := gvFields[ty][sel]
	if !ok {
		return t.fail("unknown field or method %s of a value of kind %s", sel, ty), "?"
	}
	if strings.Contains(f.coq, "%s") {
		return fmt.Sprintf(f.coq, r), f.typ
	}
	return f.coq, f.typ
}

// the error classes an expression over one error variable distinguishes
func (t *gv) errTest(x *ast.BinaryExpr) (string, bool) {
	l, r := x.X, x.Y
	if gvIsNil(l) || gvIsPkg(l, "pgx", "ErrNoRows") {
		l, r = r, l
	}
	id, ok := l.(*ast.Ident)
	if !ok || t.vars[id.Name] != "err" {
		return "", false
	}
	var s string
	switch {
	case gvIsNil(r):
		s = "(gen_is_nil " + gvName(id.Name) + ")"
	case gvIsPkg(r, "pgx", "ErrNoRows"):
		s = "(gen_is_norows " + gvName(id.Name) + ")"
	default:
		return "", false
	}
	switch x.Op {
	case token.EQL:
		return s, true
	case token.NEQ:
		return "(negb " + s + ")", true
	}
	return "", false
}

func (t *gv) binary(x *ast.BinaryExpr) (string, string) {
	if s, ok := t.errTest(x); ok {
		return s, "bool"
	}
	// bytes.Compare(a, b) <op> 0
	if c, ok := x.X.(*ast.CallExpr); ok && gvIsPkg(c.Fun, "bytes", "Compare") && len(c.Args) == 2 {
		if lit, ok := x.Y.(*ast.BasicLit); ok && lit.Value == "0" {
			a, ta := t.expr(c.Args[0])
			b, tb := t.expr(c.Args[1])
			if ta != "bytes" || tb != "bytes" {
				return t.fail("bytes.Compare of %s and %s", ta, tb), "?"
			}
			switch x.Op {
			case token.LSS:
				return "(bytes_ltb " + a + " " + b + ")", "bool"
			case token.GTR:
				return "(bytes_ltb " + b + " " + a + ")", "bool"
			case token.EQL:
				return "(bytes_eqb " + a + " " + b + ")", "bool"
			case token.NEQ:
				return "(negb (bytes_eqb " + a + " " + b + "))", "bool"
			}
		}
		return t.fail("comparison of bytes.Compare: %s", ksText(x)), "?"
	}
	a, ta := t.expr(x.X)
	b, tb := t.expr(x.Y)
	if ta != tb {
		return t.fail("operands of kinds %s and %s: %s", ta, tb, ksText(x)), "?"
	}
	switch ta {
	case "bool":
		switch x.Op {
		case token.LAND:
			return "(" + a + " && " + b + ")", "bool"
		case token.LOR:
			return "(" + a + " || " + b + ")", "bool"
		}
	case "int":
		switch x.Op {
		case token.EQL:
			return "(" + a + " =? " + b + ")", "bool"
		case token.NEQ:
			return "(negb (" + a + " =? " + b + "))", "bool"
		case token.LSS:
			return "(" + a + " <? " + b + ")", "bool"
		case token.LEQ:
			return "(" + a + " <=? " + b + ")", "bool"
		case token.GTR:
			return "(" + b + " <? " + a + ")", "bool"
		case token.GEQ:
			return "(" + b + " <=? " + a + ")", "bool"
		case token.SUB, token.ADD:
			// only index arithmetic with a literal (no wrap-around within the slices of a message)
			if _, lit := x.Y.(*ast.BasicLit); lit {
				return "(" + a + " " + x.Op.String() + " " + b + ")", "int"
			}
		}
	case "addr":
		switch x.Op {
		case token.EQL:
			return "(" + a + " =? " + b + ")%N", "bool"
		case token.NEQ:
			return "(negb (" + a + " =? " + b + ")%N)", "bool"
		}
	}
	return t.fail("operator %s on %s: %s", x.Op, ta, ksText(x)), "?"
}

func (t *gv) args(c *ast.CallExpr, want ...string) ([]string, bool) {
	if len(c.Args) != len(want) {
		t.fail("%s called with %d arguments", ksText(c.Fun), len(c.Args))
		return nil, false
	}
	var out []string
	for i, a := range c.Args {
		s, ty := t.expr(a)
		if ty != want[i] {
			t.fail("argument %d of %s is of kind %s, expected %s", i+1, ksText(c.Fun), ty, want[i])
			return nil, false
		}
		if ty != "ctx" && ty != "queries" {
			out = append(out, s)
		}
	}
	return out, true
}

func (t *gv) call(c *ast.CallExpr) (string, string) {
	simple := func(coq, res string, want ...string) (string, string) {
		a, ok := t.args(c, want...)
		if !ok {
			return "GPanic", "?"
		}
		if coq == "" {
			return a[0], res
		}
		return "(" + coq + " " + strings.Join(a, " ") + ")", res
	}
	if id, ok := c.Fun.(*ast.Ident); ok {
		switch id.Name {
		case "len":
			if len(c.Args) == 1 {
				a, ty := t.expr(c.Args[0])
				if strings.HasPrefix(ty, "list:") {
					return "(Z.of_nat (length " + a + "))", "int"
				}
			}
			return t.fail("len of something that is not a known slice: %s", ksText(c)), "?"
		case "int", "int64":
			return simple("gen_to_int64", "int", "int")
		case "int32":
			return simple("gen_to_int32", "int", "int")
		case "uint64":
			return simple("gen_to_uint64", "int", "int")
		}
		if sg, ok := t.sigs[id.Name]; ok {
			return simple(sg.coq+" gen_O", sg.results, sg.params...)
		}
		return t.fail("unknown callee %s", id.Name), "?"
	}
	s, ok := c.Fun.(*ast.SelectorExpr)
	if !ok {
		return t.fail("call form %s", ksText(c)), "?"
	}
	if p, ok := s.X.(*ast.Ident); ok {
		if _, local := t.vars[p.Name]; !local {
			switch p.Name + "." + s.Sel.Name {
			case "database.New":
				return simple("", "queries", "dbpool")
			case "shdb.DecodePureDKGResult":
				return simple("o_decode_dkg gen_O", "tuple:dkgres,err", "pure")
			case "shdb.EncodeAddress":
				return simple("", "addr", "addr")
			case "medley.Uint64ToInt64Safe":
				if sg, ok := t.sigs["Uint64ToInt64Safe"]; ok {
					return simple(sg.coq+" gen_O", sg.results, sg.params...)
				}
				return t.fail("medley.Uint64ToInt64Safe was not translated"), "?"
			case "shcrypto.ComputeEpochID":
				return simple("", "epochid", "bytes")
			case "shcrypto.VerifyEpochSecretKeyShare":
				return simple("o_verify_share gen_O", "bool", "sshare", "pkshare", "epochid")
			case "shcrypto.VerifyEpochSecretKey":
				return simple("o_verify_key gen_O", "tuple:bool,err", "skey", "pubkey", "bytes")
			case "bytes.Equal":
				return simple("bytes_eqb", "bool", "bytes", "bytes")
			case "errors.Is":
				if len(c.Args) == 2 && gvIsPkg(c.Args[1], "pgx", "ErrNoRows") {
					if id, ok := c.Args[0].(*ast.Ident); ok && t.vars[id.Name] == "err" {
						return "(gen_is_norows " + gvName(id.Name) + ")", "bool"
					}
				}
				return t.fail("errors.Is in an unknown form: %s", ksText(c)), "?"
			}
			return t.fail("unknown callee %s.%s", p.Name, s.Sel.Name), "?"
		}
	}
	// a method: of the query object, or an argument-less method of a value
	recv, rty := t.expr(s.X)
	if rty == "queries" {
		switch s.Sel.Name {
		case "GetKeyperIndex":
			if sg, ok := t.sigs["GetKeyperIndex"]; ok {
				return simple(sg.coq+" gen_O", sg.results, sg.params...)
			}
		case "GetDKGResultForKeyperConfigIndex":
			return simple("o_dkg_result gen_O", "tuple:dkgrow,err", "ctx", "int")
		case "GetBatchConfig":
			return simple("o_batch_config gen_O", "tuple:batchconfig,err", "ctx", "int")
		case "GetDecryptionKey":
			if len(c.Args) == 2 {
				if _, ty := t.expr(c.Args[0]); ty == "ctx" {
					if cl, ok := c.Args[1].(*ast.CompositeLit); ok && ksText(cl.Type) == "database.GetDecryptionKeyParams" && len(cl.Elts) == 2 {
						f := map[string]string{}
						for _, el := range cl.Elts {
							kv, ok := el.(*ast.KeyValueExpr)
							if !ok {
								break
							}
							v, ty := t.expr(kv.Value)
							f[ksText(kv.Key)+":"+ty] = v
						}
						if f["Eon:int"] != "" && f["EpochID:bytes"] != "" {
							return "(o_decryption_key gen_O " + f["Eon:int"] + " " + f["EpochID:bytes"] + ")", "tuple:keyrow,err"
						}
					}
				}
			}
			return t.fail("GetDecryptionKey in an unknown form: %s", ksText(c)), "?"
		}
		return t.fail("unknown query %s", s.Sel.Name), "?"
	}
	_ = recv
	if len(c.Args) == 0 {
		return t.field(s.X, s.Sel.Name+"()")
	}
	return t.fail("unknown method call %s", ksText(c)), "?"
}

// ---- conditions with slice indices ----------------------------------------------------------

func gvIndexes(e ast.Expr, out *[]*ast.IndexExpr, underLogic *bool) {
	ast.Inspect(e, func(n ast.Node) bool {
		switch x := n.(type) {
		case *ast.BinaryExpr:
			if x.Op == token.LAND || x.Op == token.LOR {
				var inner []*ast.IndexExpr
				gvIndexes(x.X, &inner, underLogic)
				gvIndexes(x.Y, &inner, underLogic)
				if len(inner) > 0 {
					*underLogic = true
				}
				return false
			}
		case *ast.IndexExpr:
			*out = append(*out, x)
		}
		return true
	})
}

// cond emits `if c then thenS else elseS`; every slice index in c is evaluated before (outside
// the slice: panic), the right operand of && only when the left one holds
func (t *gv) cond(c ast.Expr, thenS, elseS string) string {
	for {
		p, ok := c.(*ast.ParenExpr)
		if !ok {
			break
		}
		c = p.X
	}
	if be, ok := c.(*ast.BinaryExpr); ok && be.Op == token.LAND {
		var idx []*ast.IndexExpr
		var under bool
		gvIndexes(be.Y, &idx, &under)
		if len(idx) > 0 || under {
			inner := t.cond(be.Y, thenS, elseS)
			return t.cond(be.X, inner, elseS)
		}
	}
	var idx []*ast.IndexExpr
	var under bool
	gvIndexes(c, &idx, &under)
	if under {
		return t.fail("slice index under && or || in an unsupported position: %s", ksText(c))
	}
	return t.withIndexes(idx, func() string {
		s, ty := t.expr(c)
		if ty != "bool" {
			return t.fail("condition of kind %s: %s", ty, ksText(c))
		}
		return "if " + s + " then (" + thenS + ")\n  else (" + elseS + ")"
	})
}

// withIndexes binds every index expression to a fresh variable around what body emits
func (t *gv) withIndexes(idx []*ast.IndexExpr, body func() string) string {
	type bind struct{ name, l, i string }
	var binds []bind
	if t.hoisted == nil {
		t.hoisted = map[ast.Expr][2]string{}
	}
	for _, ix := range idx {
		l, lty := t.expr(ix.X)
		i, ity := t.expr(ix.Index)
		if !strings.HasPrefix(lty, "list:") || ity != "int" {
			return t.fail("index expression %s", ksText(ix))
		}
		*t.fresh++
		name := fmt.Sprintf("gen_x%d", *t.fresh)
		t.hoisted[ix] = [2]string{name, strings.TrimPrefix(lty, "list:")}
		binds = append(binds, bind{name, l, i})
	}
	s := body()
	for k := len(binds) - 1; k >= 0; k-- {
		b := binds[k]
		s = "match gen_index " + b.l + " " + b.i + " with\n  | None => " + t.panicValue() + "\n  | Some " + b.name + " =>\n  " + s + "\n  end"
	}
	return s
}

// ---- statements ---------------------------------------------------------------------------

func gvIsLog(e ast.Expr) bool {
	for {
		switch x := e.(type) {
		case *ast.CallExpr:
			e = x.Fun
		case *ast.SelectorExpr:
			e = x.X
		case *ast.Ident:
			return x.Name == "log"
		default:
			return false
		}
	}
}

// stmts translates a statement list; end says what falling off its end means ("" = refused)
func (t *gv) stmts(ss []ast.Stmt, end string) string {
	if len(ss) == 0 {
		if end == "" {
			return t.fail("a block that neither returns nor continues")
		}
		return end
	}
	rest := ss[1:]
	switch s := ss[0].(type) {
	case *ast.ExprStmt:
		if gvIsLog(s.X) {
			return t.stmts(rest, end)
		}
		return t.fail("expression statement %s", ksText(s.X))
	case *ast.AssignStmt:
		return t.assign(s, rest, end)
	case *ast.IfStmt:
		if s.Init != nil || s.Else != nil {
			return t.fail("if with an initialiser or an else branch")
		}
		// the condition is read before the statements after it rebind any of its variables
		thenS := t.child().stmts(s.Body.List, "")
		c := t.cond(s.Cond, "\x00T\x00", "\x00E\x00")
		elseS := t.stmts(rest, end)
		return strings.ReplaceAll(strings.ReplaceAll(c, "\x00T\x00", thenS), "\x00E\x00", elseS)
	case *ast.ReturnStmt:
		if len(rest) != 0 {
			return t.fail("statements after return")
		}
		return t.ret(s)
	case *ast.BranchStmt:
		if s.Tok == token.CONTINUE && s.Label == nil && t.loop && len(rest) == 0 {
			return "None"
		}
		return t.fail("branch statement %s", s.Tok)
	case *ast.RangeStmt:
		return t.rangeLoop(s, rest, end)
	}
	return t.fail("statement form %T", ss[0])
}

func (t *gv) assign(s *ast.AssignStmt, rest []ast.Stmt, end string) string {
	if s.Tok != token.DEFINE || len(s.Rhs) != 1 {
		return t.fail("assignment form (only `a, b := f(...)` and `a := e` are read)")
	}
	var names []string
	for _, l := range s.Lhs {
		id, ok := l.(*ast.Ident)
		if !ok {
			return t.fail("assignment to %s", ksText(l))
		}
		names = append(names, id.Name)
	}
	if ta, ok := s.Rhs[0].(*ast.TypeAssertExpr); ok {
		id, ok := ta.X.(*ast.Ident)
		want := map[string]string{"shares_msg": "*p2pmsg.DecryptionKeyShares", "keys_msg": "*p2pmsg.DecryptionKeys", "eonpk_msg": "*p2pmsg.EonPublicKey"}[t.msgType]
		if !ok || t.vars[id.Name] != "msgiface" || len(names) != 1 || ksText(ta.Type) != want {
			return t.fail("type assertion %s", ksText(ta))
		}
		t.vars[names[0]] = t.msgType
		return "let " + gvName(names[0]) + " := " + gvName(id.Name) + " in\n  " + t.stmts(rest, end)
	}
	var idx []*ast.IndexExpr
	var under bool
	gvIndexes(s.Rhs[0], &idx, &under)
	if under {
		return t.fail("slice index under && or || in an assignment")
	}
	return t.withIndexes(idx, func() string {
		v, ty := t.expr(s.Rhs[0])
		if ty == "queries" && len(names) == 1 {
			t.vars[names[0]] = "queries"
			return t.stmts(rest, end)
		}
		if ty == "tuple:verdict,verr" && len(names) == 2 {
			t.vars[names[0]], t.vars[names[1]] = "verdict", "verr"
			return "let " + gvName(names[0]) + " := " + v + " in\n  " + t.stmts(rest, end)
		}
		if strings.HasPrefix(ty, "tuple:") {
			tys := strings.Split(strings.TrimPrefix(ty, "tuple:"), ",")
			if len(tys) != len(names) {
				return t.fail("%d results bound to %d names", len(tys), len(names))
			}
			var pat []string
			for i, n := range names {
				pat = append(pat, gvName(n))
				if n != "_" {
					t.vars[n] = tys[i]
					if tys[i] == "err" {
						t.errFrom[n] = gvCallee(s.Rhs[0])
					}
				}
			}
			return "let '(" + strings.Join(pat, ", ") + ") := " + v + " in\n  " + t.stmts(rest, end)
		}
		if len(names) != 1 || ty == "?" {
			return t.fail("assignment of a value of kind %s to %d names", ty, len(names))
		}
		t.vars[names[0]] = ty
		return "let " + gvName(names[0]) + " := " + v + " in\n  " + t.stmts(rest, end)
	})
}

func gvCallee(e ast.Expr) string {
	c, ok := e.(*ast.CallExpr)
	if !ok {
		return ""
	}
	switch f := c.Fun.(type) {
	case *ast.Ident:
		return f.Name
	case *ast.SelectorExpr:
		return f.Sel.Name
	}
	return ""
}

// the class of an error expression in a returned tuple
func (t *gv) errValue(e ast.Expr) string {
	if gvIsNil(e) {
		return "ENil"
	}
	if id, ok := e.(*ast.Ident); ok && t.vars[id.Name] == "err" {
		return gvName(id.Name)
	}
	if c, ok := e.(*ast.CallExpr); ok {
		switch ksText(c.Fun) {
		case "errors.Errorf", "errors.New":
			return "EOther"
		case "errors.Wrapf", "errors.Wrap":
			// wrapping keeps what errors.Is sees
			if len(c.Args) >= 1 {
				if id, ok := c.Args[0].(*ast.Ident); ok && t.vars[id.Name] == "err" {
					return gvName(id.Name)
				}
			}
		}
	}
	return t.fail("error value %s", ksText(e))
}

func (t *gv) reasonOf(e ast.Expr) string {
	if gvIsNil(e) {
		return "GNotKeyper"
	}
	if id, ok := e.(*ast.Ident); ok && t.vars[id.Name] == "err" {
		if r, ok := gvErrReasons[t.errFrom[id.Name]]; ok {
			return r
		}
		return t.fail("rejection with the error of %q: no reason known", t.errFrom[id.Name])
	}
	if c, ok := e.(*ast.CallExpr); ok {
		var lit ast.Expr
		switch ksText(c.Fun) {
		case "errors.Errorf", "errors.New":
			if len(c.Args) >= 1 {
				lit = c.Args[0]
			}
		case "errors.Wrapf", "errors.Wrap":
			if len(c.Args) >= 2 {
				lit = c.Args[1]
			}
		}
		if bl, ok := lit.(*ast.BasicLit); ok && bl.Kind == token.STRING {
			for _, r := range gvReasons {
				if strings.Contains(bl.Value, r.sub) {
					return r.reason
				}
			}
			return t.fail("unknown rejection text %s", bl.Value)
		}
	}
	return t.fail("rejection with %s", ksText(e))
}

func (t *gv) ret(s *ast.ReturnStmt) string {
	if t.kind == "tuple" {
		if len(s.Results) != len(t.results) {
			return t.fail("return of %d values", len(s.Results))
		}
		var parts []string
		for i, r := range s.Results {
			if t.results[i] == "err" {
				parts = append(parts, t.errValue(r))
				continue
			}
			v, ty := t.expr(r)
			if ty != t.results[i] {
				return t.fail("result %d is of kind %s, expected %s", i+1, ty, t.results[i])
			}
			parts = append(parts, v)
		}
		return t.wrap("(" + strings.Join(parts, ", ") + ")")
	}
	if len(s.Results) == 1 {
		if c, ok := s.Results[0].(*ast.CallExpr); ok {
			if v, ty := t.expr(c); ty == "tuple:verdict,verr" {
				return t.wrap(v)
			}
		}
		return t.fail("return %s", ksText(s.Results[0]))
	}
	if len(s.Results) != 2 {
		return t.fail("return of %d values", len(s.Results))
	}
	a, b := s.Results[0], s.Results[1]
	switch {
	case gvIsPkg(a, "pubsub", "ValidationAccept") && gvIsNil(b):
		return t.wrap("GAccept")
	case gvIsPkg(a, "pubsub", "ValidationReject"):
		return t.wrap("GReject (" + t.reasonOf(b) + ")")
	}
	ia, oka := a.(*ast.Ident)
	ib, okb := b.(*ast.Ident)
	if oka && okb && t.vars[ia.Name] == "verdict" && t.vars[ib.Name] == "verr" {
		return t.wrap(gvName(ia.Name))
	}
	return t.fail("return %s, %s", ksText(a), ksText(b))
}

func (t *gv) rangeLoop(s *ast.RangeStmt, rest []ast.Stmt, end string) string {
	if t.loop {
		return t.fail("nested loop")
	}
	if s.Tok != token.DEFINE {
		return t.fail("range loop without :=")
	}
	l, lty := t.expr(s.X)
	if !strings.HasPrefix(lty, "list:") {
		return t.fail("range over a value of kind %s", lty)
	}
	names := [2]string{"_", "_"}
	for k, e := range []ast.Expr{s.Key, s.Value} {
		if e == nil {
			continue
		}
		id, ok := e.(*ast.Ident)
		if !ok {
			return t.fail("range variable %s", ksText(e))
		}
		names[k] = id.Name
	}
	b := t.child()
	b.loop = true
	if names[0] != "_" {
		b.vars[names[0]] = "int"
	}
	if names[1] != "_" {
		b.vars[names[1]] = strings.TrimPrefix(lty, "list:")
	}
	body := b.stmts(s.Body.List, "None")
	after := t.stmts(rest, end)
	return "match gen_range_until (fun " + gvName(names[0]) + " " + gvName(names[1]) + " =>\n  " + body + ") " + l + " 0 with\n  | Some gen_r => gen_r\n  | None =>\n  " + after + "\n  end"
}

// ---- functions ----------------------------------------------------------------------------

type gvSpec struct {
	file, recv, name string // source
	coq              string // name of the generated definition
	kind             string // "verdict" or "tuple"
	msgType          string // what a p2pmsg.Message parameter is (type tag = Coq type)
	doc              string
}

func gvFunction(f *ast.File, sp gvSpec, sigs map[string]gvSig) (string, error) {
	var fd *ast.FuncDecl
	if sp.recv != "" {
		fd = ksMethod(f, sp.recv, sp.name)
	} else {
		for _, d := range f.Decls {
			if x, ok := d.(*ast.FuncDecl); ok && x.Recv == nil && x.Name.Name == sp.name {
				fd = x
			}
		}
	}
	if fd == nil || fd.Body == nil {
		return "", fmt.Errorf("%s: %s not found", sp.file, sp.name)
	}
	var err error
	n := 0
	t := &gv{fn: sp.file + " " + sp.name, kind: sp.kind, vars: map[string]string{}, errFrom: map[string]string{},
		msgType: sp.msgType, fresh: &n, sigs: sigs, err: &err}
	if r := ksRecv(fd); r != "" && r != "_" {
		switch sp.recv {
		case "Queries":
			t.vars[r] = "queries"
		default:
			t.vars[r] = "handler"
		}
	}
	var coqParams []string
	var tags []string
	for _, p := range fd.Type.Params.List {
		gt := ksText(p.Type)
		var tag, cty string
		if gt == "p2pmsg.Message" && sp.msgType != "" {
			tag, cty = "msgiface", sp.msgType
		} else if pt, ok := gvParamTypes[gt]; ok {
			tag, cty = pt[0], pt[1]
		} else {
			return "", fmt.Errorf("%s: parameter of type %s", t.fn, gt)
		}
		names := p.Names
		if len(names) == 0 {
			names = []*ast.Ident{ast.NewIdent("_")}
		}
		for _, nm := range names {
			tags = append(tags, tag)
			if nm.Name != "_" {
				t.vars[nm.Name] = tag
			}
			if cty != "" {
				pn := gvName(nm.Name)
				if pn == "_" {
					pn = fmt.Sprintf("gen_p%d", len(coqParams))
				}
				coqParams = append(coqParams, "("+pn+" : "+cty+")")
			}
		}
	}
	var resTy string
	var results []string
	if fd.Type.Results != nil {
		for _, r := range fd.Type.Results.List {
			k := len(r.Names)
			if k == 0 {
				k = 1
			}
			for i := 0; i < k; i++ {
				results = append(results, ksText(r.Type))
			}
		}
	}
	switch sp.kind {
	case "verdict":
		if strings.Join(results, ",") != "pubsub.ValidationResult,error" {
			return "", fmt.Errorf("%s: results %v", t.fn, results)
		}
		resTy = "gverdict"
	case "tuple":
		var cts []string
		for _, r := range results {
			tag, ok := gvResultTypes[r]
			if !ok {
				return "", fmt.Errorf("%s: result of type %s", t.fn, r)
			}
			t.results = append(t.results, tag)
			cts = append(cts, gvCoqTypes[tag])
		}
		resTy = strings.Join(cts, " * ")
	}
	body := t.stmts(fd.Body.List, "")
	if err != nil {
		return "", err
	}
	sg := gvSig{coq: sp.coq, results: "tuple:verdict,verr"}
	if sp.kind == "tuple" {
		sg.results = "tuple:" + strings.Join(t.results, ",")
	}
	for _, tg := range tags {
		if tg == "msgiface" {
			tg = sp.msgType
		}
		sg.params = append(sg.params, tg)
	}
	sigs[sp.name] = sg
	return fmt.Sprintf("(* %s *)\nDefinition %s (gen_O : gen_oracles) %s : %s :=\n  %s.\n\n", sp.doc, sp.coq, strings.Join(coqParams, " "), resTy, body), nil
}

const gvHeader = `(* GENERATED by harness/cmd/translate (gen_gossipvalidatefuns.go) from the repository source - do not edit.
   Read: medley/medley.go, keyper/database/extend.go, keyper/epochkghandler/keyshare.go,
   keyper/epochkghandler/key.go, keyper/epochkghandler/eonpublickey.go. *)
From Coq Require Import List NArith ZArith Bool.
From Verif Require Import Lib.Bytes Model.EpochKGLabels Model.GossipMisc.
Import ListNotations.
Open Scope Z_scope.

Definition gen_to_int32 (x : Z) : Z := let m := x mod 4294967296 in if m <? 2147483648 then m else m - 4294967296.
Definition gen_to_int64 (x : Z) : Z := let m := x mod 18446744073709551616 in if m <? 9223372036854775808 then m else m - 18446744073709551616.
Definition gen_to_uint64 (x : Z) : Z := x mod 18446744073709551616.
(* l[i]: None = index out of range (a Go panic) *)
Definition gen_index {A : Type} (l : list A) (i : Z) : option A := if i <? 0 then None else nth_error l (Z.to_nat i).
(* for i, x := range l { body }: the body says Some r for "return r", None for "next element" *)
Fixpoint gen_range_until {A R : Type} (body : Z -> A -> option R) (l : list A) (i : Z) : option R :=
  match l with
  | [] => None
  | x :: r => match body i x with Some v => Some v | None => gen_range_until body r (i + 1) end
  end.

(* what the code distinguishes about an error value: nil, pgx.ErrNoRows (also wrapped), another *)
Inductive gen_err := ENil | ENoRows | EOther.
Definition gen_is_nil (e : gen_err) : bool := match e with ENil => true | _ => false end.
Definition gen_is_norows (e : gen_err) : bool := match e with ENoRows => true | _ => false end.

(* What stays a parameter. A call that returns (value, error) is a pair; the value next to a
   non-nil error is whatever the callee leaves there (the zero value for the sqlc queries).
   An element of Shares / Keys is (identity preimage, the share or key as sent). *)
Record gen_oracles := mkGenOracles {
  o_instance : Z;                                   (* config.GetInstanceID() *)
  o_max_keys : Z;                                   (* config.GetMaxNumKeysPerMessage() *)
  o_self : N;                                       (* config.GetAddress(); shdb.EncodeAddress is injective and left out *)
  o_batch_config : Z -> list N * gen_err;           (* GetBatchConfig(ctx, i): its Keypers *)
  o_dkg_result : Z -> dkg * gen_err;                (* GetDKGResultForKeyperConfigIndex(ctx, i) *)
  o_success : dkg -> bool;                          (* .Success *)
  o_decode_dkg : dkg -> (N * N) * gen_err;          (* shdb.DecodePureDKGResult(.PureResult) *)
  o_pk_shares : N * N -> list (N * N);              (* .PublicKeyShares *)
  o_pub_key : N * N -> N;                           (* .PublicKey *)
  o_raw : kv -> bytes;                              (* .Share / .Key *)
  o_decode_share : kv -> lbl * gen_err;             (* GetEpochSecretKeyShare() *)
  o_decode_key : kv -> lbl * gen_err;               (* GetEpochSecretKey() *)
  o_verify_share : lbl -> N * N -> bytes -> bool;   (* shcrypto.VerifyEpochSecretKeyShare(share, pk share, ComputeEpochID(preimage)) *)
  o_verify_key : lbl -> N -> bytes -> bool * gen_err; (* shcrypto.VerifyEpochSecretKey(key, eon public key, preimage) *)
  o_decryption_key : Z -> bytes -> bytes * gen_err  (* GetDecryptionKey(ctx, {Eon, EpochID}): its DecryptionKey *)
}.

`

func genGossipValidateFuns(repo string) (string, error) {
	specs := []gvSpec{
		{"medley/medley.go", "", "Uint64ToInt64Safe", "gen_uint64_to_int64_safe", "tuple", "", "medley.Uint64ToInt64Safe(u)"},
		{"keyper/database/extend.go", "Queries", "GetKeyperIndex", "gen_get_keyper_index", "tuple", "", "Queries.GetKeyperIndex(ctx, keyperConfigIndex, addr)"},
		{"keyper/epochkghandler/keyshare.go", "", "checkKeyShares", "gen_check_key_shares", "verdict", "", "checkKeyShares(keyShare, pureDKGResult)"},
		{"keyper/epochkghandler/keyshare.go", "DecryptionKeyShareHandler", "ValidateMessage", "gen_validate_shares", "verdict", "shares_msg", "DecryptionKeyShareHandler.ValidateMessage(ctx, msg)"},
		{"keyper/epochkghandler/key.go", "", "checkKeysErrors", "gen_check_keys_errors", "verdict", "", "checkKeysErrors(ctx, decryptionKeys, pureDKGResult, queries)"},
		{"keyper/epochkghandler/key.go", "DecryptionKeyHandler", "ValidateMessage", "gen_validate_keys", "verdict", "keys_msg", "DecryptionKeyHandler.ValidateMessage(ctx, msg)"},
		{"keyper/epochkghandler/eonpublickey.go", "EonPublicKeyHandler", "ValidateMessage", "gen_validate_eonpk", "verdict", "eonpk_msg", "EonPublicKeyHandler.ValidateMessage(ctx, msg)"},
	}
	var sb strings.Builder
	sb.WriteString(gvHeader)
	files := map[string]*ast.File{}
	sigs := map[string]gvSig{}
	for _, sp := range specs {
		f, ok := files[sp.file]
		if !ok {
			var err error
			f, _, err = parseFile(repo, sp.file)
			if err != nil {
				return "", err
			}
			files[sp.file] = f
		}
		// the signature table is per source package: GetKeyperIndex and Uint64ToInt64Safe are
		// reached through their qualified names (handled in call), the check functions by name
		s, err := gvFunction(f, sp, sigs)
		if err != nil {
			return "", err
		}
		sb.WriteString(s)
	}
	var rs []string
	for _, r := range gvReasons {
		rs = append(rs, fmt.Sprintf("%q -> %s", r.sub, r.reason))
	}
	var es []string
	for k, v := range gvErrReasons {
		es = append(es, fmt.Sprintf("error of %s -> %s", k, v))
	}
	sort.Strings(es)
	sb.WriteString("(* rejection texts -> reasons: " + strings.Join(rs, "; ") + "; " + strings.Join(es, "; ") + "; reject with a nil error -> GNotKeyper *)\n")
	return sb.String(), nil
}
