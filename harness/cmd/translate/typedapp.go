package main

// typedApp type-checks the non-test files of rolling-shutter/app once per process (go/types with
// the source importer, which type-checks the dependencies from source: tens of seconds) and is
// shared by the generators that need types (MapRanges, AppSchema).

import (
	"fmt"
	"go/ast"
	"go/importer"
	"go/parser"
	"go/token"
	"go/types"
	"os"
	"path/filepath"
	"sort"
	"strings"
)

type typedPkg struct {
	fset  *token.FileSet
	files []*ast.File
	pkg   *types.Package
	info  *types.Info
	terrs []string
}

var typedAppCache = map[string]*typedPkg{}

func typedApp(repo string) (*typedPkg, error) {
	if t, ok := typedAppCache[repo]; ok {
		return t, nil
	}
	dir := filepath.Join(repo, "app")
	old, _ := os.Getwd()
	if err := os.Chdir(repo); err != nil {
		return nil, err
	}
	defer os.Chdir(old)
	fset := token.NewFileSet()
	pkgs, err := parser.ParseDir(fset, dir, func(fi os.FileInfo) bool {
		return !strings.HasSuffix(fi.Name(), "_test.go") && !strings.Contains(fi.Name(), "verifhooks")
	}, 0)
	if err != nil {
		return nil, err
	}
	p, ok := pkgs["app"]
	if !ok {
		return nil, fmt.Errorf("package app not found in %s", dir)
	}
	t := &typedPkg{fset: fset}
	var names []string
	for n := range p.Files {
		names = append(names, n)
	}
	sort.Strings(names)
	for _, n := range names {
		t.files = append(t.files, p.Files[n])
	}
	conf := types.Config{Importer: importer.ForCompiler(fset, "source", nil), Error: func(err error) { t.terrs = append(t.terrs, err.Error()) }}
	t.info = &types.Info{Types: map[ast.Expr]types.TypeAndValue{}, Uses: map[*ast.Ident]types.Object{}, Defs: map[*ast.Ident]types.Object{}, Selections: map[*ast.SelectorExpr]*types.Selection{}}
	t.pkg, _ = conf.Check(repoModule+"/app", fset, t.files, t.info)
	if t.pkg == nil {
		return nil, fmt.Errorf("type check failed: %v", t.terrs)
	}
	typedAppCache[repo] = t
	return t, nil
}
