package main

// EpochKGFuns: the bookkeeping of keyper/epochkg/epochkg.go translated statement by statement
// into Gallina (property C01). Starting from EpochKG.HandleEpochSecretKeyShare every method of
// *EpochKG it reaches (today addEpochSecretKeyShare and computeEpochSecretKey) becomes a function
//
//	gen_<method> (E : genv V EID PK) (params ...) (st : gstate V) : gout (gstate V * results)
//
// over a state with the two maps of the struct (SecretShares, SecretKeys). What is kept:
//   - the order of the guards and which error each returns (the format string is the error),
//   - every map access with the KEY EXPRESSION it uses: identity.Hex() is `gk E KHex identity`,
//     identity.String() is `gk E KString identity`, string(identity) is `gk E KRaw identity`,
//   - the slice index PublicKeyShares[i] as an explicit bounds test (GPanic),
//   - the threshold comparison with its operator and its casts (int(x) of a uint64),
//   - range loops: a search loop `for _, s := range xs { if c { return r } }` becomes existsb, a loop
//     of `a = append(a, e)` statements becomes one fold_left per accumulator,
//   - calls of shcrypto (ComputeEpochID, VerifyEpochSecretKeyShare, ComputeEpochSecretKey) are
//     fields of the environment E: they are modelled, not translated,
//   - NewEpochKG: both maps start empty and Threshold / PublicKeyShares / NumKeypers / Keyper are
//     the fields of the puredkg result of the same name (checked, refused otherwise),
//   - keyper/epochkghandler/keyshare.go: the key expressions with which the handler reads
//     EpochKG.SecretKeys (gen_handler_key_reads).
// Everything else is refused: other statements (switch, goto, defer, go, labelled loops, else-less
// patterns not listed), calls of unknown functions, short-circuit operands that can panic or
// call methods, loops that assign anything but their accumulators.

import (
	"fmt"
	"go/ast"
	"go/token"
	"sort"
	"strconv"
	"strings"
)

func init() { register("EpochKGFuns", genEpochKGFuns) }

type gty string

const (
	tyU64    gty = "u64"
	tyInt    gty = "int"
	tyBool   gty = "bool"
	tyIdent  gty = "ident"
	tyBytes  gty = "bytes"
	tyStr    gty = "string"
	tyShare  gty = "share"
	tyShares gty = "shares"
	tyVal    gty = "val"
	tyVals   gty = "vals"
	tyInts   gty = "ints"
	tyKey    gty = "key"
	tyErr    gty = "err"
	tyEID    gty = "eid"
	tyPK     gty = "pk"
	tyNil    gty = "nil"
	tyBad    gty = "?"
)

var ekgCoqType = map[gty]string{
	tyU64: "N", tyInt: "Z", tyBool: "bool", tyIdent: "bytes", tyBytes: "bytes", tyStr: "bytes",
	tyShare: "share V", tyShares: "list (share V)", tyVal: "V", tyVals: "list V", tyInts: "list Z",
	tyKey: "option V", tyErr: "option string", tyEID: "EID", tyPK: "PK",
}

var ekgElem = map[gty]gty{tyShares: tyShare, tyVals: tyVal, tyInts: tyInt}

func ekgTypeText(e ast.Expr) string {
	switch x := e.(type) {
	case *ast.Ident:
		return x.Name
	case *ast.StarExpr:
		return "*" + ekgTypeText(x.X)
	case *ast.SelectorExpr:
		return ekgTypeText(x.X) + "." + x.Sel.Name
	case *ast.ArrayType:
		if x.Len == nil {
			return "[]" + ekgTypeText(x.Elt)
		}
	case *ast.MapType:
		return "map[" + ekgTypeText(x.Key) + "]" + ekgTypeText(x.Value)
	}
	return fmt.Sprintf("<%T>", e)
}

func ekgGoType(e ast.Expr) gty {
	switch ekgTypeText(e) {
	case "uint64", "KeyperIndex":
		return tyU64
	case "int":
		return tyInt
	case "bool":
		return tyBool
	case "string":
		return tyStr
	case "error":
		return tyErr
	case "identitypreimage.IdentityPreimage":
		return tyIdent
	case "*EpochSecretKeyShare":
		return tyShare
	case "[]*EpochSecretKeyShare":
		return tyShares
	case "*shcrypto.EpochSecretKeyShare":
		return tyVal
	case "[]*shcrypto.EpochSecretKeyShare":
		return tyVals
	case "[]int":
		return tyInts
	case "*shcrypto.EpochSecretKey":
		return tyKey
	}
	return tyBad
}

type ekgSig struct {
	params  []string
	ptypes  []gty
	results []gty
}

// a pending evaluation step that must happen before the expression being translated
type ekgPre struct {
	guard string // non-empty: `if guard then GPanic else ...`
	call  string // non-empty: `match call st with GPanic => GPanic | GOk (st, pat) => ...`
	pat   string
}

type ekgTr struct {
	recv    string
	methods map[string]*ast.FuncDecl
	sigs    map[string]ekgSig
	order   []string // translated methods, callees first
	done    map[string]string
	busy    map[string]bool
	env     map[string]gty
	results []gty
	pre     []ekgPre
	short   int
	tmp     int
	fname   string
	err     error
}

func (t *ekgTr) fail(format string, a ...any) string {
	if t.err == nil {
		t.err = fmt.Errorf("%s: "+format, append([]any{t.fname}, a...)...)
	}
	return "tt"
}

func ekgVar(name string) string { return "v_" + name }

func coqString(s string) string { return "\"" + strings.ReplaceAll(s, "\"", "\"\"") + "\"%string" }

func (t *ekgTr) nilOf(ty gty) string {
	switch ty {
	case tyErr, tyKey:
		return "None"
	case tyShares, tyVals, tyInts:
		return "[]"
	}
	return t.fail("nil of type %s", ty)
}

func (t *ekgTr) addPre(p ekgPre) {
	if t.short > 0 {
		t.fail("an operand of && or || can panic or calls a method: evaluation order not translated")
		return
	}
	t.pre = append(t.pre, p)
}

func (t *ekgTr) takePre() []ekgPre {
	p := t.pre
	t.pre = nil
	return p
}

func wrapPre(pre []ekgPre, body string) string {
	for i := len(pre) - 1; i >= 0; i-- {
		p := pre[i]
		if p.guard != "" {
			body = "if " + p.guard + " then GPanic else\n  " + body
		} else {
			body = "match " + p.call + " st with\n  | GPanic => GPanic\n  | GOk (st, " + p.pat + ") =>\n  " + body + "\n  end"
		}
	}
	return body
}

// keyFn recognises the key expressions of the identity: x.Hex(), x.String(), string(x)
func (t *ekgTr) identMethod(x *ast.CallExpr) (string, gty, bool) {
	if sel, ok := x.Fun.(*ast.SelectorExpr); ok && len(x.Args) == 0 {
		switch selText(sel.X) {
		case t.recv, "shcrypto", "errors", "fmt":
			return "", tyBad, false
		}
		recvCode, rty := t.expr(sel.X)
		if rty == tyIdent {
			switch sel.Sel.Name {
			case "Hex":
				return "(gk E KHex " + recvCode + ")", tyStr, true
			case "String":
				return "(gk E KString " + recvCode + ")", tyStr, true
			case "Bytes":
				return recvCode, tyBytes, true
			}
			t.fail("method %s of an identity is not understood", sel.Sel.Name)
			return "tt", tyBad, true
		}
	}
	return "", tyBad, false
}

var ekgExternals = map[string]struct {
	field   string
	args    []gty
	results []gty
}{
	"shcrypto.ComputeEpochID":            {"x_ComputeEpochID", []gty{tyBytes}, []gty{tyEID}},
	"shcrypto.VerifyEpochSecretKeyShare": {"x_VerifyEpochSecretKeyShare", []gty{tyVal, tyPK, tyEID}, []gty{tyBool}},
	"shcrypto.ComputeEpochSecretKey":     {"x_ComputeEpochSecretKey", []gty{tyInts, tyVals, tyU64}, []gty{tyKey, tyErr}},
}

func selText(e ast.Expr) string {
	switch x := e.(type) {
	case *ast.Ident:
		return x.Name
	case *ast.SelectorExpr:
		return selText(x.X) + "." + x.Sel.Name
	}
	return ""
}

func (t *ekgTr) args(call *ast.CallExpr, want []gty, what string) []string {
	if len(call.Args) != len(want) {
		t.fail("%s: %d arguments, expected %d", what, len(call.Args), len(want))
		return nil
	}
	var out []string
	for i, a := range call.Args {
		c, ty := t.expr(a)
		if ty == tyIdent && want[i] == tyBytes {
			ty = tyBytes
		}
		if ty != want[i] {
			t.fail("%s: argument %d has type %s, expected %s", what, i, ty, want[i])
		}
		out = append(out, c)
	}
	return out
}

// expr translates a single-valued expression.
func (t *ekgTr) expr(e ast.Expr) (string, gty) {
	switch x := e.(type) {
	case *ast.ParenExpr:
		c, ty := t.expr(x.X)
		return "(" + c + ")", ty
	case *ast.BasicLit:
		if x.Kind == token.INT {
			return x.Value, tyInt
		}
	case *ast.Ident:
		switch x.Name {
		case "true", "false":
			return x.Name, tyBool
		case "nil":
			return "nil", tyNil
		}
		if ty, ok := t.env[x.Name]; ok {
			return ekgVar(x.Name), ty
		}
		return t.fail("unknown identifier %s", x.Name), tyBad
	case *ast.SelectorExpr:
		if id, ok := x.X.(*ast.Ident); ok && id.Name == t.recv {
			switch x.Sel.Name {
			case "Threshold", "NumKeypers", "Keyper", "Eon":
				return "(f_" + x.Sel.Name + " E)", tyU64
			}
			return t.fail("field %s of the receiver used as a value", x.Sel.Name), tyBad
		}
		c, ty := t.expr(x.X)
		if ty == tyShare {
			switch x.Sel.Name {
			case "Sender":
				return "(sh_sender " + c + ")", tyU64
			case "Share":
				return "(sh_val " + c + ")", tyVal
			case "IdentityPreimage":
				return "(sh_ident " + c + ")", tyIdent
			}
		}
		return t.fail("selector .%s on a value of type %s", x.Sel.Name, ty), tyBad
	case *ast.UnaryExpr:
		if x.Op == token.NOT {
			c, ty := t.expr(x.X)
			if ty != tyBool {
				t.fail("! applied to %s", ty)
			}
			return "(negb " + c + ")", tyBool
		}
	case *ast.IndexExpr:
		if sel, ok := x.X.(*ast.SelectorExpr); ok && selText(sel.X) == t.recv {
			k, kty := t.expr(x.Index)
			switch sel.Sel.Name {
			case "SecretShares":
				if kty != tyStr {
					t.fail("SecretShares indexed by %s", kty)
				}
				return "(gen_get_list (g_SecretShares st) " + k + ")", tyShares
			case "SecretKeys":
				if kty != tyStr {
					t.fail("SecretKeys indexed by %s", kty)
				}
				return "(gen_get_opt (g_SecretKeys st) " + k + ")", tyKey
			case "PublicKeyShares":
				if kty != tyU64 && kty != tyInt {
					t.fail("PublicKeyShares indexed by %s", kty)
				}
				idx := k
				if kty == tyInt {
					// a negative int index panics as well
					t.addPre(ekgPre{guard: "(" + k + " <? 0)%Z"})
					idx = "(Z.to_N " + k + ")"
				}
				t.addPre(ekgPre{guard: "(len_PublicKeyShares E <=? " + idx + ")%N"})
				return "(at_PublicKeyShares E " + idx + ")", tyPK
			}
		}
		return t.fail("index expression %s", exprText(e)), tyBad
	case *ast.BinaryExpr:
		if x.Op == token.LAND || x.Op == token.LOR {
			a, aty := t.expr(x.X)
			t.short++
			b, bty := t.expr(x.Y)
			t.short--
			if aty != tyBool || bty != tyBool {
				t.fail("&& / || on %s, %s", aty, bty)
			}
			if x.Op == token.LAND {
				return "(" + a + " && " + b + ")", tyBool
			}
			return "(" + a + " || " + b + ")", tyBool
		}
		a, aty := t.expr(x.X)
		b, bty := t.expr(x.Y)
		if bty == tyNil || aty == tyNil {
			v, vty := a, aty
			if aty == tyNil {
				v, vty = b, bty
			}
			var isnil string
			switch vty {
			case tyErr, tyKey:
				isnil = "(negb (gen_is_some " + v + "))"
			case tyShares, tyVals, tyInts:
				isnil = "(gen_is_nil " + v + ")"
			default:
				return t.fail("comparison of %s with nil", vty), tyBad
			}
			switch x.Op {
			case token.EQL:
				return isnil, tyBool
			case token.NEQ:
				return "(negb " + isnil + ")", tyBool
			}
			return t.fail("operator %s with nil", x.Op), tyBad
		}
		if aty != bty {
			return t.fail("operands of %s have types %s and %s", x.Op, aty, bty), tyBad
		}
		sc := map[gty]string{tyU64: "N", tyInt: "Z"}[aty]
		switch x.Op {
		case token.EQL, token.NEQ:
			var eq string
			switch aty {
			case tyU64, tyInt:
				eq = "(" + a + " =? " + b + ")%" + sc
			case tyBool:
				eq = "(Bool.eqb " + a + " " + b + ")"
			case tyStr, tyBytes, tyIdent:
				eq = "(bytes_eqb " + a + " " + b + ")"
			default:
				return t.fail("== on %s", aty), tyBad
			}
			if x.Op == token.NEQ {
				return "(negb " + eq + ")", tyBool
			}
			return eq, tyBool
		case token.LSS, token.LEQ, token.GTR, token.GEQ:
			if sc == "" {
				return t.fail("ordering on %s", aty), tyBad
			}
			switch x.Op {
			case token.LSS:
				return "(" + a + " <? " + b + ")%" + sc, tyBool
			case token.LEQ:
				return "(" + a + " <=? " + b + ")%" + sc, tyBool
			case token.GTR:
				return "(" + b + " <? " + a + ")%" + sc, tyBool
			default:
				return "(" + b + " <=? " + a + ")%" + sc, tyBool
			}
		case token.ADD, token.SUB:
			op := map[token.Token]string{token.ADD: "+", token.SUB: "-"}[x.Op]
			switch aty {
			case tyInt:
				return "(gen_wrap_int (" + a + " " + op + " " + b + ")%Z)", tyInt
			case tyU64:
				return "(gen_wrap_u64 (Z.of_N " + a + " " + op + " Z.of_N " + b + ")%Z)", tyU64
			}
		}
		return t.fail("operator %s on %s", x.Op, aty), tyBad
	case *ast.CallExpr:
		if c, ty, ok := t.identMethod(x); ok {
			return c, ty
		}
		name := selText(x.Fun)
		switch name {
		case "len":
			if len(x.Args) == 1 {
				c, ty := t.expr(x.Args[0])
				if _, ok := ekgElem[ty]; ok {
					return "(Z.of_nat (List.length " + c + "))", tyInt
				}
				return t.fail("len of %s", ty), tyBad
			}
		case "int":
			if len(x.Args) == 1 {
				c, ty := t.expr(x.Args[0])
				switch ty {
				case tyU64:
					return "(gen_int_of_u64 " + c + ")", tyInt
				case tyInt:
					return c, tyInt
				}
				return t.fail("int(%s)", ty), tyBad
			}
		case "uint64", "KeyperIndex":
			if len(x.Args) == 1 {
				c, ty := t.expr(x.Args[0])
				switch ty {
				case tyInt:
					return "(gen_wrap_u64 " + c + ")", tyU64
				case tyU64:
					return c, tyU64
				}
				return t.fail("uint64(%s)", ty), tyBad
			}
		case "string":
			if len(x.Args) == 1 {
				c, ty := t.expr(x.Args[0])
				if ty == tyIdent || ty == tyBytes {
					return "(gk E KRaw " + c + ")", tyStr
				}
			}
		case "append":
			if len(x.Args) == 2 {
				a, aty := t.expr(x.Args[0])
				b, bty := t.expr(x.Args[1])
				if el, ok := ekgElem[aty]; ok && el == bty {
					return "(" + a + " ++ [" + b + "])%list", aty
				}
				return t.fail("append(%s, %s)", aty, bty), tyBad
			}
		case "errors.Errorf", "errors.New", "fmt.Errorf":
			if len(x.Args) >= 1 {
				if bl, ok := x.Args[0].(*ast.BasicLit); ok && bl.Kind == token.STRING {
					s, err := strconv.Unquote(bl.Value)
					if err == nil {
						// the arguments only fill the message; they are not evaluated for effect
						return "(Some " + coqString(s) + ")", tyErr
					}
				}
			}
			return t.fail("error constructor without a literal message"), tyBad
		}
		if ext, ok := ekgExternals[name]; ok {
			if len(ext.results) != 1 {
				return t.fail("%s returns %d values where one is needed", name, len(ext.results)), tyBad
			}
			as := t.args(x, ext.args, name)
			return "(" + ext.field + " E " + strings.Join(as, " ") + ")", ext.results[0]
		}
		// a method of the receiver with exactly one result, used inside an expression
		if sel, ok := x.Fun.(*ast.SelectorExpr); ok && selText(sel.X) == t.recv {
			sig, ok := t.method(sel.Sel.Name)
			if !ok {
				return "tt", tyBad
			}
			if len(sig.results) != 1 {
				return t.fail("method %s returns %d values where one is needed", sel.Sel.Name, len(sig.results)), tyBad
			}
			as := t.args(x, sig.ptypes, sel.Sel.Name)
			t.tmp++
			v := fmt.Sprintf("r%d_%s", t.tmp, sel.Sel.Name)
			t.addPre(ekgPre{call: "gen_" + sel.Sel.Name + " E " + strings.Join(as, " "), pat: v})
			return v, sig.results[0]
		}
		return t.fail("call of %s is not understood", exprText(x.Fun)), tyBad
	}
	return t.fail("expression %s (%T)", exprText(e), e), tyBad
}

func (t *ekgTr) retValue(vals []string) string {
	switch len(vals) {
	case 1:
		return "GOk (st, " + vals[0] + ")"
	case 2:
		return "GOk (st, (" + vals[0] + ", " + vals[1] + "))"
	}
	return t.fail("function with %d results", len(vals))
}

func (t *ekgTr) typed(e ast.Expr, want gty) string {
	c, ty := t.expr(e)
	if ty == tyNil {
		return t.nilOf(want)
	}
	if ty != want {
		return t.fail("value of type %s where %s is expected", ty, want)
	}
	return c
}

func (t *ekgTr) setMap(field, newMap string) string {
	if field == "SecretShares" {
		return "let st := mk_gstate " + newMap + " (g_SecretKeys st) in\n  "
	}
	return "let st := mk_gstate (g_SecretShares st) " + newMap + " in\n  "
}

func (t *ekgTr) copyEnv() map[string]gty {
	m := map[string]gty{}
	for k, v := range t.env {
		m[k] = v
	}
	return m
}

// multiCall recognises a call that yields several values (a receiver method or an external).
func (t *ekgTr) multiCall(e ast.Expr) (isCall bool, recvMethod string, code string, results []gty) {
	call, ok := e.(*ast.CallExpr)
	if !ok {
		return false, "", "", nil
	}
	if sel, ok := call.Fun.(*ast.SelectorExpr); ok && selText(sel.X) == t.recv {
		sig, ok := t.method(sel.Sel.Name)
		if !ok {
			return true, sel.Sel.Name, "tt", nil
		}
		as := t.args(call, sig.ptypes, sel.Sel.Name)
		return true, sel.Sel.Name, "gen_" + sel.Sel.Name + " E " + strings.Join(as, " "), sig.results
	}
	if ext, ok := ekgExternals[selText(call.Fun)]; ok && len(ext.results) > 1 {
		as := t.args(call, ext.args, selText(call.Fun))
		return true, "", "(" + ext.field + " E " + strings.Join(as, " ") + ")", ext.results
	}
	return false, "", "", nil
}

func (t *ekgTr) bindNames(lhs []ast.Expr, tys []gty, define bool) string {
	var pats []string
	for i, l := range lhs {
		id, ok := l.(*ast.Ident)
		if !ok {
			return t.fail("assignment target %s", exprText(l))
		}
		if id.Name == "_" {
			pats = append(pats, "_")
			continue
		}
		if old, ok := t.env[id.Name]; ok && old != tys[i] {
			return t.fail("variable %s changes its type from %s to %s", id.Name, old, tys[i])
		} else if !ok && !define {
			return t.fail("assignment to undeclared variable %s", id.Name)
		}
		t.env[id.Name] = tys[i]
		pats = append(pats, ekgVar(id.Name))
	}
	if len(pats) == 1 {
		return pats[0]
	}
	return "(" + strings.Join(pats, ", ") + ")"
}

// stmts translates a statement list in continuation style: the value is the outcome of the
// function from here on. `rest` is what follows the enclosing block (nil at function level).
func (t *ekgTr) stmts(ss []ast.Stmt) string {
	if t.err != nil {
		return "GPanic"
	}
	if len(ss) == 0 {
		return t.fail("a path falls off the end of the function without return")
	}
	rest := ss[1:]
	switch s := ss[0].(type) {
	case *ast.EmptyStmt:
		return t.stmts(rest)
	case *ast.ReturnStmt:
		if len(s.Results) == 1 && len(t.results) > 1 {
			isCall, m, code, results := t.multiCall(s.Results[0])
			if !isCall || len(results) != len(t.results) {
				return t.fail("return of one expression in a function with %d results", len(t.results))
			}
			for i := range results {
				if results[i] != t.results[i] {
					return t.fail("returned call has result types %v, function has %v", results, t.results)
				}
			}
			pre := t.takePre()
			if m != "" {
				return wrapPre(pre, code+" st")
			}
			return wrapPre(pre, "GOk (st, "+code+")")
		}
		if len(s.Results) != len(t.results) {
			return t.fail("return with %d values in a function with %d results", len(s.Results), len(t.results))
		}
		var vals []string
		for i, r := range s.Results {
			vals = append(vals, t.typed(r, t.results[i]))
		}
		pre := t.takePre()
		return wrapPre(pre, t.retValue(vals))
	case *ast.DeclStmt:
		gd, ok := s.Decl.(*ast.GenDecl)
		if !ok || gd.Tok != token.VAR {
			return t.fail("declaration statement")
		}
		out := ""
		for _, sp := range gd.Specs {
			vs := sp.(*ast.ValueSpec)
			if len(vs.Values) != 0 || vs.Type == nil {
				return t.fail("var declaration with initialiser")
			}
			ty := ekgGoType(vs.Type)
			if _, isList := ekgElem[ty]; !isList {
				return t.fail("var declaration of type %s", ekgTypeText(vs.Type))
			}
			for _, n := range vs.Names {
				t.env[n.Name] = ty
				out += "let " + ekgVar(n.Name) + " : " + ekgCoqType[ty] + " := [] in\n  "
			}
		}
		return out + t.stmts(rest)
	case *ast.AssignStmt:
		return t.assign(s, rest)
	case *ast.ExprStmt:
		// delete(recv.Map, key)
		if call, ok := s.X.(*ast.CallExpr); ok && selText(call.Fun) == "delete" && len(call.Args) == 2 {
			if sel, ok := call.Args[0].(*ast.SelectorExpr); ok && selText(sel.X) == t.recv &&
				(sel.Sel.Name == "SecretShares" || sel.Sel.Name == "SecretKeys") {
				k, kty := t.expr(call.Args[1])
				if kty != tyStr {
					return t.fail("delete with a key of type %s", kty)
				}
				pre := t.takePre()
				return wrapPre(pre, t.setMap(sel.Sel.Name, "(adel (g_"+sel.Sel.Name+" st) "+k+")")+t.stmts(rest))
			}
		}
		return t.fail("expression statement %s", exprText(s.X))
	case *ast.IfStmt:
		return t.ifStmt(s, rest)
	case *ast.RangeStmt:
		return t.rangeStmt(s, rest)
	}
	return t.fail("statement %T", ss[0])
}

func (t *ekgTr) assign(s *ast.AssignStmt, rest []ast.Stmt) string {
	if s.Tok != token.DEFINE && s.Tok != token.ASSIGN {
		return t.fail("assignment operator %s", s.Tok)
	}
	// recv.Map[key] = v
	if len(s.Lhs) == 1 && len(s.Rhs) == 1 {
		if ix, ok := s.Lhs[0].(*ast.IndexExpr); ok {
			sel, ok := ix.X.(*ast.SelectorExpr)
			if !ok || selText(sel.X) != t.recv || s.Tok != token.ASSIGN {
				return t.fail("indexed assignment to %s", exprText(ix.X))
			}
			var vty gty
			switch sel.Sel.Name {
			case "SecretShares":
				vty = tyShares
			case "SecretKeys":
				vty = tyKey
			default:
				return t.fail("assignment into %s", sel.Sel.Name)
			}
			k, kty := t.expr(ix.Index)
			if kty != tyStr {
				return t.fail("map %s indexed by %s", sel.Sel.Name, kty)
			}
			v := t.typed(s.Rhs[0], vty)
			pre := t.takePre()
			return wrapPre(pre, t.setMap(sel.Sel.Name, "(aset (g_"+sel.Sel.Name+" st) "+k+" "+v+")")+t.stmts(rest))
		}
	}
	if len(s.Rhs) != 1 {
		return t.fail("parallel assignment")
	}
	// _, ok := recv.Map[key]
	if len(s.Lhs) == 2 {
		if ix, ok := s.Rhs[0].(*ast.IndexExpr); ok {
			sel, ok := ix.X.(*ast.SelectorExpr)
			if !ok || selText(sel.X) != t.recv || (sel.Sel.Name != "SecretShares" && sel.Sel.Name != "SecretKeys") {
				return t.fail("two-value index expression on %s", exprText(ix.X))
			}
			k, kty := t.expr(ix.Index)
			if kty != tyStr {
				return t.fail("map %s indexed by %s", sel.Sel.Name, kty)
			}
			vty := tyShares
			get := "gen_get_list"
			if sel.Sel.Name == "SecretKeys" {
				vty, get = tyKey, "gen_get_opt"
			}
			pat := t.bindNames(s.Lhs, []gty{vty, tyBool}, s.Tok == token.DEFINE)
			pre := t.takePre()
			return wrapPre(pre, "let "+pat+" := ("+get+" (g_"+sel.Sel.Name+" st) "+k+", amem (g_"+sel.Sel.Name+" st) "+k+") in\n  "+t.stmts(rest))
		}
	}
	if isCall, m, code, results := t.multiCall(s.Rhs[0]); isCall && (m != "" || len(results) > 1) {
		if len(results) != len(s.Lhs) {
			return t.fail("call yields %d values for %d targets", len(results), len(s.Lhs))
		}
		pre := t.takePre()
		pat := t.bindNames(s.Lhs, results, s.Tok == token.DEFINE)
		if m != "" {
			return wrapPre(pre, "match "+code+" st with\n  | GPanic => GPanic\n  | GOk (st, "+pat+") =>\n  "+t.stmts(rest)+"\n  end")
		}
		return wrapPre(pre, "let "+pat+" := "+code+" in\n  "+t.stmts(rest))
	}
	if len(s.Lhs) != 1 {
		return t.fail("assignment with %d targets", len(s.Lhs))
	}
	c, ty := t.expr(s.Rhs[0])
	if ty == tyNil {
		id, _ := s.Lhs[0].(*ast.Ident)
		if id == nil || t.env[id.Name] == "" {
			return t.fail("nil assigned to a new variable")
		}
		ty = t.env[id.Name]
		c = t.nilOf(ty)
	}
	pre := t.takePre()
	pat := t.bindNames(s.Lhs, []gty{ty}, s.Tok == token.DEFINE)
	return wrapPre(pre, "let "+pat+" := "+c+" in\n  "+t.stmts(rest))
}

func (t *ekgTr) ifStmt(s *ast.IfStmt, rest []ast.Stmt) string {
	saved := t.copyEnv()
	head := ""
	if s.Init != nil {
		as, ok := s.Init.(*ast.AssignStmt)
		if !ok {
			return t.fail("if with an init statement that is not an assignment")
		}
		// translate the init as a statement followed by the if without init, in a scope of its own
		inner := *s
		inner.Init = nil
		code := t.assign(as, append([]ast.Stmt{&inner}, rest...))
		t.env = saved
		return code
	}
	cond, cty := t.expr(s.Cond)
	if cty != tyBool {
		return t.fail("condition of type %s", cty)
	}
	pre := t.takePre()
	thenCode := t.stmts(append(append([]ast.Stmt{}, s.Body.List...), rest...))
	t.env = t.copyEnvFrom(saved)
	var elseCode string
	switch e := s.Else.(type) {
	case nil:
		elseCode = t.stmts(rest)
	case *ast.BlockStmt:
		elseCode = t.stmts(append(append([]ast.Stmt{}, e.List...), rest...))
	case *ast.IfStmt:
		elseCode = t.stmts(append([]ast.Stmt{e}, rest...))
	default:
		return t.fail("else branch %T", s.Else)
	}
	t.env = saved
	return head + wrapPre(pre, "if "+cond+"\n  then ("+thenCode+")\n  else ("+elseCode+")")
}

func (t *ekgTr) copyEnvFrom(m map[string]gty) map[string]gty {
	c := map[string]gty{}
	for k, v := range m {
		c[k] = v
	}
	return c
}

func (t *ekgTr) rangeStmt(s *ast.RangeStmt, rest []ast.Stmt) string {
	if s.Tok != token.DEFINE || (s.Key != nil && exprText(s.Key) != "_") || s.Value == nil {
		return t.fail("range loop header")
	}
	xs, xty := t.expr(s.X)
	el, ok := ekgElem[xty]
	if !ok {
		return t.fail("range over %s", xty)
	}
	if len(t.pre) != 0 {
		return t.fail("range expression with evaluation steps")
	}
	v := exprText(s.Value)
	saved := t.copyEnv()
	t.env[v] = el
	defer func() {}()
	body := s.Body.List
	// search loop: for _, v := range xs { if c { return r } }
	if len(body) == 1 {
		if is, ok := body[0].(*ast.IfStmt); ok && is.Init == nil && is.Else == nil && len(is.Body.List) == 1 {
			if rs, ok := is.Body.List[0].(*ast.ReturnStmt); ok {
				cond, cty := t.expr(is.Cond)
				if cty != tyBool || len(t.pre) != 0 {
					return t.fail("search loop condition")
				}
				t.env = saved // the returned values must not depend on the loop variable
				ret := t.stmts([]ast.Stmt{rs})
				if t.err != nil {
					return "GPanic"
				}
				t.env = t.copyEnvFrom(saved)
				after := t.stmts(rest)
				return "if existsb (fun " + ekgVar(v) + " => " + cond + ") " + xs + "\n  then (" + ret + ")\n  else (" + after + ")"
			}
		}
	}
	// accumulation loop: every statement is `a = append(a, e)` with e free of the accumulators
	out := ""
	accs := map[string]bool{}
	type acc struct{ name, e string }
	var list []acc
	for _, st := range body {
		as, ok := st.(*ast.AssignStmt)
		if !ok || as.Tok != token.ASSIGN || len(as.Lhs) != 1 || len(as.Rhs) != 1 {
			return t.fail("loop body statement %T (only `a = append(a, e)` and the search form are understood)", st)
		}
		a := exprText(as.Lhs[0])
		call, ok := as.Rhs[0].(*ast.CallExpr)
		if !ok || selText(call.Fun) != "append" || len(call.Args) != 2 || exprText(call.Args[0]) != a {
			return t.fail("loop body assignment to %s is not an append to itself", a)
		}
		aty, ok := saved[a]
		if !ok {
			return t.fail("loop accumulator %s is not declared before the loop", a)
		}
		if accs[a] {
			return t.fail("accumulator %s appended twice in one loop body", a)
		}
		accs[a] = true
		e, ety := t.expr(call.Args[1])
		if ekgElem[aty] != ety || len(t.pre) != 0 {
			return t.fail("append of %s to %s", ety, aty)
		}
		list = append(list, acc{a, e})
	}
	for _, a := range list {
		for other := range accs {
			if strings.Contains(a.e, ekgVar(other)+" ") || strings.HasSuffix(a.e, ekgVar(other)) || strings.Contains(a.e, ekgVar(other)+")") {
				return t.fail("appended element mentions accumulator %s", other)
			}
		}
		out += "let " + ekgVar(a.name) + " := fold_left (fun acc " + ekgVar(v) + " => (acc ++ [" + a.e + "])%list) " + xs + " " + ekgVar(a.name) + " in\n  "
	}
	if len(list) == 0 {
		return t.fail("empty loop body")
	}
	t.env = saved
	return out + t.stmts(rest)
}

// method translates (once) the method of the receiver with the given name and returns its signature.
func (t *ekgTr) method(name string) (ekgSig, bool) {
	if sig, ok := t.sigs[name]; ok {
		return sig, true
	}
	fd, ok := t.methods[name]
	if !ok {
		t.fail("method %s of the receiver not found in epochkg.go", name)
		return ekgSig{}, false
	}
	if t.busy[name] {
		t.fail("recursive method %s", name)
		return ekgSig{}, false
	}
	t.busy[name] = true
	var sig ekgSig
	for _, p := range fd.Type.Params.List {
		ty := ekgGoType(p.Type)
		if ty == tyBad {
			t.fail("parameter type %s of %s", ekgTypeText(p.Type), name)
			return ekgSig{}, false
		}
		for _, n := range p.Names {
			sig.params = append(sig.params, n.Name)
			sig.ptypes = append(sig.ptypes, ty)
		}
	}
	if fd.Type.Results == nil {
		t.fail("method %s has no result", name)
		return ekgSig{}, false
	}
	for _, r := range fd.Type.Results.List {
		ty := ekgGoType(r.Type)
		if ty == tyBad || len(r.Names) > 0 {
			t.fail("result type %s of %s", ekgTypeText(r.Type), name)
			return ekgSig{}, false
		}
		sig.results = append(sig.results, ty)
	}
	if len(sig.results) > 2 {
		t.fail("method %s has %d results", name, len(sig.results))
		return ekgSig{}, false
	}
	// translate the body in a fresh context
	savedEnv, savedRes, savedPre, savedName, savedRecv := t.env, t.results, t.pre, t.fname, t.recv
	t.env = map[string]gty{}
	for i, p := range sig.params {
		t.env[p] = sig.ptypes[i]
	}
	t.results, t.pre, t.fname = sig.results, nil, name
	if fd.Recv == nil || len(fd.Recv.List) != 1 || len(fd.Recv.List[0].Names) != 1 {
		t.fail("receiver of %s", name)
		return ekgSig{}, false
	}
	t.recv = fd.Recv.List[0].Names[0].Name
	body := t.stmts(fd.Body.List)
	t.env, t.results, t.pre, t.fname, t.recv = savedEnv, savedRes, savedPre, savedName, savedRecv
	if t.err != nil {
		return ekgSig{}, false
	}
	var ps []string
	for i, p := range sig.params {
		ps = append(ps, "("+ekgVar(p)+" : "+ekgCoqType[sig.ptypes[i]]+")")
	}
	var rt string
	if len(sig.results) == 1 {
		rt = ekgCoqType[sig.results[0]]
	} else {
		rt = "(" + ekgCoqType[sig.results[0]] + " * " + ekgCoqType[sig.results[1]] + ")"
	}
	t.done[name] = fmt.Sprintf("(* %s *)\nDefinition gen_%s {V EID PK : Type} (E : genv V EID PK) %s (st : gstate V)\n  : gout (gstate V * %s) :=\n  %s.\n",
		name, name, strings.Join(ps, " "), rt, body)
	t.order = append(t.order, name)
	t.sigs[name] = sig
	t.busy[name] = false
	return sig, true
}

const ekgPrelude = `(* GENERATED by harness/cmd/translate (gen_epochkgfuns.go) from keyper/epochkg/epochkg.go and
   keyper/epochkghandler/keyshare.go - do not edit. *)
From Coq Require Import List NArith ZArith Bool String.
From Verif Require Import Lib.Bytes Lib.Assoc Model.EpochKG.
Import ListNotations.

(* the functions of an identity that are used as map keys *)
Inductive keyfn := KHex | KString | KRaw.

(* outcome of a translated method: a value, or a run-time panic *)
Inductive gout (A : Type) := GOk (a : A) | GPanic.
Arguments GOk {A}.
Arguments GPanic {A}.

(* Go's int(x) of a uint64 (two's complement), wrap-around of int and of uint64 arithmetic *)
Definition gen_int_of_u64 (u : N) : Z :=
  let z := (Z.of_N u mod 18446744073709551616)%Z in
  if (z <? 9223372036854775808)%Z then z else (z - 18446744073709551616)%Z.
Definition gen_wrap_int (z : Z) : Z :=
  let m := (z mod 18446744073709551616)%Z in
  if (m <? 9223372036854775808)%Z then m else (m - 18446744073709551616)%Z.
Definition gen_wrap_u64 (z : Z) : N := Z.to_N (z mod 18446744073709551616)%Z.
Definition gen_is_nil {A} (l : list A) : bool := match l with [] => true | _ => false end.
Definition gen_is_some {A} (o : option A) : bool := match o with Some _ => true | None => false end.
(* reading a map whose values are slices / pointers: the zero value when the key is absent *)
Definition gen_get_list {A} (m : amap (list A)) (k : bytes) : list A :=
  match aget m k with Some l => l | None => [] end.
Definition gen_get_opt {A} (m : amap (option A)) (k : bytes) : option A :=
  match aget m k with Some p => p | None => None end.

(* what the translated code takes from its environment: the scalar fields of the receiver, its
   PublicKeyShares slice (length and element), the key functions of an identity and the
   shcrypto functions it calls (modelled, not translated) *)
Record genv (V EID PK : Type) := mk_genv {
  gk : keyfn -> bytes -> bytes;
  f_Eon : N; f_NumKeypers : N; f_Threshold : N; f_Keyper : N;
  len_PublicKeyShares : N;
  at_PublicKeyShares : N -> PK;
  x_ComputeEpochID : bytes -> EID;
  x_VerifyEpochSecretKeyShare : V -> PK -> EID -> bool;
  x_ComputeEpochSecretKey : list Z -> list V -> N -> option V * option string
}.
Arguments gk {V EID PK}.
Arguments f_Eon {V EID PK}.
Arguments f_NumKeypers {V EID PK}.
Arguments f_Threshold {V EID PK}.
Arguments f_Keyper {V EID PK}.
Arguments len_PublicKeyShares {V EID PK}.
Arguments at_PublicKeyShares {V EID PK}.
Arguments x_ComputeEpochID {V EID PK}.
Arguments x_VerifyEpochSecretKeyShare {V EID PK}.
Arguments x_ComputeEpochSecretKey {V EID PK}.

(* the two maps of the EpochKG struct *)
Record gstate (V : Type) := mk_gstate {
  g_SecretShares : amap (list (share V));
  g_SecretKeys : amap (option V)
}.
Arguments mk_gstate {V}.
Arguments g_SecretShares {V}.
Arguments g_SecretKeys {V}.

`

func genEpochKGFuns(repo string) (string, error) {
	f, _, err := parseFile(repo, "keyper/epochkg/epochkg.go")
	if err != nil {
		return "", err
	}
	// ---- the shapes of the two structs ----
	structs := map[string]map[string]string{}
	for _, d := range f.Decls {
		gd, ok := d.(*ast.GenDecl)
		if !ok || gd.Tok != token.TYPE {
			continue
		}
		for _, sp := range gd.Specs {
			ts := sp.(*ast.TypeSpec)
			if st, ok := ts.Type.(*ast.StructType); ok {
				m := map[string]string{}
				for _, fl := range st.Fields.List {
					for _, n := range fl.Names {
						m[n.Name] = ekgTypeText(fl.Type)
					}
				}
				structs[ts.Name.Name] = m
			}
		}
	}
	wantKG := map[string]string{
		"Eon": "uint64", "NumKeypers": "uint64", "Threshold": "uint64", "Keyper": "KeyperIndex",
		"PublicKeyShares": "[]*shcrypto.EonPublicKeyShare",
		"SecretShares":    "map[string][]*EpochSecretKeyShare",
		"SecretKeys":      "map[string]*shcrypto.EpochSecretKey",
	}
	for k, v := range wantKG {
		if structs["EpochKG"][k] != v {
			return "", fmt.Errorf("struct EpochKG: field %s has type %q, expected %q", k, structs["EpochKG"][k], v)
		}
	}
	for name, ty := range structs["EpochKG"] {
		if strings.HasPrefix(ty, "map[") && name != "SecretShares" && name != "SecretKeys" {
			return "", fmt.Errorf("struct EpochKG: unexpected map field %s", name)
		}
	}
	wantShare := map[string]string{"IdentityPreimage": "identitypreimage.IdentityPreimage", "Sender": "KeyperIndex", "Share": "*shcrypto.EpochSecretKeyShare"}
	for k, v := range wantShare {
		if structs["EpochSecretKeyShare"][k] != v {
			return "", fmt.Errorf("struct EpochSecretKeyShare: field %s has type %q, expected %q", k, structs["EpochSecretKeyShare"][k], v)
		}
	}
	// ---- NewEpochKG: field wiring and empty maps ----
	nk := findFunc(f, "NewEpochKG")
	if nk == nil || len(nk.Type.Params.List) != 1 || len(nk.Type.Params.List[0].Names) != 1 || len(nk.Body.List) != 1 {
		return "", fmt.Errorf("NewEpochKG: unexpected shape")
	}
	res := nk.Type.Params.List[0].Names[0].Name
	wired := map[string]string{}
	if rs, ok := nk.Body.List[0].(*ast.ReturnStmt); ok && len(rs.Results) == 1 {
		if ue, ok := rs.Results[0].(*ast.UnaryExpr); ok && ue.Op == token.AND {
			if cl, ok := ue.X.(*ast.CompositeLit); ok {
				for _, el := range cl.Elts {
					kv, ok := el.(*ast.KeyValueExpr)
					if !ok {
						return "", fmt.Errorf("NewEpochKG: positional composite literal")
					}
					name := exprText(kv.Key)
					if call, ok := kv.Value.(*ast.CallExpr); ok && selText(call.Fun) == "make" && len(call.Args) == 1 {
						wired[name] = "make:" + ekgTypeText(call.Args[0])
					} else {
						wired[name] = selText(kv.Value)
					}
				}
			}
		}
	}
	for _, fld := range []string{"Eon", "NumKeypers", "Threshold", "Keyper", "PublicKeyShares"} {
		if wired[fld] != res+"."+fld {
			return "", fmt.Errorf("NewEpochKG: field %s is initialised from %q, expected %s.%s", fld, wired[fld], res, fld)
		}
	}
	if wired["SecretShares"] != "make:"+wantKG["SecretShares"] || wired["SecretKeys"] != "make:"+wantKG["SecretKeys"] {
		return "", fmt.Errorf("NewEpochKG: the maps are not created empty with make")
	}

	// ---- the methods ----
	t := &ekgTr{methods: map[string]*ast.FuncDecl{}, sigs: map[string]ekgSig{}, done: map[string]string{}, busy: map[string]bool{}, fname: "epochkg.go"}
	for _, d := range f.Decls {
		if fd, ok := d.(*ast.FuncDecl); ok && fd.Recv != nil && len(fd.Recv.List) == 1 && ekgTypeText(fd.Recv.List[0].Type) == "*EpochKG" {
			t.methods[fd.Name.Name] = fd
		}
	}
	sig, ok := t.method("HandleEpochSecretKeyShare")
	if t.err != nil || !ok {
		return "", t.err
	}
	if len(sig.ptypes) != 1 || sig.ptypes[0] != tyShare || len(sig.results) != 1 || sig.results[0] != tyErr {
		return "", fmt.Errorf("HandleEpochSecretKeyShare: unexpected signature")
	}

	var sb strings.Builder
	sb.WriteString(ekgPrelude)
	sb.WriteString("(* NewEpochKG: both maps are created empty; Eon, NumKeypers, Threshold, Keyper and\n   PublicKeyShares are the fields of the same name of the puredkg result *)\nDefinition gen_init {V : Type} : gstate V := mk_gstate [] [].\n\n")
	for _, name := range t.order {
		sb.WriteString(t.done[name])
		sb.WriteString("\n")
	}
	fmt.Fprintf(&sb, "(* the methods translated, callees first *)\nDefinition gen_methods : list string := [%s].\n\n", func() string {
		var xs []string
		for _, n := range t.order {
			xs = append(xs, coqString(n))
		}
		return strings.Join(xs, "; ")
	}())

	// ---- the handler's reads of EpochKG.SecretKeys ----
	fh, _, err := parseFile(repo, "keyper/epochkghandler/keyshare.go")
	if err != nil {
		return "", err
	}
	var reads []string
	var herr error
	ast.Inspect(fh, func(n ast.Node) bool {
		ix, ok := n.(*ast.IndexExpr)
		if !ok {
			return true
		}
		sel, ok := ix.X.(*ast.SelectorExpr)
		if !ok || (sel.Sel.Name != "SecretKeys" && sel.Sel.Name != "SecretShares") {
			return true
		}
		call, ok := ix.Index.(*ast.CallExpr)
		if ok {
			if s, ok := call.Fun.(*ast.SelectorExpr); ok && len(call.Args) == 0 {
				switch s.Sel.Name {
				case "Hex":
					reads = append(reads, "KHex")
					return true
				case "String":
					reads = append(reads, "KString")
					return true
				}
			}
			if selText(call.Fun) == "string" {
				reads = append(reads, "KRaw")
				return true
			}
		}
		herr = fmt.Errorf("keyshare.go: key expression %s of %s not understood", exprText(ix.Index), sel.Sel.Name)
		return true
	})
	if herr != nil {
		return "", herr
	}
	if len(reads) == 0 {
		return "", fmt.Errorf("keyshare.go: no read of EpochKG.SecretKeys found")
	}
	sort.Strings(reads)
	fmt.Fprintf(&sb, "(* keyshare.go: the key functions with which the handler indexes EpochKG.SecretKeys / SecretShares *)\nDefinition gen_handler_key_reads : list keyfn := [%s].\n", strings.Join(reads, "; "))
	return sb.String(), nil
}
