//go:build verif

// Driver for C01 (a derived decryption key is the unique correct key, from any t valid shares),
// library layer: the real epochkg.EpochKG.HandleEpochSecretKeyShare with real BLS key material
// from the repository's own generator (medley/testkeygen.NewEonKeys).
//
// Every share of a case is described by a label (who made it, with which eon secret, for which
// identity); the driver turns labels into real group elements, runs the implementation, records
// after every call the error class, the identities that have a key (and whether that key passes
// shcrypto.VerifyEpochSecretKey and a trial decryption), and the pending senders per identity.
// The oracle below is written from the property text and does not use the Coq model.
package main

import (
	"bytes"
	"encoding/hex"
	"fmt"
	"math/big"
	"runtime"
	"sort"
	"strings"
	"sync"

	"github.com/shutter-network/shutter/shlib/puredkg"
	"github.com/shutter-network/shutter/shlib/shcrypto"

	"github.com/shutter-network/rolling-shutter/rolling-shutter/keyper/epochkg"
	"github.com/shutter-network/rolling-shutter/rolling-shutter/medley/identitypreimage"
	"github.com/shutter-network/rolling-shutter/rolling-shutter/medley/testkeygen"

	"verifharness/vh"
)

// ---------------------------------------------------------------------------------------------
// cases

const (
	kValid       = "valid"       // the share keyper Sender computes for the identity
	kWrongID     = "wrongid"     // keyper Sender's share computed for identity Arg (another one)
	kOtherEon    = "othereon"    // made with keyper Sender's secret of another eon key set
	kBadValue    = "badvalue"    // some other group element
	kOtherSender = "othersender" // the valid share of keyper Arg, sent under Sender's index
)

type opJ struct {
	Ident  int    `json:"ident"` // index into Idents
	Sender int    `json:"sender"`
	Kind   string `json:"kind"`
	Arg    int    `json:"arg,omitempty"`
	Repeat bool   `json:"repeat,omitempty"` // generated as a byte-identical repeat of an earlier op
}

type seqCase struct {
	Kind    string   `json:"kind"`
	N       int      `json:"n"`
	T       int      `json:"t"`
	KeySeed uint64   `json:"key_seed"`
	Idents  []string `json:"idents"` // hex
	Ops     []opJ    `json:"ops"`
	Outside bool     `json:"outside,omitempty"` // a sender >= n occurs: outside C01's quantifier, correspondence only
	Origin  string   `json:"origin"`
}

func (c *seqCase) key() string {
	var sb strings.Builder
	fmt.Fprintf(&sb, "%d/%d/%s/", c.N, c.T, strings.Join(c.Idents, ","))
	for _, o := range c.Ops {
		fmt.Fprintf(&sb, "%d.%d.%s.%d;", o.Ident, o.Sender, o.Kind, o.Arg)
	}
	return sb.String()
}

// ---------------------------------------------------------------------------------------------
// key material (deterministic in KeySeed)

type rngReader struct{ r *vh.RNG }

func (rr rngReader) Read(p []byte) (int, error) {
	copy(p, rr.r.Bytes(len(p)))
	return len(p), nil
}

type material struct {
	n, t  int
	keys  *testkeygen.EonKeys // the eon key set of the EpochKG under test
	other *testkeygen.EonKeys // another eon's key set (same n, t)
	pks   []*shcrypto.EonPublicKeyShare

	mu      sync.Mutex
	keyOK   map[string]bool
	refKeys map[string]*shcrypto.EpochSecretKey
	sigma   shcrypto.Block
}

var (
	matMu sync.Mutex
	mats  = map[string]*material{}
)

func getMaterial(n, t int, seed uint64) *material {
	k := fmt.Sprintf("%d/%d/%d", n, t, seed)
	matMu.Lock()
	defer matMu.Unlock()
	if m, ok := mats[k]; ok {
		return m
	}
	r := vh.NewRNG(seed ^ uint64(n)<<32 ^ uint64(t)<<40)
	keys, err := testkeygen.NewEonKeys(rngReader{r}, uint64(n), uint64(t))
	if err != nil {
		panic(err)
	}
	other, err := testkeygen.NewEonKeys(rngReader{r}, uint64(n), uint64(t))
	if err != nil {
		panic(err)
	}
	m := &material{n: n, t: t, keys: keys, other: other, keyOK: map[string]bool{}, refKeys: map[string]*shcrypto.EpochSecretKey{}}
	for i := 0; i < n; i++ {
		m.pks = append(m.pks, keys.EonPublicKeyShare(i))
	}
	copy(m.sigma[:], r.Bytes(len(m.sigma)))
	mats[k] = m
	return m
}

func (m *material) newKG() *epochkg.EpochKG {
	return epochkg.NewEpochKG(&puredkg.Result{
		Eon:             5,
		NumKeypers:      uint64(m.n),
		Threshold:       uint64(m.t),
		Keyper:          0,
		SecretKeyShare:  m.keys.EonSecretKeyShare(0),
		PublicKey:       m.keys.EonPublicKey(),
		PublicKeyShares: m.pks,
	})
}

// keyCorrect: the derived key passes shcrypto.VerifyEpochSecretKey against the eon public key,
// decrypts a message encrypted to the identity, and equals the key the repository's own
// generator derives from the first t keypers (the one epoch secret key of the identity).
func (m *material) keyCorrect(ident []byte, key *shcrypto.EpochSecretKey) bool {
	ck := hex.EncodeToString(ident) + "/" + hex.EncodeToString(key.Marshal())
	m.mu.Lock()
	if v, ok := m.keyOK[ck]; ok {
		m.mu.Unlock()
		return v
	}
	m.mu.Unlock()
	ok, err := shcrypto.VerifyEpochSecretKey(key, m.keys.EonPublicKey(), ident)
	good := ok && err == nil
	if good {
		msg := []byte("C01 trial message for " + hex.EncodeToString(ident))
		enc := shcrypto.Encrypt(msg, m.keys.EonPublicKey(), shcrypto.ComputeEpochID(ident), m.sigma)
		dec, err := enc.Decrypt(key)
		good = err == nil && bytes.Equal(dec, msg)
	}
	if good {
		m.mu.Lock()
		ref, have := m.refKeys[hex.EncodeToString(ident)]
		m.mu.Unlock()
		if !have {
			ref, err = m.keys.EpochSecretKey(identitypreimage.IdentityPreimage(ident))
			if err != nil {
				panic(err)
			}
			m.mu.Lock()
			m.refKeys[hex.EncodeToString(ident)] = ref
			m.mu.Unlock()
		}
		good = key.Equal(ref)
	}
	m.mu.Lock()
	m.keyOK[ck] = good
	m.mu.Unlock()
	return good
}

func (m *material) shareFor(c *seqCase, idents [][]byte, o opJ) *shcrypto.EpochSecretKeyShare {
	id := identitypreimage.IdentityPreimage(idents[o.Ident])
	mod := func(i int) int { return ((i % m.n) + m.n) % m.n } // secrets exist only for keypers of the set
	switch o.Kind {
	case kValid:
		return m.keys.EpochSecretKeyShare(id, mod(o.Sender))
	case kWrongID:
		return m.keys.EpochSecretKeyShare(identitypreimage.IdentityPreimage(idents[o.Arg]), mod(o.Sender))
	case kOtherEon:
		return m.other.EpochSecretKeyShare(id, mod(o.Sender))
	case kOtherSender:
		return m.keys.EpochSecretKeyShare(id, mod(o.Arg))
	case kBadValue:
		s := shcrypto.EonSecretKeyShare(*big.NewInt(int64(1000003 + 17*o.Sender)))
		return shcrypto.ComputeEpochSecretKeyShare(&s, shcrypto.ComputeEpochID(id.Bytes()))
	}
	panic("unknown kind " + o.Kind)
}

func coqLabel(c *seqCase, idents [][]byte, o opJ) string {
	x := vh.CBytes(idents[o.Ident])
	switch o.Kind {
	case kValid:
		return vh.CApp("LShare", vh.CN(0), vh.CN(uint64(o.Sender%c.N)), x)
	case kWrongID:
		return vh.CApp("LShare", vh.CN(0), vh.CN(uint64(o.Sender%c.N)), vh.CBytes(idents[o.Arg]))
	case kOtherEon:
		return vh.CApp("LShare", vh.CN(1), vh.CN(uint64(o.Sender%c.N)), x)
	case kOtherSender:
		if c.T == 1 {
			// threshold 1: the eon polynomial is constant, every keyper holds the same secret, so
			// keyper Arg's share IS keyper Sender's share (the same group element)
			return vh.CApp("LShare", vh.CN(0), vh.CN(uint64(o.Sender%c.N)), x)
		}
		return vh.CApp("LShare", vh.CN(0), vh.CN(uint64(o.Arg%c.N)), x)
	default:
		return "LOther"
	}
}

// ---------------------------------------------------------------------------------------------
// running one case

type keyObs struct {
	Ident []byte
	Code  int // 0 nil key, 1 correct, 2 incorrect
}
type pendObs struct {
	Ident   []byte
	Senders []uint64
}
type stepObs struct {
	Code    int // 0 nil, 1 cannot verify, 2 already have, 3 other error, 4 panic
	Keys    []keyObs
	Pending []pendObs
}

type result struct {
	c          *seqCase
	steps      []stepObs
	violations []vh.Violation
	nontrivial bool
	reached    int
	junk       int
}

func identOfHex(h string) []byte {
	b, err := hex.DecodeString(strings.TrimPrefix(h, "0x"))
	if err != nil {
		panic(err)
	}
	return b
}

// mapKeyIdent reads a key of EpochKG.SecretKeys / SecretShares back as an identity. The code keys
// both maps by IdentityPreimage.Hex(); a key of any other form is reported as it is (it then
// differs from every identity of the case, which the model and the oracle both notice).
func mapKeyIdent(h string) []byte {
	if strings.HasPrefix(h, "0x") {
		if b, err := hex.DecodeString(h[2:]); err == nil {
			return b
		}
	}
	return []byte("map key that is not Hex(): " + h)
}

func observe(m *material, kg *epochkg.EpochKG) ([]keyObs, []pendObs, string) {
	var ks []keyObs
	var snap []string
	for h, k := range kg.SecretKeys {
		id := mapKeyIdent(h)
		code := 0
		if k != nil {
			code = 2
			if m.keyCorrect(id, k) {
				code = 1
			}
			snap = append(snap, "K"+h+"="+hex.EncodeToString(k.Marshal()))
		} else {
			snap = append(snap, "K"+h+"=nil")
		}
		ks = append(ks, keyObs{id, code})
	}
	sort.Slice(ks, func(i, j int) bool { return bytes.Compare(ks[i].Ident, ks[j].Ident) < 0 })
	var ps []pendObs
	for h, l := range kg.SecretShares {
		p := pendObs{Ident: mapKeyIdent(h)}
		s := "P" + h + "="
		for _, sh := range l {
			p.Senders = append(p.Senders, sh.Sender)
			s += fmt.Sprintf("%d:%s,", sh.Sender, hex.EncodeToString(sh.Share.Marshal()))
		}
		snap = append(snap, s)
		ps = append(ps, p)
	}
	sort.Slice(ps, func(i, j int) bool { return bytes.Compare(ps[i].Ident, ps[j].Ident) < 0 })
	sort.Strings(snap)
	return ks, ps, strings.Join(snap, "|")
}

func runCase(c *seqCase) *result {
	res := &result{c: c}
	m := getMaterial(c.N, c.T, c.KeySeed)
	idents := make([][]byte, len(c.Idents))
	for i, h := range c.Idents {
		idents[i] = identOfHex(h)
	}
	kg := m.newKG()
	// oracle state, from the property text: per identity the set of senders from which a valid
	// share has arrived
	validFrom := map[int]map[int]bool{}
	junkBefore := map[int]bool{}
	_, _, prev := observe(m, kg)
	viol := func(key, what string, step int, observed, expected any) {
		if len(res.violations) < 3 {
			res.violations = append(res.violations, vh.Violation{Key: key, What: fmt.Sprintf("%s (op %d)", what, step), Case: c, Observed: observed, Expected: expected})
		}
	}
	for i, o := range c.Ops {
		val := m.shareFor(c, idents, o)
		share := &epochkg.EpochSecretKeyShare{
			Eon:              kg.Eon,
			IdentityPreimage: identitypreimage.IdentityPreimage(idents[o.Ident]),
			Sender:           uint64(o.Sender),
			Share:            val,
		}
		var err error
		panicked, pmsg := vh.Guard(func() { err = kg.HandleEpochSecretKeyShare(share) })
		code := 0
		switch {
		case panicked:
			code = 4
		case err == nil:
		case strings.HasPrefix(err.Error(), "cannot verify"):
			code = 1
		case strings.HasPrefix(err.Error(), "already have"):
			code = 2
		default:
			code = 3
		}
		ks, ps, snap := observe(m, kg)
		res.steps = append(res.steps, stepObs{code, ks, ps})

		if o.Sender >= c.N {
			prev = snap
			continue // outside the property's quantifier (senders are keypers of the set)
		}
		// ---- oracle -------------------------------------------------------------------------
		if panicked {
			viol("C01:panic", "HandleEpochSecretKeyShare panicked for a sender of the keyper set: "+pmsg, i, nil, nil)
		}
		// a share is valid iff it is the value keyper Sender's eon secret yields for this identity
		isValid := val.Equal(m.keys.EpochSecretKeyShare(identitypreimage.IdentityPreimage(idents[o.Ident]), o.Sender))
		if validFrom[o.Ident] == nil {
			validFrom[o.Ident] = map[int]bool{}
		}
		hadKey := len(validFrom[o.Ident]) >= c.T
		fresh := isValid && !validFrom[o.Ident][o.Sender] && !hadKey
		if isValid {
			validFrom[o.Ident][o.Sender] = true
		}
		if !fresh {
			res.junk++
			if !hadKey {
				junkBefore[o.Ident] = true
			}
			if snap != prev {
				viol("C01:junk-changed-state", "an invalid, duplicate or late share changed the keyper's state", i, snap, prev)
			}
		} else if code != 0 {
			viol("C01:valid-share-refused", fmt.Sprintf("a first valid share of a sender was refused (error class %d)", code), i, code, 0)
		}
		// key present exactly for the identities with >= t distinct valid senders; never from fewer
		have := map[string]int{}
		for _, k := range ks {
			have[string(k.Ident)] = k.Code
		}
		for xi, id := range idents {
			dup := false
			for xj := 0; xj < xi; xj++ {
				if bytes.Equal(idents[xj], id) {
					dup = true
				}
			}
			if dup {
				continue
			}
			// the key of an identity is read the way its consumers read it (keyshare.go):
			// SecretKeys[identityPreimage.Hex()]
			kc := 0
			kp, present := kg.SecretKeys[identitypreimage.IdentityPreimage(id).Hex()]
			if present {
				kc = have[string(id)]
				if kp != nil && kc == 0 {
					kc = 2
				}
			}
			want := len(validFrom[xi]) >= c.T
			if present && !want {
				viol("C01:key-below-threshold", fmt.Sprintf("a key exists for identity %x with only %d distinct valid senders (threshold %d)", id, len(validFrom[xi]), c.T), i, ks, nil)
			}
			if !present && want {
				viol("C01:no-key-at-threshold", fmt.Sprintf("no key for identity %x although %d distinct valid senders delivered (threshold %d)", id, len(validFrom[xi]), c.T), i, ks, nil)
			}
			if present && kc != 1 {
				viol("C01:key-incorrect", fmt.Sprintf("the key derived for identity %x does not verify against the eon public key / does not decrypt / is not the epoch secret key (code %d)", id, kc), i, ks, nil)
			}
		}
		for _, k := range ks {
			known := false
			for _, id := range idents {
				if bytes.Equal(id, k.Ident) {
					known = true
				}
			}
			if !known {
				viol("C01:key-for-foreign-identity", fmt.Sprintf("a key exists for identity %x that no share was addressed to", k.Ident), i, ks, nil)
			}
		}
		if fresh && len(validFrom[o.Ident]) == c.T {
			res.reached++
			if junkBefore[o.Ident] {
				res.nontrivial = true
			}
		}
		prev = snap
	}
	return res
}

func coqCase(id uint64, r *result) string {
	c := r.c
	idents := make([][]byte, len(c.Idents))
	for i, h := range c.Idents {
		idents[i] = identOfHex(h)
	}
	ops := make([]string, len(c.Ops))
	for i, o := range c.Ops {
		ops[i] = "(" + vh.CBytes(idents[o.Ident]) + ", " + vh.CN(uint64(o.Sender)) + ", " + coqLabel(c, idents, o) + ")"
	}
	obs := make([]string, len(r.steps))
	for i, s := range r.steps {
		ks := make([]string, len(s.Keys))
		for j, k := range s.Keys {
			ks[j] = vh.CPair(vh.CBytes(k.Ident), vh.CN(uint64(k.Code)))
		}
		ps := make([]string, len(s.Pending))
		for j, p := range s.Pending {
			ps[j] = vh.CPair(vh.CBytes(p.Ident), vh.CNList(p.Senders))
		}
		obs[i] = "(" + vh.CN(uint64(s.Code)) + ", " + vh.CList(ks) + ", " + vh.CList(ps) + ")"
	}
	return vh.CApp("CSeq", vh.CN(id), vh.CN(uint64(c.N)), vh.CN(uint64(c.T)), vh.CList(ops), vh.CList(obs))
}

// ---------------------------------------------------------------------------------------------
// generators

var junkKinds = []string{kWrongID, kOtherEon, kBadValue, kOtherSender}

// junkOp builds a junk share of the given kind for identity ident from sender s.
func junkOp(c *seqCase, kind string, ident, s int) opJ {
	o := opJ{Ident: ident, Sender: s, Kind: kind}
	switch kind {
	case kWrongID:
		o.Arg = (ident + 1) % len(c.Idents)
		if o.Arg == ident || c.Idents[o.Arg] == c.Idents[ident] {
			o.Kind = kBadValue
			o.Arg = 0
		}
	case kOtherSender:
		if c.N < 2 {
			o.Kind = kBadValue
		} else {
			o.Arg = (s + 1) % c.N
		}
	}
	return o
}

func identSet(r *vh.RNG, k int) []string {
	// distinct identities; now and then one is a prefix of another or empty, or the set is made
	// of "near" identities: equal up to the middle bytes (same first and last bytes, as the
	// Shutter-service identities prefix||sender of one sender are), equal up to leading zero
	// bytes (the same number), equal length and equal up to one byte
	out := []string{}
	seen := map[string]bool{}
	if k >= 2 && r.Chance(1, 3) {
		base := r.Bytes(8 + r.Intn(45))
		for len(out) < k {
			b := append([]byte{}, base...)
			switch r.Intn(3) {
			case 0:
				b[2+r.Intn(len(b)-4)] ^= byte(1 + r.Intn(255)) // middle byte differs
			case 1:
				b = append(make([]byte, 1+r.Intn(2)), b...) // leading zeros
			default:
				mid := r.Bytes(1 + r.Intn(6))
				b = append(append(append([]byte{}, base[:4]...), mid...), base[len(base)-4:]...) // other length, same ends
			}
			h := hex.EncodeToString(b)
			if !seen[h] {
				seen[h] = true
				out = append(out, h)
			}
		}
		return out
	}
	for len(out) < k {
		var b []byte
		switch r.Intn(8) {
		case 0:
			b = []byte{}
		case 1:
			if len(out) > 0 {
				b = append(identOfHex(out[0]), byte(r.Intn(256)))
			} else {
				b = r.Bytes(1)
			}
		case 2:
			b = r.Bytes(32)
		default:
			b = r.Bytes(1 + r.Intn(8))
		}
		h := hex.EncodeToString(b)
		if !seen[h] {
			seen[h] = true
			out = append(out, h)
		}
	}
	return out
}

// exhaustive: every sequence of length t+2 over the alphabet {valid share of s for X : s < n,
// X in {A, B}} + {one junk share for X} (the junk kind and its sender rotate with the position).
// Prefixes are observed after every call, so shorter sequences are covered too.
func exhaustive(n, t int, seed uint64, idents []string, emit func(*seqCase)) int {
	alpha := 2 * (n + 1)
	length := t + 2
	total := 1
	for i := 0; i < length; i++ {
		total *= alpha
	}
	for code := 0; code < total; code++ {
		c := &seqCase{Kind: "seq", N: n, T: t, KeySeed: seed, Idents: idents, Origin: "exhaustive"}
		x := code
		for p := 0; p < length; p++ {
			sym := x % alpha
			x /= alpha
			ident := sym / (n + 1)
			s := sym % (n + 1)
			if s < n {
				c.Ops = append(c.Ops, opJ{Ident: ident, Sender: s, Kind: kValid})
			} else {
				c.Ops = append(c.Ops, junkOp(c, junkKinds[(p+code/alpha)%len(junkKinds)], ident, (p+code)%n))
			}
		}
		emit(c)
	}
	return total
}

// boundary: junk of every kind placed before / at / after the share that reaches the threshold.
func boundary(r *vh.RNG, n, t int, seed uint64, emit func(*seqCase)) {
	kinds := []string{kWrongID, kOtherEon, kBadValue, kOtherSender, "repeat", "dupsender"}
	for _, kind := range kinds {
		for _, pos := range []string{"before", "at", "after"} {
			c := &seqCase{Kind: "seq", N: n, T: t, KeySeed: seed, Idents: identSet(r, 3), Origin: "boundary:" + kind + ":" + pos}
			perm := r.Perm(n)
			valid := func(i int) opJ { return opJ{Ident: 0, Sender: perm[i], Kind: kValid} }
			junk := func() opJ {
				have := len(c.Ops)
				switch kind {
				case "repeat":
					if have > 0 {
						o := c.Ops[have-1]
						o.Repeat = true
						return o
					}
					return junkOp(c, kBadValue, 0, perm[0])
				case "dupsender":
					// a sender that already delivered sends a different, invalid value
					return junkOp(c, kBadValue, 0, perm[0])
				}
				return junkOp(c, kind, 0, perm[r.Intn(n)])
			}
			cut := t - 1
			switch pos {
			case "before":
				cut = 0
			case "after":
				cut = t
			}
			for i := 0; i < t; i++ {
				if i == cut {
					c.Ops = append(c.Ops, junk())
				}
				c.Ops = append(c.Ops, valid(i))
			}
			if cut == t {
				c.Ops = append(c.Ops, junk())
			}
			// a late share (valid, from a further keyper if there is one) and a junk share after the key
			if t < n {
				c.Ops = append(c.Ops, valid(t))
			} else {
				c.Ops = append(c.Ops, valid(0))
			}
			c.Ops = append(c.Ops, junkOp(c, kOtherEon, 0, perm[0]))
			// a share for a second identity somewhere in between
			at := r.Intn(len(c.Ops) + 1)
			b := opJ{Ident: 1, Sender: r.Intn(n), Kind: kValid}
			c.Ops = append(c.Ops[:at], append([]opJ{b}, c.Ops[at:]...)...)
			emit(c)
		}
	}
}

// afterCompletion: on ONE EpochKG instance, first `done` identities collect their t shares and get
// their key, then k further identities receive their t valid shares interleaved in the given order
// (order[i] = which of the k identities the i-th share of the second phase is for). The senders of
// an identity's shares follow `pattern`: 0 = every identity hears from the same senders in the same
// order (the same sender for different identities back to back), 1 = rotated by the identity's
// number, 2 = a random order per identity. With junk > 0 that many junk shares of random kinds are
// mixed into the second phase.
func afterCompletion(r *vh.RNG, n, t, k, done, pattern int, order []int, junk int, seed uint64) *seqCase {
	c := &seqCase{Kind: "seq", N: n, T: t, KeySeed: seed, Origin: fmt.Sprintf("after-completion:k=%d,done=%d,pattern=%d,junk=%d", k, done, pattern, junk)}
	for i := 0; i < done+k; i++ {
		c.Idents = append(c.Idents, fmt.Sprintf("%02x%02x%02x", 0xd0+i, 0x11*i, i))
	}
	senders := make([][]int, done+k)
	base := r.Perm(n)
	for j := range senders {
		switch pattern {
		case 0:
			senders[j] = base
		case 1:
			senders[j] = make([]int, n)
			for i := range senders[j] {
				senders[j][i] = (i + j) % n
			}
		default:
			senders[j] = r.Perm(n)
		}
	}
	for j := 0; j < done; j++ {
		for i := 0; i < t; i++ {
			c.Ops = append(c.Ops, opJ{Ident: j, Sender: senders[j][i], Kind: kValid})
		}
	}
	next := make([]int, k)
	for _, x := range order {
		j := done + x
		c.Ops = append(c.Ops, opJ{Ident: j, Sender: senders[j][next[x]], Kind: kValid})
		next[x]++
	}
	for q := 0; q < junk; q++ {
		at := done*t + r.Intn(len(c.Ops)-done*t+1)
		o := junkOp(c, vh.Pick(r, junkKinds...), done+r.Intn(k), r.Intn(n))
		c.Ops = append(c.Ops[:at], append([]opJ{o}, c.Ops[at:]...)...)
	}
	return c
}

// interleavings enumerates every order in which k identities can receive t shares each.
func interleavings(k, t int, f func(order []int)) {
	left := make([]int, k)
	for i := range left {
		left[i] = t
	}
	cur := make([]int, 0, k*t)
	var rec func()
	rec = func() {
		if len(cur) == k*t {
			f(append([]int{}, cur...))
			return
		}
		for x := 0; x < k; x++ {
			if left[x] > 0 {
				left[x]--
				cur = append(cur, x)
				rec()
				cur = cur[:len(cur)-1]
				left[x]++
			}
		}
	}
	rec()
}

func countInterleavings(k, t int) int {
	// (k*t)! / (t!)^k
	num := 1
	c := 1
	for x := 0; x < k; x++ {
		for i := 1; i <= t; i++ {
			num = num * c / i // binomial prefix products stay integral
			c++
		}
	}
	return num
}

func randomInterleaving(r *vh.RNG, k, t int) []int {
	var o []int
	for x := 0; x < k; x++ {
		for i := 0; i < t; i++ {
			o = append(o, x)
		}
	}
	p := r.Perm(len(o))
	out := make([]int, len(o))
	for i, j := range p {
		out[i] = o[j]
	}
	return out
}

func randomCase(r *vh.RNG, maxN int, seed uint64) *seqCase {
	n := 1 + r.Intn(maxN)
	t := 1 + r.Intn(n)
	c := &seqCase{Kind: "seq", N: n, T: t, KeySeed: seed, Idents: identSet(r, 1+r.Intn(3)), Origin: "random"}
	length := t + r.Intn(t+7)
	for i := 0; i < length; i++ {
		ident := r.Intn(len(c.Idents))
		if r.Chance(3, 4) {
			ident = 0 // concentrate on one identity so that thresholds are reached
		}
		s := r.Intn(n)
		switch p := r.Intn(100); {
		case p < 55:
			c.Ops = append(c.Ops, opJ{Ident: ident, Sender: s, Kind: kValid})
		case p < 67 && len(c.Ops) > 0:
			o := c.Ops[r.Intn(len(c.Ops))]
			o.Repeat = true
			c.Ops = append(c.Ops, o)
		default:
			c.Ops = append(c.Ops, junkOp(c, vh.Pick(r, junkKinds...), ident, s))
		}
	}
	return c
}

// ---------------------------------------------------------------------------------------------

func main() {
	run := vh.Start("Verif.Corr.C01", 300)
	defer run.Finish()
	run.SetPreamble("From Verif Require Import Model.EpochKGLabels.")
	run.Rule = "share sequences for real EpochKG.HandleEpochSecretKeyShare (forced: exhaustive length t+2 sequences over two identities for small (n,t), junk of every kind before/at/after the threshold share for all n<=4, t=1, t=n, shares of 2-4 further identities interleaved in all small orders after 1-2 identities completed on the same instance, with and without junk; then random, n<=7); non-trivial = some identity reached the threshold after at least one junk share for it; distinct by canonical op list"

	var cases []*seqCase
	emit := func(c *seqCase) { cases = append(cases, c) }

	if run.Replay != "" {
		var c seqCase
		if err := run.LoadReplay(&c); err != nil {
			panic(err)
		}
		emit(&c)
	} else {
		for _, f := range run.CorpusFiles() {
			var c seqCase
			run.Replay = f
			if err := run.LoadReplay(&c); err == nil && c.Kind == "seq" {
				c.Origin = "corpus"
				emit(&c)
			}
			run.Replay = ""
		}
		seed := run.RNG.U64()
		ab := []string{"aa", "aabb"}
		// two identities of one sender in the Shutter-service layout (32-byte prefix || 20-byte address)
		// whose prefixes differ in the middle only
		near := []string{
			"a1b2" + strings.Repeat("00", 29) + "01" + strings.Repeat("5e", 18) + "c3d4",
			"a1b2" + strings.Repeat("00", 29) + "02" + strings.Repeat("5e", 18) + "c3d4",
		}
		// exhaustive sets: (n, t) whose sequence count fits the tier's budget
		budget := run.Scale(4200, 40000)
		for n := 1; n <= 4; n++ {
			for t := 1; t <= n; t++ {
				total := 1
				for i := 0; i < t+2; i++ {
					total *= 2 * (n + 1)
				}
				if total <= budget {
					exhaustive(n, t, seed, ab, emit)
					run.Dist[fmt.Sprintf("exhaustive:n=%d,t=%d", n, t)] += total
					if (!run.Thorough && total*4 <= budget) || (run.Thorough && total*8 <= budget) {
						// the same space over two identities that differ only in their middle bytes
						exhaustive(n, t, seed, near, emit)
						run.Dist[fmt.Sprintf("exhaustive-near-identities:n=%d,t=%d", n, t)] += total
					}
				} else {
					// sample the same space
					k := run.Scale(150, 3000)
					for i := 0; i < k; i++ {
						c := &seqCase{Kind: "seq", N: n, T: t, KeySeed: seed, Idents: ab, Origin: "sampled-interleaving"}
						if i%2 == 1 {
							c.Idents = near
						}
						for p := 0; p < t+2; p++ {
							ident := run.RNG.Intn(2)
							s := run.RNG.Intn(n + 1)
							if s < n {
								c.Ops = append(c.Ops, opJ{Ident: ident, Sender: s, Kind: kValid})
							} else {
								c.Ops = append(c.Ops, junkOp(c, vh.Pick(run.RNG, junkKinds...), ident, run.RNG.Intn(n)))
							}
						}
						emit(c)
					}
				}
			}
		}
		for n := 1; n <= 4; n++ {
			for t := 1; t <= n; t++ {
				boundary(run.RNG, n, t, seed, emit)
			}
		}
		// shares of further identities interleaved AFTER one or two identities have completed
		for t := 2; t <= 3; t++ {
			for k := 2; k <= 4; k++ {
				total := countInterleavings(k, t)
				exhaustiveHere := total <= run.Scale(100, 3000)
				for n := t; n <= 4; n++ {
					for pattern := 0; pattern < 3; pattern++ {
						done := 1 + (n+pattern+k)%2
						var orders [][]int
						// the large order sets (thorough tier) are enumerated for one n per pattern
						if exhaustiveHere && (total <= 100 || n == 3+pattern%2) {
							interleavings(k, t, func(o []int) { orders = append(orders, o) })
							run.Dist[fmt.Sprintf("after-completion-exhaustive:k=%d,t=%d", k, t)] += len(orders)
						} else {
							for i := run.Scale(25, 400); i > 0; i-- {
								orders = append(orders, randomInterleaving(run.RNG, k, t))
							}
						}
						for i, o := range orders {
							emit(afterCompletion(run.RNG, n, t, k, done, pattern, o, 0, seed))
							if i%3 == 0 {
								emit(afterCompletion(run.RNG, n, t, k, 3-done, pattern, o, 1+run.RNG.Intn(3), seed))
							}
						}
					}
				}
			}
		}
		// the sender >= n panic: modelled, outside the property (correspondence only)
		for _, s := range []int{3, 8} {
			emit(&seqCase{Kind: "seq", N: 3, T: 2, KeySeed: seed, Idents: ab, Outside: true, Origin: "outside:sender>=n",
				Ops: []opJ{{Ident: 0, Sender: 0, Kind: kValid}, {Ident: 0, Sender: s, Kind: kValid}, {Ident: 0, Sender: 1, Kind: kValid},
					{Ident: 0, Sender: s, Kind: kValid}, {Ident: 1, Sender: s, Kind: kBadValue}}})
		}
		nr := run.Scale(1000, 15000)
		for i := 0; i < nr; i++ {
			emit(randomCase(run.RNG, 7, seed))
		}
	}

	// execute in parallel (BLS pairings dominate), record in generation order
	for _, c := range cases {
		getMaterial(c.N, c.T, c.KeySeed)
	}
	results := make([]*result, len(cases))
	var wg sync.WaitGroup
	jobs := make(chan int, len(cases))
	for i := range cases {
		jobs <- i
	}
	close(jobs)
	workers := runtime.NumCPU()
	for w := 0; w < workers; w++ {
		wg.Add(1)
		go func() {
			defer wg.Done()
			for i := range jobs {
				results[i] = runCase(cases[i])
			}
		}()
	}
	wg.Wait()

	for _, r := range results {
		id := run.NextID()
		for _, v := range r.violations {
			run.Violate(v)
		}
		c := r.c
		run.Dist["origin:"+strings.SplitN(c.Origin, ":", 2)[0]]++
		run.Dist[fmt.Sprintf("n=%d", c.N)]++
		if c.T == 1 {
			run.Dist["t=1"]++
		}
		if c.T == c.N {
			run.Dist["t=n"]++
		}
		for _, o := range c.Ops {
			if o.Repeat {
				run.Dist["op:repeat"]++
			} else {
				run.Dist["op:"+o.Kind]++
			}
		}
		run.Dist[fmt.Sprintf("thresholds_reached=%d", min(r.reached, 3))]++
		if r.junk > 0 {
			run.Dist["with_junk"]++
		}
		run.AddCase(id, coqCase(id, r), c, c.key(), r.nontrivial)
	}
}
