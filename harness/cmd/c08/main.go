//go:build verif

// Driver for C08 (a keyper survives a crash at any instant).
//
// Pass 1 runs a complete DKG on harness/dkgrig without crashes (the twin) and numbers every
// frontend message the keyper under test sends to its database and every broadcast it makes.
// Pass 2 repeats the same schedule once per crash point: the connection is severed before the
// k-th database message, or the k-th message's commit is applied and its reply dropped, or the
// b-th broadcast is lost before / after shuttermint applied it; the keyper's loop returns the
// error (the process dies), its ShuttermintState, message sender, client and connections are
// thrown away, fresh ones are built and the schedule continues to the end.  The oracle reads
// the property off the crashed run and compares it with the twin.
package main

import (
	"bytes"
	"context"
	"crypto/rand"
	"encoding/json"
	"fmt"
	"math/big"
	"os"
	"sort"
	"strings"
	"sync"

	"github.com/ethereum/go-ethereum/common"
	"github.com/jackc/pgx/v4/pgxpool"

	"github.com/shutter-network/shutter/shlib/puredkg"
	"github.com/shutter-network/shutter/shlib/shcrypto"

	"github.com/shutter-network/rolling-shutter/rolling-shutter/keyper/database"
	"github.com/shutter-network/rolling-shutter/rolling-shutter/keyper/shutterevents"
	"github.com/shutter-network/rolling-shutter/rolling-shutter/keyper/smobserver"
	"github.com/shutter-network/rolling-shutter/rolling-shutter/shmsg"

	"google.golang.org/protobuf/proto"

	"verifharness/appdrv"
	"verifharness/dkgrig"
	"verifharness/pgfake"
	"verifharness/vh"
)

const kut = 0 // the keyper under test

var order, _ = new(big.Int).SetString("73eda753299d7d483339d80809a1d80553bda402fffe5bfeffffffff00000001", 16)

// ---------------------------------------------------------------------------------------
// cases

type Crash struct {
	Kind string `json:"kind"` // db-before | db-after-commit | bc-before | bc-after
	At   int64  `json:"at"`   // database message index / number of the keyper's broadcast
}

type Scenario struct {
	Name      string `json:"name"` // dkg | second-config | excluded-later
	PhaseLen  int64  `json:"phase_len"`
	Fork      bool   `json:"fork"`
	Byzantine bool   `json:"byzantine"` // party 2 deals a wrong evaluation to the keyper under test and accuses it
	// Split: every transaction of the other honest keyper lands in a block of its own and party 2
	// sends its evaluations one block after its commitment, so that the keyper under test reads
	// blocks whose only DKG event is a PolyEval (then an Accusation, an Apology ...) and every
	// handler's effect has to reach the database through its own block transaction
	Split bool `json:"split,omitempty"`
	// LateKey: party 2 checks in (publishes its encryption key) only in the block after the eon
	// started, so that the keyper under test queues its evaluations in two rows with the same
	// description ("poly eval (eon=N)"): one when it starts dealing, one when the key arrives
	LateKey bool `json:"late_key,omitempty"`
	// Step: every transaction of the two real keypers (the one under test included) lands in a
	// block of its own and the keyper under test processes one block per loop iteration, so that
	// the cache-versus-fresh-load comparison is made after every single block transaction - also
	// after a block whose only DKG event is the keyper's own commitment.  Run without crashes only
	// (delays of a crashed run would move messages across phase boundaries of so fine a chain).
	Step      bool   `json:"step,omitempty"`
	SchedSeed uint64 `json:"sched_seed"`
}

type Case struct {
	S       Scenario `json:"scenario"`
	Crashes []Crash  `json:"crashes"`
}

// ---------------------------------------------------------------------------------------
// execution

type obsRow struct {
	ID   int64
	Desc string
	Msg  []byte
}

type trace struct {
	c         Case
	rig       *dkgrig.Rig
	crashed   int      // crashes that happened
	notFired  []string // armed crashes that never triggered
	errs      []string // loop errors not explained by an armed crash
	queued    map[int64]obsRow
	queueSeq  []int64 // ids in order of first observation
	cacheDiff []string
	postCrash []string
	msgLog    []pgfake.MsgLogEntry
	bcasts    int
	syncRows  []int64
	syncPos   int64
	endHeight int64
	results   map[int][]dkgrig.ResultRow
	tables    map[string]string // canonical durable tables of the keyper under test
	sent      []dkgrig.Sent
	outboxEnd []dkgrig.OutRow
	issues    []string
	groups    []group
	winMsg    int64 // excluded-later: database message count / broadcasts of the keyper under test
	winBc     int   // when keyper set 2 was announced (the window the quick tier sweeps starts there)
	winEndMsg int64 // late-key: end of the window (0: open)
	winEndBc  int
}

// one loop iteration of the keyper under test, as operations of Model/Outbox.v
type sendRec struct {
	Raw     []byte
	Code    uint32 // 0 Ok, 1 Error, 2 Seen (a CheckTx refusal counts as Error)
	Lost    bool   // applied, the reply never reached the keyper
	Deleted bool   // the row was deleted afterwards
}

type ksRow struct {
	Idx, Act int64
	Keypers  []string
	Thr      int64
}

type small struct {
	lastCfg, lastSeen int64
	outbox            []dkgrig.OutRow
}

type group struct {
	L1       int
	Blocks   []int64 // heights whose transaction committed
	OnChain  bool    // the on-chain transaction committed
	KSets    []ksRow
	Sends    []sendRec
	Crashed  bool
	Pos      int64
	After    small
	Pure     map[uint64]*puredkg.PureDKG
	Results  []dkgrig.ResultRow
	LogCount int
}

func pureDiff(a, b *puredkg.PureDKG) string {
	if a.Phase != b.Phase || a.Eon != b.Eon || a.NumKeypers != b.NumKeypers || a.Threshold != b.Threshold || a.Keyper != b.Keyper {
		return fmt.Sprintf("header: %v/%d/%d/%d/%d vs %v/%d/%d/%d/%d", a.Phase, a.Eon, a.NumKeypers, a.Threshold, a.Keyper, b.Phase, b.Eon, b.NumKeypers, b.Threshold, b.Keyper)
	}
	if (a.Polynomial == nil) != (b.Polynomial == nil) {
		return "polynomial presence"
	}
	if a.Polynomial != nil {
		if len(*a.Polynomial) != len(*b.Polynomial) {
			return "polynomial length"
		}
		for i := range *a.Polynomial {
			if (*a.Polynomial)[i].Cmp((*b.Polynomial)[i]) != 0 {
				return "polynomial coefficient"
			}
		}
	}
	if len(a.Commitments) != len(b.Commitments) || len(a.Evals) != len(b.Evals) {
		return "vector lengths"
	}
	for i := range a.Commitments {
		if (a.Commitments[i] == nil) != (b.Commitments[i] == nil) {
			return fmt.Sprintf("commitment %d: set in one, unset in the other", i)
		}
		if a.Commitments[i] != nil && !a.Commitments[i].Equal(*b.Commitments[i]) {
			return fmt.Sprintf("commitment %d differs", i)
		}
	}
	for i := range a.Evals {
		if (a.Evals[i] == nil) != (b.Evals[i] == nil) {
			return fmt.Sprintf("eval %d: set in one, unset in the other", i)
		}
		if a.Evals[i] != nil && a.Evals[i].Cmp(b.Evals[i]) != 0 {
			return fmt.Sprintf("eval %d differs", i)
		}
	}
	if len(a.Accusations) != len(b.Accusations) || len(a.Apologies) != len(b.Apologies) {
		return "accusation / apology counts"
	}
	for k := range a.Accusations {
		if _, ok := b.Accusations[k]; !ok {
			return "accusation set"
		}
	}
	for k, v := range a.Apologies {
		w, ok := b.Apologies[k]
		if !ok || v.Cmp(w) != 0 {
			return "apology map"
		}
	}
	return ""
}

type env struct {
	servers    *dkgrig.Servers
	shadowPool *pgxpool.Pool
}

// cacheVsLoad compares the keyper's ShuttermintState with a state freshly loaded from a copy
// of its database (C08_cache_is_load_of_db on the real code).
func cacheVsLoad(tr *trace, e *env) {
	rig := tr.rig
	pt := rig.Parties[kut]
	synced, isKeyper, dkg := pt.Loop.ShuttermintState().VerifSnapshot()
	if !synced {
		return
	}
	shadow := e.servers.Srv[4]
	shadow.SetStore(pt.Srv.Store())
	st, err := smobserver.VerifLoadFresh(contextBG, pt.Cfg, database.New(e.shadowPool))
	if err != nil {
		tr.cacheDiff = append(tr.cacheDiff, "load of a copy of the database fails: "+err.Error())
		return
	}
	_, isKeyper2, dkg2 := st.VerifSnapshot()
	if isKeyper && !isKeyper2 {
		tr.cacheDiff = append(tr.cacheDiff, "cache says isKeyper, a fresh load does not")
	}
	if len(dkg) != len(dkg2) {
		tr.cacheDiff = append(tr.cacheDiff, fmt.Sprintf("cache holds %d DKG instances, a fresh load %d", len(dkg), len(dkg2)))
		return
	}
	for eon, a := range dkg {
		b, ok := dkg2[eon]
		if !ok {
			tr.cacheDiff = append(tr.cacheDiff, fmt.Sprintf("eon %d in the cache, not in a fresh load", eon))
			continue
		}
		if a.Dirty {
			tr.cacheDiff = append(tr.cacheDiff, fmt.Sprintf("eon %d is dirty after a committed block", eon))
		}
		if a.StartHeight != b.StartHeight || fmt.Sprint(a.Keypers) != fmt.Sprint(b.Keypers) {
			tr.cacheDiff = append(tr.cacheDiff, fmt.Sprintf("eon %d: start height / keypers differ", eon))
		}
		if d := pureDiff(a.Pure, b.Pure); d != "" {
			tr.cacheDiff = append(tr.cacheDiff, fmt.Sprintf("eon %d: %s", eon, d))
		}
	}
}

// thrOf is the threshold of keyper set 1 (the set the keyper under test is a member of).
func thrOf(s Scenario) uint64 {
	if s.Name == "excluded-later" {
		return 3
	}
	return 2
}

func arm(rig *dkgrig.Rig, c Crash) {
	pt := rig.Parties[kut]
	switch c.Kind {
	case "db-before":
		pt.Srv.InjectFault(pgfake.Fault{AtMsg: c.At, Kind: pgfake.DropBefore})
	case "db-after-commit":
		pt.Srv.InjectFault(pgfake.Fault{AtMsg: c.At, Kind: pgfake.DropAfterCommit})
	case "bc-before":
		pt.Cl.FailBroadcastAt = int(c.At)
	case "bc-after":
		pt.Cl.DropReplyAt = int(c.At)
	}
}

func execute(c Case, e *env) (*trace, error) {
	L := c.S.PhaseLen
	rig, err := dkgrig.New(dkgrig.Params{N: 3, T: 2, PhaseLen: L, Fork: c.S.Fork, StartDelta: 1000}, e.servers)
	if err != nil {
		return nil, err
	}
	defer rig.Close()
	tr := &trace{c: c, rig: rig, queued: map[int64]obsRow{}, results: map[int][]dkgrig.ResultRow{}, tables: map[string]string{}}
	if c.S.Split {
		lastOwn := int64(0) // open height in which party 1 last broadcast
		rig.Chain.OnBroadcast = func(from string, _ []byte) {
			if from != rig.Parties[1].Name {
				return
			}
			if rig.Chain.OpenHeight() == lastOwn {
				rig.Chain.NextBlock()
			}
			lastOwn = rig.Chain.OpenHeight()
		}
	}
	if c.S.Step {
		lastOwn := int64(0) // open height in which a keyper last broadcast
		rig.Chain.OnBroadcast = func(string, []byte) {
			if rig.Chain.OpenHeight() == lastOwn {
				rig.Chain.NextBlock()
			}
			lastOwn = rig.Chain.OpenHeight()
		}
	}
	rng := vh.NewRNG(c.S.SchedSeed)
	pending := append([]Crash{}, c.Crashes...)
	if len(pending) > 0 {
		arm(rig, pending[0])
	}
	observe := func(stage string) {
		for _, r := range rig.Outbox(kut) {
			if _, ok := tr.queued[r.ID]; !ok {
				tr.queued[r.ID] = obsRow{r.ID, r.Desc, r.Msg}
				tr.queueSeq = append(tr.queueSeq, r.ID)
			}
		}
	}
	readSmall := func() small {
		st := rig.Parties[kut].Srv.Store()
		sm := small{outbox: rig.Outbox(kut)}
		for _, r := range st.Table("last_batch_config_sent").Rows() {
			sm.lastCfg = r["keyper_config_index"].(int64)
		}
		for _, r := range st.Table("last_block_seen").Rows() {
			sm.lastSeen = r["block_number"].(int64)
		}
		return sm
	}
	sameSmall := func(a, b small) bool {
		if a.lastCfg != b.lastCfg || a.lastSeen != b.lastSeen || len(a.outbox) != len(b.outbox) {
			return false
		}
		for i := range a.outbox {
			if a.outbox[i].ID != b.outbox[i].ID {
				return false
			}
		}
		return true
	}
	kutLogCount := func() int {
		n := 0
		for _, r := range rig.Chain.Log {
			if r.From == rig.Parties[kut].Name {
				n++
			}
		}
		return n
	}
	lastCrashed := false // the latest iteration of the keyper under test ended in a crash
	runKut := func(round int) {
		lastCrashed = false
		pt := rig.Parties[kut]
		before := pt.Srv.MsgCount()
		g := group{L1: round}
		pos0, _ := rig.SyncPos(kut)
		log0 := len(rig.Chain.Log)
		var afterSync small
		syncDone, onchainDone := false, false
		for _, r := range pt.Srv.Store().Table("keyper_set").Rows() {
			g.KSets = append(g.KSets, ksRow{r["keyper_config_index"].(int64), r["activation_block_number"].(int64), r["keypers"].([]string), toInt(r["threshold"])})
		}
		res := rig.Iterate(kut, uint64(round), func(stage string) {
			observe(stage)
			switch stage {
			case "sync":
				syncDone = true
				afterSync = readSmall()
			case "onchain":
				onchainDone = true
			}
		})
		finish := func() {
			pos1, _ := rig.SyncPos(kut)
			for h := pos0 + 1; h <= pos1; h++ {
				g.Blocks = append(g.Blocks, h)
			}
			// sends of this iteration
			var recs []sendRec
			for _, r := range rig.Chain.Log[log0:] {
				if r.From != pt.Name {
					continue
				}
				sr := sendRec{Code: r.Deliver}
				if r.Check != 0 {
					sr.Code = 1
				}
				if m, ok := appdrvMessage(r.Tx); ok {
					sr.Raw = m
				}
				recs = append(recs, sr)
			}
			g.After = readSmall()
			if len(recs) > 0 {
				for i := range recs {
					recs[i].Deleted = recs[i].Code != 1
				}
				last := &recs[len(recs)-1]
				if !res.OK() && pt.Cl.Dead && pt.Cl.DropReplyAt > 0 {
					last.Lost = true
					last.Deleted = false
				}
				// was the row of the last answered message deleted?
				if !last.Lost && last.Code != 1 {
					for _, r := range g.After.outbox {
						if bytes.Equal(r.Msg, last.Raw) && len(g.After.outbox) > 0 && g.After.outbox[0].ID == r.ID {
							last.Deleted = false
						}
					}
				}
			}
			g.Sends = recs
			if syncDone {
				if onchainDone {
					g.OnChain = true
				} else {
					// crashed inside the on-chain transaction: did it commit?
					cur := readSmall()
					g.OnChain = !sameSmall(afterSync, cur)
				}
			}
			g.Pos = pos1
			g.Pure, _ = rig.Pure(kut)
			g.Results = rig.Results(kut)
			g.LogCount = kutLogCount()
		}
		if res.OK() {
			finish()
			tr.groups = append(tr.groups, g)
			cacheVsLoad(tr, e)
			return
		}
		// the loop returned an error: the process dies.  It must be the armed crash.
		explained := false
		if len(pending) > 0 {
			switch pending[0].Kind {
			case "db-before", "db-after-commit":
				for _, f := range pt.Srv.FiredFaults() {
					if f.AtMsg == pending[0].At && f.Applied {
						explained = true
						// nothing may reach the database between the crash and the restart
						for _, m := range pt.Srv.MsgLog() {
							if m.Index > f.AtMsg && (m.Kind == "Execute" || m.Kind == "Query" || m.Kind == "Parse" || m.Kind == "Bind") {
								tr.postCrash = append(tr.postCrash, fmt.Sprintf("message %d (%s %s) after the crash at %d", m.Index, m.Kind, m.Stmt, f.AtMsg))
							}
						}
					}
				}
			case "bc-before", "bc-after":
				explained = pt.Cl.Dead
			}
		}
		if !explained {
			tr.errs = append(tr.errs, fmt.Sprintf("round %d stage %s (db messages %d..%d): %s", round, res.Stage, before, pt.Srv.MsgCount(), res.Err))
		} else {
			tr.crashed++
			pending = pending[1:]
		}
		observe("crash")
		finish()
		g.Crashed = true
		lastCrashed = true
		tr.groups = append(tr.groups, g)
		if err := rig.Restart(kut); err != nil {
			tr.errs = append(tr.errs, "restart: "+err.Error())
		}
		if len(pending) > 0 {
			arm(rig, pending[0])
		}
	}
	// the Byzantine party (2): wrong evaluation for the keyper under test, false accusation of it,
	// correct apology, positive vote
	type byzEon struct {
		poly                   *shcrypto.Polynomial
		dealt, acc, apo, voted bool
		evalDue                int64 // Split: the open height from which the evaluations are sent
		evalSent               bool
	}
	bz := map[uint64]*byzEon{}
	lateDone := false
	// excluded-later: keyper set 1 = {0,1,2} with threshold 3; party 2 withholds in the first eon of
	// set 1 and everybody votes "failed", so shuttermint starts a new eon for set 1; while that key
	// generation runs, keyper set 2 = {1,2}, which excludes the keyper under test, is accepted.
	// From then on the newest stored config is one the keyper is not in while it still takes part
	// in the key generation of the older one: a reloaded cache must say what the running one says.
	excl := c.S.Name == "excluded-later"
	thr1 := thrOf(c.S)
	byzAct := func(open int64) {
		if open == 3 && !c.S.LateKey {
			rig.SubmitAs(2, shmsg.NewCheckIn(rig.Parties[2].ValKey, &rig.Parties[2].Cfg.GetEncryptionKey().PublicKey))
		}
		if c.S.LateKey && len(rig.Eons()) > 0 {
			S := rig.Eons()[0].Start
			if !lateDone && open == S+1 {
				lateDone = true
				tr.winMsg = rig.Parties[kut].Srv.MsgCount()
				tr.winBc = rig.Chain.PerName[rig.Parties[kut].Name]
				rig.SubmitAs(2, shmsg.NewCheckIn(rig.Parties[2].ValKey, &rig.Parties[2].Cfg.GetEncryptionKey().PublicKey))
			}
			if tr.winEndMsg == 0 && open == S+6 {
				tr.winEndMsg = rig.Parties[kut].Srv.MsgCount()
				tr.winEndBc = rig.Chain.PerName[rig.Parties[kut].Name]
			}
		}
		firstOf1 := uint64(0)
		for _, ei := range rig.Eons() {
			if ei.CfgIdx == 1 && (firstOf1 == 0 || ei.Eon < firstOf1) {
				firstOf1 = ei.Eon
			}
		}
		for _, ei := range rig.Eons() {
			if excl && ei.CfgIdx != 1 {
				continue
			}
			st := bz[ei.Eon]
			if st == nil {
				p, _ := shcrypto.RandomPolynomial(rand.Reader, thr1-1)
				st = &byzEon{poly: p}
				bz[ei.Eon] = st
			}
			S := ei.Start
			if excl && ei.Eon == firstOf1 {
				if !st.voted && open == S+3*L+3 {
					st.voted = true
					rig.SubmitAs(2, shmsg.NewDKGResult(ei.Eon, false))
				}
				continue
			}
			if !st.dealt && open == S+2 {
				st.dealt = true
				rig.SubmitAs(2, shmsg.NewPolyCommitment(ei.Eon, st.poly.Gammas()))
				st.evalDue = open
				if c.S.Split {
					st.evalDue = open + 1
				}
			}
			if st.dealt && !st.evalSent && open >= st.evalDue {
				st.evalSent = true
				v0 := st.poly.EvalForKeyper(0)
				if c.S.Byzantine {
					v0 = new(big.Int).Mod(new(big.Int).Add(v0, big.NewInt(1)), order)
				}
				rig.SubmitAs(2, shmsg.NewPolyEval(ei.Eon, []common.Address{rig.Parties[0].Addr, rig.Parties[1].Addr},
					[][]byte{rig.EncryptEval(0, v0), rig.EncryptEval(1, st.poly.EvalForKeyper(1))}))
			}
			if !st.acc && open == S+L+2 {
				st.acc = true
				if c.S.Byzantine {
					rig.SubmitAs(2, shmsg.NewAccusation(ei.Eon, []common.Address{rig.Parties[0].Addr}))
				}
			}
			if !st.apo && open == S+2*L+2 {
				st.apo = true
				var accusers []common.Address
				var vals []*big.Int
				for h := int64(1); h <= rig.Chain.Height(); h++ {
					for _, ev := range dkgrig.EventsOf(rig.Chain.BlockAt(h)) {
						if ac, ok := ev.(*shutterevents.Accusation); ok && ac.Eon == ei.Eon {
							for _, x := range ac.Accused {
								if x == rig.Parties[2].Addr {
									accusers = append(accusers, ac.Sender)
									vals = append(vals, st.poly.EvalForKeyper(rig.IndexOf(ac.Sender)))
								}
							}
						}
					}
				}
				if len(accusers) > 0 {
					rig.SubmitAs(2, shmsg.NewApology(ei.Eon, accusers, vals))
				}
			}
			if !st.voted && open == S+3*L+3 {
				st.voted = true
				rig.SubmitAs(2, shmsg.NewDKGResult(ei.Eon, true))
			}
		}
	}

	maxRounds := 30 + int(4*L)
	if excl {
		maxRounds = 36 + int(8*L)
	}
	set2Round := -1
	for round := 0; round < maxRounds; round++ {
		if round == 7 {
			if err := rig.AddKeyperSet(1, 40, []int{0, 1, 2}, int(thr1)); err != nil {
				return nil, err
			}
		}
		if excl {
			// set 2 is announced once shuttermint has restarted the key generation of set 1 (it
			// restarts only the newest eon, so the other order cannot occur), and is accepted while
			// the restarted key generation, in which the keyper under test takes part, is running
			n1 := 0
			for _, ei := range rig.Eons() {
				if ei.CfgIdx == 1 {
					n1++
				}
			}
			if n1 >= 2 && set2Round < 0 {
				set2Round = round
				tr.winMsg = rig.Parties[kut].Srv.MsgCount()
				tr.winBc = rig.Chain.PerName[rig.Parties[kut].Name]
				if err := rig.AddKeyperSet(2, 900, []int{1, 2}, 2); err != nil {
					return nil, err
				}
			}
			if set2Round >= 0 && round == set2Round+2 {
				// the third vote set 1's threshold asks for
				rig.SubmitAs(2, shmsg.NewBatchConfig(900, []common.Address{rig.Parties[1].Addr, rig.Parties[2].Addr}, 2, 2))
			}
		}
		if c.S.Name == "second-config" && round == 7+10 {
			// a second keyper set that so far only the keyper under test has seen on the main chain
			pt := rig.Parties[kut]
			if err := pt.Srv.Store().Insert("keyper_set", pgfake.Row{
				"keyper_config_index": int64(2), "activation_block_number": int64(900),
				"keypers":   []string{rig.Parties[0].Addr.Hex(), rig.Parties[1].Addr.Hex(), rig.Parties[2].Addr.Hex()},
				"threshold": int64(2),
			}); err != nil {
				return nil, err
			}
		}
		byzAct(rig.Chain.OpenHeight())
		ord := []int{0, 1}
		if rng.Bool() {
			ord = []int{1, 0}
		}
		for _, i := range ord {
			if i == kut && c.S.Step {
				for guard := 0; guard < 60; guard++ {
					before, _ := rig.SyncPos(kut)
					rig.Parties[kut].Cl.Cap = before + 3
					runKut(round)
					after, _ := rig.SyncPos(kut)
					if after == before || after+2 >= rig.Chain.Height() {
						break
					}
				}
				rig.Parties[kut].Cl.Cap = 0
			} else if i == kut {
				runKut(round)
			} else if res := rig.Iterate(i, uint64(round), nil); !res.OK() {
				tr.errs = append(tr.errs, fmt.Sprintf("party %d round %d: %s", i, round, res.Err))
			}
		}
		rig.Chain.NextBlock()
		eons := rig.Eons()
		if len(eons) > 0 && rig.Chain.Height() >= eons[len(eons)-1].Start+3*L+8 {
			break
		}
	}
	for k := 0; k < 9; k++ {
		runKut(maxRounds + k)
		rig.Iterate(1, uint64(maxRounds+k), nil)
		if k < 7 {
			rig.Chain.NextBlock()
		}
	}
	// a crash in the very last iterations: the restarted keyper gets the iterations it lost (the
	// chain does not move any more), otherwise "did it catch up" would be asked of a dead process
	for k := 0; k < 4 && lastCrashed; k++ {
		runKut(maxRounds + 9 + k)
	}
	for _, p := range pending {
		tr.notFired = append(tr.notFired, fmt.Sprintf("%s@%d", p.Kind, p.At))
	}
	pt := rig.Parties[kut]
	tr.msgLog = pt.Srv.MsgLog()
	tr.bcasts = rig.Chain.PerName[pt.Name]
	tr.syncPos, tr.syncRows = rig.SyncPos(kut)
	tr.endHeight = rig.Chain.Height()
	for i := 0; i < 2; i++ {
		tr.results[i] = rig.Results(i)
	}
	tr.sent = rig.SentBy(pt.Name)
	tr.outboxEnd = rig.Outbox(kut)
	tr.tables = canonTables(rig)
	tr.issues = e.servers.Issues()
	return tr, nil
}

// canonTables renders the durable tables of the keyper under test without timestamps,
// randomness-dependent blobs and timing-dependent numbers.
func canonTables(rig *dkgrig.Rig) map[string]string {
	st := rig.Parties[kut].Srv.Store()
	out := map[string]string{}
	rowsOf := func(table string, f func(r pgfake.Row) string) {
		var l []string
		for _, r := range st.Table(table).Rows() {
			l = append(l, f(r))
		}
		sort.Strings(l)
		out[table] = strings.Join(l, "\n")
	}
	rowsOf("tendermint_batch_config", func(r pgfake.Row) string {
		return fmt.Sprintf("%v keypers=%v thr=%v started=%v act=%v", r["keyper_config_index"], r["keypers"], r["threshold"], r["started"], r["activation_block_number"])
	})
	rowsOf("eons", func(r pgfake.Row) string {
		return fmt.Sprintf("%v act=%v cfg=%v", r["eon"], r["activation_block_number"], r["keyper_config_index"])
	})
	rowsOf("dkg_result", func(r pgfake.Row) string { return fmt.Sprintf("%v success=%v", r["eon"], r["success"]) })
	rowsOf("outgoing_eon_keys", func(r pgfake.Row) string { return fmt.Sprintf("%v", r["eon"]) })
	rowsOf("puredkg", func(r pgfake.Row) string { return fmt.Sprintf("%v", r["eon"]) })
	rowsOf("poly_evals", func(r pgfake.Row) string { return fmt.Sprintf("%v %v", r["eon"], r["receiver_address"]) })
	rowsOf("last_batch_config_sent", func(r pgfake.Row) string { return fmt.Sprintf("%v", r["keyper_config_index"]) })
	keys := map[string]string{}
	hts := map[string]int64{}
	for _, r := range st.Table("tendermint_encryption_key").Rows() {
		a := r["address"].(string)
		h := r["height"].(int64)
		if _, ok := keys[a]; !ok || h >= hts[a] {
			keys[a] = fmt.Sprintf("%x", r["encryption_public_key"])
			hts[a] = h
		}
	}
	var kl []string
	for a, k := range keys {
		kl = append(kl, a+" "+k)
	}
	sort.Strings(kl)
	out["tendermint_encryption_key(latest)"] = strings.Join(kl, "\n")
	return out
}

func toInt(v any) int64 {
	switch x := v.(type) {
	case int64:
		return x
	case int32:
		return int64(x)
	}
	return 0
}

func appdrvMessage(tx []byte) ([]byte, bool) {
	m, ok := appdrv.MessageOf(tx)
	if !ok {
		return nil, false
	}
	raw, err := proto.Marshal(m)
	return raw, err == nil
}

// ---------------------------------------------------------------------------------------
// rendering for the model (Corr/C08.v)

func msgCoq(lb *dkgrig.Labeller, raw []byte) string {
	m := &shmsg.Message{}
	if err := proto.Unmarshal(raw, m); err != nil {
		return "MCheckIn"
	}
	switch {
	case m.GetBatchConfig() != nil:
		return vh.CApp("MVote", vh.CN(m.GetBatchConfig().ActivationBlockNumber), vh.CN(m.GetBatchConfig().KeyperConfigIndex))
	case m.GetBlockSeen() != nil:
		return vh.CApp("MBlockSeen", vh.CN(m.GetBlockSeen().BlockNumber))
	}
	if c, ok := lb.MsgCoq(kut, m); ok {
		return c
	}
	return "MCheckIn"
}

func renderCase(id uint64, tr *trace) string {
	rig := tr.rig
	lb := dkgrig.NewLabeller(rig, []int{0, 1, 2}, int(thrOf(tr.c.S)))
	lb.CollectCommits()
	polys := map[uint64]string{}
	note := func(eon uint64, p *puredkg.PureDKG) {
		if p.Polynomial != nil {
			pid, n := lb.Commit(eon, kut, p.Polynomial.Gammas())
			polys[eon] = vh.CPair(vh.CN(eon), vh.CApp("mkP", vh.CN(pid), vh.CN(uint64(n))))
		}
		for k, c := range p.Commitments {
			if c != nil && k < 3 {
				lb.Commit(eon, k, c)
			}
		}
	}
	for _, g := range tr.groups {
		for eon, p := range g.Pure {
			note(eon, p)
		}
	}
	for _, s := range tr.sent {
		if s.Msg != nil && s.Msg.GetPolyCommitment() != nil {
			if gm, ok := dkgrig.GammasOf(s.Msg.GetPolyCommitment()); ok {
				pid, n := lb.Commit(s.Msg.GetPolyCommitment().Eon, kut, gm)
				polys[s.Msg.GetPolyCommitment().Eon] = vh.CPair(vh.CN(s.Msg.GetPolyCommitment().Eon), vh.CApp("mkP", vh.CN(pid), vh.CN(uint64(n))))
			}
		}
	}
	for _, q := range tr.queued {
		m := &shmsg.Message{}
		if proto.Unmarshal(q.Msg, m) == nil && m.GetPolyCommitment() != nil {
			if gm, ok := dkgrig.GammasOf(m.GetPolyCommitment()); ok {
				pid, n := lb.Commit(m.GetPolyCommitment().Eon, kut, gm)
				polys[m.GetPolyCommitment().Eon] = vh.CPair(vh.CN(m.GetPolyCommitment().Eon), vh.CApp("mkP", vh.CN(pid), vh.CN(uint64(n))))
			}
		}
	}
	var pl []string
	for _, k := range sortedU(polys) {
		pl = append(pl, polys[k])
	}
	polyTbl := vh.CApp("poly_tbl", vh.CList(pl))
	lch := map[int64]int64{}
	for _, r := range rig.Parties[kut].Srv.Store().Table("tendermint_sync_meta").Rows() {
		lch[r["current_block"].(int64)] = r["last_committed_height"].(int64)
	}
	var groups []string
	for _, g := range tr.groups {
		var ops []string
		for _, h := range g.Blocks {
			var evs []string
			for _, ev := range dkgrig.EventsOf(rig.Chain.BlockAt(h)) {
				if c, ok := lb.EventCoq(ev); ok {
					evs = append(evs, c)
				}
			}
			ops = append(ops, vh.CApp("OBlock", vh.CPair(vh.CZ(h), vh.CList(evs)), vh.CZ(lch[h]), polyTbl, "true"))
		}
		if g.OnChain {
			var ks []string
			for _, k := range g.KSets {
				var as []string
				for _, a := range k.Keypers {
					as = append(as, vh.CBytes(common.HexToAddress(a).Bytes()))
				}
				ks = append(ks, vh.CPair(vh.CZ(k.Idx), vh.CApp("mkKs", vh.CZ(k.Act), vh.CList(as), vh.CZ(k.Thr))))
			}
			ops = append(ops, vh.CApp("OOnChain", vh.CList(ks), vh.CZ(int64(g.L1)), "true"))
		}
		for _, sr := range g.Sends {
			code := map[uint32]string{0: "ROk", 1: "RErr", 2: "RSeen"}[sr.Code]
			if sr.Lost {
				ops = append(ops, vh.CApp("OSend", vh.CApp("SLost", code)))
			} else {
				ops = append(ops, vh.CApp("OSend", vh.CApp("SAnswer", code)))
				if sr.Deleted {
					ops = append(ops, vh.CApp("ODelete", "true"))
				}
			}
		}
		if g.Crashed {
			ops = append(ops, "OCrash")
		}
		var out []string
		for _, r := range g.After.outbox {
			out = append(out, msgCoq(lb, r.Msg))
		}
		var eons []uint64
		for e := range g.Pure {
			eons = append(eons, e)
		}
		sort.Slice(eons, func(a, b int) bool { return eons[a] < eons[b] })
		var pure []string
		for _, e := range eons {
			pure = append(pure, vh.CPair(vh.CN(e), lb.SnapCoq(kut, e, g.Pure[e])))
		}
		var res []string
		for _, r := range g.Results {
			res = append(res, vh.CPair(vh.CN(uint64(r.Eon)), vh.CBool(r.Success)))
		}
		obs := vh.CApp("mkObs", vh.CZ(g.Pos), vh.CList(out), vh.CZ(g.After.lastCfg), vh.CZ(g.After.lastSeen), vh.CList(pure), vh.CList(res), vh.CNat(g.LogCount))
		groups = append(groups, vh.CPair(vh.CList(ops), obs))
	}
	return vh.CApp("CCrash", vh.CN(id), vh.CBytes(rig.Parties[kut].Addr.Bytes()), vh.CZ(tr.c.S.PhaseLen), vh.CZ(1000), vh.CList(groups))
}

func sortedU(m map[uint64]string) []uint64 {
	var l []uint64
	for k := range m {
		l = append(l, k)
	}
	sort.Slice(l, func(a, b int) bool { return l[a] < l[b] })
	return l
}

// ---------------------------------------------------------------------------------------
// oracle

type seqItem struct {
	Kind string
	Eon  uint64
	Info string
}

// effective sequence of the keyper's messages: what shuttermint applied, re-sends collapsed
func effective(sent []dkgrig.Sent) []seqItem {
	var out []seqItem
	var prev []byte
	for _, s := range sent {
		if s.Msg == nil || s.Rec.Check != 0 {
			continue
		}
		if prev != nil && bytes.Equal(prev, s.Raw) {
			continue
		}
		prev = s.Raw
		it := seqItem{Kind: dkgrig.Kind(s.Msg)}
		switch {
		case s.Msg.GetPolyCommitment() != nil:
			it.Eon = s.Msg.GetPolyCommitment().Eon
		case s.Msg.GetPolyEval() != nil:
			it.Eon = s.Msg.GetPolyEval().Eon
			rs := []string{}
			for _, r := range s.Msg.GetPolyEval().Receivers {
				rs = append(rs, fmt.Sprintf("%x", r))
			}
			sort.Strings(rs)
			it.Info = strings.Join(rs, ",")
		case s.Msg.GetAccusation() != nil:
			it.Eon = s.Msg.GetAccusation().Eon
			it.Info = fmt.Sprintf("%x", s.Msg.GetAccusation().Accused)
		case s.Msg.GetApology() != nil:
			it.Eon = s.Msg.GetApology().Eon
			it.Info = fmt.Sprintf("%x", s.Msg.GetApology().Accusers)
		case s.Msg.GetDkgResult() != nil:
			it.Eon = s.Msg.GetDkgResult().Eon
			it.Info = fmt.Sprint(s.Msg.GetDkgResult().Success)
		case s.Msg.GetBatchConfig() != nil:
			it.Info = fmt.Sprintf("idx=%d act=%d", s.Msg.GetBatchConfig().KeyperConfigIndex, s.Msg.GetBatchConfig().ActivationBlockNumber)
		case s.Msg.GetBlockSeen() != nil:
			it.Kind = "blockseen"
		}
		out = append(out, it)
	}
	return out
}

type verdict struct {
	viol []vh.Violation
}

func oracle(tr, twin *trace) verdict {
	var v verdict
	add := func(key, what string, obs, exp any) {
		v.viol = append(v.viol, vh.Violation{Key: key, What: what, Case: tr.c, Observed: obs, Expected: exp})
	}
	rig := tr.rig
	pt := rig.Parties[kut]
	// the known head-of-line blocking: the head of the outbox is a config vote that shuttermint
	// has applied (answer Ok) and answers every re-send with an error
	blocked := false
	if len(tr.outboxEnd) > 0 && strings.HasPrefix(tr.outboxEnd[0].Desc, "new batch config") {
		okOnce, errLater := false, false
		for _, s := range tr.sent {
			if s.Msg != nil && bytes.Equal(s.Raw, tr.outboxEnd[0].Msg) && s.Rec.Check == 0 {
				if s.Rec.Deliver == 0 {
					okOnce = true
				} else if okOnce && s.Rec.Deliver == 1 {
					errLater = true
				}
			}
		}
		if okOnce && errLater {
			blocked = true
			var stuck []string
			for _, r := range tr.outboxEnd[1:] {
				stuck = append(stuck, r.Desc)
			}
			add("C08:config-vote-resent-after-crash-blocks-outbox",
				fmt.Sprintf("the keyper died between shuttermint applying its vote (%s) and the deletion of the outbox row; every re-send is answered 'sender already voted' (Error, not Seen), the row stays at the head of the outbox and %d later messages are never sent while the config is not accepted", tr.outboxEnd[0].Desc, len(stuck)),
				stuck, "the re-sent vote is recognised as already delivered and the queue moves on")
		}
	}
	if len(tr.errs) > 0 {
		add("C08:loop-error-without-crash", "the keyper's loop failed without an injected crash: "+tr.errs[0], tr.errs, nil)
	}
	if len(tr.postCrash) > 0 {
		add("C08:rig-database-activity-after-crash", "the dying process still reached its database: "+tr.postCrash[0], tr.postCrash, nil)
	}
	// cache = load(db) whenever the cache is synchronised
	if len(tr.cacheDiff) > 0 {
		add("C08:cache-differs-from-load", "after a completed loop iteration the ShuttermintState differs from a state loaded from the database: "+tr.cacheDiff[0], tr.cacheDiff, "equal")
	}
	// every block applied exactly once, in order
	for i, c := range tr.syncRows {
		if c != int64(i) {
			add("C08:blocks-not-exactly-once", fmt.Sprintf("tendermint_sync_meta current_block values are not 0,1,2,...: position %d holds %d", i, c), tr.syncRows, nil)
			break
		}
	}
	if tr.syncPos != tr.endHeight-2 {
		add("C08:sync-stuck", fmt.Sprintf("the keyper stopped following the chain: sync position %d, chain height %d", tr.syncPos, tr.endHeight), nil, nil)
	}
	// one commitment per eon, consistent evaluations and apologies
	commit := map[uint64]*shcrypto.Gammas{}
	for _, s := range tr.sent {
		if s.Msg == nil {
			continue
		}
		if pc := s.Msg.GetPolyCommitment(); pc != nil {
			g, ok := dkgrig.GammasOf(pc)
			if !ok {
				add("C08:commitment-undecodable", "a commitment the keyper broadcast does not decode", nil, nil)
				continue
			}
			if old, have := commit[pc.Eon]; have && !old.Equal(*g) {
				add("C08:two-commitments", fmt.Sprintf("the keyper broadcast two different polynomial commitments for eon %d", pc.Eon), nil, "one commitment per eon")
			}
			commit[pc.Eon] = g
		}
	}
	for _, s := range tr.sent {
		if s.Msg == nil {
			continue
		}
		if pe := s.Msg.GetPolyEval(); pe != nil {
			g := commit[pe.Eon]
			for k, r := range pe.Receivers {
				p := rig.IndexOf(common.BytesToAddress(r))
				if p < 0 || k >= len(pe.EncryptedEvals) {
					continue
				}
				val, ok := rig.DecryptEval(p, pe.EncryptedEvals[k])
				if !ok || g == nil || !shcrypto.VerifyPolyEval(p, val, g, thrOf(tr.c.S)) {
					add("C08:eval-inconsistent-with-commitment", fmt.Sprintf("the evaluation the keyper sent to party %d for eon %d does not match the commitment it broadcast", p, pe.Eon), nil, nil)
				}
			}
		}
		if ap := s.Msg.GetApology(); ap != nil {
			g := commit[ap.Eon]
			for k, a := range ap.Accusers {
				p := rig.IndexOf(common.BytesToAddress(a))
				if p < 0 || k >= len(ap.PolyEvals) {
					continue
				}
				if g == nil || !shcrypto.VerifyPolyEval(p, new(big.Int).SetBytes(ap.PolyEvals[k]), g, thrOf(tr.c.S)) {
					add("C08:apology-inconsistent-with-commitment", fmt.Sprintf("the apology value for party %d, eon %d does not match the commitment", p, ap.Eon), nil, nil)
				}
			}
		}
		if dr := s.Msg.GetDkgResult(); dr != nil {
			for _, row := range tr.results[kut] {
				if uint64(row.Eon) == dr.Eon && row.Success != dr.Success {
					add("C08:vote-differs-from-result", fmt.Sprintf("the keyper voted %v for eon %d, dkg_result says %v", dr.Success, dr.Eon, row.Success), nil, nil)
				}
			}
		}
	}
	if blocked {
		// everything below (undelivered rows, different outcome) is a consequence
		return v
	}
	// every queued message delivered, in order: each transaction shuttermint received from the
	// keyper is matched with the earliest queued row carrying the same message that has not been
	// accepted yet
	firstSeen := map[int64]int{}
	accepted := map[int64]bool{}
	var lastRaw []byte
	for _, s := range tr.sent {
		if s.Msg == nil {
			continue
		}
		if lastRaw != nil && bytes.Equal(lastRaw, s.Raw) {
			continue // the same row sent again after a crash
		}
		lastRaw = s.Raw
		for _, id := range tr.queueSeq {
			if accepted[id] || !bytes.Equal(tr.queued[id].Msg, s.Raw) {
				continue
			}
			if _, ok := firstSeen[id]; !ok {
				firstSeen[id] = s.Rec.Seq
			}
			if s.Rec.Check == 0 && (s.Rec.Deliver == 0 || s.Rec.Deliver == 2) {
				accepted[id] = true
			}
			break
		}
	}
	lastSeq := -1
	for _, id := range tr.queueSeq {
		q := tr.queued[id]
		seq, ok := firstSeen[id]
		if !ok || !accepted[id] {
			stillQueued := false
			for _, r := range tr.outboxEnd {
				if r.ID == id {
					stillQueued = true
				}
			}
			if strings.HasPrefix(q.Desc, "new batch config") && ok && !stillQueued {
				continue // a vote answered with an error and removed when the config was accepted
			}
			add("C08:queued-message-never-delivered", fmt.Sprintf("outbox row %d (%s) was never accepted by shuttermint", id, q.Desc), nil, nil)
			continue
		}
		if seq < lastSeq {
			add("C08:delivery-out-of-order", fmt.Sprintf("outbox row %d (%s) reached shuttermint before an earlier row", id, q.Desc), nil, nil)
		}
		lastSeq = seq
	}
	if len(tr.outboxEnd) > 0 {
		add("C08:outbox-not-drained", fmt.Sprintf("%d messages are still queued at the end of the run, head: %s", len(tr.outboxEnd), tr.outboxEnd[0].Desc), nil, "empty outbox")
	}
	// the same outcome as the twin
	if twin != nil {
		for _, tb := range sortedKeys(twin.tables) {
			if tr.tables[tb] != twin.tables[tb] {
				add("C08:outcome-differs:"+tb, fmt.Sprintf("table %s differs from the crash-free twin", tb), tr.tables[tb], twin.tables[tb])
			}
		}
		split := func(l []seqItem) (ordered []seqItem, timing []string) {
			for _, it := range l {
				if it.Kind == "batchconfig" || it.Kind == "blockseen" {
					timing = append(timing, it.Kind+" "+it.Info)
				} else {
					ordered = append(ordered, it)
				}
			}
			sort.Strings(timing)
			return
		}
		ao, at := split(effective(tr.sent))
		bo, bt := split(effective(twin.sent))
		if fmt.Sprint(ao) != fmt.Sprint(bo) {
			add("C08:message-sequence-differs", "the sequence of check-ins and DKG messages shuttermint applied from the keyper differs from the crash-free twin", ao, bo)
		}
		if fmt.Sprint(at) != fmt.Sprint(bt) {
			add("C08:votes-differ", "the config votes / block-seen reports shuttermint applied from the keyper differ from the crash-free twin", at, bt)
		}
	}
	// the outcome is sound in itself: agreement with the other honest keyper, share matches
	for _, row := range tr.results[kut] {
		if !row.Success || row.Result == nil {
			continue
		}
		epoch := shcrypto.ComputeEpochID([]byte("verif-c08"))
		es := shcrypto.ComputeEpochSecretKeyShare(row.Result.SecretKeyShare, epoch)
		if !shcrypto.VerifyEpochSecretKeyShare(es, row.Result.PublicKeyShares[kut], epoch) {
			add("C08:secret-share-mismatch", fmt.Sprintf("eon %d: the stored secret key share does not match the public share", row.Eon), nil, nil)
		}
		for _, o := range tr.results[1] {
			if o.Eon == row.Eon && o.Success && o.Result != nil && !o.Result.PublicKey.Equal(row.Result.PublicKey) {
				add("C08:disagreement-after-crash", fmt.Sprintf("eon %d: the keyper under test and party 1 hold different eon public keys", row.Eon), nil, nil)
			}
		}
	}
	_ = pt
	return v
}

func sortedKeys(m map[string]string) []string {
	var l []string
	for k := range m {
		l = append(l, k)
	}
	sort.Strings(l)
	return l
}

// ---------------------------------------------------------------------------------------
// crash points of a twin

func crashPoints(twin *trace, every int, rng *vh.RNG) []Crash {
	var out []Crash
	modifying := func(stmt string) bool {
		for _, p := range []string{".Delete", ".Insert", ".Set", ".Schedule", ".TMSet", ".Update"} {
			if strings.Contains(stmt, p) {
				return true
			}
		}
		return false
	}
	lastExec := ""
	inTx := false
	for _, m := range twin.msgLog {
		switch {
		case m.Kind == "Query" && m.Stmt == "begin":
			inTx = true
		case m.Kind == "Query" && (m.Stmt == "commit" || m.Stmt == "rollback"):
			inTx = false
		}
		if m.Kind == "Execute" {
			lastExec = m.Stmt
		}
		commitLike := (m.Kind == "Query" && m.Stmt == "commit") || (m.Kind == "Sync" && !inTx && modifying(lastExec))
		near := commitLike || (m.Kind == "Query" && m.Stmt == "begin")
		if near || every <= 1 || int(m.Index)%every == 0 {
			out = append(out, Crash{"db-before", m.Index})
		}
		if commitLike {
			out = append(out, Crash{"db-after-commit", m.Index})
			out = append(out, Crash{"db-before", m.Index + 1})
		}
	}
	for b := 1; b <= twin.bcasts; b++ {
		out = append(out, Crash{"bc-before", int64(b)}, Crash{"bc-after", int64(b)})
	}
	// de-duplicate
	seen := map[Crash]bool{}
	var uniq []Crash
	for _, c := range out {
		if !seen[c] {
			seen[c] = true
			uniq = append(uniq, c)
		}
	}
	return uniq
}

// ---------------------------------------------------------------------------------------

var contextBG = context.Background()

// every modelEvery-th case is also replayed on the Coq model
var modelEvery = 1

type result struct {
	c    Case
	err  error
	v    verdict
	tr   *trace
	twin bool
	coq  string
}

func runAll(run *vh.Run, cases []Case, twins map[string]*trace) []result {
	results := make([]result, len(cases))
	workers := 8
	if len(cases) < workers {
		workers = len(cases)
	}
	next := make(chan int, len(cases))
	for i := range cases {
		next <- i
	}
	close(next)
	var wg sync.WaitGroup
	var mu sync.Mutex
	issues := map[string]bool{}
	for w := 0; w < workers; w++ {
		wg.Add(1)
		go func() {
			defer wg.Done()
			servers, err := dkgrig.NewServers(run.Repo, 5)
			if err != nil {
				panic(err)
			}
			defer servers.Close()
			sp, err := servers.Srv[4].Pool(contextBG)
			if err != nil {
				panic(err)
			}
			defer sp.Close()
			e := &env{servers: servers, shadowPool: sp}
			for i := range next {
				r := result{c: cases[i]}
				p, msg := vh.Guard(func() {
					r.tr, r.err = execute(cases[i], e)
					if r.err == nil {
						r.v = oracle(r.tr, twins[scenarioKey(cases[i].S)])
						if i%modelEvery == 0 {
							r.coq = renderCase(uint64(i+1), r.tr)
						}
						mu.Lock()
						for _, is := range r.tr.issues {
							issues[is] = true
						}
						mu.Unlock()
					}
				})
				if p {
					r.err = fmt.Errorf("driver panic: %s", msg)
				}
				if r.tr != nil {
					r.tr.rig = nil
				}
				results[i] = r
			}
		}()
	}
	wg.Wait()
	for is := range issues {
		run.Tie(is)
	}
	return results
}

func scenarioKey(s Scenario) string { b, _ := json.Marshal(s); return string(b) }

func main() {
	run := vh.Start("Verif.Corr.C08", 12)
	run.SetPreamble("From Verif Require Import Model.DKGPure Model.DKGDriver Model.Outbox Corr.C07 Corr.C08.\nOpen Scope N_scope.")
	defer run.Finish()
	run.Rule = "a complete DKG run of three keypers (one Byzantine party that makes the keyper under test accuse, be accused and apologise) on real keyper stacks, seven schedules (plain, fork, second config, excluded-later: a restarted key generation of a set with the keyper under test during which a newer set without it is accepted, late-key: party 2's encryption key arrives a block after the eon started so that two outbox rows carry the same description, step: every keyper transaction alone in its block, the keyper under test processes one block per iteration, crash-free only, split: every transaction of the other honest keyper in a block of its own, so that blocks carry a single PolyEval / Accusation / Apology); after every loop iteration of the keyper under test its cache is compared with a fresh load of a copy of its database; per case one or two crash points of the keyper under test: before database message k, after the commit carried by message k was applied, before / after its b-th broadcast reached shuttermint; quick: every database message next to a begin/commit, every 9th other message, every broadcast; thorough: every database message, every broadcast and 2000 sampled pairs; non-trivial = the crash happened; distinct by the JSON rendering of the case"

	scenarios := []Scenario{
		{Name: "dkg", PhaseLen: 7, Byzantine: true, SchedSeed: 11},
		{Name: "dkg", PhaseLen: 7, Byzantine: false, Fork: true, SchedSeed: 12},
		{Name: "second-config", PhaseLen: 7, Byzantine: true, SchedSeed: 13},
		{Name: "dkg", PhaseLen: 9, Byzantine: true, Split: true, SchedSeed: 14},
		{Name: "excluded-later", PhaseLen: 7, SchedSeed: 15},
		{Name: "dkg", PhaseLen: 7, Byzantine: true, LateKey: true, SchedSeed: 16},
		{Name: "dkg", PhaseLen: 12, Byzantine: true, Step: true, SchedSeed: 17},
	}
	var cases []Case
	if run.Replay != "" {
		var c Case
		if err := run.LoadReplay(&c); err != nil {
			panic(err)
		}
		scenarios = []Scenario{c.S}
		cases = []Case{c}
	}
	// pass 1: the twins
	var twinCases []Case
	for _, s := range scenarios {
		twinCases = append(twinCases, Case{S: s})
	}
	twinRes := runAll(run, twinCases, map[string]*trace{})
	twins := map[string]*trace{}
	for _, r := range twinRes {
		if r.err != nil {
			run.Violate(vh.Violation{Key: "C08:rig-failure", What: "the crash-free run could not be executed: " + r.err.Error(), Case: r.c})
			return
		}
		twins[scenarioKey(r.c.S)] = r.tr
		if r.c.S.LateKey {
			// the schedule must make the keyper queue two rows with the same description
			n := 0
			for _, q := range r.tr.queued {
				if strings.HasPrefix(q.Desc, "poly eval") {
					n++
				}
			}
			if n < 2 {
				run.Violate(vh.Violation{Key: "C08:rig-failure", What: fmt.Sprintf("the late-key schedule queued %d poly-eval rows, expected two with the same description", n), Case: r.c})
				return
			}
		}
		if r.c.S.Name == "excluded-later" {
			// the schedule must contain its window: an eon of set 1 restarted, set 2 (without the
			// keyper under test) stored while it runs, and the keyper took part in it successfully
			cfg1 := strings.Count(r.tr.tables["eons"], "cfg=1")
			okRows := strings.Count(r.tr.tables["dkg_result"], "success=true")
			if cfg1 < 2 || okRows < 1 || !strings.Contains(r.tr.tables["tendermint_batch_config"], "2 keypers=") {
				run.Violate(vh.Violation{Key: "C08:rig-failure", What: "the excluded-later schedule lost its window (a restarted set-1 key generation in which the keyper under test takes part successfully, set 2 without it accepted meanwhile)", Case: r.c,
					Observed: []string{r.tr.tables["eons"], r.tr.tables["dkg_result"], r.tr.tables["tendermint_batch_config"]}})
				return
			}
		}
		for _, v := range r.v.viol {
			run.Violate(v)
		}
		run.Dist[fmt.Sprintf("twin:%s:db_messages=%d,broadcasts=%d", r.c.S.Name, len(r.tr.msgLog), r.tr.bcasts)]++
		run.CountOnly(scenarioKey(r.c.S), false)
	}
	if run.Replay == "" {
		for _, f := range run.CorpusFiles() {
			var w struct {
				Case Case `json:"case"`
			}
			if b, err := os.ReadFile(f); err == nil && json.Unmarshal(b, &w) == nil && w.Case.S.Name != "" {
				if _, ok := twins[scenarioKey(w.Case.S)]; ok {
					cases = append(cases, w.Case)
				}
			}
		}
		every := 9
		if run.Thorough {
			every = 1
			modelEvery = 20
		} else {
			modelEvery = 8
		}
		if run.Search {
			every = 3
		}
		for si, s := range scenarios {
			if s.Step {
				continue // crash-free only
			}
			tw := twins[scenarioKey(s)]
			ev := every
			if si > 0 && !run.Thorough {
				ev = every * 3
			}
			pts := crashPoints(tw, ev, run.RNG)
			if (s.Name == "excluded-later" || s.LateKey) && !run.Thorough {
				// quick tier: the crash points of the schedule's window (after keyper set 2 was
				// announced / from the late check-in to a few blocks after it)
				var w []Crash
				for _, p := range pts {
					db, bc := strings.HasPrefix(p.Kind, "db"), strings.HasPrefix(p.Kind, "bc")
					if db && p.At >= tw.winMsg && (tw.winEndMsg == 0 || p.At <= tw.winEndMsg) {
						w = append(w, p)
					}
					if bc && p.At > int64(tw.winBc) && (tw.winEndBc == 0 || p.At <= int64(tw.winEndBc)) {
						w = append(w, p)
					}
				}
				pts = w
			}
			if si > 0 && !run.Thorough && s.Name != "excluded-later" && !s.LateKey {
				// quick tier: the secondary full-length schedules keep every second database crash
				// point (all broadcast crash points); the plain schedule and the thorough tier keep all
				var w []Crash
				k := 0
				for _, p := range pts {
					if strings.HasPrefix(p.Kind, "db") {
						k++
						if k%2 == 0 {
							continue
						}
					}
					w = append(w, p)
				}
				pts = w
			}
			for _, p := range pts {
				cases = append(cases, Case{S: s, Crashes: []Crash{p}})
			}
			np := run.Scale(40, 2000)
			if si > 0 {
				np /= 4
			}
			for k := 0; k < np; k++ {
				a, b := pts[run.RNG.Intn(len(pts))], pts[run.RNG.Intn(len(pts))]
				if a.Kind[:2] == b.Kind[:2] && a.At > b.At {
					a, b = b, a
				}
				cases = append(cases, Case{S: s, Crashes: []Crash{a, b}})
			}
		}
	}
	results := runAll(run, cases, twins)
	for idx, r := range results {
		run.NextID()
		if r.err != nil {
			run.Violate(vh.Violation{Key: "C08:rig-failure", What: "the rig could not execute the case: " + r.err.Error(), Case: r.c})
			continue
		}
		for _, v := range r.v.viol {
			run.Violate(v)
		}
		js, _ := json.Marshal(r.c)
		kinds := []string{}
		for _, c := range r.c.Crashes {
			kinds = append(kinds, c.Kind)
		}
		run.Dist[fmt.Sprintf("%s:%s:crashed=%d", r.c.S.Name, strings.Join(kinds, "+"), r.tr.crashed)]++
		if r.coq != "" {
			run.AddCase(uint64(idx+1), r.coq, r.c, string(js), r.tr.crashed > 0)
		} else {
			run.CountOnly(string(js), r.tr.crashed > 0)
		}
	}
}
