//go:build verif

// Driver for C17 (event trigger definitions round-trip, match totally, are never hidden by
// the node-side filter). It runs the real Validate / MarshalBytes / UnmarshalBytes / Match /
// ToFilterQuery of keyperimpl/shutterservice on generated definitions, logs and byte
// strings, evaluates the property oracle (a direct reading of the property text and of
// docs/event.md) and records every execution for the Coq model.
package main

import (
	"bytes"
	"context"
	"crypto/sha256"
	"encoding/hex"
	"encoding/json"
	"fmt"
	"math/big"
	"os"
	"os/exec"
	"runtime"
	"runtime/debug"
	"strings"
	"sync"
	"syscall"
	"time"

	"github.com/ethereum/go-ethereum"
	"github.com/ethereum/go-ethereum/common"
	"github.com/ethereum/go-ethereum/core/types"

	"github.com/shutter-network/rolling-shutter/rolling-shutter/keyperimpl/shutterservice"

	"verifharness/vh"
)

// ---------------------------------------------------------------------------------------
// replayable case format

type jPred struct {
	Dyn   bool      `json:"dyn"`
	Off   uint64    `json:"off"`
	Op    uint64    `json:"op"`
	Ints  []*string `json:"ints"`  // decimal; null = nil *big.Int
	Bytes []string  `json:"bytes"` // hex
}

type jDef struct {
	Contract string  `json:"contract"` // hex, 20 bytes
	Preds    []jPred `json:"preds"`
}

type jLog struct {
	Addr   string   `json:"addr"`
	Topics []string `json:"topics"`
	Data   string   `json:"data"`
	// Big marks a log whose embedded length asks for tens of megabytes: executed and judged
	// by the oracle, not sent to the model (which would have to materialise the value).
	Big bool `json:"big,omitempty"`
}

type jCase struct {
	Kind  string  `json:"kind"` // "def" | "decode" | "batch" | "reuse"
	Defs  []*jDef `json:"defs,omitempty"`
	Def   *jDef   `json:"def,omitempty"`
	Logs  []jLog  `json:"logs,omitempty"`
	Bytes string  `json:"bytes,omitempty"`
}

func hx(b []byte) string { return hex.EncodeToString(b) }
func unhx(s string) []byte {
	b, err := hex.DecodeString(s)
	if err != nil {
		panic(err)
	}
	return b
}

func exact(b []byte) []byte { // cap == len, as the model assumes for log data
	d := make([]byte, len(b))
	copy(d, b)
	return d
}

func (d *jDef) build() *shutterservice.EventTriggerDefinition {
	out := &shutterservice.EventTriggerDefinition{Contract: common.BytesToAddress(unhx(d.Contract))}
	for _, p := range d.Preds {
		vp := shutterservice.ValuePredicate{Op: shutterservice.Op(p.Op), IntArgs: []*big.Int{}, ByteArgs: [][]byte{}}
		for _, s := range p.Ints {
			if s == nil {
				vp.IntArgs = append(vp.IntArgs, nil)
				continue
			}
			z, ok := new(big.Int).SetString(*s, 10)
			if !ok {
				panic("bad int " + *s)
			}
			vp.IntArgs = append(vp.IntArgs, z)
		}
		for _, s := range p.Bytes {
			vp.ByteArgs = append(vp.ByteArgs, exact(unhx(s)))
		}
		out.LogPredicates = append(out.LogPredicates, shutterservice.LogPredicate{
			LogValueRef:    shutterservice.LogValueRef{Dynamic: p.Dyn, Offset: p.Off},
			ValuePredicate: vp,
		})
	}
	return out
}

func defOf(d *shutterservice.EventTriggerDefinition) *jDef {
	out := &jDef{Contract: hx(d.Contract.Bytes()), Preds: []jPred{}}
	for _, lp := range d.LogPredicates {
		p := jPred{Dyn: lp.LogValueRef.Dynamic, Off: lp.LogValueRef.Offset, Op: uint64(lp.ValuePredicate.Op), Ints: []*string{}, Bytes: []string{}}
		for _, z := range lp.ValuePredicate.IntArgs {
			if z == nil {
				p.Ints = append(p.Ints, nil)
			} else {
				s := z.String()
				p.Ints = append(p.Ints, &s)
			}
		}
		for _, b := range lp.ValuePredicate.ByteArgs {
			p.Bytes = append(p.Bytes, hx(b))
		}
		out.Preds = append(out.Preds, p)
	}
	return out
}

func (l *jLog) build() *types.Log {
	lg := &types.Log{Address: common.BytesToAddress(unhx(l.Addr)), Data: exact(unhx(l.Data))}
	for _, t := range l.Topics {
		lg.Topics = append(lg.Topics, common.BytesToHash(unhx(t)))
	}
	return lg
}

// ---------------------------------------------------------------------------------------
// Coq terms

// cb renders a byte string compactly for Coq (see Corr/C17.v dx): named constants for the
// addresses and hashes the generators use, runs of zero bytes, hex text for the rest.
var named = []struct {
	name string
	b    []byte
}{}

func initNamed() string {
	var sb strings.Builder
	add := func(name, h string) {
		named = append(named, struct {
			name string
			b    []byte
		}{name, unhx(h)})
		fmt.Fprintf(&sb, "Definition %s : bytes := hx \"%s\".\n", name, h)
	}
	add("aA", addrA)
	add("aB", addrB)
	for i, h := range hashes {
		if i == 2 {
			continue // all zero: rendered as a zero run
		}
		add(fmt.Sprintf("h%d", i), h)
	}
	return sb.String()
}

func cb(b []byte) string {
	if len(b) == 0 {
		return "[]"
	}
	var chunks []string
	var pend []byte
	flush := func() {
		if len(pend) > 0 {
			chunks = append(chunks, `CH "`+hx(pend)+`"`)
			pend = nil
		}
	}
	for i := 0; i < len(b); {
		hit := false
		for _, nm := range named {
			if len(b)-i >= len(nm.b) && bytes.Equal(b[i:i+len(nm.b)], nm.b) {
				flush()
				chunks = append(chunks, "CB "+nm.name)
				i += len(nm.b)
				hit = true
				break
			}
		}
		if hit {
			continue
		}
		z := 0
		for i+z < len(b) && b[i+z] == 0 {
			z++
		}
		if z >= 6 {
			flush()
			chunks = append(chunks, fmt.Sprintf("CZ %d", z))
			i += z
			continue
		}
		pend = append(pend, b[i])
		i++
	}
	flush()
	if len(chunks) == 1 && strings.HasPrefix(chunks[0], "CH ") {
		return "(hx " + chunks[0][3:] + ")"
	}
	if len(chunks) == 1 && strings.HasPrefix(chunks[0], "CB ") {
		return chunks[0][3:]
	}
	return "(dx [" + strings.Join(chunks, "; ") + "])"
}

func cbh(h string) string { return cb(unhx(h)) }

func coqPred(p jPred) string {
	ints := make([]string, len(p.Ints))
	for i, s := range p.Ints {
		if s == nil {
			ints[i] = "None"
		} else {
			ints[i] = "(Some (" + *s + ")%Z)"
		}
	}
	bs := make([]string, len(p.Bytes))
	for i, s := range p.Bytes {
		bs[i] = cbh(s)
	}
	return vh.CApp("mkPred", vh.CBool(p.Dyn), vh.CN(p.Off), vh.CN(p.Op), vh.CList(ints), vh.CList(bs))
}

func coqDef(d *jDef) string {
	ps := make([]string, len(d.Preds))
	for i, p := range d.Preds {
		ps[i] = coqPred(p)
	}
	return vh.CApp("mkDef", cbh(d.Contract), vh.CList(ps))
}

func coqLog(l jLog) string {
	ts := make([]string, len(l.Topics))
	for i, t := range l.Topics {
		ts[i] = cbh(t)
	}
	return vh.CApp("mkLog", cbh(l.Addr), vh.CList(ts), cbh(l.Data))
}

// ---------------------------------------------------------------------------------------
// oracle pieces, written from the property text and docs/event.md

// refValue resolves a LogValueRef as docs/event.md and the doc comment of GetValue describe it.
// ok is false when the reference is not well formed for this log (missing topic, a dynamic
// reference whose words or slice are not inside the data, a pointer or length word that does not
// fit 64 bits): then only totality is judged. A static word is always determined (zero padding).
func refValue(p jPred, topics [][]byte, data []byte) (v []byte, ok bool) {
	if p.Off < 4 {
		if p.Off < uint64(len(topics)) {
			return topics[p.Off], true
		}
		return nil, false
	}
	n := new(big.Int).SetUint64(uint64(len(data)))
	word := func(start *big.Int) ([]byte, bool) {
		end := new(big.Int).Add(start, big.NewInt(32))
		if end.Cmp(n) > 0 {
			return nil, false
		}
		s := start.Uint64()
		return data[s : s+32], true
	}
	start := new(big.Int).Mul(new(big.Int).SetUint64(p.Off-4), big.NewInt(32))
	if !p.Dyn {
		// GetValue's contract: a static data word that exceeds the log's data is zero-padded on
		// the right to one word (a word entirely beyond the data is the zero word)
		w := make([]byte, 32)
		if start.Cmp(n) < 0 {
			copy(w, data[start.Uint64():])
		}
		return w, true
	}
	w, ok := word(start)
	if !ok {
		return nil, false
	}
	ioib := new(big.Int).SetBytes(w)
	if !ioib.IsUint64() {
		return nil, false
	}
	lw, ok := word(ioib)
	if !ok {
		return nil, false
	}
	length := new(big.Int).SetBytes(lw)
	if !length.IsUint64() {
		return nil, false
	}
	from := new(big.Int).Add(ioib, big.NewInt(32))
	to := new(big.Int).Add(from, length)
	if to.Cmp(n) > 0 {
		return nil, false
	}
	return data[from.Uint64():to.Uint64()], true
}

// refHolds evaluates an operator of docs/event.md on a resolved value (valid predicates only).
func refHolds(p jPred, v []byte) bool {
	if p.Op == 5 {
		return bytes.Equal(v, unhx(p.Bytes[0]))
	}
	val := new(big.Int).SetBytes(v)
	arg, _ := new(big.Int).SetString(*p.Ints[0], 10)
	c := val.Cmp(arg)
	switch p.Op {
	case 0:
		return c < 0
	case 1:
		return c <= 0
	case 2:
		return c == 0
	case 3:
		return c > 0
	default:
		return c >= 0
	}
}

// expectation for Match on a valid definition: 1 = must be true, 0 = must be false,
// -1 = not determined by the documentation (some reference is not well formed and every
// well-formed predicate holds).
func refMatch(d *jDef, l jLog) int {
	if !bytes.Equal(unhx(l.Addr), unhx(d.Contract)) {
		return 0
	}
	topics := make([][]byte, len(l.Topics))
	for i, t := range l.Topics {
		topics[i] = unhx(t)
	}
	data := unhx(l.Data)
	undetermined := false
	for _, p := range d.Preds {
		v, ok := refValue(p, topics, data)
		if !ok {
			undetermined = true
			continue
		}
		if !refHolds(p, v) {
			return 0
		}
	}
	if undetermined {
		return -1
	}
	return 1
}

// go-ethereum eth/filters filterLogs (v1.15.11), restated for a query without block bounds.
func gethFilterPasses(q ethereum.FilterQuery, lg *types.Log) bool {
	if len(q.Addresses) > 0 {
		found := false
		for _, a := range q.Addresses {
			if a == lg.Address {
				found = true
			}
		}
		if !found {
			return false
		}
	}
	if len(q.Topics) > len(lg.Topics) {
		return false
	}
	for i, sub := range q.Topics {
		if len(sub) == 0 {
			continue
		}
		found := false
		for _, t := range sub {
			if t == lg.Topics[i] {
				found = true
			}
		}
		if !found {
			return false
		}
	}
	return true
}

func sameDef(a, b *jDef) bool {
	x, _ := json.Marshal(a)
	y, _ := json.Marshal(b)
	return bytes.Equal(x, y)
}

func classify(run *vh.Run, err error) string {
	if err == nil {
		return "ok"
	}
	m := err.Error()
	switch {
	case strings.HasPrefix(m, "data is empty"):
		return "UEmpty"
	case strings.HasPrefix(m, "unsupported version"):
		return "UVersion"
	case strings.HasPrefix(m, "failed to decode"):
		return "UDecode"
	case strings.HasPrefix(m, "invalid EventTriggerDefinitionRLP"):
		return "UInvalid"
	}
	run.Tie("UnmarshalBytes returned an error this driver cannot classify: " + m)
	return "UDecode"
}

func panicKey(msg string) string {
	switch {
	case strings.Contains(msg, "slice bounds out of range"):
		return "C17:match-panic:getOffsetDataValue-slice-bounds"
	case strings.Contains(msg, "makeslice"):
		return "C17:match-panic:getOffsetDataValue-makeslice-len"
	}
	return "C17:match-panic:other"
}

// ---------------------------------------------------------------------------------------
// executing Match, in this process or in a memory-limited child

type matchRes struct {
	Panicked bool   `json:"panicked"`
	PMsg     string `json:"pmsg,omitempty"`
	MErr     string `json:"merr,omitempty"`
	M        bool   `json:"m"`
	Alloc    uint64 `json:"alloc"`
	Died     string `json:"died,omitempty"` // the child process did not survive this log
}

// allocBudget: what one Match may allocate for a log with n data bytes.
func allocBudget(d *jDef, n int) uint64 {
	return uint64(len(d.Preds)+1)*(8*uint64(n)+1024) + 4096
}

func matchOnce(d *jDef, real *shutterservice.EventTriggerDefinition, lg *types.Log) matchRes {
	var r matchRes
	var merr error
	r.Alloc = allocDelta(func() { r.Panicked, r.PMsg = vh.Guard(func() { r.M, merr = real.Match(lg) }) })
	if merr != nil {
		r.MErr = merr.Error()
	}
	if budget := allocBudget(d, len(lg.Data)); !r.Panicked && r.Alloc > budget {
		// TotalAlloc is process-wide: an occasional runtime-internal allocation lands in the
		// window. What Match itself allocates is allocated on every repetition.
		for i := 0; i < 4 && r.Alloc > budget; i++ {
			if again := allocDelta(func() { vh.Guard(func() { real.Match(lg) }) }); again < r.Alloc {
				r.Alloc = again
			}
		}
	}
	return r
}

// isolateThreshold: a data reference further than this many words into the data is matched in
// a child process (an implementation that pads the data up to the referenced word would
// allocate more than 128 MiB per Match beyond it, and 128 GiB at the largest valid offset).
const isolateThreshold = 1 << 22

func needsIsolation(d *jDef) bool {
	for _, p := range d.Preds {
		if p.Off >= 4 && p.Off-4 > isolateThreshold {
			return true
		}
	}
	return false
}

func matchAll(run *vh.Run, d *jDef, real *shutterservice.EventTriggerDefinition, logs []jLog) []matchRes {
	out := make([]matchRes, len(logs))
	if !needsIsolation(d) {
		for i, l := range logs {
			out[i] = matchOnce(d, real, l.build())
		}
		return out
	}
	run.Dist["def:matched-in-child-process"]++
	res, died := matchInChild(d, logs)
	if died == "" {
		return res
	}
	// find out which logs the child does not survive
	for i, l := range logs {
		r, died := matchInChild(d, []jLog{l})
		if died != "" {
			out[i] = matchRes{Died: died}
		} else {
			out[i] = r[0]
		}
	}
	return out
}

// matchInChild runs this binary again (C17_CHILD=1) with an address-space limit and a
// watchdog; the child answers with one matchRes per log. died describes a child that was
// killed, ran out of memory or timed out.
func matchInChild(d *jDef, logs []jLog) ([]matchRes, string) {
	in, _ := json.Marshal(jCase{Kind: "def", Def: d, Logs: logs})
	ctx, cancel := context.WithTimeout(context.Background(), 60*time.Second)
	defer cancel()
	cmd := exec.CommandContext(ctx, os.Args[0])
	cmd.Env = append(os.Environ(), "C17_CHILD=1")
	cmd.Stdin = bytes.NewReader(in)
	var stdout, stderr bytes.Buffer
	cmd.Stdout, cmd.Stderr = &stdout, &stderr
	err := cmd.Run()
	if ctx.Err() != nil {
		return nil, "watchdog: no answer within 60 s"
	}
	if err != nil {
		first := strings.SplitN(strings.TrimSpace(stderr.String()), "\n", 2)[0]
		if len(first) > 200 {
			first = first[:200]
		}
		return nil, fmt.Sprintf("%v: %s", err, first)
	}
	var res []matchRes
	if err := json.Unmarshal(stdout.Bytes(), &res); err != nil || len(res) != len(logs) {
		return nil, "child answered garbage"
	}
	return res, ""
}

// childMain: the C17_CHILD=1 side of matchInChild.
func childMain() {
	const limit = 3 << 30
	_ = syscall.Setrlimit(syscall.RLIMIT_AS, &syscall.Rlimit{Cur: limit, Max: limit})
	debug.SetMemoryLimit(1 << 30)
	var c jCase
	if err := json.NewDecoder(os.Stdin).Decode(&c); err != nil || c.Def == nil {
		fmt.Fprintln(os.Stderr, "child: bad input")
		os.Exit(3)
	}
	real := c.Def.build()
	out := make([]matchRes, len(c.Logs))
	for i, l := range c.Logs {
		out[i] = matchOnce(c.Def, real, l.build())
	}
	b, _ := json.Marshal(out)
	os.Stdout.Write(b)
}

// ---------------------------------------------------------------------------------------
// execution of one definition with its logs

func allocDelta(f func()) uint64 {
	var a, b runtime.MemStats
	runtime.ReadMemStats(&a)
	f()
	runtime.ReadMemStats(&b)
	return b.TotalAlloc - a.TotalAlloc
}

func runDef(run *vh.Run, d *jDef, logs []jLog) {
	id := run.NextID()
	real := d.build()
	one := func(l jLog) jCase { return jCase{Kind: "def", Def: d, Logs: []jLog{l}} }
	self := jCase{Kind: "def", Def: d}

	// Validate
	var verr error
	if p, msg := vh.Guard(func() { verr = real.Validate() }); p {
		run.Violate(vh.Violation{Key: "C17:validate-panic", What: "Validate panicked: " + msg, Case: self})
		return
	}
	valid := verr == nil

	// MarshalBytes (panics on a negative integer argument, which Validate refuses)
	var enc []byte
	mpanic, mmsg := vh.Guard(func() { enc = real.MarshalBytes() })
	mobs := "None"
	if !mpanic {
		mobs = vh.CSome(cb(enc))
	}
	if valid && mpanic {
		run.Violate(vh.Violation{Key: "C17:marshal-panic-on-valid-definition", What: "MarshalBytes panicked on a definition that passes Validate: " + mmsg, Case: self})
	}
	if !mpanic {
		// round trip through the real decoder (also recorded for the model as a decode case)
		got, cls := runDecode(run, enc, true)
		if valid {
			if cls != "ok" {
				run.Violate(vh.Violation{Key: "C17:roundtrip-decode-fails", What: "a valid definition does not decode from its own encoding (" + cls + ")", Case: self, Observed: hx(enc)})
			} else if !sameDef(got, d) {
				run.Violate(vh.Violation{Key: "C17:roundtrip-differs", What: "a valid definition decodes to a different definition", Case: self, Observed: got, Expected: d})
			}
		}
	}

	// ToFilterQuery
	var q ethereum.FilterQuery
	var ferr error
	fpanic, fmsg := vh.Guard(func() { q, ferr = real.ToFilterQuery() })
	fobs := "FPanic"
	haveFilter := false
	switch {
	case fpanic:
	case ferr != nil:
		fobs = "FErr"
	default:
		haveFilter = true
		rows := make([]string, len(q.Topics))
		for i, sub := range q.Topics {
			hs := make([]string, len(sub))
			for j, h := range sub {
				hs[j] = cb(h.Bytes())
			}
			rows[i] = vh.CList(hs)
		}
		fobs = vh.CApp("FOk", vh.CList(rows))
		if len(q.Addresses) != 1 || q.Addresses[0] != real.Contract || q.FromBlock != nil || q.ToBlock != nil || q.BlockHash != nil {
			run.Violate(vh.Violation{Key: "C17:filter-not-for-contract", What: "the filter query is not restricted to exactly the definition's contract (or carries block bounds)", Case: self})
		}
	}
	if valid && !haveFilter {
		what := "ToFilterQuery fails for a definition that passes Validate"
		if fpanic {
			what += " (panic: " + fmsg + ")"
		} else {
			what += ": " + ferr.Error()
		}
		key := "C17:filter:valid-definition-without-filter"
		if ferr != nil && strings.Contains(ferr.Error(), "must have a 32-byte value") {
			key = "C17:filter:validate-accepts-topic-byteseq-arg-not-32-bytes"
		}
		run.Violate(vh.Violation{Key: key, What: what, Case: self})
	}

	// Match on every log (in a memory-limited child process when a data offset is large enough
	// for an implementation that pads up to the offset to exhaust memory)
	results := matchAll(run, d, real, logs)
	var logTerms []string
	var kept []jLog
	matched, rejectedByPred := 0, 0
	for i, l := range logs {
		lg := l.build()
		res := results[i]
		if res.Died != "" {
			run.Violate(vh.Violation{Key: "C17:match-resource:process-died", What: "Match on a valid-or-not definition took the (memory-limited, watchdogged) process down: " + res.Died, Case: one(l)})
			run.Dist["match:process-died"]++
			run.CountOnly("", false)
			continue
		}
		m, panicked, pmsg, alloc := res.M, res.Panicked, res.PMsg, res.Alloc
		obs := "MPanic"
		switch {
		case panicked:
		case res.MErr != "":
			obs = "MErr"
		default:
			obs = vh.CApp("MOk", vh.CBool(m))
		}
		passes := haveFilter && gethFilterPasses(q, lg)
		if valid {
			switch {
			case panicked:
				run.Violate(vh.Violation{Key: panicKey(pmsg), What: "Match panicked on a valid definition: " + pmsg, Case: one(l)})
			case res.MErr != "":
				run.Violate(vh.Violation{Key: "C17:match-error-on-valid-definition", What: "Match returned an error on a valid definition: " + res.MErr, Case: one(l)})
			default:
				want := refMatch(d, l)
				if want >= 0 && m != (want == 1) {
					run.Violate(vh.Violation{Key: "C17:match-semantics", What: "Match disagrees with the documented predicate semantics on well-formed data", Case: one(l), Observed: m, Expected: want == 1})
				}
				if m && haveFilter && !passes {
					run.Violate(vh.Violation{Key: "C17:filter-hides-matching-log", What: "a log matches the definition but does not pass the derived filter query", Case: one(l)})
				}
				if m {
					matched++
				} else if want != 0 || bytes.Equal(unhx(l.Addr), unhx(d.Contract)) {
					rejectedByPred++
				}
			}
			// work bounded by the log's size: a generous linear budget per predicate
			if budget := allocBudget(d, len(lg.Data)); !panicked && alloc > budget {
				key := "C17:match-alloc:not-bounded-by-log-size"
				for _, p := range d.Preds {
					if p.Dyn {
						key = "C17:match-alloc:getOffsetDataValue-length-not-bounded-by-data"
					}
				}
				run.Violate(vh.Violation{Key: key,
					What: fmt.Sprintf("Match allocated %d bytes for a log with %d bytes of data (budget %d = (predicates+1)*(8*len(data)+1024)+4096): the work is not bounded by the log's size", alloc, len(lg.Data), budget), Case: one(l), Observed: alloc, Expected: budget})
			}
		}
		run.Dist["match:"+strings.Fields(strings.Trim(obs, "()"))[0]+obsSuffix(obs)]++
		if l.Big {
			run.CountOnly("", false)
			continue
		}
		kept = append(kept, l)
		logTerms = append(logTerms, "("+coqLog(l)+", "+obs+", "+vh.CBool(passes)+")")
	}
	if valid {
		run.Dist["def:valid"]++
	} else {
		run.Dist["def:invalid"]++
	}
	run.Dist[fmt.Sprintf("def:preds=%d", len(d.Preds))]++
	nontrivial := valid && len(d.Preds) > 0 && matched > 0 && rejectedByPred > 0
	term := vh.CApp("CDef", vh.CN(id), coqDef(d), vh.CBool(valid), mobs, fobs, vh.CList(logTerms))
	c := jCase{Kind: "def", Def: d, Logs: kept}
	key, _ := json.Marshal(c)
	sum := sha256.Sum256(key)
	run.AddCase(id, term, c, hx(sum[:]), nontrivial)
}

func obsSuffix(obs string) string {
	if strings.Contains(obs, "true") {
		return "-true"
	}
	if strings.Contains(obs, "false") {
		return "-false"
	}
	return ""
}

// runDecode feeds bytes to UnmarshalBytes, judges "decoded implies valid" and records the case.
func runDecode(run *vh.Run, b []byte, fromMarshal bool) (*jDef, string) {
	id := run.NextID()
	c := jCase{Kind: "decode", Bytes: hx(b)}
	var d shutterservice.EventTriggerDefinition
	var err error
	if p, msg := vh.Guard(func() { err = d.UnmarshalBytes(exact(b)) }); p {
		run.Violate(vh.Violation{Key: "C17:unmarshal-panic", What: "UnmarshalBytes panicked: " + msg, Case: c})
		return nil, "panic"
	}
	cls := classify(run, err)
	obs := cls
	var got *jDef
	if cls == "ok" {
		got = defOf(&d)
		obs = vh.CApp("UOk", coqDef(got))
		var verr error
		if p, msg := vh.Guard(func() { verr = d.Validate() }); p || verr != nil {
			run.Violate(vh.Violation{Key: "C17:decoded-definition-invalid", What: fmt.Sprintf("UnmarshalBytes succeeded but the definition does not validate (%v %s)", verr, msg), Case: c, Observed: got})
		}
		if !fromMarshal {
			// what decodes must encode back to the very same bytes (canonical form)
			var re []byte
			if p, msg := vh.Guard(func() { re = d.MarshalBytes() }); p {
				run.Violate(vh.Violation{Key: "C17:marshal-panic-on-valid-definition", What: "MarshalBytes panicked on a decoded definition: " + msg, Case: c})
			} else if !bytes.Equal(re, b) {
				run.Violate(vh.Violation{Key: "C17:decode-accepts-non-canonical-bytes", What: "bytes decode successfully but the definition encodes to different bytes", Case: c, Observed: hx(re)})
			}
		}
	}
	run.Dist["decode:"+cls]++
	run.AddCase(id, vh.CApp("CDecode", vh.CN(id), cb(b), obs), c, "decode:"+hx(b), cls == "ok" || cls == "UInvalid" || (cls == "UDecode" && len(b) > 24))
	return got, cls
}

// runBatch is the round trip the way a caller with several definitions does it: encode all of
// them first (every returned slice is kept, with a private copy taken right after the call),
// then decode every retained slice and compare with its original; then the same from several
// goroutines at once. Only definitions that validate are put in a batch.
func runBatch(run *vh.Run, defs []*jDef, logs []jLog) {
	id := run.NextID()
	c := jCase{Kind: "batch", Defs: defs, Logs: logs}
	reals := make([]*shutterservice.EventTriggerDefinition, len(defs))
	for i, d := range defs {
		reals[i] = d.build()
		if reals[i].Validate() != nil {
			panic("runBatch: invalid definition in a batch")
		}
	}
	encs := make([][]byte, len(defs))
	copies := make([][]byte, len(defs))
	if p, msg := vh.Guard(func() {
		for i := range defs {
			encs[i] = reals[i].MarshalBytes()
			copies[i] = append([]byte(nil), encs[i]...)
		}
	}); p {
		run.Violate(vh.Violation{Key: "C17:marshal-panic-on-valid-definition", What: "MarshalBytes panicked in a batch: " + msg, Case: c})
		return
	}
	for i := range defs {
		if !bytes.Equal(encs[i], copies[i]) {
			run.Violate(vh.Violation{Key: "C17:roundtrip:marshal-result-overwritten-by-later-call",
				What: fmt.Sprintf("the bytes returned by MarshalBytes for definition %d of the batch changed after later MarshalBytes calls (the result aliases memory that is reused)", i),
				Case: c, Observed: hx(encs[i]), Expected: hx(copies[i])})
			break
		}
	}
	obs := make([]string, len(defs))
	var decoded0 *shutterservice.EventTriggerDefinition
	for i, d := range defs {
		var got shutterservice.EventTriggerDefinition
		var err error
		if p, msg := vh.Guard(func() { err = got.UnmarshalBytes(encs[i]) }); p {
			run.Violate(vh.Violation{Key: "C17:unmarshal-panic", What: "UnmarshalBytes panicked: " + msg, Case: c})
			return
		}
		cls := classify(run, err)
		obs[i] = cls
		if cls != "ok" {
			run.Violate(vh.Violation{Key: "C17:roundtrip-decode-fails", What: fmt.Sprintf("definition %d of a batch that was encoded before any decoding does not decode from the bytes MarshalBytes returned for it (%s)", i, cls), Case: c, Observed: hx(encs[i]), Expected: hx(copies[i])})
			continue
		}
		gd := defOf(&got)
		obs[i] = vh.CApp("UOk", coqDef(gd))
		if !sameDef(gd, d) {
			run.Violate(vh.Violation{Key: "C17:roundtrip-differs", What: fmt.Sprintf("definition %d of a batch that was encoded before any decoding decodes to a different definition", i), Case: c, Observed: gd, Expected: d})
		}
		if i == 0 {
			decoded0 = &got
		}
	}
	// the decoded first definition must answer every log like the original
	if decoded0 != nil {
		for _, l := range logs {
			lg := l.build()
			var a, b bool
			var ea, eb error
			pa, _ := vh.Guard(func() { a, ea = reals[0].Match(lg) })
			pb, _ := vh.Guard(func() { b, eb = decoded0.Match(lg) })
			if pa != pb || a != b || (ea == nil) != (eb == nil) {
				run.Violate(vh.Violation{Key: "C17:roundtrip-differs", What: "the first definition of a batch, decoded after the whole batch was encoded, matches a log differently from the original", Case: c, Observed: b, Expected: a})
			}
		}
	}
	// concurrent encoders: each goroutine checks its own result after yielding
	var mu sync.Mutex
	bad := -1
	var wg sync.WaitGroup
	for g := range defs {
		wg.Add(1)
		go func(g int) {
			defer wg.Done()
			defer func() { recover() }()
			for it := 0; it < 20; it++ {
				e := reals[g].MarshalBytes()
				cp := append([]byte(nil), e...)
				runtime.Gosched()
				var got shutterservice.EventTriggerDefinition
				if !bytes.Equal(e, cp) || got.UnmarshalBytes(e) != nil || !sameDef(defOf(&got), defs[g]) {
					mu.Lock()
					if bad < 0 {
						bad = g
					}
					mu.Unlock()
					return
				}
			}
		}(g)
	}
	wg.Wait()
	if bad >= 0 {
		run.Violate(vh.Violation{Key: "C17:roundtrip:concurrent-marshal-interferes", What: fmt.Sprintf("with one goroutine per definition calling MarshalBytes, the result for definition %d changed or no longer decodes to it after a yield", bad), Case: c})
	}
	run.Dist[fmt.Sprintf("batch:size=%d", len(defs))]++
	ds := make([]string, len(defs))
	for i, d := range defs {
		ds[i] = coqDef(d)
	}
	key, _ := json.Marshal(c)
	sum := sha256.Sum256(key)
	run.AddCase(id, vh.CApp("CBatch", vh.CN(id), vh.CList(ds), vh.CList(obs)), c, hx(sum[:]), len(defs) >= 2)
}

// runReuse decodes the encodings of several valid definitions one after the other into ONE
// EventTriggerDefinition value (what a caller looping over registrations with a hoisted decode
// target does). Every decode must succeed, validate, equal its original and encode back to the
// same bytes, whatever was decoded into the value before. The model side is a CBatch case:
// decoding is a function of the bytes alone.
func runReuse(run *vh.Run, defs []*jDef) {
	id := run.NextID()
	c := jCase{Kind: "reuse", Defs: defs}
	encs := make([][]byte, len(defs))
	for i, d := range defs {
		r := d.build()
		if r.Validate() != nil {
			panic("runReuse: invalid definition")
		}
		encs[i] = append([]byte(nil), r.MarshalBytes()...)
	}
	var target shutterservice.EventTriggerDefinition
	obs := make([]string, len(defs))
	for i, d := range defs {
		var err error
		if p, msg := vh.Guard(func() { err = target.UnmarshalBytes(exact(encs[i])) }); p {
			run.Violate(vh.Violation{Key: "C17:unmarshal-panic", What: "UnmarshalBytes into a previously used value panicked: " + msg, Case: c})
			return
		}
		cls := classify(run, err)
		obs[i] = cls
		if cls != "ok" {
			run.Violate(vh.Violation{Key: "C17:roundtrip:decode-into-used-value-fails", What: fmt.Sprintf("the encoding of valid definition %d does not decode into a value that was decoded into before (%s: %v)", i, cls, err), Case: c, Observed: defOf(&target), Expected: d})
			continue
		}
		got := defOf(&target)
		obs[i] = vh.CApp("UOk", coqDef(got))
		if !sameDef(got, d) {
			run.Violate(vh.Violation{Key: "C17:roundtrip:decode-into-used-value-differs", What: fmt.Sprintf("definition %d decoded into a previously used value differs from its original", i), Case: c, Observed: got, Expected: d})
		}
		if target.Validate() != nil {
			run.Violate(vh.Violation{Key: "C17:decoded-definition-invalid", What: fmt.Sprintf("definition %d decoded into a previously used value does not validate", i), Case: c, Observed: got})
		}
		var re []byte
		if p, _ := vh.Guard(func() { re = target.MarshalBytes() }); p || !bytes.Equal(re, encs[i]) {
			run.Violate(vh.Violation{Key: "C17:roundtrip:decode-into-used-value-differs", What: fmt.Sprintf("definition %d decoded into a previously used value encodes to different bytes", i), Case: c, Observed: hx(re), Expected: hx(encs[i])})
		}
	}
	run.Dist[fmt.Sprintf("reuse:len=%d", len(defs))]++
	ds := make([]string, len(defs))
	for i, d := range defs {
		ds[i] = coqDef(d)
	}
	key, _ := json.Marshal(c)
	sum := sha256.Sum256(key)
	run.AddCase(id, vh.CApp("CBatch", vh.CN(id), vh.CList(ds), vh.CList(obs)), c, hx(sum[:]), len(defs) >= 2)
}

// genValidDef draws definitions until one validates.
func genValidDef(r *vh.RNG) *jDef {
	for {
		d := genDef(r)
		if d.build().Validate() == nil {
			return d
		}
	}
}

func cloneDef(d *jDef) *jDef {
	b, _ := json.Marshal(d)
	var out jDef
	json.Unmarshal(b, &out)
	return &out
}

// genBatch: 2..8 valid definitions of mixed and equal encoded lengths, including neighbours that
// differ in one argument byte, in the contract only, or in one integer argument.
func genBatch(r *vh.RNG) []*jDef {
	k := 2 + r.Intn(7)
	var out []*jDef
	for len(out) < k {
		d := genValidDef(r)
		out = append(out, d)
		for len(out) < k && r.Chance(1, 2) {
			v := cloneDef(d)
			switch r.Intn(3) {
			case 0:
				if v.Contract == addrA {
					v.Contract = addrB
				} else {
					v.Contract = addrA
				}
			case 1:
				for i := range v.Preds {
					if len(v.Preds[i].Bytes) == 1 && len(v.Preds[i].Bytes[0]) > 0 {
						b := unhx(v.Preds[i].Bytes[0])
						b[len(b)-1] ^= 0x10
						b[len(b)-1] |= 0x80 // keep the RLP form (never a single byte below 0x80)
						v.Preds[i].Bytes[0] = hx(b)
						break
					}
				}
			case 2:
				for i := range v.Preds {
					if len(v.Preds[i].Ints) == 1 && v.Preds[i].Ints[0] != nil {
						z, _ := new(big.Int).SetString(*v.Preds[i].Ints[0], 10)
						if z.Cmp(big.NewInt(200)) > 0 {
							z.Xor(z, big.NewInt(1))
							v.Preds[i].Ints[0] = sp(z)
						}
						break
					}
				}
			}
			if v.build().Validate() == nil {
				out = append(out, v)
			}
		}
	}
	return out
}

func runCase(run *vh.Run, c jCase) {
	switch c.Kind {
	case "def":
		runDef(run, c.Def, c.Logs)
	case "decode":
		runDecode(run, unhx(c.Bytes), false)
	case "batch":
		runBatch(run, c.Defs, c.Logs)
	case "reuse":
		runReuse(run, c.Defs)
	default:
		panic("unknown case kind " + c.Kind)
	}
}

// ---------------------------------------------------------------------------------------
// generators

var (
	two64  = new(big.Int).Lsh(big.NewInt(1), 64)
	two256 = new(big.Int).Lsh(big.NewInt(1), 256)
	addrA  = "1234567890123456789012345678901234567890"
	addrB  = "00000000000000000000000000000000000000ff"
	hashes = []string{
		"ddf252ad1be2c89b69c2b068fc378daa952ba7f163c4a11628f55a4df523b3ef",
		"000000000000000000000000742d35cc6634c0532925a3b844bc9e7595f1beb0",
		"0000000000000000000000000000000000000000000000000000000000000000",
		"ffffffffffffffffffffffffffffffffffffffffffffffffffffffffffffffff",
		"0000000000000000000000000000000000000000000000000000000000000064",
	}
)

func sp(z *big.Int) *string { s := z.String(); return &s }

func boundaryInt(r *vh.RNG) *big.Int {
	switch r.Intn(14) {
	case 0:
		return big.NewInt(0)
	case 1:
		return big.NewInt(1)
	case 2:
		return new(big.Int).Sub(two64, big.NewInt(1))
	case 3:
		return new(big.Int).Set(two64)
	case 4:
		return new(big.Int).Sub(two256, big.NewInt(1))
	case 5:
		return new(big.Int).Set(two256)
	case 6:
		return big.NewInt(int64(vh.Pick(r, 127, 128, 255, 256, 65535, 65536)))
	case 7:
		return new(big.Int).SetBytes(r.Bytes(1 + r.Intn(32)))
	default:
		return big.NewInt(int64(r.Intn(300)))
	}
}

func word(z *big.Int) []byte { // low 256 bits, big endian
	b := new(big.Int).Mod(z, two256).Bytes()
	out := make([]byte, 32)
	copy(out[32-len(b):], b)
	return out
}

func wordU(x uint64) []byte { return word(new(big.Int).SetUint64(x)) }

func genPred(r *vh.RNG) jPred {
	p := jPred{Ints: []*string{}, Bytes: []string{}}
	kind := r.Intn(10)
	switch {
	case kind < 4: // topic
		p.Off = uint64(r.Intn(4))
	case kind < 7: // static data word
		p.Off = 4 + uint64(r.Intn(5))
		if r.Chance(1, 30) {
			p.Off = vh.Pick(r, uint64(1<<32-1), uint64(1<<32-2), uint64(100))
		}
	default:
		p.Dyn = true
		p.Off = 4 + uint64(r.Intn(5))
	}
	if r.Chance(1, 2) {
		p.Op = 5
		n := 32
		if p.Dyn {
			n = vh.Pick(r, 0, 1, 5, 31, 32, 33, 55, 56, 64, 100)
		} else if r.Chance(1, 12) {
			n = vh.Pick(r, 0, 1, 16, 31, 33)
		}
		var b []byte
		if n == 32 && r.Chance(2, 3) {
			b = unhx(vh.Pick(r, hashes...))
		} else {
			b = r.Bytes(n)
			if n == 1 && r.Bool() {
				b[0] &= 0x7f // single byte below 0x80: its own RLP encoding
			}
		}
		p.Bytes = []string{hx(b)}
	} else {
		p.Op = uint64(r.Intn(5))
		p.Ints = []*string{sp(boundaryInt(r))}
	}
	return p
}

func genDef(r *vh.RNG) *jDef {
	d := &jDef{Contract: vh.Pick(r, addrA, addrA, addrB), Preds: []jPred{}}
	n := r.Intn(5)
	if r.Chance(1, 40) {
		n = 5 + r.Intn(8) // long predicate lists: long-form RLP list headers
	}
	usedTopicEq := map[uint64]bool{}
	for i := 0; i < n; i++ {
		p := genPred(r)
		if p.Off < 4 && p.Op == 5 {
			if usedTopicEq[p.Off] && !r.Chance(1, 25) { // mostly avoid the duplicate (invalid)
				p.Op = 2
				p.Bytes = []string{}
				p.Ints = []*string{sp(boundaryInt(r))}
			}
			usedTopicEq[p.Off] = true
		}
		d.Preds = append(d.Preds, p)
	}
	// deliberately invalid definitions
	if len(d.Preds) > 0 && r.Chance(1, 7) {
		p := &d.Preds[r.Intn(len(d.Preds))]
		switch r.Intn(10) {
		case 0:
			p.Off = 1 << 32
		case 1:
			p.Off = vh.Pick(r, uint64(1<<64-1), uint64(1<<59+4), uint64(1<<59+3), uint64(1<<63))
		case 2:
			p.Dyn, p.Off = true, uint64(r.Intn(4))
		case 3:
			p.Ints = append(p.Ints, sp(big.NewInt(7)))
		case 4:
			p.Ints = []*string{}
			p.Bytes = []string{}
		case 5:
			p.Bytes = append(p.Bytes, "aa")
		case 6:
			if len(p.Ints) > 0 {
				p.Ints[0] = sp(big.NewInt(-int64(1 + r.Intn(300))))
			}
		case 7:
			if len(p.Ints) > 0 {
				p.Ints[0] = nil
			}
		case 8:
			p.Op = vh.Pick(r, uint64(6), uint64(7), uint64(1<<64-1), uint64(128))
		case 9:
			if p.Op <= 4 {
				p.Op, p.Bytes = 5, []string{hx(r.Bytes(32))}
			} else {
				p.Op, p.Ints = uint64(r.Intn(5)), []*string{sp(big.NewInt(3))}
			}
		}
	}
	return d
}

// nearInt returns arg-1, arg or arg+1 (as a non-negative value below 2^256 when possible).
func nearInt(r *vh.RNG, p jPred) *big.Int {
	if len(p.Ints) == 0 || p.Ints[0] == nil {
		return big.NewInt(int64(r.Intn(5)))
	}
	z, _ := new(big.Int).SetString(*p.Ints[0], 10)
	z.Add(z, big.NewInt(int64(r.Intn(3)-1)))
	if z.Sign() < 0 {
		z.SetInt64(0)
	}
	return z
}

// genLog builds a log aimed at the definition: mostly well-formed ABI data that makes the
// predicates true or narrowly false, then (half of the time) one hostile edit.
func genLog(r *vh.RNG, d *jDef) jLog {
	l := jLog{Addr: d.Contract}
	if r.Chance(1, 10) {
		l.Addr = vh.Pick(r, addrA, addrB, hx(r.Bytes(20)))
	}
	nt := r.Intn(5)
	if r.Chance(2, 3) {
		nt = 4
	}
	topics := make([][]byte, nt)
	for i := range topics {
		topics[i] = unhx(vh.Pick(r, hashes...))
	}
	// head words
	maxw := 0
	for _, p := range d.Preds {
		if p.Off >= 4 && p.Off < 4+12 && int(p.Off-4)+1 > maxw {
			maxw = int(p.Off-4) + 1
		}
	}
	nhead := maxw + r.Intn(3)
	head := make([][]byte, nhead)
	for i := range head {
		head[i] = wordU(uint64(r.Intn(200)))
	}
	var tail []byte
	type dynref struct{ ptrWord, lenPos int }
	var dyns []dynref
	for _, p := range d.Preds {
		aim := r.Chance(3, 4)
		if p.Off < 4 {
			if int(p.Off) < nt && aim {
				if p.Op == 5 && len(p.Bytes) > 0 {
					b := unhx(p.Bytes[0])
					if len(b) == 32 {
						topics[p.Off] = b
					}
				} else {
					topics[p.Off] = word(nearInt(r, p))
				}
			}
			continue
		}
		w := int(p.Off - 4)
		if p.Off-4 >= uint64(nhead) {
			continue
		}
		if !p.Dyn {
			if aim {
				if p.Op == 5 && len(p.Bytes) > 0 && len(unhx(p.Bytes[0])) == 32 {
					head[w] = unhx(p.Bytes[0])
				} else {
					head[w] = word(nearInt(r, p))
				}
			}
			continue
		}
		// dynamic: pointer in the head, length word and padded content in the tail
		var content []byte
		if p.Op == 5 && len(p.Bytes) > 0 {
			content = unhx(p.Bytes[0])
			if !aim && len(content) > 0 {
				content = exact(content)
				content[r.Intn(len(content))] ^= 1
			}
		} else {
			content = nearInt(r, p).Bytes()
			if r.Bool() {
				content = word(new(big.Int).SetBytes(content))
			}
		}
		pos := nhead*32 + len(tail)
		head[w] = wordU(uint64(pos))
		dyns = append(dyns, dynref{w, pos})
		tail = append(tail, wordU(uint64(len(content)))...)
		tail = append(tail, content...)
		if r.Chance(4, 5) { // ABI padding to a word boundary
			for len(tail)%32 != 0 {
				tail = append(tail, 0)
			}
		}
	}
	var data []byte
	for _, h := range head {
		data = append(data, h...)
	}
	data = append(data, tail...)

	// one hostile edit
	if r.Chance(1, 2) {
		n := uint64(len(data))
		switch r.Intn(4) {
		case 0: // truncation around a word boundary
			if n > 0 {
				cut := uint64(r.Intn(int(n) + 1))
				if r.Chance(2, 3) {
					k := uint64(r.Intn(int(n/32) + 1))
					cut = k*32 + uint64(r.Intn(3)) - 1
					if cut > n {
						cut = n - 1
					}
				}
				data = data[:cut]
			}
		case 1: // hostile pointer
			if len(dyns) > 0 {
				dr := vh.Pick(r, dyns...)
				ptr := vh.Pick(r, n-32, n-31, n, n+1, n-33, uint64(1)<<63, ^uint64(0)-31, ^uint64(0)-30, ^uint64(0), uint64(0), uint64(dr.ptrWord*32), uint64(r.Intn(int(n)+1)))
				w := wordU(ptr)
				if r.Chance(1, 6) {
					w[r.Intn(24)] = 1 // bits above 2^64: dropped by Uint64()
				}
				copy(data[dr.ptrWord*32:], w)
			}
		case 2: // hostile length
			if len(dyns) > 0 {
				dr := vh.Pick(r, dyns...)
				rem := n - uint64(dr.lenPos) - 32
				ln := vh.Pick(r, rem, rem+1, rem-1, rem+32, uint64(4096), uint64(1)<<48+1, uint64(1)<<62, uint64(1)<<63, ^uint64(0), ^uint64(0)-uint64(dr.lenPos)-31, ^uint64(0)-uint64(dr.lenPos)-32, uint64(0))
				w := wordU(ln)
				if r.Chance(1, 6) {
					w[r.Intn(24)] = 0x80
				}
				copy(data[dr.lenPos:], w)
			}
		case 3: // random bytes somewhere in the head
			if n >= 32 {
				k := r.Intn(int(n / 32))
				copy(data[k*32:], r.Bytes(32))
			}
		}
	}
	data = sanitize(d, data)
	l.Data = hx(data)
	for _, t := range topics {
		l.Topics = append(l.Topics, hx(t))
	}
	if l.Topics == nil {
		l.Topics = []string{}
	}
	return l
}

// sanitize makes sure no dynamic reference of the definition resolves (the way the code
// resolves it: low 64 bits of pointer and length word) to a length in (8192, 2^48]: such a
// length neither panics in makeslice nor stays small, an unrepaired implementation would
// really try to allocate it. (Lengths of tens of megabytes are tested separately, flagged Big.)
func sanitize(d *jDef, data []byte) []byte {
	n := uint64(len(data))
	for iter := 0; iter < 8; iter++ {
		changed := false
		for _, p := range d.Preds {
			if !p.Dyn || p.Off < 4 {
				continue
			}
			o := (p.Off - 4) * 32
			if o+32 < o || o+32 > n {
				continue
			}
			ptr := new(big.Int).SetBytes(data[o : o+32]).Uint64()
			if ptr+32 < ptr || ptr+32 > n {
				continue
			}
			ln := new(big.Int).SetBytes(data[ptr : ptr+32]).Uint64()
			if ln > 8192 && ln <= 1<<48 {
				copy(data[ptr:], wordU(uint64(1)<<48+1+ln))
				changed = true
			}
		}
		if !changed {
			break
		}
	}
	return data
}

// ---------------------------------------------------------------------------------------
// a second, deliberately permissive RLP writer for the decoder stream

type node struct {
	str      []byte
	list     []*node
	isList   bool
	raw      []byte // emitted verbatim when set
	longForm bool   // long-form header even when the short form applies
	lenDelta int    // added to the declared length
	lenPad   int    // leading zero bytes in a long-form length
}

func S(b []byte) *node       { return &node{str: b} }
func L(xs ...*node) *node    { return &node{isList: true, list: xs} }
func U(x uint64) *node       { return S(new(big.Int).SetUint64(x).Bytes()) }
func rawNode(b []byte) *node { return &node{raw: b} }

func (n *node) enc() []byte {
	if n.raw != nil {
		return n.raw
	}
	var payload []byte
	base := byte(0x80)
	if n.isList {
		base = 0xc0
		for _, c := range n.list {
			payload = append(payload, c.enc()...)
		}
	} else {
		payload = n.str
		if len(payload) == 1 && payload[0] < 0x80 && !n.longForm && n.lenDelta == 0 {
			return []byte{payload[0]}
		}
	}
	declared := len(payload) + n.lenDelta
	if declared < 0 {
		declared = 0
	}
	if declared < 56 && !n.longForm {
		return append([]byte{base + byte(declared)}, payload...)
	}
	lb := new(big.Int).SetUint64(uint64(declared)).Bytes()
	if len(lb) == 0 {
		lb = []byte{0}
	}
	lb = append(make([]byte, n.lenPad), lb...)
	out := append([]byte{base + 55 + byte(len(lb))}, lb...)
	return append(out, payload...)
}

func predNode(p jPred) (ref, vp *node) {
	dyn := S(nil)
	if p.Dyn {
		dyn = S([]byte{1})
	}
	vp = L(U(p.Op))
	for _, s := range p.Ints {
		if s == nil {
			vp.list = append(vp.list, S(nil))
			continue
		}
		z, _ := new(big.Int).SetString(*s, 10)
		vp.list = append(vp.list, S(new(big.Int).Abs(z).Bytes()))
	}
	for _, b := range p.Bytes {
		vp.list = append(vp.list, S(unhx(b)))
	}
	return L(dyn, U(p.Off)), vp
}

func defNode(d *jDef) *node {
	ps := L()
	for _, p := range d.Preds {
		ref, vp := predNode(p)
		ps.list = append(ps.list, L(ref, vp))
	}
	return L(S(unhx(d.Contract)), ps)
}

// mutateNode applies one structural or canonical-form mutation; returns its name.
func mutateNode(r *vh.RNG, root *node) string {
	preds := root.list[1]
	pick := func() *node {
		if len(preds.list) == 0 {
			return nil
		}
		return preds.list[r.Intn(len(preds.list))]
	}
	lp := pick()
	switch r.Intn(22) {
	case 0:
		root.list = append(root.list, S(nil))
		return "extra-top-element"
	case 1:
		root.list = root.list[:1]
		return "missing-predicates"
	case 2:
		root.list[0] = S(r.Bytes(vh.Pick(r, 0, 1, 19, 21, 32)))
		return "address-length"
	case 3:
		root.list[0] = L(S(r.Bytes(20)))
		return "address-is-list"
	case 4:
		root.list[1] = S(nil)
		return "predicates-is-string"
	case 5:
		root.longForm = true
		return "top-long-form"
	case 6:
		root.lenDelta = vh.Pick(r, 1, -1, 5, 200)
		return "top-length-wrong"
	}
	if lp == nil {
		root.list[0].longForm = true
		return "address-long-form"
	}
	ref, vp := lp.list[0], lp.list[1]
	switch r.Intn(17) {
	case 0:
		ref.list[0] = vh.Pick(r, S([]byte{2}), rawNode([]byte{0x00}), rawNode([]byte{0x81, 0x01}), S([]byte{1, 0}), L())
		return "bool-invalid"
	case 1:
		ref.list[1] = vh.Pick(r, S([]byte{0, 5}), rawNode([]byte{0x00}), rawNode([]byte{0x81, 0x05}), S([]byte{1, 0, 0, 0, 0, 0, 0, 0, 0}), L())
		return "offset-non-canonical"
	case 2:
		ref.list[1] = vh.Pick(r, U(1<<32), U(1<<32-1), U(1<<64-1), U(3), U(4))
		return "offset-boundary"
	case 3:
		ref.list = append(ref.list, S(nil))
		return "ref-extra-element"
	case 4:
		ref.list = ref.list[:1]
		return "ref-missing-offset"
	case 5:
		vp.list[0] = vh.Pick(r, U(6), U(255), U(1<<64-1), S([]byte{0, 1}), rawNode([]byte{0x00}), S([]byte{1, 0, 0, 0, 0, 0, 0, 0, 0}), L())
		return "op-invalid"
	case 6:
		vp.list = append(vp.list, vh.Pick(r, S(nil), S([]byte{7}), L()))
		return "predicate-extra-element"
	case 7:
		vp.list = vp.list[:len(vp.list)-1]
		return "predicate-missing-element"
	case 8:
		if len(vp.list) > 1 {
			vp.list[1] = vh.Pick(r, S([]byte{0, 9}), rawNode([]byte{0x00}), rawNode([]byte{0x81, 0x7f}), L(), S(append([]byte{0}, r.Bytes(33)...)))
		}
		return "argument-non-canonical"
	case 9:
		if len(vp.list) > 1 {
			vp.list[1].longForm = true
		}
		return "argument-long-form"
	case 10:
		if len(vp.list) > 1 {
			vp.list[1].longForm, vp.list[1].lenPad = true, 1
			if len(vp.list[1].str) < 56 {
				vp.list[1].str = r.Bytes(60)
			}
		}
		return "argument-length-leading-zero"
	case 11:
		vp.lenDelta = vh.Pick(r, 1, -1, 60)
		return "predicate-length-wrong"
	case 12:
		lp.list = append(lp.list, S(nil))
		return "logpredicate-extra-element"
	case 13:
		lp.list = lp.list[:1]
		return "logpredicate-missing-element"
	case 14:
		preds.list = append(preds.list, lp) // duplicate: a second BytesEq for the same topic is invalid
		return "duplicate-predicate"
	case 15:
		preds.longForm = true
		return "predicates-long-form"
	default:
		lp.list[0], lp.list[1] = lp.list[1], lp.list[0]
		return "ref-and-predicate-swapped"
	}
}

func genDecodeInput(r *vh.RNG) ([]byte, string) {
	d := genDef(r)
	switch r.Intn(10) {
	case 0, 1, 2, 3, 4:
		root := defNode(d)
		name := mutateNode(r, root)
		return append([]byte{2}, root.enc()...), "node:" + name
	case 5:
		b := append([]byte{2}, defNode(d).enc()...)
		if len(b) > 1 {
			b[1+r.Intn(len(b)-1)] ^= byte(1 << r.Intn(8))
		}
		return b, "bitflip"
	case 6:
		b := append([]byte{2}, defNode(d).enc()...)
		return b[:r.Intn(len(b)+1)], "truncated"
	case 7:
		b := append([]byte{2}, defNode(d).enc()...)
		return append(b, r.Bytes(1+r.Intn(3))...), "trailing"
	case 8:
		b := append([]byte{vh.Pick(r, byte(0), byte(1), byte(3), byte(0xc0))}, defNode(d).enc()...)
		return b, "version"
	default:
		return append([]byte{2}, r.Bytes(r.Intn(40))...), "random"
	}
}

// ---------------------------------------------------------------------------------------
// forced boundary cases

func forced(run *vh.Run) {
	h0 := hashes[0]
	dynEq := func(off uint64, arg []byte) jPred {
		return jPred{Dyn: true, Off: off, Op: 5, Ints: []*string{}, Bytes: []string{hx(arg)}}
	}
	uintP := func(off, op uint64, z *big.Int) jPred {
		return jPred{Off: off, Op: op, Ints: []*string{sp(z)}, Bytes: []string{}}
	}
	topicEq := func(off uint64, arg []byte) jPred {
		return jPred{Off: off, Op: 5, Ints: []*string{}, Bytes: []string{hx(arg)}}
	}
	mk := func(topics []string, data []byte) jLog {
		if topics == nil {
			topics = []string{}
		}
		return jLog{Addr: addrA, Topics: topics, Data: hx(data)}
	}
	cat := func(ws ...[]byte) []byte {
		var out []byte
		for _, w := range ws {
			out = append(out, w...)
		}
		return out
	}
	hello := []byte("hello")
	pad := func(b []byte) []byte {
		out := exact(b)
		for len(out)%32 != 0 {
			out = append(out, 0)
		}
		return out
	}
	// dynamic reference: well formed, then every way of leaving the data
	dd := &jDef{Contract: addrA, Preds: []jPred{dynEq(4, hello)}}
	good := cat(wordU(32), wordU(5), pad(hello))
	var logs []jLog
	logs = append(logs, mk(nil, good))
	for _, cut := range []int{0, 10, 31, 32, 33, 63, 64, 65, 68, 69, 70, 95} {
		logs = append(logs, mk(nil, good[:cut]))
	}
	for _, ptr := range []uint64{33, 64, 65, 96, 200, 1 << 63, 1<<64 - 32, 1<<64 - 31, 1<<64 - 1, 0} {
		logs = append(logs, mk(nil, cat(wordU(ptr), wordU(5), pad(hello))))
	}
	for _, ln := range []uint64{0, 4, 6, 32, 33, 64, 4096, 1<<48 + 1, 1 << 62, 1 << 63, 1<<64 - 1, 1<<64 - 64, 1<<64 - 65} {
		logs = append(logs, mk(nil, cat(wordU(32), wordU(ln), pad(hello))))
	}
	high := wordU(32)
	high[0] = 1 // pointer word 2^248 + 32: Uint64() keeps 32
	logs = append(logs, mk(nil, cat(high, wordU(5), pad(hello))))
	big32 := mk(nil, cat(wordU(32), wordU(1<<25), pad(hello)))
	big32.Big = true
	logs = append(logs, big32)
	runDef(run, dd, logs)

	// resource probes: references far into the data against logs with 0 / 32 / 40 data bytes. The
	// answer must cost what the log costs, not what the offset stored in the definition says
	// (offsets up to 2^32-1 are valid; beyond isolateThreshold the Match runs in a child process).
	four := []string{h0, h0, h0, h0}
	for _, k := range []uint64{1 << 10, 1 << 16, 1 << 20, 1 << 22, 1<<22 + 1, 1 << 27, 1<<32 - 5} {
		off := 4 + k
		short := []jLog{mk(four, nil), mk(four, make([]byte, 32)), mk(four, bytes.Repeat([]byte{1}, 40)), mk(nil, good)}
		runDef(run, &jDef{Contract: addrA, Preds: []jPred{uintP(off, 2, big.NewInt(0)), uintP(3, 4, big.NewInt(0))}}, short)
		runDef(run, &jDef{Contract: addrA, Preds: []jPred{dynEq(off, hello)}}, short)
		runDef(run, &jDef{Contract: addrA, Preds: []jPred{uintP(off, 1, two256), dynEq(off-1, nil), topicEq(0, unhx(h0))}}, short)
	}
	// wrap family: static word indices k*2^27+j are where a start byte computed in 32 bits
	// ((index*32) mod 2^32) lands back inside the data; k*2^26 and k*2^28 are controls, 2^59 is
	// the (invalid) 64-bit wrap tested above. The documented value of all of them is the zero word.
	seven := cat(wordU(7), wordU(9))
	wrapLogs := []jLog{mk(four, seven), mk(nil, seven[:40]), mk(four, cat(wordU(7), wordU(9), wordU(11)))}
	var wrapOffs []uint64
	for _, k := range []uint64{1, 2, 3, 16, 31} {
		for j := uint64(0); j < 3; j++ {
			wrapOffs = append(wrapOffs, 4+k<<27+j)
		}
	}
	for _, k := range []uint64{1, 3, 63} {
		wrapOffs = append(wrapOffs, 4+k<<26, 4+k<<26+1)
	}
	for _, k := range []uint64{1, 3, 15} {
		wrapOffs = append(wrapOffs, 4+k<<28, 4+k<<28+1)
	}
	for _, off := range wrapOffs {
		for _, p := range []jPred{uintP(off, 2, big.NewInt(0)), uintP(off, 2, big.NewInt(7)), uintP(off, 2, big.NewInt(9)), uintP(off, 0, big.NewInt(1)),
			uintP(off, 1, big.NewInt(0)), {Off: off, Op: 5, Ints: []*string{}, Bytes: []string{hx(wordU(7))}}, {Off: off, Op: 5, Ints: []*string{}, Bytes: []string{hx(wordU(0))}}} {
			runDef(run, &jDef{Contract: addrA, Preds: []jPred{p}}, wrapLogs)
		}
	}
	// uint comparisons on dynamic values and static words, all operators
	for op := uint64(0); op < 5; op++ {
		for _, arg := range []*big.Int{big.NewInt(0), big.NewInt(100), new(big.Int).Sub(two256, big.NewInt(1)), two256} {
			d := &jDef{Contract: addrA, Preds: []jPred{uintP(4, op, arg), uintP(1, op, arg), {Dyn: true, Off: 5, Op: op, Ints: []*string{sp(arg)}, Bytes: []string{}}}}
			var ls []jLog
			for _, delta := range []int64{-1, 0, 1} {
				v := new(big.Int).Add(arg, big.NewInt(delta))
				if v.Sign() < 0 {
					continue
				}
				vb := v.Bytes()
				ls = append(ls, mk([]string{h0, hx(word(v))}, cat(word(v), wordU(64), wordU(uint64(len(vb))), pad(vb))))
				ls = append(ls, mk([]string{h0}, cat(word(v), wordU(64), wordU(uint64(len(vb))), pad(vb))))
				ls = append(ls, mk([]string{h0, hx(word(v))}, word(v)[:31]))
			}
			runDef(run, d, ls)
		}
	}

	// topic BytesEq arguments of every length (32 is the only one a filter can carry)
	for _, n := range []int{0, 1, 31, 32, 33} {
		arg := bytes.Repeat([]byte{0xab}, n)
		d := &jDef{Contract: addrA, Preds: []jPred{topicEq(2, arg)}}
		t := hx(bytes.Repeat([]byte{0xab}, 32))
		runDef(run, d, []jLog{mk([]string{h0, h0, t}, nil), mk([]string{h0, h0}, nil), mk([]string{h0, h0, h0, t}, nil), mk(nil, nil)})
	}
	// filter shapes: predicates on topics 0 and 3, uint predicate on a topic, duplicate
	t3 := unhx(hashes[1])
	runDef(run, &jDef{Contract: addrA, Preds: []jPred{topicEq(3, t3), topicEq(0, unhx(h0)), uintP(1, 3, big.NewInt(5))}},
		[]jLog{mk([]string{h0, hashes[4], h0, hashes[1]}, nil), mk([]string{h0, hashes[4], h0}, nil), mk([]string{h0, hashes[2], h0, hashes[1]}, nil),
			{Addr: addrB, Topics: []string{h0, hashes[4], h0, hashes[1]}, Data: ""}})
	runDef(run, &jDef{Contract: addrA, Preds: []jPred{topicEq(1, t3), topicEq(1, t3)}}, []jLog{mk([]string{h0, hashes[1]}, nil)})
	runDef(run, &jDef{Contract: addrB, Preds: []jPred{}}, []jLog{mk(nil, nil), {Addr: addrB, Topics: []string{}, Data: "00"}})
	// static offsets at the validation boundary and a wrapping (invalid) one
	runDef(run, &jDef{Contract: addrA, Preds: []jPred{uintP(1<<32-1, 2, big.NewInt(0))}}, []jLog{mk(nil, good)})
	runDef(run, &jDef{Contract: addrA, Preds: []jPred{uintP(1<<32, 2, big.NewInt(0))}}, []jLog{mk(nil, good)})
	runDef(run, &jDef{Contract: addrA, Preds: []jPred{uintP(1<<59+4, 2, big.NewInt(32))}}, []jLog{mk(nil, good)})
	runDef(run, &jDef{Contract: addrA, Preds: []jPred{{Dyn: true, Off: 1<<59 + 4, Op: 5, Ints: []*string{}, Bytes: []string{hx(hello)}}}}, []jLog{mk(nil, good)})
	// definitions Match may panic on (the code says so): wrong arity, nil argument
	runDef(run, &jDef{Contract: addrA, Preds: []jPred{{Off: 4, Op: 0, Ints: []*string{}, Bytes: []string{}}}}, []jLog{mk(nil, good)})
	runDef(run, &jDef{Contract: addrA, Preds: []jPred{{Off: 4, Op: 0, Ints: []*string{nil}, Bytes: []string{}}}}, []jLog{mk(nil, good)})
	runDef(run, &jDef{Contract: addrA, Preds: []jPred{{Off: 4, Op: 5, Ints: []*string{}, Bytes: []string{}}}}, []jLog{mk(nil, good)})
	runDef(run, &jDef{Contract: addrA, Preds: []jPred{{Off: 0, Op: 5, Ints: []*string{}, Bytes: []string{}}}}, []jLog{mk(nil, good)})
	runDef(run, &jDef{Contract: addrA, Preds: []jPred{{Off: 4, Op: 9, Ints: []*string{}, Bytes: []string{}}}}, []jLog{mk(nil, good)})
	runDef(run, &jDef{Contract: addrA, Preds: []jPred{uintP(4, 1, big.NewInt(-5))}}, []jLog{mk(nil, good)})

	// decoder: fixed byte strings
	for _, s := range []string{"", "02", "01c0", "03", "02c0", "0280", "02d6941234567890123456789012345678901234567890c0", "02d6941234567890123456789012345678901234567890c000",
		"02d5941234567890123456789012345678901234567890", "02d7941234567890123456789012345678901234567890c180",
		"02f8", "02f800", "02f838", "02b8", "02ff", "02bf"} {
		runDecode(run, unhx(s), false)
	}
}

// ---------------------------------------------------------------------------------------

func main() {
	if os.Getenv("C17_CHILD") == "1" {
		childMain()
		return
	}
	debug.SetMemoryLimit(1 << 30)
	run := vh.Start("Verif.Corr.C17", 120)
	defer run.Finish()
	run.SetPreamble("From Verif Require Import Lib.Rlp Model.TriggerDef.\nOpen Scope list_scope.\n" + initNamed())
	run.Rule = "definition cases: a generated definition (all operators, topic/static/dynamic references, 0..4 and occasionally up to 12 predicates, boundary integers, one in seven deliberately invalid) with logs aimed at it (values equal/adjacent to the arguments, well-formed ABI tails, then truncations and hostile pointers/lengths up to 2^64-1; forced resource probes: static and dynamic references 2^10..2^32-5 words into the data against logs with 0/32/40 data bytes, bytes allocated per Match (runtime TotalAlloc delta, minimum of up to 5 repetitions) against (predicates+1)*(8*len(data)+1024)+4096; definitions referring more than 2^22 words into the data are matched in a child process under RLIMIT_AS 3 GiB and a 60 s watchdog, a dead child is a violation); non-trivial = valid definition with at least one predicate, at least one log that matched and at least one rejected by a predicate. batch cases: 2..8 valid definitions (mixed and equal encoded lengths, neighbours differing in one argument byte / the contract / one integer) all encoded before any is decoded, every returned slice compared with a copy taken right after its call, each decoded and compared with its original, the first decoded definition matched against logs, then one goroutine per definition marshalling concurrently (oracle only); reuse cases: the encodings of 2..8 valid definitions decoded one after the other into ONE value (all 36 ordered pairs of a six-definition family, chains, random sequences), each required to succeed, validate, equal its original and re-encode to the same bytes; decoder cases: real encodings, 22 structural/canonical-form mutations written with an independent RLP writer, bit flips, truncations, trailing bytes, wrong versions, random bytes; non-trivial = got past the version byte into the RLP decoder with more than 24 bytes, or decoded. distinct by canonical JSON of the case"
	if run.Replay != "" {
		var c jCase
		if err := run.LoadReplay(&c); err != nil {
			panic(err)
		}
		runCase(run, c)
		return
	}
	for _, f := range run.CorpusFiles() {
		b, err := os.ReadFile(f)
		if err != nil {
			panic(err)
		}
		var w struct {
			Case jCase `json:"case"`
		}
		if err := json.Unmarshal(b, &w); err != nil || w.Case.Kind == "" {
			run.Tie("corpus file " + f + " is not a C17 case")
			continue
		}
		runCase(run, w.Case)
	}
	forced(run)
	nd := run.Scale(3000, 15000)
	nl := 12
	if run.Thorough {
		nl = 24
	}
	for i := 0; i < nd; i++ {
		d := genDef(run.RNG)
		logs := make([]jLog, 0, nl)
		for j := 0; j < nl; j++ {
			logs = append(logs, genLog(run.RNG, d))
		}
		runDef(run, d, logs)
	}
	// batches: encode several definitions before decoding any
	{
		h := unhx(hashes[0])
		h2 := append([]byte(nil), h...)
		h2[31] ^= 1
		tEq := func(c string, arg []byte) *jDef {
			return &jDef{Contract: c, Preds: []jPred{{Off: 1, Op: 5, Ints: []*string{}, Bytes: []string{hx(arg)}}}}
		}
		u := func(z int64) *jDef {
			return &jDef{Contract: addrA, Preds: []jPred{{Off: 4, Op: 3, Ints: []*string{sp(big.NewInt(z))}, Bytes: []string{}}}}
		}
		lg := []jLog{{Addr: addrA, Topics: []string{hashes[0], hashes[0]}, Data: hx(wordU(1001))}, {Addr: addrB, Topics: []string{hashes[0], hx(h2)}, Data: ""}}
		runBatch(run, []*jDef{tEq(addrA, h), tEq(addrA, h2)}, lg)                      // same length, one argument byte differs
		runBatch(run, []*jDef{tEq(addrA, h), tEq(addrB, h)}, lg)                       // same length, contract differs
		runBatch(run, []*jDef{u(1000), u(1001)}, lg)                                   // same length, threshold differs
		runBatch(run, []*jDef{tEq(addrA, h), {Contract: addrA, Preds: []jPred{}}}, lg) // long then short
		runBatch(run, []*jDef{{Contract: addrB, Preds: []jPred{}}, tEq(addrA, h), u(5), tEq(addrB, h2), u(1 << 40), {Contract: addrA, Preds: []jPred{}}, u(1000), tEq(addrA, h2)}, lg)
	}
	// decode into a value that was decoded into before: every ordered pair (and a definition after
	// itself) of a small family, two chains, then random sequences
	{
		h := unhx(hashes[0])
		pT := jPred{Off: 1, Op: 5, Ints: []*string{}, Bytes: []string{hx(h)}}
		pU := jPred{Off: 4, Op: 3, Ints: []*string{sp(big.NewInt(1000))}, Bytes: []string{}}
		pD := jPred{Dyn: true, Off: 5, Op: 5, Ints: []*string{}, Bytes: []string{"68656c6c6f"}}
		pZ := jPred{Off: 2, Op: 2, Ints: []*string{sp(big.NewInt(0))}, Bytes: []string{}}
		fam := []*jDef{
			{Contract: addrA, Preds: []jPred{}},
			{Contract: addrA, Preds: []jPred{pT}},
			{Contract: addrB, Preds: []jPred{pU}},
			{Contract: addrA, Preds: []jPred{pD}},
			{Contract: addrA, Preds: []jPred{pU, pT}},
			{Contract: addrB, Preds: []jPred{pT, pZ, pD}},
		}
		for _, a := range fam {
			for _, b := range fam {
				runReuse(run, []*jDef{a, b})
			}
		}
		runReuse(run, fam)
		runReuse(run, []*jDef{fam[5], fam[4], fam[3], fam[2], fam[1], fam[0], fam[1]})
	}
	for i, n := 0, run.Scale(300, 3000); i < n; i++ {
		runReuse(run, genBatch(run.RNG))
	}
	for i, n := 0, run.Scale(300, 3000); i < n; i++ {
		ds := genBatch(run.RNG)
		runBatch(run, ds, []jLog{genLog(run.RNG, ds[0]), genLog(run.RNG, ds[0])})
	}
	nb := run.Scale(5000, 100000)
	for i := 0; i < nb; i++ {
		b, name := genDecodeInput(run.RNG)
		run.Dist["decode-input:"+name]++
		runDecode(run, b, false)
	}
}
