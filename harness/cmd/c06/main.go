//go:build verif

// Driver for C06 (released keys carry a genuine threshold of keyper signatures).
//
// Implementation side: the repository's exported validators
//
//	gnosis.ValidateDecryptionKeysSignatures, gnosis.ValidateDecryptionKeysBasic,
//	shutterservice.ValidateDecryptionKeysSignatures,
//	gnosisaccessnode.DecryptionKeysHandler.ValidateMessage (in-memory Storage)
//
// run on keyper sets of real ECDSA addresses and on signatures produced by the repository's
// own ComputeSignature over real SSZ signature data. The oracle is the right-hand side of the
// property, computed from how each case was built (never from the Coq model).
package main

import (
	"context"
	"encoding/hex"
	"encoding/json"
	"fmt"
	"math"
	"os"
	"reflect"
	"strings"

	"github.com/ethereum/go-ethereum/common"
	"github.com/ethereum/go-ethereum/crypto"
	"github.com/jackc/pgx/v4/pgxpool"
	pubsub "github.com/libp2p/go-libp2p-pubsub"

	"crypto/ecdsa"

	obskeyperdatabase "github.com/shutter-network/rolling-shutter/rolling-shutter/chainobserver/db/keyper"
	"github.com/shutter-network/rolling-shutter/rolling-shutter/gnosisaccessnode"
	"github.com/shutter-network/rolling-shutter/rolling-shutter/keyperimpl/gnosis"
	"github.com/shutter-network/rolling-shutter/rolling-shutter/keyperimpl/gnosis/gnosisssztypes"
	"github.com/shutter-network/rolling-shutter/rolling-shutter/keyperimpl/shutterservice"
	"github.com/shutter-network/rolling-shutter/rolling-shutter/keyperimpl/shutterservice/serviceztypes"
	syncevent "github.com/shutter-network/rolling-shutter/rolling-shutter/medley/chainsync/event"
	"github.com/shutter-network/rolling-shutter/rolling-shutter/medley/identitypreimage"
	"github.com/shutter-network/rolling-shutter/rolling-shutter/medley/testkeygen"
	"github.com/shutter-network/rolling-shutter/rolling-shutter/p2pmsg"
	"github.com/shutter-network/rolling-shutter/rolling-shutter/shdb"

	"verifharness/pgfake"
	"verifharness/vh"
)

// ---------------------------------------------------------------------------------------
// case description (also the replay format)

// tupleSpec is the data a signature is over.
type tupleSpec struct {
	Flavour string   `json:"flavour"` // gnosis | service
	Inst    uint64   `json:"inst"`
	Eon     uint64   `json:"eon"`
	Slot    uint64   `json:"slot"`
	Txp     uint64   `json:"txp"`
	Ids     []string `json:"ids"` // hex
}

type sigSpec struct {
	// by: crypto.Sign by universe key Key over T; short64/long66: a real signature cut to 64 /
	// padded to 66 bytes; badv: 65 bytes with recovery id 9; stray: a real signature by a
	// throw-away key over an unrelated hash
	Kind string     `json:"kind"`
	Key  int        `json:"key,omitempty"`
	T    *tupleSpec `json:"t,omitempty"`
	Why  string     `json:"why,omitempty"` // how the entry was derived (distribution only)
}

type setSpec struct {
	Eon       uint64 `json:"eon"`
	Keypers   []int  `json:"keypers"`
	Threshold int32  `json:"threshold"`
}

type c06Case struct {
	Target    string `json:"target"`  // gnosis-sigs | service-sigs | gnosis-basic | gnosis-keyper | accessnode
	Keypers   []int  `json:"keypers"` // universe key per keyper slot, -1: a string that is no address
	Threshold int32  `json:"threshold"`
	NoSet     bool   `json:"no_set,omitempty"` // gnosis-keyper / accessnode: no keyper set for the eon

	Inst      uint64   `json:"inst"`
	Eon       uint64   `json:"eon"`
	Extra     string   `json:"extra"` // gnosis | gnosis-nil | service | none
	Slot      uint64   `json:"slot"`
	Txp       uint64   `json:"txp"`
	Ids       []string `json:"ids"`
	KeyLabels []string `json:"key_labels,omitempty"` // accessnode: ok | wrong (default ok)

	Signers []uint64  `json:"signers"`
	Sigs    []sigSpec `json:"sigs"`

	// accessnode / gnosis-keyper-db: what else the node's storage / the keyper_set table holds:
	// keyper sets of OTHER eons, and (access node) other eons whose eon key is known
	OtherSets    []setSpec `json:"other_sets,omitempty"`
	OtherEonKeys []uint64  `json:"other_eon_keys,omitempty"`

	// accessnode
	AnInstance uint64 `json:"an_instance,omitempty"`
	AnMaxKeys  uint64 `json:"an_max_keys,omitempty"`
	AnNoEonKey bool   `json:"an_no_eon_key,omitempty"`
}

// ---------------------------------------------------------------------------------------
// key universe

const (
	universeSize = 7
	outsiderKey  = 5 // never a member of any keyper set
	ghostKey     = 6 // signs unrelated hashes only
)

var (
	uniKeys  []*ecdsa.PrivateKey
	uniAddrs []string
	sigCache = map[string][]byte{}
	eonKeys  *testkeygen.EonKeys
	eskCache = map[string][]byte{}
)

func initUniverse() {
	for i := 0; i < universeSize; i++ {
		k, err := crypto.ToECDSA(crypto.Keccak256([]byte(fmt.Sprintf("verif-c06-key-%d", i))))
		if err != nil {
			panic(err)
		}
		uniKeys = append(uniKeys, k)
		uniAddrs = append(uniAddrs, shdb.EncodeAddress(crypto.PubkeyToAddress(k.PublicKey)))
	}
}

type detReader struct{ r *vh.RNG }

func (d detReader) Read(p []byte) (int, error) {
	copy(p, d.r.Bytes(len(p)))
	return len(p), nil
}

func initEonKeys() {
	if eonKeys != nil {
		return
	}
	ek, err := testkeygen.NewEonKeys(detReader{vh.NewRNG(606)}, 3, 2)
	if err != nil {
		panic(err)
	}
	eonKeys = ek
}

func epochSecretKeyBytes(id []byte) []byte {
	initEonKeys()
	if b, ok := eskCache[string(id)]; ok {
		return b
	}
	k, err := eonKeys.EpochSecretKey(identitypreimage.IdentityPreimage(id))
	if err != nil {
		panic(err)
	}
	b := k.Marshal()
	eskCache[string(id)] = b
	return b
}

func unhexAll(xs []string) [][]byte {
	out := make([][]byte, len(xs))
	for i, x := range xs {
		b, err := hex.DecodeString(x)
		if err != nil {
			panic(err)
		}
		out[i] = b
	}
	return out
}

func preimages(ids []string) []identitypreimage.IdentityPreimage {
	out := []identitypreimage.IdentityPreimage{}
	for _, b := range unhexAll(ids) {
		out = append(out, identitypreimage.IdentityPreimage(b))
	}
	return out
}

// signTuple uses the repository's own signature data types; ok=false when the repository
// refuses to build or hash the data (then no signature over it exists).
func signTuple(key int, t *tupleSpec) ([]byte, bool) {
	ck := fmt.Sprintf("%d|%s|%d|%d|%d|%d|%s", key, t.Flavour, t.Inst, t.Eon, t.Slot, t.Txp, strings.Join(t.Ids, ","))
	if s, ok := sigCache[ck]; ok {
		return s, s != nil
	}
	var sig []byte
	var err error
	switch t.Flavour {
	case "gnosis":
		var d *gnosisssztypes.SlotDecryptionSignatureData
		d, err = gnosisssztypes.NewSlotDecryptionSignatureData(t.Inst, t.Eon, t.Slot, t.Txp, preimages(t.Ids))
		if err == nil {
			sig, err = d.ComputeSignature(uniKeys[key])
		}
	case "service":
		var d *serviceztypes.DecryptionSignatureData
		d, err = serviceztypes.NewDecryptionSignatureData(t.Inst, t.Eon, preimages(t.Ids))
		if err == nil {
			sig, err = d.ComputeSignature(uniKeys[key])
		}
	default:
		panic("flavour " + t.Flavour)
	}
	if err != nil {
		sig = nil
	}
	sigCache[ck] = sig
	return sig, sig != nil
}

func sigBytes(s sigSpec) []byte {
	base := func() []byte {
		b, err := crypto.Sign(crypto.Keccak256([]byte("verif-c06-unrelated")), uniKeys[ghostKey])
		if err != nil {
			panic(err)
		}
		return b
	}
	switch s.Kind {
	case "by":
		b, ok := signTuple(s.Key, s.T)
		if !ok {
			panic("case asks for a signature over data the repository cannot hash")
		}
		return b
	case "short64":
		return base()[:64]
	case "long66":
		return append(base(), 0)
	case "badv":
		b := base()
		b[64] = 9
		return b
	case "stray":
		return base()
	}
	panic("sig kind " + s.Kind)
}

// ---------------------------------------------------------------------------------------
// building the implementation's inputs

func (c *c06Case) flavour() string {
	if c.Target == "service-sigs" {
		return "service"
	}
	return "gnosis"
}

func (c *c06Case) ownTuple() tupleSpec {
	t := tupleSpec{Flavour: c.flavour(), Inst: c.Inst, Eon: c.Eon, Ids: c.Ids}
	if t.Flavour == "gnosis" {
		t.Slot, t.Txp = c.Slot, c.Txp
	}
	return t
}

func idWidth(fl string) int {
	if fl == "gnosis" {
		return 52
	}
	return 32
}

func hashableTuple(t tupleSpec) bool {
	if len(t.Ids) > 1024 {
		return false
	}
	for _, x := range t.Ids {
		if len(x) != 2*idWidth(t.Flavour) {
			return false
		}
	}
	return true
}

func (c *c06Case) keyperSet() *obskeyperdatabase.KeyperSet {
	return setOf(setSpec{Eon: c.Eon, Keypers: c.Keypers, Threshold: c.Threshold})
}

// allSets: the keyper sets the node / the database knows (the message's own eon first).
func (c *c06Case) allSets() []setSpec {
	var out []setSpec
	if !c.NoSet {
		out = append(out, setSpec{Eon: c.Eon, Keypers: c.Keypers, Threshold: c.Threshold})
	}
	return append(out, c.OtherSets...)
}

func setOf(sp setSpec) *obskeyperdatabase.KeyperSet {
	c := sp
	ks := &obskeyperdatabase.KeyperSet{KeyperConfigIndex: int64(c.Eon), Threshold: c.Threshold, Keypers: []string{}}
	for _, k := range c.Keypers {
		if k < 0 {
			ks.Keypers = append(ks.Keypers, "not-an-address")
		} else {
			ks.Keypers = append(ks.Keypers, uniAddrs[k])
		}
	}
	return ks
}

func (c *c06Case) label(i int) string {
	if i < len(c.KeyLabels) {
		return c.KeyLabels[i]
	}
	return "ok"
}

func (c *c06Case) message() *p2pmsg.DecryptionKeys {
	msg := &p2pmsg.DecryptionKeys{InstanceId: c.Inst, Eon: c.Eon, Keys: []*p2pmsg.Key{}}
	ids := unhexAll(c.Ids)
	for i, id := range ids {
		k := &p2pmsg.Key{IdentityPreimage: id, Key: []byte{}}
		if c.Target == "accessnode" {
			switch c.label(i) {
			case "ok":
				k.Key = epochSecretKeyBytes(id)
			case "wrong":
				other := append([]byte{0xee}, id...)
				k.Key = epochSecretKeyBytes(other)
			default:
				panic("key label")
			}
		}
		msg.Keys = append(msg.Keys, k)
	}
	sigs := [][]byte{}
	for _, s := range c.Sigs {
		sigs = append(sigs, sigBytes(s))
	}
	signers := append([]uint64{}, c.Signers...)
	switch c.Extra {
	case "gnosis":
		msg.Extra = &p2pmsg.DecryptionKeys_Gnosis{Gnosis: &p2pmsg.GnosisDecryptionKeysExtra{
			Slot: c.Slot, TxPointer: c.Txp, SignerIndices: signers, Signatures: sigs,
		}}
	case "gnosis-nil":
		msg.Extra = &p2pmsg.DecryptionKeys_Gnosis{}
	case "service":
		msg.Extra = &p2pmsg.DecryptionKeys_Service{Service: &p2pmsg.ShutterServiceDecryptionKeysExtra{
			SignerIndices: signers, Signature: sigs,
		}}
	case "none":
	default:
		panic("extra " + c.Extra)
	}
	return msg
}

// ---------------------------------------------------------------------------------------
// observation

type observed struct {
	Verdict string `json:"verdict"` // accept | reject | panic
	Reason  string `json:"reason,omitempty"`
	Err     string `json:"err,omitempty"`
}

// classify maps the error text of a Reject to the model's reason constructor.
func classify(err string) string {
	has := func(s string) bool { return strings.Contains(err, s) }
	switch {
	case has("expected one signature per signer"):
		return "RSigCount"
	case has("signers, got"):
		return "RSignerCount"
	case has("duplicate signer index"):
		return "RDuplicate"
	case has("signer indices not ordered"):
		return "RUnordered"
	case has("signer index out of range"):
		return "ROutOfRange"
	case has("keyper index") && has("out of range"), has("not an address"):
		return "RSubset"
	case has("signature data object"):
		return "RTooManyIds"
	case has("failed to check"):
		return "RCheckError"
	case has("signature invalid"):
		return "RInvalidSig"
	case has("unexpected extra type"):
		return "RExtraType"
	case has("missing extra Gnosis data"):
		return "RExtraNil"
	case has("slot number too large"):
		return "RSlotTooLarge"
	case has("tx pointer too large"):
		return "RTxpTooLarge"
	case has("msg does not contain any keys"):
		return "RNoKeys"
	case has("no keyper set found"), has("failed to get keyper set from database"):
		return "RNoKeyperSet"
	case has("instance ID mismatch"):
		return "RInstance"
	case has("overflows int64"):
		return "REonOverflow"
	case has("no keys in message"):
		return "RNoKeysCommon"
	case has("too many keys in message"):
		return "RTooManyKeys"
	case has("no eon key found"):
		return "RNoEonKey"
	case has("failed to unmarshal decryption key"):
		return "RKeyDecode"
	case has("epoch secret key for identity"):
		return "RKeyInvalid"
	case has("keys not ordered"):
		return "RKeysUnordered"
	}
	return ""
}

func observe(run *vh.Run, what string, f func() (pubsub.ValidationResult, error)) observed {
	var res pubsub.ValidationResult
	var err error
	panicked, msg := vh.Guard(func() { res, err = f() })
	if panicked {
		return observed{Verdict: "panic", Err: msg}
	}
	switch res {
	case pubsub.ValidationAccept:
		if err != nil {
			run.Tie(what + ": Accept returned together with an error: " + err.Error())
		}
		return observed{Verdict: "accept"}
	case pubsub.ValidationReject:
		if err == nil {
			run.Tie(what + ": Reject returned without an error")
			return observed{Verdict: "reject", Reason: "RNoError"}
		}
		r := classify(err.Error())
		if r == "" {
			run.Tie(what + ": unclassified rejection text: " + err.Error())
			r = "RUnknown"
		}
		return observed{Verdict: "reject", Reason: r, Err: err.Error()}
	}
	run.Tie(fmt.Sprintf("%s: unexpected validation result %v", what, res))
	return observed{Verdict: "other"}
}

var (
	dbSrv   *pgfake.Server
	dbConn  *pgxpool.Pool
	dbEmpty *pgfake.Store
)

func dbPool(run *vh.Run) *pgxpool.Pool {
	if dbConn != nil {
		return dbConn
	}
	srv, err := pgfake.Start(pgfake.Options{RepoRoot: run.Repo})
	if err != nil {
		panic(err)
	}
	pool, err := srv.Pool(context.Background())
	if err != nil {
		panic(err)
	}
	dbSrv, dbConn, dbEmpty = srv, pool, srv.Store().Snapshot()
	return pool
}

// dbFinish reports what the fake database noticed (changed SQL texts, unknown statements).
func dbFinish(run *vh.Run) {
	if dbSrv == nil {
		return
	}
	for _, t := range dbSrv.Ties() {
		run.Tie(fmt.Sprintf("pgfake: %v", t))
	}
	for _, i := range dbSrv.RuntimeIssues() {
		run.Tie("pgfake: " + i.String())
	}
	dbConn.Close()
	dbSrv.Close()
}

func execute(run *vh.Run, c *c06Case) observed {
	msg := c.message()
	switch c.Target {
	case "gnosis-sigs":
		extra := msg.Extra.(*p2pmsg.DecryptionKeys_Gnosis).Gnosis
		ks := c.keyperSet()
		return observe(run, c.Target, func() (pubsub.ValidationResult, error) {
			return gnosis.ValidateDecryptionKeysSignatures(msg, extra, ks)
		})
	case "service-sigs":
		extra := msg.Extra.(*p2pmsg.DecryptionKeys_Service).Service
		ks := c.keyperSet()
		return observe(run, c.Target, func() (pubsub.ValidationResult, error) {
			return shutterservice.ValidateDecryptionKeysSignatures(msg, extra, ks)
		})
	case "gnosis-basic":
		return observe(run, c.Target, func() (pubsub.ValidationResult, error) {
			return gnosis.ValidateDecryptionKeysBasic(msg)
		})
	case "gnosis-keyper":
		// DecryptionKeysHandler.ValidateMessage without its database: Basic, the keyper set
		// lookup (its result is part of the case), Signatures
		o := observe(run, c.Target, func() (pubsub.ValidationResult, error) {
			return gnosis.ValidateDecryptionKeysBasic(msg)
		})
		if o.Verdict != "accept" {
			return o
		}
		if c.NoSet {
			return observed{Verdict: "reject", Reason: "RNoKeyperSet", Err: "(lookup result given by the case)"}
		}
		extra := msg.Extra.(*p2pmsg.DecryptionKeys_Gnosis).Gnosis
		ks := c.keyperSet()
		return observe(run, c.Target, func() (pubsub.ValidationResult, error) {
			return gnosis.ValidateDecryptionKeysSignatures(msg, extra, ks)
		})
	case "accessnode":
		initEonKeys()
		cfg := &gnosisaccessnode.Config{InstanceID: c.AnInstance, MaxNumKeysPerMessage: c.AnMaxKeys}
		eonKeyEons := append([]uint64{}, c.OtherEonKeys...)
		if !c.AnNoEonKey {
			eonKeyEons = append(eonKeyEons, c.Eon)
		}
		viaCallbacks := true
		for _, sp := range c.allSets() {
			for _, k := range sp.Keypers {
				viaCallbacks = viaCallbacks && k >= 0 // the callback takes addresses, not strings
			}
		}
		var h *gnosisaccessnode.DecryptionKeysHandler
		if viaCallbacks {
			// the storage is filled the way the running node fills it: by its chain sync callbacks
			node := gnosisaccessnode.New(cfg)
			ctx := context.Background()
			for _, sp := range c.allSets() {
				ev := &syncevent.KeyperSet{Eon: sp.Eon, Threshold: uint64(int64(sp.Threshold)), Members: []common.Address{}}
				for _, k := range sp.Keypers {
					ev.Members = append(ev.Members, crypto.PubkeyToAddress(uniKeys[k].PublicKey))
				}
				if err := node.VerifOnNewKeyperSet(ctx, ev); err != nil {
					run.Tie("onNewKeyperSet failed: " + err.Error())
				}
			}
			for _, e := range eonKeyEons {
				if err := node.VerifOnNewEonKey(ctx, &syncevent.EonPublicKey{Eon: e, Key: eonKeys.EonPublicKey().Marshal()}); err != nil {
					run.Tie("onNewEonKey failed: " + err.Error())
				}
			}
			h = node.VerifDecryptionKeysHandler()
			run.Dist["accessnode-storage:callbacks"]++
		} else {
			storage := gnosisaccessnode.NewStorage()
			for _, e := range eonKeyEons {
				storage.AddEonKey(e, eonKeys.EonPublicKey())
			}
			for _, sp := range c.allSets() {
				storage.AddKeyperSet(sp.Eon, setOf(sp))
			}
			h = gnosisaccessnode.NewDecryptionKeysHandler(cfg, storage)
			run.Dist["accessnode-storage:direct"]++
		}
		return observe(run, c.Target, func() (pubsub.ValidationResult, error) {
			return h.ValidateMessage(context.Background(), msg)
		})
	case "gnosis-keyper-db":
		// the keyper's real DecryptionKeysHandler.ValidateMessage over the fake PostgreSQL
		ctx := context.Background()
		pool := dbPool(run)
		dbSrv.SetStore(dbEmpty)
		q := obskeyperdatabase.New(pool)
		for _, sp := range c.allSets() {
			ks := setOf(sp)
			if err := q.InsertKeyperSet(ctx, obskeyperdatabase.InsertKeyperSetParams{
				KeyperConfigIndex: ks.KeyperConfigIndex, ActivationBlockNumber: int64(sp.Eon), Keypers: ks.Keypers, Threshold: ks.Threshold,
			}); err != nil {
				run.Tie("InsertKeyperSet failed: " + err.Error())
			}
		}
		h := gnosis.VerifNewDecryptionKeysHandler(pool)
		return observe(run, c.Target, func() (pubsub.ValidationResult, error) {
			return h.ValidateMessage(ctx, msg)
		})
	}
	panic("target " + c.Target)
}

// ---------------------------------------------------------------------------------------
// the property, evaluated on how the case was built

// ruleHolds is the right-hand side of C06 for the signature part: nil when it holds, else
// the first clause that fails.
func ruleHolds(c *c06Case) (ok bool, why string) {
	fl := c.flavour()
	n := len(c.Keypers)
	if fl == "service" && len(c.Signers) == 0 && len(c.Sigs) == 0 {
		return true, "service: neither signers nor signatures"
	}
	if int64(len(c.Signers)) != int64(c.Threshold) {
		return false, "signer-count-differs-from-threshold"
	}
	for i, s := range c.Signers {
		if i > 0 && s <= c.Signers[i-1] {
			return false, "signers-not-strictly-increasing"
		}
		if s >= uint64(n) {
			return false, "signer-outside-keyper-set"
		}
	}
	if len(c.Sigs) < len(c.Signers) {
		return false, "fewer-signatures-than-signers"
	}
	if len(c.Sigs) > len(c.Signers) {
		return false, "more-signatures-than-signers"
	}
	own := c.ownTuple()
	for i, s := range c.Sigs {
		keyper := c.Keypers[c.Signers[i]]
		if keyper < 0 {
			return false, "listed-keyper-has-no-address"
		}
		if s.Kind != "by" {
			return false, "signature-" + s.Kind
		}
		if s.Key != keyper {
			return false, "signature-by-someone-else"
		}
		if !reflect.DeepEqual(*s.T, own) {
			return false, "signature-over-other-data"
		}
		if !hashableTuple(own) {
			return false, "own-data-not-hashable"
		}
	}
	return true, ""
}

// otherChecksPass says whether everything the target checks besides the signature rule passes
// (so that Accept is expected when the rule holds).
func otherChecksPass(c *c06Case) bool {
	basic := func() bool {
		return c.Extra == "gnosis" && c.Slot <= math.MaxInt64 && c.Txp <= math.MaxInt32 && len(c.Ids) > 0
	}
	switch c.Target {
	case "gnosis-sigs", "service-sigs":
		return len(c.Ids) <= 1024
	case "gnosis-keyper", "gnosis-keyper-db":
		return basic() && !c.NoSet && len(c.Ids) <= 1024
	case "accessnode":
		if c.Inst != c.AnInstance || c.Eon > math.MaxInt64 || len(c.Ids) == 0 || c.AnNoEonKey {
			return false
		}
		if int64(c.AnMaxKeys) < int64(len(c.Ids)) {
			return false
		}
		ids := unhexAll(c.Ids)
		for i := range ids {
			if c.label(i) != "ok" {
				return false
			}
			if i > 0 && string(ids[i]) < string(ids[i-1]) {
				return false
			}
		}
		return basic() && !c.NoSet && len(c.Ids) <= 1024
	}
	return false
}

// signedOverOtherIdentityList: the signer list and the signature count fit the rule, every
// signature is by the listed keyper, and what each of them signed differs from the message's own
// data in the identity list only.
func signedOverOtherIdentityList(c *c06Case) bool {
	if len(c.Sigs) != len(c.Signers) || len(c.Sigs) == 0 {
		return false
	}
	own := c.ownTuple()
	for i, s := range c.Sigs {
		if c.Signers[i] >= uint64(len(c.Keypers)) || s.Kind != "by" || s.T == nil || s.Key != c.Keypers[c.Signers[i]] {
			return false
		}
		t := *s.T
		if t.Flavour != own.Flavour || t.Inst != own.Inst || t.Eon != own.Eon || t.Slot != own.Slot || t.Txp != own.Txp {
			return false
		}
		if reflect.DeepEqual(t.Ids, own.Ids) {
			return false
		}
	}
	return true
}

func site(c *c06Case) string {
	switch c.Target {
	case "gnosis-sigs":
		return "gnosis"
	case "service-sigs":
		return "service"
	}
	return c.Target
}

// violate records at most four failing cases per key (vh keeps 50 in all; one class must not
// crowd out the others); every further one is only counted.
var perKey = map[string]int{}

func violate(run *vh.Run, v vh.Violation) {
	perKey[v.Key]++
	if perKey[v.Key] <= 4 {
		run.Violate(v)
		return
	}
	run.Dist["oracle_violation:"+v.Key]++
}

func oracle(run *vh.Run, c *c06Case, o observed) {
	if o.Verdict == "panic" {
		key := "C06:" + site(c) + ":panic"
		if len(c.Sigs) > len(c.Signers) {
			key = "C06:" + site(c) + ":more-signatures-than-signers-panics"
		}
		violate(run, vh.Violation{Key: key, What: "the validator panicked: " + o.Err, Case: c, Observed: o, Expected: "accept or reject, never a panic"})
		return
	}
	if c.Target == "gnosis-basic" {
		return
	}
	if o.Verdict == "accept" && c.NoSet {
		violate(run, vh.Violation{Key: "C06:" + site(c) + ":accepted-without-keyper-set-of-own-eon",
			What: "message accepted although the keyper set of the message's own eon is not known: its signers and signatures were judged against another eon's set",
			Case: c, Observed: o, Expected: "reject"})
		return
	}
	ok, why := ruleHolds(c)
	if o.Verdict == "accept" && !ok {
		key := "C06:" + site(c) + ":accepted-against-rule:" + why
		switch {
		case c.flavour() == "service" && (len(c.Signers) == 0) != (len(c.Sigs) == 0):
			key = "C06:service:one-of-signers-signatures-empty-admitted"
		case len(c.Sigs) < len(c.Signers):
			key = "C06:" + site(c) + ":fewer-signatures-than-signers-accepted"
		case why == "signature-over-other-data" && signedOverOtherIdentityList(c):
			key = "C06:" + site(c) + ":accepted-with-unsigned-identity-list"
			why = "every listed signer signed the same instance, eon, slot and tx pointer but another identity list than the one the message carries"
		}
		violate(run, vh.Violation{Key: key, What: "message accepted although the signature rule fails: " + why, Case: c, Observed: o, Expected: "reject"})
		return
	}
	if o.Verdict == "reject" && ok && otherChecksPass(c) {
		violate(run, vh.Violation{Key: "C06:" + site(c) + ":rejected-although-rule-holds", What: "message with a genuine threshold of signatures rejected: " + o.Err, Case: c, Observed: o, Expected: "accept"})
	}
}

// ---------------------------------------------------------------------------------------
// Coq rendering

var coqNames = map[string]string{} // canonical term -> name defined in the preamble

// seqShape recognises a list built by mkIds (long lists are sent to Coq in compact form).
func seqShape(ids []string) (count, width int, tag byte, ok bool) {
	if len(ids) < 8 {
		return
	}
	b, err := hex.DecodeString(ids[0])
	if err != nil || len(b) == 0 {
		return
	}
	want := mkIds(len(ids), len(b), b[0])
	for i := range ids {
		if ids[i] != want[i] {
			return
		}
	}
	return len(ids), len(b), b[0], true
}

func coqIds(ids []string) string {
	if n, w, tag, ok := seqShape(ids); ok {
		return vh.CApp("ids_seq", vh.CNat(n), vh.CNat(w), vh.CN(uint64(tag)))
	}
	xs := make([]string, len(ids))
	for i, x := range ids {
		xs[i] = `(hx "` + x + `")`
	}
	return vh.CList(xs)
}

func coqTuple(t *tupleSpec) string {
	var s string
	if t.Flavour == "gnosis" {
		s = vh.CApp("TGnosis", vh.CN(t.Inst), vh.CN(t.Eon), vh.CN(t.Slot), vh.CN(t.Txp), coqIds(t.Ids))
	} else {
		s = vh.CApp("TService", vh.CN(t.Inst), vh.CN(t.Eon), coqIds(t.Ids))
	}
	if n, ok := coqNames[s]; ok {
		return n
	}
	return s
}

func coqSig(s sigSpec) string {
	switch s.Kind {
	case "by":
		return vh.CApp("SigBy", vh.CN(uint64(s.Key)), coqTuple(s.T))
	case "stray":
		return "SigStray"
	}
	return "SigMalformed"
}

func coqSigs(ss []sigSpec) string {
	xs := make([]string, len(ss))
	for i, s := range ss {
		xs[i] = coqSig(s)
	}
	return vh.CList(xs)
}

func (c *c06Case) coqKeyperSet() string {
	return coqSet(setSpec{Keypers: c.Keypers, Threshold: c.Threshold})
}

func coqSet(c setSpec) string {
	xs := make([]string, len(c.Keypers))
	for i, k := range c.Keypers {
		if k < 0 {
			xs[i] = "None"
		} else {
			xs[i] = vh.CSome(vh.CN(uint64(k)))
		}
	}
	return vh.CApp("Build_keyperset", vh.CList(xs), vh.CZ(int64(c.Threshold)))
}

func (c *c06Case) coqMsg() string {
	extra := map[string]string{"gnosis": "ExGnosis", "gnosis-nil": "ExGnosisNil", "service": "ExService", "none": "ExNone"}[c.Extra]
	slot, txp := c.Slot, c.Txp
	if c.Extra != "gnosis" {
		slot, txp = 0, 0
	}
	allOk := true
	for i := range c.Ids {
		allOk = allOk && c.label(i) == "ok"
	}
	if n, w, tag, ok := seqShape(c.Ids); ok && allOk {
		return vh.CApp("Build_keysmsg", vh.CN(c.Inst), vh.CN(c.Eon), extra, vh.CN(slot), vh.CN(txp),
			vh.CApp("keys_seq", vh.CNat(n), vh.CNat(w), vh.CN(uint64(tag))))
	}
	keys := make([]string, len(c.Ids))
	for i, x := range c.Ids {
		lab := map[string]string{"ok": "KeyOk", "wrong": "KeyWrong"}[c.label(i)]
		keys[i] = vh.CPair(`hx "`+x+`"`, lab)
	}
	s := vh.CApp("Build_keysmsg", vh.CN(c.Inst), vh.CN(c.Eon), extra, vh.CN(slot), vh.CN(txp), vh.CList(keys))
	if n, ok := coqNames[s]; ok {
		return n
	}
	return s
}

func coqVerdict(o observed) string {
	switch o.Verdict {
	case "accept":
		return "Accept"
	case "panic":
		return "Panic"
	case "reject":
		return "(Reject " + o.Reason + ")"
	}
	return "Panic"
}

func (c *c06Case) coqCase(id uint64, o observed) string {
	signers := vh.CNList(c.Signers)
	if c.Extra != "gnosis" && c.Extra != "service" {
		signers = "[]"
	}
	switch c.Target {
	case "gnosis-sigs":
		return vh.CApp("CSigs", vh.CN(id), "Gnosis", c.coqKeyperSet(), c.coqMsg(), signers, coqSigs(c.Sigs), coqVerdict(o))
	case "service-sigs":
		return vh.CApp("CSigs", vh.CN(id), "Service", c.coqKeyperSet(), c.coqMsg(), signers, coqSigs(c.Sigs), coqVerdict(o))
	case "gnosis-basic":
		return vh.CApp("CBasic", vh.CN(id), c.coqMsg(), coqVerdict(o))
	case "gnosis-keyper":
		return vh.CApp("CKeyper", vh.CN(id), vh.COpt(!c.NoSet, c.coqKeyperSet()), c.coqMsg(), signers, coqSigs(c.Sigs), coqVerdict(o))
	case "gnosis-keyper-db":
		var rows []string
		for _, sp := range c.allSets() {
			rows = append(rows, vh.CPair(vh.CZ(int64(sp.Eon)), coqSet(sp)))
		}
		return vh.CApp("CKeyperDB", vh.CN(id), vh.CList(rows), c.coqMsg(), signers, coqSigs(c.Sigs), coqVerdict(o))
	case "accessnode":
		var ek, ss []string
		if !c.AnNoEonKey {
			ek = append(ek, vh.CN(c.Eon))
		}
		for _, e := range c.OtherEonKeys {
			ek = append(ek, vh.CN(e))
		}
		for _, sp := range c.allSets() {
			ss = append(ss, vh.CPair(vh.CN(sp.Eon), coqSet(sp)))
		}
		eonkeys, sets := vh.CList(ek), vh.CList(ss)
		st := vh.CApp("Build_an_state", vh.CN(c.AnInstance), vh.CN(c.AnMaxKeys), eonkeys, sets)
		return vh.CApp("CAccess", vh.CN(id), st, c.coqMsg(), signers, coqSigs(c.Sigs), coqVerdict(o))
	}
	panic("target")
}

// ---------------------------------------------------------------------------------------
// running one case

func validCase(c *c06Case) error {
	switch c.Target {
	case "gnosis-sigs", "gnosis-keyper", "gnosis-keyper-db", "accessnode", "gnosis-basic":
	case "service-sigs":
	default:
		return fmt.Errorf("unknown target %q", c.Target)
	}
	if c.Target == "gnosis-sigs" && c.Extra != "gnosis" {
		return fmt.Errorf("gnosis-sigs needs a gnosis extra")
	}
	if c.Target == "service-sigs" && c.Extra != "service" {
		return fmt.Errorf("service-sigs needs a service extra")
	}
	for _, k := range c.Keypers {
		if k >= universeSize {
			return fmt.Errorf("keyper key outside the universe")
		}
	}
	seen := map[uint64]bool{c.Eon: true}
	for _, sp := range c.OtherSets {
		if seen[sp.Eon] {
			return fmt.Errorf("two keyper sets for eon %d", sp.Eon)
		}
		seen[sp.Eon] = true
		if c.Target == "gnosis-keyper-db" && sp.Eon > math.MaxInt64 {
			return fmt.Errorf("keyper config index beyond int64")
		}
		for _, k := range sp.Keypers {
			if k >= universeSize {
				return fmt.Errorf("keyper key outside the universe")
			}
		}
	}
	if len(c.OtherSets) > 0 && c.Target != "accessnode" && c.Target != "gnosis-keyper-db" {
		return fmt.Errorf("other_sets only with accessnode / gnosis-keyper-db")
	}
	for _, s := range c.Sigs {
		if s.Kind == "by" {
			if s.T == nil || s.Key < 0 || s.Key >= universeSize || !hashableTuple(*s.T) {
				return fmt.Errorf("signature over data that cannot be signed")
			}
		}
	}
	return nil
}

func runCase(run *vh.Run, c *c06Case) {
	if err := validCase(c); err != nil {
		panic(err)
	}
	id := run.NextID()
	o := execute(run, c)
	oracle(run, c, o)
	ok, why := ruleHolds(c)
	run.Dist["target:"+c.Target]++
	run.Dist["verdict:"+c.Target+":"+o.Verdict+":"+o.Reason]++
	if c.Target != "gnosis-basic" {
		if ok {
			run.Dist["rule:holds"]++
		} else {
			run.Dist["rule:fails:"+why]++
		}
	}
	for _, s := range c.Sigs {
		w := s.Why
		if w == "" {
			w = s.Kind
		}
		run.Dist["sig:"+w]++
	}
	// non-trivial: the signer list passes the count/order/range tests, so the verdict is decided
	// by the signature part (lengths and validity)
	nontrivial := false
	if c.Target != "gnosis-basic" {
		cc := *c
		cc.Sigs = nil
		_, w := ruleHolds(&cc)
		nontrivial = len(c.Signers) > 0 && (w == "fewer-signatures-than-signers")
	}
	canon, _ := json.Marshal(c)
	run.AddCase(id, c.coqCase(id, o), c, string(canon), nontrivial)
}

// ---------------------------------------------------------------------------------------
// generators

func mkIds(count, width int, tag byte) []string {
	out := make([]string, count)
	for i := range out {
		b := make([]byte, width)
		if width > 0 {
			b[0] = tag
		}
		if width >= 3 {
			b[1] = byte(i >> 8)
			b[2] = byte(i)
		} else if width >= 2 {
			b[1] = byte(i)
		}
		out[i] = hex.EncodeToString(b)
	}
	return out
}

var members = []int{1, 4, 2, 0}

// mutate returns the tuple with exactly one field changed.
func mutate(t tupleSpec, field string) (tupleSpec, bool) {
	m := t
	m.Ids = append([]string{}, t.Ids...)
	switch field {
	case "inst":
		m.Inst++
	case "eon":
		m.Eon++
	case "slot":
		if t.Flavour != "gnosis" {
			return m, false
		}
		m.Slot++
	case "txp":
		if t.Flavour != "gnosis" {
			return m, false
		}
		m.Txp++
	case "idbyte":
		if len(m.Ids) == 0 || len(m.Ids[0]) < 2 {
			return m, false
		}
		b, _ := hex.DecodeString(m.Ids[0])
		b[len(b)-1] ^= 1
		m.Ids[0] = hex.EncodeToString(b)
	case "idswap":
		if len(m.Ids) < 2 || m.Ids[0] == m.Ids[1] {
			return m, false
		}
		m.Ids[0], m.Ids[1] = m.Ids[1], m.Ids[0]
	case "iddrop":
		if len(m.Ids) == 0 {
			return m, false
		}
		m.Ids = m.Ids[:len(m.Ids)-1]
	case "idadd":
		if len(m.Ids) >= 1024 {
			return m, false
		}
		m.Ids = append(m.Ids, mkIds(1, idWidth(t.Flavour), 0xab)[0])
	default:
		panic("field " + field)
	}
	return m, hashableTuple(m)
}

var mutFields = []string{"inst", "eon", "slot", "txp", "idbyte", "idswap", "iddrop", "idadd"}

// sigAlphabet lists the entries a signature position can hold, relative to the keyper listed
// at that position (listed < 0: no keyper is listed there).
func sigAlphabet(c *c06Case, listed int) []sigSpec {
	own := c.ownTuple()
	signable := hashableTuple(own)
	var out []sigSpec
	if !signable {
		// nothing can be signed over the message's own data: fall back to other data
		own = tupleSpec{Flavour: own.Flavour, Inst: own.Inst, Eon: own.Eon, Slot: own.Slot, Txp: own.Txp, Ids: mkIds(2, idWidth(own.Flavour), 0x11)}
	}
	if listed >= 0 {
		t := own
		out = append(out, sigSpec{Kind: "by", Key: listed, T: &t, Why: "by-listed-signer"})
	}
	for _, k := range c.Keypers {
		if k >= 0 && k != listed {
			t := own
			out = append(out, sigSpec{Kind: "by", Key: k, T: &t, Why: "by-another-member"})
			break
		}
	}
	t := own
	out = append(out, sigSpec{Kind: "by", Key: outsiderKey, T: &t, Why: "by-outsider"})
	if listed >= 0 {
		for _, f := range mutFields {
			if m, ok := mutate(own, f); ok {
				mm := m
				out = append(out, sigSpec{Kind: "by", Key: listed, T: &mm, Why: "listed-signer-over-other-" + f})
			}
		}
	}
	out = append(out, sigSpec{Kind: "short64"}, sigSpec{Kind: "long66"}, sigSpec{Kind: "badv"}, sigSpec{Kind: "stray"})
	return out
}

func listedKey(c *c06Case, pos int) int {
	if pos < len(c.Signers) && c.Signers[pos] < uint64(len(c.Keypers)) {
		return c.Keypers[c.Signers[pos]]
	}
	return -1
}

// goodSig is the entry that satisfies the rule at a position when one exists.
func goodSig(c *c06Case, pos int) sigSpec {
	a := sigAlphabet(c, listedKey(c, pos))
	return a[0]
}

func baseCase(target string, n int, threshold int32) *c06Case {
	c := &c06Case{Target: target, Threshold: threshold, Inst: 42, Eon: 7, Slot: 1000, Txp: 3, Extra: "gnosis",
		Keypers: append([]int{}, members[:n]...), Signers: []uint64{}, Sigs: []sigSpec{},
		AnInstance: 42, AnMaxKeys: 500}
	if target == "service-sigs" {
		c.Extra = "service"
		c.Slot, c.Txp = 0, 0
	}
	c.Ids = mkIds(2, idWidth(c.flavour()), 0x01)
	return c
}

// allLists enumerates every list over 0..vals-1 of length 0..maxLen.
func allLists(vals, maxLen int, f func([]uint64)) {
	var rec func(cur []uint64)
	rec = func(cur []uint64) {
		f(append([]uint64{}, cur...))
		if len(cur) == maxLen {
			return
		}
		for v := 0; v < vals; v++ {
			rec(append(cur, uint64(v)))
		}
	}
	rec(nil)
}

// enumSignerStructure: every keyper-set size n, every threshold 0..n+1, every signer list of
// length 0..n+1 over {0..n} (n is out of range), every signature count 0..n+1 with each
// signature the one the rule wants at its position.
func enumSignerStructure(run *vh.Run, target string, n int, lengths func(signers []uint64, passes bool) []int) {
	for t := 0; t <= n+1; t++ {
		allLists(n+1, n+1, func(signers []uint64) {
			probe := baseCase(target, n, int32(t))
			probe.Signers = signers
			_, why := ruleHolds(probe)
			passes := why == "fewer-signatures-than-signers" || why == "" || strings.HasPrefix(why, "service")
			for _, l := range lengths(signers, passes) {
				c := baseCase(target, n, int32(t))
				c.Signers = signers
				for p := 0; p < l; p++ {
					c.Sigs = append(c.Sigs, goodSig(c, p))
				}
				runCase(run, c)
			}
		})
	}
}

// enumSignatureAlphabet: for every strictly increasing in-range signer list S (threshold |S|):
// every signature list of length |S| over the whole alphabet; and for lengths |S|-1 and |S|+1
// the all-good list with one position replaced by each alphabet entry.
func enumSignatureAlphabet(run *vh.Run, target string, n int) {
	for mask := 1; mask < 1<<n; mask++ {
		var signers []uint64
		for i := 0; i < n; i++ {
			if mask&(1<<i) != 0 {
				signers = append(signers, uint64(i))
			}
		}
		k := len(signers)
		mk := func() *c06Case {
			c := baseCase(target, n, int32(k))
			c.Signers = signers
			return c
		}
		probe := mk()
		alpha := make([][]sigSpec, k+1)
		for p := 0; p <= k; p++ {
			alpha[p] = sigAlphabet(probe, listedKey(probe, p))
		}
		// full product at length k
		idx := make([]int, k)
		for {
			c := mk()
			for p := 0; p < k; p++ {
				c.Sigs = append(c.Sigs, alpha[p][idx[p]])
			}
			runCase(run, c)
			p := k - 1
			for p >= 0 {
				idx[p]++
				if idx[p] < len(alpha[p]) {
					break
				}
				idx[p] = 0
				p--
			}
			if p < 0 {
				break
			}
		}
		// one replaced position at lengths k-1 and k+1
		for _, l := range []int{k - 1, k + 1} {
			if l < 1 {
				continue
			}
			for pos := 0; pos < l; pos++ {
				for _, e := range alpha[pos] {
					c := mk()
					for p := 0; p < l; p++ {
						if p == pos {
							c.Sigs = append(c.Sigs, e)
						} else {
							c.Sigs = append(c.Sigs, alpha[p][0])
						}
					}
					runCase(run, c)
				}
			}
		}
	}
}

// relength returns the identity with bytes appended (n > 0) or with up to -n trailing zero
// bytes dropped (n < 0); ok=false when nothing could be dropped.
func relength(id string, n int, fill byte) (string, bool) {
	b, _ := hex.DecodeString(id)
	if n > 0 {
		for i := 0; i < n; i++ {
			b = append(b, fill)
		}
		return hex.EncodeToString(b), true
	}
	dropped := 0
	for dropped < -n && len(b) > 0 && b[len(b)-1] == 0 {
		b = b[:len(b)-1]
		dropped++
	}
	return hex.EncodeToString(b), dropped > 0
}

// identityLengthFamily: a genuine threshold of signatures over identities of the proper width;
// the message carries the same identities except that one (or two) of them differ IN LENGTH
// only: 1..3 bytes appended (zero or non-zero), trailing zero bytes dropped, both in one
// message. The signed data is then not the message's own, so the rule fails.
func identityLengthFamily(run *vh.Run, target string) {
	type variant struct {
		name string
		f    func(ids []string) bool
	}
	one := func(pos, n int, fill byte) func([]string) bool {
		return func(ids []string) bool {
			v, ok := relength(ids[pos], n, fill)
			ids[pos] = v
			return ok
		}
	}
	var vs []variant
	for pos := 0; pos < 2; pos++ {
		for n := 1; n <= 3; n++ {
			vs = append(vs, variant{fmt.Sprintf("id%d+%d zero", pos, n), one(pos, n, 0)})
			vs = append(vs, variant{fmt.Sprintf("id%d+%d nonzero", pos, n), one(pos, n, 0x5a)})
		}
		for n := 1; n <= 3; n++ {
			vs = append(vs, variant{fmt.Sprintf("id%d-%d", pos, n), one(pos, -n, 0)})
		}
	}
	vs = append(vs, variant{"id0+1 id1-1", func(ids []string) bool {
		a, _ := relength(ids[0], 1, 0x33)
		b, ok := relength(ids[1], -1, 0)
		ids[0], ids[1] = a, b
		return ok
	}})
	vs = append(vs, variant{"id0-2 id1+2", func(ids []string) bool {
		a, ok := relength(ids[0], -2, 0)
		b, _ := relength(ids[1], 2, 0)
		ids[0], ids[1] = a, b
		return ok
	}})
	// signed identities: ending in zero bytes (so that a shortened form exists) and ending in
	// non-zero bytes
	w := idWidth(baseCase(target, 1, 1).flavour())
	zeroTail := mkIds(2, w, 0x01)
	nonzeroTail := mkIds(2, w, 0x01)
	for i := range nonzeroTail {
		b, _ := hex.DecodeString(nonzeroTail[i])
		b[w-1], b[w-2] = 0x7f, 0x01
		nonzeroTail[i] = hex.EncodeToString(b)
	}
	for _, signed := range [][]string{zeroTail, nonzeroTail} {
		for _, set := range []struct {
			n, t    int
			signers []uint64
		}{{1, 1, []uint64{0}}, {3, 2, []uint64{0, 2}}, {3, 3, []uint64{0, 1, 2}}} {
			for _, v := range vs {
				c := baseCase(target, set.n, int32(set.t))
				c.Ids = append([]string{}, signed...)
				c.Signers = set.signers
				for p := range c.Signers {
					c.Sigs = append(c.Sigs, goodSig(c, p)) // over the identities of the proper width
					c.Sigs[p].Why = "listed-signer-over-identities-of-other-length"
				}
				ids := append([]string{}, signed...)
				if !v.f(ids) {
					continue
				}
				c.Ids = ids
				run.Dist["identity-length:"+v.name]++
				runCase(run, c)
			}
		}
	}
}

// mixedEonFamily: the node / the database knows any subset of four keyper sets with DIFFERENT
// members and thresholds for the eons N-2, N-1, N, N+1 (and, access node, the eon key of N or
// not); the message is for eon N, carries genuine keys, and is signed - over its own instance,
// eon, slot, tx pointer and identities - by a threshold of the members of ONE of the four sets.
// Only the set of eon N counts, and only when it is known.
func mixedEonFamily(run *vh.Run, target string) {
	const n = 7
	own := setSpec{Eon: n, Keypers: []int{1, 4, 2}, Threshold: 2}
	others := []setSpec{
		{Eon: n - 2, Keypers: []int{0, 5}, Threshold: 2},
		{Eon: n - 1, Keypers: []int{3, 0, 5}, Threshold: 2},
		{Eon: n + 1, Keypers: []int{5, 3}, Threshold: 1},
	}
	signedBy := append([]setSpec{own}, others...)
	eonKeyStates := []bool{false}
	if target == "accessnode" {
		eonKeyStates = []bool{false, true}
	}
	for mask := 0; mask < 16; mask++ {
		for _, noEonKey := range eonKeyStates {
			for _, by := range signedBy {
				c := baseCase(target, 3, own.Threshold)
				c.Eon = n
				c.Keypers = append([]int{}, own.Keypers...)
				c.NoSet = mask&1 == 0
				for i, o := range others {
					if mask&(2<<i) != 0 {
						c.OtherSets = append(c.OtherSets, o)
						if i%2 == 0 {
							c.OtherEonKeys = append(c.OtherEonKeys, o.Eon)
						}
					}
				}
				c.AnNoEonKey = noEonKey
				t := c.ownTuple()
				for i := 0; i < int(by.Threshold); i++ {
					c.Signers = append(c.Signers, uint64(i))
					tt := t
					c.Sigs = append(c.Sigs, sigSpec{Kind: "by", Key: by.Keypers[i], T: &tt, Why: fmt.Sprintf("threshold-of-set-of-eon-N%+d", int(by.Eon)-n)})
				}
				run.Dist[fmt.Sprintf("mixed-eon:%s:own-set-known=%v:signed-by-N%+d", target, !c.NoSet, int(by.Eon)-n)]++
				runCase(run, c)
			}
		}
	}
}

func forced(run *vh.Run) {
	mixedEonFamily(run, "accessnode")
	mixedEonFamily(run, "gnosis-keyper-db")
	for _, target := range []string{"gnosis-sigs", "gnosis-keyper", "accessnode", "service-sigs"} {
		identityLengthFamily(run, target)
	}
	// int32 cast of the signer count, thresholds at the edges of int32, negative threshold
	for _, target := range []string{"gnosis-sigs", "service-sigs", "accessnode", "gnosis-keyper"} {
		for _, th := range []int32{-1, math.MaxInt32, math.MinInt32} {
			for _, k := range []int{0, 1, 2} {
				c := baseCase(target, 3, th)
				for i := 0; i < k; i++ {
					c.Signers = append(c.Signers, uint64(i))
					c.Sigs = append(c.Sigs, goodSig(c, i))
				}
				runCase(run, c)
			}
		}
		// a keyper-set entry that is not an address, listed and not listed
		for _, bad := range []int{0, 2} {
			c := baseCase(target, 3, 2)
			c.Keypers[bad] = -1
			c.Signers = []uint64{0, 1}
			c.Sigs = []sigSpec{goodSig(c, 0), goodSig(c, 1)}
			if bad == 0 {
				t := c.ownTuple()
				c.Sigs[0] = sigSpec{Kind: "by", Key: outsiderKey, T: &t}
			}
			runCase(run, c)
		}
		// the same address twice in the set
		{
			c := baseCase(target, 3, 2)
			c.Keypers[2] = c.Keypers[0]
			c.Signers = []uint64{0, 2}
			c.Sigs = []sigSpec{goodSig(c, 0), goodSig(c, 1)}
			runCase(run, c)
		}
		// identity lists the signature data cannot hold: wrong width, 1024 and 1025 entries, none
		for _, shape := range []string{"short-id", "long-id", "1024", "1025", "none"} {
			for _, k := range []int{0, 2} {
				if target == "accessnode" && (shape == "1024" || shape == "1025") {
					continue // one pairing check per key
				}
				c := baseCase(target, 3, int32(k))
				w := idWidth(c.flavour())
				switch shape {
				case "short-id":
					c.Ids = append(mkIds(1, w, 0x01), mkIds(1, w-1, 0x02)...)
				case "long-id":
					c.Ids = append(mkIds(1, w, 0x01), mkIds(1, w+1, 0x02)...)
				case "1024":
					c.Ids = mkIds(1024, w, 0x01)
				case "1025":
					c.Ids = mkIds(1025, w, 0x01)
				case "none":
					c.Ids = []string{}
				}
				for i := 0; i < k; i++ {
					c.Signers = append(c.Signers, uint64(i))
					c.Sigs = append(c.Sigs, goodSig(c, i))
				}
				runCase(run, c)
			}
		}
	}
	// ValidateDecryptionKeysBasic and the chain around the signature rule
	for _, target := range []string{"gnosis-basic", "gnosis-keyper", "gnosis-keyper-db", "accessnode"} {
		variants := []func(c *c06Case){
			func(c *c06Case) {},
			func(c *c06Case) { c.Extra = "gnosis-nil" },
			func(c *c06Case) { c.Extra = "service" },
			func(c *c06Case) { c.Extra = "none" },
			func(c *c06Case) { c.Slot = math.MaxInt64 },
			func(c *c06Case) { c.Slot = math.MaxInt64 + 1 },
			func(c *c06Case) { c.Slot = math.MaxUint64 },
			func(c *c06Case) { c.Txp = math.MaxInt32 },
			func(c *c06Case) { c.Txp = math.MaxInt32 + 1 },
			func(c *c06Case) { c.Txp = math.MaxUint64 },
			func(c *c06Case) { c.Ids = []string{} },
			func(c *c06Case) { c.NoSet = true },
			func(c *c06Case) { c.Inst = 43 },
			func(c *c06Case) { c.Eon = math.MaxInt64 },
			func(c *c06Case) { c.Eon = math.MaxInt64 + 1 },
			func(c *c06Case) { c.AnMaxKeys = 1 },
			func(c *c06Case) { c.AnMaxKeys = 2 },
			func(c *c06Case) { c.AnMaxKeys = math.MaxUint64 },
			func(c *c06Case) { c.AnMaxKeys = 1 << 63 },
			func(c *c06Case) { c.AnNoEonKey = true },
			func(c *c06Case) { c.KeyLabels = []string{"ok", "wrong"} },
			func(c *c06Case) { c.Ids[0], c.Ids[1] = c.Ids[1], c.Ids[0] },
			func(c *c06Case) { c.Ids[1] = c.Ids[0] },
		}
		for _, v := range variants {
			c := baseCase(target, 3, 2)
			c.Signers = []uint64{0, 2}
			v(c)
			if c.Extra == "gnosis" || c.Extra == "service" {
				c.Sigs = []sigSpec{goodSig(c, 0), goodSig(c, 1)}
			} else {
				c.Signers = []uint64{}
			}
			runCase(run, c)
		}
	}
}

func randomCase(r *vh.RNG) *c06Case {
	target := vh.Pick(r, "gnosis-sigs", "gnosis-sigs", "gnosis-sigs", "service-sigs", "service-sigs", "service-sigs", "gnosis-keyper", "gnosis-keyper-db", "accessnode", "accessnode")
	n := r.Intn(5)
	c := baseCase(target, 0, 0)
	// keyper set
	perm := r.Perm(5)
	for i := 0; i < n; i++ {
		c.Keypers = append(c.Keypers, perm[i])
	}
	if n > 0 && r.Chance(1, 12) {
		c.Keypers[r.Intn(n)] = -1
	}
	if n > 1 && r.Chance(1, 12) {
		c.Keypers[r.Intn(n)] = c.Keypers[r.Intn(n)]
	}
	// message
	edge := func() uint64 {
		return vh.Pick(r, uint64(0), 1, 7, 1000, math.MaxInt32, math.MaxInt32+1, math.MaxInt64, math.MaxInt64+1, math.MaxUint64-1)
	}
	c.Inst = edge()
	c.AnInstance = c.Inst
	c.Eon = vh.Pick(r, uint64(0), 1, 7, math.MaxInt64)
	if c.flavour() == "gnosis" {
		c.Slot, c.Txp = edge(), edge()
		if target != "gnosis-sigs" && r.Chance(5, 6) {
			c.Slot = uint64(r.Intn(100000))
			c.Txp = uint64(r.Intn(100000))
		}
	}
	w := idWidth(c.flavour())
	c.Ids = mkIds(vh.Pick(r, 0, 1, 1, 2, 2, 3), w, byte(1+r.Intn(3)))
	if len(c.Ids) > 0 && r.Chance(1, 15) {
		c.Ids[r.Intn(len(c.Ids))] = mkIds(1, vh.Pick(r, 0, 1, w-1, w+1), 0x07)[0]
	}
	// signers: a subset, then perhaps perturbed
	for i := 0; i < n; i++ {
		if r.Chance(1, 2) {
			c.Signers = append(c.Signers, uint64(i))
		}
	}
	c.Threshold = int32(len(c.Signers))
	switch r.Intn(10) {
	case 0:
		c.Threshold += int32(vh.Pick(r, -1, 1))
	case 1:
		if len(c.Signers) >= 2 {
			i := r.Intn(len(c.Signers) - 1)
			c.Signers[i], c.Signers[i+1] = c.Signers[i+1], c.Signers[i]
		}
	case 2:
		if len(c.Signers) >= 1 {
			i := r.Intn(len(c.Signers))
			c.Signers[i] = vh.Pick(r, uint64(n), uint64(n)+1, math.MaxUint64, 1<<32)
		}
	case 3:
		if len(c.Signers) >= 2 {
			i := 1 + r.Intn(len(c.Signers)-1)
			c.Signers[i] = c.Signers[i-1]
		}
	}
	// signatures: the good list, then perhaps perturbed
	for p := range c.Signers {
		c.Sigs = append(c.Sigs, goodSig(c, p))
	}
	switch r.Intn(8) {
	case 0:
		if len(c.Sigs) > 0 {
			c.Sigs = c.Sigs[:r.Intn(len(c.Sigs))]
		}
	case 1:
		extra := 1 + r.Intn(2)
		for i := 0; i < extra; i++ {
			a := sigAlphabet(c, listedKey(c, len(c.Sigs)))
			c.Sigs = append(c.Sigs, a[r.Intn(len(a))])
		}
	case 2, 3, 4:
		if len(c.Sigs) > 0 {
			p := r.Intn(len(c.Sigs))
			a := sigAlphabet(c, listedKey(c, p))
			c.Sigs[p] = a[r.Intn(len(a))]
		}
	case 5:
		if len(c.Sigs) >= 2 {
			i := r.Intn(len(c.Sigs) - 1)
			c.Sigs[i], c.Sigs[i+1] = c.Sigs[i+1], c.Sigs[i]
		}
	}
	if target == "accessnode" || target == "gnosis-keyper" || target == "gnosis-keyper-db" {
		if r.Chance(1, 20) {
			c.NoSet = true
		}
	}
	// other eons' keyper sets next to (or instead of) the message's own; sometimes the message is
	// signed by a threshold of the lower eon's set
	if (target == "accessnode" || target == "gnosis-keyper-db") && r.Chance(1, 2) {
		var cand []uint64
		if c.Eon > 0 {
			cand = append(cand, c.Eon-1)
		}
		if c.Eon < math.MaxInt64 {
			cand = append(cand, c.Eon+1)
		}
		for _, e := range cand {
			if r.Chance(2, 3) {
				p := r.Perm(6)
				k := 1 + r.Intn(3)
				c.OtherSets = append(c.OtherSets, setSpec{Eon: e, Keypers: p[:k], Threshold: int32(1 + r.Intn(k))})
				if r.Chance(1, 2) {
					c.OtherEonKeys = append(c.OtherEonKeys, e)
				}
			}
		}
		if len(c.OtherSets) > 0 && r.Chance(1, 2) {
			c.NoSet = true
		}
		if len(c.OtherSets) > 0 && hashableTuple(c.ownTuple()) && r.Chance(1, 2) {
			by := c.OtherSets[0]
			c.Signers, c.Sigs = nil, nil
			t := c.ownTuple()
			for i := 0; i < int(by.Threshold); i++ {
				tt := t
				c.Signers = append(c.Signers, uint64(i))
				c.Sigs = append(c.Sigs, sigSpec{Kind: "by", Key: by.Keypers[i], T: &tt, Why: "threshold-of-another-eons-set"})
			}
		}
	}
	// the message's identities differ from the signed ones in length only
	if len(c.Ids) > 0 && hashableTuple(c.ownTuple()) && r.Chance(1, 8) {
		p := r.Intn(len(c.Ids))
		if v, ok := relength(c.Ids[p], vh.Pick(r, 1, 2, 3, -1, -2), byte(r.Intn(2)*0x41)); ok {
			ids := append([]string{}, c.Ids...)
			ids[p] = v
			c.Ids = ids
		}
	}
	return c
}

func main() {
	run := vh.Start("Verif.Corr.C06", 800)
	defer run.Finish()
	defer dbFinish(run)
	run.Rule = "keyper sets of real ECDSA addresses (n<=3 enumerated: every threshold 0..n+1 x every signer list of length 0..n+1 over {0..n} x every signature count 0..n+1; every signature list over the 13-entry alphabet for every well-formed signer list; n=4 sampled in quick, enumerated in thorough), both flavours, the access node handler and the keyper chain; non-trivial = the signer list passes the count/order/range tests so the verdict is decided by the signatures; distinct by canonical JSON of the case"
	initUniverse()

	if run.Replay != "" {
		var c c06Case
		if err := run.LoadReplay(&c); err != nil {
			panic(err)
		}
		runCase(run, &c)
		return
	}
	for _, f := range run.CorpusFiles() {
		b, err := os.ReadFile(f)
		if err != nil {
			panic(err)
		}
		var w struct {
			Case c06Case `json:"case"`
		}
		if err := json.Unmarshal(b, &w); err != nil {
			panic(err)
		}
		runCase(run, &w.Case)
	}

	// names for the terms every enumerated case repeats
	var pre strings.Builder
	for _, target := range []string{"gnosis-sigs", "service-sigs"} {
		c := baseCase(target, 0, 0)
		name := "em_" + c.flavour()
		fmt.Fprintf(&pre, "Definition %s := %s.\n", name, c.coqMsg())
		msgTerm := c.coqMsg()
		own := c.ownTuple()
		ts := []tupleSpec{own}
		for _, f := range mutFields {
			if m, ok := mutate(own, f); ok {
				ts = append(ts, m)
			}
		}
		for i := range ts {
			tn := fmt.Sprintf("et_%s_%d", c.flavour(), i)
			term := coqTuple(&ts[i])
			fmt.Fprintf(&pre, "Definition %s := %s.\n", tn, term)
			coqNames[term] = tn
		}
		coqNames[msgTerm] = name
	}
	run.SetPreamble(pre.String())

	forced(run)

	lengthsFull := func(maxLen int) func([]uint64, bool) []int {
		return func(_ []uint64, _ bool) []int {
			out := []int{}
			for l := 0; l <= maxLen; l++ {
				out = append(out, l)
			}
			return out
		}
	}
	// signer lists that already fail the signer tests: the signatures are never looked at, so
	// only "none" and "one per signer" are run for them
	lengthsPruned := func(maxLen int) func([]uint64, bool) []int {
		return func(signers []uint64, passes bool) []int {
			if passes {
				return lengthsFull(maxLen)(signers, passes)
			}
			if len(signers) == 0 {
				return []int{0, 1}
			}
			return []int{0, len(signers)}
		}
	}
	for _, target := range []string{"gnosis-sigs", "service-sigs"} {
		for n := 0; n <= 3; n++ {
			enumSignerStructure(run, target, n, lengthsFull(n+1))
			enumSignatureAlphabet(run, target, n)
		}
	}
	for n := 0; n <= 2; n++ {
		enumSignerStructure(run, "accessnode", n, lengthsPruned(n+1))
		enumSignatureAlphabet(run, "accessnode", n)
		enumSignerStructure(run, "gnosis-keyper", n, lengthsPruned(n+1))
	}
	if run.Thorough {
		run.Exhaustive = true
		for _, target := range []string{"gnosis-sigs", "service-sigs"} {
			enumSignerStructure(run, target, 4, lengthsPruned(5))
			enumSignatureAlphabet(run, target, 4)
		}
		enumSignerStructure(run, "accessnode", 3, lengthsPruned(4))
		enumSignatureAlphabet(run, "accessnode", 3)
		enumSignerStructure(run, "gnosis-keyper", 3, lengthsPruned(4))
		enumSignatureAlphabet(run, "gnosis-keyper", 3)
	}
	n := run.Scale(2500, 40000)
	for i := 0; i < n; i++ {
		runCase(run, randomCase(run.RNG))
	}
}
