//go:build verif

// Driver for C05 (no byte string on any gossip topic can crash a node).
//
// For every node flavour (core keyper, Gnosis, Shutter service, Primev, snapshot keyper, Gnosis
// access node) the REAL handlers are registered on a real p2p.P2PMessaging in the order the
// flavour's Start uses; byte strings are handed to the REAL combined topic validator, and -
// when it accepts - the decoded message to the REAL P2PMessaging.Handle (and, for part of the
// cases, the bytes to the unexported handle), each call under recover() with a watchdog and an
// allocation measurement.
//
// Streams: struct (valid envelopes of every message type and Extra, and structure-aware
// mutations: the two parallel signer / signature lists varied independently 0..n+1, indices
// out of range, short signatures, empty / odd / non-hex strings for Primev, wrong oneof,
// counts 0 / max+1 / 1025), raw (bit flips, truncations, splices, random bytes on every
// topic), direct (in-memory messages the decoder cannot produce: oneof wrappers with a nil
// inner message).
//
// Oracle (from the property text, independent of the model): no panic, no timeout, allocation
// during the call below 64 x message size + 2 MiB.
package main

import (
	"encoding/hex"
	"fmt"
	"math"
	"strings"

	"github.com/ethereum/go-ethereum/crypto"
	"google.golang.org/protobuf/proto"
	anypb "google.golang.org/protobuf/types/known/anypb"

	"github.com/shutter-network/rolling-shutter/rolling-shutter/p2p"
	"github.com/shutter-network/rolling-shutter/rolling-shutter/p2pmsg"
	"github.com/shutter-network/rolling-shutter/rolling-shutter/trace"

	g "verifharness/gossipdrv"
	"verifharness/vh"
)

const (
	inst    = 7
	maxKeys = 3
	idA     = "a1a1a1a1a1a1a1a1a1a1a1a1a1a1a1a1a1a1a1a1a1a1a1a1a1a1a1a1a1a1a1a1"
	idB     = "b2b2b2b2b2b2b2b2b2b2b2b2b2b2b2b2b2b2b2b2b2b2b2b2b2b2b2b2b2b2b2b2"
	idC     = "c3c3c3c3c3c3c3c3c3c3c3c3c3c3c3c3c3c3c3c3c3c3c3c3c3c3c3c3c3c3c3c3"
	idD     = "d4d4d4d4d4d4d4d4d4d4d4d4d4d4d4d4d4d4d4d4d4d4d4d4d4d4d4d4d4d4d4d4"
)

func wide(id string) string { return id + strings.Repeat("00", 20) }

type caseJ struct {
	Kind     string   `json:"kind"` // bytes | direct
	Flavour  string   `json:"flavour"`
	State    *g.State `json:"state"`
	State2   *g.State `json:"state2,omitempty"` // the database at handling time (default: State)
	RegTopic string   `json:"reg_topic"`
	MsgTopic string   `json:"msg_topic"`
	Data     string   `json:"data,omitempty"` // hex of the pubsub message data
	Msg      *g.Msg   `json:"msg,omitempty"`  // direct: the in-memory message
	Raw      bool     `json:"raw,omitempty"`  // also run the unexported handle
	Trace    bool     `json:"trace,omitempty"`
	Origin   string   `json:"origin"`
}

func (c *caseJ) key() string {
	s2 := ""
	if c.State2 != nil {
		s2 = c.State2.Name
	}
	return fmt.Sprintf("%s/%s/%s/%s/%s/%s/%s/%+v", c.Kind, c.Flavour, c.State.Name, s2, c.RegTopic, c.MsgTopic, c.Data, c.Msg)
}

// ---------------------------------------------------------------------------------------------
// states

func baseState() *g.State {
	return &g.State{Name: "base", Inst: inst, MaxKeys: maxKeys, Self: 0,
		Configs:   []g.ConfigRow{{Kci: 1, Keypers: []int{0, 1, 2}}},
		Eons:      []g.EonRow{{Eon: 5, Kci: 1}},
		Dkg:       []g.DkgRow{{Eon: 5, Kind: "ok", Set: 0, NShares: 3, T: 2}},
		KSets:     []g.KSetRow{{Kci: 1, Keypers: []int{0, 1, 2}, Threshold: 2}},
		Collators: []g.CollRow{{Act: 0, Addr: 4}, {Act: 100, Addr: 5}},
		AnKeys:    []g.AnKey{{Eon: 1, Set: 0}},
		AnKSets:   []g.AnKSet{{Eon: 1, Keypers: []int{0, 1, 2}, Threshold: 2}},
	}
}

func states() []*g.State {
	var out []*g.State
	add := func(name string, f func(s *g.State)) {
		s := baseState()
		s.Name = name
		f(s)
		out = append(out, s)
	}
	add("base", func(s *g.State) {})
	add("empty", func(s *g.State) {
		s.Configs, s.Eons, s.Dkg, s.KSets, s.Collators, s.AnKeys, s.AnKSets = nil, nil, nil, nil, nil, nil, nil
	})
	add("failed-dkg", func(s *g.State) { s.Dkg = []g.DkgRow{{Eon: 5, Kind: "failed"}} })
	add("garbled-dkg", func(s *g.State) { s.Dkg = []g.DkgRow{{Eon: 5, Kind: "garbled"}} })
	add("two-public-key-shares", func(s *g.State) { s.Dkg = []g.DkgRow{{Eon: 5, Kind: "ok", Set: 0, NShares: 2, T: 2}} })
	add("keyper-set-of-two-bad-address", func(s *g.State) {
		s.KSets = []g.KSetRow{{Kci: 1, Keypers: []int{0, -1}, Threshold: 2}}
		s.AnKSets = []g.AnKSet{{Eon: 1, Keypers: []int{0, -1}, Threshold: 2}}
		s.Collators = []g.CollRow{{Act: 0, Addr: -1}}
	})
	add("threshold-zero", func(s *g.State) {
		s.KSets = []g.KSetRow{{Kci: 1, Keypers: []int{0, 1, 2}, Threshold: 0}}
		s.AnKSets = []g.AnKSet{{Eon: 1, Keypers: []int{0, 1, 2}, Threshold: 0}}
	})
	add("shares-and-key-stored", func(s *g.State) {
		s.Shares = []g.ShareRow{{Eon: 1, Ident: idA, Kidx: 0, Val: share(0, 0, idA)}, {Eon: 1, Ident: idA, Kidx: 2, Val: share(0, 2, idA)},
			{Eon: 1, Ident: wide(idA), Kidx: 0, Val: share(0, 0, wide(idA))}, {Eon: 1, Ident: idB, Kidx: 2, Val: g.Val{Kind: "junk", Ident: idB, Tag: 1}}}
		s.Keys = []g.KeyRow{{Eon: 1, Ident: idB, Val: key(0, idB)}}
	})
	add("max-keys-huge", func(s *g.State) { s.MaxKeys = 5000 })
	// partial states: a handler looks two things up and only one of them is there (the normal
	// window while a new keyper set's key generation runs, or while one of two syncers lags)
	add("access:keyper-set-only", func(s *g.State) { s.AnKeys = nil })
	add("access:eon-key-only", func(s *g.State) { s.AnKSets = nil; s.AnKeysFirst = true })
	add("access:neither", func(s *g.State) { s.AnKeys, s.AnKSets = nil, nil })
	add("access:both-for-1,keyper-set-only-for-2,eon-key-only-for-3", func(s *g.State) {
		s.AnKSets = append(s.AnKSets, g.AnKSet{Eon: 2, Keypers: []int{0, 1, 2}, Threshold: 2})
		s.AnKeys = append(s.AnKeys, g.AnKey{Eon: 3, Set: 0})
		s.KSets = append(s.KSets, g.KSetRow{Kci: 2, Keypers: []int{0, 1, 2}, Threshold: 2})
		s.Configs = append(s.Configs, g.ConfigRow{Kci: 3, Keypers: []int{0, 1, 2}})
		s.Eons = append(s.Eons, g.EonRow{Eon: 7, Kci: 3})
		s.Dkg = append(s.Dkg, g.DkgRow{Eon: 7, Kind: "ok", Set: 0, NShares: 3, T: 2})
	})
	add("access:keys-before-sets,eon-key-only-for-2,keyper-set-only-for-3", func(s *g.State) {
		s.AnKeysFirst = true
		s.AnKeys = append(s.AnKeys, g.AnKey{Eon: 2, Set: 1})
		s.AnKSets = append(s.AnKSets, g.AnKSet{Eon: 3, Keypers: []int{0, 1}, Threshold: 1})
	})
	add("keyper-set-without-dkg-result", func(s *g.State) { s.Dkg = nil })
	add("dkg-result-without-keyper-set", func(s *g.State) { s.KSets = nil })
	add("dkg-result-without-batch-config", func(s *g.State) { s.Configs = nil })
	add("eon-row-only", func(s *g.State) { s.Configs, s.Dkg, s.KSets = nil, nil, nil })
	add("batch-config-only", func(s *g.State) { s.Eons, s.Dkg, s.KSets, s.Collators = nil, nil, nil, nil })
	add("keyper-set-for-2-core-tables-for-1", func(s *g.State) { s.KSets = []g.KSetRow{{Kci: 2, Keypers: []int{0, 1, 2}, Threshold: 2}} })
	add("core-tables-for-2-keyper-set-for-1", func(s *g.State) {
		s.Configs = []g.ConfigRow{{Kci: 2, Keypers: []int{0, 1, 2}}}
		s.Eons = []g.EonRow{{Eon: 5, Kci: 2}}
	})
	return out
}

func share(set, keyper int, id string) g.Val { return g.Val{Kind: "share", Set: set, Keyper: keyper, Ident: id} }
func key(set int, id string) g.Val           { return g.Val{Kind: "key", Set: set, Ident: id} }

// ---------------------------------------------------------------------------------------------
// valid messages of every type and extra

func idsFor(fl string) (string, string, string, string) {
	if fl == "gnosis" || fl == "access" {
		return wide(idA), wide(idB), wide(idC), wide(idD)
	}
	return idA, idB, idC, idD
}

func extraKind(fl string) string {
	switch fl {
	case "gnosis", "access":
		return "gnosis"
	case "service":
		return "service"
	}
	return "none"
}

func validShares(fl string) *g.Msg {
	a, b, _, _ := idsFor(fl)
	m := &g.Msg{Type: "shares", Inst: inst, Eon: 1, Kidx: 1,
		Items: []g.Item{{Ident: a, Val: share(0, 1, a)}, {Ident: b, Val: share(0, 1, b)}}}
	m.Extra = g.Extra{Kind: extraKind(fl)}
	if m.Extra.Kind != "none" {
		m.Extra.Sig = &g.Sig{Kind: "by", Key: 1}
	}
	if m.Extra.Kind == "gnosis" {
		m.Extra.Slot, m.Extra.Txp = 10, 4
	}
	return m
}

func validKeys(fl string) *g.Msg {
	a, b, _, _ := idsFor(fl)
	m := &g.Msg{Type: "keys", Inst: inst, Eon: 1,
		Items: []g.Item{{Ident: a, Val: key(0, a)}, {Ident: b, Val: key(0, b)}}}
	m.Extra = g.Extra{Kind: extraKind(fl)}
	if m.Extra.Kind != "none" {
		m.Extra.Signers = []uint64{0, 2}
		m.Extra.Sigs = []g.Sig{{Kind: "by", Key: 0}, {Kind: "by", Key: 2}}
	}
	if m.Extra.Kind == "gnosis" {
		m.Extra.Slot, m.Extra.Txp = 10, 4
	}
	return m
}

func validEonPK() *g.Msg { return &g.Msg{Type: "eonpk", Inst: inst, Eon: 1, Block: 7} }

func validTrigger() *g.Msg {
	return &g.Msg{Type: "trigger", Inst: inst, Block: 50, Ident: idA, TSig: "by", TKey: 4}
}

func bidDigest() []byte { return crypto.Keccak256([]byte("verif bid")) }

func validCommit(mat *g.Material) *g.Msg {
	sig, err := crypto.Sign(bidDigest(), mat.Keys[6])
	if err != nil {
		panic(err)
	}
	return &g.Msg{Type: "commit", Inst: inst, Commit: &g.Commit{
		TxHashes: []string{"0x" + idA, "0x" + idB}, Identities: []string{"aa01", "bb02"}, Block: 3,
		BidDigest: "0x" + hex.EncodeToString(bidDigest()), BidSig: "0x" + hex.EncodeToString(sig), Provider: "0x01"}}
}

func topicOf(m *g.Msg) string {
	switch m.Type {
	case "shares":
		return "decryptionKeyShares"
	case "keys":
		return "decryptionKeys"
	case "eonpk":
		return "EonPublicKey"
	case "trigger":
		return "decryptionTrigger"
	}
	return "primevCommitment"
}

// the valid messages a flavour's topics carry
func validFor(mat *g.Material, fl string) []*g.Msg {
	switch fl {
	case "access":
		return []*g.Msg{validKeys(fl)}
	case "primev":
		return []*g.Msg{validShares(fl), validKeys(fl), validEonPK(), validCommit(mat)}
	case "snapshot":
		return []*g.Msg{validShares(fl), validKeys(fl), validEonPK(), validTrigger()}
	}
	return []*g.Msg{validShares(fl), validKeys(fl), validEonPK()}
}

type mutation struct {
	name string
	f    func(m *g.Msg)
}

func sigKinds() []g.Sig {
	return []g.Sig{{Kind: "by", Key: 0}, {Kind: "by", Key: 1}, {Kind: "by", Key: 2}, {Kind: "by", Key: 5}, {Kind: "stray"}, {Kind: "short64"},
		{Kind: "long66"}, {Kind: "badv"}, {Kind: "empty"}, {Kind: "raw", Raw: "00"}}
}

// structure-aware mutations; each is guarded so that any combination is well-defined
func mutations(mat *g.Material, fl string) []mutation {
	var ms []mutation
	add := func(name string, f func(m *g.Msg)) { ms = append(ms, mutation{name, f}) }
	_, _, idc, idd := idsFor(fl)
	good := func(m *g.Msg, id string) g.Val {
		if m.Type == "shares" {
			return share(0, int(m.Kidx%3), id)
		}
		return key(0, id)
	}
	add("none", func(m *g.Msg) {})
	add("instance", func(m *g.Msg) { m.Inst = 8 })
	for _, e := range []uint64{0, 2, 3, math.MaxInt64, 1 << 63, math.MaxUint64, 1<<32 + 1} {
		e := e
		add(fmt.Sprintf("eon=%d", e), func(m *g.Msg) { m.Eon = e })
	}
	for _, e := range []uint64{2, 3} {
		e := e
		add(fmt.Sprintf("eon=%d-resigned", e), func(m *g.Msg) { m.Eon = e })
	}
	for _, k := range []uint64{0, 2, 3, 1 << 31, 1 << 63, math.MaxUint64} {
		k := k
		add(fmt.Sprintf("kidx=%d", k), func(m *g.Msg) { m.Kidx = k })
	}
	add("count=0", func(m *g.Msg) { m.Items = nil })
	add("count=max+1", func(m *g.Msg) {
		if m.Type == "shares" || m.Type == "keys" {
			m.Items = append(m.Items, g.Item{Ident: idc, Val: good(m, idc)}, g.Item{Ident: idd, Val: good(m, idd)})
		}
	})
	add("count=1030", func(m *g.Msg) {
		if m.Type == "shares" || m.Type == "keys" {
			it := g.Item{Ident: "c3", Val: g.Val{Kind: "empty"}}
			for len(m.Items) < 1030 {
				m.Items = append(m.Items, it)
			}
		}
	})
	for _, v := range []g.Val{{Kind: "junk", Ident: idA, Tag: 1}, {Kind: "empty"}, {Kind: "short"}, {Kind: "notg1"}, {Kind: "raw", Raw: strings.Repeat("ff", 48)},
		{Kind: "raw", Raw: "c0" + strings.Repeat("00", 47)}, {Kind: "raw", Raw: strings.Repeat("00", 96)}} {
		v := v
		add("value[0]="+v.Kind+v.Raw, func(m *g.Msg) {
			if len(m.Items) > 0 {
				m.Items[0].Val = v
			}
		})
	}
	add("identity[0]=empty", func(m *g.Msg) {
		if len(m.Items) > 0 {
			m.Items[0].Ident = ""
		}
	})
	add("identity[1]=narrow", func(m *g.Msg) {
		if len(m.Items) > 1 {
			m.Items[1].Ident = "0102"
		}
	})
	add("identity[0]=long", func(m *g.Msg) {
		if len(m.Items) > 0 {
			m.Items[0].Ident = strings.Repeat("ab", 300)
		}
	})
	// identity fields of every length class the log / abbreviation code distinguishes; the share
	// / key is the genuine one for that identity and signatures are made afterwards, so that
	// validation accepts and the dispatch code behind it (LogInfo, handlers) is reached
	for _, k := range []int{0, 1, 2, 3, 31, 32, 33} {
		k := k
		idk := strings.Repeat("01", k)
		add(fmt.Sprintf("identity[0]=%d-bytes-resigned", k), func(m *g.Msg) {
			switch m.Type {
			case "shares", "keys":
				if len(m.Items) > 0 {
					m.Items[0] = g.Item{Ident: idk, Val: good(m, idk)}
				}
			case "trigger":
				m.Ident = idk
			case "eonpk":
				m.Ident = "pk:" + idk
			}
		})
		add(fmt.Sprintf("only-identity=%d-bytes-resigned", k), func(m *g.Msg) {
			if (m.Type == "shares" || m.Type == "keys") && len(m.Items) > 0 {
				m.Items = []g.Item{{Ident: idk, Val: good(m, idk)}}
			}
		})
	}
	add("identity-repeated-resigned", func(m *g.Msg) {
		// the same identity preimage twice (non-decreasing, not strictly increasing), signatures made afterwards
		if len(m.Items) > 1 {
			m.Items[1] = m.Items[0]
		}
	})
	add("order-swapped", func(m *g.Msg) {
		if len(m.Items) > 1 {
			m.Items[0], m.Items[1] = m.Items[1], m.Items[0]
		}
	})
	for _, k := range []string{"none", "gnosis", "service", "optimism"} {
		k := k
		add("extra="+k, func(m *g.Msg) {
			m.Extra.Kind = k
			if m.Type == "shares" && m.Extra.Sig == nil {
				m.Extra.Sig = &g.Sig{Kind: "by", Key: 1}
			}
		})
	}
	for _, v := range []uint64{0, math.MaxInt32, 1 << 31, math.MaxInt64, 1 << 63, math.MaxUint64} {
		v := v
		add(fmt.Sprintf("slot=%d", v), func(m *g.Msg) { m.Extra.Slot = v })
		add(fmt.Sprintf("txp=%d", v), func(m *g.Msg) { m.Extra.Txp = v })
	}
	for _, sg := range sigKinds() {
		sg := sg
		add("share-signature="+sg.Kind, func(m *g.Msg) {
			if m.Type == "shares" {
				s := sg
				m.Extra.Sig = &s
			}
		})
	}
	// the two parallel lists of a keys message, independently 0..n+1 long
	for ns := 0; ns <= 4; ns++ {
		for nsig := 0; nsig <= 4; nsig++ {
			ns, nsig := ns, nsig
			add(fmt.Sprintf("signers=%d,signatures=%d", ns, nsig), func(m *g.Msg) {
				if m.Type != "keys" {
					return
				}
				m.Extra.Signers, m.Extra.Sigs = nil, nil
				for i := 0; i < ns; i++ {
					m.Extra.Signers = append(m.Extra.Signers, uint64(i))
				}
				for i := 0; i < nsig; i++ {
					m.Extra.Sigs = append(m.Extra.Sigs, g.Sig{Kind: "by", Key: i % 3})
				}
			})
		}
	}
	for _, sl := range [][]uint64{{0, 0}, {2, 0}, {0, 3}, {0, math.MaxUint64}, {1 << 63, 1<<63 + 1}, {1, 2}} {
		sl := sl
		add(fmt.Sprintf("signers=%v", sl), func(m *g.Msg) {
			if m.Type == "keys" {
				m.Extra.Signers = sl
			}
		})
	}
	for _, sg := range sigKinds() {
		sg := sg
		add("signature[0]="+sg.Kind, func(m *g.Msg) {
			if m.Type == "keys" && len(m.Extra.Sigs) > 0 {
				m.Extra.Sigs[0] = sg
			}
		})
	}
	// trigger
	for _, b := range []uint64{0, 99, 100, math.MaxInt64, 1 << 63} {
		b := b
		add(fmt.Sprintf("block=%d", b), func(m *g.Msg) { m.Block = b })
	}
	for _, s := range []string{"by", "otherhash", "short", "stray", ""} {
		s := s
		add("trigger-signature="+s, func(m *g.Msg) { m.TSig = s })
	}
	add("trigger-signer=5", func(m *g.Msg) { m.TKey = 5 })
	// Primev
	for _, s := range []string{"", "0x", "0", "0x1", "zz", "0x" + strings.Repeat("00", 64), "0x" + strings.Repeat("11", 65), "0x" + strings.Repeat("11", 64) + "1b",
		"0x" + strings.Repeat("11", 66), strings.Repeat("ab", 2000)} {
		s := s
		add(fmt.Sprintf("bid-signature=%.12s(%d)", s, len(s)), func(m *g.Msg) {
			if m.Commit != nil {
				m.Commit.BidSig = s
			}
		})
		add(fmt.Sprintf("bid-digest=%.12s(%d)", s, len(s)), func(m *g.Msg) {
			if m.Commit != nil {
				m.Commit.BidDigest = s
			}
		})
	}
	add("bid-signature-v=27", func(m *g.Msg) {
		if m.Commit != nil && len(m.Commit.BidSig) == 132 {
			b, _ := hex.DecodeString(m.Commit.BidSig[2:])
			b[64] += 27
			m.Commit.BidSig = "0x" + hex.EncodeToString(b)
		}
	})
	for _, ids := range [][]string{{}, {"zz"}, {"", ""}, {"aa01"}, {"0xaa01", "bb02"}, {"a", "b"}} {
		ids := ids
		add(fmt.Sprintf("commit-identities=%v", ids), func(m *g.Msg) {
			if m.Commit != nil {
				m.Commit.Identities = ids
			}
		})
	}
	add("commit-txhashes=1", func(m *g.Msg) {
		if m.Commit != nil {
			m.Commit.TxHashes = m.Commit.TxHashes[:1]
		}
	})
	for _, b := range []int64{-1, 0, math.MinInt64, math.MaxInt64} {
		b := b
		add(fmt.Sprintf("commit-block=%d", b), func(m *g.Msg) {
			if m.Commit != nil {
				m.Commit.Block = b
			}
		})
	}
	return ms
}

// ---------------------------------------------------------------------------------------------

type runner struct {
	run *vh.Run
	w   *g.World
	mat *g.Material
}

func encodeMsg(mat *g.Material, m *g.Msg) []byte {
	b, err := p2pmsg.Marshal(m.Build(mat), nil)
	if err != nil {
		panic(err)
	}
	return b
}

func panicKey(fl, where, msg string) string {
	switch {
	case strings.Contains(msg, "index out of range") && where == "validate" && (fl == "core" || fl == "primev" || fl == "snapshot" || fl == "gnosis" || fl == "service"):
		if strings.Contains(msg, "[64]") {
			return "C05:primev-handler-short-bid-signature"
		}
		return "C05:keyshare-validator-keyper-index-out-of-range"
	case strings.Contains(msg, "index out of range [64]"):
		return "C05:primev-handler-short-bid-signature"
	}
	if where == "dispatch" {
		return "C05:" + fl + ":dispatch-around-handlers-panics"
	}
	return "C05:" + fl + ":" + where + "-panics"
}

func (r *runner) violate(c *caseJ, key, what string, observed any) {
	r.run.Violate(vh.Violation{Key: key, What: what, Case: c, Observed: observed})
}

func (r *runner) checkExec(c *caseJ, where string, ex g.Exec, size int) {
	if ex.Timeout {
		r.violate(c, "C05:"+c.Flavour+":"+where+"-hangs", where+" did not return within the watchdog time", ex)
	}
	if ex.Panic != "" {
		r.violate(c, panicKey(c.Flavour, where, ex.Panic), where+" panicked: "+ex.Panic, ex)
	}
	if ex.Alloc > uint64(64*size)+2<<20 {
		r.violate(c, "C05:"+c.Flavour+":"+where+"-allocation-not-bounded-by-message-size",
			fmt.Sprintf("%d bytes allocated for a message of %d bytes", ex.Alloc, size), ex)
	}
}

func (r *runner) runBytes(c *caseJ) {
	run, w, mat := r.run, r.w, r.mat
	data, err := hex.DecodeString(c.Data)
	if err != nil {
		panic(err)
	}
	if c.Trace {
		trace.SetEnabled()
		defer trace.SetDisabled()
	}
	w.Install(c.State)
	n := w.Node(c.Flavour, c.State)
	res, ex := n.Combined(c.RegTopic, c.MsgTopic, data)
	r.checkExec(c, "validate", ex, len(data))
	wire, decoded := mat.DecodeWire(data)
	if decoded != nil {
		r.runMethods(c, decoded, len(data))
	}
	stCoq := c.State.Coq(mat)
	id := run.NextID()
	run.Dist[c.Flavour+":"+c.RegTopic+":"+res]++
	run.AddCase(id, vh.CApp("CCombined", vh.CN(id), g.CoqNode(c.Flavour), stCoq, g.CoqTopic(c.RegTopic), g.CoqTopic(c.MsgTopic), wire, g.CoqVres(res)),
		c, c.key(), res == "accept" || strings.HasPrefix(wire, "(WEnv") && !strings.HasSuffix(wire, "PNone)"))
	if res != "accept" {
		return
	}
	if n.M.VerifNumValidators(c.RegTopic) == 0 {
		// a topic this node flavour does not subscribe to: the empty validator list accepts, but
		// libp2p never delivers such a message, so there is nothing to handle
		run.Dist[c.Flavour+":topic-not-subscribed"]++
		return
	}
	// accepted: handle, possibly against a database that moved in between
	st2 := c.State
	if c.State2 != nil {
		st2 = c.State2
		w.Install(st2)
		n = w.Node(c.Flavour, st2)
	}
	pm, _, err := p2p.UnmarshalPubsubMessage(g.PubsubMessage(c.MsgTopic, data))
	if err != nil {
		run.Tie("accepted message does not unmarshal: " + err.Error())
		return
	}
	term, ok := mat.Lift(pm)
	if !ok {
		run.Tie("accepted message of a type the model does not know")
		return
	}
	rec := &g.OrderRecorder{RNG: vh.NewRNG(uint64(id)*31 + 5)}
	w.Srv.SetRowOrder(rec.Order)
	h := n.Handle(pm)
	w.Srv.SetRowOrder(nil)
	r.checkExec(c, "handle", h.Exec, len(data))
	perms := "[]"
	if ks, ok := pm.(*p2pmsg.DecryptionKeyShares); ok {
		var ids []string
		for _, s := range ks.Shares {
			ids = append(ids, hex.EncodeToString(s.IdentityPreimage))
		}
		perms = w.PermsFor(ks.Eon, ids, rec)
	}
	id2 := run.NextID()
	run.Dist[c.Flavour+":handle:"+map[bool]string{true: "crash", false: "done"}[h.Exec.Crashed()]]++
	run.AddCase(id2, vh.CApp("CHandle", vh.CN(id2), g.CoqNode(c.Flavour), st2.Coq(mat), perms, term, g.CoqHres(h.Exec)), c, c.key()+"/handle", true)
	// what the generic dispatch does around the handlers: the unexported P2PMessaging.handle on
	// the bytes (unmarshal, Handle, SendMessage of the results, the "received message" log with
	// LogInfo), on a fresh copy of the database: panics only
	w.Install(st2)
	_, exr := n.HandleRaw(c.MsgTopic, data)
	r.checkExec(c, "dispatch", exr, len(data))
}

// runMethods: the methods of the p2pmsg message types that validators, the dispatch loop and
// the senders call on a decoded message (Validate, Topic, LogInfo, String, GetInstanceId).
// They run for every message that decodes: nodes whose validators accept everything (p2pnode
// listener, snapshot hub) reach the "received message" log of P2PMessaging.handle with any
// decodable message, and every flavour reaches it with the messages it accepts.
func (r *runner) runMethods(c *caseJ, pm p2pmsg.Message, size int) {
	for _, f := range []struct {
		name string
		call func()
	}{
		{"Validate", func() { _ = pm.Validate() }},
		{"Topic", func() { _ = pm.Topic() }},
		{"LogInfo", func() { _ = pm.LogInfo() }},
		{"String", func() { _ = pm.String() }},
		{"GetInstanceId", func() { _ = pm.GetInstanceId() }},
	} {
		ex := r.w.GuardCall(f.call)
		if ex.Crashed() || ex.Alloc > uint64(64*size)+2<<20 {
			what := fmt.Sprintf("%T.%s", pm, f.name)
			key := "C05:message-method-panics:" + strings.TrimPrefix(what, "*p2pmsg.")
			if ex.Timeout {
				key = "C05:message-method-hangs:" + strings.TrimPrefix(what, "*p2pmsg.")
			} else if !ex.Crashed() {
				key = "C05:message-method-allocation:" + strings.TrimPrefix(what, "*p2pmsg.")
			}
			r.violate(c, key, what+" on a decoded message: "+ex.Panic, ex)
		}
	}
}

// runDirect: ValidateMessage of every handler object of the node that takes this message type,
// on an in-memory message (oneof wrappers with nil inner messages are possible here only).
func (r *runner) runDirect(c *caseJ) {
	run, w, mat := r.run, r.w, r.mat
	c.Msg.Fill()
	w.Install(c.State)
	n := w.Node(c.Flavour, c.State)
	pm := c.Msg.Build(mat)
	stCoq := c.State.Coq(mat)
	for _, vs := range n.DirectNames() {
		want := map[string]string{"VsCoreShares": "shares", "VsGnosisShares": "shares", "VsServiceShares": "shares", "VsCoreKeys": "keys",
			"VsGnosisKeys": "keys", "VsServiceKeys": "keys", "VsAccessKeys": "keys", "VsCoreEonPK": "eonpk", "VsTrigger": "trigger", "VsCommit": "commit"}[vs]
		if want != c.Msg.Type {
			continue
		}
		d := n.ValidateDirect(vs, pm)
		r.checkExec(c, "validate", d.Exec, 1024)
		id := run.NextID()
		run.Dist["direct:"+vs+":"+d.Verdict]++
		run.AddCase(id, vh.CApp("CDirect", vh.CN(id), vs, stCoq, c.Msg.Coq(mat), d.Coq(), vh.CNat(d.Exec.Stmts)), c, c.key()+"/"+vs, true)
	}
}

// ---------------------------------------------------------------------------------------------
// generation

func (r *runner) structCases(emit func(*caseJ)) {
	sts := states()
	for _, fl := range g.Flavours {
		muts := mutations(r.mat, fl)
		for _, base := range validFor(r.mat, fl) {
			topic := topicOf(base)
			for _, mu := range muts {
				m := base.Clone()
				if !strings.HasSuffix(mu.name, "-resigned") {
					m.Fill() // signatures are over the unmutated message
				}
				mu.f(m)
				emit(&caseJ{Kind: "bytes", Flavour: fl, State: sts[0], RegTopic: topic, MsgTopic: topic, Data: hex.EncodeToString(encodeMsg(r.mat, m)),
					Raw: true, Origin: "struct:" + fl + ":" + base.Type + ":" + mu.name})
			}
			// the valid message and the index / length mutations against every state; handled in
			// another state than validated
			for i, st := range sts {
				// the access node's storage states only concern the access node; it reads nothing else
				if isAccessState := strings.HasPrefix(st.Name, "access:"); (fl == "access") != (isAccessState || st.Name == "base") && !(fl != "access" && !isAccessState) {
					continue
				}
				for _, name := range []string{"none", "eon=2", "eon=3", "eon=2-resigned", "eon=3-resigned", "kidx=2", "kidx=3", "signers=3,signatures=2", "signers=0,signatures=0", "signers=[1 2]", "block=100"} {
					for _, mu := range muts {
						if mu.name != name {
							continue
						}
						m := base.Clone()
						if !strings.HasSuffix(mu.name, "-resigned") {
							m.Fill()
						}
						mu.f(m)
						emit(&caseJ{Kind: "bytes", Flavour: fl, State: st, State2: sts[(i+3)%len(sts)], RegTopic: topic, MsgTopic: topic,
							Data: hex.EncodeToString(encodeMsg(r.mat, m)), Origin: "struct:" + fl + ":" + base.Type + ":state:" + st.Name + ":" + mu.name})
					}
				}
			}
			// every valid message on every other topic of the flavour's node
			for _, tp := range append(append([]string{}, g.AllTopics...), "noSuchTopic") {
				if tp != topic {
					emit(&caseJ{Kind: "bytes", Flavour: fl, State: sts[0], RegTopic: tp, MsgTopic: tp, Data: hex.EncodeToString(encodeMsg(r.mat, base)),
						Origin: "struct:" + fl + ":" + base.Type + ":on-topic:" + tp})
					emit(&caseJ{Kind: "bytes", Flavour: fl, State: sts[0], RegTopic: topic, MsgTopic: tp, Data: hex.EncodeToString(encodeMsg(r.mat, base)),
						Origin: "struct:" + fl + ":" + base.Type + ":topic-field:" + tp})
				}
			}
		}
	}
	// envelopes that are not messages
	var odd [][]byte
	odd = append(odd, []byte{}, []byte{0}, []byte{0x0a}, []byte{0xff, 0xff, 0xff, 0xff, 0x0f})
	b, _ := proto.Marshal(&p2pmsg.Envelope{Version: p2pmsg.EnvelopeVersion})
	odd = append(odd, b)
	b, _ = proto.Marshal(&p2pmsg.Envelope{Version: p2pmsg.EnvelopeVersion, Message: &anypb.Any{TypeUrl: "type.googleapis.com/p2pmsg.DecryptionKeys", Value: []byte{0x1a, 0xff, 0xff, 0xff, 0xff, 0x07}}})
	odd = append(odd, b)
	b, _ = proto.Marshal(&p2pmsg.Envelope{Version: p2pmsg.EnvelopeVersion, Message: &anypb.Any{TypeUrl: "type.googleapis.com/p2pmsg.Envelope", Value: b}})
	odd = append(odd, b)
	a, _ := anypb.New(&p2pmsg.KeyShare{IdentityPreimage: []byte{1}})
	b, _ = proto.Marshal(&p2pmsg.Envelope{Version: p2pmsg.EnvelopeVersion, Message: a})
	odd = append(odd, b)
	a, _ = anypb.New(validKeys("core").Build(r.mat))
	b, _ = proto.Marshal(&p2pmsg.Envelope{Version: "0.0.2", Message: a})
	odd = append(odd, b)
	tc := &p2pmsg.TraceContext{TraceId: []byte{1, 2, 3}, SpanId: []byte{4}, TraceFlags: []byte{}, TraceState: "\xff=,"}
	b, _ = proto.Marshal(&p2pmsg.Envelope{Version: p2pmsg.EnvelopeVersion, Message: a, Trace: tc})
	odd = append(odd, b)
	tc2 := &p2pmsg.TraceContext{TraceId: make([]byte, 16), SpanId: make([]byte, 8), TraceFlags: []byte{1}, TraceState: "a=b"}
	b, _ = proto.Marshal(&p2pmsg.Envelope{Version: p2pmsg.EnvelopeVersion, Message: a, Trace: tc2})
	odd = append(odd, b)
	for _, fl := range g.Flavours {
		for _, tp := range g.AllTopics {
			for i, d := range odd {
				emit(&caseJ{Kind: "bytes", Flavour: fl, State: sts[0], RegTopic: tp, MsgTopic: tp, Data: hex.EncodeToString(d), Raw: true, Trace: i >= len(odd)-2,
					Origin: fmt.Sprintf("struct:%s:odd-envelope-%d", fl, i)})
			}
		}
	}
	// tracing switched on (trace.SetEnabled, what trace.Run does for the node; no exporter, the
	// global no-op tracer provider): p2pmsg.Unmarshal then keeps the envelope's trace field and
	// P2PMessaging.handle -> newSpanForReceive -> ExtractTraceContext reads it for every accepted
	// message. Accepted messages of every flavour with the trace field over all length classes.
	states := []string{"", "a=b", "vendor1=opaque,vendor2=x", "\u00e9=,;", "=", "a=b=c,,", "A B", strings.Repeat("k=v,", 200), strings.Repeat("x", 5000)}
	for _, fl := range g.Flavours {
		for _, base := range validFor(r.mat, fl) {
			if base.Type != "keys" && base.Type != "trigger" && base.Type != "commit" {
				continue
			}
			topic := topicOf(base)
			m := base.Clone()
			m.Fill()
			pm := m.Build(r.mat)
			withTrace := func(tc *p2pmsg.TraceContext, origin string) {
				b, err := p2pmsg.Marshal(pm, tc)
				if err != nil {
					panic(err)
				}
				emit(&caseJ{Kind: "bytes", Flavour: fl, State: sts[0], RegTopic: topic, MsgTopic: topic, Data: hex.EncodeToString(b), Trace: true,
					Origin: "trace:" + fl + ":" + base.Type + ":" + origin})
			}
			withTrace(nil, "absent")
			for _, lt := range []int{0, 1, 8, 15, 16, 17, 32} {
				for _, ls := range []int{0, 1, 7, 8, 9, 16} {
					for _, lf := range []int{0, 1, 2} {
						if base.Type != "keys" && !(lt == 16 || ls == 8) {
							continue // the full product on the keys message, the neighbourhood of the valid lengths elsewhere
						}
						tc := &p2pmsg.TraceContext{TraceId: bytesOf(lt, 0x11), SpanId: bytesOf(ls, 0x22), TraceFlags: bytesOf(lf, 0x01), TraceState: "a=b"}
						withTrace(tc, fmt.Sprintf("id=%d,span=%d,flags=%d", lt, ls, lf))
					}
				}
			}
			for i, ts := range states {
				for _, lf := range []int{0, 1} {
					tc := &p2pmsg.TraceContext{TraceId: bytesOf(16, 0x11), SpanId: bytesOf(8, 0x22), TraceFlags: bytesOf(lf, 0x01), TraceState: ts}
					withTrace(tc, fmt.Sprintf("state-%d,flags=%d", i, lf))
				}
			}
			withTrace(&p2pmsg.TraceContext{TraceId: make([]byte, 16), SpanId: make([]byte, 8), TraceFlags: []byte{0}}, "all-zero")
			withTrace(&p2pmsg.TraceContext{}, "empty")
		}
	}
	// in-memory only: nil inner messages
	for _, fl := range g.Flavours {
		for _, base := range validFor(r.mat, fl) {
			if base.Type != "shares" && base.Type != "keys" {
				continue
			}
			for _, k := range []string{"gnosisnil", "servicenil", "optimismnil", "none", "gnosis", "service"} {
				m := base.Clone()
				m.Fill()
				m.Extra.Kind = k
				emit(&caseJ{Kind: "direct", Flavour: fl, State: sts[0], Msg: m, Origin: "direct:" + fl + ":" + base.Type + ":extra=" + k})
			}
		}
	}
}

func bytesOf(n int, v byte) []byte {
	b := make([]byte, n)
	for i := range b {
		b[i] = v + byte(i)
	}
	return b
}

// corrupt applies one byte-level mutation.
func corrupt(rng *vh.RNG, data []byte, other []byte) []byte {
	d := append([]byte(nil), data...)
	switch rng.Intn(8) {
	case 0, 1: // bit flips
		for i, n := 0, 1+rng.Intn(3); i < n && len(d) > 0; i++ {
			d[rng.Intn(len(d))] ^= 1 << uint(rng.Intn(8))
		}
	case 2: // truncate
		if len(d) > 0 {
			d = d[:rng.Intn(len(d))]
		}
	case 3: // splice
		if len(d) > 0 && len(other) > 0 {
			d = append(d[:rng.Intn(len(d))], other[rng.Intn(len(other)):]...)
		}
	case 4: // overwrite a byte with an extreme value
		if len(d) > 0 {
			d[rng.Intn(len(d))] = vh.Pick(rng, byte(0), byte(0x7f), byte(0x80), byte(0xff))
		}
	case 5: // duplicate a chunk
		if len(d) > 2 {
			i := rng.Intn(len(d) - 1)
			j := i + 1 + rng.Intn(min(32, len(d)-i-1))
			d = append(d[:j], append(append([]byte(nil), d[i:j]...), d[j:]...)...)
		}
	case 6: // insert random bytes
		i := rng.Intn(len(d) + 1)
		d = append(d[:i], append(rng.Bytes(1+rng.Intn(8)), d[i:]...)...)
	case 7: // random bytes
		d = rng.Bytes(rng.Intn(96))
	}
	return d
}

// light: the mutations used in the random streams (without the 1030-item message)
func light(ms []mutation) []mutation {
	var out []mutation
	for _, m := range ms {
		if m.name != "count=1030" {
			out = append(out, m)
		}
	}
	return out
}

func (r *runner) rawCase(rng *vh.RNG, emit func(*caseJ)) {
	sts := states()
	fl := g.Flavours[rng.Intn(len(g.Flavours))]
	valid := validFor(r.mat, fl)
	muts := light(mutations(r.mat, fl))
	traced := rng.Chance(1, 3)
	pick := func() (*g.Msg, []byte) {
		m := valid[rng.Intn(len(valid))].Clone()
		m.Fill()
		if rng.Chance(1, 3) {
			muts[rng.Intn(len(muts))].f(m)
		}
		if traced {
			tc := &p2pmsg.TraceContext{TraceId: bytesOf(vh.Pick(rng, 0, 15, 16, 16, 16, 17), 3), SpanId: bytesOf(vh.Pick(rng, 0, 7, 8, 8, 8, 9), 5),
				TraceFlags: bytesOf(vh.Pick(rng, 0, 1, 1, 2), 1), TraceState: vh.Pick(rng, "", "a=b", "\u00e9", "k=v,k=v")}
			b, err := p2pmsg.Marshal(m.Build(r.mat), tc)
			if err != nil {
				panic(err)
			}
			return m, b
		}
		return m, encodeMsg(r.mat, m)
	}
	m, data := pick()
	_, other := pick()
	for i, n := 0, 1+rng.Intn(2); i < n; i++ {
		data = corrupt(rng, data, other)
	}
	topic := topicOf(m)
	if rng.Chance(1, 6) {
		topic = g.AllTopics[rng.Intn(len(g.AllTopics))]
	}
	st := sts[0]
	if rng.Chance(1, 3) {
		st = sts[rng.Intn(len(sts))]
	}
	c := &caseJ{Kind: "bytes", Flavour: fl, State: st, RegTopic: topic, MsgTopic: topic, Data: hex.EncodeToString(data), Raw: rng.Chance(1, 2),
		Trace: traced || rng.Chance(1, 8), Origin: "raw:" + fl}
	if rng.Chance(1, 4) {
		c.State2 = sts[rng.Intn(len(sts))]
	}
	emit(c)
}

func (r *runner) structPairCase(rng *vh.RNG, emit func(*caseJ)) {
	sts := states()
	fl := g.Flavours[rng.Intn(len(g.Flavours))]
	valid := validFor(r.mat, fl)
	muts := light(mutations(r.mat, fl))
	m := valid[rng.Intn(len(valid))].Clone()
	m.Fill()
	var names []string
	for i, n := 0, 2+rng.Intn(2); i < n; i++ {
		mu := muts[rng.Intn(len(muts))]
		mu.f(m)
		names = append(names, mu.name)
	}
	if rng.Chance(1, 2) {
		// re-sign after the mutations: the flavour's signature validators pass more often
		if m.Extra.Sig != nil && m.Extra.Sig.Kind == "by" {
			m.Extra.Sig.T = nil
		}
		for i := range m.Extra.Sigs {
			if m.Extra.Sigs[i].Kind == "by" {
				m.Extra.Sigs[i].T = nil
			}
		}
		m.Fill()
	}
	topic := topicOf(m)
	st := sts[rng.Intn(len(sts))]
	c := &caseJ{Kind: "bytes", Flavour: fl, State: st, RegTopic: topic, MsgTopic: topic, Data: hex.EncodeToString(encodeMsg(r.mat, m)),
		Raw: rng.Chance(1, 3), Origin: "struct-random:" + fl + ":" + strings.Join(names, "+")}
	if rng.Chance(1, 3) {
		c.State2 = sts[rng.Intn(len(sts))]
	}
	emit(c)
}

func main() {
	run := vh.Start("Verif.Corr.C05", 250)
	defer run.Finish()
	run.SetPreamble("From Verif Require Import Model.EpochKG Model.EpochKGLabels Model.EpochKGHandler.\nOpen Scope N_scope.")
	run.Rule = "byte strings on the topics of six node flavours: forced = every valid message type / Extra of the flavour with every structure-aware mutation (list lengths of the parallel signer / signature lists 0..4 independently, indices out of range, short signatures, empty / odd / non-hex Primev strings, wrong oneof, counts 0 / max+1 / 1030) against the base state, the index / length mutations against 9 states with the database replaced between validation and handling, every message on every other topic, odd envelopes; then random pairs/triples of mutations and a raw stream (bit flips, truncations, splices, duplicated chunks, random bytes); non-trivial = the bytes decode to a message (the validators proper are reached) or were accepted; distinct by canonical case rendering"
	mat := g.NewMaterial(1, 3, 2)
	w := g.NewWorld(run, mat)
	defer w.Close()
	r := &runner{run: run, w: w, mat: mat}
	exec := func(c *caseJ) {
		switch c.Kind {
		case "bytes":
			r.runBytes(c)
		case "direct":
			r.runDirect(c)
		default:
			panic("kind " + c.Kind)
		}
	}
	if run.Replay != "" {
		var c caseJ
		if err := run.LoadReplay(&c); err != nil {
			panic(err)
		}
		exec(&c)
		return
	}
	for _, f := range run.CorpusFiles() {
		var c caseJ
		run.Replay = f
		if err := run.LoadReplay(&c); err == nil && c.Kind != "" {
			c.Origin = "corpus:" + c.Origin
			exec(&c)
		}
		run.Replay = ""
	}
	r.structCases(exec)
	for i, n := 0, run.Scale(2000, 60000); i < n; i++ {
		r.structPairCase(run.RNG.Fork(), exec)
	}
	for i, n := 0, run.Scale(4500, 150000); i < n; i++ {
		r.rawCase(run.RNG.Fork(), exec)
	}
}
