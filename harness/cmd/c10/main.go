//go:build verif

// Driver for C10 (no transaction can crash shuttermint; refused transactions have no effect).
package main

import (
	"bytes"
	"fmt"
	"os"
	"path/filepath"
	"strings"

	abcitypes "github.com/tendermint/tendermint/abci/types"

	"github.com/shutter-network/rolling-shutter/rolling-shutter/app"

	"github.com/shutter-network/rolling-shutter/rolling-shutter/shmsg"

	"verifharness/appdrv"
	"verifharness/vh"
)

type injected struct {
	History appdrv.History `json:"history"`
	At      int            `json:"at"`   // index in history.calls where the extra call is inserted
	Kind    string         `json:"kind"` // random | notbase64 | truncated | wrongchain | replay | nopayload | outsider
	Tx      []byte         `json:"tx"`
	Hide    []byte         `json:"hide,omitempty"` // outsider address whose own entries may differ
}

var tmpDir string

func withInjection(in injected) appdrv.History {
	h := appdrv.History{Genesis: in.History.Genesis}
	h.Calls = append(h.Calls, in.History.Calls[:in.At]...)
	h.Calls = append(h.Calls, appdrv.Call{Kind: "deliver", Tx: in.Tx, Note: "injected " + in.Kind})
	h.Calls = append(h.Calls, in.History.Calls[in.At:]...)
	return h
}

// prepareOracle: PrepareProposal / ProcessProposal never panic and PrepareProposal returns the
// longest prefix of the offered transactions whose total size stays within MaxTxBytes
// (oracle only: these two ABCI++ methods are not part of the Coq model).
func prepareOracle(run *vh.Run, a *app.ShutterApp, h appdrv.History) {
	var txs [][]byte
	for _, c := range h.Calls {
		if c.Kind == "deliver" {
			txs = append(txs, c.Tx)
		}
	}
	total := int64(0)
	for _, t := range txs {
		total += int64(len(t))
	}
	for _, max := range []int64{-1, 0, 1, total / 2, total - 1, total, total + 1, 1 << 62} {
		var kept [][]byte
		p, msg := vh.Guard(func() {
			kept = a.PrepareProposal(abcitypes.RequestPrepareProposal{Txs: txs, MaxTxBytes: max}).Txs
			a.ProcessProposal(abcitypes.RequestProcessProposal{Txs: kept})
		})
		if p {
			run.Violate(vh.Violation{Key: "C10:panic", What: "PrepareProposal/ProcessProposal panicked: " + msg, Case: injected{History: h, At: -1}})
			return
		}
		want, sum := 0, int64(0)
		for _, t := range txs {
			sum += int64(len(t))
			if sum > max {
				break
			}
			want++
		}
		if len(kept) != want {
			run.Violate(vh.Violation{Key: "C10:prepare-proposal-not-longest-prefix", What: fmt.Sprintf("PrepareProposal kept %d of %d transactions for a limit of %d bytes, the longest fitting prefix has %d", len(kept), len(txs), max, want), Case: injected{History: h, At: -1}})
			return
		}
		for i := range kept {
			if !bytes.Equal(kept[i], txs[i]) {
				run.Violate(vh.Violation{Key: "C10:prepare-proposal-not-longest-prefix", What: "PrepareProposal returned something that is not a prefix of the offered transactions", Case: injected{History: h, At: -1}})
				return
			}
		}
	}
}

func emit(run *vh.Run, h appdrv.History, tag string) ([]appdrv.Resp, string) {
	rs, a, err := appdrv.RunHistory(h)
	if err != nil {
		panic(err)
	}
	prepareOracle(run, a, h)
	id := run.NextID()
	ok0 := 0
	for i, r := range rs {
		if r.Panic != "" {
			run.Violate(vh.Violation{Key: "C10:panic", What: fmt.Sprintf("call %d (%s %s) panicked: %s", i, h.Calls[i].Kind, h.Calls[i].Note, r.Panic), Case: injected{History: h, At: -1}})
		}
		if r.Kind == "deliver" && r.Code == 0 {
			ok0++
		}
	}
	run.Dist[tag]++
	appdrv.TxStats(h, rs, run.Dist)
	refusedHasNoEffect(run, h, rs)
	run.AddCase(id, appdrv.CaseCoq(id, h, rs, a), injected{History: h, At: -1}, fmt.Sprint(h.Calls), ok0 >= 3)
	return rs, appdrv.StateString(a, nil)
}

// refusedHasNoEffect: every transaction of the history that block execution answers with the error
// code - whoever signed it, a keyper included, whatever made it unacceptable (a structurally
// invalid payload of any message type among them) - leaves the application state as it was,
// apart from the record of its own (signer, nonce) pair, and emits nothing. The state is compared
// immediately before and after the call, so an effect that a later call would undo is seen too.
func refusedHasNoEffect(run *vh.Run, h appdrv.History, rs []appdrv.Resp) {
	a, err := appdrv.NewApp(h.Genesis)
	if err != nil {
		return
	}
	for i, c := range h.Calls {
		// a structurally invalid batch config (no keypers, threshold 0, threshold above the number
		// of keypers AS AN UNSIGNED NUMBER, a keyper entry that is not 20 bytes) must be refused,
		// whoever sends it - judged here from the payload alone
		if c.Kind == "deliver" && i < len(rs) && rs[i].Panic == "" && rs[i].Code == 0 {
			if m, ok := appdrv.MessageOf(c.Tx); ok && m.GetBatchConfig() != nil {
				bc := m.GetBatchConfig()
				bad := len(bc.Keypers) == 0 || bc.Threshold == 0 || bc.Threshold > uint64(len(bc.Keypers))
				for _, k := range bc.Keypers {
					if len(k) != 20 {
						bad = true
					}
				}
				if bad {
					run.Violate(vh.Violation{Key: "C10:malformed-payload-accepted", What: fmt.Sprintf("call %d (%s): a structurally invalid batch config (threshold %d, %d keypers) was answered with code 0", i, c.Note, bc.Threshold, len(bc.Keypers)), Case: injected{History: h, At: -1}, Observed: rs[i]})
				}
			}
		}
		if c.Kind != "deliver" || i >= len(rs) || rs[i].Panic != "" || rs[i].Code != 1 {
			if r := appdrv.Exec(a, c); r.Panic != "" {
				return
			}
			continue
		}
		var hide []byte
		if _, signer, ok := appdrv.DecodeTx(c.Tx); ok {
			hide = signer
		}
		before := appdrv.StateString(a, hide)
		r := appdrv.Exec(a, c)
		if r.Panic != "" {
			return
		}
		run.Dist["refused-deliver-checked"]++
		if len(r.Events) != 0 {
			run.Violate(vh.Violation{Key: "C10:refused-tx-emits-events", What: fmt.Sprintf("call %d (%s) was answered with the error code and emitted events", i, c.Note), Case: injected{History: h, At: -1}, Observed: r})
		}
		after := appdrv.StateString(a, hide)
		// the one exception (C10_error_code_means_no_effect): a config vote answered with the error
		// code may leave the vote table changed - a vote that completes a quorum for a candidate
		// which then fails checkConfig at acceptance resets the table
		if m, ok := appdrv.MessageOf(c.Tx); ok && m.GetBatchConfig() != nil {
			before, after = dropVoteTable(before), dropVoteTable(after)
		}
		if after != before {
			run.Violate(vh.Violation{Key: "C10:refused-tx-changes-state", What: fmt.Sprintf("call %d (%s) was answered with the error code but changed the application state", i, c.Note), Case: injected{History: h, At: -1}, Observed: []string{before, after}})
		}
	}
}

func dropVoteTable(st string) string {
	var out []string
	for _, l := range strings.Split(st, "\n") {
		if strings.HasPrefix(l, "cvote ") || strings.HasPrefix(l, "ccand ") {
			continue
		}
		out = append(out, l)
	}
	return strings.Join(out, "\n")
}

// twin runs the history with the injected transaction and checks the oracle.
func twin(run *vh.Run, in injected, base []appdrv.Resp) {
	// a random / truncated byte string may happen to decode (some signature recovers to some
	// address and the protobuf prefix parses): then it is not malformed but a well-formed
	// transaction of an unknown sender, and is judged as one
	if in.Kind == "random" || in.Kind == "truncated" || in.Kind == "notbase64" {
		if _, signer, ok := appdrv.DecodeTx(in.Tx); ok {
			if c, _ := appdrv.ChainOf(in.Tx); c == in.History.Genesis.ChainID {
				in.Kind = "outsider"
				in.Hide = signer
				run.Dist["inject:decodable-by-accident"]++
			}
		}
	}
	h2 := withInjection(in)
	rs2, a2, err := appdrv.RunHistory(h2)
	if err != nil {
		panic(err)
	}
	_, a1, _ := appdrv.RunHistory(in.History)
	inj := rs2[in.At]
	bad := func(key, what string, obs any) {
		run.Violate(vh.Violation{Key: key, What: what, Case: in, Observed: obs})
	}
	if inj.Panic != "" {
		bad("C10:panic", "injected transaction panicked: "+inj.Panic, inj)
		return
	}
	if len(inj.Events) != 0 {
		bad("C10:refused-tx-emits-events", "a "+in.Kind+" transaction emitted events", inj)
	}
	if in.Kind != "outsider" && inj.Code == 0 {
		bad("C10:refused-tx-code-zero", "a "+in.Kind+" transaction was answered with code 0", inj)
	}
	// the same mempool check on a node restarted from its state file at that point (the property
	// speaks of any chain state; a restarted node is in one)
	if tmpDir != "" {
		a0, _ := appdrv.NewApp(in.History.Genesis)
		for _, c := range in.History.Calls[:in.At] {
			appdrv.Exec(a0, c)
		}
		a0.Gobpath = filepath.Join(tmpDir, "c10.gob")
		if err := a0.PersistToDisk(); err == nil {
			if sa, err := app.LoadShutterAppFromFile(a0.Gobpath); err == nil {
				r := appdrv.Exec(&sa, appdrv.Call{Kind: "check", Tx: in.Tx})
				if r.Panic != "" {
					bad("C10:panic", "CheckTx on a restarted node panicked: "+r.Panic, r)
				} else if r.Code == 0 {
					bad("C10:check-accepts-refusable-after-restart", "CheckTx of a node restarted from its state file accepted a "+in.Kind+" transaction", r)
				}
				r = appdrv.Exec(&sa, appdrv.Call{Kind: "deliver", Tx: in.Tx})
				if r.Panic != "" {
					bad("C10:panic", "DeliverTx on a restarted node panicked: "+r.Panic, r)
				} else if len(r.Events) != 0 || (in.Kind != "outsider" && r.Code == 0) {
					bad("C10:refused-tx-has-effect-after-restart", "a "+in.Kind+" transaction had an effect on a node restarted from its state file", r)
				}
			}
		}
		os.Remove(a0.Gobpath)
	}
	// mempool check of the same bytes at the same point
	{
		hc := appdrv.History{Genesis: in.History.Genesis, Calls: append(append([]appdrv.Call{}, in.History.Calls[:in.At]...), appdrv.Call{Kind: "check", Tx: in.Tx})}
		rc, _, _ := appdrv.RunHistory(hc)
		last := rc[len(rc)-1]
		if last.Panic != "" {
			bad("C10:panic", "CheckTx of the injected transaction panicked: "+last.Panic, last)
		} else if last.Code == 0 {
			bad("C10:check-accepts-refusable", "CheckTx accepted a "+in.Kind+" transaction", last)
		}
	}
	for i := range base {
		j := i
		if i >= in.At {
			j = i + 1
		}
		if base[i].Key() != rs2[j].Key() {
			bad("C10:later-response-differs", fmt.Sprintf("call %d (%s %s) is answered differently after a %s transaction was included", i, in.History.Calls[i].Kind, in.History.Calls[i].Note, in.Kind),
				[]appdrv.Resp{base[i], rs2[j]})
			return
		}
	}
	if appdrv.StateString(a1, in.Hide) != appdrv.StateString(a2, in.Hide) {
		bad("C10:state-differs", "final state differs after a "+in.Kind+" transaction was included", nil)
	}
	run.CountOnly(fmt.Sprint(in.Kind, in.At, in.Tx), true)
	run.Dist["inject:"+in.Kind]++
}

func main() {
	run := vh.Start("Verif.Corr.C10", 40)
	run.SetPreamble("From Verif Require Import Model.Powermap Model.App Corr.App.\nOpen Scope N_scope.")
	defer run.Finish()
	run.Rule = "ABCI histories as in C09 (with the malformed stream mixed in); every history is also re-run with one extra transaction injected at 3 positions, of each refusable kind (random bytes, not base64, truncated, wrong chain, replay of an earlier transaction, no payload, arbitrary payload signed by a key that is never a keyper), comparing all later responses and the final state with the run without it; non-trivial history = at least 3 accepted transactions; every injection counts as one non-trivial evaluation"
	u := appdrv.NewUniverse(8)
	if d, err := os.MkdirTemp("", "verif-c10-"); err == nil {
		tmpDir = d
		defer os.RemoveAll(d)
	}
	if run.Replay != "" {
		var in injected
		if err := run.LoadReplay(&in); err != nil {
			panic(err)
		}
		base, _ := emit(run, in.History, "replay")
		if in.At >= 0 {
			twin(run, in, base)
		}
		return
	}
	// forced: the per-sender mempool limit (MaxTxsPerBlock) and its reset at Commit
	{
		g := &appdrv.Gen{U: u, R: run.RNG.Fork()}
		ge := g.RandomGenesis()
		ge.Keypers = [][]byte{u.Addrs[0].Bytes(), u.Addrs[1].Bytes()}
		ge.Threshold = 1
		h := appdrv.History{Genesis: ge}
		nonce := uint64(5000)
		for b := int64(1); b <= 2; b++ {
			h.Calls = append(h.Calls, appdrv.Call{Kind: "begin", Height: b})
			for i := 0; i < 13; i++ {
				nonce++
				raw := appdrv.SignTx(u.Keys[0], ge.ChainID, nonce, shmsg.NewBlockSeen(uint64(i)))
				h.Calls = append(h.Calls, appdrv.Call{Kind: "check", Tx: raw, Note: "limit"})
				if i%5 == 0 {
					h.Calls = append(h.Calls, appdrv.Call{Kind: "check", Tx: raw, Note: "same nonce in mempool"})
				}
			}
			h.Calls = append(h.Calls, appdrv.Call{Kind: "end", Height: b}, appdrv.Call{Kind: "commit"})
		}
		emit(run, h, "forced:mempool-limit")
	}
	// histories biased towards ACCEPTED messages of a running key generation (commitments,
	// evaluations, accusations, apologies with values of every width): totality of DeliverTx on
	// the paths that build events from message contents
	nd := run.Scale(120, 3000)
	for i := 0; i < nd; i++ {
		g := &appdrv.Gen{U: u, R: run.RNG.Fork()}
		h, _, _ := g.DKGHistory(6+run.RNG.Intn(8), 8)
		emit(run, h, "history:dkg")
	}
	n := run.Scale(150, 4000)
	for i := 0; i < n; i++ {
		g := &appdrv.Gen{U: u, R: run.RNG.Fork(), Weird: i%5 == 0}
		h, _, _ := g.RandomHistory(3+run.RNG.Intn(5), 7)
		base, _ := emit(run, h, "history")
		// positions strictly inside a block: after a begin or a deliver
		var pos []int
		for j, c := range h.Calls {
			if c.Kind == "end" {
				pos = append(pos, j)
			}
		}
		var earlier [][]byte
		for _, k := range []string{"random", "notbase64", "truncated", "wrongchain", "replay", "nopayload", "outsider", "outsider", "outsider"} {
			at := pos[run.RNG.Intn(len(pos))]
			in := injected{History: h, At: at, Kind: k}
			okey := 6 + run.RNG.Intn(2)
			earlier = earlier[:0]
			for _, c := range h.Calls[:at] {
				if c.Kind == "deliver" {
					earlier = append(earlier, c.Tx)
				}
			}
			switch k {
			case "random":
				in.Tx = run.RNG.Bytes(run.RNG.Intn(100))
			case "notbase64":
				in.Tx = []byte("%%%" + string(run.RNG.Bytes(5)))
			case "truncated":
				raw := appdrv.SignTx(u.Keys[0], h.Genesis.ChainID, 900000+uint64(i), shmsg.NewBlockSeen(3))
				in.Tx = raw[:run.RNG.Intn(len(raw)-1)]
			case "wrongchain":
				in.Tx = appdrv.SignTx(u.Keys[run.RNG.Intn(6)], h.Genesis.ChainID+"x", 900000+uint64(i), shmsg.NewBlockSeen(3))
			case "replay":
				// only transactions that actually executed (decodable, right chain) are replays
				var cand [][]byte
				for _, t := range earlier {
					if _, _, ok := appdrv.DecodeTx(t); ok && bytes.Contains([]byte(mustChain(t)), []byte(h.Genesis.ChainID)) && mustChain(t) == h.Genesis.ChainID {
						cand = append(cand, t)
					}
				}
				if len(cand) == 0 {
					continue
				}
				in.Tx = cand[run.RNG.Intn(len(cand))]
			case "nopayload":
				in.Tx = appdrv.SignRaw(u.Keys[okey], &shmsg.MessageWithNonce{ChainId: []byte(h.Genesis.ChainID), RandomNonce: 900000 + uint64(i)})
				in.Hide = u.Addrs[okey].Bytes()
			case "outsider":
				a, _ := appdrv.NewApp(h.Genesis)
				for _, c := range h.Calls[:at] {
					appdrv.Exec(a, c)
				}
				g2 := &appdrv.Gen{U: u, R: run.RNG.Fork(), G: h.Genesis}
				raw, note := g2.NextTxBy(a, okey)
				_ = note
				in.Tx = rewriteNonce(u, okey, h.Genesis.ChainID, raw, 800000+uint64(run.RNG.Intn(100000)))
				in.Hide = u.Addrs[okey].Bytes()
			}
			twin(run, in, base)
			if run.RNG.Chance(1, 4) {
				emit(run, withInjection(in), "history+injection")
			}
		}
	}
}

func mustChain(raw []byte) string {
	c, ok := appdrv.ChainOf(raw)
	if !ok {
		return "\x00undecodable"
	}
	return c
}

// rewriteNonce re-signs the payload of raw with a nonce outside the range the generator uses,
// so that the injected transaction cannot collide with a later one of the history.
func rewriteNonce(u *appdrv.Universe, key int, chain string, raw []byte, nonce uint64) []byte {
	m, ok := appdrv.MessageOf(raw)
	if !ok {
		return raw
	}
	return appdrv.SignTx(u.Keys[key], chain, nonce, m)
}
