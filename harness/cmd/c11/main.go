//go:build verif

// Driver for C11 (keyper-set changes need a threshold of the current set; eons are unique).
// The oracle is an independent reference of the governance rules, written from the property
// text and docs/spec.md, evaluated on the implementation's own event stream.
package main

import (
	"bytes"
	"encoding/base64"
	"fmt"

	"github.com/shutter-network/rolling-shutter/rolling-shutter/shmsg"

	"verifharness/appdrv"
	"verifharness/vh"
)

type cfgKey string

func keyOf(act, thr, idx uint64, keypers [][]byte) cfgKey {
	return cfgKey(fmt.Sprintf("%d/%d/%d/%x", act, thr, idx, keypers))
}

type refConfig struct {
	act, thr, idx uint64
	keypers       [][]byte
}

func (c refConfig) member(a []byte) bool {
	for _, k := range c.keypers {
		if bytes.Equal(k, a) {
			return true
		}
	}
	return false
}

// decode the raw transaction with the repository's exported pieces
func decode(raw []byte) (signer []byte, msg *shmsg.MessageWithNonce, ok bool) {
	signed, err := base64.RawURLEncoding.DecodeString(string(raw))
	if err != nil {
		return nil, nil, false
	}
	sg, err := shmsg.GetSigner(signed)
	if err != nil {
		return nil, nil, false
	}
	m, err := shmsg.GetMessage(signed)
	if err != nil {
		return nil, nil, false
	}
	return sg.Bytes(), m, true
}

// oracle walks the responses of one history.
func oracle(run *vh.Run, h appdrv.History, rs []appdrv.Resp) {
	g := h.Genesis
	last := refConfig{act: 0, thr: g.Threshold, idx: 0, keypers: g.Keypers}
	configs := []refConfig{last}
	votes := map[string]cfgKey{} // sender -> config voted for since the last acceptance (accepted votes only)
	counter := g.InitialEon
	usedNonce := map[string]bool{}
	dkgCfg := map[uint64]refConfig{}
	dkgFail := map[uint64]map[string]bool{}
	seen := map[string]uint64{}
	started := map[uint64]bool{}
	wrapped := false
	bad := func(key, what string, obs any) {
		run.Violate(vh.Violation{Key: key, What: what, Case: h, Observed: obs})
	}
	for i, c := range h.Calls {
		r := rs[i]
		if r.Panic != "" {
			continue
		}
		var signer []byte
		var msg *shmsg.MessageWithNonce
		decoded := false
		executed := false
		if c.Kind == "deliver" {
			signer, msg, decoded = decode(c.Tx)
			if decoded && string(msg.ChainId) == g.ChainID {
				k := fmt.Sprintf("%x/%d", signer, msg.RandomNonce)
				if usedNonce[k] {
					// (sender, nonce) executes at most once
					if r.Code == 0 || len(r.Events) > 0 {
						bad("C11:nonce-executed-twice", fmt.Sprintf("call %d: (sender, nonce) pair executed a second time", i), r)
					}
				} else {
					usedNonce[k] = true
					executed = true
				}
			}
		}
		if executed && msg.Msg != nil {
			if bs := msg.Msg.GetBlockSeen(); bs != nil && r.Code == 0 {
				if bs.BlockNumber > seen[string(signer)] {
					seen[string(signer)] = bs.BlockNumber
				}
			}
			if dr := msg.Msg.GetDkgResult(); dr != nil && r.Code == 0 && !dr.Success {
				if dkgFail[dr.Eon] == nil {
					dkgFail[dr.Eon] = map[string]bool{}
				}
				dkgFail[dr.Eon][string(signer)] = true
			}
			if bc := msg.Msg.GetBatchConfig(); bc != nil && r.Code == 0 {
				k := keyOf(bc.ActivationBlockNumber, bc.Threshold, bc.KeyperConfigIndex, bc.Keypers)
				if _, dup := votes[string(signer)]; dup {
					bad("C11:second-vote-accepted", fmt.Sprintf("call %d: a second config vote of one sender in the same round was accepted", i), r)
				}
				votes[string(signer)] = k
			}
		}
		for _, e := range r.Events {
			switch e.T {
			case "batchconfig":
				if c.Kind == "begin" {
					continue
				}
				k := keyOf(e.Act, e.Thr, e.Idx, e.Addrs)
				n := uint64(0)
				for s, v := range votes {
					if v == k && last.member([]byte(s)) {
						n++
					}
				}
				if n < last.thr {
					bad("C11:config-accepted-without-quorum", fmt.Sprintf("call %d: config index %d accepted with %d votes of current keypers, threshold of the current config is %d", i, e.Idx, n, last.thr), e)
				}
				if e.Idx <= last.idx {
					bad("C11:config-index-not-increasing", fmt.Sprintf("call %d: accepted config index %d <= %d", i, e.Idx, last.idx), e)
				}
				if e.Act < last.act {
					bad("C11:activation-decreasing", fmt.Sprintf("call %d: accepted activation block %d < %d", i, e.Act, last.act), e)
				}
				if len(e.Addrs) == 0 || e.Thr == 0 || e.Thr > uint64(len(e.Addrs)) {
					bad("C11:invalid-config-accepted", fmt.Sprintf("call %d: accepted config has threshold %d with %d keypers", i, e.Thr, len(e.Addrs)), e)
				}
				last = refConfig{act: e.Act, thr: e.Thr, idx: e.Idx, keypers: e.Addrs}
				configs = append(configs, last)
				votes = map[string]cfgKey{}
			case "eonstarted":
				if counter == ^uint64(0) || wrapped {
					// the 64-bit eon counter wrapped (only reachable from a genesis whose initial eon
					// is next to 2^64): outside the property's quantifier (the theorems carry the
					// no-wrap hypothesis); the model comparison still covers what the code does
					wrapped = true
					run.Dist["eon-counter-wrapped"]++
					counter = e.Eon
					if executed && msg.Msg != nil && msg.Msg.GetDkgResult() != nil {
						dkgCfg[e.Eon] = dkgCfg[msg.Msg.GetDkgResult().Eon]
					} else {
						dkgCfg[e.Eon] = last
					}
					continue
				}
				if e.Eon != counter+1 {
					bad("C11:eon-not-fresh", fmt.Sprintf("call %d: eon %d started, previous counter %d", i, e.Eon, counter), e)
				}
				if executed && msg.Msg != nil && msg.Msg.GetDkgResult() != nil {
					old := msg.Msg.GetDkgResult().Eon
					if old != counter {
						bad("C11:restart-of-old-eon", fmt.Sprintf("call %d: key generation restarted for eon %d while the newest eon is %d", i, old, counter), e)
					}
					cfg, ok := dkgCfg[old]
					nf := uint64(0)
					for s := range dkgFail[old] {
						if ok && cfg.member([]byte(s)) {
							nf++
						}
					}
					if !ok || nf < cfg.thr {
						bad("C11:restart-without-failure-quorum", fmt.Sprintf("call %d: restart of eon %d with %d failure reports, threshold %d", i, old, nf, cfg.thr), e)
					}
					dkgCfg[e.Eon] = cfg
				} else {
					dkgCfg[e.Eon] = last
				}
				counter = e.Eon
			case "started":
				// BatchConfigStarted(i): at least threshold(config i-1) members of config i-1 saw the activation block
				var pos = -1
				for j, cf := range configs {
					if cf.idx == e.Idx && !started[uint64(j)] {
						pos = j
						break
					}
				}
				if pos < 0 {
					bad("C11:unknown-config-started", fmt.Sprintf("call %d: config index %d started but was never accepted (or twice)", i, e.Idx), e)
					continue
				}
				started[uint64(pos)] = true
				allow := configs[pos]
				if pos > 0 {
					allow = configs[pos-1]
				}
				n := uint64(0)
				for _, k := range allow.keypers {
					if b, ok := seen[string(k)]; ok && b >= configs[pos].act {
						n++
					}
				}
				if n < allow.thr {
					bad("C11:started-without-block-quorum", fmt.Sprintf("call %d: config index %d started with %d block-seen reports, needs %d", i, e.Idx, n, allow.thr), e)
				}
			}
		}
	}
}

func emit(run *vh.Run, h appdrv.History) {
	rs, a, err := appdrv.RunHistory(h)
	if err != nil {
		panic(err)
	}
	oracle(run, h, rs)
	id := run.NextID()
	acc, eons := 0, 0
	for _, r := range rs {
		for _, e := range r.Events {
			if e.T == "batchconfig" && r.Kind == "deliver" {
				acc++
			}
			if e.T == "eonstarted" {
				eons++
			}
		}
	}
	run.Dist[fmt.Sprintf("acceptances_%d", min(acc, 4))]++
	run.Dist[fmt.Sprintf("eons_started_%d", min(eons, 5))]++
	run.AddCase(id, appdrv.CaseCoq(id, h, rs, a), h, fmt.Sprint(h.Calls), acc >= 1 && eons >= 1)
}

// exhaustive enumerates every sequence of the given depth over a 10-letter governance
// alphabet (three keypers, threshold two, two candidate configs, failure / success reports,
// a block-seen report, a check-in and a replay of the first transaction), each as one block.
func exhaustive(run *vh.Run, u *appdrv.Universe) {
	depth := 3
	if run.Thorough {
		depth = 4
	}
	g := appdrv.Genesis{Threshold: 2, ChainID: "verif-chain", ForkNil: true, Validators: []appdrv.KV{{K: make([]byte, 32), P: 10}}}
	for i := 0; i < 3; i++ {
		g.Keypers = append(g.Keypers, u.Addrs[i].Bytes())
	}
	c1 := shmsg.NewBatchConfig(0, u.Addrs[:3], 2, 1)
	c2 := shmsg.NewBatchConfig(1, u.Addrs[1:4], 1, 1)
	type letter struct {
		key  int
		msg  *shmsg.Message
		name string
	}
	ck := &shmsg.Message{Payload: &shmsg.Message_CheckIn{CheckIn: &shmsg.CheckIn{ValidatorPublicKey: u.ValKeys[1], EncryptionPublicKey: u.EncKeys[1]}}}
	alpha := []letter{
		{0, c1, "vote c1 k0"}, {1, c1, "vote c1 k1"}, {0, c2, "vote c2 k0"}, {2, c2, "vote c2 k2"},
		{0, shmsg.NewDKGResult(1, false), "dkg fail k0"}, {1, shmsg.NewDKGResult(1, false), "dkg fail k1"}, {2, shmsg.NewDKGResult(1, true), "dkg ok k2"},
		{0, shmsg.NewBlockSeen(1), "blockseen k0"}, {1, ck, "checkin k1"}, {-1, nil, "replay first"},
	}
	total := 1
	for i := 0; i < depth; i++ {
		total *= len(alpha)
	}
	for code := 0; code < total; code++ {
		h := appdrv.History{Genesis: g}
		h.Calls = append(h.Calls, appdrv.Call{Kind: "begin", Height: 1})
		x := code
		var first []byte
		for i := 0; i < depth; i++ {
			l := alpha[x%len(alpha)]
			x /= len(alpha)
			var raw []byte
			if l.key < 0 {
				if first == nil {
					raw = []byte("AAAA")
				} else {
					raw = first
				}
			} else {
				raw = appdrv.SignTx(u.Keys[l.key], g.ChainID, uint64(1000+i), l.msg)
			}
			if first == nil {
				first = raw
			}
			h.Calls = append(h.Calls, appdrv.Call{Kind: "deliver", Tx: raw, Note: l.name})
		}
		h.Calls = append(h.Calls, appdrv.Call{Kind: "end", Height: 1}, appdrv.Call{Kind: "commit"})
		emit(run, h)
	}
	run.Dist[fmt.Sprintf("exhaustive_depth_%d_histories", depth)] = total
}

func main() {
	run := vh.Start("Verif.Corr.C11", 40)
	run.SetPreamble("From Verif Require Import Model.Powermap Model.App Corr.App.\nOpen Scope N_scope.")
	defer run.Finish()
	run.Rule = "every sequence of depth 3 (quick) / 4 (thorough) over a 10-letter governance alphabet, then ABCI histories generated online (config votes over 3 candidate configs incl. integer-boundary thresholds, block-seen reports, DKG results, check-ins, malformed stream); the governance reference of the driver is evaluated on every response; non-trivial = at least one config acceptance and one eon start; distinct by call list"
	u := appdrv.NewUniverse(8)
	if run.Replay != "" {
		var h appdrv.History
		if err := run.LoadReplay(&h); err != nil {
			panic(err)
		}
		emit(run, h)
		return
	}
	for _, f := range run.CorpusFiles() {
		run.Replay = f
		var h appdrv.History
		if err := run.LoadReplay(&h); err == nil {
			emit(run, h)
		}
		run.Replay = ""
	}
	exhaustive(run, u)
	n := run.Scale(350, 8000)
	for i := 0; i < n; i++ {
		g := &appdrv.Gen{U: u, R: run.RNG.Fork(), Weird: i%3 == 0}
		var h appdrv.History
		if i%5 == 4 {
			h, _, _ = g.DKGHistory(5+run.RNG.Intn(8), 8)
		} else if i%4 == 3 {
			h, _, _ = g.TransitionHistory(4+run.RNG.Intn(8), 8)
		} else {
			h, _, _ = g.RandomHistory(4+run.RNG.Intn(8), 8)
		}
		emit(run, h)
	}
}
