package main

import (
	sdb "github.com/shutter-network/rolling-shutter/rolling-shutter/keyperimpl/shutterservice/database"

	"verifharness/pgfake"
)

func testService(t *T) {
	ctx := t.ctx
	q := sdb.New(t.pool)
	bh := []byte("blockhash")

	// --- synced-until single-row tables
	_, err := q.GetIdentityRegisteredEventsSyncedUntil(ctx)
	t.noRows(err, "GetIdentityRegisteredEventsSyncedUntil empty")
	t.noErr(q.SetIdentityRegisteredEventSyncedUntil(ctx, sdb.SetIdentityRegisteredEventSyncedUntilParams{BlockHash: []byte("h1"), BlockNumber: 10}), "SetIdentityRegisteredEventSyncedUntil")
	t.noErr(q.SetIdentityRegisteredEventSyncedUntil(ctx, sdb.SetIdentityRegisteredEventSyncedUntilParams{BlockHash: []byte("h2"), BlockNumber: 11}), "SetIdentityRegisteredEventSyncedUntil")
	su, err := q.GetIdentityRegisteredEventsSyncedUntil(ctx)
	t.noErr(err, "GetIdentityRegisteredEventsSyncedUntil")
	t.eq(su, sdb.IdentityRegisteredEventsSyncedUntil{EnforceOneRow: true, BlockHash: []byte("h2"), BlockNumber: 11}, "synced until")
	t.pgErr(q.SetIdentityRegisteredEventSyncedUntil(ctx, sdb.SetIdentityRegisteredEventSyncedUntilParams{BlockHash: []byte("h3"), BlockNumber: -1}), "23514", "negative block number violates CHECK")
	su, _ = q.GetIdentityRegisteredEventsSyncedUntil(ctx)
	t.eq(su.BlockNumber, int64(11), "synced until unchanged after failed statement")

	_, err = q.GetMultiEventSyncStatus(ctx)
	t.noRows(err, "GetMultiEventSyncStatus empty")
	t.noErr(q.SetMultiEventSyncStatus(ctx, sdb.SetMultiEventSyncStatusParams{BlockNumber: 3, BlockHash: []byte("m1")}), "SetMultiEventSyncStatus")
	t.noErr(q.SetMultiEventSyncStatus(ctx, sdb.SetMultiEventSyncStatusParams{BlockNumber: 4, BlockHash: []byte("m2")}), "SetMultiEventSyncStatus")
	ms, err := q.GetMultiEventSyncStatus(ctx)
	t.noErr(err, "GetMultiEventSyncStatus")
	t.eq(ms, sdb.MultiEventSyncStatus{EnforceOneRow: true, BlockNumber: 4, BlockHash: []byte("m2")}, "multi event sync status")

	// --- identity_registered_event
	ire := func(bn, eon, ts int64, prefix, sender, identity string) sdb.InsertIdentityRegisteredEventParams {
		return sdb.InsertIdentityRegisteredEventParams{BlockNumber: bn, BlockHash: bh, TxIndex: 0, LogIndex: 0, Eon: eon,
			IdentityPrefix: []byte(prefix), Sender: sender, Timestamp: ts, Identity: []byte(identity)}
	}
	for _, p := range []sdb.InsertIdentityRegisteredEventParams{
		ire(1, 1, 100, "p1", "s1", "i1"), ire(1, 1, 100, "p2", "s1", "i2"), ire(1, 2, 50, "p3", "s2", "i3"),
	} {
		tag, err := q.InsertIdentityRegisteredEvent(ctx, p)
		t.noErr(err, "InsertIdentityRegisteredEvent")
		t.eq(tag.RowsAffected(), int64(1), "InsertIdentityRegisteredEvent rows")
	}
	tag, err := q.InsertIdentityRegisteredEvent(ctx, ire(2, 9, 150, "p1", "s1", "i1b"))
	t.noErr(err, "InsertIdentityRegisteredEvent conflict")
	t.eq(tag.RowsAffected(), int64(1), "upsert counts as one row")
	t.eq(t.tableLen("identity_registered_event"), 3, "identity_registered_event rows")
	evs, err := q.GetNotDecryptedIdentityRegisteredEvents(ctx, sdb.GetNotDecryptedIdentityRegisteredEventsParams{Timestamp: 50, Timestamp_2: 150})
	t.noErr(err, "GetNotDecryptedIdentityRegisteredEvents")
	t.eq(evs, []sdb.IdentityRegisteredEvent{
		{BlockNumber: 1, BlockHash: bh, Eon: 2, IdentityPrefix: []byte("p3"), Sender: "s2", Timestamp: 50, Identity: []byte("i3")},
		{BlockNumber: 1, BlockHash: bh, Eon: 1, IdentityPrefix: []byte("p2"), Sender: "s1", Timestamp: 100, Identity: []byte("i2")},
		// eon is not in the DO UPDATE SET list: it keeps 1
		{BlockNumber: 2, BlockHash: bh, Eon: 1, IdentityPrefix: []byte("p1"), Sender: "s1", Timestamp: 150, Identity: []byte("i1b")},
	}, "GetNotDecryptedIdentityRegisteredEvents ordered by timestamp")
	evs, _ = q.GetNotDecryptedIdentityRegisteredEvents(ctx, sdb.GetNotDecryptedIdentityRegisteredEventsParams{Timestamp: 51, Timestamp_2: 149})
	t.check(len(evs) == 1 && string(evs[0].IdentityPrefix) == "p2", "timestamp bounds are inclusive on both ends only: %v", evs)
	// UNNEST pairs element-wise: (2,i2),(1,i3) match nothing
	t.noErr(q.UpdateTimeBasedDecryptedFlags(ctx, sdb.UpdateTimeBasedDecryptedFlagsParams{Eons: []int64{2, 1}, Identities: [][]byte{[]byte("i2"), []byte("i3")}}), "UpdateTimeBasedDecryptedFlags crossed")
	// arrays of different length: (1,zz),(NULL,i1b) match nothing
	t.noErr(q.UpdateTimeBasedDecryptedFlags(ctx, sdb.UpdateTimeBasedDecryptedFlagsParams{Eons: []int64{1}, Identities: [][]byte{[]byte("zz"), []byte("i1b")}}), "UpdateTimeBasedDecryptedFlags unequal")
	evs, _ = q.GetNotDecryptedIdentityRegisteredEvents(ctx, sdb.GetNotDecryptedIdentityRegisteredEventsParams{Timestamp: 0, Timestamp_2: 1000})
	t.eq(len(evs), 3, "no flags set by non-matching pairs")
	t.noErr(q.UpdateTimeBasedDecryptedFlags(ctx, sdb.UpdateTimeBasedDecryptedFlagsParams{Eons: []int64{1, 2}, Identities: [][]byte{[]byte("i2"), []byte("i3")}}), "UpdateTimeBasedDecryptedFlags")
	evs, _ = q.GetNotDecryptedIdentityRegisteredEvents(ctx, sdb.GetNotDecryptedIdentityRegisteredEventsParams{Timestamp: 0, Timestamp_2: 1000})
	t.check(len(evs) == 1 && string(evs[0].IdentityPrefix) == "p1", "only p1 left undecrypted: %v", evs)
	// upsert keeps decrypted
	_, err = q.InsertIdentityRegisteredEvent(ctx, ire(1, 1, 100, "p2", "s1", "i2"))
	t.noErr(err, "InsertIdentityRegisteredEvent re-insert decrypted")
	evs, _ = q.GetNotDecryptedIdentityRegisteredEvents(ctx, sdb.GetNotDecryptedIdentityRegisteredEventsParams{Timestamp: 0, Timestamp_2: 1000})
	t.eq(len(evs), 1, "decrypted flag survives the upsert")
	t.noErr(q.DeleteIdentityRegisteredEventsFromBlockNumber(ctx, 2), "DeleteIdentityRegisteredEventsFromBlockNumber")
	t.eq(t.tableLen("identity_registered_event"), 2, "rows after delete from block 2")

	// --- event_trigger_registered_event / fired_triggers
	ete := func(bn, eon, exp int64, prefix, sender, def, identity string) sdb.InsertEventTriggerRegisteredEventParams {
		return sdb.InsertEventTriggerRegisteredEventParams{BlockNumber: bn, BlockHash: bh, TxIndex: 1, LogIndex: 2, Eon: eon,
			IdentityPrefix: []byte(prefix), Sender: sender, Definition: []byte(def), ExpirationBlockNumber: exp, Identity: []byte(identity)}
	}
	for _, p := range []sdb.InsertEventTriggerRegisteredEventParams{
		ete(5, 1, 100, "ep1", "s", "d1", "e1"), ete(6, 1, 50, "ep2", "s", "d2", "e2"), ete(7, 2, 100, "ep3", "s", "d3", "e3"),
	} {
		tag, err := q.InsertEventTriggerRegisteredEvent(ctx, p)
		t.noErr(err, "InsertEventTriggerRegisteredEvent")
		t.eq(tag.RowsAffected(), int64(1), "InsertEventTriggerRegisteredEvent rows")
	}
	_, err = q.InsertEventTriggerRegisteredEvent(ctx, ete(8, 1, 120, "CHANGED", "CHANGED", "d1b", "e1"))
	t.noErr(err, "InsertEventTriggerRegisteredEvent conflict")
	ft := func(eon, bn int64, identity string) sdb.InsertFiredTriggerParams {
		return sdb.InsertFiredTriggerParams{Eon: eon, Identity: []byte(identity), IdentityPrefix: []byte("fp"), Sender: "fs",
			BlockNumber: bn, BlockHash: bh, TxIndex: 3, LogIndex: 4}
	}
	t.noErr(q.InsertFiredTrigger(ctx, ft(1, 9, "e2")), "InsertFiredTrigger")
	t.pgErr(q.InsertFiredTrigger(ctx, ft(1, 9, "nope")), "23503", "InsertFiredTrigger without registered event violates the foreign key")
	t.noErr(q.InsertFiredTrigger(ctx, ft(1, 99, "e2")), "InsertFiredTrigger duplicate is ignored")
	t.eq(t.tableLen("fired_triggers"), 1, "fired_triggers rows")
	act, err := q.GetActiveEventTriggerRegisteredEvents(ctx, 60)
	t.noErr(err, "GetActiveEventTriggerRegisteredEvents")
	t.eq(act, []sdb.EventTriggerRegisteredEvent{
		{BlockNumber: 8, BlockHash: bh, TxIndex: 1, LogIndex: 2, Eon: 1, IdentityPrefix: []byte("ep1"), Sender: "s", Definition: []byte("d1b"), ExpirationBlockNumber: 120, Identity: []byte("e1")},
		{BlockNumber: 7, BlockHash: bh, TxIndex: 1, LogIndex: 2, Eon: 2, IdentityPrefix: []byte("ep3"), Sender: "s", Definition: []byte("d3"), ExpirationBlockNumber: 100, Identity: []byte("e3")},
	}, "active triggers at block 60 (upsert kept prefix and sender)")
	act, _ = q.GetActiveEventTriggerRegisteredEvents(ctx, 10)
	t.eq(len(act), 2, "fired trigger e2 is not active even if not expired")
	act, _ = q.GetActiveEventTriggerRegisteredEvents(ctx, 121)
	t.eq(len(act), 0, "all expired at 121")
	act, _ = q.GetActiveEventTriggerRegisteredEvents(ctx, 120)
	t.eq(len(act), 1, "expiration bound is inclusive")
	uf, err := q.GetUndecryptedFiredTriggers(ctx)
	t.noErr(err, "GetUndecryptedFiredTriggers")
	t.eq(uf, []sdb.GetUndecryptedFiredTriggersRow{{IdentityPrefix: []byte("fp"), Sender: "fs", BlockNumber: 9, BlockHash: bh, TxIndex: 3, LogIndex: 4,
		Eon: 1, ExpirationBlockNumber: 50, Identity: []byte("e2"), Decrypted: false}}, "GetUndecryptedFiredTriggers")
	t.noErr(q.UpdateEventBasedDecryptedFlags(ctx, sdb.UpdateEventBasedDecryptedFlagsParams{Eons: []int64{2}, Identities: [][]byte{[]byte("e2")}}), "UpdateEventBasedDecryptedFlags wrong eon")
	uf, _ = q.GetUndecryptedFiredTriggers(ctx)
	t.eq(len(uf), 1, "wrong pair sets no flag")
	t.noErr(q.UpdateEventBasedDecryptedFlags(ctx, sdb.UpdateEventBasedDecryptedFlagsParams{Eons: []int64{1}, Identities: [][]byte{[]byte("e2")}}), "UpdateEventBasedDecryptedFlags")
	uf, _ = q.GetUndecryptedFiredTriggers(ctx)
	t.eq(len(uf), 0, "decrypted trigger no longer returned")
	t.noErr(q.DeleteFiredTriggersFromBlockNumber(ctx, 10), "DeleteFiredTriggersFromBlockNumber above")
	t.eq(t.tableLen("fired_triggers"), 1, "fired trigger at block 9 survives delete from 10")
	t.noErr(q.DeleteFiredTriggersFromBlockNumber(ctx, 9), "DeleteFiredTriggersFromBlockNumber")
	t.eq(t.tableLen("fired_triggers"), 0, "fired trigger deleted")
	t.noErr(q.InsertFiredTrigger(ctx, ft(1, 20, "e1")), "InsertFiredTrigger e1")
	t.noErr(q.DeleteEventTriggerRegisteredEventsFromBlockNumber(ctx, 8), "DeleteEventTriggerRegisteredEventsFromBlockNumber")
	t.eq(t.tableLen("event_trigger_registered_event"), 2, "events below block 8 remain")
	t.eq(t.tableLen("fired_triggers"), 0, "ON DELETE CASCADE removed the fired trigger of e1")

	// --- current_decryption_trigger (shutterservice flavour)
	for _, p := range []sdb.SetCurrentDecryptionTriggerParams{
		{Eon: 1, TriggeredBlockNumber: 10, IdentitiesHash: []byte("h1")},
		{Eon: 1, TriggeredBlockNumber: 20, IdentitiesHash: []byte("h2")},
		{Eon: 1, TriggeredBlockNumber: 10, IdentitiesHash: []byte("h1b")},
		{Eon: 2, TriggeredBlockNumber: 5, IdentitiesHash: []byte("h3")},
	} {
		t.noErr(q.SetCurrentDecryptionTrigger(ctx, p), "SetCurrentDecryptionTrigger")
	}
	t.eq(t.tableLen(pgfake.TableServiceCurrentDecryptionTrigger), 3, "service current_decryption_trigger rows")
	cd, err := q.GetCurrentDecryptionTrigger(ctx, 1)
	t.noErr(err, "GetCurrentDecryptionTrigger")
	t.eq(cd, sdb.CurrentDecryptionTrigger{Eon: 1, TriggeredBlockNumber: 20, IdentitiesHash: []byte("h2")}, "latest trigger of eon 1")
	_, err = q.GetCurrentDecryptionTrigger(ctx, 3)
	t.noRows(err, "GetCurrentDecryptionTrigger missing")
	found := false
	for _, r := range t.srv.Store().Table(pgfake.TableServiceCurrentDecryptionTrigger).Rows() {
		if r["eon"] == int64(1) && r["triggered_block_number"] == int64(10) {
			found = string(r["identities_hash"].([]byte)) == "h1b"
		}
	}
	t.check(found, "upsert replaced identities_hash of (1,10)")

	// --- decryption_signatures
	h := []byte("hash")
	for _, p := range []sdb.InsertDecryptionSignatureParams{
		{Eon: 1, KeyperIndex: 2, IdentitiesHash: h, Signature: []byte("sig2")},
		{Eon: 1, KeyperIndex: 0, IdentitiesHash: h, Signature: []byte("sig0")},
		{Eon: 1, KeyperIndex: 1, IdentitiesHash: h, Signature: []byte("sig1")},
		{Eon: 1, KeyperIndex: 3, IdentitiesHash: []byte("other"), Signature: []byte("x")},
		{Eon: 1, KeyperIndex: 0, IdentitiesHash: h, Signature: []byte("dup")},
	} {
		t.noErr(q.InsertDecryptionSignature(ctx, p), "InsertDecryptionSignature")
	}
	t.eq(t.tableLen("decryption_signatures"), 4, "decryption_signatures rows")
	sigs, err := q.GetDecryptionSignatures(ctx, sdb.GetDecryptionSignaturesParams{Eon: 1, IdentitiesHash: h, Limit: 2})
	t.noErr(err, "GetDecryptionSignatures")
	t.eq(sigs, []sdb.DecryptionSignature{
		{Eon: 1, KeyperIndex: 0, IdentitiesHash: h, Signature: []byte("sig0")},
		{Eon: 1, KeyperIndex: 1, IdentitiesHash: h, Signature: []byte("sig1")},
	}, "GetDecryptionSignatures limit 2")
	sigs, _ = q.GetDecryptionSignatures(ctx, sdb.GetDecryptionSignaturesParams{Eon: 1, IdentitiesHash: h, Limit: 10})
	t.eq(len(sigs), 3, "GetDecryptionSignatures limit 10")
	sigs, err = q.GetDecryptionSignatures(ctx, sdb.GetDecryptionSignaturesParams{Eon: 1, IdentitiesHash: h, Limit: 0})
	t.noErr(err, "GetDecryptionSignatures limit 0")
	t.eq(len(sigs), 0, "GetDecryptionSignatures limit 0")
	_, err = q.GetDecryptionSignatures(ctx, sdb.GetDecryptionSignaturesParams{Eon: 1, IdentitiesHash: h, Limit: -1})
	t.pgErr(err, "2201W", "negative LIMIT")
}
