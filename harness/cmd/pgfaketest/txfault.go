package main

import (
	"database/sql"
	"errors"
	"fmt"
	"os"
	"path/filepath"
	"strings"
	"sync"

	"github.com/jackc/pgx/v4"

	kdb "github.com/shutter-network/rolling-shutter/rolling-shutter/keyper/database"
	gdb "github.com/shutter-network/rolling-shutter/rolling-shutter/keyperimpl/gnosis/database"
	mdb "github.com/shutter-network/rolling-shutter/rolling-shutter/medley/db"

	"verifharness/pgfake"
)

func (t *T) meta(key string) (string, bool) {
	for _, r := range t.srv.Store().Table("meta_inf").Rows() {
		if r["key"] == key {
			return r["value"].(string), true
		}
	}
	return "", false
}

func testTransactions(t *T) {
	ctx := t.ctx
	// commit
	err := t.pool.BeginFunc(ctx, func(tx pgx.Tx) error {
		q := mdb.New(tx)
		if err := q.InsertMeta(ctx, mdb.InsertMetaParams{Key: "tx1", Value: "a"}); err != nil {
			return err
		}
		_, vis := t.meta("tx1")
		t.check(!vis, "uncommitted insert must not be visible in the committed store")
		v, err := q.GetMeta(ctx, "tx1")
		t.noErr(err, "read own write")
		t.eq(v, "a", "read own write")
		return kdb.New(tx).SetLastBlockSeen(ctx, 77)
	})
	t.noErr(err, "BeginFunc commit")
	v, ok := t.meta("tx1")
	t.check(ok && v == "a", "committed insert visible")
	lbs, _ := kdb.New(t.pool).GetLastBlockSeen(ctx)
	t.eq(lbs, int64(77), "second statement of the transaction committed")

	// rollback by error from the callback
	before := t.srv.Store().Dump()
	errBoom := errors.New("boom")
	err = t.pool.BeginFunc(ctx, func(tx pgx.Tx) error {
		if err := mdb.New(tx).InsertMeta(ctx, mdb.InsertMetaParams{Key: "tx2", Value: "a"}); err != nil {
			return err
		}
		if err := mdb.New(tx).UpdateMeta(ctx, mdb.UpdateMetaParams{Key: "tx1", Value: "changed"}); err != nil {
			return err
		}
		return errBoom
	})
	t.check(errors.Is(err, errBoom), "BeginFunc returns callback error: %v", err)
	t.eq(t.srv.Store().Dump(), before, "rollback leaves the store unchanged")

	// an error inside a transaction aborts it
	err = t.pool.BeginFunc(ctx, func(tx pgx.Tx) error {
		q := mdb.New(tx)
		t.noErr(q.InsertMeta(ctx, mdb.InsertMetaParams{Key: "tx3", Value: "a"}), "insert in tx")
		e := q.InsertMeta(ctx, mdb.InsertMetaParams{Key: "tx1", Value: "dup"})
		t.pgErr(e, "23505", "duplicate in tx")
		_, e = q.GetMeta(ctx, "tx1")
		t.pgErr(e, "25P02", "statement in aborted transaction")
		return nil // commit of a failed transaction is a rollback
	})
	t.check(errors.Is(err, pgx.ErrTxCommitRollback), "commit of aborted tx reports rollback: %v", err)
	t.eq(t.srv.Store().Dump(), before, "aborted transaction leaves the store unchanged")

	// serialization conflict and snapshot isolation
	tx1, err := t.pool.Begin(ctx)
	if t.noErr(err, "begin tx1") {
		t.noErr(mdb.New(tx1).InsertMeta(ctx, mdb.InsertMetaParams{Key: "ser1", Value: "a"}), "tx1 write")
		t.noErr(t.pool.BeginFunc(ctx, func(tx pgx.Tx) error {
			return mdb.New(tx).InsertMeta(ctx, mdb.InsertMetaParams{Key: "ser2", Value: "b"})
		}), "tx2 commits in between")
		_, e := mdb.New(tx1).GetMeta(ctx, "ser2")
		t.noRows(e, "tx1 works on its snapshot and does not see tx2's commit")
		e = tx1.Commit(ctx)
		t.pgErr(e, "40001", "tx1 commit after concurrent commit")
		_, has1 := t.meta("ser1")
		_, has2 := t.meta("ser2")
		t.check(!has1 && has2, "only tx2's write is in the store (ser1=%v ser2=%v)", has1, has2)
	}
	// a read-only transaction never conflicts
	tx3, err := t.pool.Begin(ctx)
	if t.noErr(err, "begin tx3") {
		_, e := mdb.New(tx3).GetMeta(ctx, "ser2")
		t.noErr(e, "tx3 read")
		t.noErr(mdb.New(t.pool).InsertMeta(ctx, mdb.InsertMetaParams{Key: "ser3", Value: "c"}), "autocommit write in between")
		t.noErr(tx3.Commit(ctx), "read-only tx commits despite concurrent commit")
	}

	// nested transaction = savepoint
	err = t.pool.BeginFunc(ctx, func(tx pgx.Tx) error {
		t.noErr(mdb.New(tx).InsertMeta(ctx, mdb.InsertMetaParams{Key: "sp-outer", Value: "o"}), "outer insert")
		e := tx.BeginFunc(ctx, func(inner pgx.Tx) error {
			t.noErr(mdb.New(inner).InsertMeta(ctx, mdb.InsertMetaParams{Key: "sp-inner", Value: "i"}), "inner insert")
			return errBoom
		})
		t.check(errors.Is(e, errBoom), "inner error: %v", e)
		e = tx.BeginFunc(ctx, func(inner pgx.Tx) error {
			// an error inside the savepoint is undone by rollback to savepoint
			e := mdb.New(inner).InsertMeta(ctx, mdb.InsertMetaParams{Key: "sp-outer", Value: "dup"})
			t.pgErr(e, "23505", "duplicate inside savepoint")
			return e
		})
		t.check(e != nil, "inner tx with failed statement returns error")
		return mdb.New(tx).InsertMeta(ctx, mdb.InsertMetaParams{Key: "sp-after", Value: "a"})
	})
	t.noErr(err, "outer transaction with rolled back savepoints")
	_, o := t.meta("sp-outer")
	_, i := t.meta("sp-inner")
	_, a := t.meta("sp-after")
	t.check(o && !i && a, "savepoint semantics: outer=%v inner=%v after=%v", o, i, a)
}

func testFaults(t *T) {
	ctx := t.ctx
	srv := t.srv
	mq := mdb.New(t.pool)
	ins := func(k string) error { return mq.InsertMeta(ctx, mdb.InsertMetaParams{Key: k, Value: "f"}) }
	has := func(k string) bool { _, ok := t.meta(k); return ok }
	fired := func(kind pgfake.FaultKind) int {
		n := 0
		for _, f := range srv.FiredFaults() {
			if f.Kind == kind && f.Applied {
				n++
			}
		}
		return n
	}
	t.noErr(ins("warm"), "warm up")

	// DropBefore, autocommit statement
	t.resetCounters()
	srv.InjectFault(pgfake.Fault{AtMsg: srv.MsgCount(), Kind: pgfake.DropBefore})
	err := ins("drop1")
	t.check(err != nil && sqlState(err) == "", "DropBefore: client sees a connection error, got %v", err)
	t.check(!has("drop1"), "DropBefore: statement not applied")
	t.eq(fired(pgfake.DropBefore), 1, "DropBefore fired")
	t.noErr(ins("drop1"), "pool recovers after the dropped connection")

	// DropBefore in the middle of a transaction discards it
	t.resetCounters()
	err = t.pool.BeginFunc(ctx, func(tx pgx.Tx) error {
		q := mdb.New(tx)
		if err := q.InsertMeta(ctx, mdb.InsertMetaParams{Key: "drop2a", Value: "f"}); err != nil {
			return err
		}
		srv.InjectFault(pgfake.Fault{AtMsg: srv.MsgCount(), Kind: pgfake.DropBefore})
		return q.InsertMeta(ctx, mdb.InsertMetaParams{Key: "drop2b", Value: "f"})
	})
	t.check(err != nil, "DropBefore in tx: error expected")
	t.check(!has("drop2a") && !has("drop2b"), "DropBefore in tx: nothing applied")

	// DropAfterCommit on an explicit commit
	t.resetCounters()
	err = t.pool.BeginFunc(ctx, func(tx pgx.Tx) error {
		if err := mdb.New(tx).InsertMeta(ctx, mdb.InsertMetaParams{Key: "dac1", Value: "f"}); err != nil {
			return err
		}
		// the next message on the wire is this transaction's "commit"
		srv.InjectFault(pgfake.Fault{AtMsg: srv.MsgCount(), Kind: pgfake.DropAfterCommit})
		return nil
	})
	t.check(err != nil, "DropAfterCommit: the client sees an error for the commit")
	t.check(has("dac1"), "DropAfterCommit: the transaction was committed nevertheless")
	t.eq(fired(pgfake.DropAfterCommit), 1, "DropAfterCommit fired on commit")

	// DropAfterCommit on the Sync of an autocommit statement: arm the next few
	// messages; the fault only applies to the Sync that commits.
	t.resetCounters()
	n := srv.MsgCount()
	for i := int64(0); i < 8; i++ {
		srv.InjectFault(pgfake.Fault{AtMsg: n + i, Kind: pgfake.DropAfterCommit})
	}
	err = ins("dac2")
	t.check(err != nil, "DropAfterCommit autocommit: client sees an error")
	t.check(has("dac2"), "DropAfterCommit autocommit: statement committed")
	t.eq(fired(pgfake.DropAfterCommit), 1, "DropAfterCommit fired on Sync")
	t.resetCounters()

	// DropAfterCommit on a simple-protocol autocommit statement
	gq := gdb.New(t.pool)
	t.noErr(gq.SetTxPointer(ctx, gdb.SetTxPointerParams{Eon: 500, Age: nullInt(3), Value: 1}), "SetTxPointer")
	t.resetCounters()
	srv.InjectFault(pgfake.Fault{AtMsg: srv.MsgCount(), Kind: pgfake.DropAfterCommit})
	err = gq.ResetAllTxPointerAges(ctx)
	t.check(err != nil, "DropAfterCommit simple query: client sees an error")
	tp, e := gq.GetTxPointer(ctx, 500)
	t.noErr(e, "GetTxPointer")
	t.check(!tp.Age.Valid, "DropAfterCommit simple query: update was committed")

	// FailStatement
	t.resetCounters()
	n = srv.MsgCount()
	for i := int64(0); i < 8; i++ {
		srv.InjectFault(pgfake.Fault{AtMsg: n + i, Kind: pgfake.FailStatement, SQLState: "57014"})
	}
	err = ins("fail1")
	t.pgErr(err, "57014", "FailStatement")
	t.check(!has("fail1"), "FailStatement: not executed")
	t.eq(fired(pgfake.FailStatement), 1, "FailStatement fired once (only Execute is eligible)")
	t.resetCounters()
	t.noErr(ins("fail1"), "statement works again")
	// FailStatement with default SQLSTATE inside a transaction aborts it
	err = t.pool.BeginFunc(ctx, func(tx pgx.Tx) error {
		q := mdb.New(tx)
		t.noErr(q.InsertMeta(ctx, mdb.InsertMetaParams{Key: "fail2a", Value: "f"}), "first insert")
		n := srv.MsgCount()
		for i := int64(0); i < 8; i++ {
			srv.InjectFault(pgfake.Fault{AtMsg: n + i, Kind: pgfake.FailStatement})
		}
		e := q.InsertMeta(ctx, mdb.InsertMetaParams{Key: "fail2b", Value: "f"})
		t.pgErr(e, "XX000", "FailStatement default state")
		return e
	})
	t.check(err != nil, "tx with failed statement returns error")
	t.check(!has("fail2a") && !has("fail2b"), "FailStatement in tx: rolled back")
	t.resetCounters()

	// FailNext
	srv.FailNext("InsertMeta", "40P01", 1)
	t.noErr(ins("fn1"), "FailNext skip=1: first execution passes")
	t.pgErr(ins("fn2"), "40P01", "FailNext: second execution fails")
	t.noErr(ins("fn2"), "FailNext: third execution passes")
	srv.FailNext("medley/db.GetMeta", "", 0)
	_, err = mq.GetMeta(ctx, "fn1")
	t.pgErr(err, "XX000", "FailNext by full key with default state")
	_, err = mq.GetMeta(ctx, "fn1")
	t.noErr(err, "GetMeta works again")

	// message log
	t.resetCounters()
	t.noErr(ins("log1"), "insert for log")
	log := srv.MsgLog()
	t.eq(int64(len(log)), srv.MsgCount(), "log length equals message count")
	var kinds []string
	for _, e := range log {
		kinds = append(kinds, e.Kind)
		if e.Kind == "Execute" || e.Kind == "Bind" {
			t.eq(e.Stmt, "medley/db.InsertMeta", "log entry names the statement")
		}
	}
	ks := strings.Join(kinds, ",")
	t.check(strings.HasSuffix(ks, "Bind,Describe,Execute,Sync"), "message kinds of a prepared execution: %s", ks)
}

func nullInt(v int64) sql.NullInt64 { return sql.NullInt64{Int64: v, Valid: true} }

func testConcurrency(t *T) {
	ctx := t.ctx
	var wg sync.WaitGroup
	errs := make(chan error, 400)
	for g := 0; g < 4; g++ {
		wg.Add(1)
		go func(g int) {
			defer wg.Done()
			q := mdb.New(t.pool)
			for i := 0; i < 50; i++ {
				if err := q.InsertMeta(ctx, mdb.InsertMetaParams{Key: fmt.Sprintf("conc-%d-%d", g, i), Value: "c"}); err != nil {
					errs <- err
				}
				if _, err := q.GetMeta(ctx, fmt.Sprintf("conc-%d-%d", g, i)); err != nil {
					errs <- err
				}
			}
		}(g)
	}
	wg.Wait()
	close(errs)
	for e := range errs {
		t.failf("concurrent autocommit statement failed: %v", e)
	}
	n := 0
	for _, r := range t.srv.Store().Table("meta_inf").Rows() {
		if strings.HasPrefix(r["key"].(string), "conc-") {
			n++
		}
	}
	t.eq(n, 200, "all concurrent inserts present")
}

func testUnix(t *T) {
	srv, err := pgfake.Start(pgfake.Options{Network: "unix"})
	if !t.noErr(err, "start unix server") {
		return
	}
	defer srv.Close()
	pool, err := srv.Pool(t.ctx)
	if !t.noErr(err, "unix pool") {
		return
	}
	defer pool.Close()
	v, err := kdb.New(pool).GetLastBlockSeen(t.ctx)
	t.noErr(err, "query over unix socket")
	t.eq(v, int64(-1), "fresh server has the initial rows")
}

// testTieDetection starts a server on a modified copy of the relevant source
// files and checks that the drift is reported.
func testTieDetection(t *T) {
	tmp, err := os.MkdirTemp("", "pgfake-tie")
	if !t.noErr(err, "tempdir") {
		return
	}
	defer os.RemoveAll(tmp)
	root := t.srv.StatementSQL("medley/db.GetMeta")
	t.check(root != "", "StatementSQL")
	repo := pgfake.DefaultRepoRoot
	for _, st := range t.srv.Statements() {
		repo = strings.TrimSuffix(filepath.Dir(st.File), "/"+st.Pkg)
		break
	}
	for _, pkg := range pgfake.PackageDirs {
		var files []string
		for _, pat := range []string{"*.sqlc.gen.go", "sql/schemas/*.sql", "sql/migrations/*.sql"} {
			m, _ := filepath.Glob(filepath.Join(repo, pkg, pat))
			files = append(files, m...)
		}
		for _, f := range files {
			rel, _ := filepath.Rel(repo, f)
			b, err := os.ReadFile(f)
			if !t.noErr(err, "read "+f) {
				return
			}
			s := string(b)
			switch rel {
			case "medley/db/meta.sqlc.gen.go":
				// change one statement, remove another
				s = strings.Replace(s, "SELECT value FROM meta_inf WHERE key = $1", "SELECT value FROM meta_inf WHERE key = $1 LIMIT 1", 1)
				s = strings.Replace(s, "-- name: UpdateMeta :exec", "-- not a statement any more", 1)
			case "medley/db/sql/schemas/meta.sql":
				s += "\n-- changed\n"
			}
			dst := filepath.Join(tmp, rel)
			os.MkdirAll(filepath.Dir(dst), 0o755)
			if !t.noErr(os.WriteFile(dst, []byte(s), 0o644), "write "+dst) {
				return
			}
		}
	}
	os.WriteFile(filepath.Join(tmp, "medley/db/sql/schemas/extra.sql"), []byte("CREATE TABLE x(y int);"), 0o644)
	srv, err := pgfake.Start(pgfake.Options{RepoRoot: tmp})
	if !t.noErr(err, "start on modified copy") {
		return
	}
	defer srv.Close()
	got := map[string]bool{}
	for _, ti := range srv.Ties() {
		got[ti.Kind+" "+ti.Name] = true
	}
	want := []string{"changed medley/db.GetMeta", "missing medley/db.UpdateMeta",
		"schema-changed medley/db/sql/schemas/meta.sql", "schema-changed medley/db/sql/schemas/extra.sql"}
	for _, w := range want {
		t.check(got[w], "tie issue %q not reported; got %v", w, got)
	}
	t.eq(len(got), len(want), "no other tie issues")
	pool, err := srv.Pool(t.ctx)
	if !t.noErr(err, "pool") {
		return
	}
	defer pool.Close()
	t.noErr(srv.Store().Insert("meta_inf", pgfake.Row{"key": "a", "value": "b"}), "insert")
	var v string
	err = pool.QueryRow(t.ctx, srv.StatementSQL("medley/db.GetMeta"), "a").Scan(&v)
	t.noErr(err, "changed statement still executes")
	t.eq(v, "b", "changed statement result")
	ri := srv.RuntimeIssues()
	t.check(len(ri) == 1 && ri[0].Kind == "changed-statement-used" && ri[0].Stmt == "medley/db.GetMeta", "changed-statement-used recorded: %v", ri)
	// the unchanged generated code now sends a text pgfake does not know under this root
	_, err = mdb.New(pool).GetMeta(t.ctx, "a")
	t.pgErr(err, "0A000", "old statement text is unknown to the modified catalog")
}

func testRuntimeIssues(t *T) {
	t.eq(len(t.srv.RuntimeIssues()), 0, "no runtime issues after the whole self-test")
	_, err := t.pool.Exec(t.ctx, "select 1")
	t.pgErr(err, "0A000", "unknown statement (simple protocol)")
	var one int
	err = t.pool.QueryRow(t.ctx, "select $1::int", 1).Scan(&one)
	t.pgErr(err, "0A000", "unknown statement (extended protocol)")
	ri := t.srv.RuntimeIssues()
	t.check(len(ri) == 2 && ri[0].Kind == "unknown-statement" && ri[1].Kind == "unknown-statement", "unknown statements recorded: %v", ri)
	t.noErr(mdb.New(t.pool).InsertMeta(t.ctx, mdb.InsertMetaParams{Key: "after-unknown", Value: "x"}), "connection usable after unknown statement")
	t.srv.ClearRuntimeIssues()
}
