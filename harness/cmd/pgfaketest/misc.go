package main

import (
	"time"

	ocdb "github.com/shutter-network/rolling-shutter/rolling-shutter/chainobserver/db/collator"
	okdb "github.com/shutter-network/rolling-shutter/rolling-shutter/chainobserver/db/keyper"
	osdb "github.com/shutter-network/rolling-shutter/rolling-shutter/chainobserver/db/sync"
	pdb "github.com/shutter-network/rolling-shutter/rolling-shutter/keyperimpl/primev/database"
	mdb "github.com/shutter-network/rolling-shutter/rolling-shutter/medley/db"

	"verifharness/pgfake"
)

func testPrimev(t *T) {
	ctx := t.ctx
	q := pdb.New(t.pool)

	_, err := q.GetProviderRegistryEventsSyncedUntil(ctx)
	t.noRows(err, "GetProviderRegistryEventsSyncedUntil empty")
	t.noErr(q.SetProviderRegistryEventsSyncedUntil(ctx, pdb.SetProviderRegistryEventsSyncedUntilParams{BlockHash: []byte("a"), BlockNumber: 1}), "SetProviderRegistryEventsSyncedUntil")
	t.noErr(q.SetProviderRegistryEventsSyncedUntil(ctx, pdb.SetProviderRegistryEventsSyncedUntilParams{BlockHash: []byte("b"), BlockNumber: 2}), "SetProviderRegistryEventsSyncedUntil")
	su, err := q.GetProviderRegistryEventsSyncedUntil(ctx)
	t.noErr(err, "GetProviderRegistryEventsSyncedUntil")
	t.eq(su, pdb.ProviderRegistryEventsSyncedUntil{EnforceOneRow: true, BlockHash: []byte("b"), BlockNumber: 2}, "provider registry synced until")

	tag, err := q.InsertProviderRegistryEvent(ctx, pdb.InsertProviderRegistryEventParams{BlockNumber: 1, BlockHash: []byte("h"), TxIndex: 0, LogIndex: 0,
		ProviderAddress: "prov", BlsKeys: [][]byte{{1}, {2, 3}}})
	t.noErr(err, "InsertProviderRegistryEvent")
	t.eq(tag.RowsAffected(), int64(1), "InsertProviderRegistryEvent rows")
	_, err = q.InsertProviderRegistryEvent(ctx, pdb.InsertProviderRegistryEventParams{BlockNumber: 1, BlockHash: []byte("h2"), TxIndex: 0, LogIndex: 0,
		ProviderAddress: "other", BlsKeys: [][]byte{{9}}})
	t.noErr(err, "InsertProviderRegistryEvent conflict")
	rows := t.srv.Store().Table("provider_registry_events").Rows()
	t.eq(rows, []pgfake.Row{{"block_number": int64(1), "block_hash": []byte("h2"), "tx_index": int64(0), "log_index": int64(0),
		"provider_address": "prov", "bls_keys": [][]byte{{9}}}}, "provider registry event after upsert (provider_address is not updated)")
	t.noErr(q.DeleteProviderRegistryEventsFromBlockNumber(ctx, 2), "DeleteProviderRegistryEventsFromBlockNumber above")
	t.eq(t.tableLen("provider_registry_events"), 1, "event survives")
	t.noErr(q.DeleteProviderRegistryEventsFromBlockNumber(ctx, 1), "DeleteProviderRegistryEventsFromBlockNumber")
	t.eq(t.tableLen("provider_registry_events"), 0, "event deleted")

	// --- InsertMultipleTransactionsAndUpsertCommitment
	arg := pdb.InsertMultipleTransactionsAndUpsertCommitmentParams{
		Eons: []int64{1, 1}, IdentityPreimages: []string{"a", "b"}, IdentityPrefixes: []string{"pa", "pb"}, BlockNumbers: []int64{10, 10},
		TxHashes: []string{"h1", "h2"}, CommitmentDigest: "d", ProviderAddress: "p", CommitmentSignature: "s", BlockNumber: 10,
		ReceivedBidDigest: "bd", ReceivedBidSignature: "bs", BidderNodeAddress: "bn",
	}
	t.noErr(q.InsertMultipleTransactionsAndUpsertCommitment(ctx, arg), "InsertMultipleTransactionsAndUpsertCommitment")
	t.eq(t.tableLen("committed_transactions"), 2, "committed transactions")
	t.eq(t.srv.Store().Table("commitment").Rows(), []pgfake.Row{{"tx_hashes": []string{"h1", "h2"}, "provider_address": "p", "commitment_signature": "s",
		"commitment_digest": "d", "block_number": int64(10), "received_bid_digest": "bd", "received_bid_signature": "bs", "bidder_node_address": "bn"}}, "commitment inserted")
	arg2 := arg
	arg2.IdentityPreimages = []string{"b", "c"}
	arg2.IdentityPrefixes = []string{"pb", "pc"}
	arg2.TxHashes = []string{"h2", "h3"}
	arg2.CommitmentSignature, arg2.ReceivedBidDigest, arg2.ReceivedBidSignature, arg2.BidderNodeAddress, arg2.BlockNumber = "s2", "bd2", "bs2", "bn2", 99
	t.noErr(q.InsertMultipleTransactionsAndUpsertCommitment(ctx, arg2), "InsertMultipleTransactionsAndUpsertCommitment second")
	t.eq(t.tableLen("committed_transactions"), 3, "only the new transaction is inserted")
	t.eq(t.srv.Store().Table("commitment").Rows(), []pgfake.Row{{"tx_hashes": []string{"h1", "h2", "h3"}, "provider_address": "p", "commitment_signature": "s",
		"commitment_digest": "d", "block_number": int64(10), "received_bid_digest": "bd2", "received_bid_signature": "bs2", "bidder_node_address": "bn2"}},
		"commitment upsert appends new hashes, replaces bid columns, keeps signature and block number")
	before := t.srv.Store().Dump()
	err = q.InsertMultipleTransactionsAndUpsertCommitment(ctx, arg2)
	t.pgErr(err, "23502", "no newly inserted transaction: ARRAY_AGG is NULL and violates tx_hashes NOT NULL")
	arg3 := arg
	arg3.TxHashes = []string{"only-one"} // shorter array is padded with NULL -> NOT NULL violation on tx_hash
	arg3.IdentityPreimages = []string{"x", "y"}
	t.pgErr(q.InsertMultipleTransactionsAndUpsertCommitment(ctx, arg3), "23502", "unnest of arrays of different length")
	t.eq(t.srv.Store().Dump(), before, "failed statements leave the store unchanged")

	// --- GetCommitmentByTxHash: $1 is text for PostgreSQL, []string for sqlc
	_, err = q.GetCommitmentByTxHash(ctx, []string{"h1"})
	t.check(err != nil, "GetCommitmentByTxHash via sqlc: pgx cannot encode []string as the text parameter PostgreSQL expects; got no error")
	sqlText := t.srv.StatementSQL("keyperimpl/primev/database.GetCommitmentByTxHash")
	for _, c := range []struct {
		hash string
		n    int
	}{{"h3", 1}, {"h1", 1}, {"zz", 0}} {
		r, err := t.pool.Query(ctx, sqlText, c.hash)
		if !t.noErr(err, "GetCommitmentByTxHash raw") {
			continue
		}
		n := 0
		for r.Next() {
			var cm pdb.Commitment
			t.noErr(r.Scan(&cm.TxHashes, &cm.ProviderAddress, &cm.CommitmentSignature, &cm.CommitmentDigest, &cm.BlockNumber,
				&cm.ReceivedBidDigest, &cm.ReceivedBidSignature, &cm.BidderNodeAddress), "scan commitment")
			t.eq(cm.TxHashes, []string{"h1", "h2", "h3"}, "commitment hashes")
			n++
		}
		t.noErr(r.Err(), "rows err")
		t.eq(n, c.n, "GetCommitmentByTxHash "+c.hash)
	}
}

func testObserverMedley(t *T) {
	ctx := t.ctx
	// --- chainobserver/db/keyper
	kq := okdb.New(t.pool)
	sets := []okdb.InsertKeyperSetParams{
		{KeyperConfigIndex: 0, ActivationBlockNumber: 100, Keypers: []string{"a"}, Threshold: 1},
		{KeyperConfigIndex: 1, ActivationBlockNumber: 200, Keypers: []string{"b"}, Threshold: 2},
		{KeyperConfigIndex: 2, ActivationBlockNumber: 200, Keypers: []string{"c"}, Threshold: 1},
	}
	for _, s := range sets {
		t.noErr(kq.InsertKeyperSet(ctx, s), "InsertKeyperSet")
	}
	t.noErr(kq.InsertKeyperSet(ctx, okdb.InsertKeyperSetParams{KeyperConfigIndex: 1, ActivationBlockNumber: 999, Keypers: []string{"zz"}, Threshold: 9}), "InsertKeyperSet duplicate ignored")
	ks, err := kq.GetKeyperSet(ctx, 250)
	t.noErr(err, "GetKeyperSet")
	t.eq(ks, okdb.KeyperSet(sets[1]), "GetKeyperSet 250: tie at activation 200, insertion order picks index 1")
	t.srv.SetRowOrder(reverseOrder)
	ks, _ = kq.GetKeyperSet(ctx, 250)
	t.eq(ks, okdb.KeyperSet(sets[2]), "GetKeyperSet 250 with reversed scan order picks index 2")
	all, err := kq.GetKeyperSets(ctx)
	t.noErr(err, "GetKeyperSets")
	t.eq(all, []okdb.KeyperSet{okdb.KeyperSet(sets[0]), okdb.KeyperSet(sets[2]), okdb.KeyperSet(sets[1])}, "GetKeyperSets with reversed scan order: ties reversed, sort respected")
	t.srv.SetRowOrder(nil)
	all, _ = kq.GetKeyperSets(ctx)
	t.eq(all, []okdb.KeyperSet{okdb.KeyperSet(sets[0]), okdb.KeyperSet(sets[1]), okdb.KeyperSet(sets[2])}, "GetKeyperSets")
	_, err = kq.GetKeyperSet(ctx, 50)
	t.noRows(err, "GetKeyperSet before first")
	ks, err = kq.GetKeyperSetByKeyperConfigIndex(ctx, 2)
	t.noErr(err, "GetKeyperSetByKeyperConfigIndex")
	t.eq(ks, okdb.KeyperSet(sets[2]), "GetKeyperSetByKeyperConfigIndex")
	_, err = kq.GetKeyperSetByKeyperConfigIndex(ctx, 5)
	t.noRows(err, "GetKeyperSetByKeyperConfigIndex missing")

	// --- chainobserver/db/sync
	sq := osdb.New(t.pool)
	pr, err := sq.GetEventSyncProgress(ctx)
	t.noErr(err, "GetEventSyncProgress")
	t.eq(pr, osdb.GetEventSyncProgressRow{NextBlockNumber: 0, NextLogIndex: 0}, "initial sync progress")
	t.noErr(sq.UpdateEventSyncProgress(ctx, osdb.UpdateEventSyncProgressParams{NextBlockNumber: 7, NextLogIndex: 3}), "UpdateEventSyncProgress")
	pr, _ = sq.GetEventSyncProgress(ctx)
	t.eq(pr, osdb.GetEventSyncProgressRow{NextBlockNumber: 7, NextLogIndex: 3}, "sync progress")
	nb, err := sq.GetNextBlockNumber(ctx)
	t.noErr(err, "GetNextBlockNumber")
	t.eq(nb, int32(7), "next block number")
	t.eq(t.tableLen("event_sync_progress"), 1, "event_sync_progress stays one row")

	// --- chainobserver/db/collator
	cq := ocdb.New(t.pool)
	t.noErr(cq.InsertChainCollator(ctx, ocdb.InsertChainCollatorParams{ActivationBlockNumber: 10, Collator: "c1"}), "InsertChainCollator")
	t.noErr(cq.InsertChainCollator(ctx, ocdb.InsertChainCollatorParams{ActivationBlockNumber: 20, Collator: "c2"}), "InsertChainCollator")
	cc, err := cq.GetChainCollator(ctx, 15)
	t.noErr(err, "GetChainCollator")
	t.eq(cc, ocdb.ChainCollator{ActivationBlockNumber: 10, Collator: "c1"}, "GetChainCollator")
	_, err = cq.GetChainCollator(ctx, 5)
	t.noRows(err, "GetChainCollator before first")

	// --- medley/db
	mq := mdb.New(t.pool)
	t.noErr(mq.InsertMeta(ctx, mdb.InsertMetaParams{Key: "k", Value: "v"}), "InsertMeta")
	t.pgErr(mq.InsertMeta(ctx, mdb.InsertMetaParams{Key: "k", Value: "again"}), "23505", "InsertMeta duplicate")
	v, err := mq.GetMeta(ctx, "k")
	t.noErr(err, "GetMeta")
	t.eq(v, "v", "meta value")
	t.noErr(mq.UpdateMeta(ctx, mdb.UpdateMetaParams{Value: "v2", Key: "k"}), "UpdateMeta")
	t.noErr(mq.UpdateMeta(ctx, mdb.UpdateMetaParams{Value: "zz", Key: "nokey"}), "UpdateMeta no row")
	v, _ = mq.GetMeta(ctx, "k")
	t.eq(v, "v2", "meta value updated")
	_, err = mq.GetMeta(ctx, "nokey")
	t.noRows(err, "GetMeta missing")
}

func testStoreAPI(t *T) {
	st := t.srv.Store()
	snap := st.Snapshot()
	t.eq(snap.Dump(), st.Dump(), "snapshot equals store")
	t.noErr(st.Insert("eons", pgfake.Row{"eon": 50, "height": int32(1), "activation_block_number": uint64(2), "keyper_config_index": int64(3)}), "Store.Insert")
	t.check(snap.Dump() != st.Dump(), "snapshot is independent of later changes")
	err := st.Insert("eons", pgfake.Row{"eon": 50, "height": 1, "activation_block_number": 2, "keyper_config_index": 3})
	t.pgErr(err, "23505", "Store.Insert duplicate")
	err = st.Insert("eons", pgfake.Row{"eon": 51, "height": 1})
	t.pgErr(err, "23502", "Store.Insert missing NOT NULL column")
	err = st.Insert("tendermint_batch_config", pgfake.Row{"keyper_config_index": int64(1) << 40, "height": 1, "keypers": []string{}, "threshold": 1, "started": true, "activation_block_number": 1})
	t.pgErr(err, "22003", "Store.Insert integer out of range")
	t.noErr(st.Insert("tendermint_sync_meta", pgfake.Row{"current_block": 900, "last_committed_height": 1, "sync_timestamp": time.Unix(1700000000, 0)}), "Store.Insert timestamp")
	t.noErr(st.Insert("tendermint_encryption_key", pgfake.Row{"address": "dflt", "encryption_public_key": []byte{1}}), "Store.Insert with default")
	var got any
	for _, r := range st.Table("tendermint_encryption_key").Rows() {
		if r["address"] == "dflt" {
			got = r["height"]
		}
	}
	t.eq(got, int64(0), "default height")
	// Rows() returns copies
	rows := st.Table("eons").Rows()
	rows[0]["eon"] = int64(12345)
	t.check(st.Table("eons").Rows()[0]["eon"] != int64(12345), "Rows() must return a copy")
	// SetStore restores the snapshot
	t.srv.SetStore(snap)
	t.eq(st.Dump(), snap.Dump(), "SetStore restores the snapshot")
	t.noErr(snap.Insert("meta_inf", pgfake.Row{"key": "only-in-snap", "value": "x"}), "insert into snapshot")
	t.check(st.Dump() != snap.Dump(), "store is independent of the snapshot after SetStore")
	// a second server on a copy of the same state
	srv2, err := pgfake.Start(pgfake.Options{})
	if t.noErr(err, "start second server") {
		srv2.SetStore(st)
		t.eq(srv2.Store().Dump(), st.Dump(), "second server with SetStore has the same dump")
		t.eq(srv2.Store().DumpWithSequences(), st.DumpWithSequences(), "including sequences")
		srv2.Close()
	}
	t.check(st.Table("no_such_table") == nil, "Table() of unknown table is nil")
	t.noErr(st.DeleteAll("chain_collator"), "DeleteAll")
	t.eq(t.tableLen("chain_collator"), 0, "DeleteAll emptied the table")
}
