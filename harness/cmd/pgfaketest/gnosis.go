package main

import (
	"database/sql"

	gdb "github.com/shutter-network/rolling-shutter/rolling-shutter/keyperimpl/gnosis/database"

	"verifharness/pgfake"
)

func testGnosis(t *T) {
	ctx := t.ctx
	q := gdb.New(t.pool)
	bh := []byte("bh")
	null := sql.NullInt64{}
	some := func(v int64) sql.NullInt64 { return sql.NullInt64{Int64: v, Valid: true} }

	// --- tx_pointer
	_, err := q.GetTxPointer(ctx, 1)
	t.noRows(err, "GetTxPointer empty")
	t.noErr(q.InitTxPointer(ctx, gdb.InitTxPointerParams{Eon: 1, Age: null, Value: 5}), "InitTxPointer")
	t.noErr(q.InitTxPointer(ctx, gdb.InitTxPointerParams{Eon: 1, Age: some(3), Value: 7}), "InitTxPointer again is ignored")
	tp, err := q.GetTxPointer(ctx, 1)
	t.noErr(err, "GetTxPointer")
	t.eq(tp, gdb.TxPointer{Eon: 1, Age: null, Value: 5}, "tx pointer after init")
	age, err := q.IncrementTxPointerAge(ctx, 1)
	t.noErr(err, "IncrementTxPointerAge NULL")
	t.eq(age, null, "NULL + 1 is NULL")
	t.noErr(q.SetTxPointer(ctx, gdb.SetTxPointerParams{Eon: 1, Age: some(0), Value: 9}), "SetTxPointer")
	tp, _ = q.GetTxPointer(ctx, 1)
	t.eq(tp, gdb.TxPointer{Eon: 1, Age: some(0), Value: 9}, "tx pointer after set")
	age, err = q.IncrementTxPointerAge(ctx, 1)
	t.noErr(err, "IncrementTxPointerAge")
	t.eq(age, some(1), "age incremented")
	_, err = q.IncrementTxPointerAge(ctx, 99)
	t.noRows(err, "IncrementTxPointerAge unknown eon")
	t.noErr(q.SetTxPointer(ctx, gdb.SetTxPointerParams{Eon: 2, Age: some(4), Value: 1}), "SetTxPointer insert")
	t.noErr(q.ResetAllTxPointerAges(ctx), "ResetAllTxPointerAges (simple protocol)")
	tp, _ = q.GetTxPointer(ctx, 1)
	t.eq(tp, gdb.TxPointer{Eon: 1, Age: null, Value: 9}, "age reset eon 1")
	tp, _ = q.GetTxPointer(ctx, 2)
	t.eq(tp, gdb.TxPointer{Eon: 2, Age: null, Value: 1}, "age reset eon 2")

	// --- transaction_submitted_event
	c, err := q.GetTransactionSubmittedEventCount(ctx, 1)
	t.noErr(err, "GetTransactionSubmittedEventCount empty")
	t.eq(c, int64(0), "event count of empty eon")
	tse := func(index, bn, eon, gas int64, prefix string) gdb.InsertTransactionSubmittedEventParams {
		return gdb.InsertTransactionSubmittedEventParams{Index: index, BlockNumber: bn, BlockHash: bh, TxIndex: 1, LogIndex: 2, Eon: eon,
			IdentityPrefix: []byte(prefix), Sender: "snd", GasLimit: gas}
	}
	for _, p := range []gdb.InsertTransactionSubmittedEventParams{
		tse(2, 12, 1, 100, "c"), tse(0, 10, 1, 100, "a"), tse(1, 11, 1, 100, "b"), tse(0, 10, 2, 100, "z"),
	} {
		tag, err := q.InsertTransactionSubmittedEvent(ctx, p)
		t.noErr(err, "InsertTransactionSubmittedEvent")
		t.eq(tag.RowsAffected(), int64(1), "InsertTransactionSubmittedEvent rows")
	}
	c, _ = q.GetTransactionSubmittedEventCount(ctx, 1)
	t.eq(c, int64(3), "event count = max(index)+1")
	tag, err := q.InsertTransactionSubmittedEvent(ctx, tse(1, 11, 1, 555, "b2"))
	t.noErr(err, "InsertTransactionSubmittedEvent conflict")
	t.eq(tag.RowsAffected(), int64(1), "upsert rows")
	_, err = q.InsertTransactionSubmittedEvent(ctx, tse(7, 11, 1, -5, "neg"))
	t.pgErr(err, "23514", "negative gas limit")
	evs, err := q.GetTransactionSubmittedEvents(ctx, gdb.GetTransactionSubmittedEventsParams{Eon: 1, Index: 1, Limit: 5})
	t.noErr(err, "GetTransactionSubmittedEvents")
	t.eq(evs, []gdb.TransactionSubmittedEvent{
		{Index: 1, BlockNumber: 11, BlockHash: bh, TxIndex: 1, LogIndex: 2, Eon: 1, IdentityPrefix: []byte("b2"), Sender: "snd", GasLimit: 555},
		{Index: 2, BlockNumber: 12, BlockHash: bh, TxIndex: 1, LogIndex: 2, Eon: 1, IdentityPrefix: []byte("c"), Sender: "snd", GasLimit: 100},
	}, "GetTransactionSubmittedEvents from index 1")
	evs, _ = q.GetTransactionSubmittedEvents(ctx, gdb.GetTransactionSubmittedEventsParams{Eon: 1, Index: 0, Limit: 2})
	t.check(len(evs) == 2 && evs[0].Index == 0 && evs[1].Index == 1, "GetTransactionSubmittedEvents limit 2: %v", evs)
	evs, _ = q.GetTransactionSubmittedEvents(ctx, gdb.GetTransactionSubmittedEventsParams{Eon: 3, Index: 0, Limit: 2})
	t.eq(len(evs), 0, "GetTransactionSubmittedEvents other eon")
	t.noErr(q.DeleteTransactionSubmittedEventsFromBlockNumber(ctx, 11), "DeleteTransactionSubmittedEventsFromBlockNumber")
	t.eq(t.tableLen("transaction_submitted_event"), 2, "events below block 11 remain")
	c, _ = q.GetTransactionSubmittedEventCount(ctx, 1)
	t.eq(c, int64(1), "event count after delete")

	// --- synced until tables
	_, err = q.GetTransactionSubmittedEventsSyncedUntil(ctx)
	t.noRows(err, "GetTransactionSubmittedEventsSyncedUntil empty")
	t.noErr(q.SetTransactionSubmittedEventsSyncedUntil(ctx, gdb.SetTransactionSubmittedEventsSyncedUntilParams{BlockHash: []byte("a"), BlockNumber: 1, Slot: 2}), "SetTransactionSubmittedEventsSyncedUntil")
	t.noErr(q.SetTransactionSubmittedEventsSyncedUntil(ctx, gdb.SetTransactionSubmittedEventsSyncedUntilParams{BlockHash: []byte("b"), BlockNumber: 3, Slot: 4}), "SetTransactionSubmittedEventsSyncedUntil")
	ts, err := q.GetTransactionSubmittedEventsSyncedUntil(ctx)
	t.noErr(err, "GetTransactionSubmittedEventsSyncedUntil")
	t.eq(ts, gdb.TransactionSubmittedEventsSyncedUntil{EnforceOneRow: true, BlockHash: []byte("b"), BlockNumber: 3, Slot: 4}, "tx submitted synced until")
	_, err = q.GetValidatorRegistrationsSyncedUntil(ctx)
	t.noRows(err, "GetValidatorRegistrationsSyncedUntil empty")
	t.noErr(q.SetValidatorRegistrationsSyncedUntil(ctx, gdb.SetValidatorRegistrationsSyncedUntilParams{BlockHash: []byte("a"), BlockNumber: 1}), "SetValidatorRegistrationsSyncedUntil")
	t.noErr(q.SetValidatorRegistrationsSyncedUntil(ctx, gdb.SetValidatorRegistrationsSyncedUntilParams{BlockHash: []byte("c"), BlockNumber: 8}), "SetValidatorRegistrationsSyncedUntil")
	vs, err := q.GetValidatorRegistrationsSyncedUntil(ctx)
	t.noErr(err, "GetValidatorRegistrationsSyncedUntil")
	t.eq(vs, gdb.ValidatorRegistrationsSyncedUntil{EnforceOneRow: true, BlockHash: []byte("c"), BlockNumber: 8}, "validator registrations synced until")

	// --- current_decryption_trigger (gnosis flavour, separate from the shutterservice table)
	before := t.tableLen(pgfake.TableServiceCurrentDecryptionTrigger)
	t.noErr(q.SetCurrentDecryptionTrigger(ctx, gdb.SetCurrentDecryptionTriggerParams{Eon: 1, Slot: 5, TxPointer: 2, IdentitiesHash: []byte("h")}), "SetCurrentDecryptionTrigger")
	t.noErr(q.SetCurrentDecryptionTrigger(ctx, gdb.SetCurrentDecryptionTriggerParams{Eon: 1, Slot: 6, TxPointer: 3, IdentitiesHash: []byte("h2")}), "SetCurrentDecryptionTrigger")
	cd, err := q.GetCurrentDecryptionTrigger(ctx, 1)
	t.noErr(err, "GetCurrentDecryptionTrigger")
	t.eq(cd, gdb.CurrentDecryptionTrigger{Eon: 1, Slot: 6, TxPointer: 3, IdentitiesHash: []byte("h2")}, "gnosis decryption trigger")
	_, err = q.GetCurrentDecryptionTrigger(ctx, 2)
	t.noRows(err, "GetCurrentDecryptionTrigger missing")
	t.eq(t.tableLen(pgfake.TableGnosisCurrentDecryptionTrigger), 1, "gnosis trigger rows")
	t.eq(t.tableLen(pgfake.TableServiceCurrentDecryptionTrigger), before, "shutterservice trigger table untouched")

	// --- slot_decryption_signatures
	h := []byte("ih")
	sds := func(kidx, txp int64, hash []byte, sig string) gdb.InsertSlotDecryptionSignatureParams {
		return gdb.InsertSlotDecryptionSignatureParams{Eon: 1, Slot: 7, KeyperIndex: kidx, TxPointer: txp, IdentitiesHash: hash, Signature: []byte(sig)}
	}
	for _, p := range []gdb.InsertSlotDecryptionSignatureParams{
		sds(2, 4, h, "s2"), sds(0, 4, h, "s0"), sds(1, 9, h, "wrongtxp"), sds(3, 4, []byte("zz"), "wronghash"), sds(4, 4, h, "s4"), sds(0, 4, h, "dup"),
	} {
		t.noErr(q.InsertSlotDecryptionSignature(ctx, p), "InsertSlotDecryptionSignature")
	}
	t.eq(t.tableLen("slot_decryption_signatures"), 5, "slot signatures rows")
	ss, err := q.GetSlotDecryptionSignatures(ctx, gdb.GetSlotDecryptionSignaturesParams{Eon: 1, Slot: 7, TxPointer: 4, IdentitiesHash: h, Limit: 2})
	t.noErr(err, "GetSlotDecryptionSignatures")
	t.eq(ss, []gdb.SlotDecryptionSignature{
		{Eon: 1, Slot: 7, KeyperIndex: 0, TxPointer: 4, IdentitiesHash: h, Signature: []byte("s0")},
		{Eon: 1, Slot: 7, KeyperIndex: 2, TxPointer: 4, IdentitiesHash: h, Signature: []byte("s2")},
	}, "GetSlotDecryptionSignatures limit 2")
	ss, _ = q.GetSlotDecryptionSignatures(ctx, gdb.GetSlotDecryptionSignaturesParams{Eon: 1, Slot: 7, TxPointer: 4, IdentitiesHash: h, Limit: 100})
	t.eq(len(ss), 3, "GetSlotDecryptionSignatures all")

	// --- validator_registrations
	vr := func(bn, tx, log, vidx, nonce int64, reg bool) gdb.InsertValidatorRegistrationParams {
		return gdb.InsertValidatorRegistrationParams{BlockNumber: bn, BlockHash: bh, TxIndex: tx, LogIndex: log, ValidatorIndex: vidx, Nonce: nonce, IsRegistration: reg}
	}
	n, err := q.GetNumValidatorRegistrations(ctx)
	t.noErr(err, "GetNumValidatorRegistrations")
	t.eq(n, int64(0), "no registrations")
	for _, p := range []gdb.InsertValidatorRegistrationParams{
		vr(10, 0, 0, 7, 1, true), vr(12, 1, 0, 7, 2, false), vr(12, 0, 5, 7, 3, true), vr(11, 0, 0, 8, 1, true),
		vr(10, 0, 0, 8, 9, true), // same log position, other validator: allowed since migration V2
	} {
		t.noErr(q.InsertValidatorRegistration(ctx, p), "InsertValidatorRegistration")
	}
	t.pgErr(q.InsertValidatorRegistration(ctx, vr(10, 0, 0, 7, 5, false)), "23505", "InsertValidatorRegistration duplicate")
	n, _ = q.GetNumValidatorRegistrations(ctx)
	t.eq(n, int64(5), "registrations")
	reg, err := q.IsValidatorRegistered(ctx, gdb.IsValidatorRegisteredParams{ValidatorIndex: 7, BlockNumber: 12})
	t.noErr(err, "IsValidatorRegistered")
	t.eq(reg, true, "registered before block 12")
	reg, _ = q.IsValidatorRegistered(ctx, gdb.IsValidatorRegisteredParams{ValidatorIndex: 7, BlockNumber: 13})
	t.eq(reg, false, "latest event before block 13 is the deregistration at (12,1,0)")
	_, err = q.IsValidatorRegistered(ctx, gdb.IsValidatorRegisteredParams{ValidatorIndex: 7, BlockNumber: 10})
	t.noRows(err, "IsValidatorRegistered strictly before")
	nonce, err := q.GetValidatorRegistrationNonceBefore(ctx, gdb.GetValidatorRegistrationNonceBeforeParams{ValidatorIndex: 7, BlockNumber: 12, TxIndex: 0, LogIndex: 5})
	t.noErr(err, "GetValidatorRegistrationNonceBefore")
	t.eq(nonce, int64(3), "nonce before (12,0,5)")
	nonce, _ = q.GetValidatorRegistrationNonceBefore(ctx, gdb.GetValidatorRegistrationNonceBeforeParams{ValidatorIndex: 7, BlockNumber: 12, TxIndex: 1, LogIndex: 0})
	t.eq(nonce, int64(2), "nonce before (12,1,0): the three bounds are independent, (12,0,5) is excluded by log_index")
	_, err = q.GetValidatorRegistrationNonceBefore(ctx, gdb.GetValidatorRegistrationNonceBeforeParams{ValidatorIndex: 9, BlockNumber: 12, TxIndex: 1, LogIndex: 0})
	t.noRows(err, "GetValidatorRegistrationNonceBefore unknown validator")
}
