package main

import (
	"database/sql"
	"errors"
	"time"

	"github.com/jackc/pgx/v4"

	kdb "github.com/shutter-network/rolling-shutter/rolling-shutter/keyper/database"
)

func testKeyper(t *T) {
	ctx := t.ctx
	q := kdb.New(t.pool)

	// --- last_batch_config_sent / last_block_seen (initial rows from the schema file)
	v, err := q.GetLastBatchConfigProcessed(ctx)
	t.noErr(err, "GetLastBatchConfigProcessed")
	t.eq(v, int64(0), "initial last batch config")
	v, err = q.GetLastBlockSeen(ctx)
	t.noErr(err, "GetLastBlockSeen")
	t.eq(v, int64(-1), "initial last block seen")
	t.noErr(q.SetLastBatchConfigProcessed(ctx, 5), "SetLastBatchConfigProcessed")
	t.noErr(q.SetLastBlockSeen(ctx, 42), "SetLastBlockSeen")
	v, _ = q.GetLastBatchConfigProcessed(ctx)
	t.eq(v, int64(5), "last batch config after set")
	v, _ = q.GetLastBlockSeen(ctx)
	t.eq(v, int64(42), "last block seen after set")
	t.eq(t.tableLen("last_batch_config_sent"), 1, "last_batch_config_sent stays one row")
	t.eq(t.tableLen("last_block_seen"), 1, "last_block_seen stays one row")

	// --- decryption_key
	tag, err := q.InsertDecryptionKey(ctx, kdb.InsertDecryptionKeyParams{Eon: 1, EpochID: []byte("a"), DecryptionKey: []byte("k1")})
	t.noErr(err, "InsertDecryptionKey")
	t.eq(tag.RowsAffected(), int64(1), "InsertDecryptionKey rows affected")
	tag, err = q.InsertDecryptionKey(ctx, kdb.InsertDecryptionKeyParams{Eon: 1, EpochID: []byte("a"), DecryptionKey: []byte("k2")})
	t.noErr(err, "InsertDecryptionKey dup")
	t.eq(tag.RowsAffected(), int64(0), "InsertDecryptionKey conflict rows affected")
	dk, err := q.GetDecryptionKey(ctx, kdb.GetDecryptionKeyParams{Eon: 1, EpochID: []byte("a")})
	t.noErr(err, "GetDecryptionKey")
	t.eq(dk, kdb.DecryptionKey{Eon: 1, EpochID: []byte("a"), DecryptionKey: []byte("k1")}, "decryption key keeps first value")
	_, err = q.GetDecryptionKey(ctx, kdb.GetDecryptionKeyParams{Eon: 2, EpochID: []byte("a")})
	t.noRows(err, "GetDecryptionKey missing")
	ex, err := q.ExistsDecryptionKey(ctx, kdb.ExistsDecryptionKeyParams{Eon: 1, EpochID: []byte("a")})
	t.noErr(err, "ExistsDecryptionKey")
	t.eq(ex, true, "ExistsDecryptionKey present")
	ex, _ = q.ExistsDecryptionKey(ctx, kdb.ExistsDecryptionKeyParams{Eon: 1, EpochID: []byte("b")})
	t.eq(ex, false, "ExistsDecryptionKey absent")

	// --- decryption_key_share
	for _, s := range []kdb.InsertDecryptionKeyShareParams{
		{Eon: 1, EpochID: []byte("a"), KeyperIndex: 0, DecryptionKeyShare: []byte("s0")},
		{Eon: 1, EpochID: []byte("a"), KeyperIndex: 2, DecryptionKeyShare: []byte("s2")},
		{Eon: 1, EpochID: []byte("a"), KeyperIndex: 0, DecryptionKeyShare: []byte("dup")},
		{Eon: 1, EpochID: []byte("b"), KeyperIndex: 1, DecryptionKeyShare: []byte("x")},
		{Eon: 2, EpochID: []byte("a"), KeyperIndex: 1, DecryptionKeyShare: []byte("y")},
	} {
		t.noErr(q.InsertDecryptionKeyShare(ctx, s), "InsertDecryptionKeyShare")
	}
	n, err := q.CountDecryptionKeyShares(ctx, kdb.CountDecryptionKeySharesParams{Eon: 1, EpochID: []byte("a")})
	t.noErr(err, "CountDecryptionKeyShares")
	t.eq(n, int64(2), "CountDecryptionKeyShares")
	shares, err := q.SelectDecryptionKeyShares(ctx, kdb.SelectDecryptionKeySharesParams{Eon: 1, EpochID: []byte("a")})
	t.noErr(err, "SelectDecryptionKeyShares")
	want := []kdb.DecryptionKeyShare{
		{Eon: 1, EpochID: []byte("a"), KeyperIndex: 0, DecryptionKeyShare: []byte("s0")},
		{Eon: 1, EpochID: []byte("a"), KeyperIndex: 2, DecryptionKeyShare: []byte("s2")},
	}
	t.eq(shares, want, "SelectDecryptionKeyShares insertion order")
	t.srv.SetRowOrder(reverseOrder)
	shares, _ = q.SelectDecryptionKeyShares(ctx, kdb.SelectDecryptionKeySharesParams{Eon: 1, EpochID: []byte("a")})
	t.eq(shares, []kdb.DecryptionKeyShare{want[1], want[0]}, "SelectDecryptionKeyShares with reversing row order oracle")
	t.srv.SetRowOrder(nil)
	sh, err := q.GetDecryptionKeyShare(ctx, kdb.GetDecryptionKeyShareParams{Eon: 1, EpochID: []byte("a"), KeyperIndex: 2})
	t.noErr(err, "GetDecryptionKeyShare")
	t.eq(sh, want[1], "GetDecryptionKeyShare")
	ex, _ = q.ExistsDecryptionKeyShare(ctx, kdb.ExistsDecryptionKeyShareParams{Eon: 1, EpochID: []byte("a"), KeyperIndex: 1})
	t.eq(ex, false, "ExistsDecryptionKeyShare absent")
	ex, err = q.ExistsDecryptionKeyShare(ctx, kdb.ExistsDecryptionKeyShareParams{Eon: 1, EpochID: []byte("a"), KeyperIndex: 0})
	t.noErr(err, "ExistsDecryptionKeyShare")
	t.eq(ex, true, "ExistsDecryptionKeyShare present")

	// --- tendermint_batch_config
	bcs := []kdb.InsertBatchConfigParams{
		{KeyperConfigIndex: 0, Height: 10, Keypers: []string{"a", "b"}, Threshold: 1, Started: false, ActivationBlockNumber: 100},
		{KeyperConfigIndex: 1, Height: 20, Keypers: []string{"b", "c"}, Threshold: 2, Started: false, ActivationBlockNumber: 200},
		{KeyperConfigIndex: 2, Height: 30, Keypers: []string{"d"}, Threshold: 1, Started: true, ActivationBlockNumber: 300},
	}
	_, err = q.GetLatestBatchConfig(ctx)
	t.noRows(err, "GetLatestBatchConfig on empty table")
	for _, b := range bcs {
		t.noErr(q.InsertBatchConfig(ctx, b), "InsertBatchConfig")
	}
	t.pgErr(q.InsertBatchConfig(ctx, bcs[1]), "23505", "InsertBatchConfig duplicate")
	n, err = q.CountBatchConfigs(ctx)
	t.noErr(err, "CountBatchConfigs")
	t.eq(n, int64(3), "CountBatchConfigs")
	lb, err := q.GetLatestBatchConfig(ctx)
	t.noErr(err, "GetLatestBatchConfig")
	t.eq(lb, kdb.TendermintBatchConfig(bcs[2]), "GetLatestBatchConfig")
	n, err = q.CountBatchConfigsInBlockRange(ctx, kdb.CountBatchConfigsInBlockRangeParams{StartBlock: 100, EndBlock: 300})
	t.noErr(err, "CountBatchConfigsInBlockRange")
	t.eq(n, int64(2), "CountBatchConfigsInBlockRange [100,300)")
	cnt := func(k []string, lo, hi int64) int64 {
		n, err := q.CountBatchConfigsInBlockRangeWithKeyper(ctx, kdb.CountBatchConfigsInBlockRangeWithKeyperParams{KeyperAddress: k, StartBlock: lo, EndBlock: hi})
		t.noErr(err, "CountBatchConfigsInBlockRangeWithKeyper")
		return n
	}
	t.eq(cnt([]string{"b"}, 0, 1000), int64(2), "with keyper b")
	t.eq(cnt([]string{"d"}, 0, 300), int64(0), "with keyper d, end exclusive")
	t.eq(cnt([]string{"a", "d"}, 0, 301), int64(2), "with keypers a,d")
	t.eq(cnt([]string{"zz"}, 0, 1000), int64(0), "with unknown keyper")
	all, err := q.GetBatchConfigs(ctx)
	t.noErr(err, "GetBatchConfigs")
	t.eq(all, []kdb.TendermintBatchConfig{kdb.TendermintBatchConfig(bcs[0]), kdb.TendermintBatchConfig(bcs[1]), kdb.TendermintBatchConfig(bcs[2])}, "GetBatchConfigs")
	_, err = q.GetBatchConfig(ctx, 7)
	t.noRows(err, "GetBatchConfig missing")
	t.noErr(q.SetBatchConfigStarted(ctx, 1), "SetBatchConfigStarted")
	b1, err := q.GetBatchConfig(ctx, 1)
	t.noErr(err, "GetBatchConfig")
	wantB1 := kdb.TendermintBatchConfig(bcs[1])
	wantB1.Started = true
	t.eq(b1, wantB1, "batch config 1 started")
	b0, _ := q.GetBatchConfig(ctx, 0)
	t.eq(b0.Started, false, "batch config 0 untouched")

	// --- tendermint_sync_meta (timestamp without time zone, microseconds)
	_, err = q.TMGetSyncMeta(ctx)
	t.noRows(err, "TMGetSyncMeta empty")
	ts := func(sec int) time.Time { return time.Date(2024, 1, 2, 3, 4, sec, 123456789, time.UTC) }
	for _, m := range []kdb.TMSetSyncMetaParams{
		{CurrentBlock: 5, LastCommittedHeight: 4, SyncTimestamp: ts(1)},
		{CurrentBlock: 5, LastCommittedHeight: 6, SyncTimestamp: ts(2)},
		{CurrentBlock: 3, LastCommittedHeight: 100, SyncTimestamp: ts(3)},
	} {
		t.noErr(q.TMSetSyncMeta(ctx, m), "TMSetSyncMeta")
	}
	t.pgErr(q.TMSetSyncMeta(ctx, kdb.TMSetSyncMetaParams{CurrentBlock: 5, LastCommittedHeight: 6, SyncTimestamp: ts(9)}), "23505", "TMSetSyncMeta duplicate")
	sm, err := q.TMGetSyncMeta(ctx)
	t.noErr(err, "TMGetSyncMeta")
	t.eq(sm.CurrentBlock, int64(5), "sync meta current block")
	t.eq(sm.LastCommittedHeight, int64(6), "sync meta last committed")
	t.check(sm.SyncTimestamp.Equal(ts(2).Truncate(time.Microsecond)), "sync timestamp: got %v want %v", sm.SyncTimestamp, ts(2).Truncate(time.Microsecond))
	h, err := q.GetLastCommittedHeight(ctx)
	t.noErr(err, "GetLastCommittedHeight")
	t.eq(h, int64(6), "GetLastCommittedHeight")

	// --- puredkg
	t.noErr(q.InsertPureDKG(ctx, kdb.InsertPureDKGParams{Eon: 1, Puredkg: []byte("p1")}), "InsertPureDKG")
	t.noErr(q.InsertPureDKG(ctx, kdb.InsertPureDKGParams{Eon: 2, Puredkg: []byte("p2")}), "InsertPureDKG")
	t.noErr(q.InsertPureDKG(ctx, kdb.InsertPureDKGParams{Eon: 1, Puredkg: []byte("p1b")}), "InsertPureDKG upsert")
	t.pgErr(q.InsertPureDKG(ctx, kdb.InsertPureDKGParams{Eon: 5, Puredkg: nil}), "23502", "InsertPureDKG NULL")
	pd, err := q.SelectPureDKG(ctx)
	t.noErr(err, "SelectPureDKG")
	t.eq(pd, []kdb.Puredkg{{Eon: 1, Puredkg: []byte("p1b")}, {Eon: 2, Puredkg: []byte("p2")}}, "SelectPureDKG")
	t.noErr(q.DeletePureDKG(ctx, 1), "DeletePureDKG")
	pd, _ = q.SelectPureDKG(ctx)
	t.eq(pd, []kdb.Puredkg{{Eon: 2, Puredkg: []byte("p2")}}, "SelectPureDKG after delete")

	// --- tendermint_encryption_key (DISTINCT ON)
	for _, k := range []kdb.InsertEncryptionKeyParams{
		{Address: "x", EncryptionPublicKey: []byte("k1"), Height: 1},
		{Address: "y", EncryptionPublicKey: []byte("k3"), Height: 2},
		{Address: "x", EncryptionPublicKey: []byte("k2"), Height: 5},
		{Address: "x", EncryptionPublicKey: []byte("k2b"), Height: 5},
	} {
		t.noErr(q.InsertEncryptionKey(ctx, k), "InsertEncryptionKey")
	}
	t.eq(t.tableLen("tendermint_encryption_key"), 3, "encryption key rows")
	eks, err := q.GetEncryptionKeys(ctx)
	t.noErr(err, "GetEncryptionKeys")
	t.eq(eks, []kdb.TendermintEncryptionKey{
		{Address: "x", EncryptionPublicKey: []byte("k2b"), Height: 5},
		{Address: "y", EncryptionPublicKey: []byte("k3"), Height: 2},
	}, "GetEncryptionKeys latest per address")

	// --- tendermint_outgoing_messages (serial)
	_, err = q.GetNextShutterMessage(ctx)
	t.noRows(err, "GetNextShutterMessage empty")
	id, err := q.ScheduleSerializedShutterMessage(ctx, kdb.ScheduleSerializedShutterMessageParams{Description: "m1", Msg: []byte("b1")})
	t.noErr(err, "ScheduleSerializedShutterMessage")
	t.eq(id, int32(1), "first message id")
	id, _ = q.ScheduleSerializedShutterMessage(ctx, kdb.ScheduleSerializedShutterMessageParams{Description: "m2", Msg: []byte("b2")})
	t.eq(id, int32(2), "second message id")
	id, _ = q.ScheduleSerializedShutterMessage(ctx, kdb.ScheduleSerializedShutterMessageParams{Description: "m1", Msg: []byte("b3")})
	t.eq(id, int32(3), "third message id")
	nm, err := q.GetNextShutterMessage(ctx)
	t.noErr(err, "GetNextShutterMessage")
	t.eq(nm, kdb.TendermintOutgoingMessage{ID: 1, Description: "m1", Msg: []byte("b1")}, "next message")
	t.noErr(q.DeleteShutterMessage(ctx, 1), "DeleteShutterMessage")
	nm, _ = q.GetNextShutterMessage(ctx)
	t.eq(nm.ID, int32(2), "next message after delete")
	t.noErr(q.DeleteShutterMessageByDesc(ctx, "m1"), "DeleteShutterMessageByDesc")
	t.eq(t.tableLen("tendermint_outgoing_messages"), 1, "messages after delete by desc")
	// a rolled back insert still consumes a sequence value
	errBoom := errors.New("boom")
	err = t.pool.BeginFunc(ctx, func(tx pgx.Tx) error {
		id, err := kdb.New(tx).ScheduleSerializedShutterMessage(ctx, kdb.ScheduleSerializedShutterMessageParams{Description: "r", Msg: []byte("r")})
		t.noErr(err, "schedule in tx")
		t.eq(id, int32(4), "id in rolled back tx")
		return errBoom
	})
	t.check(errors.Is(err, errBoom), "BeginFunc should return the callback error, got %v", err)
	id, _ = q.ScheduleSerializedShutterMessage(ctx, kdb.ScheduleSerializedShutterMessageParams{Description: "m5", Msg: []byte("b5")})
	t.eq(id, int32(5), "sequence is not rolled back")
	t.noErr(q.DeleteShutterMessage(ctx, 2), "DeleteShutterMessage")
	t.noErr(q.DeleteShutterMessage(ctx, 5), "DeleteShutterMessage")
	_, err = q.GetNextShutterMessage(ctx)
	t.noRows(err, "GetNextShutterMessage after deleting all")

	// --- eons
	eons := []kdb.InsertEonParams{
		{Eon: 1, Height: 10, ActivationBlockNumber: 100, KeyperConfigIndex: 0},
		{Eon: 2, Height: 20, ActivationBlockNumber: 200, KeyperConfigIndex: 1},
		{Eon: 3, Height: 25, ActivationBlockNumber: 200, KeyperConfigIndex: 1},
		{Eon: 4, Height: 30, ActivationBlockNumber: 300, KeyperConfigIndex: 2},
	}
	for _, e := range []int{2, 0, 3, 1} { // insertion order differs from eon order
		t.noErr(q.InsertEon(ctx, eons[e]), "InsertEon")
	}
	t.pgErr(q.InsertEon(ctx, eons[0]), "23505", "InsertEon duplicate")
	e2, err := q.GetEon(ctx, 2)
	t.noErr(err, "GetEon")
	t.eq(e2, kdb.Eon(eons[1]), "GetEon 2")
	_, err = q.GetEon(ctx, 9)
	t.noRows(err, "GetEon missing")
	ae, err := q.GetAllEons(ctx)
	t.noErr(err, "GetAllEons")
	t.eq(ae, []kdb.Eon{kdb.Eon(eons[0]), kdb.Eon(eons[1]), kdb.Eon(eons[2]), kdb.Eon(eons[3])}, "GetAllEons ordered")
	eb, err := q.GetEonForBlockNumber(ctx, 250)
	t.noErr(err, "GetEonForBlockNumber")
	t.eq(eb, kdb.Eon(eons[2]), "GetEonForBlockNumber 250: activation DESC then height DESC")
	eb, _ = q.GetEonForBlockNumber(ctx, 100)
	t.eq(eb, kdb.Eon(eons[0]), "GetEonForBlockNumber 100 (inclusive)")
	_, err = q.GetEonForBlockNumber(ctx, 99)
	t.noRows(err, "GetEonForBlockNumber before first")
	le, err := q.GetLatestStartedEonByKeyperConfigIndex(ctx, 1)
	t.noErr(err, "GetLatestStartedEonByKeyperConfigIndex")
	t.eq(le, kdb.Eon(eons[2]), "latest eon of config 1")
	_, err = q.GetLatestStartedEonByKeyperConfigIndex(ctx, 7)
	t.noRows(err, "GetLatestStartedEonByKeyperConfigIndex missing")
	mx, err := q.GetLatestEonForKeyperConfig(ctx, 1)
	t.noErr(err, "GetLatestEonForKeyperConfig")
	t.eq(mx, int32(3), "max eon of config 1")
	_, err = q.GetLatestEonForKeyperConfig(ctx, 7)
	t.check(err != nil && !errors.Is(err, pgx.ErrNoRows), "GetLatestEonForKeyperConfig without eon: max() is NULL, scanning into int32 must fail, got %v", err)
	isK, err := q.GetKeyperStateForEon(ctx, kdb.GetKeyperStateForEonParams{KeyperAddress: []string{"b"}, Eon: 2})
	t.noErr(err, "GetKeyperStateForEon")
	t.eq(isK, true, "b is keyper in eon 2")
	isK, err = q.GetKeyperStateForEon(ctx, kdb.GetKeyperStateForEonParams{KeyperAddress: []string{"a"}, Eon: 2})
	t.noErr(err, "GetKeyperStateForEon")
	t.eq(isK, false, "a is not keyper in eon 2")
	_, err = q.GetKeyperStateForEon(ctx, kdb.GetKeyperStateForEonParams{KeyperAddress: []string{"a"}, Eon: 99})
	t.noRows(err, "GetKeyperStateForEon unknown eon")

	// --- poly_evals + join
	for _, pe := range []kdb.InsertPolyEvalParams{
		{Eon: 2, ReceiverAddress: "x", Eval: []byte("e1")},
		{Eon: 2, ReceiverAddress: "y", Eval: []byte("e2")},
		{Eon: 1, ReceiverAddress: "x", Eval: []byte("e3")},
		{Eon: 1, ReceiverAddress: "nokey", Eval: []byte("e4")},
		{Eon: 99, ReceiverAddress: "x", Eval: []byte("e5")},
	} {
		t.noErr(q.InsertPolyEval(ctx, pe), "InsertPolyEval")
	}
	t.pgErr(q.InsertPolyEval(ctx, kdb.InsertPolyEvalParams{Eon: 2, ReceiverAddress: "x", Eval: []byte("dup")}), "23505", "InsertPolyEval duplicate")
	pes, err := q.PolyEvalsWithEncryptionKeys(ctx)
	t.noErr(err, "PolyEvalsWithEncryptionKeys")
	t.eq(pes, []kdb.PolyEvalsWithEncryptionKeysRow{
		{Eon: 1, ReceiverAddress: "x", Eval: []byte("e3"), EncryptionPublicKey: []byte("k2b"), Height: 10},
		{Eon: 2, ReceiverAddress: "x", Eval: []byte("e1"), EncryptionPublicKey: []byte("k2b"), Height: 20},
		{Eon: 2, ReceiverAddress: "y", Eval: []byte("e2"), EncryptionPublicKey: []byte("k3"), Height: 20},
	}, "PolyEvalsWithEncryptionKeys")
	t.noErr(q.DeletePolyEval(ctx, kdb.DeletePolyEvalParams{Eon: 2, ReceiverAddress: "y"}), "DeletePolyEval")
	tag, err = q.DeletePolyEvalByEon(ctx, 1)
	t.noErr(err, "DeletePolyEvalByEon")
	t.eq(tag.RowsAffected(), int64(2), "DeletePolyEvalByEon rows")
	t.eq(t.tableLen("poly_evals"), 2, "poly_evals left")

	// --- dkg_result
	for _, r := range []kdb.InsertDKGResultParams{
		{Eon: 2, Success: true, PureResult: []byte("r2")},
		{Eon: 3, Success: false, Error: sql.NullString{String: "boom", Valid: true}},
		{Eon: 1, Success: true, PureResult: []byte("r1")},
	} {
		t.noErr(q.InsertDKGResult(ctx, r), "InsertDKGResult")
	}
	r3, err := q.GetDKGResult(ctx, 3)
	t.noErr(err, "GetDKGResult")
	t.eq(r3, kdb.DkgResult{Eon: 3, Success: false, Error: sql.NullString{String: "boom", Valid: true}, PureResult: nil}, "GetDKGResult 3")
	ar, err := q.GetAllDKGResults(ctx)
	t.noErr(err, "GetAllDKGResults")
	t.check(len(ar) == 3 && ar[0].Eon == 1 && ar[1].Eon == 2 && ar[2].Eon == 3, "GetAllDKGResults order: %v", ar)
	t.check(len(ar) == 3 && !ar[1].Error.Valid && string(ar[1].PureResult) == "r2", "GetAllDKGResults NULL error / result: %v", ar)
	rb, err := q.GetDKGResultForBlockNumber(ctx, 250)
	t.noErr(err, "GetDKGResultForBlockNumber")
	t.eq(rb.Eon, int64(3), "GetDKGResultForBlockNumber 250 -> eon 3")
	_, err = q.GetDKGResultForBlockNumber(ctx, 99)
	t.noRows(err, "GetDKGResultForBlockNumber no eon (eon = NULL)")
	_, err = q.GetDKGResultForBlockNumber(ctx, 1000)
	t.noRows(err, "GetDKGResultForBlockNumber eon 4 has no result")
	rk, err := q.GetDKGResultForKeyperConfigIndex(ctx, 1)
	t.noErr(err, "GetDKGResultForKeyperConfigIndex")
	t.eq(rk.Eon, int64(3), "GetDKGResultForKeyperConfigIndex 1 -> max eon 3")
	_, err = q.GetDKGResultForKeyperConfigIndex(ctx, 2)
	t.noRows(err, "GetDKGResultForKeyperConfigIndex: eon 4 has no result")
	_, err = q.GetDKGResultForKeyperConfigIndex(ctx, 7)
	t.noRows(err, "GetDKGResultForKeyperConfigIndex: max() is NULL")

	// --- outgoing_eon_keys: CTE delete + joins
	for _, k := range []kdb.InsertEonPublicKeyParams{
		{EonPublicKey: []byte("pk2"), Eon: 2}, {EonPublicKey: []byte("pk4"), Eon: 4}, {EonPublicKey: []byte("pk77"), Eon: 77},
	} {
		t.noErr(q.InsertEonPublicKey(ctx, k), "InsertEonPublicKey")
	}
	gk, err := q.GetAndDeleteEonPublicKeys(ctx)
	t.noErr(err, "GetAndDeleteEonPublicKeys")
	t.eq(gk, []kdb.GetAndDeleteEonPublicKeysRow{
		{EonPublicKey: []byte("pk2"), Eon: 2, ActivationBlockNumber: 200, Keypers: []string{"b", "c"}, KeyperConfigIndex: 1},
		{EonPublicKey: []byte("pk4"), Eon: 4, ActivationBlockNumber: 300, Keypers: []string{"d"}, KeyperConfigIndex: 2},
	}, "GetAndDeleteEonPublicKeys")
	t.eq(t.tableLen("outgoing_eon_keys"), 0, "all outgoing eon keys deleted, also the one without join partner")
	gk, err = q.GetAndDeleteEonPublicKeys(ctx)
	t.noErr(err, "GetAndDeleteEonPublicKeys again")
	t.eq(len(gk), 0, "GetAndDeleteEonPublicKeys empty")
}
