// Command pgfaketest is the self-test of the pgfake fake PostgreSQL server.
// It drives the repository's own sqlc-generated query packages against pgfake
// and compares the results with expectations derived by hand from the SQL.
//
//	pgfaketest            run the self-test
//	pgfaketest -hashes    print "<statement key> <hash>" for all statements
package main

import (
	"context"
	"errors"
	"flag"
	"fmt"
	"os"
	"reflect"
	"sort"
	"strings"
	"time"

	"github.com/jackc/pgconn"
	"github.com/jackc/pgx/v4"
	"github.com/jackc/pgx/v4/pgxpool"

	"verifharness/pgfake"
)

type T struct {
	ctx       context.Context
	srv       *pgfake.Server
	pool      *pgxpool.Pool
	fails     []string
	checks    int
	exercised map[string]bool
	section   string
}

func (t *T) failf(format string, a ...any) {
	t.fails = append(t.fails, "["+t.section+"] "+fmt.Sprintf(format, a...))
}

func (t *T) check(cond bool, format string, a ...any) {
	t.checks++
	if !cond {
		t.failf(format, a...)
	}
}

// eq compares with reflect.DeepEqual.
func (t *T) eq(got, want any, what string) {
	t.checks++
	if !reflect.DeepEqual(got, want) {
		t.failf("%s: got %#v, want %#v", what, got, want)
	}
}

func (t *T) noErr(err error, what string) bool {
	t.checks++
	if err != nil {
		t.failf("%s: unexpected error: %v", what, err)
		return false
	}
	return true
}

func (t *T) noRows(err error, what string) {
	t.checks++
	if !errors.Is(err, pgx.ErrNoRows) {
		t.failf("%s: expected pgx.ErrNoRows, got %v", what, err)
	}
}

func sqlState(err error) string {
	var pe *pgconn.PgError
	if errors.As(err, &pe) {
		return pe.Code
	}
	var fe *pgfake.PgError // returned by the direct Store API
	if errors.As(err, &fe) {
		return fe.Code
	}
	return ""
}

func (t *T) pgErr(err error, code, what string) {
	t.checks++
	if got := sqlState(err); got != code {
		t.failf("%s: expected SQLSTATE %s, got %q (%v)", what, code, got, err)
	}
}

// harvest records which statements have been executed so far.
func (t *T) harvest() {
	for _, e := range t.srv.MsgLog() {
		if (e.Kind == "Execute" || e.Kind == "Query") && strings.Contains(e.Stmt, ".") {
			t.exercised[e.Stmt] = true
		}
	}
}

func (t *T) resetCounters() {
	t.harvest()
	t.srv.ResetCounters()
}

func (t *T) tableLen(name string) int {
	tb := t.srv.Store().Table(name)
	if tb == nil {
		t.failf("no table %s", name)
		return -1
	}
	return tb.Len()
}

func reverseOrder(_ string, n int) []int {
	p := make([]int, n)
	for i := range p {
		p[i] = n - 1 - i
	}
	return p
}

func main() {
	hashes := flag.Bool("hashes", false, "print `key hash` for all statements and exit")
	repo := flag.String("repo", pgfake.DefaultRepoRoot, "repository root")
	flag.Parse()
	if *hashes {
		stmts, err := pgfake.LoadStatements(*repo)
		if err != nil {
			fmt.Fprintln(os.Stderr, err)
			os.Exit(1)
		}
		for _, s := range stmts {
			fmt.Println(s.Key, s.Hash)
		}
		return
	}
	start := time.Now()
	ctx, cancel := context.WithTimeout(context.Background(), 60*time.Second)
	defer cancel()
	srv, err := pgfake.Start(pgfake.Options{RepoRoot: *repo})
	if err != nil {
		fmt.Println("FAIL: start:", err)
		os.Exit(1)
	}
	defer srv.Close()
	pool, err := srv.Pool(ctx)
	if err != nil {
		fmt.Println("FAIL: pool:", err)
		os.Exit(1)
	}
	defer pool.Close()
	t := &T{ctx: ctx, srv: srv, pool: pool, exercised: map[string]bool{}}

	sections := []struct {
		name string
		f    func(*T)
	}{
		{"ties", testTies},
		{"keyper", testKeyper},
		{"shutterservice", testService},
		{"gnosis", testGnosis},
		{"primev", testPrimev},
		{"observer+medley", testObserverMedley},
		{"store-api", testStoreAPI},
		{"transactions", testTransactions},
		{"faults", testFaults},
		{"concurrency", testConcurrency},
		{"unix-socket", testUnix},
		{"tie-detection", testTieDetection},
		{"runtime-issues", testRuntimeIssues},
	}
	for _, s := range sections {
		t.section = s.name
		func() {
			defer func() {
				if r := recover(); r != nil {
					t.failf("panic: %v", r)
				}
			}()
			s.f(t)
		}()
	}

	// every implemented statement must have been executed at least once
	t.section = "coverage"
	t.harvest()
	nImpl := 0
	for _, si := range srv.Statements() {
		if !si.Implemented {
			continue
		}
		nImpl++
		if !t.exercised[si.Key] {
			t.failf("statement %s was never executed by the self-test", si.Key)
		}
	}
	var ex []string
	for k := range t.exercised {
		ex = append(ex, k)
	}
	sort.Strings(ex)

	if len(t.fails) > 0 {
		for _, f := range t.fails {
			fmt.Println("FAIL:", f)
		}
		fmt.Printf("PGFAKE SELFTEST FAILED: %d failures, %d checks, %d/%d statements exercised, %v\n",
			len(t.fails), t.checks, len(ex), nImpl, time.Since(start).Round(time.Millisecond))
		os.Exit(1)
	}
	fmt.Printf("PGFAKE SELFTEST OK %d statements exercised (%d implemented, %d checks, %v)\n",
		len(ex), nImpl, t.checks, time.Since(start).Round(time.Millisecond))
}

func testTies(t *T) {
	for _, ti := range t.srv.Ties() {
		t.check(ti.Informational(), "unexpected tie issue on the unchanged repository: %s", ti)
	}
	t.eq(len(t.srv.RuntimeIssues()), 0, "runtime issues at start")
	err := t.pool.Ping(t.ctx)
	t.noErr(err, "ping")
}
