//go:build verif

// Driver for C14 (keypers read chain events exactly as shuttermint wrote them).
//
// Streams:
//
//	value      x.MakeABCIEvent() and MakeEvent(.., h) on generated values of all eight event types
//	malformed  MakeEvent on mutated / random ABCI events
//	list       smobserver.makeEvents on lists mixing both
//	app        ABCI histories on the real shuttermint application (verifharness/appdrv): every raw
//	           event of every response against the application model's event written with the
//	           model of MakeABCIEvent (type, keys, values, index flags, order)
//
// Oracle (independent of the Coq model): round trip gives back the value; nothing panics; an
// event is accepted iff the reference grammar below (regular expressions + big.Int + the
// dependencies' own point/key decoders + our own EIP-55) accepts it, with the same values;
// makeEvents keeps exactly the accepted events in order.
package main

import (
	"bytes"
	"crypto/ecdsa"
	"encoding/base64"
	"encoding/hex"
	"encoding/json"
	"errors"
	"fmt"
	"math"
	"math/big"
	"reflect"
	"regexp"
	"sort"
	"strings"

	"github.com/ethereum/go-ethereum/common"
	"github.com/ethereum/go-ethereum/common/hexutil"
	ethcrypto "github.com/ethereum/go-ethereum/crypto"
	"github.com/ethereum/go-ethereum/crypto/ecies"
	"github.com/rs/zerolog"
	blst "github.com/supranational/blst/bindings/go"
	abcitypes "github.com/tendermint/tendermint/abci/types"
	tmproto "github.com/tendermint/tendermint/proto/tendermint/types"
	"golang.org/x/crypto/sha3"

	"github.com/shutter-network/shutter/shlib/shcrypto"

	"github.com/shutter-network/rolling-shutter/rolling-shutter/app"
	"github.com/shutter-network/rolling-shutter/rolling-shutter/keyper/shutterevents"
	"github.com/shutter-network/rolling-shutter/rolling-shutter/keyper/smobserver"
	"github.com/shutter-network/rolling-shutter/rolling-shutter/shmsg"

	"verifharness/appdrv"
	"verifharness/vh"
)

// ---------------------------------------------------------------------------------------
// projected events

type mEvent struct {
	Kind        string   `json:"kind"`
	Height      int64    `json:"height"`
	Sender      []byte   `json:"sender,omitempty"`
	Eon         uint64   `json:"eon,omitempty"`
	Activation  uint64   `json:"activation,omitempty"`
	Threshold   uint64   `json:"threshold,omitempty"`
	ConfigIndex uint64   `json:"config_index,omitempty"`
	Addrs       [][]byte `json:"addrs,omitempty"`
	Bytes       [][]byte `json:"bytes,omitempty"`
	BigInts     []string `json:"bigints,omitempty"`
	Gammas      [][]byte `json:"gammas,omitempty"`
	Key         []byte   `json:"key,omitempty"`
	Started     bool     `json:"started,omitempty"`
	ValUpdated  bool     `json:"validators_updated,omitempty"`
	// how empty lists are represented on the Go side (nil or empty slice); not an observable
	EmptyNotNil bool `json:"empty_not_nil,omitempty"`
	KeyParamsOK bool `json:"-"`
}

type mAttr struct {
	K     []byte `json:"k"`
	V     []byte `json:"v"`
	Index bool   `json:"index,omitempty"`
}

type mABCI struct {
	Type  []byte  `json:"type"`
	Attrs []mAttr `json:"attrs"`
}

var kinds = []string{"CheckIn", "BatchConfig", "BatchConfigStarted", "EonStarted", "PolyCommitment", "PolyEval", "Accusation", "Apology"}

func addrOf(b []byte) common.Address {
	var a common.Address
	copy(a[:], b)
	return a
}

func addrsOf(m mEvent) []common.Address {
	if len(m.Addrs) == 0 {
		if m.EmptyNotNil {
			return []common.Address{}
		}
		return nil
	}
	out := make([]common.Address, len(m.Addrs))
	for i, b := range m.Addrs {
		out[i] = addrOf(b)
	}
	return out
}

func pointOf(b []byte) *blst.P2Affine {
	p := new(blst.P2Affine).Uncompress(b)
	if p == nil || !p.InG2() {
		panic("driver: invalid point in a generated value")
	}
	return p
}

// toGo builds the real event struct from the projection.
func toGo(m mEvent) shutterevents.IEvent {
	switch m.Kind {
	case "CheckIn":
		pk, err := ethcrypto.UnmarshalPubkey(m.Key)
		if err != nil {
			panic("driver: invalid key in a generated value")
		}
		return &shutterevents.CheckIn{Height: m.Height, Sender: addrOf(m.Sender), EncryptionPublicKey: ecies.ImportECDSAPublic(pk)}
	case "BatchConfig":
		return &shutterevents.BatchConfig{Height: m.Height, Keypers: addrsOf(m), ActivationBlockNumber: m.Activation,
			Threshold: m.Threshold, KeyperConfigIndex: m.ConfigIndex, Started: m.Started, ValidatorsUpdated: m.ValUpdated}
	case "BatchConfigStarted":
		return &shutterevents.BatchConfigStarted{Height: m.Height, KeyperConfigIndex: m.ConfigIndex}
	case "EonStarted":
		return &shutterevents.EonStarted{Height: m.Height, Eon: m.Eon, ActivationBlockNumber: m.Activation, KeyperConfigIndex: m.ConfigIndex}
	case "PolyCommitment":
		g := shcrypto.Gammas{}
		for _, b := range m.Gammas {
			g = append(g, pointOf(b))
		}
		return &shutterevents.PolyCommitment{Height: m.Height, Eon: m.Eon, Sender: addrOf(m.Sender), Gammas: &g}
	case "PolyEval":
		var evals [][]byte
		if len(m.Bytes) > 0 || m.EmptyNotNil {
			evals = [][]byte{}
			for _, b := range m.Bytes {
				if len(b) == 0 && !m.EmptyNotNil {
					evals = append(evals, nil)
				} else {
					evals = append(evals, append([]byte{}, b...))
				}
			}
		}
		return &shutterevents.PolyEval{Height: m.Height, Sender: addrOf(m.Sender), Eon: m.Eon, Receivers: addrsOf(m), EncryptedEvals: evals}
	case "Accusation":
		return &shutterevents.Accusation{Height: m.Height, Eon: m.Eon, Sender: addrOf(m.Sender), Accused: addrsOf(m)}
	case "Apology":
		var pe []*big.Int
		if m.EmptyNotNil {
			pe = []*big.Int{}
		}
		for _, s := range m.BigInts {
			x, ok := new(big.Int).SetString(s, 10)
			if !ok {
				panic("driver: bad big integer in a generated value")
			}
			pe = append(pe, x)
		}
		return &shutterevents.Apology{Height: m.Height, Eon: m.Eon, Sender: addrOf(m.Sender), Accusers: addrsOf(m), PolyEval: pe}
	}
	panic("driver: unknown kind " + m.Kind)
}

func bytesList(as []common.Address) [][]byte {
	var out [][]byte
	for _, a := range as {
		out = append(out, append([]byte{}, a[:]...))
	}
	return out
}

// fromGo projects a decoded event.
func fromGo(ev shutterevents.IEvent) (mEvent, error) {
	switch x := ev.(type) {
	case *shutterevents.CheckIn:
		m := mEvent{Kind: "CheckIn", Height: x.Height, Sender: x.Sender.Bytes()}
		if x.EncryptionPublicKey == nil {
			return m, errors.New("nil EncryptionPublicKey")
		}
		m.Key = ethcrypto.FromECDSAPub(x.EncryptionPublicKey.ExportECDSA())
		m.KeyParamsOK = x.EncryptionPublicKey.Params == ecies.ECIES_AES128_SHA256 && x.EncryptionPublicKey.Curve == ethcrypto.S256()
		if !m.KeyParamsOK {
			return m, errors.New("decoded ECIES key has unexpected curve or parameters")
		}
		return m, nil
	case *shutterevents.BatchConfig:
		return mEvent{Kind: "BatchConfig", Height: x.Height, Addrs: bytesList(x.Keypers), Activation: x.ActivationBlockNumber,
			Threshold: x.Threshold, ConfigIndex: x.KeyperConfigIndex, Started: x.Started, ValUpdated: x.ValidatorsUpdated}, nil
	case *shutterevents.BatchConfigStarted:
		return mEvent{Kind: "BatchConfigStarted", Height: x.Height, ConfigIndex: x.KeyperConfigIndex}, nil
	case *shutterevents.EonStarted:
		return mEvent{Kind: "EonStarted", Height: x.Height, Eon: x.Eon, Activation: x.ActivationBlockNumber, ConfigIndex: x.KeyperConfigIndex}, nil
	case *shutterevents.PolyCommitment:
		m := mEvent{Kind: "PolyCommitment", Height: x.Height, Eon: x.Eon, Sender: x.Sender.Bytes()}
		if x.Gammas != nil {
			for _, p := range *x.Gammas {
				if p == nil {
					return m, errors.New("nil gamma")
				}
				m.Gammas = append(m.Gammas, p.Compress())
			}
		}
		return m, nil
	case *shutterevents.PolyEval:
		m := mEvent{Kind: "PolyEval", Height: x.Height, Sender: x.Sender.Bytes(), Eon: x.Eon, Addrs: bytesList(x.Receivers)}
		for _, b := range x.EncryptedEvals {
			m.Bytes = append(m.Bytes, append([]byte{}, b...))
		}
		return m, nil
	case *shutterevents.Accusation:
		return mEvent{Kind: "Accusation", Height: x.Height, Eon: x.Eon, Sender: x.Sender.Bytes(), Addrs: bytesList(x.Accused)}, nil
	case *shutterevents.Apology:
		m := mEvent{Kind: "Apology", Height: x.Height, Eon: x.Eon, Sender: x.Sender.Bytes(), Addrs: bytesList(x.Accusers)}
		for _, e := range x.PolyEval {
			if e == nil {
				return m, errors.New("nil big integer")
			}
			m.BigInts = append(m.BigInts, e.String())
		}
		return m, nil
	}
	return mEvent{}, fmt.Errorf("unexpected event type %T", ev)
}

// canon normalises what is not an observable (nil versus empty).
func canon(m mEvent) mEvent {
	m.EmptyNotNil = false
	m.KeyParamsOK = false
	if len(m.Sender) == 0 {
		m.Sender = nil
	}
	if len(m.Addrs) == 0 {
		m.Addrs = nil
	}
	if len(m.Bytes) == 0 {
		m.Bytes = nil
	}
	for i := range m.Bytes {
		if len(m.Bytes[i]) == 0 {
			m.Bytes[i] = []byte{}
		}
	}
	if len(m.BigInts) == 0 {
		m.BigInts = nil
	}
	if len(m.Gammas) == 0 {
		m.Gammas = nil
	}
	if len(m.Key) == 0 {
		m.Key = nil
	}
	return m
}

func sameEvent(a, b mEvent) bool { return reflect.DeepEqual(canon(a), canon(b)) }

func coqEvent(m mEvent) string {
	h := vh.CZ(m.Height)
	switch m.Kind {
	case "CheckIn":
		return vh.CApp("XCheckIn", h, cb(m.Sender), cb(m.Key))
	case "BatchConfig":
		return vh.CApp("XBatchConfig", h, cbl(m.Addrs), vh.CN(m.Activation), vh.CN(m.Threshold), vh.CN(m.ConfigIndex), vh.CBool(m.Started), vh.CBool(m.ValUpdated))
	case "BatchConfigStarted":
		return vh.CApp("XBatchConfigStarted", h, vh.CN(m.ConfigIndex))
	case "EonStarted":
		return vh.CApp("XEonStarted", h, vh.CN(m.Eon), vh.CN(m.Activation), vh.CN(m.ConfigIndex))
	case "PolyCommitment":
		return vh.CApp("XPolyCommitment", h, vh.CN(m.Eon), cb(m.Sender), cbl(m.Gammas))
	case "PolyEval":
		return vh.CApp("XPolyEval", h, cb(m.Sender), vh.CN(m.Eon), cbl(m.Addrs), cbl(m.Bytes))
	case "Accusation":
		return vh.CApp("XAccusation", h, vh.CN(m.Eon), cb(m.Sender), cbl(m.Addrs))
	case "Apology":
		xs := make([]string, len(m.BigInts))
		for i, s := range m.BigInts {
			xs[i] = s + "%N"
		}
		return vh.CApp("XApology", h, vh.CN(m.Eon), cb(m.Sender), cbl(m.Addrs), vh.CList(xs))
	}
	panic("coqEvent: " + m.Kind)
}

// cb renders a byte string as (pk len [i1; ...]%uint63): seven bytes per primitive integer.
func cb(b []byte) string {
	if len(b) == 0 {
		return "(pk 0 [])"
	}
	var sb strings.Builder
	fmt.Fprintf(&sb, "(pk %d [", len(b))
	for i := 0; i < len(b); i += 7 {
		j := min(i+7, len(b))
		if i > 0 {
			sb.WriteString("; ")
		}
		sb.WriteString("0x" + hex.EncodeToString(b[i:j]))
	}
	sb.WriteString("]%uint63)")
	return sb.String()
}

func cbl(bs [][]byte) string {
	xs := make([]string, len(bs))
	for i, b := range bs {
		xs[i] = cb(b)
	}
	return vh.CList(xs)
}

func toABCI(a mABCI) abcitypes.Event {
	ev := abcitypes.Event{Type: string(a.Type)}
	for _, at := range a.Attrs {
		ev.Attributes = append(ev.Attributes, abcitypes.EventAttribute{Key: string(at.K), Value: string(at.V), Index: at.Index})
	}
	return ev
}

func fromABCI(ev abcitypes.Event) mABCI {
	a := mABCI{Type: []byte(ev.Type)}
	for _, at := range ev.Attributes {
		a.Attrs = append(a.Attrs, mAttr{K: []byte(at.Key), V: []byte(at.Value), Index: at.Index})
	}
	return a
}

func coqABCI(a mABCI) string {
	xs := make([]string, len(a.Attrs))
	for i, at := range a.Attrs {
		xs[i] = vh.CApp("A", cb(at.K), cb(at.V), vh.CBool(at.Index))
	}
	return vh.CPair(cb(a.Type), vh.CList(xs))
}

// ---------------------------------------------------------------------------------------
// tables for the abstract codecs, computed with the dependencies directly

type tables struct {
	cas   map[string][]byte
	pts   map[string][]byte
	keys  map[string][]byte
	ckeys map[string][]byte
	ord   [4][]string
}

func newTables() *tables {
	return &tables{cas: map[string][]byte{}, pts: map[string][]byte{}, keys: map[string][]byte{}, ckeys: map[string][]byte{}}
}

// addCompressedKey records what crypto.DecompressPubkey makes of a 33-byte key.
func (t *tables) addCompressedKey(k []byte) {
	if _, ok := t.ckeys[string(k)]; ok {
		return
	}
	pk, err := ethcrypto.DecompressPubkey(k)
	if err != nil {
		return
	}
	t.ckeys[string(k)] = ethcrypto.FromECDSAPub(pk)
	t.ord[3] = append(t.ord[3], string(k))
}

func (t *tables) addAddr(a common.Address) {
	k := string(a[:])
	if _, ok := t.cas[k]; ok {
		return
	}
	h := a.Hex()[2:]
	mask := make([]byte, len(h))
	for i := 0; i < len(h); i++ {
		if h[i] >= 'A' && h[i] <= 'F' {
			mask[i] = 1
		}
	}
	t.cas[k] = mask
	t.ord[0] = append(t.ord[0], k)
}

func validPoint(chunk []byte) ([]byte, bool) {
	p := new(blst.P2Affine).Uncompress(chunk)
	if p == nil || !p.InG2() {
		return nil, false
	}
	return p.Compress(), true
}

func validKey(b []byte) ([]byte, *ecdsa.PublicKey, bool) {
	pk, err := ethcrypto.UnmarshalPubkey(b)
	if err != nil {
		return nil, nil, false
	}
	return ethcrypto.FromECDSAPub(pk), pk, true
}

func (t *tables) addString(v []byte) {
	s := string(v)
	t.addAddr(common.HexToAddress(s))
	if strings.Contains(s, ",") {
		for _, piece := range strings.Split(s, ",") {
			t.addAddr(common.HexToAddress(piece))
		}
	}
	if b, err := hex.DecodeString(s); err == nil && len(b) > 0 && len(b)%blst.BLST_P2_COMPRESS_BYTES == 0 {
		for i := 0; i+blst.BLST_P2_COMPRESS_BYTES <= len(b); i += blst.BLST_P2_COMPRESS_BYTES {
			chunk := b[i : i+blst.BLST_P2_COMPRESS_BYTES]
			if _, ok := t.pts[string(chunk)]; ok {
				continue
			}
			if c, ok := validPoint(chunk); ok {
				t.pts[string(chunk)] = c
				t.ord[1] = append(t.ord[1], string(chunk))
			}
		}
	}
	if b, err := base64.RawURLEncoding.DecodeString(s); err == nil && len(b) == 65 {
		if _, ok := t.keys[string(b)]; !ok {
			if c, _, ok := validKey(b); ok {
				t.keys[string(b)] = c
				t.ord[2] = append(t.ord[2], string(b))
			}
		}
	}
}

func (t *tables) addEvent(m mEvent) {
	if len(m.Sender) == 20 {
		t.addAddr(addrOf(m.Sender))
	}
	for _, a := range m.Addrs {
		t.addAddr(addrOf(a))
	}
}

func (t *tables) addABCI(a mABCI) {
	for _, at := range a.Attrs {
		t.addString(at.V)
	}
}

func (t *tables) coq() string {
	part := func(m map[string][]byte, ord []string) string {
		xs := make([]string, len(ord))
		for i, k := range ord {
			xs[i] = vh.CPair(cb([]byte(k)), cb(m[k]))
		}
		return vh.CList(xs)
	}
	return vh.CApp("T", part(t.cas, t.ord[0]), part(t.pts, t.ord[1]), part(t.keys, t.ord[2]), part(t.ckeys, t.ord[3]))
}

// ---------------------------------------------------------------------------------------
// error classes

func classify(err error) (string, bool) {
	msg := err.Error()
	var cie base64.CorruptInputError
	switch {
	case strings.HasPrefix(msg, "cannot make event from type "):
		return "EUnknownType", true
	case strings.HasPrefix(msg, "expected at least "):
		return "ETooFew", true
	case strings.HasPrefix(msg, "bad attribute, parsing event "):
		i := strings.LastIndex(msg, " at position ")
		var pos int
		if i < 0 {
			return "", false
		}
		if _, e := fmt.Sscanf(msg[i:], " at position %d", &pos); e != nil || pos < 0 {
			return "", false
		}
		return fmt.Sprintf("(EBadKey %d)", pos), true
	case strings.HasPrefix(msg, "failed to parse event"):
		return "(EDecode CUint64)", true
	case strings.HasPrefix(msg, "invalid address "):
		return "(EDecode CAddress)", true
	case strings.HasPrefix(msg, "malformed address: "):
		return "(EDecode CAddresses)", true
	case strings.HasPrefix(msg, "failed to decode gammas"), strings.HasPrefix(msg, "failed to unmarshal gammas"):
		return "(EDecode CGammas)", true
	case errors.Is(err, hexutil.ErrEmptyString), errors.Is(err, hexutil.ErrMissingPrefix), errors.Is(err, hexutil.ErrSyntax), errors.Is(err, hexutil.ErrOddLength):
		return "(EDecode CByteSequence)", true
	case errors.As(err, &cie), msg == "invalid secp256k1 public key":
		return "(EDecode CECIESPublicKey)", true
	}
	return "", false
}

// ---------------------------------------------------------------------------------------
// reference grammar (the oracle's own reading of "well-formed event")

var (
	reUint     = regexp.MustCompile(`^[0-9]+$`)
	reAddr     = regexp.MustCompile(`^0x[0-9a-fA-F]{40}$`)
	reAddrItem = regexp.MustCompile(`^(0[xX])?[0-9a-fA-F]{40}$`)
	reHexItem  = regexp.MustCompile(`^0[xX]([0-9a-fA-F]{2})*$`)
	reHex      = regexp.MustCompile(`^([0-9a-fA-F]{2})*$`)
	reB64      = regexp.MustCompile(`^[A-Za-z0-9_-]*$`)
)

func eip55(a []byte) string {
	low := hex.EncodeToString(a)
	h := sha3.NewLegacyKeccak256()
	h.Write([]byte(low))
	sum := h.Sum(nil)
	out := []byte(low)
	for i := range out {
		nib := sum[i/2] >> 4
		if i%2 == 1 {
			nib = sum[i/2] & 0xf
		}
		if out[i] >= 'a' && out[i] <= 'f' && nib >= 8 {
			out[i] -= 32
		}
	}
	return "0x" + string(out)
}

func unhexRef(s string) []byte {
	b, err := hex.DecodeString(strings.ToLower(s))
	if err != nil {
		panic("driver: reference hex")
	}
	return b
}

type refKind int

const (
	rkUint refKind = iota
	rkAddr
	rkAddrs
	rkBytes
	rkBigInts
	rkGammas
	rkKey
)

type refAttr struct {
	key  string
	kind refKind
	set  func(m *mEvent, v any)
}

func setAddrs(m *mEvent, v any)  { m.Addrs = v.([][]byte) }
func setSender(m *mEvent, v any) { m.Sender = v.([]byte) }
func setEon(m *mEvent, v any)    { m.Eon = v.(uint64) }

var refSchema = map[string]struct {
	kind  string
	attrs []refAttr
}{
	"shutter.check-in": {"CheckIn", []refAttr{{"Sender", rkAddr, setSender}, {"EncryptionPublicKey", rkKey, func(m *mEvent, v any) { m.Key = v.([]byte) }}}},
	"shutter.batch-config": {"BatchConfig", []refAttr{
		{"ActivationBlockNumber", rkUint, func(m *mEvent, v any) { m.Activation = v.(uint64) }},
		{"Threshold", rkUint, func(m *mEvent, v any) { m.Threshold = v.(uint64) }},
		{"Keypers", rkAddrs, setAddrs},
		{"ConfigIndex", rkUint, func(m *mEvent, v any) { m.ConfigIndex = v.(uint64) }}}},
	"shutter.batch-config-started": {"BatchConfigStarted", []refAttr{{"ConfigIndex", rkUint, func(m *mEvent, v any) { m.ConfigIndex = v.(uint64) }}}},
	"shutter.eon-started": {"EonStarted", []refAttr{
		{"Eon", rkUint, setEon},
		{"ActivationBlockNumber", rkUint, func(m *mEvent, v any) { m.Activation = v.(uint64) }},
		{"KeyperConfigIndex", rkUint, func(m *mEvent, v any) { m.ConfigIndex = v.(uint64) }}}},
	"shutter.poly-commitment-registered": {"PolyCommitment", []refAttr{{"Sender", rkAddr, setSender}, {"Eon", rkUint, setEon},
		{"Gammas", rkGammas, func(m *mEvent, v any) { m.Gammas = v.([][]byte) }}}},
	"shutter.poly-eval-registered": {"PolyEval", []refAttr{{"Sender", rkAddr, setSender}, {"Eon", rkUint, setEon}, {"Receivers", rkAddrs, setAddrs},
		{"EncryptedEvals", rkBytes, func(m *mEvent, v any) { m.Bytes = v.([][]byte) }}}},
	"shutter.accusation-registered": {"Accusation", []refAttr{{"Sender", rkAddr, setSender}, {"Eon", rkUint, setEon}, {"Accused", rkAddrs, setAddrs}}},
	"shutter.apology-registered": {"Apology", []refAttr{{"Sender", rkAddr, setSender}, {"Eon", rkUint, setEon}, {"Accusers", rkAddrs, setAddrs},
		{"PolyEvals", rkBigInts, func(m *mEvent, v any) { m.BigInts = v.([]string) }}}},
}

func refValue(k refKind, s string) (any, bool) {
	switch k {
	case rkUint:
		if !reUint.MatchString(s) {
			return nil, false
		}
		x, _ := new(big.Int).SetString(s, 10)
		if !x.IsUint64() {
			return nil, false
		}
		return x.Uint64(), true
	case rkAddr:
		if !reAddr.MatchString(s) {
			return nil, false
		}
		a := unhexRef(s[2:])
		if eip55(a) != s {
			return nil, false
		}
		return a, true
	case rkAddrs:
		var out [][]byte
		if s == "" {
			return out, true
		}
		for _, it := range strings.Split(s, ",") {
			if !reAddrItem.MatchString(it) {
				return nil, false
			}
			out = append(out, unhexRef(it[len(it)-40:]))
		}
		return out, true
	case rkBytes, rkBigInts:
		var out [][]byte
		if s != "" {
			for _, it := range strings.Split(s, ",") {
				if !reHexItem.MatchString(it) {
					return nil, false
				}
				out = append(out, unhexRef(it[2:]))
			}
		}
		if k == rkBytes {
			return out, true
		}
		var ints []string
		for _, b := range out {
			ints = append(ints, new(big.Int).SetBytes(b).String())
		}
		return ints, true
	case rkGammas:
		if !reHex.MatchString(s) {
			return nil, false
		}
		b := unhexRef(s)
		if len(b)%96 != 0 {
			return nil, false
		}
		var out [][]byte
		for i := 0; i < len(b); i += 96 {
			c, ok := validPoint(b[i : i+96])
			if !ok {
				return nil, false
			}
			out = append(out, c)
		}
		return out, true
	case rkKey:
		t := strings.NewReplacer("\r", "", "\n", "").Replace(s)
		if !reB64.MatchString(t) || len(t)%4 == 1 {
			return nil, false
		}
		b, err := base64.RawURLEncoding.DecodeString(t)
		if err != nil {
			return nil, false
		}
		c, _, ok := validKey(b)
		if !ok {
			return nil, false
		}
		return c, true
	}
	return nil, false
}

// refDecode: the event the keyper should read, or (false, reason) if the event is malformed.
func refDecode(a mABCI, h int64) (mEvent, bool, string) {
	sc, ok := refSchema[string(a.Type)]
	if !ok {
		return mEvent{}, false, "unknown type"
	}
	if len(a.Attrs) < len(sc.attrs) {
		return mEvent{}, false, "too few attributes"
	}
	for i, ra := range sc.attrs {
		if string(a.Attrs[i].K) != ra.key {
			return mEvent{}, false, fmt.Sprintf("attribute %d is not %s", i, ra.key)
		}
	}
	m := mEvent{Kind: sc.kind, Height: h}
	for i, ra := range sc.attrs {
		v, ok := refValue(ra.kind, string(a.Attrs[i].V))
		if !ok {
			return mEvent{}, false, fmt.Sprintf("attribute %s is malformed", ra.key)
		}
		ra.set(&m, v)
	}
	return m, true, ""
}

// ---------------------------------------------------------------------------------------
// cases

type theCase struct {
	Kind  string  `json:"case"` // value | malformed | list
	Ev    *mEvent `json:"ev,omitempty"`
	H     int64   `json:"h"`
	ABCI  *mABCI  `json:"abci,omitempty"`
	ABCIs []mABCI `json:"abcis,omitempty"`
	Note  string  `json:"note,omitempty"`
	// app stream: a history of ABCI calls on the real application
	History *appdrv.History `json:"history,omitempty"`
}

type decodeObs struct {
	Result string  `json:"result"` // ok | error | panic
	Event  *mEvent `json:"event,omitempty"`
	Error  string  `json:"error,omitempty"`
	Class  string  `json:"class,omitempty"`
}

// realDecode runs MakeEvent under recover and renders the result as a Coq `result ev`.
func realDecode(run *vh.Run, a mABCI, h int64, c theCase) (obs decodeObs, coq string, got *mEvent) {
	var ev shutterevents.IEvent
	var err error
	panicked, msg := vh.Guard(func() { ev, err = shutterevents.MakeEvent(toABCI(a), h) })
	switch {
	case panicked:
		run.Violate(vh.Violation{Key: "C14:decode-panic", What: "MakeEvent panicked: " + msg, Case: c})
		return decodeObs{Result: "panic", Error: msg}, "RPanic", nil
	case err != nil:
		cl, ok := classify(err)
		if !ok {
			run.Violate(vh.Violation{Key: "C14:unclassified-error", What: "MakeEvent returned an error of no known class: " + err.Error(), Case: c})
			cl = "EUnknownType"
		}
		return decodeObs{Result: "error", Error: err.Error(), Class: cl}, vh.CApp("RErr", cl), nil
	}
	m, perr := fromGo(ev)
	if perr != nil {
		run.Violate(vh.Violation{Key: "C14:decoded-value-unusable", What: "MakeEvent returned an unusable value: " + perr.Error(), Case: c})
		return decodeObs{Result: "ok", Error: perr.Error()}, "RPanic", nil
	}
	return decodeObs{Result: "ok", Event: &m}, vh.CApp("ROk", coqEvent(m)), &m
}

func runValue(run *vh.Run, c theCase) {
	m := *c.Ev
	id := run.NextID()
	var abci abcitypes.Event
	panicked, msg := vh.Guard(func() { abci = toGo(m).MakeABCIEvent() })
	t := newTables()
	t.addEvent(m)
	if panicked {
		run.Violate(vh.Violation{Key: "C14:encode-panic:" + m.Kind, What: "MakeABCIEvent panicked: " + msg, Case: c})
		run.AddCase(id, vh.CApp("CEnc", vh.CN(id), t.coq(), coqEvent(m), "RPanic"), c, "", false)
		return
	}
	a := fromABCI(abci)
	run.AddCase(id, vh.CApp("CEnc", vh.CN(id), t.coq(), coqEvent(m), vh.CApp("ROk", coqABCI(a))), c, canonKey(c), nontrivialValue(m))
	// decode what was encoded
	id2 := run.NextID()
	t2 := newTables()
	t2.addABCI(a)
	obs, coq, got := realDecode(run, a, c.H, c)
	want := m
	want.Height = c.H
	switch {
	case obs.Result == "error":
		run.Violate(vh.Violation{Key: "C14:roundtrip-error:" + m.Kind, What: "an event emitted by the application is rejected by the keyper: " + obs.Error,
			Case: c, Observed: map[string]any{"abci": a, "decode": obs}, Expected: want})
	case got != nil && !sameEvent(*got, want):
		run.Violate(vh.Violation{Key: "C14:roundtrip-mismatch:" + m.Kind, What: "an event emitted by the application decodes to other values",
			Case: c, Observed: map[string]any{"abci": a, "decode": obs}, Expected: want})
	}
	run.Dist["value:"+m.Kind+":"+obs.Result]++
	if m.Kind == "CheckIn" {
		run.Dist["checkin-key:"+keyClass(m.Key)]++
	}
	dc := theCase{Kind: "malformed", ABCI: &a, H: c.H, Note: "encoding of a generated value"}
	run.AddCase(id2, vh.CApp("CDec", vh.CN(id2), t2.coq(), coqABCI(a), vh.CZ(c.H), coq), dc, canonKey(dc), nontrivialValue(m))
}

func runMalformed(run *vh.Run, c theCase) {
	a := *c.ABCI
	id := run.NextID()
	t := newTables()
	t.addABCI(a)
	obs, coq, got := realDecode(run, a, c.H, c)
	want, wok, why := refDecode(a, c.H)
	switch {
	case obs.Result == "panic":
	case wok && obs.Result == "error":
		run.Violate(vh.Violation{Key: "C14:wellformed-rejected:" + want.Kind, What: "a well-formed event is rejected: " + obs.Error, Case: c, Observed: obs, Expected: want})
	case !wok && obs.Result == "ok":
		run.Violate(vh.Violation{Key: "C14:malformed-accepted", What: "a malformed event (" + why + ") is decoded instead of being reported", Case: c, Observed: obs})
	case wok && got != nil && !sameEvent(*got, want):
		run.Violate(vh.Violation{Key: "C14:misdecoded:" + want.Kind, What: "the decoded values are not the ones the attributes denote", Case: c, Observed: obs, Expected: want})
	}
	if got != nil {
		// what was decoded must survive being written again (never mis-decoded)
		var again shutterevents.IEvent
		var err error
		panicked, msg := vh.Guard(func() { again, err = shutterevents.MakeEvent(toGo(*got).MakeABCIEvent(), c.H) })
		if panicked {
			run.Violate(vh.Violation{Key: "C14:reencode-panic", What: "re-encoding a decoded event panicked: " + msg, Case: c, Observed: obs})
		} else if err != nil {
			run.Violate(vh.Violation{Key: "C14:reencode-rejected", What: "re-encoding a decoded event gives an event that is rejected: " + err.Error(), Case: c, Observed: obs})
		} else if m2, e2 := fromGo(again); e2 != nil || !sameEvent(m2, *got) {
			run.Violate(vh.Violation{Key: "C14:reencode-mismatch", What: "re-encoding a decoded event and decoding again gives other values", Case: c, Observed: obs})
		}
	}
	cls := obs.Result
	if obs.Result == "error" {
		cls = obs.Class
		if strings.HasPrefix(cls, "(EBadKey") {
			cls = "EBadKey"
		}
	}
	run.Dist["decode:"+cls]++
	run.AddCase(id, vh.CApp("CDec", vh.CN(id), t.coq(), coqABCI(a), vh.CZ(c.H), coq), c, canonKey(c), obs.Result == "ok" || len(a.Attrs) > 0)
}

func runList(run *vh.Run, c theCase) {
	id := run.NextID()
	t := newTables()
	var evs []abcitypes.Event
	var want []mEvent
	for _, a := range c.ABCIs {
		t.addABCI(a)
		evs = append(evs, toABCI(a))
		if m, ok, _ := refDecode(a, c.H); ok {
			want = append(want, m)
		}
	}
	var res []shutterevents.IEvent
	panicked, msg := vh.Guard(func() { res = smobserver.VerifMakeEvents(c.H, evs) })
	if panicked {
		run.Violate(vh.Violation{Key: "C14:makeEvents-panic", What: "makeEvents panicked: " + msg, Case: c})
		run.AddCase(id, vh.CApp("CList", vh.CN(id), t.coq(), vh.CZ(c.H), coqABCIs(c.ABCIs), "RPanic"), c, canonKey(c), false)
		return
	}
	var got []mEvent
	xs := []string{}
	bad := false
	for _, e := range res {
		m, err := fromGo(e)
		if err != nil {
			run.Violate(vh.Violation{Key: "C14:decoded-value-unusable", What: "makeEvents returned an unusable value: " + err.Error(), Case: c})
			bad = true
			break
		}
		got = append(got, m)
		xs = append(xs, coqEvent(m))
	}
	same := len(got) == len(want)
	for i := 0; same && i < len(got); i++ {
		same = sameEvent(got[i], want[i])
	}
	if !same && !bad {
		run.Violate(vh.Violation{Key: "C14:makeEvents-wrong-list", What: "makeEvents does not return exactly the well-formed events in order", Case: c, Observed: got, Expected: want})
	}
	run.Dist[fmt.Sprintf("list:in=%d,out=%d", min(len(evs), 6), min(len(got), 6))]++
	obs := vh.CApp("ROk", vh.CList(xs))
	if bad {
		obs = "RPanic"
	}
	run.AddCase(id, vh.CApp("CList", vh.CN(id), t.coq(), vh.CZ(c.H), coqABCIs(c.ABCIs), obs), c, canonKey(c), len(got) > 0 && len(got) < len(evs))
}

// ---------------------------------------------------------------------------------------
// app stream: the raw ABCI events of the real application against the application model's
// events written with the model of MakeABCIEvent

var reHx = regexp.MustCompile(`\(hx "([0-9a-f]*)"\)`)

// packHx rewrites the (hx "..") literals appdrv emits into the packed form of this driver.
func packHx(s string) string {
	return reHx.ReplaceAllStringFunc(s, func(m string) string {
		b, err := hex.DecodeString(m[5 : len(m)-2])
		if err != nil {
			panic("packHx: " + m)
		}
		return cb(b)
	})
}

func rawExec(a *app.ShutterApp, c appdrv.Call) (evs []abcitypes.Event, panicked bool, msg string) {
	panicked, msg = vh.Guard(func() {
		switch c.Kind {
		case "begin":
			evs = a.BeginBlock(abcitypes.RequestBeginBlock{Header: tmproto.Header{Height: c.Height}}).Events
		case "check":
			a.CheckTx(abcitypes.RequestCheckTx{Tx: c.Tx})
		case "deliver":
			evs = a.DeliverTx(abcitypes.RequestDeliverTx{Tx: c.Tx}).Events
		case "end":
			evs = a.EndBlock(abcitypes.RequestEndBlock{Height: c.Height}).Events
		case "commit":
			a.Commit()
		default:
			panic("bad call kind " + c.Kind)
		}
	})
	return
}

func runApp(run *vh.Run, c theCase) {
	h := *c.History
	id := run.NextID()
	a, err := appdrv.NewApp(h.Genesis)
	if err != nil {
		panic(err)
	}
	t := newTables()
	calls := make([]string, len(h.Calls))
	obs := make([]string, len(h.Calls))
	nev := 0
	height := int64(0)
	for i, call := range h.Calls {
		calls[i] = packHx(appdrv.CallCoq(call))
		if call.Kind == "begin" {
			height = call.Height
		}
		if call.Kind == "deliver" || call.Kind == "check" {
			if m, ok := appdrv.MessageOf(call.Tx); ok && m.GetCheckIn() != nil {
				t.addCompressedKey(m.GetCheckIn().EncryptionPublicKey)
				if call.Kind == "deliver" {
					run.Dist["app-checkin-key:"+keyClass(t.ckeys[string(m.GetCheckIn().EncryptionPublicKey)])]++
				}
			}
		}
		evs, panicked, _ := rawExec(a, call)
		if panicked {
			obs[i] = "None"
			continue
		}
		xs := make([]string, len(evs))
		for j, ev := range evs {
			ra := fromABCI(ev)
			t.addABCI(ra)
			xs[j] = coqABCI(ra)
			nev++
			run.Dist["app-event:"+ev.Type]++
			// oracle: the keyper reads every event the application writes, and what it reads
			// writes back to exactly the same event
			var x shutterevents.IEvent
			var derr error
			if p, msg := vh.Guard(func() { x, derr = shutterevents.MakeEvent(ev, height) }); p {
				run.Violate(vh.Violation{Key: "C14:app-event-decode-panic", What: "MakeEvent panicked on an event the application emitted: " + msg, Case: c, Observed: ra})
				continue
			}
			if derr != nil {
				run.Violate(vh.Violation{Key: "C14:app-event-rejected:" + ev.Type, What: "the keyper rejects an event the application emitted: " + derr.Error(), Case: c, Observed: ra})
				continue
			}
			var back abcitypes.Event
			if p, msg := vh.Guard(func() { back = x.MakeABCIEvent() }); p {
				run.Violate(vh.Violation{Key: "C14:reencode-panic", What: "re-encoding a decoded application event panicked: " + msg, Case: c, Observed: ra})
			} else if !reflect.DeepEqual(fromABCI(back), ra) {
				run.Violate(vh.Violation{Key: "C14:app-event-not-canonical:" + ev.Type, What: "an event the application emitted is not what MakeABCIEvent writes for the value the keyper reads from it", Case: c, Observed: ra, Expected: fromABCI(back)})
			}
		}
		obs[i] = vh.CSome(vh.CList(xs))
	}
	run.Dist[fmt.Sprintf("app-history:events=%d", min(nev/5*5, 30))]++
	run.AddCase(id, vh.CApp("CApp", vh.CN(id), t.coq(), packHx(appdrv.GenesisCoq(h.Genesis)), vh.CList(calls), vh.CList(obs)), c, canonKey(c), nev >= 3)
}

// dkgHistory: a scripted block in which every DKG message type is accepted, so that all eight
// event types occur in the app stream whatever the random generator does.
func dkgHistory(u *appdrv.Universe, p *pools, v int) appdrv.History {
	g := appdrv.Genesis{Threshold: 2, ChainID: "verif-chain", ForkNil: true,
		Validators: []appdrv.KV{{K: make([]byte, 32), P: 10}}}
	for i := 0; i < 4; i++ {
		g.Keypers = append(g.Keypers, u.Addrs[i].Bytes())
	}
	h := appdrv.History{Genesis: g}
	nonce := uint64(1000 * (v + 1))
	tx := func(k int, m *shmsg.Message, note string) {
		nonce++
		h.Calls = append(h.Calls, appdrv.Call{Kind: "deliver", Tx: appdrv.SignTx(u.Keys[k], g.ChainID, nonce, m), Note: note})
	}
	h.Calls = append(h.Calls, appdrv.Call{Kind: "begin", Height: 1})
	cfg := shmsg.NewBatchConfig(uint64(v), u.Addrs[:4], 2, 1)
	tx(0, cfg, "vote")
	tx(1, cfg, "vote")
	for i := 0; i < 4; i++ {
		// the encryption key of a check-in is any key the keyper chooses: half of them are keys
		// with a short coordinate
		enc := ecies.ImportECDSAPublic(&u.Keys[i].PublicKey)
		note := "checkin"
		if i%2 == 0 {
			pk, err := ethcrypto.UnmarshalPubkey(p.short[(2*v+i/2)%len(p.short)])
			if err != nil {
				panic(err)
			}
			enc = ecies.ImportECDSAPublic(pk)
			note = "checkin, encryption key with a short coordinate"
		}
		tx(i, shmsg.NewCheckIn(u.ValKeys[i], enc), note)
	}
	a, b, c := v%4, (v+1)%4, (v+2)%4
	tx(a, shmsg.NewPolyEval(1, []common.Address{u.Addrs[b], u.Addrs[c]}, [][]byte{{1, 2, 3}, {}}), "polyeval")
	tx(b, shmsg.NewPolyEval(1, []common.Address{u.Addrs[a]}, [][]byte{{0, 0, 7}}), "polyeval")
	gm := shcrypto.Gammas{}
	for i := 0; i <= v%len(u.Gammas); i++ {
		gm = append(gm, pointOf(u.Gammas[i]))
	}
	tx(a, shmsg.NewPolyCommitment(1, &gm), "commitment")
	empty := shcrypto.Gammas{}
	tx(b, shmsg.NewPolyCommitment(1, &empty), "empty commitment")
	tx(b, shmsg.NewAccusation(1, []common.Address{u.Addrs[a], u.Addrs[c]}), "accusation")
	tx(c, shmsg.NewAccusation(1, nil), "empty accusation")
	tx(a, shmsg.NewApology(1, []common.Address{u.Addrs[b], u.Addrs[c]}, []*big.Int{big.NewInt(0), new(big.Int).Lsh(big.NewInt(1), 70)}), "apology")
	tx(c, shmsg.NewApology(1, nil, nil), "empty apology")
	h.Calls = append(h.Calls, appdrv.Call{Kind: "end", Height: 1}, appdrv.Call{Kind: "commit"},
		appdrv.Call{Kind: "begin", Height: 2}, appdrv.Call{Kind: "end", Height: 2}, appdrv.Call{Kind: "commit"})
	return h
}

func genHistory(run *vh.Run, u *appdrv.Universe, i int) appdrv.History {
	g := &appdrv.Gen{U: u, R: run.RNG.Fork(), Weird: i%5 == 0}
	var h appdrv.History
	if i%2 == 1 {
		h, _, _ = g.TransitionHistory(3+run.RNG.Intn(5), 8)
	} else {
		h, _, _ = g.RandomHistory(3+run.RNG.Intn(5), 7)
	}
	return h
}

func coqABCIs(as []mABCI) string {
	xs := make([]string, len(as))
	for i, a := range as {
		xs[i] = coqABCI(a)
	}
	return vh.CList(xs)
}

func canonKey(c theCase) string {
	b, _ := json.Marshal(c)
	return string(b)
}

func nontrivialValue(m mEvent) bool {
	switch m.Kind {
	case "BatchConfigStarted", "EonStarted", "CheckIn":
		return true
	}
	return len(m.Addrs)+len(m.Bytes)+len(m.BigInts)+len(m.Gammas) > 0
}

// ---------------------------------------------------------------------------------------
// generators

type rngReader struct{ r *vh.RNG }

func (r rngReader) Read(p []byte) (int, error) {
	copy(p, r.r.Bytes(len(p)))
	return len(p), nil
}

type pools struct {
	points [][]byte
	keys   [][]byte // ordinary keys followed by the short-coordinate keys
	short  [][]byte // keys whose X and/or Y coordinate has leading zero bytes
	addrs  [][]byte
}

// keyClass names how many leading zero bytes the 32-byte coordinates of a 65-byte key have.
func keyClass(k []byte) string {
	if len(k) != 65 {
		return "malformed"
	}
	lz := func(b []byte) int {
		n := 0
		for n < len(b) && b[n] == 0 {
			n++
		}
		return n
	}
	zx, zy := lz(k[1:33]), lz(k[33:65])
	if zx == 0 && zy == 0 {
		return "full-width"
	}
	return fmt.Sprintf("x-zeros=%d,y-zeros=%d", min(zx, 2), min(zy, 2))
}

// shortCoordKeys finds, deterministically, secp256k1 public keys with a coordinate below 2^248
// (about one key in 64): private keys 1, 2, 3, ... are tried until three keys with a short X
// and three with a short Y are found (122, 130, 153, 246, ...); the rarer classes (two leading
// zero bytes, both coordinates short) come from private keys found by the same search further
// out and are checked here.  big.Int.Bytes() of such a coordinate has fewer than 32 bytes, so
// an encoder that does not pad writes fewer than 65 bytes.
func shortCoordKeys() [][]byte {
	pub := func(d int64) []byte {
		k, err := ethcrypto.ToECDSA(common.LeftPadBytes(big.NewInt(d).Bytes(), 32))
		if err != nil {
			panic(err)
		}
		return ethcrypto.FromECDSAPub(&k.PublicKey)
	}
	var out [][]byte
	nx, ny := 0, 0
	for d := int64(1); d < 5000 && (nx < 3 || ny < 3); d++ {
		k := pub(d)
		switch c := keyClass(k); {
		case strings.HasPrefix(c, "x-zeros=1,y-zeros=0") && nx < 3:
			nx++
			out = append(out, k)
		case strings.HasPrefix(c, "x-zeros=0,y-zeros=1") && ny < 3:
			ny++
			out = append(out, k)
		}
	}
	if nx < 3 || ny < 3 {
		panic("driver: no short-coordinate keys found")
	}
	for d, want := range map[int64]string{44629: "x-zeros=2,y-zeros=0", 41192: "x-zeros=0,y-zeros=2", 55959: "x-zeros=1,y-zeros=1", 62762: "x-zeros=1,y-zeros=1"} {
		k := pub(d)
		if keyClass(k) != want {
			panic(fmt.Sprintf("driver: private key %d is not of class %s but %s", d, want, keyClass(k)))
		}
		out = append(out, k)
	}
	sort.Slice(out, func(i, j int) bool { return bytes.Compare(out[i], out[j]) < 0 })
	return out
}

func makePools(r *vh.RNG) *pools {
	p := &pools{}
	// identity, generator, small and random multiples of the generator
	coeffs := []*big.Int{big.NewInt(0), big.NewInt(1), big.NewInt(2), big.NewInt(3)}
	poly, err := shcrypto.RandomPolynomial(rngReader{r}, 7)
	if err != nil {
		panic(err)
	}
	coeffs = append(coeffs, (*poly)...)
	fixed, err := shcrypto.NewPolynomial(coeffs)
	if err != nil {
		panic(err)
	}
	for _, g := range *fixed.Gammas() {
		p.points = append(p.points, g.Compress())
	}
	p.points = append(p.points, new(blst.P2Affine).Compress())
	// secp256k1 keys: private keys 1 (generator), 2 and random ones
	for i := 0; i < 8; i++ {
		d := new(big.Int).SetBytes(r.Bytes(32))
		d.Mod(d, new(big.Int).Sub(ethcrypto.S256().Params().N, big.NewInt(1)))
		d.Add(d, big.NewInt(1))
		if i < 2 {
			d = big.NewInt(int64(i + 1))
		}
		k, err := ethcrypto.ToECDSA(common.LeftPadBytes(d.Bytes(), 32))
		if err != nil {
			panic(err)
		}
		p.keys = append(p.keys, ethcrypto.FromECDSAPub(&k.PublicKey))
	}
	p.short = shortCoordKeys()
	p.keys = append(p.keys, p.short...)
	p.addrs = append(p.addrs, make([]byte, 20), bytes.Repeat([]byte{0xff}, 20), common.BigToAddress(big.NewInt(1)).Bytes(),
		common.BytesToAddress([]byte("foo")).Bytes(), common.HexToAddress("0x5aAeb6053F3E94C9b9A09f33669435E7Ef1BeAed").Bytes(),
		common.HexToAddress("0xabcdefabcdefabcdefabcdefabcdefabcdefabcd").Bytes())
	for i := 0; i < 10; i++ {
		p.addrs = append(p.addrs, r.Bytes(20))
	}
	return p
}

var boundaryU64 = []uint64{0, 1, 9, 10, 255, 256, math.MaxInt32, math.MaxUint32, math.MaxInt64, 1 << 63, math.MaxUint64 - 1, math.MaxUint64,
	9999999999999999999, 10000000000000000000}

func genU64(r *vh.RNG) uint64 {
	switch r.Intn(4) {
	case 0:
		return boundaryU64[r.Intn(len(boundaryU64))]
	case 1:
		return uint64(r.Intn(1000))
	case 2:
		return r.U64() >> uint(r.Intn(64))
	}
	return r.U64()
}

func genH(r *vh.RNG) int64 {
	switch r.Intn(5) {
	case 0:
		return 0
	case 1:
		return vh.Pick(r, int64(1), int64(-1), math.MaxInt64, math.MinInt64)
	}
	return int64(r.Intn(1 << 30))
}

func (p *pools) genAddr(r *vh.RNG) []byte {
	if r.Chance(1, 3) {
		return r.Bytes(20)
	}
	return append([]byte{}, p.addrs[r.Intn(len(p.addrs))]...)
}

func genLen(r *vh.RNG) int {
	switch r.Intn(6) {
	case 0:
		return 0
	case 1:
		return 1
	case 2:
		return 2
	}
	return 1 + r.Intn(6)
}

func (p *pools) genAddrs(r *vh.RNG) [][]byte {
	n := genLen(r)
	var out [][]byte
	for i := 0; i < n; i++ {
		out = append(out, p.genAddr(r))
	}
	return out
}

func genBytes(r *vh.RNG) []byte {
	switch r.Intn(6) {
	case 0:
		return []byte{}
	case 1:
		return []byte{0}
	case 2:
		return append([]byte{0, 0}, r.Bytes(r.Intn(4))...)
	case 3:
		return []byte(fmt.Sprintf("encrypted: %d", r.Intn(100)))
	}
	return r.Bytes(1 + r.Intn(48))
}

func genBig(r *vh.RNG) string {
	switch r.Intn(6) {
	case 0:
		return "0"
	case 1:
		return vh.Pick(r, "1", "255", "256", "65535", "65536", "18446744073709551615", "18446744073709551616")
	case 2:
		return new(big.Int).Lsh(big.NewInt(1), uint(r.Intn(300))).String()
	}
	return new(big.Int).SetBytes(r.Bytes(1 + r.Intn(33))).String()
}

func (p *pools) genEvent(r *vh.RNG, kind string) mEvent {
	m := mEvent{Kind: kind, Height: genH(r), EmptyNotNil: r.Bool()}
	switch kind {
	case "CheckIn":
		m.Sender = p.genAddr(r)
		m.Key = p.keys[r.Intn(len(p.keys))]
		if r.Chance(1, 4) {
			m.Key = p.short[r.Intn(len(p.short))]
		}
	case "BatchConfig":
		m.Addrs = p.genAddrs(r)
		m.Activation, m.Threshold, m.ConfigIndex = genU64(r), genU64(r), genU64(r)
	case "BatchConfigStarted":
		m.ConfigIndex = genU64(r)
	case "EonStarted":
		m.Eon, m.Activation, m.ConfigIndex = genU64(r), genU64(r), genU64(r)
	case "PolyCommitment":
		m.Sender, m.Eon = p.genAddr(r), genU64(r)
		n := genLen(r)
		for i := 0; i < n; i++ {
			m.Gammas = append(m.Gammas, p.points[r.Intn(len(p.points))])
		}
	case "PolyEval":
		m.Sender, m.Eon, m.Addrs = p.genAddr(r), genU64(r), p.genAddrs(r)
		n := len(m.Addrs)
		if r.Chance(1, 4) {
			n = genLen(r)
		}
		for i := 0; i < n; i++ {
			m.Bytes = append(m.Bytes, genBytes(r))
		}
	case "Accusation":
		m.Sender, m.Eon, m.Addrs = p.genAddr(r), genU64(r), p.genAddrs(r)
	case "Apology":
		m.Sender, m.Eon, m.Addrs = p.genAddr(r), genU64(r), p.genAddrs(r)
		n := len(m.Addrs)
		if r.Chance(1, 4) {
			n = genLen(r)
		}
		for i := 0; i < n; i++ {
			m.BigInts = append(m.BigInts, genBig(r))
		}
	}
	return m
}

// boundaryEvents: the forced cases (zero values, empty lists, singleton-of-empty, boundary
// integers, identity and generator points).
func (p *pools) boundaryEvents() []mEvent {
	zero := make([]byte, 20)
	ff := bytes.Repeat([]byte{0xff}, 20)
	var out []mEvent
	for i, k := range p.short {
		out = append(out, mEvent{Kind: "CheckIn", Sender: p.addrs[i%len(p.addrs)], Key: k})
	}
	for _, nn := range []bool{false, true} {
		out = append(out,
			mEvent{Kind: "CheckIn", Sender: zero, Key: p.keys[0], EmptyNotNil: nn},
			mEvent{Kind: "CheckIn", Sender: ff, Key: p.keys[1], Height: math.MaxInt64, EmptyNotNil: nn},
			mEvent{Kind: "BatchConfig", EmptyNotNil: nn},
			mEvent{Kind: "BatchConfig", Addrs: [][]byte{zero}, Activation: math.MaxUint64, Threshold: 1 << 63, ConfigIndex: math.MaxInt64, EmptyNotNil: nn},
			mEvent{Kind: "BatchConfigStarted", EmptyNotNil: nn},
			mEvent{Kind: "BatchConfigStarted", ConfigIndex: math.MaxUint64, Height: math.MinInt64, EmptyNotNil: nn},
			mEvent{Kind: "EonStarted", EmptyNotNil: nn},
			mEvent{Kind: "EonStarted", Eon: math.MaxUint64, Activation: 1 << 63, ConfigIndex: 1, EmptyNotNil: nn},
			mEvent{Kind: "PolyCommitment", Sender: zero, EmptyNotNil: nn},
			mEvent{Kind: "PolyCommitment", Sender: ff, Eon: 1, Gammas: [][]byte{p.points[0]}, EmptyNotNil: nn},
			mEvent{Kind: "PolyCommitment", Sender: ff, Eon: 2, Gammas: [][]byte{p.points[1], p.points[0], p.points[len(p.points)-1]}, EmptyNotNil: nn},
			mEvent{Kind: "PolyEval", Sender: zero, EmptyNotNil: nn},
			mEvent{Kind: "PolyEval", Sender: zero, Addrs: [][]byte{ff}, Bytes: [][]byte{{}}, EmptyNotNil: nn},
			mEvent{Kind: "PolyEval", Sender: zero, Addrs: [][]byte{ff, zero}, Bytes: [][]byte{{}, {}}, EmptyNotNil: nn},
			mEvent{Kind: "PolyEval", Sender: zero, Addrs: [][]byte{ff, zero}, Bytes: [][]byte{{0}, {0, 0, 1}}, Eon: math.MaxUint64, EmptyNotNil: nn},
			mEvent{Kind: "Accusation", Sender: zero, EmptyNotNil: nn},
			mEvent{Kind: "Accusation", Sender: ff, Addrs: [][]byte{zero}, Eon: 1 << 63, EmptyNotNil: nn},
			mEvent{Kind: "Apology", Sender: zero, EmptyNotNil: nn},
			mEvent{Kind: "Apology", Sender: ff, Addrs: [][]byte{zero}, BigInts: []string{"0"}, EmptyNotNil: nn},
			mEvent{Kind: "Apology", Sender: ff, Addrs: [][]byte{zero, ff}, BigInts: []string{"0", "0"}, EmptyNotNil: nn},
			mEvent{Kind: "Apology", Sender: ff, Addrs: [][]byte{zero, ff}, BigInts: []string{"256", "115792089237316195423570985008687907853269984665640564039457584007913129639935"}, EmptyNotNil: nn},
		)
	}
	return out
}

func encodeOf(m mEvent) (mABCI, bool) {
	var abci abcitypes.Event
	if panicked, _ := vh.Guard(func() { abci = toGo(m).MakeABCIEvent() }); panicked {
		return mABCI{}, false
	}
	return fromABCI(abci), true
}

func cloneABCI(a mABCI) mABCI {
	b := mABCI{Type: append([]byte{}, a.Type...)}
	for _, at := range a.Attrs {
		b.Attrs = append(b.Attrs, mAttr{K: append([]byte{}, at.K...), V: append([]byte{}, at.V...), Index: at.Index})
	}
	return b
}

var numberProbes = []string{"", "0", "00", "007", "+5", "-5", "-0", "1_0", "0x10", "1e3", " 5", "5 ", "5\n", "18446744073709551615", "18446744073709551616",
	"018446744073709551615", "99999999999999999999999999", "99999999999999999999999999x", "x9", "\xef\xbc\x95", "1.0", "0b1", "0o7", "\x00", "5\x00"}

// mutateString applies one character-level or grammar-level mutation.
func mutateString(r *vh.RNG, v []byte) ([]byte, string) {
	s := append([]byte{}, v...)
	pos := func() int { return r.Intn(len(s) + 1) }
	switch r.Intn(26) {
	case 0:
		return []byte{}, "empty"
	case 1:
		if len(s) > 0 {
			i := r.Intn(len(s))
			return append(s[:i], s[i+1:]...), "delete-char"
		}
	case 2:
		i := pos()
		c := vh.Pick(r, byte('0'), byte('g'), byte('G'), byte(','), byte('x'), byte('_'), byte(' '), byte('='), byte('\n'), byte('\r'), byte(0xff), byte(0), byte('a'), byte('F'), byte('-'), byte('+'), byte('/'))
		return append(s[:i], append([]byte{c}, s[i:]...)...), "insert-char"
	case 3:
		if len(s) > 0 {
			i := r.Intn(len(s))
			s[i] = byte(r.U64())
			return s, "random-byte"
		}
	case 4:
		if len(s) > 0 {
			i := r.Intn(len(s))
			s[i] = vh.Pick(r, byte('0'), byte('1'), byte('9'), byte('a'), byte('f'), byte('A'), byte('F'), byte('g'), byte('z'), byte('_'), byte('-'))
			return s, "replace-char"
		}
	case 5:
		return bytes.ToUpper(s), "upper"
	case 6:
		return bytes.ToLower(s), "lower"
	case 7:
		// flip the case of one letter (wrong checksum / hex case leniency)
		var idx []int
		for i, c := range s {
			if (c >= 'a' && c <= 'z') || (c >= 'A' && c <= 'Z') {
				idx = append(idx, i)
			}
		}
		if len(idx) > 0 {
			i := idx[r.Intn(len(idx))]
			s[i] ^= 0x20
			return s, "flip-case"
		}
	case 8:
		return bytes.ReplaceAll(s, []byte("0x"), []byte("0X")), "0X-prefix"
	case 9:
		return bytes.ReplaceAll(s, []byte("0x"), []byte("")), "strip-0x"
	case 10:
		return append([]byte("0x"), s...), "add-0x"
	case 11:
		return append([]byte(vh.Pick(r, "0", "00", "+", "-", " ", "0x0")), s...), "prefix"
	case 12:
		return append(s, []byte(vh.Pick(r, ",", ",,", ",0x", " ", "0", "=", "==", "\n", "\r\n", "A", "x", "\x00", "\xff\xfe"))...), "suffix"
	case 13:
		return append([]byte(","), s...), "leading-comma"
	case 14:
		return []byte(numberProbes[r.Intn(len(numberProbes))]), "number-probe"
	case 15:
		if len(s) > 1 {
			return s[:len(s)-1], "drop-last-char"
		}
	case 16:
		if len(s) > 1 {
			return s[1:], "drop-first-char"
		}
	case 17:
		return append(s, s...), "doubled"
	case 18:
		if i := bytes.IndexByte(s, ','); i >= 0 {
			return append(s[:i+1], append([]byte(","), s[i+1:]...)...), "double-comma"
		}
	case 19:
		// change the unused trailing bits / last character (base64 leniency)
		if len(s) > 0 {
			s[len(s)-1]++
			return s, "last-char+1"
		}
	case 20:
		i := pos()
		return append(s[:i], append([]byte("\n"), s[i:]...)...), "newline-inside"
	case 21:
		if len(s) > 4 {
			i := r.Intn(len(s) - 1)
			s[i], s[i+1] = s[i+1], s[i]
			return s, "swap-adjacent"
		}
	case 22:
		return []byte(vh.Pick(r, "0x", "0X", "0x0", "0x,0x", "0x,", ",", "0xzz", "0x0g", "00", "0x00,0X00,0xAb")), "hex-probe"
	case 23:
		return r.Bytes(r.Intn(24)), "random-bytes"
	case 24:
		if len(s) >= 96*2 {
			// replace one compressed point by bytes that are not a point
			b := []byte(hex.EncodeToString(r.Bytes(96)))
			copy(s[len(s)-192:], b)
			return s, "garbage-point"
		}
	case 25:
		return []byte(strings.Repeat("0", 1+r.Intn(30)) + string(s)), "leading-zeros"
	}
	return append(s, 'x'), "append-x"
}

// mutate produces a (probably) malformed event from a valid one.
func (p *pools) mutate(r *vh.RNG, a mABCI) (mABCI, string) {
	b := cloneABCI(a)
	n := len(b.Attrs)
	switch r.Intn(16) {
	case 0:
		if n > 0 {
			i := r.Intn(n)
			b.Attrs = append(b.Attrs[:i], b.Attrs[i+1:]...)
			return b, "remove-attr"
		}
	case 1:
		if n > 0 {
			b.Attrs = b.Attrs[:r.Intn(n)]
			return b, "truncate-attrs"
		}
	case 2:
		if n > 1 {
			i, j := r.Intn(n), r.Intn(n)
			b.Attrs[i], b.Attrs[j] = b.Attrs[j], b.Attrs[i]
			return b, "swap-attrs"
		}
	case 3:
		if n > 0 {
			i := r.Intn(n)
			k, what := mutateString(r, b.Attrs[i].K)
			b.Attrs[i].K = k
			return b, "key:" + what
		}
	case 4:
		if n > 0 {
			i := r.Intn(n)
			b.Attrs = append(b.Attrs[:i+1], b.Attrs[i:]...)
			return b, "duplicate-attr"
		}
	case 5:
		extra := mAttr{K: []byte(vh.Pick(r, "Extra", "Sender", "Eon", "")), V: []byte(vh.Pick(r, "", "1", "0x"))}
		if r.Bool() {
			b.Attrs = append(b.Attrs, extra)
			return b, "extra-attr-end"
		}
		b.Attrs = append([]mAttr{extra}, b.Attrs...)
		return b, "extra-attr-front"
	case 6:
		b.Type = []byte(vh.Pick(r, "shutter.check-in", "shutter.batch-config", "shutter.batch-config-started", "shutter.eon-started", "shutter.poly-commitment-registered",
			"shutter.poly-eval-registered", "shutter.accusation-registered", "shutter.apology-registered"))
		return b, "other-type"
	case 7:
		t, what := mutateString(r, b.Type)
		b.Type = t
		return b, "type:" + what
	case 8:
		if n > 1 {
			i, j := r.Intn(n), r.Intn(n)
			b.Attrs[i].V = append([]byte{}, b.Attrs[j].V...)
			return b, "value-of-other-attr"
		}
	case 9:
		if n > 0 {
			i := r.Intn(n)
			b.Attrs[i].Index = !b.Attrs[i].Index
			return b, "flip-index-flag"
		}
	}
	if n == 0 {
		b.Attrs = append(b.Attrs, mAttr{K: []byte("Sender"), V: []byte("0x")})
		return b, "add-attr"
	}
	i := r.Intn(n)
	v, what := mutateString(r, b.Attrs[i].V)
	b.Attrs[i].V = v
	return b, "value:" + what
}

func (p *pools) randomABCI(r *vh.RNG) mABCI {
	var a mABCI
	types := make([]string, 0, len(refSchema))
	for _, k := range kinds {
		for t, sc := range refSchema {
			if sc.kind == k {
				types = append(types, t)
			}
		}
	}
	t := types[r.Intn(len(types))]
	a.Type = []byte(t)
	sc := refSchema[t]
	n := len(sc.attrs)
	if r.Chance(1, 4) {
		n = r.Intn(n + 2)
	}
	for i := 0; i < n; i++ {
		var at mAttr
		if i < len(sc.attrs) && !r.Chance(1, 10) {
			at.K = []byte(sc.attrs[i].key)
		} else {
			at.K = []byte(vh.Pick(r, "Sender", "Eon", "", "X"))
		}
		switch r.Intn(8) {
		case 0:
			at.V = []byte(numberProbes[r.Intn(len(numberProbes))])
		case 1:
			at.V = []byte(fmt.Sprint(genU64(r)))
		case 2:
			at.V = []byte(addrOf(p.genAddr(r)).Hex())
		case 3:
			at.V = []byte(strings.ToLower(addrOf(p.genAddr(r)).Hex()))
		case 4:
			at.V = []byte(hexutil.Encode(genBytes(r)))
		case 5:
			at.V = []byte(hex.EncodeToString(p.points[r.Intn(len(p.points))]))
		case 6:
			at.V = []byte(base64.RawURLEncoding.EncodeToString(p.keys[r.Intn(len(p.keys))]))
		case 7:
			at.V = r.Bytes(r.Intn(12))
		}
		a.Attrs = append(a.Attrs, at)
	}
	return a
}

// leniencyProbes: inputs that are accepted although they are not what the encoder writes;
// they pin the leniencies the model and the reference grammar list.
func (p *pools) leniencyProbes() []theCase {
	var out []theCase
	add := func(note string, a mABCI) { out = append(out, theCase{Kind: "malformed", ABCI: &a, H: 7, Note: note}) }
	at := func(k, v string) mAttr { return mAttr{K: []byte(k), V: []byte(v)} }
	addr := "0x5aAeb6053F3E94C9b9A09f33669435E7Ef1BeAed"
	key := base64.RawURLEncoding.EncodeToString(p.keys[0])
	for _, n := range numberProbes {
		add("number "+n, mABCI{Type: []byte("shutter.batch-config-started"), Attrs: []mAttr{at("ConfigIndex", n)}})
	}
	for _, s := range []string{addr, strings.ToLower(addr), strings.ToUpper(addr), "0X" + addr[2:], addr[2:], addr + "0", "0x0" + addr[2:], " " + addr, addr[:41],
		"0x" + strings.Repeat("0", 40), "0x" + strings.Repeat("f", 40), "0x" + strings.Repeat("F", 40), "", "0x", "0x" + strings.Repeat("zz", 20), "00" + addr} {
		add("sender "+s, mABCI{Type: []byte("shutter.accusation-registered"), Attrs: []mAttr{at("Sender", s), at("Eon", "1"), at("Accused", "")}})
		add("accused "+s, mABCI{Type: []byte("shutter.accusation-registered"), Attrs: []mAttr{at("Sender", addr), at("Eon", "1"), at("Accused", s)}})
		add("accused pair "+s, mABCI{Type: []byte("shutter.accusation-registered"), Attrs: []mAttr{at("Sender", addr), at("Eon", "1"), at("Accused", s+","+addr)}})
	}
	for _, s := range []string{"", "0x", "0X", "0x,0x", "0x00", "0X00", "0xAb,0xaB", "0x0", "00", "0x,", ",0x", "0xgg", "0x00,,0x00", " 0x00", "0x000001"} {
		add("evals "+s, mABCI{Type: []byte("shutter.poly-eval-registered"), Attrs: []mAttr{at("Sender", addr), at("Eon", "1"), at("Receivers", ""), at("EncryptedEvals", s)}})
		add("apology evals "+s, mABCI{Type: []byte("shutter.apology-registered"), Attrs: []mAttr{at("Sender", addr), at("Eon", "1"), at("Accusers", ""), at("PolyEvals", s)}})
	}
	gen := hex.EncodeToString(p.points[1])
	inf := hex.EncodeToString(p.points[0])
	for _, s := range []string{"", gen, strings.ToUpper(gen), gen + inf, "0x" + gen, gen[:190], gen + "00", gen[:191], strings.Repeat("00", 96), strings.Repeat("ff", 96), gen + ",", " " + gen} {
		add("gammas", mABCI{Type: []byte("shutter.poly-commitment-registered"), Attrs: []mAttr{at("Sender", addr), at("Eon", "1"), at("Gammas", s)}})
	}
	last := key[len(key)-1:]
	_ = last
	for _, s := range []string{key, key + "=", key + "\n", "\r\n" + key[:40] + "\n" + key[40:], key[:len(key)-1], key[:len(key)-1] + "B", key[:len(key)-1] + "C", key[:len(key)-1] + "D",
		strings.ReplaceAll(strings.ReplaceAll(key, "-", "+"), "_", "/"), "", "A", "AA", key + "A", key + "AA", key + "AAA", key + "AAAA", base64.RawURLEncoding.EncodeToString(make([]byte, 65)),
		base64.RawURLEncoding.EncodeToString(append([]byte{4}, make([]byte, 64)...)), base64.RawURLEncoding.EncodeToString(p.keys[0][:64]), base64.StdEncoding.EncodeToString(p.keys[0])} {
		add("key", mABCI{Type: []byte("shutter.check-in"), Attrs: []mAttr{at("Sender", addr), at("EncryptionPublicKey", s)}})
	}
	// a coordinate that is not reduced modulo the field prime still satisfies the curve equation
	if nr := nonReducedKey(p.keys[2]); nr != nil {
		add("key with x+p", mABCI{Type: []byte("shutter.check-in"), Attrs: []mAttr{at("Sender", addr), at("EncryptionPublicKey", base64.RawURLEncoding.EncodeToString(nr))}})
	}
	// attribute count and order
	full := []mAttr{at("Sender", addr), at("Eon", "1"), at("Accused", addr)}
	add("no attributes", mABCI{Type: []byte("shutter.accusation-registered")})
	add("one attribute", mABCI{Type: []byte("shutter.accusation-registered"), Attrs: full[:1]})
	add("two attributes", mABCI{Type: []byte("shutter.accusation-registered"), Attrs: full[:2]})
	add("extra attribute", mABCI{Type: []byte("shutter.accusation-registered"), Attrs: append(append([]mAttr{}, full...), at("Extra", "zzz"))})
	add("reordered", mABCI{Type: []byte("shutter.accusation-registered"), Attrs: []mAttr{full[1], full[0], full[2]}})
	add("unknown type", mABCI{Type: []byte("shutter.unknown"), Attrs: full})
	add("empty type", mABCI{Attrs: full})
	add("non-UTF-8 type", mABCI{Type: []byte("shutter.\xff\xfe"), Attrs: full})
	add("non-UTF-8 key", mABCI{Type: []byte("shutter.accusation-registered"), Attrs: []mAttr{at("Sender\xff", addr), full[1], full[2]}})
	return out
}

// nonReducedKey returns the encoding 04 || x+p || y of a key whose x is small enough for x+p
// to fit 32 bytes (none in practice: p is close to 2^256), else nil.
func nonReducedKey(k []byte) []byte {
	x := new(big.Int).SetBytes(k[1:33])
	x.Add(x, ethcrypto.S256().Params().P)
	if x.BitLen() > 256 {
		return nil
	}
	out := append([]byte{4}, common.LeftPadBytes(x.Bytes(), 32)...)
	return append(out, k[33:]...)
}

func main() {
	zerolog.SetGlobalLevel(zerolog.Disabled)
	run := vh.Start("Verif.Corr.C14", 250)
	defer run.Finish()
	run.SetPreamble("From Coq Require Import Uint63.\nFrom Verif Require Import Model.Powermap Model.App.\nFrom Verif Require Import Generated.EventSchema Model.Events.\nImport Verif.Corr.C14.\nOpen Scope string_scope.")
	run.Rule = "values of all eight event types (forced boundaries first: zero values, empty lists as nil and as empty slices, singleton-of-empty, boundary integers, identity/generator points; then random), each encoded by MakeABCIEvent and decoded by MakeEvent; malformed stream = leniency probes, structural and character-level mutations of valid events, random attribute lists; lists through makeEvents. Non-trivial = a value with a non-empty list (or a list-free type), a malformed event with at least one attribute, a list from which some but not all events are dropped; distinct by canonical JSON of the case"
	if run.Replay != "" {
		var c theCase
		if err := run.LoadReplay(&c); err != nil {
			panic(err)
		}
		runCase(run, c)
		return
	}
	p := makePools(run.RNG)
	for _, f := range run.CorpusFiles() {
		run.Replay = f
		var c theCase
		if err := run.LoadReplay(&c); err == nil {
			runCase(run, c)
		}
		run.Replay = ""
	}
	for _, m := range p.boundaryEvents() {
		m := m
		for _, h := range []int64{0, 12345} {
			runValue(run, theCase{Kind: "value", Ev: &m, H: h})
		}
	}
	for _, c := range p.leniencyProbes() {
		runMalformed(run, c)
	}
	u := appdrv.NewUniverse(8)
	for v := 0; v < 8; v++ {
		h := dkgHistory(u, p, v)
		runApp(run, theCase{Kind: "app", History: &h, Note: "scripted DKG block"})
	}
	nv := run.Scale(3000, 30000)
	for i := 0; i < nv; i++ {
		m := p.genEvent(run.RNG, kinds[i%len(kinds)])
		runValue(run, theCase{Kind: "value", Ev: &m, H: genH(run.RNG)})
	}
	nm := run.Scale(7000, 60000)
	appEvery := nm / run.Scale(120, 1500)
	for i := 0; i < nm; i++ {
		if i%appEvery == 0 {
			// interleaved so that the (larger) application cases spread over the shards
			h := genHistory(run, u, i/appEvery)
			runApp(run, theCase{Kind: "app", History: &h})
		}
		r := run.RNG
		var a mABCI
		note := "random"
		if r.Chance(1, 8) {
			a = p.randomABCI(r)
		} else {
			m := p.genEvent(r, kinds[r.Intn(len(kinds))])
			base, ok := encodeOf(m)
			if !ok {
				continue
			}
			a, note = p.mutate(r, base)
			if r.Chance(1, 5) {
				var n2 string
				a, n2 = p.mutate(r, a)
				note += "+" + n2
			}
		}
		mk := strings.SplitN(note, "+", 2)[0]
		if strings.HasPrefix(mk, "key:") || strings.HasPrefix(mk, "type:") {
			mk = strings.SplitN(mk, ":", 2)[0] + ":*"
		}
		run.Dist["mutation:"+mk]++
		runMalformed(run, theCase{Kind: "malformed", ABCI: &a, H: genH(r), Note: note})
	}
	nl := run.Scale(400, 3000)
	for i := 0; i < nl; i++ {
		r := run.RNG
		n := r.Intn(7)
		var as []mABCI
		for j := 0; j < n; j++ {
			m := p.genEvent(r, kinds[r.Intn(len(kinds))])
			a, ok := encodeOf(m)
			if !ok {
				continue
			}
			if r.Chance(2, 5) {
				a, _ = p.mutate(r, a)
			}
			as = append(as, a)
		}
		runList(run, theCase{Kind: "list", ABCIs: as, H: genH(r)})
	}
}

func runCase(run *vh.Run, c theCase) {
	switch c.Kind {
	case "value":
		if c.Ev == nil {
			panic("replay: value case without ev")
		}
		runValue(run, c)
	case "malformed":
		if c.ABCI == nil {
			panic("replay: malformed case without abci")
		}
		runMalformed(run, c)
	case "list":
		runList(run, c)
	case "app":
		if c.History == nil {
			panic("replay: app case without history")
		}
		runApp(run, c)
	default:
		panic("replay: unknown case kind " + c.Kind)
	}
}
