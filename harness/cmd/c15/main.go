//go:build verif

// Driver for C15 (synced contract events equal the canonical chain's, through reorgs and
// failures).  The three real syncers run against ethfake + pgfake on generated block trees,
// head sequences and faults.  Oracle (independent of the Coq model): after every Sync, if
// the recorded position (number, hash) lies on the node's canonical chain, the event table
// equals the canonical chain's admissible events from the sync start up to that position,
// recomputed from the driver's own block tree.  Every Sync is also one correspondence case.
package main

import (
	"bytes"
	"context"
	"crypto/sha256"
	"encoding/hex"
	"encoding/json"
	"fmt"
	"math"
	"math/big"
	"os"
	"sort"
	"strings"
	"time"

	"github.com/ethereum/go-ethereum/common"
	"github.com/ethereum/go-ethereum/crypto"
	sequencerBindings "github.com/shutter-network/gnosh-contracts/gnoshcontracts/sequencer"
	triggerRegistryV1Bindings "github.com/shutter-network/contracts/v2/bindings/shuttereventtriggerregistryv1"
	registryBindings "github.com/shutter-network/contracts/v2/bindings/shutterregistry"

	"github.com/shutter-network/rolling-shutter/rolling-shutter/keyperimpl/gnosis"
	"github.com/shutter-network/rolling-shutter/rolling-shutter/keyperimpl/shutterservice"
	"github.com/shutter-network/rolling-shutter/rolling-shutter/medley"

	"verifharness/ethfake"
	"verifharness/pgfake"
	"verifharness/syncrig"
	"verifharness/vh"
)

const (
	singleRange = 10_000 // maxRequestBlockRange of registrysyncer.go / gnosis (unexported constants)
	singleDepth = 10     // AssumedReorgDepth
)

type Step struct {
	Head int               `json:"head"`
	RPC  *syncrig.RPCFault `json:"rpc,omitempty"`
	DB   *syncrig.DBFault  `json:"db,omitempty"`
}

type Scenario struct {
	Kind     string              `json:"kind"` // "sync" | "ranges"
	Ranges   []string            `json:"ranges,omitempty"`
	Syncer   string              `json:"syncer,omitempty"` // registry | multi | sequencer
	Start    uint64              `json:"start"`
	Range    uint64              `json:"range,omitempty"` // multi only
	Depth    int                 `json:"depth,omitempty"` // multi only
	Defs     []string            `json:"defs,omitempty"`  // hex trigger definitions
	DefValid []bool              `json:"def_valid,omitempty"`
	Blocks   []syncrig.BlockSpec `json:"blocks,omitempty"`
	Steps    []Step              `json:"steps,omitempty"`
	Note     string              `json:"note,omitempty"`
}

// ---------------------------------------------------------------------------------------
// Coq rendering

// byte strings are bound once per case (let b0 := hx "..." in ...): parsing string literals
// dominates the cost of evaluating a case file
var em *syncrig.Emitter

func cB(b []byte) string { return em.B(b) }

func cBig(x *big.Int) string { return vh.CBigZ(x) }
func cU64(x uint64) string  { return vh.CBigZ(new(big.Int).SetUint64(x)) }

func cUev(eon *big.Int, prefix, sender []byte, ts *big.Int, def []byte, valid bool, exp, idx, gas *big.Int) string {
	return vh.CApp("mkuev", cBig(eon), cB(prefix), cB(sender), cBig(ts), cB(def), vh.CBool(valid), cBig(exp), cBig(idx), cBig(gas))
}

func cPev(block int64, bhash []byte, tx, log int64, uev string) string {
	return vh.CApp("mkpev", vh.CZ(block), cB(bhash), vh.CZ(tx), vh.CZ(log), uev)
}

func bi(x int64) *big.Int   { return big.NewInt(x) }
func bu(x uint64) *big.Int  { return new(big.Int).SetUint64(x) }
func zero() *big.Int        { return big.NewInt(0) }
func senderBytes(s string) []byte { return common.HexToAddress(s).Bytes() }

func cRow(kind string, r syncrig.Row) string {
	switch kind {
	case "registry":
		return cPev(r.Block, r.BHash, r.Tx, r.Log, cUev(bi(r.Eon), r.Prefix, senderBytes(r.Sender), bi(r.TS), nil, false, zero(), zero(), zero()))
	case "multi":
		return cPev(r.Block, r.BHash, r.Tx, r.Log, cUev(bi(r.Eon), r.Prefix, senderBytes(r.Sender), zero(), r.Def, true, bi(r.Exp), zero(), zero()))
	default:
		return cPev(r.Block, r.BHash, r.Tx, r.Log, cUev(bi(r.Eon), r.Prefix, senderBytes(r.Sender), zero(), nil, false, zero(), bi(r.Idx), bi(r.Gas)))
	}
}

func cRows(kind string, rows []syncrig.Row) string {
	xs := make([]string, len(rows))
	for i, r := range rows {
		xs[i] = cRow(kind, r)
	}
	return vh.CList(xs)
}

func cStatus(s syncrig.Status) string {
	if !s.Present {
		return "None"
	}
	return vh.CSome(vh.CPair(vh.CZ(s.Number), cB(s.Hash)))
}

func cFaults(fs []string) string {
	xs := make([]string, len(fs))
	for i, f := range fs {
		switch f {
		case "fail":
			xs[i] = "Fail"
		case "fail-applied":
			xs[i] = "FailApplied"
		default:
			xs[i] = "NoFault"
		}
	}
	return vh.CList(xs)
}

// ---------------------------------------------------------------------------------------

type world struct {
	scenarioNo int
	run   *vh.Run
	rig   *syncrig.Rig
	empty *pgfake.Store
}

func defsOf(sc *Scenario) [][]byte {
	out := make([][]byte, len(sc.Defs))
	for i, d := range sc.Defs {
		b, err := hex.DecodeString(d)
		if err != nil {
			panic(err)
		}
		out[i] = b
	}
	return out
}

// the driver's own reading of "admissible" (registrysyncer.go filterEvents, the skips of
// eventtriggerregisteredprocessor.go ProcessEvents, sequencersyncer.go filterEvents)
func admissible(sc *Scenario, e *syncrig.Ev) bool {
	if e.Noise != 0 {
		return false
	}
	if e.Eon > math.MaxInt64 {
		return false
	}
	switch sc.Syncer {
	case "multi":
		return e.Exp <= math.MaxInt64 && sc.DefValid[e.Def]
	case "sequencer":
		return syncrig.GasOf(e).IsInt64()
	}
	return true
}

func keyOf(sc *Scenario, e *syncrig.Ev) string {
	switch sc.Syncer {
	case "registry":
		return fmt.Sprintf("%d/%d", e.P, e.S)
	case "multi":
		return fmt.Sprintf("%d/%d/%d/%s", e.Eon, e.P, e.S, sc.Defs[e.Def])
	}
	return fmt.Sprintf("%d/%d", e.Idx, e.Eon)
}

// expected row of an admissible event, computed by the driver
func expectedRow(sc *Scenario, defs [][]byte, b *ethfake.Block, logIndex int, it syncrig.Item) syncrig.Row {
	e := it.Ev
	p := syncrig.Prefix(e.P)
	s := syncrig.Sender(e.S)
	r := syncrig.Row{Block: int64(b.Number), BHash: b.Hash.Bytes(), Tx: int64(it.Tx), Log: int64(logIndex), Eon: int64(e.Eon), Prefix: p[:], Sender: s.Hex()}
	switch sc.Syncer {
	case "registry":
		r.TS = int64(e.TS)
		r.Ident = crypto.Keccak256(p[:], s.Bytes())
	case "multi":
		r.Def = defs[e.Def]
		r.Exp = int64(e.Exp)
		r.Ident = crypto.Keccak256(p[:], s.Bytes(), defs[e.Def])
	case "sequencer":
		r.Idx = int64(e.Idx)
		r.Gas = syncrig.GasOf(e).Int64()
	}
	return r
}

func rowEq(a, b syncrig.Row) bool {
	return a.Block == b.Block && bytes.Equal(a.BHash, b.BHash) && a.Tx == b.Tx && a.Log == b.Log && a.Eon == b.Eon &&
		bytes.Equal(a.Prefix, b.Prefix) && a.Sender == b.Sender && a.TS == b.TS && bytes.Equal(a.Def, b.Def) && a.Exp == b.Exp &&
		a.Idx == b.Idx && a.Gas == b.Gas && bytes.Equal(a.Ident, b.Ident) && a.Decrypt == b.Decrypt
}

func effStart(sc *Scenario) uint64 {
	if sc.Syncer == "multi" {
		return sc.Start + 1 // getSyncedUntil: nothing synced means "synced until SyncStartBlockNumber"
	}
	return sc.Start
}

func depthOf(sc *Scenario) int {
	if sc.Syncer == "multi" {
		return sc.Depth
	}
	return singleDepth
}

func rangeOf(sc *Scenario) uint64 {
	if sc.Syncer == "multi" {
		return sc.Range
	}
	return singleRange
}

func (w *world) makeSyncer(sc *Scenario) syncrig.Syncer {
	r := w.rig
	switch sc.Syncer {
	case "registry":
		c, err := registryBindings.NewShutterregistry(syncrig.RegistryAddr, r.Client)
		if err != nil {
			panic(err)
		}
		return &shutterservice.RegistrySyncer{Contract: c, DBPool: r.Pool, ExecutionClient: r.Client, SyncStartBlockNumber: sc.Start}
	case "multi":
		c, err := triggerRegistryV1Bindings.NewShuttereventtriggerregistryv1(syncrig.TriggerAddr, r.Client)
		if err != nil {
			panic(err)
		}
		s, err := shutterservice.NewMultiEventSyncer(r.Pool, r.Client, sc.Start,
			[]shutterservice.EventProcessor{shutterservice.NewEventTriggerRegisteredEventProcessor(c, r.Pool)})
		if err != nil {
			panic(err)
		}
		s.AssumedReorgDepth = sc.Depth
		s.MaxRequestBlockRange = sc.Range
		return s
	case "sequencer":
		c, err := sequencerBindings.NewSequencer(syncrig.SequencerAddr, r.Client)
		if err != nil {
			panic(err)
		}
		return &gnosis.SequencerSyncer{Contract: c, DBPool: r.Pool, ExecutionClient: r.Client,
			GenesisSlotTimestamp: 1_600_000_000, SecondsPerSlot: 5, SyncStartBlockNumber: sc.Start}
	}
	panic("unknown syncer " + sc.Syncer)
}

// forkNumber is the lowest block number at which the branches of a and b differ, looking at
// numbers 0..upto; -1 if they agree on all of them (a branch that is too short differs there).
func forkNumber(a, b *ethfake.Block, upto int64) int64 {
	if upto < 0 {
		return -1
	}
	ba, bb := ethfake.Branch(a), ethfake.Branch(b)
	for n := int64(0); n <= upto; n++ {
		if n >= int64(len(ba)) || n >= int64(len(bb)) || ba[n] != bb[n] {
			return n
		}
	}
	return -1
}

type stepResult struct {
	violated bool
}

// runScenario executes a sync scenario; returns the index of the first violating step or -1.
func (w *world) runScenario(sc *Scenario) int {
	run := w.run
	rig := w.rig
	defs := defsOf(sc)
	rig.PG.SetStore(w.empty)
	rig.PG.ClearRuntimeIssues()
	if err := rig.Build(sc.Syncer, defs, sc.Blocks); err != nil {
		panic(err)
	}
	defer func() { rig.Client.Close(); rig.Eth.Close(); rig.Client, rig.Eth = nil, nil }()
	syncer := w.makeSyncer(sc)
	// validity of the definitions as the repository sees it (for the model's ev_def_valid)
	implValid := make([]bool, len(defs))
	for i, d := range defs {
		var td shutterservice.EventTriggerDefinition
		implValid[i] = td.UnmarshalBytes(d) == nil
		if implValid[i] != sc.DefValid[i] {
			run.Tie(fmt.Sprintf("trigger definition %x: generator label valid=%v, UnmarshalBytes says %v", d, sc.DefValid[i], implValid[i]))
		}
	}
	D := int64(depthOf(sc))
	assumptionOK := true
	var ghost *ethfake.Block // the head at the last Sync that changed the stored state or reported success
	syncedNum := int64(-1)
	firstViolation := -1
	sawReorg, sawFault, stored := false, false, false
	for si, st := range sc.Steps {
		if st.Head < 0 || st.Head >= len(rig.Blocks) {
			panic(fmt.Sprintf("step %d: head %d does not exist", si, st.Head))
		}
		hb := rig.Blocks[st.Head]
		rig.Eth.SetHead(hb)
		branch := ethfake.Branch(hb)
		pre := rig.ReadStatus(sc.Syncer)
		preRows := rig.ReadRows(sc.Syncer)
		// the property's assumption about this head, relative to what is synced
		if pre.Present && ghost != nil {
			k := pre.Number
			if syncedNum > k {
				k = syncedNum // "the synced block": the last head for which a Sync without failure returned nil
			}
			// the same rule whether the position's hash is known or (after a rollback whose resync has
			// not completed) empty: forks at most the assumed depth below the recorded position
			agreeUpto := k - D
			if agreeUpto < 0 {
				agreeUpto = 0
			}
			if forkNumber(ghost, hb, agreeUpto) >= 0 {
				assumptionOK = false
			}
			if f := forkNumber(ghost, hb, k); f >= 0 {
				if int64(hb.Number) > k+1 {
					assumptionOK = false
				}
				if f <= k && int64(hb.Number) == k+1 {
					sawReorg = true
				}
			}
		}
		// one key at most once per branch (contract invariant)
		seen := map[string]bool{}
		for _, b := range branch {
			for _, it := range rig.ItemsOf(b) {
				if it.Ev != nil && admissible(sc, it.Ev) {
					k := keyOf(sc, it.Ev)
					if seen[k] {
						assumptionOK = false
					}
					seen[k] = true
				}
			}
		}
		out := rig.RunSync(syncer, hb.Header, st.RPC, st.DB)
		post := rig.ReadStatus(sc.Syncer)
		postRows := rig.ReadRows(sc.Syncer)
		if st.RPC != nil || len(out.DBFaults) > 0 {
			sawFault = true
		}
		if len(postRows) > 0 {
			stored = true
		}
		run.Dist[fmt.Sprintf("%s:result=%v", sc.Syncer, out.Err == nil)]++
		if out.Panic != "" {
			run.Violate(vh.Violation{Key: "C15:" + sc.Syncer + ":panic", What: "Sync panicked: " + out.Panic, Case: truncated(sc, si)})
			if firstViolation < 0 {
				firstViolation = si
			}
			break
		}
		changed := post.Present != pre.Present || post.Number != pre.Number || !bytes.Equal(post.Hash, pre.Hash) || len(postRows) != len(preRows)
		if changed {
			ghost = hb
			syncedNum = post.Number
		}
		if out.Err == nil && post.Present && int64(hb.Number) >= post.Number && hb.Number >= effStart(sc) &&
			(!pre.Present || int64(hb.Number) > pre.Number) && int64(hb.Number) > syncedNum { // a head beyond what was synced: there was something to do
			// the syncer reported success for this head: whatever it recorded, the observer takes the head
			// as synced, and the next fork is judged relative to it
			ghost = hb
			syncedNum = int64(hb.Number)
		}
		// ---- correspondence case
		id := run.NextID()
		hashes := map[uint64]bool{hb.Number: true}
		for _, n := range []int64{pre.Number, post.Number, pre.Number + 1, int64(hb.Number) - 1} {
			if n >= 0 && n < int64(len(branch)) {
				hashes[uint64(n)] = true
			}
		}
		for _, c := range out.RPCCalls {
			if c.Method == "eth_getBlockByNumber" {
				var ps []json.RawMessage
				var s string
				if json.Unmarshal([]byte(c.Params), &ps) == nil && len(ps) > 0 && json.Unmarshal(ps[0], &s) == nil {
					if n, ok := new(big.Int).SetString(strings.TrimPrefix(s, "0x"), 16); ok && n.IsUint64() && n.Uint64() < uint64(len(branch)) {
						hashes[n.Uint64()] = true
						if n.Uint64() > 0 {
							hashes[n.Uint64()-1] = true
						}
						if n.Uint64()+1 < uint64(len(branch)) {
							hashes[n.Uint64()+1] = true
						}
					}
				}
			}
		}
		var hnums []uint64
		for n := range hashes {
			hnums = append(hnums, n)
		}
		sort.Slice(hnums, func(i, j int) bool { return hnums[i] < hnums[j] })
		hs := make([]string, len(hnums))
		for i, n := range hnums {
			hs[i] = vh.CPair(cU64(n), cB(branch[n].Hash.Bytes()))
		}
		var evs []string
		for _, b := range branch {
			for li, it := range rig.ItemsOf(b) {
				if it.Ev == nil || it.Ev.Noise != 0 {
					continue // the node's address/topic filter removes these
				}
				e := it.Ev
				p := syncrig.Prefix(e.P)
				var u string
				switch sc.Syncer {
				case "registry":
					u = cUev(bu(e.Eon), p[:], syncrig.Sender(e.S).Bytes(), bu(e.TS), nil, false, zero(), zero(), zero())
				case "multi":
					u = cUev(bu(e.Eon), p[:], syncrig.Sender(e.S).Bytes(), zero(), defs[e.Def], implValid[e.Def], bu(e.Exp), zero(), zero())
				default:
					u = cUev(bu(e.Eon), p[:], syncrig.Sender(e.S).Bytes(), zero(), nil, false, zero(), bu(e.Idx), syncrig.GasOf(e))
				}
				evs = append(evs, cPev(int64(b.Number), b.Hash.Bytes(), int64(it.Tx), int64(li), u))
			}
		}
		parent := common.Hash{}
		if hb.Parent != nil {
			parent = hb.Parent.Hash
		}
		which := map[string]string{"registry": "WRegistry", "multi": "WMulti", "sequencer": "WSequencer"}[sc.Syncer]
		term := vh.CApp("CSync", vh.CN(id), which, cU64(sc.Start), vh.CZ(D), cU64(rangeOf(sc)),
			cStatus(pre), cRows(sc.Syncer, preRows),
			cU64(hb.Number), cB(parent.Bytes()), vh.CList(hs), vh.CList(evs),
			cFaults(out.RPCFaults), cFaults(out.DBFaults),
			vh.CBool(out.Err == nil), cStatus(post), cRows(sc.Syncer, postRows))
		nontrivial := sawReorg && stored
		js := map[string]any{"step": si, "db_note": out.DBNote, "seed": run.Seed, "scenario_no": w.scenarioNo}
		if si == len(sc.Steps)-1 || len(sc.Steps) <= 3 {
			js["scenario"] = sc // a mismatch at an earlier step: the same seed regenerates scenario_no
		}
		if out.Misplaced {
			run.Dist["fault-misplaced:case-not-recorded"]++
		} else {
			em.Add(id, term, js, canon(sc, si), nontrivial)
		}

		// ---- admissibility on the real code path: no stored row may stem from an inadmissible event
		// (eon / expiry / gas limit beyond int64, invalid definition), whatever the position
		{
			bad := map[string]*syncrig.Ev{}
			for _, b := range branch {
				for li, it := range rig.ItemsOf(b) {
					if it.Ev != nil && it.Ev.Noise == 0 && !admissible(sc, it.Ev) {
						bad[fmt.Sprintf("%x/%d", b.Hash.Bytes(), li)] = it.Ev
					}
				}
			}
			for _, r := range postRows {
				if e, ok := bad[fmt.Sprintf("%x/%d", r.BHash, r.Log)]; ok && assumptionOK {
					run.Violate(vh.Violation{Key: "C15:" + sc.Syncer + ":inadmissible-event-stored", What: "an event that the admission check must discard is stored",
						Case: truncated(sc, si), Observed: r, Expected: map[string]any{"event": e, "admissible": false}})
					if firstViolation < 0 {
						firstViolation = si
					}
				}
			}
			// a Sync without any injected failure has no reason to fail: the node answers every call
			if out.Err != nil && st.RPC == nil && st.DB == nil && assumptionOK {
				run.Violate(vh.Violation{Key: "C15:" + sc.Syncer + ":sync-fails-without-fault", What: "Sync returned an error although no RPC or database failure was injected: " + out.Err.Error(),
					Case: truncated(sc, si)})
				if firstViolation < 0 {
					firstViolation = si
				}
			}
		}
		// ---- oracle
		if !post.Present {
			if len(postRows) != 0 && assumptionOK {
				run.Violate(vh.Violation{Key: "C15:" + sc.Syncer + ":rows-without-position", What: "events stored but no sync position recorded", Case: truncated(sc, si), Observed: postRows})
				if firstViolation < 0 {
					firstViolation = si
				}
			}
			continue
		}
		onCanon := post.Number >= 0 && post.Number < int64(len(branch)) && bytes.Equal(branch[post.Number].Hash.Bytes(), post.Hash)
		run.Dist[fmt.Sprintf("%s:position-canonical=%v", sc.Syncer, onCanon)]++
		if !onCanon || !assumptionOK {
			if !assumptionOK {
				run.Dist["outside-assumption-steps"]++
			}
			continue
		}
		var want []syncrig.Row
		for n := effStart(sc); int64(n) <= post.Number; n++ {
			b := branch[n]
			for li, it := range rig.ItemsOf(b) {
				if it.Ev != nil && admissible(sc, it.Ev) {
					want = append(want, expectedRow(sc, defs, b, li, it))
				}
			}
		}
		got := syncrig.SortRows(postRows)
		same := len(got) == len(want)
		for i := 0; same && i < len(got); i++ {
			same = rowEq(got[i], want[i])
		}
		if !same {
			key := "C15:" + sc.Syncer + ":rows-differ-from-canonical"
			what := "position lies on the canonical chain but the stored events differ from the canonical chain's"
			extraBefore, missing, extra := false, 0, 0
			idx := map[string]syncrig.Row{}
			for _, r := range want {
				idx[fmt.Sprintf("%d/%d", r.Block, r.Log)] = r
			}
			gi := map[string]syncrig.Row{}
			for _, r := range got {
				gi[fmt.Sprintf("%d/%d", r.Block, r.Log)] = r
				if w, ok := idx[fmt.Sprintf("%d/%d", r.Block, r.Log)]; !ok || !rowEq(w, r) {
					extra++
					if r.Block < int64(effStart(sc)) {
						extraBefore = true
					}
				}
			}
			for k, r := range idx {
				if g, ok := gi[k]; !ok || !rowEq(g, r) {
					missing++
				}
			}
			if extraBefore && missing == 0 {
				key = "C15:" + sc.Syncer + ":events-before-sync-start"
				what = "after a rollback to a block before the sync start, events older than the sync start are stored"
			} else if missing > 0 && extra == 0 {
				key = "C15:" + sc.Syncer + ":position-passed-unstored-events"
				what = "the sync position moved past canonical events that were never stored"
			}
			run.Violate(vh.Violation{Key: key, What: what, Case: truncated(sc, si),
				Observed: map[string]any{"status": post, "rows": got}, Expected: want})
			if firstViolation < 0 {
				firstViolation = si
			}
			break
		}
	}
	rig.CheckTies(func(s string) { run.Tie(s) })
	_ = sawFault
	return firstViolation
}

// loadReplay accepts an oracle replay ({"case": scenario}), a correspondence replay
// ({"first_mismatch": {"case": {"scenario": ...}}}) or a bare scenario.
func loadReplay(path string) (*Scenario, error) {
	b, err := os.ReadFile(path)
	if err != nil {
		return nil, err
	}
	var wr struct {
		Case          json.RawMessage `json:"case"`
		FirstMismatch struct {
			Case struct {
				Scenario *Scenario `json:"scenario"`
			} `json:"case"`
		} `json:"first_mismatch"`
	}
	if err := json.Unmarshal(b, &wr); err != nil {
		return nil, err
	}
	var sc Scenario
	if len(wr.Case) > 0 && json.Unmarshal(wr.Case, &sc) == nil && sc.Kind != "" {
		return &sc, nil
	}
	if wr.FirstMismatch.Case.Scenario != nil {
		return wr.FirstMismatch.Case.Scenario, nil
	}
	if json.Unmarshal(b, &sc) == nil && sc.Kind != "" {
		return &sc, nil
	}
	return nil, fmt.Errorf("%s: no scenario found", path)
}

func truncated(sc *Scenario, upto int) *Scenario {
	c := *sc
	c.Steps = append([]Step(nil), sc.Steps[:upto+1]...)
	return &c
}

func canon(sc *Scenario, si int) string {
	b, _ := json.Marshal(truncated(sc, si))
	h := sha256.Sum256(b)
	return hex.EncodeToString(h[:])
}

// ---------------------------------------------------------------------------------------
// GetSyncRanges

func runRanges(run *vh.Run, sc *Scenario) {
	var v [3]uint64
	for i := 0; i < 3; i++ {
		x, ok := new(big.Int).SetString(sc.Ranges[i], 10)
		if !ok || !x.IsUint64() {
			panic("bad ranges case")
		}
		v[i] = x.Uint64()
	}
	s, e, r := v[0], v[1], v[2]
	id := run.NextID()
	var got [][2]uint64
	if p, msg := vh.Guard(func() { got = medley.GetSyncRanges(s, e, r) }); p {
		run.Violate(vh.Violation{Key: "C15:sync-ranges-panic", What: "GetSyncRanges panicked: " + msg, Case: sc})
		return
	}
	// oracle: contiguous gap-free cover of [s, e] by pieces of at most r blocks
	ok := true
	next := s
	for i, g := range got {
		if g[0] != next || g[1] < g[0] || g[1]-g[0] >= r || g[1] > e {
			ok = false
		}
		if i < len(got)-1 && g[1]-g[0] != r-1 {
			ok = false
		}
		next = g[1] + 1
	}
	if s <= e && (len(got) == 0 || got[len(got)-1][1] != e) {
		ok = false
	}
	if s > e && len(got) != 0 {
		ok = false
	}
	if !ok {
		run.Violate(vh.Violation{Key: "C15:sync-ranges-not-a-cover", What: "GetSyncRanges is not a contiguous cover of [start, end]", Case: sc, Observed: got})
	}
	xs := make([]string, len(got))
	for i, g := range got {
		xs[i] = vh.CPair(cU64(g[0]), cU64(g[1]))
	}
	run.Dist[fmt.Sprintf("ranges:n=%d", min(len(got), 5))]++
	em.Add(id, vh.CApp("CRanges", vh.CN(id), cU64(s), cU64(e), cU64(r), vh.CList(xs)), sc, fmt.Sprint(sc.Ranges), len(got) >= 2)
}

func rangesCase(s, e, r uint64) *Scenario {
	return &Scenario{Kind: "ranges", Ranges: []string{fmt.Sprint(s), fmt.Sprint(e), fmt.Sprint(r)}}
}

// ---------------------------------------------------------------------------------------
// generation

var validDef, validDef2 []byte

func init() {
	d := shutterservice.EventTriggerDefinition{Contract: syncrig.LogAddr(1)}
	validDef = d.MarshalBytes()
	d2 := shutterservice.EventTriggerDefinition{Contract: syncrig.LogAddr(2)}
	validDef2 = d2.MarshalBytes()
}

func stdDefs() ([]string, []bool) {
	return []string{hex.EncodeToString(validDef), hex.EncodeToString(validDef2), "01c0", "", "02ff"}, []bool{true, true, false, false, false}
}

type gen struct {
	r       *vh.RNG
	sc      *Scenario
	parent  []int    // block id -> parent id
	number  []uint64 // block id -> number
	keysOn  []map[string]bool
	seqNext []map[uint64]uint64 // block id -> eon -> next sequencer index after this block
	fresh   int
}

func (g *gen) ancestorAt(id int, num uint64) int {
	for g.number[id] > num {
		id = g.parent[id]
	}
	return id
}

// addBlock appends one block with random events on top of parent and returns its id.
func (g *gen) addBlock(parent int, salt uint64, reuse []syncrig.Ev, density int) int {
	r := g.r
	id := len(g.parent)
	keys := map[string]bool{}
	for k := range g.keysOn[parent] {
		keys[k] = true
	}
	seq := map[uint64]uint64{}
	for k, v := range g.seqNext[parent] {
		seq[k] = v
	}
	var items []syncrig.Item
	n := 0
	if r.Intn(100) < density {
		n = 1 + r.Intn(3)
	}
	for i := 0; i < n; i++ {
		var e syncrig.Ev
		switch {
		case len(reuse) > 0 && r.Chance(1, 2):
			e = reuse[r.Intn(len(reuse))]
		default:
			g.fresh++
			e = syncrig.Ev{Eon: uint64(r.Intn(3)), P: uint8(g.fresh % 250), S: uint8(1 + g.fresh/250), TS: uint64(1000 + r.Intn(100000)),
				Def: r.Intn(2), Exp: uint64(10 + r.Intn(200)), Gas: fmt.Sprint(21000 + r.Intn(1000))}
		}
		if g.sc.Syncer == "sequencer" {
			e.Idx = seq[e.Eon]
		}
		// boundary values
		switch r.Intn(40) {
		case 0:
			e.Eon = math.MaxInt64
		case 1:
			e.Eon = math.MaxInt64 + 1 // inadmissible
		case 2:
			e.TS = math.MaxUint64 // stored as int64(-1)
		case 3:
			e.Exp = math.MaxInt64 + 1 // inadmissible for triggers
		case 4, 9, 10:
			// not an int64: inadmissible for the sequencer (2^63, 2^64-1, and values whose low 64 bits look harmless)
			e.Gas = vh.Pick(r, "9223372036854775808", "18446744073709551615", "18446744073709572616", "1606938044258990275541962092341162602522202993782792835301376")
		case 5:
			e.Gas = "9223372036854775807"
		case 6:
			e.Def = 2 + r.Intn(3) // invalid definition
		case 7:
			e.Noise = 1 + r.Intn(2)
		case 8:
			e.Exp = math.MaxInt64
		}
		if g.sc.Syncer == "sequencer" && e.Noise == 0 {
			e.Idx = seq[e.Eon]
		}
		k := keyOf(g.sc, &e)
		if admissible(g.sc, &e) {
			if keys[k] {
				continue // keep the contract invariant: one key once per branch
			}
			keys[k] = true
		}
		if g.sc.Syncer == "sequencer" && e.Noise == 0 {
			// the contract's counter advances for every submitted transaction, admissible or not
			seq[e.Eon] = e.Idx + 1
		}
		items = append(items, syncrig.Item{Tx: uint(i), Ev: &e})
	}
	g.sc.Blocks = append(g.sc.Blocks, syncrig.BlockSpec{Parent: parent, Salt: salt, Items: items})
	g.parent = append(g.parent, parent)
	g.number = append(g.number, g.number[parent]+1)
	g.keysOn = append(g.keysOn, keys)
	g.seqNext = append(g.seqNext, seq)
	return id
}

func (g *gen) eventsOf(id int) []syncrig.Ev {
	var out []syncrig.Ev
	for _, it := range g.sc.Blocks[id-1].Items {
		if it.Ev != nil {
			out = append(out, *it.Ev)
		}
	}
	return out
}

func (g *gen) randomFault(st *Step, heavy bool) {
	r := g.r
	p := 12
	if heavy {
		p = 35
	}
	if r.Intn(100) < p {
		st.RPC = &syncrig.RPCFault{Call: r.Intn(4), Kind: vh.Pick(r, "rpc-error", "rpc-error", "http-500", "drop")}
	}
	if r.Intn(100) < p {
		st.DB = &syncrig.DBFault{Op: r.Intn(6), Mode: vh.Pick(r, "stmt", "stmt", "drop", "drop-commit", "drop-after-commit"), Sub: r.Intn(8)}
	}
}

// genScenario builds a random tree together with the head sequence a node on that tree shows.
func genScenario(r *vh.RNG, respectAssumption bool) *Scenario {
	sc := &Scenario{Kind: "sync", Syncer: vh.Pick(r, "registry", "multi", "sequencer")}
	sc.Start = vh.Pick[uint64](r, 0, 0, 1, 3, 8, 12, 20)
	if sc.Syncer == "multi" {
		sc.Depth = vh.Pick(r, 1, 2, 3, 5, 10)
		sc.Range = vh.Pick[uint64](r, 1, 2, 3, 5, 10_000)
		sc.Defs, sc.DefValid = stdDefs()
	}
	D := depthOf(sc)
	g := &gen{r: r, sc: sc, parent: []int{0}, number: []uint64{0}, keysOn: []map[string]bool{{}}, seqNext: []map[uint64]uint64{{}}}
	density := vh.Pick(r, 25, 50, 80)
	heavy := r.Chance(1, 4)
	tip := 0
	salt := uint64(0)
	// warm-up: some chain before the first observed head
	for i := r.Intn(int(sc.Start) + 6); i > 0; i-- {
		tip = g.addBlock(tip, salt, nil, density)
	}
	synced := -1 // the generator's estimate of the synced block number (-1: nothing yet)
	nsteps := 6 + r.Intn(10)
	for s := 0; s < nsteps; s++ {
		st := Step{}
		switch x := r.Intn(100); {
		case x < 45: // advance by 1..3 blocks
			for i := 1 + r.Intn(3); i > 0; i-- {
				tip = g.addBlock(tip, salt, nil, density)
			}
		case x < 55: // same head again
		case x < 60 && g.number[tip] > 2: // the head steps back on the same branch
			st.Head = g.ancestorAt(tip, g.number[tip]-1-uint64(r.Intn(2)))
			g.randomFault(&st, heavy)
			sc.Steps = append(sc.Steps, st)
			continue
		case x < 68 && synced >= D+2: // a reorganisation whose resync fails, then a second fork below the rolled-back position
			pos := synced - D // where resetSyncStatus / rollback puts the position
			build := func(forkNum uint64, target int, reuse []syncrig.Ev) int {
				salt++
				nt := g.ancestorAt(tip, forkNum)
				for int(g.number[nt]) < target {
					nt = g.addBlock(nt, salt, reuse, density)
				}
				return nt
			}
			collect := func(forkNum uint64) []syncrig.Ev {
				var reuse []syncrig.Ev
				for id := tip; g.number[id] > forkNum; id = g.parent[id] {
					reuse = append(reuse, g.eventsOf(id)...)
				}
				return reuse
			}
			f1 := uint64(synced - 1 - r.Intn(D-1)) // first fork: within the assumed depth
			if f1 > g.number[tip] {
				f1 = g.number[tip]
			}
			tip = build(f1, synced+1, collect(f1))
			first := Step{Head: tip}
			// the rollback commits, then the first RPC call / database operation of the resync fails
			if r.Chance(1, 2) {
				first.RPC = &syncrig.RPCFault{Call: 0, Kind: vh.Pick(r, "rpc-error", "http-500", "drop")}
			} else if sc.Syncer == "multi" {
				first.DB = &syncrig.DBFault{Op: 3 + r.Intn(2), Mode: vh.Pick(r, "stmt", "drop", "drop-commit")}
			} else {
				first.DB = &syncrig.DBFault{Op: 2 + r.Intn(2), Mode: vh.Pick(r, "stmt", "drop", "drop-commit")}
			}
			sc.Steps = append(sc.Steps, first)
			// second fork: below the rolled-back position, within the assumed depth of it
			lo := pos - D
			if lo < 0 {
				lo = 0
			}
			f2 := uint64(lo + r.Intn(pos-lo))
			target := pos + 1
			if !respectAssumption && r.Chance(1, 3) {
				target = pos + 2 + r.Intn(3) // the first head of the fork is further ahead: outside the assumption
			} else if r.Chance(1, 4) {
				target = pos - r.Intn(2) // the head steps back first
			}
			if target <= int(f2) {
				target = int(f2) + 1
			}
			tip = build(f2, target, collect(f2))
			sc.Steps = append(sc.Steps, Step{Head: tip})
			for int(g.number[tip]) < pos+1 {
				tip = g.addBlock(tip, salt, nil, density)
			}
			for i := r.Intn(4); i > 0; i-- {
				tip = g.addBlock(tip, salt, nil, density)
			}
			sc.Steps = append(sc.Steps, Step{Head: tip})
			synced = int(g.number[tip])
			s += 2
			continue
		default: // reorganisation
			if synced < 1 {
				tip = g.addBlock(tip, salt, nil, density)
				break
			}
			maxd := D
			if !respectAssumption && r.Chance(1, 3) {
				maxd = D + 3
			}
			d := 1 + r.Intn(maxd)
			if d > synced {
				d = synced
			}
			forkNum := uint64(synced - d)
			if forkNum > g.number[tip] {
				forkNum = g.number[tip]
			}
			fp := g.ancestorAt(tip, forkNum)
			// events of the abandoned blocks may reappear on the new branch
			var reuse []syncrig.Ev
			for id := tip; g.number[id] > forkNum; id = g.parent[id] {
				reuse = append(reuse, g.eventsOf(id)...)
			}
			salt++
			// new branch: up to synced+1 (sometimes shorter: the head steps back; sometimes longer when the assumption may be broken)
			target := synced + 1
			switch {
			case r.Chance(1, 5):
				target = synced - r.Intn(d)
			case !respectAssumption && r.Chance(1, 3):
				target = synced + 2 + r.Intn(3)
			}
			if target <= int(forkNum) {
				target = int(forkNum) + 1
			}
			nt := fp
			for int(g.number[nt]) < target {
				nt = g.addBlock(nt, salt, reuse, density)
			}
			tip = nt
		}
		st.Head = tip
		g.randomFault(&st, heavy)
		sc.Steps = append(sc.Steps, st)
		if st.RPC == nil && st.DB == nil {
			if int(g.number[tip]) > synced {
				synced = int(g.number[tip])
			}
		} else if r.Chance(4, 5) {
			// retry the same head without faults
			sc.Steps = append(sc.Steps, Step{Head: tip})
			if int(g.number[tip]) > synced {
				synced = int(g.number[tip])
			}
			s++
		}
	}
	return sc
}

// a sync that spans several ranges for the two syncers whose range limit is the constant 10 000
func longScenario(syncer string, start uint64, fault *syncrig.DBFault, rpc *syncrig.RPCFault, note string) *Scenario {
	sc := &Scenario{Kind: "sync", Syncer: syncer, Start: start, Note: note}
	if syncer == "multi" {
		sc.Depth, sc.Range = 10, 10_000
		sc.Defs, sc.DefValid = stdDefs()
	}
	ev := func(p uint8, idx uint64) []syncrig.Item {
		return []syncrig.Item{{Tx: 0, Ev: &syncrig.Ev{Eon: 1, P: p, S: 1, TS: 77, Def: 0, Exp: 30000, Idx: idx, Gas: "21000"}}}
	}
	// block ids = numbers on this single branch
	sc.Blocks = []syncrig.BlockSpec{
		{Parent: 0, Count: 4},                     // 1..4
		{Parent: 4, Items: ev(1, 0)},              // 5
		{Parent: 5, Count: 9994},                  // 6..9999
		{Parent: 9999, Items: ev(2, 1)},           // 10000
		{Parent: 10000, Count: 2999},              // 10001..12999
		{Parent: 12999, Items: ev(3, 2)},          // 13000
		{Parent: 13000, Count: 8000},              // 13001..21000
		{Parent: 21000, Items: ev(4, 3)},          // 21001
		{Parent: 21001, Count: 9},                 // ..21010
	}
	sc.Steps = []Step{{Head: 21010, DB: fault, RPC: rpc}, {Head: 21010}}
	return sc
}

// sweepScenarios injects one fault at every RPC call index and every database operation index
// (and, when full, every statement / message position inside the operation) of the two Syncs
// that matter most: the first sync (two ranges for the multi-event syncer) and the sync that
// detects a reorganisation.
func sweepScenarios(full bool) []*Scenario {
	var out []*Scenario
	for _, s := range []string{"registry", "sequencer", "multi"} {
		base := func() *Scenario {
			sc := &Scenario{Kind: "sync", Syncer: s, Start: 0, Note: "fault sweep"}
			if s == "multi" {
				sc.Depth, sc.Range = 3, 4
				sc.Defs, sc.DefValid = stdDefs()
			}
			ev := func(p uint8, idx uint64) []syncrig.Item {
				return []syncrig.Item{{Tx: 0, Ev: &syncrig.Ev{Eon: 1, P: p, S: 1, TS: 5, Def: 0, Exp: 300, Idx: idx, Gas: "21000"}}}
			}
			sc.Blocks = []syncrig.BlockSpec{
				{Parent: 0, Items: ev(1, 0)}, {Parent: 1, Count: 3}, {Parent: 4, Items: ev(2, 1)}, {Parent: 5, Count: 1}, // 1..6
				{Parent: 5, Salt: 1, Items: ev(3, 2)}, {Parent: 7, Salt: 1, Items: ev(2, 3)}, // 7 (number 6'), 8 (number 7')
			}
			return sc
		}
		add := func(step int, rpc *syncrig.RPCFault, db *syncrig.DBFault) {
			sc := base()
			sc.Steps = []Step{{Head: 6}, {Head: 8}, {Head: 8}}
			sc.Steps[step].RPC, sc.Steps[step].DB = rpc, db
			if step == 0 {
				sc.Steps = []Step{sc.Steps[0], {Head: 6}, {Head: 8}}
			}
			out = append(out, sc)
		}
		for step := 0; step < 2; step++ {
			for call := 0; call < 5; call++ {
				add(step, &syncrig.RPCFault{Call: call, Kind: []string{"rpc-error", "http-500", "drop"}[call%3]}, nil)
			}
			for op := 0; op < 6; op++ {
				add(step, nil, &syncrig.DBFault{Op: op, Mode: "stmt", Sub: 0})
				add(step, nil, &syncrig.DBFault{Op: op, Mode: "drop-after-commit"})
				add(step, nil, &syncrig.DBFault{Op: op, Mode: "drop-commit"})
				if full {
					for sub := 1; sub < 4; sub++ {
						add(step, nil, &syncrig.DBFault{Op: op, Mode: "stmt", Sub: sub})
					}
					for sub := 0; sub < 12; sub++ {
						add(step, nil, &syncrig.DBFault{Op: op, Mode: "drop", Sub: sub})
					}
				} else {
					add(step, nil, &syncrig.DBFault{Op: op, Mode: "drop", Sub: op})
				}
			}
		}
	}
	return out
}

// A rollback whose resync fails leaves the position with an empty hash; a second fork below that
// position must still be handled (seed C15d).  Chain A 0..30, B forks after 24 (head B31 arrives
// while the resync fails), C forks after 12 (heads C21 = position + 1, then C32).
func emptyHashScenarios() []*Scenario {
	var out []*Scenario
	for _, s := range []string{"registry", "sequencer", "multi"} {
		for variant := 0; variant < 4; variant++ {
			sc := &Scenario{Kind: "sync", Syncer: s, Start: 0}
			if s == "multi" {
				sc.Depth, sc.Range = 10, 10_000
				sc.Defs, sc.DefValid = stdDefs()
			}
			ev := func(p uint8, idx uint64) []syncrig.Item {
				return []syncrig.Item{{Tx: 0, Ev: &syncrig.Ev{Eon: 1, P: p, S: 1, TS: 5, Def: 0, Exp: 300, Idx: idx, Gas: "21000"}}}
			}
			sc.Blocks = []syncrig.BlockSpec{
				{Parent: 0, Count: 4}, {Parent: 4, Items: ev(1, 0)}, {Parent: 5, Count: 9}, // A1..A14 (A5 event)
				{Parent: 14, Items: ev(2, 1)}, {Parent: 15, Count: 6}, {Parent: 21, Items: ev(3, 2)}, {Parent: 22, Count: 8}, // A15 event, A22 event, ..A30
				{Parent: 24, Salt: 1, Count: 1}, {Parent: 31, Salt: 1, Items: ev(4, 3)}, {Parent: 32, Salt: 1, Count: 5}, // B25..B31 = ids 31..37 (B26 event)
				{Parent: 12, Salt: 2, Count: 1}, {Parent: 38, Salt: 2, Items: ev(5, 1)}, {Parent: 39, Salt: 2, Count: 3}, // C13, C14 event, C15..C17 = ids 38..42
				{Parent: 42, Salt: 2, Items: ev(6, 2)}, {Parent: 43, Salt: 2, Count: 14}, // C18 event (id 43), C19..C32 = ids 44..57
			}
			failed := Step{Head: 37}
			switch variant {
			case 0:
				failed.RPC = &syncrig.RPCFault{Call: 0, Kind: "rpc-error"}
				sc.Note = "failed resync (RPC) after a rollback, second fork below the rolled-back position, first head position+1"
			case 1:
				op := 2
				if s == "multi" {
					op = 3
				}
				failed.DB = &syncrig.DBFault{Op: op, Mode: "stmt"}
				sc.Note = "failed resync (status read) after a rollback, second fork below the rolled-back position"
			case 2:
				op := 3
				if s == "multi" {
					op = 4
				}
				failed.DB = &syncrig.DBFault{Op: op, Mode: "drop-commit"}
				sc.Note = "failed resync (range transaction) after a rollback, second fork below the rolled-back position"
			case 3:
				failed.RPC = &syncrig.RPCFault{Call: 1, Kind: "drop"}
				sc.Note = "failed resync after a rollback, the second fork's first head is position+3 (outside the assumption: correspondence only)"
			}
			c21, c23, c32 := 46, 48, 57
			if variant == 3 {
				sc.Steps = []Step{{Head: 30}, failed, {Head: c23}, {Head: c32}}
			} else {
				sc.Steps = []Step{{Head: 30}, failed, {Head: c21}, {Head: c32}}
			}
			out = append(out, sc)
		}
	}
	return out
}

// events, then quiet heads observed one by one, then a fork below the last event whose first head is
// the last observed head + 1 (seed C15j)
func quietHeadsScenarios() []*Scenario {
	var out []*Scenario
	for _, s := range []string{"registry", "sequencer", "multi"} {
		for quiet := 2; quiet <= 4; quiet++ {
			sc := &Scenario{Kind: "sync", Syncer: s, Start: 0, Note: fmt.Sprintf("events, %d quiet heads one by one, then a fork below the last event, first head = last observed head + 1", quiet)}
			if s == "multi" {
				sc.Depth, sc.Range = 10, 10_000
				sc.Defs, sc.DefValid = stdDefs()
			}
			ev := func(p uint8, idx uint64) []syncrig.Item {
				return []syncrig.Item{{Tx: 0, Ev: &syncrig.Ev{Eon: 1, P: p, S: 1, TS: 5, Def: 0, Exp: 300, Idx: idx, Gas: "21000"}}}
			}
			sc.Blocks = []syncrig.BlockSpec{{Parent: 0, Count: 1}, {Parent: 1, Items: ev(1, 0)}, {Parent: 2, Count: 1}, {Parent: 3, Items: ev(2, 1)}, {Parent: 4, Count: 1 + quiet}} // 1..5+quiet, events at 2 and 4
			last := 5 + quiet
			// fork after block 3: 4', 5' (event), 6'.., an event two blocks before the new head, new head = last + 1
			sc.Blocks = append(sc.Blocks, syncrig.BlockSpec{Parent: 3, Salt: 1, Count: 1}, syncrig.BlockSpec{Parent: last + 1, Salt: 1, Items: ev(3, 1)})
			n := last + 2 // id of 5'
			for num := 6; num <= last+1; num++ {
				var items []syncrig.Item
				if num == last-1 {
					items = ev(4, 2)
				}
				sc.Blocks = append(sc.Blocks, syncrig.BlockSpec{Parent: n, Salt: 1, Items: items})
				n++
			}
			sc.Steps = []Step{{Head: 5}}
			for h := 6; h <= last; h++ {
				sc.Steps = append(sc.Steps, Step{Head: h})
			}
			sc.Steps = append(sc.Steps, Step{Head: n}, Step{Head: n})
			out = append(out, sc)
		}
	}
	return out
}

func forcedScenarios() []*Scenario {
	var out []*Scenario
	// admission boundaries of the sequencer: gas limits 2^63-1 (admissible), 2^63, 2^64-1, 2^64+21000, 2^200
	{
		sc := &Scenario{Kind: "sync", Syncer: "sequencer", Start: 0, Note: "gas limits around 2^63 and 2^64"}
		gas := []string{"9223372036854775807", "18446744073709572616", "1606938044258990275541962092341162602522202993782792835301376", "21000"}
		for i, g := range gas {
			sc.Blocks = append(sc.Blocks, syncrig.BlockSpec{Parent: i, Items: []syncrig.Item{{Tx: 0, Ev: &syncrig.Ev{Eon: 1, P: uint8(1 + i), S: 1, Idx: uint64(i), Gas: g}}}})
		}
		sc.Steps = []Step{{Head: 2}, {Head: 4}}
		out = append(out, sc)
		sc2 := &Scenario{Kind: "sync", Syncer: "sequencer", Start: 0, Note: "gas limits 2^63 and 2^64-1 (negative as int64)"}
		for i, g := range []string{"9223372036854775808", "21000", "18446744073709551615"} {
			sc2.Blocks = append(sc2.Blocks, syncrig.BlockSpec{Parent: i, Items: []syncrig.Item{{Tx: 0, Ev: &syncrig.Ev{Eon: 1, P: uint8(1 + i), S: 1, Idx: uint64(i), Gas: g}}}})
		}
		sc2.Steps = []Step{{Head: 1}, {Head: 3}}
		out = append(out, sc2)
	}
	for _, s := range []string{"registry", "sequencer", "multi"} {
		out = append(out, longScenario(s, 0, nil, nil, "three ranges, no fault"))
		// D8: the transaction of the first range fails; the later ranges commit
		out = append(out, longScenario(s, 0, &syncrig.DBFault{Op: 2, Mode: "stmt", Sub: 0}, nil, "three ranges, first range's transaction fails at a statement"))
		out = append(out, longScenario(s, 0, &syncrig.DBFault{Op: 2, Mode: "drop", Sub: 3}, nil, "three ranges, connection lost inside the first range's transaction"))
		out = append(out, longScenario(s, 0, &syncrig.DBFault{Op: 3, Mode: "drop-after-commit"}, nil, "three ranges, connection lost after the second range's commit"))
		out = append(out, longScenario(s, 0, nil, &syncrig.RPCFault{Call: 2, Kind: "rpc-error"}, "three ranges, RPC failure in the second range"))
	}
	// D9: a reorg shortly after the sync start rolls back to before the start
	for _, s := range []string{"registry", "sequencer", "multi"} {
		sc := &Scenario{Kind: "sync", Syncer: s, Start: 6, Note: "reorg detected fewer than the assumed depth past the sync start"}
		if s == "multi" {
			sc.Depth, sc.Range = 10, 10_000
			sc.Defs, sc.DefValid = stdDefs()
		}
		ev := func(p uint8, idx uint64) []syncrig.Item {
			return []syncrig.Item{{Tx: 0, Ev: &syncrig.Ev{Eon: 1, P: p, S: 1, TS: 5, Def: 0, Exp: 300, Idx: idx, Gas: "21000"}}}
		}
		sc.Blocks = []syncrig.BlockSpec{
			{Parent: 0, Count: 2},       // 1,2
			{Parent: 2, Items: ev(1, 0)}, // 3: before the sync start
			{Parent: 3, Count: 4},       // 4..7
			{Parent: 7, Items: ev(2, 1)}, // 8
			{Parent: 8, Count: 1},       // 9
			{Parent: 8, Salt: 1, Count: 2}, // 10 (number 9'), 11 (number 10')
		}
		sc.Steps = []Step{{Head: 9}, {Head: 11}}
		out = append(out, sc)
	}
	return out
}

func main() {
	run := vh.Start("Verif.Corr.C15", 60)
	defer run.Finish()
	em = syncrig.NewEmitter(run, 60, "")
	defer em.Close()
	run.Rule = "one case per Sync call of a real syncer (registry / multi-event with the registration processor / sequencer) on ethfake+pgfake, plus GetSyncRanges calls; non-trivial = the scenario has had a detected reorganisation and stored events by then; distinct by the scenario prefix up to the step"
	rig, err := syncrig.New(run.Repo)
	if err != nil {
		panic(err)
	}
	defer rig.Close()
	w := &world{run: run, rig: rig, empty: rig.PG.Store().Snapshot()}
	t0 := time.Now()
	exec := func(sc *Scenario) {
		if rig.Broken || (!run.Thorough && time.Since(t0) > 75*time.Second) {
			run.Dist["skipped:rig-broken-or-time-budget"]++
			return
		}
		if sc.Kind == "ranges" {
			runRanges(run, sc)
			return
		}
		w.scenarioNo++
		w.runScenario(sc)
	}
	if run.Replay != "" {
		sc, err := loadReplay(run.Replay)
		if err != nil {
			panic(err)
		}
		exec(sc)
		return
	}
	for _, f := range run.CorpusFiles() {
		b, err := os.ReadFile(f)
		if err != nil {
			continue
		}
		var wr struct {
			Case Scenario `json:"case"`
		}
		if json.Unmarshal(b, &wr) == nil && wr.Case.Kind != "" {
			exec(&wr.Case)
		}
	}
	// GetSyncRanges: the repository's test table, boundaries, then random
	for _, c := range [][3]uint64{{0, 0, 3}, {3, 3, 3}, {0, 2, 3}, {3, 5, 3}, {0, 5, 3}, {3, 8, 3}, {0, 1, 3}, {3, 4, 3}, {0, 4, 3}, {1, 5, 3},
		{5, 4, 3}, {7, 0, 1}, {0, 0, 1}, {0, 9, 1}, {1, 21010, 10000}, {0, 10000, 10000}, {0, 9999, 10000}, {10001, 20000, 10000},
		{math.MaxUint64 - 20001, math.MaxUint64 - 10001, 10000}, {0, math.MaxUint64 - 1<<62, 1 << 62}, {1 << 63, 1<<63 + 5, 2}} {
		exec(rangesCase(c[0], c[1], c[2]))
	}
	for i := run.Scale(150, 3000); i > 0; i-- {
		r := uint64(1 + run.RNG.Intn(12))
		s := uint64(run.RNG.Intn(40))
		e := uint64(run.RNG.Intn(60))
		if run.RNG.Chance(1, 6) {
			base := run.RNG.U64() >> uint(1+run.RNG.Intn(20))
			if base > math.MaxUint64-1000 {
				base = math.MaxUint64 - 1000
			}
			s, e = base+s, base+e
		}
		exec(rangesCase(s, e, r))
	}
	for _, sc := range forcedScenarios() {
		exec(sc)
	}
	for _, sc := range emptyHashScenarios() {
		exec(sc)
	}
	for _, sc := range quietHeadsScenarios() {
		exec(sc)
	}
	for _, sc := range sweepScenarios(run.Thorough) {
		exec(sc)
	}
	n := run.Scale(160, 2500)
	for i := 0; i < n; i++ {
		exec(genScenario(run.RNG.Fork(), i%5 != 0))
	}
	_ = context.Background
}
