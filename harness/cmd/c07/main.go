//go:build verif

// Driver for C07 (honest keypers agree on the eon key despite Byzantine participants).
//
// A case is a complete DKG run on harness/dkgrig: real keyper stacks for the honest parties,
// Byzantine parties played from a strategy alphabet, the block schedule drawn from the seed.
// The oracle reads the property off the real objects (dkg_result rows, decoded puredkg.Result,
// shcrypto trial encryption); the model (Corr/C07.v) replays every honest keyper from the
// chain's block sequence and is compared with the stored puredkg after every iteration, the
// messages each keyper sent, the outcome and the equality classes of the key material.
package main

import (
	"bytes"
	"crypto/rand"
	"encoding/json"
	"fmt"
	"math/big"
	"os"
	"sort"
	"strings"
	"sync"

	"github.com/ethereum/go-ethereum/common"

	"github.com/shutter-network/shutter/shlib/puredkg"
	"github.com/shutter-network/shutter/shlib/shcrypto"

	"github.com/shutter-network/rolling-shutter/rolling-shutter/keyper/shutterevents"
	"github.com/shutter-network/rolling-shutter/rolling-shutter/shmsg"

	"verifharness/dkgrig"
	"verifharness/vh"
)

// ---------------------------------------------------------------------------------------
// plans

// Strategy is what one Byzantine party does in every eon.
type Strategy struct {
	Party   int      `json:"party"`
	Commit  string   `json:"commit"`  // correct | none | wrongdeg | dup
	Evals   []string `json:"evals"`   // per party: correct | wrong | none
	Accuse  []int    `json:"accuse"`  // parties it accuses (falsely, if they dealt correctly)
	Apology string   `json:"apology"` // correct | wrong | none
	TDeal   string   `json:"t_deal"`  // in | late (first block after the phase)
	TAcc    string   `json:"t_acc"`   // in | late | early (last block before the phase)
	TApo    string   `json:"t_apo"`   // in | late | early
	Vote    string   `json:"vote"`    // true | false | none
	CheckIn bool     `json:"check_in"`
	Unasked bool     `json:"unasked"` // also "apologise" to parties that did not accuse
	// Order of the two dealing messages: "" = commitment, then evaluations (same block);
	// "evals-first" = evaluations, then commitment (same block); "evals-block-first" = the
	// evaluations one block before the commitment.  Independent of the contents.
	Order string `json:"order,omitempty"`
	// UnaskedTo: parties that did not accuse and are named as accusers in the apology all the same
	// (Unasked names every other member); the values follow Apology (correct / wrong).
	UnaskedTo []int `json:"unasked_to,omitempty"`
	// TVote: "" = the vote is sent after the eon is finalised; "early" = in the block after the eon
	// started (t Byzantine "failed" votes cast before the honest ones make shuttermint retry).
	TVote string `json:"t_vote,omitempty"`
	// Later, when set, is what the party does in the retried eons of keyper set 1 (every eon after
	// the first); without it the party does the same in every eon.
	Later *Strategy `json:"later,omitempty"`
}

type Plan struct {
	P         dkgrig.Params `json:"params"`
	Members   []int         `json:"members"` // party indices forming keyper set 1, in order
	Byz       []Strategy    `json:"byz"`
	Slow      []int         `json:"slow"` // honest-code parties that run only every SlowEvery rounds
	SlowEvery int           `json:"slow_every"`
	Skip      int           `json:"skip"` // a prompt party skips an iteration with probability Skip/8 (never twice in a row)
	SchedSeed uint64        `json:"sched_seed"`
	MaxEons   int           `json:"max_eons"`
	// SplitAll: every transaction a keyper broadcasts lands in a block of its own.
	SplitAll bool `json:"split_all,omitempty"`
	// Restart: this honest party processes one block per loop iteration and is restarted (its
	// ShuttermintState, message sender, client and connections are thrown away, fresh ones built)
	// right after the transaction of block start+After of the Eon-th eon of keyper set 1.
	Restart *RestartSpec `json:"restart,omitempty"`
}

type RestartSpec struct {
	Party int   `json:"party"`
	After int64 `json:"after"`
	Eon   int   `json:"eon,omitempty"` // which eon of keyper set 1 (0: the first, 1: the first retry ...)
}

func (p Plan) byz(i int) *Strategy {
	for k := range p.Byz {
		if p.Byz[k].Party == i {
			return &p.Byz[k]
		}
	}
	return nil
}

func (p Plan) slow(i int) bool {
	for _, s := range p.Slow {
		if s == i {
			return true
		}
	}
	return false
}

func (p Plan) memberIdx(party int) int {
	for k, m := range p.Members {
		if m == party {
			return k
		}
	}
	return -1
}

// ---------------------------------------------------------------------------------------
// execution

type snapRaw struct {
	Pos  int64
	Pure map[uint64]*puredkg.PureDKG
}

type byzEon struct {
	poly       *shcrypto.Polynomial
	gammas     *shcrypto.Gammas
	dealt      bool
	evalsEarly bool
	accd       bool
	apod       bool
	voted      bool
}

type runLog struct {
	plan    Plan
	rig     *dkgrig.Rig
	snaps   map[int][]snapRaw
	errs    []string
	eons    []dkgrig.EonInfo
	endPos  int64
	issues  []string
	results map[int][]dkgrig.ResultRow
}

var order, _ = new(big.Int).SetString("73eda753299d7d483339d80809a1d80553bda402fffe5bfeffffffff00000001", 16)

func execute(plan Plan, servers *dkgrig.Servers) (*runLog, error) {
	rig, err := dkgrig.New(plan.P, servers)
	if err != nil {
		return nil, err
	}
	defer rig.Close()
	lg := &runLog{plan: plan, rig: rig, snaps: map[int][]snapRaw{}, results: map[int][]dkgrig.ResultRow{}}
	rng := vh.NewRNG(plan.SchedSeed)
	n := plan.P.N
	L := plan.P.PhaseLen
	lastRan := make([]int, n)
	bz := map[int]map[uint64]*byzEon{}
	for _, s := range plan.Byz {
		bz[s.Party] = map[uint64]*byzEon{}
	}
	snapshot := func(i int) {
		pos, _ := rig.SyncPos(i)
		pure, err := rig.Pure(i)
		if err != nil {
			lg.errs = append(lg.errs, fmt.Sprintf("party %d: stored puredkg does not decode: %v", i, err))
			return
		}
		l := lg.snaps[i]
		if len(l) > 0 && l[len(l)-1].Pos == pos {
			return
		}
		lg.snaps[i] = append(l, snapRaw{Pos: pos, Pure: pure})
	}
	iterate := func(i, round int) {
		res := rig.Iterate(i, uint64(round), nil)
		if !res.OK() {
			lg.errs = append(lg.errs, fmt.Sprintf("party %d round %d stage %s: %s", i, round, res.Stage, res.Err))
		}
		snapshot(i)
		lastRan[i] = round
	}
	if plan.SplitAll {
		lastTx := int64(0) // open height that already holds a keyper's transaction
		rig.Chain.OnBroadcast = func(string, []byte) {
			if rig.Chain.OpenHeight() == lastTx {
				rig.Chain.NextBlock()
			}
			lastTx = rig.Chain.OpenHeight()
		}
	}
	restarted := false
	// stepIterate lets the party catch up one block per loop iteration and restarts it once, after
	// the block the plan names
	stepIterate := func(i, round int) {
		for guard := 0; guard < 60; guard++ {
			before, _ := rig.SyncPos(i)
			rig.Parties[i].Cl.Cap = before + 3
			iterate(i, round)
			after, _ := rig.SyncPos(i)
			if !restarted {
				ord := 0
				for _, e := range rig.Eons() {
					if e.CfgIdx != 1 {
						continue
					}
					if ord == plan.Restart.Eon && after >= e.Start+plan.Restart.After {
						restarted = true
						if err := rig.Restart(i); err != nil {
							lg.errs = append(lg.errs, fmt.Sprintf("party %d: restart: %v", i, err))
						}
						break
					}
					ord++
				}
			}
			if after == before || after+2 >= rig.Chain.Height() {
				break
			}
		}
		rig.Parties[i].Cl.Cap = 0
	}
	threshold := func() uint64 { return uint64(plan.P.T) }
	addr := func(party int) common.Address { return rig.Parties[party].Addr }

	byzAct := func(s *Strategy, open int64) {
		if s.CheckIn && open == 3 {
			rig.SubmitAs(s.Party, shmsg.NewCheckIn(rig.Parties[s.Party].ValKey, &rig.Parties[s.Party].Cfg.GetEncryptionKey().PublicKey))
		}
		if plan.memberIdx(s.Party) < 0 {
			return
		}
		firstEon := uint64(0)
		for _, e := range rig.Eons() {
			if e.CfgIdx == 1 && (firstEon == 0 || e.Eon < firstEon) {
				firstEon = e.Eon
			}
		}
		base := s
		for _, e := range rig.Eons() {
			if e.CfgIdx != 1 {
				continue
			}
			s := base
			if base.Later != nil && e.Eon != firstEon {
				ls := *base.Later
				ls.Party = base.Party
				s = &ls
			}
			st := bz[s.Party][e.Eon]
			if st == nil {
				deg := threshold() - 1
				if s.Commit == "wrongdeg" {
					deg = threshold()
				}
				poly, err := shcrypto.RandomPolynomial(rand.Reader, deg)
				if err != nil {
					panic(err)
				}
				st = &byzEon{poly: poly, gammas: poly.Gammas()}
				bz[s.Party][e.Eon] = st
			}
			S := e.Start
			at := func(phaseStart int64, timing string) int64 {
				switch timing {
				case "late":
					return phaseStart + L
				case "early":
					return phaseStart - 1
				}
				return phaseStart + 2
			}
			sendCommit := func() {
				if s.Commit != "none" {
					rig.SubmitAs(s.Party, shmsg.NewPolyCommitment(e.Eon, st.gammas))
					if s.Commit == "dup" {
						p2, _ := shcrypto.RandomPolynomial(rand.Reader, threshold()-1)
						rig.SubmitAs(s.Party, shmsg.NewPolyCommitment(e.Eon, p2.Gammas()))
					}
				}
			}
			sendEvals := func() {
				var rcv []common.Address
				var blobs [][]byte
				for _, m := range plan.Members {
					if m == s.Party || s.Evals[m] == "none" || s.Evals[m] == "" {
						continue
					}
					v := st.poly.EvalForKeyper(plan.memberIdx(m))
					if s.Evals[m] == "wrong" {
						v = new(big.Int).Mod(new(big.Int).Add(v, big.NewInt(1)), order)
					}
					rcv = append(rcv, addr(m))
					blobs = append(blobs, rig.EncryptEval(m, v))
				}
				if len(rcv) > 0 {
					rig.SubmitAs(s.Party, shmsg.NewPolyEval(e.Eon, rcv, blobs))
				}
			}
			if s.Order == "evals-block-first" && !st.evalsEarly && open == at(S, s.TDeal)-1 {
				st.evalsEarly = true
				sendEvals()
			}
			if !st.dealt && open == at(S, s.TDeal) {
				st.dealt = true
				switch s.Order {
				case "evals-first":
					sendEvals()
					sendCommit()
				case "evals-block-first":
					if !st.evalsEarly {
						sendEvals()
					}
					sendCommit()
				default:
					sendCommit()
					sendEvals()
				}
			}
			if !st.accd && open == at(S+L, s.TAcc) {
				st.accd = true
				var acc []common.Address
				for _, a := range s.Accuse {
					if a != s.Party && plan.memberIdx(a) >= 0 {
						acc = append(acc, addr(a))
					}
				}
				if len(acc) > 0 {
					rig.SubmitAs(s.Party, shmsg.NewAccusation(e.Eon, acc))
				}
			}
			if !st.apod && open == at(S+2*L, s.TApo) {
				st.apod = true
				if s.Apology != "none" {
					var accusers []common.Address
					seen := map[common.Address]bool{}
					for h := int64(1); h <= rig.Chain.Height(); h++ {
						for _, ev := range dkgrig.EventsOf(rig.Chain.BlockAt(h)) {
							if ac, ok := ev.(*shutterevents.Accusation); ok && ac.Eon == e.Eon {
								for _, x := range ac.Accused {
									if x == addr(s.Party) && !seen[ac.Sender] {
										seen[ac.Sender] = true
										accusers = append(accusers, ac.Sender)
									}
								}
							}
						}
					}
					if s.Unasked {
						for _, m := range plan.Members {
							if m != s.Party && !seen[addr(m)] {
								seen[addr(m)] = true
								accusers = append(accusers, addr(m))
							}
						}
					}
					for _, m := range s.UnaskedTo {
						if m != s.Party && plan.memberIdx(m) >= 0 && !seen[addr(m)] {
							seen[addr(m)] = true
							accusers = append(accusers, addr(m))
						}
					}
					var vals []*big.Int
					for _, a := range accusers {
						v := st.poly.EvalForKeyper(plan.memberIdx(rig.IndexOf(a)))
						if s.Apology == "wrong" {
							v = new(big.Int).Mod(new(big.Int).Add(v, big.NewInt(1)), order)
						}
						vals = append(vals, v)
					}
					if len(accusers) > 0 {
						rig.SubmitAs(s.Party, shmsg.NewApology(e.Eon, accusers, vals))
					}
				}
			}
			voteAt := S + 3*L + 3
			if s.TVote == "early" {
				voteAt = S + 1
			}
			if !st.voted && open == voteAt && s.Vote != "none" {
				st.voted = true
				rig.SubmitAs(s.Party, shmsg.NewDKGResult(e.Eon, s.Vote == "true"))
			}
		}
	}

	maxRounds := 40 + plan.MaxEons*int(4*L+12)
	ksRound := 7
	quiet := 0
	for round := 0; round < maxRounds; round++ {
		if round == ksRound {
			if err := rig.AddKeyperSet(1, 50, plan.Members, plan.P.T); err != nil {
				return nil, err
			}
		}
		if round == ksRound+2 {
			// the Byzantine parties vote for keyper set 1 as well (they are keypers of the genesis
			// config): with fewer than t honest voters the set would never be accepted
			var ms []common.Address
			for _, m := range plan.Members {
				ms = append(ms, addr(m))
			}
			for k := range plan.Byz {
				rig.SubmitAs(plan.Byz[k].Party, shmsg.NewBatchConfig(50, ms, uint64(plan.P.T), 1))
			}
		}
		open := rig.Chain.OpenHeight()
		for k := range plan.Byz {
			byzAct(&plan.Byz[k], open)
		}
		for _, i := range rng.Perm(n) {
			if plan.byz(i) != nil {
				continue
			}
			if plan.slow(i) {
				if round%plan.SlowEvery != 0 {
					continue
				}
			} else if plan.Skip > 0 && lastRan[i] == round-1 && rng.Chance(plan.Skip, 8) {
				continue
			}
			if plan.Restart != nil && plan.Restart.Party == i {
				stepIterate(i, round)
			} else {
				iterate(i, round)
			}
		}
		rig.Chain.NextBlock()
		// stop when the newest eon is past finalisation for a while and nothing new started
		eons := rig.Eons()
		if len(eons) > 0 {
			last := eons[len(eons)-1]
			if rig.Chain.Height() >= last.Start+3*L+10 || len(eons) > plan.MaxEons {
				quiet++
			}
		}
		if quiet > 0 {
			break
		}
	}
	// drain: everybody (slow parties included) catches up with the same chain head and sends;
	// only the driver closes blocks now, so that all parties end at the same position
	rig.Chain.OnBroadcast = nil
	for k := 0; k < 4; k++ {
		for i := 0; i < n; i++ {
			if plan.byz(i) == nil {
				iterate(i, maxRounds+k)
			}
		}
		if k < 2 {
			rig.Chain.NextBlock()
		}
	}
	lg.eons = rig.Eons()
	lg.endPos = rig.Chain.Height() - 2
	for i := 0; i < n; i++ {
		if plan.byz(i) == nil {
			lg.results[i] = rig.Results(i)
		}
	}
	lg.issues = servers.Issues()
	return lg, nil
}

// ---------------------------------------------------------------------------------------
// oracle: the property, read off the real objects

type violation = vh.Violation

func resultKeyMaterial(r *puredkg.Result) string {
	var sb strings.Builder
	pk, _ := r.PublicKey.GobEncode()
	sb.Write(pk)
	for _, s := range r.PublicKeyShares {
		b, _ := s.GobEncode()
		sb.WriteString("|")
		sb.Write(b)
	}
	return sb.String()
}

func subsets(items []int, k int) [][]int {
	var out [][]int
	var rec func(start int, cur []int)
	rec = func(start int, cur []int) {
		if len(cur) == k {
			out = append(out, append([]int{}, cur...))
			return
		}
		for i := start; i < len(items); i++ {
			rec(i+1, append(cur, items[i]))
		}
	}
	rec(0, nil)
	return out
}

type oracleOut struct {
	viol       []violation
	successes  int
	failures   int
	accusation bool
	inPhase    bool
	decryptOK  int
}

func oracle(lg *runLog) oracleOut {
	var out oracleOut
	plan := lg.plan
	rig := lg.rig
	L := plan.P.PhaseLen
	add := func(key, what string, obs, exp any) {
		out.viol = append(out.viol, violation{Key: key, What: what, Case: plan, Observed: obs, Expected: exp})
	}
	for _, e := range lg.errs {
		add("C07:keyper-loop-error", "an honest keyper's loop returned an error or panicked: "+e, e, "no error")
		break
	}
	honest := []int{}
	for i := 0; i < plan.P.N; i++ {
		if plan.byz(i) == nil {
			honest = append(honest, i)
		}
	}
	// did the honest, prompt parties' DKG messages land within their phases?
	out.inPhase = true
	for _, i := range honest {
		if plan.slow(i) {
			continue
		}
		for _, s := range rig.SentBy(rig.Parties[i].Name) {
			if s.Msg == nil || s.Rec.Check != 0 {
				continue
			}
			var eon uint64
			var want puredkg.Phase
			switch {
			case s.Msg.GetPolyCommitment() != nil:
				eon, want = s.Msg.GetPolyCommitment().Eon, puredkg.Dealing
			case s.Msg.GetPolyEval() != nil:
				eon, want = s.Msg.GetPolyEval().Eon, puredkg.Dealing
			case s.Msg.GetAccusation() != nil:
				eon, want = s.Msg.GetAccusation().Eon, puredkg.Accusing
			case s.Msg.GetApology() != nil:
				eon, want = s.Msg.GetApology().Eon, puredkg.Apologizing
			default:
				continue
			}
			if want == puredkg.Accusing {
				out.accusation = true
			}
			for _, ei := range lg.eons {
				if ei.Eon == eon && rig.PhaseAt(s.Rec.Height, ei.Start) != want {
					out.inPhase = false
				}
			}
		}
	}
	// no honest keyper accuses an honest dealer whose commitment and whose evaluation for the
	// accuser were included in dealing-phase blocks (independent of the model comparison)
	landedFor := func(j int, eon uint64, start int64, rcv common.Address) bool {
		c, v := false, false
		for _, s := range rig.SentBy(rig.Parties[j].Name) {
			if s.Msg == nil || s.Rec.Check != 0 || s.Rec.Deliver != 0 || rig.PhaseAt(s.Rec.Height, start) != puredkg.Dealing {
				continue
			}
			if pc := s.Msg.GetPolyCommitment(); pc != nil && pc.Eon == eon {
				c = true
			}
			if pe := s.Msg.GetPolyEval(); pe != nil && pe.Eon == eon {
				for _, r := range pe.Receivers {
					if bytes.Equal(r, rcv.Bytes()) {
						v = true
					}
				}
			}
		}
		return c && v
	}
	for _, i := range honest {
		for _, s := range rig.SentBy(rig.Parties[i].Name) {
			if s.Msg == nil || s.Rec.Check != 0 || s.Msg.GetAccusation() == nil {
				continue
			}
			ac := s.Msg.GetAccusation()
			for _, ei := range lg.eons {
				if ei.Eon != ac.Eon {
					continue
				}
				for _, a := range ac.Accused {
					j := rig.IndexOf(common.BytesToAddress(a))
					if j >= 0 && plan.byz(j) == nil && landedFor(j, ac.Eon, ei.Start, rig.Parties[i].Addr) {
						add("C07:honest-dealer-accused", fmt.Sprintf("eon %d: honest party %d accuses honest party %d although its commitment and its evaluation for party %d were included in the dealing phase", ac.Eon, i, j, i), fmt.Sprintf("accusation in block %d", s.Rec.Height), "no accusation")
					}
				}
			}
		}
	}
	for _, ei := range lg.eons {
		if ei.CfgIdx != 1 {
			continue
		}
		finalH := ei.Start + 3*L
		type succ struct {
			party int
			res   *puredkg.Result
		}
		var ok []succ
		for _, i := range honest {
			midx := plan.memberIdx(i)
			var row *dkgrig.ResultRow
			for k := range lg.results[i] {
				if uint64(lg.results[i][k].Eon) == ei.Eon {
					row = &lg.results[i][k]
				}
			}
			if midx < 0 {
				if row != nil {
					add("C07:non-member-has-result", fmt.Sprintf("party %d is not in the keyper set but stores a DKG result for eon %d", i, ei.Eon), row, nil)
				}
				continue
			}
			if row == nil {
				if lg.endPos >= finalH {
					add("C07:no-result-after-finalisation", fmt.Sprintf("party %d processed block %d >= %d but has no dkg_result for eon %d", i, lg.endPos, finalH, ei.Eon), nil, nil)
				}
				continue
			}
			// the vote it sent must say what it stored
			for _, s := range rig.SentBy(rig.Parties[i].Name) {
				if s.Msg != nil && s.Msg.GetDkgResult() != nil && s.Msg.GetDkgResult().Eon == ei.Eon && s.Msg.GetDkgResult().Success != row.Success {
					add("C07:vote-differs-from-result", fmt.Sprintf("party %d voted %v for eon %d but stored success=%v", i, s.Msg.GetDkgResult().Success, ei.Eon, row.Success), nil, nil)
				}
			}
			if !row.Success {
				out.failures++
				continue
			}
			out.successes++
			if row.Result == nil {
				add("C07:result-undecodable", fmt.Sprintf("party %d: successful dkg_result for eon %d does not decode: %s", i, ei.Eon, row.DecErr), nil, nil)
				continue
			}
			r := row.Result
			if r.Keyper != uint64(midx) || r.NumKeypers != uint64(len(plan.Members)) || r.Threshold != uint64(plan.P.T) || r.Eon != ei.Eon {
				add("C07:result-header", fmt.Sprintf("party %d: result header (eon %d, n %d, t %d, keyper %d) does not describe the run", i, r.Eon, r.NumKeypers, r.Threshold, r.Keyper), nil, nil)
				continue
			}
			ok = append(ok, succ{i, r})
		}
		// agreement
		for k := 1; k < len(ok); k++ {
			if resultKeyMaterial(ok[k].res) != resultKeyMaterial(ok[0].res) {
				add("C07:disagreement", fmt.Sprintf("eon %d: parties %d and %d both report success but hold different eon public key / public key shares", ei.Eon, ok[0].party, ok[k].party), nil, "equal key material")
				break
			}
		}
		// each secret share matches its public share
		epoch := shcrypto.ComputeEpochID([]byte(fmt.Sprintf("verif-c07-epoch-%d", ei.Eon)))
		for _, s := range ok {
			idx := plan.memberIdx(s.party)
			if idx >= len(s.res.PublicKeyShares) {
				add("C07:share-vector-short", fmt.Sprintf("eon %d: party %d has %d public key shares", ei.Eon, s.party, len(s.res.PublicKeyShares)), nil, nil)
				continue
			}
			es := shcrypto.ComputeEpochSecretKeyShare(s.res.SecretKeyShare, epoch)
			if !shcrypto.VerifyEpochSecretKeyShare(es, s.res.PublicKeyShares[idx], epoch) {
				add("C07:secret-share-mismatch", fmt.Sprintf("eon %d: party %d's secret key share does not match PublicKeyShares[%d]", ei.Eon, s.party, idx), nil, nil)
			}
		}
		// any t successful parties decrypt
		if len(ok) >= plan.P.T {
			var ids []int
			for k := range ok {
				ids = append(ids, k)
			}
			subs := subsets(ids, plan.P.T)
			if len(subs) > 6 {
				subs = subs[:6]
			}
			for _, sub := range subs {
				var indices []int
				var shares []*shcrypto.EpochSecretKeyShare
				for _, k := range sub {
					indices = append(indices, plan.memberIdx(ok[k].party))
					shares = append(shares, shcrypto.ComputeEpochSecretKeyShare(ok[k].res.SecretKeyShare, epoch))
				}
				key, err := shcrypto.ComputeEpochSecretKey(indices, shares, uint64(plan.P.T))
				good := err == nil
				if good {
					msg := []byte("verif c07 trial message, 32 b.!!")
					sigma, _ := shcrypto.RandomSigma(rand.Reader)
					ct := shcrypto.Encrypt(msg, ok[sub[0]].res.PublicKey, epoch, sigma)
					pt, derr := ct.Decrypt(key)
					good = derr == nil && bytes.Equal(pt, msg)
				}
				if !good {
					add("C07:threshold-decryption-fails", fmt.Sprintf("eon %d: the shares of keyper indices %v do not yield a key that decrypts under the eon key", ei.Eon, indices), nil, nil)
				} else {
					out.decryptOK++
				}
			}
		}
		// liveness clause
		if len(plan.Byz) == 0 && len(plan.Slow) == 0 && out.inPhase {
			for _, i := range honest {
				if plan.memberIdx(i) < 0 {
					continue
				}
				found := false
				for _, row := range lg.results[i] {
					if uint64(row.Eon) == ei.Eon && row.Success {
						found = true
					}
				}
				if !found && lg.endPos >= finalH {
					add("C07:honest-run-fails", fmt.Sprintf("every party is honest and all messages landed in their phases, but party %d does not report success for eon %d", i, ei.Eon), lg.results[i], "success")
				}
			}
		}
	}
	return out
}

// ---------------------------------------------------------------------------------------
// rendering for the model

func renderCase(id uint64, lg *runLog) string {
	rig := lg.rig
	plan := lg.plan
	lb := dkgrig.NewLabeller(rig, plan.Members, plan.P.T)
	lb.CollectCommits()
	for _, l := range lg.snaps {
		for _, s := range l {
			for eon, p := range s.Pure {
				for k, c := range p.Commitments {
					if c != nil && k < len(plan.Members) {
						lb.Commit(eon, plan.Members[k], c)
					}
				}
			}
		}
	}
	var blocks []string
	for h := int64(1); h <= lg.endPos; h++ {
		var evs []string
		for _, ev := range dkgrig.EventsOf(rig.Chain.BlockAt(h)) {
			if s, ok := lb.EventCoq(ev); ok {
				evs = append(evs, s)
			}
		}
		blocks = append(blocks, vh.CPair(vh.CZ(h), vh.CList(evs)))
	}
	// equality classes of the key material per eon
	classOf := map[uint64]map[string]uint64{}
	var views []string
	for i := 0; i < plan.P.N; i++ {
		if plan.byz(i) != nil {
			continue
		}
		var polys, snaps, msgs, results []string
		seenPoly := map[uint64]bool{}
		for _, s := range rig.SentBy(rig.Parties[i].Name) {
			if s.Msg == nil || s.Rec.Check != 0 {
				continue
			}
			if pc := s.Msg.GetPolyCommitment(); pc != nil && !seenPoly[pc.Eon] {
				if g, ok := dkgrig.GammasOf(pc); ok {
					seenPoly[pc.Eon] = true
					pid, n := lb.Commit(pc.Eon, i, g)
					polys = append(polys, vh.CPair(vh.CN(pc.Eon), vh.CApp("mkP", vh.CN(pid), vh.CN(uint64(n)))))
				}
			}
			if k := dkgrig.Kind(s.Msg); k == "batchconfig" || k == "blockseen" {
				continue
			}
			if c, ok := lb.MsgCoq(i, s.Msg); ok {
				msgs = append(msgs, c)
			}
		}
		for _, s := range lg.snaps[i] {
			if s.Pos > lg.endPos {
				continue
			}
			var eons []uint64
			for e := range s.Pure {
				eons = append(eons, e)
			}
			sort.Slice(eons, func(a, b int) bool { return eons[a] < eons[b] })
			var rows []string
			for _, e := range eons {
				rows = append(rows, vh.CPair(vh.CN(e), lb.SnapCoq(i, e, s.Pure[e])))
			}
			snaps = append(snaps, vh.CPair(vh.CZ(s.Pos), vh.CList(rows)))
		}
		for _, r := range lg.results[i] {
			cls := uint64(0)
			if r.Success && r.Result != nil {
				m := classOf[uint64(r.Eon)]
				if m == nil {
					m = map[string]uint64{}
					classOf[uint64(r.Eon)] = m
				}
				k := resultKeyMaterial(r.Result)
				if _, ok := m[k]; !ok {
					m[k] = uint64(len(m) + 1)
				}
				cls = m[k]
			}
			results = append(results, vh.CPair(vh.CN(uint64(r.Eon)), vh.CPair(vh.CBool(r.Success), vh.CN(cls))))
		}
		views = append(views, vh.CApp("mkView", vh.CBytes(rig.Parties[i].Addr.Bytes()), vh.CList(polys), vh.CList(snaps), vh.CList(msgs), vh.CList(results)))
	}
	return vh.CApp("CRun", vh.CN(id), vh.CZ(plan.P.PhaseLen), vh.CList(blocks), vh.CList(views))
}

// ---------------------------------------------------------------------------------------
// plan generation

func honestPlan(n, t int, L int64, seed uint64) Plan {
	m := make([]int, n)
	for i := range m {
		m[i] = i
	}
	return Plan{P: dkgrig.Params{N: n, T: t, PhaseLen: L, StartDelta: 1000}, Members: m, SchedSeed: seed, MaxEons: 1, SlowEvery: 1}
}

func defaultStrategy(n, party int) Strategy {
	ev := make([]string, n)
	for i := range ev {
		ev[i] = "correct"
	}
	return Strategy{Party: party, Commit: "correct", Evals: ev, Apology: "correct", TDeal: "in", TAcc: "in", TApo: "in", Vote: "true", CheckIn: true}
}

// exhaustive strategies of one Byzantine party (party 2) against two victims for n=3, t=2
func exhaustiveN3() []Plan {
	var out []Plan
	evalA := []string{"correct", "wrong", "none"}
	commits := []string{"correct", "none", "wrongdeg", "dup"}
	accs := [][]int{{}, {0}, {1}, {0, 1}}
	apos := []string{"correct", "wrong", "none"}
	timings := []string{"in", "late"}
	orders := []string{"", "evals-first"}
	seed := uint64(1)
	for _, ord := range orders {
		for _, e0 := range evalA {
			for _, e1 := range evalA {
				for _, c := range commits {
					for _, a := range accs {
						for _, ap := range apos {
							for _, tm := range timings {
								p := honestPlan(3, 2, 6, seed)
								seed++
								s := defaultStrategy(3, 2)
								s.Evals = []string{e0, e1, ""}
								s.Commit = c
								s.Accuse = a
								s.Apology = ap
								s.TDeal, s.TAcc, s.TApo = tm, tm, tm
								s.Order = ord
								p.Byz = []Strategy{s}
								p.MaxEons = 1
								out = append(out, p)
							}
						}
					}
				}
			}
		}
	}
	return out
}

// exhaustive strategies of one Byzantine party (the last one) against all other parties of a
// set of n keypers with threshold t: evaluation per victim x commitment x accused subset x
// apology x timing
func exhaustiveOneByz(n, t int) []Plan {
	var out []Plan
	evalA := []string{"correct", "wrong", "none"}
	commits := []string{"correct", "none", "wrongdeg", "dup"}
	apos := []string{"correct", "wrong", "none"}
	timings := []string{"in", "late"}
	byz := n - 1
	nEv := 1
	for i := 0; i < byz; i++ {
		nEv *= 3
	}
	seed := uint64(1000 * n * t)
	for ev := 0; ev < nEv; ev++ {
		for _, c := range commits {
			for accMask := 0; accMask < 1<<byz; accMask++ {
				for _, ap := range apos {
					for _, tm := range timings {
						p := honestPlan(n, t, 6, seed)
						seed++
						s := defaultStrategy(n, byz)
						x := ev
						for v := 0; v < byz; v++ {
							s.Evals[v] = evalA[x%3]
							x /= 3
						}
						s.Evals[byz] = ""
						s.Commit = c
						s.Accuse = nil
						for v := 0; v < byz; v++ {
							if accMask&(1<<v) != 0 {
								s.Accuse = append(s.Accuse, v)
							}
						}
						s.Apology = ap
						s.TDeal, s.TAcc, s.TApo = tm, tm, tm
						p.Byz = []Strategy{s}
						p.MaxEons = 1
						out = append(out, p)
					}
				}
			}
		}
	}
	return out
}

func randomPlan(r *vh.RNG) Plan {
	n := 3 + r.Intn(3)
	t := 2 + r.Intn(n-2)
	if t > n {
		t = n
	}
	L := int64(6 + r.Intn(4))
	p := honestPlan(n, t, L, r.U64())
	p.P.Fork = r.Chance(1, 4)
	p.Skip = r.Intn(4)
	// keyper set 1: a permutation of all parties, sometimes without one of them
	perm := r.Perm(n)
	p.Members = perm
	if n > 3 && t < n && r.Chance(1, 3) {
		p.Members = perm[:n-1]
		if t > len(p.Members) {
			p.P.T = len(p.Members)
		}
	}
	faults := len(p.Members) - p.P.T
	nb := 0
	if faults > 0 {
		nb = r.Intn(faults + 1)
	}
	if r.Chance(1, 10) {
		nb = faults + 1 // more than the property allows: agreement must still hold among successes
		if nb > len(p.Members)-1 {
			nb = len(p.Members) - 1
		}
	}
	cand := append([]int{}, p.Members...)
	for k := 0; k < nb; k++ {
		j := r.Intn(len(cand))
		party := cand[j]
		cand = append(cand[:j], cand[j+1:]...)
		if r.Chance(1, 4) {
			p.Slow = append(p.Slow, party)
			p.SlowEvery = 3 + r.Intn(int(L))
			continue
		}
		s := defaultStrategy(n, party)
		for i := range s.Evals {
			s.Evals[i] = vh.Pick(r, "correct", "correct", "wrong", "none")
		}
		s.Commit = vh.Pick(r, "correct", "correct", "none", "wrongdeg", "dup")
		for _, m := range p.Members {
			if m != party && r.Chance(1, 3) {
				s.Accuse = append(s.Accuse, m)
			}
		}
		s.Apology = vh.Pick(r, "correct", "correct", "wrong", "none")
		s.TDeal = vh.Pick(r, "in", "in", "late")
		s.Order = vh.Pick(r, "", "", "evals-first", "evals-block-first")
		s.TAcc = vh.Pick(r, "in", "in", "late", "early")
		s.TApo = vh.Pick(r, "in", "in", "late", "early")
		s.Vote = vh.Pick(r, "true", "false", "none")
		s.CheckIn = r.Chance(3, 4)
		s.Unasked = r.Chance(1, 5)
		if r.Chance(1, 4) {
			for _, m := range p.Members {
				if m != party && r.Chance(1, 2) {
					s.UnaskedTo = append(s.UnaskedTo, m)
				}
			}
		}
		p.Byz = append(p.Byz, s)
	}
	p.MaxEons = 1 + r.Intn(2)
	if r.Chance(1, 5) {
		// restart an honest, prompt party somewhere in the first eon
		var hon []int
		for _, m := range p.Members {
			if p.byz(m) == nil && !p.slow(m) {
				hon = append(hon, m)
			}
		}
		if len(hon) > 0 {
			p.SplitAll = r.Chance(1, 2)
			p.Restart = &RestartSpec{Party: hon[r.Intn(len(hon))], After: int64(r.Intn(int(3*L) + 2)), Eon: r.Intn(p.MaxEons)}
		}
	}
	return p
}

func forcedPlans() []Plan {
	var out []Plan
	// all honest, several sizes
	for _, nt := range [][2]int{{3, 2}, {3, 3}, {4, 3}, {5, 3}, {4, 2}} {
		out = append(out, honestPlan(nt[0], nt[1], 6, uint64(100+nt[0]*10+nt[1])))
	}
	mk := func(f func(s *Strategy)) Plan {
		p := honestPlan(3, 2, 6, uint64(200+len(out)))
		s := defaultStrategy(3, 2)
		f(&s)
		p.Byz = []Strategy{s}
		return p
	}
	out = append(out,
		mk(func(s *Strategy) {}), // Byzantine party behaving correctly
		mk(func(s *Strategy) { s.Commit = "none" }),
		mk(func(s *Strategy) { s.Commit = "wrongdeg" }),
		mk(func(s *Strategy) { s.Evals[0] = "wrong" }),
		mk(func(s *Strategy) { s.Evals[0] = "wrong"; s.Apology = "wrong" }),
		mk(func(s *Strategy) { s.Evals[0] = "wrong"; s.Apology = "none" }),
		mk(func(s *Strategy) { s.Evals[0] = "none"; s.Evals[1] = "none" }),
		mk(func(s *Strategy) { s.Evals[0] = "none"; s.TApo = "late" }),
		mk(func(s *Strategy) { s.Accuse = []int{0} }),
		mk(func(s *Strategy) { s.Accuse = []int{0, 1} }),
		mk(func(s *Strategy) { s.Accuse = []int{0}; s.TAcc = "late" }),
		mk(func(s *Strategy) { s.Accuse = []int{0}; s.TAcc = "early" }),
		mk(func(s *Strategy) { s.TDeal = "late" }),
		mk(func(s *Strategy) { s.Evals[1] = "wrong"; s.TApo = "early" }),
		mk(func(s *Strategy) { s.Unasked = true; s.Apology = "wrong" }),
		mk(func(s *Strategy) { s.Unasked = true }),
		// a dealer nobody accuses publishes an unsolicited apology naming one honest keyper / the
		// other / both, with a wrong or the right evaluation
		mk(func(s *Strategy) { s.UnaskedTo = []int{0}; s.Apology = "wrong" }),
		mk(func(s *Strategy) { s.UnaskedTo = []int{1}; s.Apology = "wrong" }),
		mk(func(s *Strategy) { s.UnaskedTo = []int{0, 1}; s.Apology = "wrong" }),
		mk(func(s *Strategy) { s.UnaskedTo = []int{0} }),
		mk(func(s *Strategy) { s.UnaskedTo = []int{1} }),
		mk(func(s *Strategy) { s.UnaskedTo = []int{1}; s.Apology = "wrong"; s.Evals[0] = "wrong" }),
		mk(func(s *Strategy) { s.UnaskedTo = []int{0}; s.Apology = "wrong"; s.TApo = "early" }),
		mk(func(s *Strategy) { s.Vote = "false" }),
		mk(func(s *Strategy) { s.CheckIn = false }),
		mk(func(s *Strategy) { s.Commit = "dup"; s.Evals[0] = "wrong" }),
	)
	// the evaluations reach the chain before the commitment (both in the dealing phase)
	for _, ord := range []string{"evals-first", "evals-block-first"} {
		ord := ord
		out = append(out,
			mk(func(s *Strategy) { s.Order = ord }),
			mk(func(s *Strategy) { s.Order = ord; s.Evals[0] = "wrong" }),
			mk(func(s *Strategy) { s.Order = ord; s.Evals[1] = "wrong" }),
			mk(func(s *Strategy) { s.Order = ord; s.Evals[0] = "wrong"; s.Apology = "none" }),
			mk(func(s *Strategy) { s.Order = ord; s.Evals[0] = "wrong"; s.Evals[1] = "wrong"; s.Apology = "wrong" }),
			mk(func(s *Strategy) { s.Order = ord; s.Evals[0] = "wrong"; s.Commit = "dup" }),
			mk(func(s *Strategy) { s.Order = ord; s.Evals[1] = "none"; s.TDeal = "late" }),
		)
	}
	// all honest, every transaction alone in its block, one keyper processes block by block and is
	// restarted after the k-th block of the first eon (k over the dealing phase and a bit beyond)
	for party := 0; party < 2; party++ {
		for k := int64(1); k <= 16; k++ {
			q := honestPlan(3, 2, 14, uint64(400+16*party)+uint64(k))
			q.SplitAll = true
			q.Restart = &RestartSpec{Party: party, After: k}
			out = append(out, q)
		}
	}
	// a slow honest party
	p := honestPlan(3, 2, 6, 300)
	p.Slow = []int{1}
	p.SlowEvery = 9
	out = append(out, p)
	// DKG fails (two Byzantine of three withhold), the eon restarts
	p = honestPlan(3, 2, 6, 301)
	s1, s2 := defaultStrategy(3, 1), defaultStrategy(3, 2)
	s1.Commit, s2.Commit = "none", "none"
	s1.Vote, s2.Vote = "false", "false"
	p.Byz = []Strategy{s1, s2}
	p.MaxEons = 2
	out = append(out, p)
	// a retried eon with a Byzantine dealer in it, and an honest party restarted after each block
	// of the retried eon.  (a) n=4, t=3: parties 2 and 3 withhold in the first eon, it fails for
	// everybody and is retried; (b) n=4, t=2: parties 2 and 3 vote "failed" before the honest
	// keypers have voted, shuttermint retries at once.  In the retried eon party 2 is correct,
	// party 3 deals a wrong evaluation to party 0 and never apologises.
	for variant := 0; variant < 2; variant++ {
		for party := 0; party < 2; party++ {
			for k := int64(1); k <= 3*6+4; k++ {
				t := 3
				if variant == 1 {
					t = 2
				}
				q := honestPlan(4, t, 6, uint64(500+100*variant+50*party)+uint64(k))
				b2, b3 := defaultStrategy(4, 2), defaultStrategy(4, 3)
				l2, l3 := defaultStrategy(4, 2), defaultStrategy(4, 3)
				l3.Evals[0] = "wrong"
				l3.Apology = "none"
				b2.Vote, b3.Vote = "false", "false"
				if variant == 0 {
					b2.Commit, b3.Commit = "none", "none"
				} else {
					b2.TVote, b3.TVote = "early", "early"
				}
				b2.Later, b3.Later = &l2, &l3
				q.Byz = []Strategy{b2, b3}
				q.MaxEons = 2
				q.Restart = &RestartSpec{Party: party, After: k, Eon: 1}
				out = append(out, q)
			}
		}
	}
	// permuted member list, a party outside the set
	p = honestPlan(4, 2, 6, 302)
	p.Members = []int{2, 0, 3}
	s := defaultStrategy(4, 3)
	s.Evals[0] = "wrong"
	p.Byz = []Strategy{s}
	out = append(out, p)
	return out
}

// ---------------------------------------------------------------------------------------

type outcome struct {
	plan Plan
	lg   *runLog
	err  error
	or   oracleOut
	coq  string
}

func main() {
	run := vh.Start("Verif.Corr.C07", 12)
	run.SetPreamble("From Verif Require Import Model.DKGPure Model.DKGDriver.\nOpen Scope N_scope.")
	defer run.Finish()
	run.Rule = "complete DKG runs on n real keyper stacks (smobserver, fx message sender, puredkg, ECIES, one pgfake database each) over tmfake around the real shuttermint app; Byzantine parties from the alphabet eval {correct, wrong, none} per victim x commitment {correct, none, wrong degree, duplicate} x order of the two dealing messages {commitment first, evaluations first, evaluations a block earlier} x accusation subsets x apology {correct, wrong, none, unasked to all / to a subset} x timing {in phase, late, early} x vote; slow honest parties; permuted / partial keyper sets; forced: all-honest n=3..5, each single deviation for n=3,t=2, a failing DKG with restart, all-honest runs with every transaction alone in its block and one keyper restarted after the k-th block of the eon (k = 1..16, two parties), retried eons (a genuinely failed first eon; t Byzantine failure votes cast early) with a Byzantine dealer in the retry and an honest keyper restarted after each block of the retried eon; thorough: the exhaustive one-Byzantine tables for n=3,t=2 (both message orders), n=4,t=2 and n=4,t=3; non-trivial = a Byzantine or slow party took part and at least one honest keyper finished the DKG; distinct by the JSON rendering of the plan"

	var plans []Plan
	if run.Replay != "" {
		var p Plan
		if err := run.LoadReplay(&p); err != nil {
			panic(err)
		}
		plans = []Plan{p}
	} else {
		plans = forcedPlans()
		for _, f := range run.CorpusFiles() {
			var w struct {
				Case Plan `json:"case"`
			}
			if b, err := os.ReadFile(f); err == nil && json.Unmarshal(b, &w) == nil && w.Case.P.N > 0 {
				plans = append(plans, w.Case)
			}
		}
		if run.Thorough {
			plans = append(plans, exhaustiveN3()...)
			plans = append(plans, exhaustiveOneByz(4, 2)...)
			plans = append(plans, exhaustiveOneByz(4, 3)...)
			run.Exhaustive = true
		} else {
			ex := exhaustiveN3()
			for k := 0; k < run.Scale(60, 0); k++ {
				plans = append(plans, ex[run.RNG.Intn(len(ex))])
			}
		}
		nr := run.Scale(120, 1500)
		for k := 0; k < nr; k++ {
			plans = append(plans, randomPlan(run.RNG))
		}
	}

	workers := 8
	if len(plans) < workers {
		workers = len(plans)
	}
	results := make([]outcome, len(plans))
	var wg sync.WaitGroup
	next := make(chan int, len(plans))
	for i := range plans {
		next <- i
	}
	close(next)
	var issuesMu sync.Mutex
	issues := map[string]bool{}
	for w := 0; w < workers; w++ {
		wg.Add(1)
		go func() {
			defer wg.Done()
			servers, err := dkgrig.NewServers(run.Repo, 5)
			if err != nil {
				panic(err)
			}
			defer servers.Close()
			for i := range next {
				o := outcome{plan: plans[i]}
				p, msg := vh.Guard(func() {
					o.lg, o.err = execute(plans[i], servers)
					if o.err == nil {
						o.or = oracle(o.lg)
						o.coq = renderCase(uint64(i+1), o.lg)
						issuesMu.Lock()
						for _, is := range o.lg.issues {
							issues[is] = true
						}
						issuesMu.Unlock()
					}
				})
				if p {
					o.err = fmt.Errorf("driver panic: %s", msg)
				}
				if o.lg != nil {
					o.lg.rig = nil // release
				}
				results[i] = o
			}
		}()
	}
	wg.Wait()
	for is := range issues {
		run.Tie(is)
	}
	// the property itself (agreement) is reported before its symptoms
	for _, o := range results {
		if o.err == nil {
			for _, v := range o.or.viol {
				if v.Key == "C07:disagreement" {
					run.Violate(v)
				}
			}
		}
	}
	for i, o := range results {
		id := uint64(i + 1)
		run.NextID()
		if o.err != nil {
			run.Violate(vh.Violation{Key: "C07:rig-failure", What: "the rig could not execute the plan: " + o.err.Error(), Case: o.plan})
			continue
		}
		for _, v := range o.or.viol {
			if v.Key != "C07:disagreement" {
				run.Violate(v)
			}
		}
		js, _ := json.Marshal(o.plan)
		nb, ns := len(o.plan.Byz), len(o.plan.Slow)
		run.Dist[fmt.Sprintf("n=%d,t=%d,byz=%d,slow=%d", len(o.plan.Members), o.plan.P.T, nb, ns)]++
		run.Dist[fmt.Sprintf("honest_successes=%d", min(o.or.successes, 5))]++
		if o.or.failures > 0 {
			run.Dist["runs_with_honest_failure"]++
		}
		if o.or.accusation {
			run.Dist["runs_with_honest_accusation"]++
		}
		if !o.or.inPhase {
			run.Dist["runs_with_honest_message_out_of_phase"]++
		}
		run.Dist["threshold_decryptions_checked"] += o.or.decryptOK
		run.Dist[fmt.Sprintf("eons=%d", len(o.lg.eons))]++
		run.AddCase(id, o.coq, o.plan, string(js), (nb+ns > 0) && o.or.successes+o.or.failures > 0)
	}
}
