//go:build verif

package main

import (
	"context"
	"fmt"
	"sort"
	"strconv"
	"strings"
	"sync"

	"github.com/ethereum/go-ethereum/common"
	"github.com/ethereum/go-ethereum/core/types"
	"github.com/ethereum/go-ethereum/ethclient"
	"github.com/ethereum/go-ethereum/rpc"
)

// ethFake is the execution node behind TriggerProcessor.FetchEvents: an in-process JSON-RPC
// server that answers eth_getLogs from a list of logs the driver planned. A log is identified
// by the contract address it was emitted by (one address per registered trigger) and its
// block number; the block range of the filter is honoured the way a node does.
type ethFake struct {
	mu    sync.Mutex
	logs  []types.Log
	calls int
}

type filterArg struct {
	FromBlock string           `json:"fromBlock"`
	ToBlock   string           `json:"toBlock"`
	Address   []common.Address `json:"address"`
}

func parseBlockArg(s string) (uint64, error) {
	if !strings.HasPrefix(s, "0x") {
		return 0, fmt.Errorf("ethfake: block argument %q is not a number", s)
	}
	return strconv.ParseUint(s[2:], 16, 64)
}

// GetLogs serves eth_getLogs.
func (e *ethFake) GetLogs(_ context.Context, arg filterArg) ([]types.Log, error) {
	from, err := parseBlockArg(arg.FromBlock)
	if err != nil {
		return nil, err
	}
	to, err := parseBlockArg(arg.ToBlock)
	if err != nil {
		return nil, err
	}
	e.mu.Lock()
	defer e.mu.Unlock()
	e.calls++
	out := []types.Log{}
	for _, l := range e.logs {
		if l.BlockNumber < from || l.BlockNumber > to {
			continue
		}
		ok := len(arg.Address) == 0
		for _, a := range arg.Address {
			if a == l.Address {
				ok = true
			}
		}
		if ok {
			out = append(out, l)
		}
	}
	sort.SliceStable(out, func(i, j int) bool { return out[i].BlockNumber < out[j].BlockNumber })
	return out, nil
}

func (e *ethFake) setLogs(ls []types.Log) {
	e.mu.Lock()
	defer e.mu.Unlock()
	e.logs = ls
}

func newEthFake() (*ethFake, *ethclient.Client, error) {
	srv := rpc.NewServer()
	ef := &ethFake{}
	if err := srv.RegisterName("eth", ef); err != nil {
		return nil, nil, err
	}
	return ef, ethclient.NewClient(rpc.DialInProc(srv)), nil
}
