//go:build verif

// Driver for C02 (the Shutter-service keyper never triggers decryption before the release
// condition).
//
// Implementation side, all against pgfake (in-memory PostgreSQL wire-protocol fake):
//
//	shutterservice.Keyper.maybeTriggerDecryption      (hook VerifMaybeTriggerDecryption; the
//	                                                   trigger channel is drained after every block)
//	shutterservice.updateEventFlag                    (hook VerifUpdateEventFlag)
//	shutterservice.TriggerProcessor.FetchEvents / ProcessEvents   (in-process eth_getLogs fake)
//	epochkghandler.KeyShareHandler.ConstructDecryptionKeyShares   (real BLS key material)
//	the repository's sqlc query functions for the edits that stand for the other services
//
// Every history starts from the empty database and a freshly started keyper. After every
// operation the driver records what the operation returned and the projection of the state
// (latestTriggeredTime and four tables); the Coq model (Model/ServiceTrigger.v) replays the
// history and must agree at every step. The oracle (oracle.go) recomputes "never early" from
// the driver's own bookkeeping of what was registered, started and released.
package main

import (
	"context"
	"database/sql"
	"encoding/hex"
	"errors"
	"fmt"
	"io"
	"math/big"
	"os"
	"sort"
	"strings"

	"github.com/ethereum/go-ethereum/common"
	"github.com/ethereum/go-ethereum/core/types"
	ethcrypto "github.com/ethereum/go-ethereum/crypto"
	"github.com/jackc/pgx/v4"
	"github.com/jackc/pgx/v4/pgxpool"
	"github.com/rs/zerolog"
	"github.com/shutter-network/shutter/shlib/puredkg"
	"github.com/shutter-network/shutter/shlib/shcrypto"

	corekeyperdatabase "github.com/shutter-network/rolling-shutter/rolling-shutter/keyper/database"
	"github.com/shutter-network/rolling-shutter/rolling-shutter/keyper/epochkghandler"
	"github.com/shutter-network/rolling-shutter/rolling-shutter/keyperimpl/shutterservice"
	servicedatabase "github.com/shutter-network/rolling-shutter/rolling-shutter/keyperimpl/shutterservice/database"
	"github.com/shutter-network/rolling-shutter/rolling-shutter/medley"
	"github.com/shutter-network/rolling-shutter/rolling-shutter/medley/broker"
	syncevent "github.com/shutter-network/rolling-shutter/rolling-shutter/medley/chainsync/event"
	"github.com/shutter-network/rolling-shutter/rolling-shutter/medley/configuration"
	"github.com/shutter-network/rolling-shutter/rolling-shutter/medley/encodeable/keys"
	"github.com/shutter-network/rolling-shutter/rolling-shutter/medley/encodeable/number"
	"github.com/shutter-network/rolling-shutter/rolling-shutter/medley/identitypreimage"
	"github.com/shutter-network/rolling-shutter/rolling-shutter/medley/testkeygen"
	"github.com/shutter-network/rolling-shutter/rolling-shutter/p2pmsg"
	"github.com/shutter-network/rolling-shutter/rolling-shutter/shdb"

	"verifharness/pgfake"
	"verifharness/vh"
)

// ---------------------------------------------------------------------------------------
// case description (also the replay format)

type logSpec struct {
	Eon int64  `json:"eon"`
	Id  int    `json:"id"`
	Blk uint64 `json:"blk"`
	// Val (hex) is the value at the place the trigger's predicate refers to; the log is laid
	// out accordingly (refmatch.go buildLog). Ignored for a trigger without predicate.
	Val string `json:"val,omitempty"`
}

// opSpec is one operation of a history. K selects the kind:
//
//	block     NewBlock(N, T)                      maybeTriggerDecryption on a header
//	restart   the volatile latestTriggeredTime is lost
//	regtime   InsertIdentityRegisteredEvent(Key, Eon, Id, TS, Blk)
//	regevent  InsertEventTriggerRegisteredEvent(Eon, Id, Exp, Blk)
//	fire      InsertFiredTrigger(Eon, Id, Blk)     (stands for the event syncer)
//	fetch     TriggerProcessor.FetchEvents(Start, End) + ProcessEvents, the node holding Logs
//	unfire    DeleteFiredTriggersFromBlockNumber(From)
//	rbtime    DeleteIdentityRegisteredEventsFromBlockNumber(From)
//	rbevent   DeleteEventTriggerRegisteredEventsFromBlockNumber(From)
//	config    InsertBatchConfig(Idx, Keypers, Act)
//	eon       InsertEon(Eon, Height, Act, Cfg)
//	dkg       InsertDKGResult(Eon, Success, Decodable)
//	released  updateEventFlag(keys message of eon Eon with identities Ids)
//	handle    GetEonForBlockNumber(UBlk) + ConstructDecryptionKeyShares(Ids)
type opSpec struct {
	K         string    `json:"k"`
	N         uint64    `json:"n,omitempty"`
	T         uint64    `json:"t,omitempty"`
	Key       int       `json:"key,omitempty"`
	Eon       int64     `json:"eon,omitempty"`
	Id        int       `json:"id,omitempty"`
	TS        int64     `json:"ts,omitempty"`
	Blk       int64     `json:"blk,omitempty"`
	Exp       int64     `json:"exp,omitempty"`
	From      int64     `json:"from,omitempty"`
	Start     uint64    `json:"start,omitempty"`
	End       uint64    `json:"end,omitempty"`
	Logs      []logSpec `json:"logs,omitempty"`
	Idx       int32     `json:"idx,omitempty"`
	Keypers   []int     `json:"keypers,omitempty"`
	Act       int64     `json:"act,omitempty"`
	Height    int64     `json:"height,omitempty"`
	Cfg       int64     `json:"cfg,omitempty"`
	Success   bool      `json:"success,omitempty"`
	Decodable bool      `json:"decodable,omitempty"`
	Ids       []int     `json:"ids,omitempty"`
	UBlk      uint64    `json:"ublk,omitempty"`
	Pred      *predSpec `json:"pred,omitempty"`    // regevent: the predicate of the trigger definition (nil: contract only)
	Derived   bool      `json:"derived,omitempty"` // inserted by Auto handling, not part of the input
	TSet      int64     `json:"tset,omitempty"`    // derived handle: the keyper set the trigger was sent for
	HasTSet   bool      `json:"has_tset,omitempty"`
}

type histCase struct {
	Name      string   `json:"name"`
	Events    bool     `json:"events"`     // event based triggers enabled in the configuration
	MaxKeys   uint64   `json:"max_keys"`   // MaxNumKeysPerMessage
	OrderSeed uint64   `json:"order_seed"` // row order oracle of pgfake (0: insertion order)
	Auto      bool     `json:"auto"`       // hand every emitted trigger to the key share handler right after its block
	Ops       []opSpec `json:"ops"`
}

// ---------------------------------------------------------------------------------------
// universe: addresses, registration keys, identities, BLS material

const numAddrs = 5 // address 0 is the keyper under test

var (
	uniAddrs   []common.Address
	uniEnc     []string
	meKey      *keys.ECDSAPrivate
	eonKeys    *testkeygen.EonKeys
	pureCache  = map[string][]byte{}
	zeroHash32 = make([]byte, 32)
)

type detReader struct{ r *vh.RNG }

func (d detReader) Read(p []byte) (int, error) {
	copy(p, d.r.Bytes(len(p)))
	return len(p), nil
}

func initUniverse() {
	for i := 0; i < numAddrs; i++ {
		k, err := ethcrypto.ToECDSA(ethcrypto.Keccak256([]byte(fmt.Sprintf("verif-c02-key-%d", i))))
		if err != nil {
			panic(err)
		}
		if i == 0 {
			meKey = &keys.ECDSAPrivate{Key: k}
		}
		a := ethcrypto.PubkeyToAddress(k.PublicKey)
		uniAddrs = append(uniAddrs, a)
		uniEnc = append(uniEnc, shdb.EncodeAddress(a))
	}
	ek, err := testkeygen.NewEonKeys(detReader{vh.NewRNG(202)}, 4, 2)
	if err != nil {
		panic(err)
	}
	eonKeys = ek
}

// keyParts is the primary key (identity_prefix, sender) of registration key k.
func keyParts(k int) ([]byte, string) {
	return []byte{0xA0, byte(k >> 8), byte(k), 0x01}, fmt.Sprintf("s%d", k)
}

func keyBytes(prefix []byte, sender string) []byte {
	return append(append([]byte{}, prefix...), []byte(sender)...)
}

// idBytes maps an identity label to the identity preimage. Small labels are chosen for the
// byte order (prefixes of each other, 0x00 / 0xff ends); every fifth label has the length of
// a real identity (32 byte prefix + 20 byte sender).
func idBytes(l int) []byte {
	switch l {
	case 0:
		return []byte{0x00}
	case 1:
		return []byte{0x00, 0x00}
	case 2:
		return []byte{0x01}
	case 3:
		return []byte{0xff}
	case 4:
		return []byte{0xff, 0x00}
	case 5:
		return []byte{0x00, 0xff}
	}
	h := ethcrypto.Keccak256([]byte(fmt.Sprintf("verif-c02-id-%d", l)))
	if l%5 == 0 {
		return append(append([]byte{}, h...), ethcrypto.Keccak256(h)[:20]...)
	}
	return h[:8]
}

func evParts(l int) ([]byte, string) {
	return []byte{0xE0, byte(l >> 8), byte(l)}, fmt.Sprintf("e%d", l)
}

// trigAddr is the contract whose logs fire the trigger registered as (eon, identity label).
func trigAddr(eon int64, l int) common.Address {
	return common.BytesToAddress(ethcrypto.Keccak256([]byte(fmt.Sprintf("verif-c02-trig-%d-%d", eon, l)))[:20])
}

// pureResult is a gob encoded puredkg.Result carrying the real BLS share of keyper ki.
func pureResult(eon int64, ki int) []byte {
	key := fmt.Sprintf("%d/%d", eon, ki)
	if b, ok := pureCache[key]; ok {
		return b
	}
	var pks []*shcrypto.EonPublicKeyShare
	for i := 0; i < int(eonKeys.NumKeypers); i++ {
		pks = append(pks, eonKeys.EonPublicKeyShare(i))
	}
	res := puredkg.Result{
		Eon: uint64(eon), NumKeypers: eonKeys.NumKeypers, Threshold: eonKeys.Threshold,
		Keyper: uint64(ki), SecretKeyShare: eonKeys.EonSecretKeyShare(ki),
		PublicKey: eonKeys.EonPublicKey(), PublicKeyShares: pks,
	}
	b, err := shdb.EncodePureDKGResult(&res)
	if err != nil {
		panic(err)
	}
	pureCache[key] = b
	return b
}

// ---------------------------------------------------------------------------------------
// the world a history runs in

type world struct {
	ctx   context.Context
	srv   *pgfake.Server
	pool  *pgxpool.Pool
	empty *pgfake.Store
	sdb   *servicedatabase.Queries
	kdb   *corekeyperdatabase.Queries
	ef    *ethFake
	tp    *shutterservice.TriggerProcessor

	reported map[string]bool // runtime issues of pgfake already reported
}

func newWorld(repo string) *world {
	ctx := context.Background()
	srv, err := pgfake.Start(pgfake.Options{RepoRoot: repo})
	if err != nil {
		panic(err)
	}
	pool, err := srv.Pool(ctx)
	if err != nil {
		panic(err)
	}
	ef, ec, err := newEthFake()
	if err != nil {
		panic(err)
	}
	return &world{
		ctx: ctx, srv: srv, pool: pool, empty: srv.Store().Snapshot(),
		sdb: servicedatabase.New(pool), kdb: corekeyperdatabase.New(pool),
		ef: ef, tp: shutterservice.NewTriggerProcessor(ec, pool),
		reported: map[string]bool{},
	}
}

func (w *world) close() {
	w.pool.Close()
	w.srv.Close()
}

// ---------------------------------------------------------------------------------------
// observations

type hexBytes []byte

func (b hexBytes) MarshalJSON() ([]byte, error) {
	return []byte(`"` + hex.EncodeToString(b) + `"`), nil
}

type trigObs struct {
	Block uint64     `json:"block"`
	Ids   []hexBytes `json:"ids"`
}

func (t trigObs) ids() [][]byte {
	out := make([][]byte, len(t.Ids))
	for i, b := range t.Ids {
		out[i] = b
	}
	return out
}

type stepObs struct {
	Out      string     `json:"out"` // none | db | triggers | shares | anomaly
	Accepted bool       `json:"accepted,omitempty"`
	Triggers []trigObs  `json:"triggers,omitempty"`
	ShareErr string     `json:"share_err,omitempty"`
	MsgEon   uint64     `json:"msg_eon,omitempty"`
	MsgIndex uint64     `json:"msg_index,omitempty"`
	MsgIds   []hexBytes `json:"msg_ids,omitempty"`
	Anomaly  string     `json:"anomaly,omitempty"`
}

var shareErrCtor = map[string]string{
	"block-range": "EBlockRange", "no-eon": "ENoEon", "empty": "EEmpty", "too-many": "ETooMany",
	"no-config": "ENoConfig", "not-keyper": "ENotKeyper", "negative-index": "ENegativeIndex",
	"shares-exist": "ESharesExist", "no-dkg-result": "ENoDkgResult", "dkg-failed": "EDkgFailed",
	"decode": "EDecode",
}

func cU(x uint64) string { return fmt.Sprintf("(%d)%%Z", x) }

func (o stepObs) coqOut() string {
	switch o.Out {
	case "none":
		return "ObNone"
	case "db":
		return vh.CApp("ObDb", vh.CBool(o.Accepted))
	case "triggers":
		xs := make([]string, len(o.Triggers))
		for i, t := range o.Triggers {
			xs[i] = vh.CPair(cU(t.Block), vh.CBytesList(t.ids()))
		}
		return vh.CApp("ObTriggers", vh.CList(xs))
	case "shares":
		if o.ShareErr != "" {
			return vh.CApp("ObShares", vh.CApp("ShErr", shareErrCtor[o.ShareErr]))
		}
		return vh.CApp("ObShares", vh.CApp("ShOk", vh.CApp("mkMsg", cU(o.MsgEon), cU(o.MsgIndex), vh.CBytesList(trigObs{Ids: o.MsgIds}.ids()))))
	}
	// anomaly: something the model has no outcome for; ObNone disagrees with every model
	// outcome of an operation that is not a restart, so the case is reported as a mismatch
	return "ObNone"
}

func (w *world) rows(table string) []pgfake.Row { return w.srv.Store().Table(table).Rows() }

func asBytes(v any) []byte {
	if v == nil {
		return nil
	}
	return v.([]byte)
}

// stateTerm renders latestTriggeredTime and the four observed tables as the trailing
// arguments of mkObs.
func (w *world) stateTerm(kpr *shutterservice.Keyper) string {
	lt, ok := kpr.VerifLatestTriggeredTime()
	latest := vh.COpt(ok, cU(lt))
	var irs, ets, fts, shs []string
	for _, r := range w.rows("identity_registered_event") {
		irs = append(irs, vh.CApp("mkIr",
			vh.CBytes(keyBytes(asBytes(r["identity_prefix"]), r["sender"].(string))),
			vh.CZ(r["eon"].(int64)), vh.CBytes(asBytes(r["identity"])), vh.CZ(r["timestamp"].(int64)),
			vh.CBool(r["decrypted"].(bool)), vh.CZ(r["block_number"].(int64))))
	}
	for _, r := range w.rows("event_trigger_registered_event") {
		ets = append(ets, vh.CApp("mkEt", vh.CZ(r["eon"].(int64)), vh.CBytes(asBytes(r["identity"])),
			vh.CZ(r["expiration_block_number"].(int64)), vh.CBool(r["decrypted"].(bool)), vh.CZ(r["block_number"].(int64))))
	}
	for _, r := range w.rows("fired_triggers") {
		fts = append(fts, vh.CApp("mkFt", vh.CZ(r["eon"].(int64)), vh.CBytes(asBytes(r["identity"])), vh.CZ(r["block_number"].(int64))))
	}
	for _, r := range w.rows("decryption_key_share") {
		shs = append(shs, "("+vh.CZ(r["eon"].(int64))+", "+vh.CBytes(asBytes(r["epoch_id"]))+", "+vh.CZ(r["keyper_index"].(int64))+")")
	}
	return latest + " " + vh.CList(irs) + " " + vh.CList(ets) + " " + vh.CList(fts) + " " + vh.CList(shs)
}

// ---------------------------------------------------------------------------------------
// Coq rendering of operations

func idList(ls []int) [][]byte {
	out := make([][]byte, len(ls))
	for i, l := range ls {
		out[i] = idBytes(l)
	}
	return out
}

func (o opSpec) coq() string {
	switch o.K {
	case "block":
		return vh.CApp("OpNewBlock", cU(o.N), cU(o.T), "canon", "canon")
	case "restart":
		return "OpRestart"
	case "regtime":
		p, s := keyParts(o.Key)
		return vh.CApp("OpRegisterTime", vh.CBytes(keyBytes(p, s)), vh.CZ(o.Eon), vh.CBytes(idBytes(o.Id)), vh.CZ(o.TS), vh.CZ(o.Blk))
	case "regevent":
		return vh.CApp("OpRegisterEvent", vh.CZ(o.Eon), vh.CBytes(idBytes(o.Id)), vh.CZ(o.Exp), vh.CZ(o.Blk))
	case "fire":
		return vh.CApp("OpFire", vh.CZ(o.Eon), vh.CBytes(idBytes(o.Id)), vh.CZ(o.Blk))
	case "fetch":
		xs := make([]string, len(o.Logs))
		for i, l := range o.Logs {
			xs[i] = "(" + vh.CZ(l.Eon) + ", " + vh.CBytes(idBytes(l.Id)) + ", " + cU(l.Blk) + ")"
		}
		return vh.CApp("OpFetch", cU(o.Start), cU(o.End), vh.CList(xs))
	case "unfire":
		return vh.CApp("OpUnfire", vh.CZ(o.From))
	case "rbtime":
		return vh.CApp("OpRollbackTime", vh.CZ(o.From))
	case "rbevent":
		return vh.CApp("OpRollbackEvent", vh.CZ(o.From))
	case "config":
		ks := make([]string, len(o.Keypers))
		for i, k := range o.Keypers {
			ks[i] = vh.CStr(uniEnc[k])
		}
		return vh.CApp("OpAddConfig", vh.CZ(int64(o.Idx)), vh.CList(ks), vh.CZ(o.Act))
	case "eon":
		return vh.CApp("OpEonStarted", vh.CZ(o.Eon), vh.CZ(o.Height), vh.CZ(o.Act), vh.CZ(o.Cfg))
	case "dkg":
		return vh.CApp("OpDKGResult", vh.CZ(o.Eon), vh.CBool(o.Success), vh.CBool(o.Decodable))
	case "released":
		return vh.CApp("OpKeysReleased", vh.CZ(o.Eon), vh.CBytesList(idList(o.Ids)))
	case "handle":
		return vh.CApp("OpHandleTrigger", cU(o.UBlk), vh.CBytesList(idList(o.Ids)))
	}
	panic("unknown op kind " + o.K)
}

// normalise puts an operation into the form both sides use (the node returns logs by block).
func (o *opSpec) normalise() {
	if o.K == "fetch" {
		sort.SliceStable(o.Logs, func(i, j int) bool { return o.Logs[i].Blk < o.Logs[j].Blk })
	}
}

// ---------------------------------------------------------------------------------------
// executing one operation against the implementation

type hist struct {
	w    *world
	run  *vh.Run
	c    histCase
	kpr  *shutterservice.Keyper
	ch   chan *broker.Event[*epochkghandler.DecryptionTrigger]
	ksh  *epochkghandler.KeyShareHandler
	book *book
	// statistics of the history
	emitted   int
	withheld  int
	shareMsgs int
	lastN     uint64 // the block processed last
	lastT     uint64
}

func classifyShareErr(err error) string {
	msg := err.Error()
	switch {
	case strings.Contains(msg, "cannot generate empty decryption key share"):
		return "empty"
	case strings.Contains(msg, "too many decryption key shares"):
		return "too-many"
	case errors.Is(err, epochkghandler.ErrNotAKeyper):
		return "not-keyper"
	case errors.Is(err, epochkghandler.ErrSharesAlreadySent):
		return "shares-exist"
	case errors.Is(err, epochkghandler.ErrEonDKGFailed):
		return "dkg-failed"
	case strings.Contains(msg, "failed to get config") && errors.Is(err, pgx.ErrNoRows):
		return "no-config"
	case strings.Contains(msg, "failed to get dkg result") && errors.Is(err, pgx.ErrNoRows):
		return "no-dkg-result"
	case strings.Contains(msg, "uint64 can't be negative"):
		return "negative-index"
	case strings.Contains(msg, "gob") || errors.Is(err, io.EOF) || errors.Is(err, io.ErrUnexpectedEOF):
		return "decode"
	}
	return ""
}

func (h *hist) exec(op opSpec) stepObs {
	w, ctx := h.w, h.w.ctx
	db := func(err error) stepObs { return stepObs{Out: "db", Accepted: err == nil} }
	switch op.K {
	case "block":
		hdr := &types.Header{Time: op.T, Number: new(big.Int).SetUint64(op.N)}
		blk := &syncevent.LatestBlock{
			Number:    &number.BlockNumber{Int: new(big.Int).SetUint64(op.N)},
			BlockHash: common.BytesToHash(ethcrypto.Keccak256([]byte(fmt.Sprint(op.N, op.T)))),
			Header:    hdr,
		}
		var err error
		panicked, pmsg := vh.Guard(func() { err = h.kpr.VerifMaybeTriggerDecryption(ctx, blk) })
		var ts []trigObs
	drain:
		for {
			select {
			case ev := <-h.ch:
				t := trigObs{Block: ev.Value.BlockNumber}
				for _, p := range ev.Value.IdentityPreimages {
					t.Ids = append(t.Ids, append(hexBytes{}, p.Bytes()...))
				}
				ts = append(ts, t)
			default:
				break drain
			}
		}
		if panicked {
			return stepObs{Out: "anomaly", Anomaly: "maybeTriggerDecryption panicked: " + pmsg, Triggers: ts}
		}
		if err != nil {
			return stepObs{Out: "anomaly", Anomaly: "maybeTriggerDecryption returned an error on a healthy database: " + err.Error(), Triggers: ts}
		}
		return stepObs{Out: "triggers", Triggers: ts}
	case "restart":
		h.kpr.VerifResetLatestTriggeredTime()
		return stepObs{Out: "none"}
	case "regtime":
		p, s := keyParts(op.Key)
		_, err := w.sdb.InsertIdentityRegisteredEvent(ctx, servicedatabase.InsertIdentityRegisteredEventParams{
			BlockNumber: op.Blk, BlockHash: zeroHash32, TxIndex: 0, LogIndex: 0, Eon: op.Eon,
			IdentityPrefix: p, Sender: s, Timestamp: op.TS, Identity: idBytes(op.Id),
		})
		return db(err)
	case "regevent":
		p, s := evParts(op.Id)
		def := triggerDefinition(op.Eon, op.Id, op.Pred).MarshalBytes()
		_, err := w.sdb.InsertEventTriggerRegisteredEvent(ctx, servicedatabase.InsertEventTriggerRegisteredEventParams{
			BlockNumber: op.Blk, BlockHash: zeroHash32, TxIndex: 0, LogIndex: 0, Eon: op.Eon,
			IdentityPrefix: p, Sender: s, Definition: def, ExpirationBlockNumber: op.Exp, Identity: idBytes(op.Id),
		})
		return db(err)
	case "fire":
		p, s := evParts(op.Id)
		return db(w.sdb.InsertFiredTrigger(ctx, servicedatabase.InsertFiredTriggerParams{
			Eon: op.Eon, Identity: idBytes(op.Id), IdentityPrefix: p, Sender: s,
			BlockNumber: op.Blk, BlockHash: zeroHash32, TxIndex: 0, LogIndex: 0,
		}))
	case "fetch":
		var logs []types.Log
		for i, l := range op.Logs {
			topics, data, _ := h.logShape(l)
			logs = append(logs, types.Log{
				Address: trigAddr(l.Eon, l.Id), Topics: topics, Data: data,
				BlockNumber: l.Blk, BlockHash: common.BytesToHash(ethcrypto.Keccak256([]byte(fmt.Sprint("b", l.Blk)))),
				TxHash: common.BytesToHash(ethcrypto.Keccak256([]byte(fmt.Sprint("t", l.Blk, i)))), TxIndex: 0, Index: uint(i),
			})
		}
		w.ef.setLogs(logs)
		var err error
		panicked, pmsg := vh.Guard(func() {
			var evs []shutterservice.Event
			evs, err = w.tp.FetchEvents(ctx, op.Start, op.End)
			if err == nil {
				err = w.pool.BeginFunc(ctx, func(tx pgx.Tx) error { return w.tp.ProcessEvents(ctx, tx, evs) })
			}
		})
		if panicked {
			return stepObs{Out: "anomaly", Anomaly: "FetchEvents/ProcessEvents panicked: " + pmsg}
		}
		return db(err)
	case "unfire":
		return db(w.sdb.DeleteFiredTriggersFromBlockNumber(ctx, op.From))
	case "rbtime":
		return db(w.sdb.DeleteIdentityRegisteredEventsFromBlockNumber(ctx, op.From))
	case "rbevent":
		return db(w.sdb.DeleteEventTriggerRegisteredEventsFromBlockNumber(ctx, op.From))
	case "config":
		ks := make([]string, len(op.Keypers))
		for i, k := range op.Keypers {
			ks[i] = uniEnc[k]
		}
		return db(w.kdb.InsertBatchConfig(ctx, corekeyperdatabase.InsertBatchConfigParams{
			KeyperConfigIndex: op.Idx, Height: 0, Keypers: ks, Threshold: 1, Started: true, ActivationBlockNumber: op.Act,
		}))
	case "eon":
		return db(w.kdb.InsertEon(ctx, corekeyperdatabase.InsertEonParams{
			Eon: op.Eon, Height: op.Height, ActivationBlockNumber: op.Act, KeyperConfigIndex: op.Cfg,
		}))
	case "dkg":
		var pure []byte
		switch {
		case op.Decodable:
			pure = pureResult(op.Eon, h.book.keyperIndexForEon(op.Eon))
		case op.Success:
			pure = []byte("not a gob stream")
		}
		errStr := sql.NullString{}
		if !op.Success {
			errStr = sql.NullString{String: "dkg failed", Valid: true}
		}
		return db(w.kdb.InsertDKGResult(ctx, corekeyperdatabase.InsertDKGResultParams{
			Eon: op.Eon, Success: op.Success, Error: errStr, PureResult: pure,
		}))
	case "released":
		msg := &p2pmsg.DecryptionKeys{Eon: uint64(op.Eon)}
		for _, l := range op.Ids {
			msg.Keys = append(msg.Keys, &p2pmsg.Key{IdentityPreimage: idBytes(l), Key: []byte{1}})
		}
		var err error
		panicked, pmsg := vh.Guard(func() { err = shutterservice.VerifUpdateEventFlag(ctx, w.pool, msg) })
		if panicked {
			return stepObs{Out: "anomaly", Anomaly: "updateEventFlag panicked: " + pmsg}
		}
		return db(err)
	case "handle":
		// what KeyShareHandler.handleEvent does up to Messaging.SendMessage
		b, err := medley.Uint64ToInt64Safe(op.UBlk)
		if err != nil {
			return stepObs{Out: "shares", ShareErr: "block-range"}
		}
		eon, err := w.kdb.GetEonForBlockNumber(ctx, b)
		if err != nil {
			if errors.Is(err, pgx.ErrNoRows) {
				return stepObs{Out: "shares", ShareErr: "no-eon"}
			}
			return stepObs{Out: "anomaly", Anomaly: "GetEonForBlockNumber: " + err.Error()}
		}
		var pre []identitypreimage.IdentityPreimage
		for _, l := range op.Ids {
			pre = append(pre, identitypreimage.IdentityPreimage(idBytes(l)))
		}
		var msg *p2pmsg.DecryptionKeyShares
		panicked, pmsg := vh.Guard(func() { msg, err = h.ksh.ConstructDecryptionKeyShares(ctx, eon, pre) })
		if panicked {
			return stepObs{Out: "anomaly", Anomaly: "ConstructDecryptionKeyShares panicked: " + pmsg}
		}
		if err != nil {
			cls := classifyShareErr(err)
			if cls == "" {
				return stepObs{Out: "anomaly", Anomaly: "ConstructDecryptionKeyShares: unclassified error: " + err.Error()}
			}
			return stepObs{Out: "shares", ShareErr: cls}
		}
		o := stepObs{Out: "shares", MsgEon: msg.Eon, MsgIndex: msg.KeyperIndex}
		for _, s := range msg.Shares {
			o.MsgIds = append(o.MsgIds, s.IdentityPreimage)
		}
		h.checkShares(op, eon, msg)
		return o
	}
	panic("unknown op kind " + op.K)
}

// triggerDefinition builds the definition registered for (set, identity label): the trigger's
// own contract and at most one predicate.
func triggerDefinition(eon int64, id int, p *predSpec) *shutterservice.EventTriggerDefinition {
	d := &shutterservice.EventTriggerDefinition{Contract: trigAddr(eon, id)}
	if p == nil {
		return d
	}
	vp := shutterservice.ValuePredicate{}
	switch p.Op {
	case "lt":
		vp.Op = shutterservice.UintLt
	case "lte":
		vp.Op = shutterservice.UintLte
	case "eq":
		vp.Op = shutterservice.UintEq
	case "gt":
		vp.Op = shutterservice.UintGt
	case "gte":
		vp.Op = shutterservice.UintGte
	case "beq":
		vp.Op = shutterservice.BytesEq
	default:
		panic("bad operator " + p.Op)
	}
	if p.Op == "beq" {
		vp.ByteArgs = [][]byte{p.byteArg()}
	} else {
		vp.IntArgs = []*big.Int{p.intArg()}
	}
	d.LogPredicates = []shutterservice.LogPredicate{{
		LogValueRef:    shutterservice.LogValueRef{Dynamic: p.Ref == "dynamic", Offset: p.Off},
		ValuePredicate: vp,
	}}
	return d
}

// logShape lays a planned log out for the predicate its trigger currently has (driver's
// bookkeeping) and says whether it matches by the reference matcher.
func (h *hist) logShape(l logSpec) ([]common.Hash, []byte, bool) {
	var p *predSpec
	if reg := h.book.ev[evKey(l.Eon, idBytes(l.Id))]; reg != nil {
		p = reg.pred
	}
	v, err := hex.DecodeString(l.Val)
	if err != nil {
		panic(err)
	}
	topics, data := buildLog(p, v)
	return topics, data, refMatches(p, topics, data)
}

// modelOp is the operation as the model sees it: the logs of a fetch are the MATCHING logs
// (the model's OpFetch takes "a log that matches the trigger's definition" as given).
func (h *hist) modelOp(op opSpec) opSpec {
	if op.K != "fetch" {
		return op
	}
	m := op
	m.Logs = nil
	for _, l := range op.Logs {
		if _, _, ok := h.logShape(l); ok {
			m.Logs = append(m.Logs, l)
		}
	}
	return m
}

// ---------------------------------------------------------------------------------------
// running a history

func (w *world) runHist(run *vh.Run, c histCase) {
	id := run.NextID()
	w.srv.SetStore(w.empty)
	if c.OrderSeed != 0 {
		or := vh.NewRNG(c.OrderSeed)
		w.srv.SetRowOrder(func(_ string, n int) []int { return or.Perm(n) })
	} else {
		w.srv.SetRowOrder(nil)
	}
	contracts := &shutterservice.ContractsConfig{}
	if c.Events {
		contracts.ShutterEventTriggerRegistry = common.HexToAddress("0x00000000000000000000000000000000000000e7")
	}
	cfg := &shutterservice.Config{
		InstanceID:           7,
		MaxNumKeysPerMessage: c.MaxKeys,
		Chain: &shutterservice.ChainConfig{
			Node:      &configuration.EthnodeConfig{PrivateKey: meKey},
			Contracts: contracts,
		},
	}
	ch := make(chan *broker.Event[*epochkghandler.DecryptionTrigger], 4096)
	h := &hist{
		w: w, run: run, c: c, ch: ch,
		kpr:  shutterservice.VerifNewKeyper(cfg, w.pool, ch),
		ksh:  &epochkghandler.KeyShareHandler{InstanceID: 7, KeyperAddress: cfg.GetAddress(), MaxNumKeysPerMessage: c.MaxKeys, DBPool: w.pool},
		book: newBook(c.Events),
	}
	var steps []string
	var executed []opSpec
	queue := append([]opSpec{}, c.Ops...)
	for len(queue) > 0 {
		op := queue[0]
		queue = queue[1:]
		if op.Derived {
			continue // derived operations are regenerated, never taken from a replay file
		}
		op.normalise()
		pending := []opSpec{op}
		for len(pending) > 0 {
			op := pending[0]
			pending = pending[1:]
			var ob stepObs
			if panicked, pmsg := vh.Guard(func() { ob = h.exec(op) }); panicked {
				ob = stepObs{Out: "anomaly", Anomaly: "panic while executing the operation: " + pmsg}
			}
			mop := h.modelOp(op)
			h.judge(op, ob)
			executed = append(executed, op)
			run.Dist["op:"+op.K]++
			if ob.Out == "anomaly" {
				run.Dist["anomaly"]++
				run.Tie(fmt.Sprintf("history %q op %d (%s): %s", c.Name, len(executed)-1, op.K, ob.Anomaly))
			}
			steps = append(steps, "("+mop.coq()+", mkObs "+ob.coqOut()+" "+w.stateTerm(h.kpr)+")")
			if op.K == "block" && c.Auto {
				for _, t := range ob.Triggers {
					set, ok := h.setOfTrigger(t)
					pending = append(pending, opSpec{K: "handle", UBlk: t.Block, Ids: h.book.labelsOf(t.ids()), Derived: true, TSet: set, HasTSet: ok})
				}
			}
		}
	}
	for _, is := range w.srv.RuntimeIssues() {
		key := is.Kind + " " + is.Stmt
		if !w.reported[key] { // once per statement, not once per history
			w.reported[key] = true
			run.Tie("pgfake runtime issue: " + is.Kind + " " + is.Stmt + ": " + is.Detail)
		}
	}
	w.srv.ClearRuntimeIssues()
	cterm := vh.CApp("mkConfig", vh.CStr(uniEnc[0]), vh.CBool(c.Events), cU(c.MaxKeys))
	nontrivial := h.emitted > 0 && h.withheld > 0
	run.Dist[fmt.Sprintf("hist:emitted=%d", min(h.emitted, 5))]++
	run.Dist[fmt.Sprintf("hist:share-msgs=%d", min(h.shareMsgs, 3))]++
	rec := c
	rec.Ops = executed
	run.AddCase(id, vh.CApp("CHist", vh.CN(id), cterm, vh.CList(steps)), rec, canonKey(c), nontrivial)
}

func canonKey(c histCase) string {
	var sb strings.Builder
	fmt.Fprint(&sb, c.Events, c.MaxKeys, c.Auto)
	for _, o := range c.Ops {
		if !o.Derived {
			fmt.Fprintf(&sb, "|%+v", o)
		}
	}
	return sb.String()
}

func main() {
	zerolog.SetGlobalLevel(zerolog.Disabled)
	// newblock.go prints the block time with fmt.Println on every call
	if devnull, err := os.OpenFile(os.DevNull, os.O_WRONLY, 0); err == nil {
		os.Stdout = devnull
	}
	run := vh.Start("Verif.Corr.C02", 24)
	defer run.Finish()
	run.SetPreamble("From Verif Require Import Model.ServiceTrigger.")
	run.Rule = "histories of operations (blocks, registrations, eon/DKG changes, fired triggers, released keys, restarts, key share requests) from the empty database; non-trivial = at least one block emitted a trigger and at least one block withheld a registered, not yet decrypted identity; distinct by canonical rendering of the input operations"
	initUniverse()
	w := newWorld(run.Repo)
	defer w.close()
	for _, t := range w.srv.Ties() {
		if !t.Informational() && relevantTie(t.Name) {
			run.Tie("pgfake tie: " + t.String())
		}
	}
	if run.Replay != "" {
		var c histCase
		if err := run.LoadReplay(&c); err != nil {
			panic(err)
		}
		w.runHist(run, c)
		return
	}
	for _, c := range forcedCases() {
		w.runHist(run, c)
	}
	for _, f := range run.CorpusFiles() {
		run.Replay = f
		var c histCase
		if err := run.LoadReplay(&c); err == nil {
			w.runHist(run, c)
		}
		run.Replay = ""
	}
	// vh seeds splitmix64 with seed*gamma, so the streams of consecutive seeds are one draw
	// apart; a fork (seeded with a mixed output) gives every seed its own stream
	rng := run.RNG.Fork()
	n := run.Scale(400, 8000)
	for i := 0; i < n; i++ {
		if i%4 == 3 {
			w.runHist(run, genMultiSetHist(rng, i))
		} else {
			w.runHist(run, genHist(rng, i))
		}
	}
}

// relevantTie limits tie reports to the packages whose statements the modelled paths run.
func relevantTie(name string) bool {
	return strings.Contains(name, "keyper/database") || strings.Contains(name, "shutterservice") ||
		strings.Contains(name, "keyper.sql") || strings.Contains(name, "V2_") || strings.Contains(name, "V3_")
}
