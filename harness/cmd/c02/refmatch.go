//go:build verif

package main

// Reference for "this log matches this trigger definition", independent of eventtrigger.go.
//
// Written from the definition semantics (the doc comments of EventTriggerDefinition,
// LogValueRef and ValuePredicate and the ABI event encoding):
//   - a log matches when it was emitted by the definition's contract and every predicate holds;
//   - a predicate takes a value out of the log and tests it:
//       reference with offset 0..3       the topic with that index, one 32 byte word
//       static reference, offset >= 4    the data word with index offset-4
//       dynamic reference, offset >= 4   the data word with index offset-4 is a byte offset
//                                        into the data, where a length word is followed by
//                                        that many bytes
//       UintLt/Lte/Eq/Gt/Gte             the value read as a big-endian unsigned integer of
//                                        its FULL length, compared with the argument
//       BytesEq                          byte-wise equality with the argument
// The driver only builds logs in which every referenced value exists, so the conventions for
// missing topics / truncated data are not needed here.

import (
	"bytes"
	"encoding/hex"
	"math/big"

	"github.com/ethereum/go-ethereum/common"
	ethcrypto "github.com/ethereum/go-ethereum/crypto"
)

// predSpec is the single predicate of a generated trigger definition.
type predSpec struct {
	Op  string `json:"op"`  // lt | lte | eq | gt | gte | beq
	Arg string `json:"arg"` // decimal integer (uint operators) or hex bytes (beq)
	Ref string `json:"ref"` // topic | static | dynamic
	Off uint64 `json:"off"` // LogValueRef.Offset: 0..3 for topics, >= 4 for data
}

func (p *predSpec) intArg() *big.Int {
	n, ok := new(big.Int).SetString(p.Arg, 10)
	if !ok {
		panic("bad integer argument " + p.Arg)
	}
	return n
}

func (p *predSpec) byteArg() []byte {
	b, err := hex.DecodeString(p.Arg)
	if err != nil {
		panic(err)
	}
	return b
}

func word(v []byte) []byte {
	w := make([]byte, 32)
	if len(v) > 32 {
		v = v[len(v)-32:]
	}
	copy(w[32-len(v):], v)
	return w
}

func filler(tag string, i int) []byte {
	return ethcrypto.Keccak256([]byte{byte(i)}, []byte(tag))
}

// buildLog lays out topics and data of a log so that the value the predicate refers to is v.
func buildLog(p *predSpec, v []byte) ([]common.Hash, []byte) {
	if p == nil {
		return []common.Hash{}, []byte{}
	}
	switch p.Ref {
	case "topic":
		ts := make([]common.Hash, p.Off+1)
		for i := range ts {
			ts[i] = common.BytesToHash(filler("topic", i))
		}
		ts[p.Off] = common.BytesToHash(word(v))
		return ts, []byte{}
	case "static":
		idx := int(p.Off - 4)
		var data []byte
		for i := 0; i < idx; i++ {
			data = append(data, filler("data", i)...)
		}
		data = append(data, word(v)...)
		data = append(data, filler("tail", 0)...) // the word is not the last one
		return []common.Hash{common.BytesToHash(filler("topic", 0))}, data
	case "dynamic":
		idx := int(p.Off - 4)
		head := (idx + 2) * 32 // one more static word after the offset word
		var data []byte
		for i := 0; i < idx; i++ {
			data = append(data, filler("data", i)...)
		}
		data = append(data, word(big.NewInt(int64(head)).Bytes())...)
		data = append(data, filler("mid", 0)...)
		data = append(data, word(big.NewInt(int64(len(v))).Bytes())...)
		data = append(data, v...)
		for len(data)%32 != 0 {
			data = append(data, 0)
		}
		return []common.Hash{common.BytesToHash(filler("topic", 0))}, data
	}
	panic("bad reference kind " + p.Ref)
}

// refValue takes the referenced value out of a log.
func refValue(p *predSpec, topics []common.Hash, data []byte) ([]byte, bool) {
	switch p.Ref {
	case "topic":
		if p.Off >= uint64(len(topics)) {
			return nil, false
		}
		return topics[p.Off].Bytes(), true
	case "static":
		s := (p.Off - 4) * 32
		if s+32 > uint64(len(data)) {
			return nil, false
		}
		return data[s : s+32], true
	case "dynamic":
		s := (p.Off - 4) * 32
		if s+32 > uint64(len(data)) {
			return nil, false
		}
		off := new(big.Int).SetBytes(data[s : s+32])
		if !off.IsUint64() || off.Uint64()+32 > uint64(len(data)) {
			return nil, false
		}
		o := off.Uint64()
		ln := new(big.Int).SetBytes(data[o : o+32])
		if !ln.IsUint64() || ln.Uint64() > uint64(len(data))-(o+32) {
			return nil, false
		}
		return data[o+32 : o+32+ln.Uint64()], true
	}
	return nil, false
}

// refMatches: does a log with these topics and data, emitted by the trigger's contract, match
// a definition whose only predicate is p (nil: no predicate, every log of the contract matches)?
func refMatches(p *predSpec, topics []common.Hash, data []byte) bool {
	if p == nil {
		return true
	}
	v, ok := refValue(p, topics, data)
	if !ok {
		return false
	}
	if p.Op == "beq" {
		return bytes.Equal(v, p.byteArg())
	}
	c := new(big.Int).SetBytes(v).Cmp(p.intArg())
	switch p.Op {
	case "lt":
		return c < 0
	case "lte":
		return c <= 0
	case "eq":
		return c == 0
	case "gt":
		return c > 0
	case "gte":
		return c >= 0
	}
	panic("bad operator " + p.Op)
}
