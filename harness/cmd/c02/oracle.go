//go:build verif

package main

// The property oracle: a direct reading of the C02 text over what the implementation did,
// computed from the driver's own bookkeeping of what was registered, started and released.
// It does not look at the Coq model and does not read the keyper's tables, with one exception:
// which triggers fired after a "fetch" is the implementation's decision, so the fired set is
// read back and every new entry is judged against the logs and the expiry the driver knows.

import (
	"bytes"
	"encoding/hex"
	"fmt"
	"math"
	"sort"

	"github.com/shutter-network/shutter/shlib/shcrypto"

	corekeyperdatabase "github.com/shutter-network/rolling-shutter/rolling-shutter/keyper/database"
	"github.com/shutter-network/rolling-shutter/rolling-shutter/p2pmsg"

	"verifharness/vh"
)

type treg struct {
	key       int
	eon       int64
	id        []byte
	ts, blk   int64
	decrypted bool
}

type ereg struct {
	eon       int64
	id        []byte
	exp, blk  int64
	decrypted bool
	pred      *predSpec // the predicate of the registered definition (nil: contract only)
}

type cfgRec struct {
	keypers []int
	act     int64
}

type eonRec struct{ eon, height, act, cfg int64 }

type dkgRec struct {
	success, decodable bool
	ki                 int
}

type book struct {
	events bool
	time   map[int]*treg
	ev     map[string]*ereg
	fired  map[string]int64
	bogus  map[string]bool // fired entries the oracle found no matching, unexpired log for
	cfgs   map[int32]*cfgRec
	eons   map[int64]*eonRec
	dkgs   map[int64]*dkgRec
	labels map[string]int
}

func newBook(events bool) *book {
	return &book{events: events, time: map[int]*treg{}, ev: map[string]*ereg{}, fired: map[string]int64{}, bogus: map[string]bool{},
		cfgs: map[int32]*cfgRec{}, eons: map[int64]*eonRec{}, dkgs: map[int64]*dkgRec{}, labels: map[string]int{}}
}

func evKey(eon int64, id []byte) string { return fmt.Sprintf("%d/%s", eon, hex.EncodeToString(id)) }

func (b *book) labelsOf(ids [][]byte) []int {
	out := make([]int, len(ids))
	for i, id := range ids {
		l, ok := b.labels[hex.EncodeToString(id)]
		if !ok {
			l = -1
		}
		out[i] = l
	}
	return out
}

// latestEon is the started eon with the greatest number among those of keyper set idx.
func (b *book) latestEon(idx int64) *eonRec {
	var best *eonRec
	for _, e := range b.eons {
		if e.cfg == idx && (best == nil || e.eon > best.eon) {
			best = e
		}
	}
	return best
}

func (b *book) keyperIndexForEon(eon int64) int {
	e, ok := b.eons[eon]
	if !ok || e.cfg < math.MinInt32 || e.cfg > math.MaxInt32 {
		return 0
	}
	c, ok := b.cfgs[int32(e.cfg)]
	if !ok {
		return 0
	}
	for i, k := range c.keypers {
		if k == 0 {
			return i
		}
	}
	return 0
}

// eonState classifies keyper set idx for the input distribution.
func (b *book) eonState(idx int64) string {
	var es []*eonRec
	for _, e := range b.eons {
		if e.cfg == idx {
			es = append(es, e)
		}
	}
	if len(es) == 0 {
		return "none"
	}
	sort.Slice(es, func(i, j int) bool { return es[i].eon < es[j].eon })
	last := es[len(es)-1]
	st := "running"
	if d, ok := b.dkgs[last.eon]; ok {
		if d.success {
			st = "succeeded"
		} else {
			st = "failed"
		}
	}
	for _, e := range es[:len(es)-1] {
		if d, ok := b.dkgs[e.eon]; ok && !d.success {
			return "failed-then-restarted-" + st
		}
	}
	return st
}

// setProblems lists what keeps the keyper from serving keyper set idx: no started eon, not a
// member, key generation of the latest eon not succeeded. outOfRange reports an index the
// batch config table (an int32 key) cannot hold; membership is then not judged (assumption
// "keyper set indices fit int32").
func (b *book) setProblems(idx int64) (e *eonRec, problems []string, outOfRange bool) {
	e = b.latestEon(idx)
	if e == nil {
		problems = append(problems, "no-started-eon")
	}
	if idx < math.MinInt32 || idx > math.MaxInt32 {
		outOfRange = true
	} else {
		c, ok := b.cfgs[int32(idx)]
		member := false
		if ok {
			for _, k := range c.keypers {
				if k == 0 {
					member = true
				}
			}
		}
		if !member {
			problems = append(problems, "not-member")
		}
	}
	if e != nil {
		if d, ok := b.dkgs[e.eon]; !ok || !d.success {
			problems = append(problems, "dkg-not-succeeded")
		}
	}
	return
}

// tsBefore: the release time, as the registry contract means it, is strictly before block time
// t. The contract's release time is a uint64 and the table stores int64(release time), so the
// contract's value is uint64(stored): a negative stored value is a release time >= 2^63.
func tsBefore(ts int64, t uint64) bool { return uint64(ts) < t }

func actReached(act int64, n uint64) bool { return act < 0 || uint64(act) <= n }

// justify says why identity id may be inside a trigger with block number trigBlock emitted
// while block (n, t) is processed; "" means justified.
func (h *hist) justify(id []byte, trigBlock, n, t uint64) (string, string) {
	why, detail, _, _ := h.justifyIn(id, trigBlock, n, t, nil, true)
	return why, detail
}

// justifyIn is justify restricted to the registrations of keyper set *only (all sets when
// nil). It also returns the keyper set of the justifying registration and whether any
// registration of the identity (in the considered sets) is known. checkTrigBlock says
// whether the trigger's block number must be the set's activation block.
func (h *hist) justifyIn(id []byte, trigBlock, n, t uint64, only *int64, checkTrigBlock bool) (string, string, int64, bool) {
	b := h.book
	found := false
	best := []string(nil)
	bestWhat := ""
	consider := func(problems []string, what string) bool {
		if len(problems) == 0 {
			return true
		}
		if best == nil || len(problems) < len(best) {
			best, bestWhat = problems, what
		}
		return false
	}
	keysSorted := make([]int, 0, len(b.time))
	for k := range b.time {
		keysSorted = append(keysSorted, k)
	}
	sort.Ints(keysSorted)
	for _, k := range keysSorted {
		r := b.time[k]
		if !bytes.Equal(r.id, id) || (only != nil && r.eon != *only) {
			continue
		}
		found = true
		var ps []string
		if r.decrypted {
			ps = append(ps, "retrigger-after-release")
		}
		if !tsBefore(r.ts, t) {
			ps = append(ps, "time-trigger-early")
		}
		e, sp, oor := b.setProblems(r.eon)
		if oor {
			h.run.Dist["oracle-skip:set-index-outside-int32"]++
		}
		ps = append(ps, sp...)
		if e != nil {
			if !actReached(e.act, n) {
				ps = append(ps, "before-activation")
			}
			if checkTrigBlock && trigBlock != uint64(e.act) {
				ps = append(ps, "wrong-trigger-block")
			}
		}
		if consider(ps, fmt.Sprintf("time registration key %d (keyper set %d, release time %d, stored as %d)", r.key, r.eon, uint64(r.ts), r.ts)) {
			return "", "", r.eon, true
		}
	}
	if b.events {
		evKeys := make([]string, 0, len(b.ev))
		for k := range b.ev {
			evKeys = append(evKeys, k)
		}
		sort.Strings(evKeys)
		for _, k := range evKeys {
			r := b.ev[k]
			if !bytes.Equal(r.id, id) || (only != nil && r.eon != *only) {
				continue
			}
			found = true
			var ps []string
			if r.decrypted {
				ps = append(ps, "retrigger-after-release")
			}
			if _, ok := b.fired[k]; !ok {
				ps = append(ps, "event-not-fired")
			} else if b.bogus[k] {
				ps = append(ps, "event-triggered-without-matching-log")
			}
			e, sp, oor := b.setProblems(r.eon)
			if oor {
				h.run.Dist["oracle-skip:set-index-outside-int32"]++
			}
			ps = append(ps, sp...)
			if checkTrigBlock && e != nil && trigBlock != uint64(e.act) {
				ps = append(ps, "wrong-trigger-block")
			}
			if consider(ps, fmt.Sprintf("event trigger registration (keyper set %d, expiry block %d)", r.eon, r.exp)) {
				return "", "", r.eon, true
			}
		}
	}
	if best == nil {
		return "unknown-identity", "no registration with this identity is known", 0, found
	}
	return best[0], fmt.Sprintf("closest registration: %s; not satisfied: %v", bestWhat, best), 0, found
}

// setOfTrigger is the keyper set whose registrations justify the trigger's first identity.
func (h *hist) setOfTrigger(t trigObs) (int64, bool) {
	if len(t.Ids) == 0 {
		return 0, false
	}
	why, _, set, _ := h.justifyIn(t.Ids[0], t.Block, h.lastN, h.lastT, nil, true)
	return set, why == ""
}

// distinctInvariant: identities are pairwise distinct per keyper set among the time
// registrations (what the registry syncer guarantees by deriving the identity from the key).
func (b *book) distinctInvariant() bool {
	seen := map[string]bool{}
	for _, r := range b.time {
		k := evKey(r.eon, r.id)
		if seen[k] {
			return false
		}
		seen[k] = true
	}
	return true
}

func (h *hist) violate(key, what string, op opSpec, observed any) {
	h.run.Violate(vh.Violation{Key: "C02:" + key, What: what, Case: h.c, Observed: map[string]any{"at_op": op, "observed": observed}})
}

// judge updates the bookkeeping with an executed operation and evaluates the property.
func (h *hist) judge(op opSpec, ob stepObs) {
	b := h.book
	switch op.K {
	case "regtime":
		if !ob.Accepted {
			return
		}
		id := idBytes(op.Id)
		b.labels[hex.EncodeToString(id)] = op.Id
		if r, ok := b.time[op.Key]; ok {
			r.id, r.ts, r.blk = id, op.TS, op.Blk
		} else {
			b.time[op.Key] = &treg{key: op.Key, eon: op.Eon, id: id, ts: op.TS, blk: op.Blk}
		}
	case "regevent":
		if !ob.Accepted {
			return
		}
		id := idBytes(op.Id)
		b.labels[hex.EncodeToString(id)] = op.Id
		k := evKey(op.Eon, id)
		if r, ok := b.ev[k]; ok {
			r.exp, r.blk, r.pred = op.Exp, op.Blk, op.Pred
		} else {
			b.ev[k] = &ereg{eon: op.Eon, id: id, exp: op.Exp, blk: op.Blk, pred: op.Pred}
		}
	case "fire":
		if !ob.Accepted {
			return
		}
		k := evKey(op.Eon, idBytes(op.Id))
		if _, ok := b.fired[k]; !ok {
			b.fired[k] = op.Blk
		}
	case "fetch":
		// read the fired set back and judge every new entry
		for _, r := range h.w.rows("fired_triggers") {
			eon, id, blk := r["eon"].(int64), asBytes(r["identity"]), r["block_number"].(int64)
			k := evKey(eon, id)
			if _, ok := b.fired[k]; ok {
				continue
			}
			b.fired[k] = blk
			reg := b.ev[k]
			okLog, anyLog := false, false
			for _, l := range op.Logs {
				if l.Eon == eon && bytes.Equal(idBytes(l.Id), id) && int64(l.Blk) == blk && l.Blk >= op.Start && l.Blk <= op.End {
					anyLog = true
					if _, _, matches := h.logShape(l); matches { // reference matcher, not eventtrigger.go
						okLog = true
					}
				}
			}
			b.bogus[k] = reg == nil || !okLog || blk > reg.exp
			switch {
			case reg == nil:
				h.violate("fired-without-registration", "a trigger fired that was never registered", op, r)
			case !anyLog:
				h.violate("fired-without-log", "a trigger fired without a log of its contract in that block of the synced range", op, r)
			case !okLog:
				h.violate("fired-without-matching-log", fmt.Sprintf("trigger (keyper set %d, predicate %+v) fired in block %d although no log of that block matches its definition", eon, *reg.pred, blk), op, r)
			case blk > reg.exp:
				h.violate("fired-after-expiry", fmt.Sprintf("trigger (keyper set %d) fired by a log in block %d, later than its expiry block %d", eon, blk, reg.exp), op, r)
			case reg.decrypted:
				h.violate("fired-after-release", "a trigger whose key was already released fired again", op, r)
			}
			if reg != nil && blk == reg.exp {
				h.run.Dist["boundary:log-block=expiry"]++
			}
		}
		for _, l := range op.Logs {
			reg := b.ev[evKey(l.Eon, idBytes(l.Id))]
			if reg != nil && int64(l.Blk) == reg.exp+1 {
				h.run.Dist["boundary:log-block=expiry+1"]++
			}
			if reg != nil && reg.pred != nil {
				_, _, m := h.logShape(l)
				v, _ := hex.DecodeString(l.Val)
				hi := "low"
				if len(v) > 8 {
					hi = "high-bits"
				}
				h.run.Dist[fmt.Sprintf("pred-log:%s/%s/%s/matches=%v", reg.pred.Op, reg.pred.Ref, hi, m)]++
			}
		}
	case "unfire":
		for k, blk := range b.fired {
			if blk >= op.From {
				delete(b.fired, k)
				delete(b.bogus, k)
			}
		}
	case "rbtime":
		for k, r := range b.time {
			if r.blk >= op.From {
				delete(b.time, k)
			}
		}
	case "rbevent":
		for k, r := range b.ev {
			if r.blk >= op.From {
				delete(b.ev, k)
				delete(b.fired, k)
				delete(b.bogus, k)
			}
		}
	case "config":
		if ob.Accepted {
			b.cfgs[op.Idx] = &cfgRec{keypers: op.Keypers, act: op.Act}
		}
	case "eon":
		if ob.Accepted {
			b.eons[op.Eon] = &eonRec{op.Eon, op.Height, op.Act, op.Cfg}
		}
	case "dkg":
		if ob.Accepted {
			b.dkgs[op.Eon] = &dkgRec{op.Success, op.Decodable, b.keyperIndexForEon(op.Eon)}
		}
	case "released":
		if !ob.Accepted {
			return
		}
		for _, l := range op.Ids {
			id := idBytes(l)
			for _, r := range b.time {
				if r.eon == op.Eon && bytes.Equal(r.id, id) {
					r.decrypted = true
				}
			}
			if r, ok := b.ev[evKey(op.Eon, id)]; ok {
				r.decrypted = true
			}
		}
	case "block":
		h.judgeBlock(op, ob)
	}
}

func (h *hist) judgeBlock(op opSpec, ob stepObs) {
	b := h.book
	h.lastN, h.lastT = op.N, op.T
	inTrigger := map[string]bool{}
	for _, t := range ob.Triggers {
		strict := true
		for i := 1; i < len(t.Ids); i++ {
			if bytes.Compare(t.Ids[i-1], t.Ids[i]) >= 0 {
				strict = false
			}
		}
		if len(t.Ids) == 0 {
			h.violate("empty-trigger", "a trigger without identities was sent", op, ob.Triggers)
		}
		if !strict {
			if b.distinctInvariant() {
				h.violate("trigger-not-sorted-distinct", "identities of one trigger are not strictly increasing", op, map[string]any{"block": t.Block, "ids": t.Ids})
			} else {
				h.run.Dist["trigger-with-duplicates(invariant-broken-by-input)"]++
			}
		}
		for _, id := range t.Ids {
			inTrigger[hex.EncodeToString(id)] = true
			if why, detail := h.justify(id, t.Block, op.N, op.T); why != "" {
				h.violate(why, fmt.Sprintf("block (number %d, time %d): identity %x inside a trigger (block number %d) is not justified: %s",
					op.N, op.T, id, t.Block, detail), op, ob.Triggers)
			}
		}
	}
	if len(ob.Triggers) > 0 {
		h.emitted++
	}
	h.run.Dist[fmt.Sprintf("block:triggers=%d", min(len(ob.Triggers), 4))]++
	withheld := false
	sets := map[int64]bool{}
	for _, r := range b.time {
		sets[r.eon] = true
		if r.decrypted {
			continue
		}
		if !inTrigger[hex.EncodeToString(r.id)] {
			withheld = true
			why := "eligible(window-passed-or-skipped)"
			e, sp, _ := b.setProblems(r.eon)
			switch {
			case !tsBefore(r.ts, op.T):
				why = "release-time-not-passed"
			case len(sp) > 0:
				why = sp[0]
			case e != nil && !actReached(e.act, op.N):
				why = "before-activation"
			}
			h.run.Dist["withheld:"+why]++
		}
		if r.ts < 0 {
			h.run.Dist["release-time>=2^63(undecrypted-at-block)"]++
		}
		switch {
		case r.ts >= 0 && uint64(r.ts) == op.T:
			h.run.Dist["boundary:release-time=block-time"]++
		case r.ts >= 0 && uint64(r.ts)+1 == op.T:
			h.run.Dist["boundary:release-time=block-time-1"]++
		case r.ts >= 1 && uint64(r.ts)-1 == op.T:
			h.run.Dist["boundary:release-time=block-time+1"]++
		}
		if e := b.latestEon(r.eon); e != nil && e.act >= 0 {
			switch {
			case uint64(e.act) == op.N:
				h.run.Dist["boundary:activation=block-number"]++
			case uint64(e.act) == op.N+1:
				h.run.Dist["boundary:activation=block-number+1"]++
			}
		}
	}
	for _, r := range b.ev {
		sets[r.eon] = true
	}
	for s := range sets {
		h.run.Dist["eonstate:"+b.eonState(s)]++
		member := "member"
		if _, ps, _ := b.setProblems(s); contains(ps, "not-member") {
			member = "not-member"
		}
		h.run.Dist["membership:"+member]++
	}
	if withheld {
		h.withheld++
	}
}

func contains(xs []string, x string) bool {
	for _, y := range xs {
		if x == y {
			return true
		}
	}
	return false
}

// checkShares judges a produced DecryptionKeyShares message: the keyper is a member of the
// keyper set the message names, at the index the message names; the eon whose key was used
// belongs to that set and its key generation succeeded; every share is the keyper's genuine
// BLS share for its identity.
func (h *hist) checkShares(op opSpec, eon corekeyperdatabase.Eon, msg *p2pmsg.DecryptionKeyShares) {
	b := h.book
	h.shareMsgs++
	if msg.Eon <= math.MaxInt32 {
		c, ok := b.cfgs[int32(msg.Eon)]
		if !ok || int(msg.KeyperIndex) >= len(c.keypers) || c.keypers[msg.KeyperIndex] != 0 {
			h.violate("share-not-member", fmt.Sprintf("key shares produced for keyper set %d at index %d, where the keyper is not listed", msg.Eon, msg.KeyperIndex), op, nil)
		}
	} else {
		h.run.Dist["oracle-skip:set-index-outside-int32"]++
	}
	if op.Derived && op.HasTSet && msg.Eon <= math.MaxInt64 && int64(msg.Eon) != op.TSet {
		// The trigger was sent for keyper set TSet, the shares are for another set: the release
		// condition must then hold for that set's registration of the identity as well.
		other := int64(msg.Eon)
		for _, l := range op.Ids {
			id := idBytes(l)
			why, detail, _, found := h.justifyIn(id, op.UBlk, h.lastN, h.lastT, &other, false)
			if !found {
				h.run.Dist["share-for-other-set:identity-not-registered-there"]++
				continue
			}
			if why == "" {
				h.run.Dist["share-for-other-set:release-condition-holds-there-too"]++
				continue
			}
			key := "share-for-other-set"
			e1, e2 := b.latestEon(op.TSet), b.latestEon(other)
			if e1 != nil && e2 != nil && e1.act == e2.act {
				key = "share-for-other-set-with-equal-activation-block"
			}
			h.violate(key, fmt.Sprintf("the trigger for keyper set %d (block number %d) made the key share handler produce a share of identity %x for keyper set %d, where its release condition does not hold (%s): %s",
				op.TSet, op.UBlk, id, other, why, detail), op, nil)
		}
	}
	if op.Derived && msg.Eon <= math.MaxInt64 && (!op.HasTSet || int64(msg.Eon) == op.TSet) {
		// Every identity of the message must be an identity of the keyper set the message names:
		// a share for (set B, identity) where the identity is registered only for another set A
		// is a share contributed for A's identity outside A's release condition.
		here := int64(msg.Eon)
		for _, l := range op.Ids {
			id := idBytes(l)
			if _, _, _, found := h.justifyIn(id, op.UBlk, h.lastN, h.lastT, &here, false); found {
				continue
			}
			if why, detail, _, elsewhere := h.justifyIn(id, op.UBlk, h.lastN, h.lastT, nil, false); elsewhere {
				h.violate("share-for-identity-of-other-set", fmt.Sprintf("key shares for keyper set %d contain identity %x, which is registered only for another keyper set (%s: %s)",
					msg.Eon, id, why, detail), op, nil)
			}
		}
	}
	if uint64(eon.KeyperConfigIndex) != msg.Eon {
		h.violate("share-wrong-set", fmt.Sprintf("key shares name keyper set %d but the eon used (%d) belongs to set %d", msg.Eon, eon.Eon, eon.KeyperConfigIndex), op, nil)
	}
	d, ok := b.dkgs[eon.Eon]
	if !ok || !d.success {
		h.violate("share-dkg-not-succeeded", fmt.Sprintf("key shares produced from eon %d whose key generation did not succeed", eon.Eon), op, nil)
		return
	}
	if !d.decodable {
		h.violate("share-without-key-material", fmt.Sprintf("key shares produced from eon %d whose stored result cannot be decoded", eon.Eon), op, nil)
		return
	}
	if len(msg.Shares) != len(op.Ids) {
		h.violate("share-count", "number of shares differs from the number of requested identities", op, nil)
	}
	for i, s := range msg.Shares {
		if i < len(op.Ids) && !bytes.Equal(s.IdentityPreimage, idBytes(op.Ids[i])) {
			h.violate("share-identity", "share carries another identity than requested", op, nil)
		}
		sh := new(shcrypto.EpochSecretKeyShare)
		if err := sh.Unmarshal(s.Share); err != nil {
			h.violate("share-invalid", "share does not unmarshal: "+err.Error(), op, nil)
			continue
		}
		if !shcrypto.VerifyEpochSecretKeyShare(sh, eonKeys.EonPublicKeyShare(d.ki), shcrypto.ComputeEpochID(s.IdentityPreimage)) {
			h.violate("share-invalid", fmt.Sprintf("share for identity %x does not verify against the keyper's public key share", s.IdentityPreimage), op, nil)
		}
	}
}
