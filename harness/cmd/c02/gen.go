//go:build verif

package main

import (
	"encoding/hex"
	"fmt"
	"math/big"

	"verifharness/vh"
)

// ---------------------------------------------------------------------------------------
// small constructors

func opConfig(idx int32, act int64, keypers ...int) opSpec {
	return opSpec{K: "config", Idx: idx, Keypers: keypers, Act: act}
}
func opEon(eon, height, act, cfg int64) opSpec {
	return opSpec{K: "eon", Eon: eon, Height: height, Act: act, Cfg: cfg}
}
func opDkg(eon int64, success, decodable bool) opSpec {
	return opSpec{K: "dkg", Eon: eon, Success: success, Decodable: decodable}
}
func opRegTime(key int, eon int64, id int, ts, blk int64) opSpec {
	return opSpec{K: "regtime", Key: key, Eon: eon, Id: id, TS: ts, Blk: blk}
}
func opRegEvent(eon int64, id int, exp, blk int64) opSpec {
	return opSpec{K: "regevent", Eon: eon, Id: id, Exp: exp, Blk: blk}
}
func opRegEventPred(eon int64, id int, exp, blk int64, op, arg, ref string, off uint64) opSpec {
	return opSpec{K: "regevent", Eon: eon, Id: id, Exp: exp, Blk: blk, Pred: &predSpec{Op: op, Arg: arg, Ref: ref, Off: off}}
}

var two64 = new(big.Int).Lsh(big.NewInt(1), 64)

// hexInt renders a decimal integer as the hex of its big-endian bytes (a log value).
func hexInt(dec string) string {
	n, ok := new(big.Int).SetString(dec, 10)
	if !ok {
		panic("bad integer " + dec)
	}
	return hex.EncodeToString(n.Bytes())
}

func logVal(eon int64, id int, blk uint64, dec string) logSpec {
	return logSpec{Eon: eon, Id: id, Blk: blk, Val: hexInt(dec)}
}

// u2i is the cast the registry syncer applies to the contract's uint64 release time.
func u2i(x uint64) int64 { return int64(x) }

func opFire(eon int64, id int, blk int64) opSpec {
	return opSpec{K: "fire", Eon: eon, Id: id, Blk: blk}
}
func opFetch(start, end uint64, logs ...logSpec) opSpec {
	return opSpec{K: "fetch", Start: start, End: end, Logs: logs}
}
func opBlock(n, t uint64) opSpec              { return opSpec{K: "block", N: n, T: t} }
func opReleased(eon int64, ids ...int) opSpec { return opSpec{K: "released", Eon: eon, Ids: ids} }
func opHandle(blk uint64, ids ...int) opSpec  { return opSpec{K: "handle", UBlk: blk, Ids: ids} }
func opRestart() opSpec                       { return opSpec{K: "restart"} }
func opUnfire(from int64) opSpec              { return opSpec{K: "unfire", From: from} }
func opRbTime(from int64) opSpec              { return opSpec{K: "rbtime", From: from} }
func opRbEvent(from int64) opSpec             { return opSpec{K: "rbevent", From: from} }

// goodSet: keyper set 1 (the keyper under test at index 1 of three), activation block 100,
// eon 1, successful key generation.
func goodSet() []opSpec {
	return []opSpec{opConfig(1, 100, 1, 0, 2), opEon(1, 10, 100, 1), opDkg(1, true, true)}
}

func cat(parts ...[]opSpec) []opSpec {
	var out []opSpec
	for _, p := range parts {
		out = append(out, p...)
	}
	return out
}

// ---------------------------------------------------------------------------------------
// forced boundary histories

func forcedCases() []histCase {
	var cs []histCase
	add := func(name string, events, auto bool, ops ...[]opSpec) {
		cs = append(cs, histCase{Name: name, Events: events, MaxKeys: 8, Auto: auto, Ops: cat(ops...)})
	}
	// release time equal to / one below / one above the block time, three consecutive blocks
	add("release-time-boundaries", false, true, goodSet(), []opSpec{
		opRegTime(1, 1, 11, 1000, 90), opRegTime(2, 1, 12, 999, 90), opRegTime(3, 1, 13, 1001, 90),
		opBlock(100, 1000), opBlock(101, 1001), opBlock(102, 1002), opBlock(103, 1003),
	})
	// non-monotone block times: a block not later than the high-water mark is skipped
	add("non-monotone-block-times", true, true, goodSet(), []opSpec{
		opRegTime(1, 1, 11, 990, 90), opBlock(100, 1000), opBlock(101, 995), opRegTime(2, 1, 12, 996, 91),
		opBlock(102, 998), opBlock(103, 1000), opRegTime(3, 1, 13, 1000, 92), opBlock(104, 1001), opBlock(105, 1001),
	})
	// activation block one above / equal to the block number
	add("activation-one-above-block-number", false, true, goodSet(), []opSpec{
		opRegTime(1, 1, 11, 990, 90), opBlock(99, 1000), opBlock(100, 1001), opRestart(), opBlock(100, 1002),
	})
	add("activation-equals-block-number", false, true, goodSet(), []opSpec{
		opRegTime(1, 1, 11, 990, 90), opBlock(100, 1000),
	})
	// eon states
	reg := []opSpec{opRegTime(1, 1, 11, 990, 90), opRegEvent(1, 21, 500, 90), opFire(1, 21, 120)}
	cfgMember := []opSpec{opConfig(1, 100, 0, 1)}
	add("eon-none", true, true, cfgMember, reg, []opSpec{opBlock(100, 1000), opHandle(100, 11)})
	add("eon-running", true, true, cfgMember, []opSpec{opEon(1, 10, 100, 1)}, reg, []opSpec{opBlock(100, 1000), opHandle(100, 11)})
	add("eon-failed", true, true, cfgMember, []opSpec{opEon(1, 10, 100, 1), opDkg(1, false, false)}, reg, []opSpec{opBlock(100, 1000), opHandle(100, 11)})
	add("eon-succeeded", true, true, cfgMember, []opSpec{opEon(1, 10, 100, 1), opDkg(1, true, true)}, reg, []opSpec{opBlock(100, 1000), opHandle(100, 11)})
	add("eon-failed-then-restarted-running", true, true, cfgMember,
		[]opSpec{opEon(1, 10, 100, 1), opDkg(1, false, false), opEon(2, 20, 100, 1)}, reg, []opSpec{opBlock(100, 1000), opHandle(100, 11)})
	add("eon-restarted-succeeded", true, true, cfgMember,
		[]opSpec{opEon(1, 10, 100, 1), opDkg(1, false, false), opEon(2, 20, 100, 1), opDkg(2, true, true)}, reg,
		[]opSpec{opBlock(100, 1000), opHandle(100, 11)})
	// the first eon succeeded, a later eon of the same set is still running / failed
	add("eon-succeeded-then-restarted-running", true, true, cfgMember,
		[]opSpec{opEon(1, 10, 100, 1), opDkg(1, true, true), opEon(2, 20, 100, 1)}, reg, []opSpec{opBlock(100, 1000), opHandle(100, 11)})
	add("eon-numbers-out-of-order", true, true, cfgMember,
		[]opSpec{opEon(5, 10, 100, 1), opDkg(5, false, false), opEon(3, 20, 100, 1), opDkg(3, true, true)}, reg,
		[]opSpec{opBlock(100, 1000), opHandle(100, 11)})
	// state changes between blocks
	add("dkg-success-arrives-between-blocks", true, true, cfgMember, []opSpec{opEon(1, 10, 100, 1)}, reg,
		[]opSpec{opBlock(100, 1000), opDkg(1, true, true), opBlock(101, 1001), opRestart(), opBlock(102, 1002)})
	// member / not member
	add("not-member", true, true, []opSpec{opConfig(1, 100, 1, 2, 3), opEon(1, 10, 100, 1), opDkg(1, true, true)}, reg,
		[]opSpec{opBlock(100, 1000), opHandle(100, 11)})
	add("member-of-other-set-only", true, true,
		[]opSpec{opConfig(1, 100, 1, 2), opEon(1, 10, 100, 1), opDkg(1, true, true), opConfig(2, 200, 0, 1), opEon(2, 20, 200, 2), opDkg(2, true, true)},
		reg, []opSpec{opRegTime(2, 2, 12, 990, 90), opBlock(150, 1000), opBlock(200, 1001), opRestart(), opBlock(201, 1002)})
	// restart between blocks
	add("restart-between-blocks", false, true, goodSet(), []opSpec{
		opRegTime(1, 1, 11, 990, 90), opRegTime(2, 1, 12, 1000, 90), opBlock(100, 1000), opRestart(), opBlock(101, 1001), opBlock(102, 1002),
	})
	// decrypted flag set between two blocks in the same window
	add("released-between-blocks-same-window", true, true, goodSet(), []opSpec{
		opRegTime(1, 1, 11, 990, 90), opRegTime(2, 1, 12, 995, 90), opRegEvent(1, 21, 500, 90), opRegEvent(1, 22, 500, 90),
		opFire(1, 21, 120), opFire(1, 22, 120), opBlock(100, 1000), opReleased(1, 11, 21), opRestart(), opBlock(101, 1001),
		opReleased(1, 12, 22), opRestart(), opBlock(102, 1002),
	})
	add("released-before-first-block-of-window", false, true, goodSet(), []opSpec{
		opRegTime(1, 1, 11, 1005, 90), opRegTime(2, 1, 12, 1006, 90), opBlock(100, 1003), opReleased(1, 11), opBlock(101, 1010),
		opReleased(2, 12), opReleased(1, 99),
	})
	// released for another keyper set: the flag of set 1 must stay
	add("released-for-other-set", true, true, goodSet(), []opSpec{
		opRegTime(1, 1, 11, 990, 90), opRegEvent(1, 21, 500, 90), opFire(1, 21, 120), opReleased(2, 11, 21), opBlock(100, 1000),
	})
	// re-registration under the same key keeps eon and decrypted flag
	add("re-registration-keeps-flag", false, true, goodSet(), []opSpec{
		opRegTime(1, 1, 11, 990, 90), opBlock(100, 1000), opReleased(1, 11), opRegTime(1, 2, 11, 1005, 95), opBlock(101, 1010),
		opRegTime(1, 1, 14, 1011, 96), opBlock(102, 1020),
	})
	// event triggers: expiry boundaries through the trigger processor
	add("event-expiry-boundaries", true, true, goodSet(), []opSpec{
		opRegEvent(1, 21, 200, 90), opRegEvent(1, 22, 200, 90), opRegEvent(1, 23, 200, 90),
		opFetch(150, 210, logSpec{Eon: 1, Id: 21, Blk: 201}, logSpec{Eon: 1, Id: 22, Blk: 200}, logSpec{Eon: 1, Id: 23, Blk: 199}, logSpec{Eon: 1, Id: 23, Blk: 205}),
		opBlock(210, 1000),
		opFetch(201, 220, logSpec{Eon: 1, Id: 21, Blk: 201}), // expired at the start block: not even active
		opFetch(200, 220, logSpec{Eon: 1, Id: 21, Blk: 200}), // log exactly at the expiry block
		opBlock(220, 1001),
	})
	add("event-log-outside-range", true, true, goodSet(), []opSpec{
		opRegEvent(1, 21, 300, 90), opFetch(150, 160, logSpec{Eon: 1, Id: 21, Blk: 149}, logSpec{Eon: 1, Id: 21, Blk: 161}), opBlock(160, 1000),
		opFetch(161, 170, logSpec{Eon: 1, Id: 21, Blk: 161}, logSpec{Eon: 2, Id: 21, Blk: 162}, logSpec{Eon: 1, Id: 22, Blk: 163}), opBlock(170, 1001),
	})
	add("event-unfire-rollback", true, true, goodSet(), []opSpec{
		opRegEvent(1, 21, 300, 90), opRegEvent(1, 22, 300, 95), opFire(1, 21, 120), opFire(1, 22, 130), opFire(1, 23, 130),
		opUnfire(125), opBlock(140, 1000), opFire(1, 22, 131), opRbEvent(95), opBlock(141, 1001), opRbEvent(0), opBlock(142, 1002),
	})
	add("events-disabled", false, true, goodSet(), []opSpec{
		opRegEvent(1, 21, 300, 90), opFire(1, 21, 120), opRegTime(1, 1, 11, 990, 90), opBlock(100, 1000),
	})
	add("released-event-refires-not", true, true, goodSet(), []opSpec{
		opRegEvent(1, 21, 300, 90), opFetch(100, 110, logSpec{Eon: 1, Id: 21, Blk: 105}), opBlock(110, 1000), opReleased(1, 21), opBlock(111, 1001),
		opUnfire(0), opFetch(100, 120, logSpec{Eon: 1, Id: 21, Blk: 105}), opBlock(120, 1002), opRbEvent(90), opRegEvent(1, 21, 300, 90), opFire(1, 21, 125), opBlock(126, 1003),
	})
	// time rollback (reorg): the row and its flag go, a later registration is a new row
	add("time-rollback", false, true, goodSet(), []opSpec{
		opRegTime(1, 1, 11, 990, 90), opRegTime(2, 1, 12, 991, 95), opBlock(100, 1000), opReleased(1, 11, 12), opRbTime(95),
		opRegTime(2, 1, 12, 1001, 96), opBlock(101, 1002),
	})
	// several keyper sets in one block, same identity under two sets, byte order of identities
	add("two-sets-one-block", true, true,
		[]opSpec{opConfig(1, 100, 0, 1), opEon(1, 10, 100, 1), opDkg(1, true, true), opConfig(2, 100, 1, 0), opEon(2, 11, 100, 2), opDkg(2, true, true),
			opConfig(3, 120, 0), opEon(3, 12, 120, 3), opDkg(3, true, true)},
		[]opSpec{opRegTime(1, 1, 0, 990, 90), opRegTime(2, 1, 1, 990, 90), opRegTime(3, 1, 2, 990, 90), opRegTime(4, 1, 3, 990, 90),
			opRegTime(5, 1, 4, 990, 90), opRegTime(6, 1, 5, 990, 90), opRegTime(7, 2, 3, 991, 90), opRegTime(8, 2, 0, 991, 90), opRegTime(9, 3, 10, 992, 90),
			opRegEvent(1, 3, 500, 90), opRegEvent(2, 3, 500, 90), opRegEvent(2, 1, 500, 90), opFire(1, 3, 100), opFire(2, 3, 100), opFire(2, 1, 100),
			opBlock(119, 1000), opBlock(120, 1001), opRestart(), opBlock(121, 1002)})
	// the distinctness invariant broken by the input: two keys, one identity, one set
	add("duplicate-identity-two-keys", false, true, goodSet(), []opSpec{
		opRegTime(1, 1, 11, 990, 90), opRegTime(2, 1, 11, 991, 90), opRegTime(3, 1, 12, 992, 90), opBlock(100, 1000),
		opReleased(1, 11), opRestart(), opBlock(101, 1001),
	})
	// keyper set index beyond int32: GetKeyperIndex truncates
	add("set-index-beyond-int32", true, true,
		[]opSpec{opConfig(1, 100, 0, 1), opEon(1, 10, 100, 4294967297), opDkg(1, true, true)},
		[]opSpec{opRegTime(1, 4294967297, 11, 990, 90), opRegEvent(4294967297, 21, 500, 90), opFire(4294967297, 21, 100), opBlock(100, 1000)})
	// negative values
	add("negative-values", true, true,
		[]opSpec{opConfig(-1, 50, 0), opEon(7, 10, 50, -1), opDkg(7, true, true), opRegTime(1, -1, 11, 990, 90), opRegTime(2, 1, 12, 990, -1),
			opRegEvent(-1, 21, 500, 90), opRegEvent(1, 21, -1, 90), opRegEvent(1, 21, 500, 90), opFire(1, 21, -5), opHandle(50, 11),
			opConfig(2, -10, 0), opEon(8, 11, -10, 2), opDkg(8, true, true), opRegTime(3, 2, 13, -20, 90), opBlock(0, 5), opBlock(1, 6)})
	// block time and number beyond int64
	add("block-time-beyond-int63", false, true, goodSet(), []opSpec{
		opRegTime(1, 1, 11, 990, 90), opBlock(100, 9223372036854775813), opBlock(101, 9223372036854775814), opRegTime(2, 1, 12, -5, 90), opRestart(),
		opBlock(9223372036854775815, 1000), opBlock(18446744073709551615, 1001), opRestart(), opBlock(102, 18446744073709551615),
	})
	// key share construction: every error class
	add("shares-error-classes", false, false, goodSet(), []opSpec{
		opHandle(100), opHandle(100, 1, 2, 3), opHandle(99, 1), opHandle(9223372036854775808, 1), opHandle(100, 1, 2), opHandle(100, 1, 2), opHandle(100, 2, 3),
		opHandle(100, 3, 3), opConfig(2, 200, 1, 2), opEon(2, 20, 200, 2), opHandle(200, 1), opEon(3, 30, 300, 3), opHandle(300, 1),
		opConfig(4, 400, 0), opEon(4, 40, 400, 4), opHandle(400, 1), opDkg(4, false, false), opHandle(400, 1),
		opConfig(5, 500, 2, 0), opEon(5, 50, 500, 5), opDkg(5, true, false), opHandle(500, 1), opHandle(499, 4),
		opConfig(6, 600, 0), opEon(6, 60, 600, 6), opDkg(6, false, true), opHandle(600, 1), // failed, yet key material stored
	})
	cs[len(cs)-1].MaxKeys = 2
	add("failed-dkg-with-key-material", true, true, []opSpec{opConfig(1, 100, 0, 1), opEon(1, 10, 100, 1), opDkg(1, false, true)}, reg,
		[]opSpec{opBlock(100, 1000), opHandle(100, 11)})
	add("restarted-eon-failed-with-key-material", true, true,
		[]opSpec{opConfig(1, 100, 0, 1), opEon(1, 10, 100, 1), opDkg(1, true, true), opEon(2, 20, 100, 1), opDkg(2, false, true)}, reg,
		[]opSpec{opBlock(100, 1000), opHandle(100, 11)})
	add("shares-max-keys-beyond-int63", false, false, goodSet(), []opSpec{opHandle(100, 1)})
	cs[len(cs)-1].MaxKeys = 9223372036854775808
	// eon chosen by block number: equal activation blocks, different heights
	add("shares-eon-by-block-number", false, false,
		[]opSpec{opConfig(1, 100, 0, 1), opEon(1, 10, 100, 1), opDkg(1, true, true), opConfig(2, 100, 1, 2), opEon(2, 20, 100, 2), opDkg(2, true, true),
			opHandle(100, 1), opConfig(3, 100, 1, 0), opEon(3, 30, 100, 3), opDkg(3, true, true), opHandle(150, 1), opEon(4, 5, 120, 1), opHandle(150, 2), opHandle(119, 2)})
	// predicates on 256 bit words: values that differ from the argument only above bit 63
	//   2^64 = 18446744073709551616
	add("event-uint-predicate-high-bits", true, true, goodSet(), []opSpec{
		opRegEventPred(1, 21, 500, 90, "eq", "5", "static", 4),
		opRegEventPred(1, 22, 500, 90, "lt", "18446744073709551623", "topic", 1), // < 2^64+7
		opRegEventPred(1, 23, 500, 90, "gt", "10", "static", 5),
		opRegEventPred(1, 24, 500, 90, "lte", "7", "dynamic", 4),
		opRegEventPred(1, 25, 500, 90, "gte", "18446744073709551616", "topic", 3), // >= 2^64
		opFetch(100, 110,
			logVal(1, 21, 101, "18446744073709551621"), // 5 + 2^64: not equal to 5
			logVal(1, 21, 102, "36893488147419103237"), // 5 + 2*2^64
			logVal(1, 22, 101, "36893488147419103232"), // 2*2^64: not below 2^64+7
			logVal(1, 24, 101, "18446744073709551623"), // 7 + 2^64 as a 9 byte dynamic value: not <= 7
			logVal(1, 25, 101, "18446744073709551615"), // 2^64-1: not >= 2^64
		),
		opBlock(110, 1000),
		opFetch(111, 120,
			logVal(1, 21, 111, "6"), logVal(1, 21, 112, "5"), // the second one matches
			logVal(1, 22, 113, "18446744073709551622"), // 2^64+6 < 2^64+7
			logVal(1, 23, 114, "18446744073709551616"), // 2^64 > 10 (low 64 bits are 0)
			logVal(1, 24, 115, "7"),
			logVal(1, 25, 116, "18446744073709551616"),
		),
		opBlock(120, 1001),
	})
	add("event-bytes-predicate", true, true, goodSet(), []opSpec{
		opRegEventPred(1, 21, 500, 90, "beq", "00000000000000000000000000000000000000000000000100000000000000aa", "topic", 2),
		opRegEventPred(1, 22, 500, 90, "beq", "0102030405", "dynamic", 5),
		opFetch(100, 110,
			logSpec{Eon: 1, Id: 21, Blk: 101, Val: "aa"},                 // low bytes equal, the word is not
			logSpec{Eon: 1, Id: 22, Blk: 101, Val: "01020304"},           // a prefix
			logSpec{Eon: 1, Id: 22, Blk: 102, Val: "010203040500"},       // one byte longer
			logSpec{Eon: 1, Id: 21, Blk: 103, Val: "0100000000000000aa"}, // the word
		),
		opBlock(110, 1000),
		opFetch(111, 120, logSpec{Eon: 1, Id: 22, Blk: 111, Val: "0102030405"}),
		opBlock(120, 1001),
	})
	// several keyper sets with fired / due identities in ONE block, a non-decryptable set below
	// and above a decryptable one, for every way of being non-decryptable
	for _, st := range []string{"not-member", "running", "failed", "restarted", "restarted-after-success"} {
		add("multi-set-"+st+"-below-success", true, true, multiSetOps([]int64{1, 2}, []string{st, "success"}, 0))
		add("multi-set-success-below-"+st, true, true, multiSetOps([]int64{1, 2}, []string{"success", st}, 0))
	}
	add("multi-set-failed-success-not-member", true, true, multiSetOps([]int64{1, 2, 3}, []string{"failed", "success", "not-member"}, 1))
	add("multi-set-running-not-member-success", true, true, multiSetOps([]int64{1, 2, 3}, []string{"running", "not-member", "success"}, 2))
	add("multi-set-success-failed-success", true, true, multiSetOps([]int64{3, 1, 2}, []string{"success", "failed", "success"}, 3))
	// release times >= 2^63 (the contract's uint64, stored as int64(release time), i.e. negative):
	// never due, in particular not at the first block after a start or a restart
	add("release-time-beyond-int63", true, true, goodSet(), []opSpec{
		opRegTime(1, 1, 11, u2i(9223372036854775807), 90),  // 2^63-1: the greatest non-negative
		opRegTime(2, 1, 12, u2i(9223372036854775808), 90),  // 2^63   = MinInt64
		opRegTime(3, 1, 13, u2i(9223372036854775809), 90),  // 2^63+1
		opRegTime(4, 1, 14, u2i(18446744073709551614), 90), // 2^64-2 = -2
		opRegTime(5, 1, 15, u2i(18446744073709551615), 90), // 2^64-1 = -1 ("never")
		opRegTime(6, 1, 16, 990, 90), opRegTime(7, 1, 17, 1005, 90),
		opBlock(100, 1000),                                  // the first block after the start
		opBlock(101, 1001), opRestart(), opBlock(102, 1002), // the first block after a restart
		opRegTime(8, 1, 18, u2i(18446744073709551615), 95), opBlock(103, 1010), opRestart(), opRestart(), opBlock(104, 1011),
		opReleased(1, 16), opRestart(), opBlock(105, 1012),
	})
	add("release-time-beyond-int63-first-block-only", false, true, goodSet(), []opSpec{
		opRegTime(1, 1, 11, u2i(18446744073709551615), 90), opRegTime(2, 1, 12, u2i(9223372036854775808), 90), opBlock(100, 1000),
	})
	// two keyper sets with one activation block: the handler selects the eon by block number
	add("equal-activation-other-set-expired", true, true,
		[]opSpec{opConfig(1, 100, 0, 1), opEon(1, 10, 100, 1), opDkg(1, true, true), opConfig(2, 100, 0, 2), opEon(2, 11, 100, 2), opDkg(2, true, true),
			opRegEvent(1, 21, 500, 90), opRegEvent(2, 21, 105, 91), opFetch(100, 120, logSpec{Eon: 1, Id: 21, Blk: 110}, logSpec{Eon: 2, Id: 21, Blk: 110}), opBlock(120, 1000)})
	// row order oracle on
	for i := range cs {
		if i%3 == 1 {
			cs[i].OrderSeed = uint64(1000 + i)
		}
	}
	return cs
}

// ---------------------------------------------------------------------------------------
// several keyper sets in one block

// multiSetOps: keyper set sets[i] is put into state states[i] (not-member | running | failed |
// restarted | restarted-after-success | success); every set gets two fired event triggers and
// two due time registrations; then one block is processed (number above every activation
// block, time above every release time), the volatile state is dropped and a second block
// follows. variant shifts identities and chooses raw fire / trigger processor.
func multiSetOps(sets []int64, states []string, variant int) []opSpec {
	var ops []opSpec
	eon := int64(1)
	height := int64(10)
	key := 1
	var logs []logSpec
	for i, set := range sets {
		act := 100 + set // distinct activation blocks
		keypers := []int{1, 0, 2}
		if states[i] == "not-member" {
			keypers = []int{1, 2, 3}
		}
		ops = append(ops, opConfig(int32(set), act, keypers...))
		start := func() {
			height++
			ops = append(ops, opEon(eon, height, act, set))
			eon++
		}
		switch states[i] {
		case "not-member", "success":
			start()
			ops = append(ops, opDkg(eon-1, true, true))
		case "running":
			start()
		case "failed":
			start()
			ops = append(ops, opDkg(eon-1, false, false))
		case "restarted":
			start()
			ops = append(ops, opDkg(eon-1, false, false))
			start()
		case "restarted-after-success":
			start()
			ops = append(ops, opDkg(eon-1, true, true))
			start()
		default:
			panic("bad state " + states[i])
		}
		for j := 0; j < 2; j++ {
			evID := 40 + (int(set)*2+j+variant)%8
			ops = append(ops, opRegEvent(set, evID, 500, 90))
			if (variant+j)%2 == 0 {
				ops = append(ops, opFire(set, evID, 120))
			} else {
				logs = append(logs, logSpec{Eon: set, Id: evID, Blk: uint64(121 + j)})
			}
			ops = append(ops, opRegTime(key, set, 10+key, 990+int64(j), 90))
			key++
		}
	}
	if len(logs) > 0 {
		ops = append(ops, opFetch(120, 130, logs...))
	}
	ops = append(ops, opBlock(130, 1000), opRestart(), opBlock(131, 1001))
	return ops
}

var setStates = []string{"not-member", "running", "failed", "restarted", "restarted-after-success", "success", "success"}

// genMultiSetHist: 2 to 4 keyper sets with independent states and indices in random order.
func genMultiSetHist(r *vh.RNG, i int) histCase {
	n := 2 + r.Intn(3)
	idx := r.Perm(4)
	var sets []int64
	var states []string
	for k := 0; k < n; k++ {
		sets = append(sets, int64(idx[k]+1))
		states = append(states, setStates[r.Intn(len(setStates))])
	}
	if r.Chance(3, 4) { // usually at least one decryptable set
		states[r.Intn(n)] = "success"
	}
	c := histCase{Name: fmt.Sprintf("random-multi-set-%d", i), Events: r.Chance(7, 8), MaxKeys: 8, Auto: true}
	if r.Chance(1, 2) {
		c.OrderSeed = r.U64() | 1
	}
	c.Ops = multiSetOps(sets, states, r.Intn(8))
	// sometimes a running set gets its result, or a set's identities are released, and one more block
	switch r.Intn(3) {
	case 0:
		c.Ops = append(c.Ops, opDkg(int64(1+r.Intn(n+1)), r.Chance(2, 3), true), opRestart(), opBlock(132, 1002))
	case 1:
		set := sets[r.Intn(n)]
		c.Ops = append(c.Ops, opReleased(set, 40+(int(set)*2)%8, 11), opRestart(), opBlock(132, 1002))
	}
	return c
}

// ---------------------------------------------------------------------------------------
// random histories

type genState struct {
	r        *vh.RNG
	ops      []opSpec
	time     uint64
	number   uint64
	nextEon  int64
	nextKey  int
	height   int64
	cfgs     []int32
	cfgAct   map[int32]int64
	eons     []int64
	eonCfg   map[int64]int64
	hasDkg   map[int64]bool
	timeKeys []int
	keySet   map[int]int64
	keyId    map[int]int
	evs      [][2]int64 // (set, id label)
	expOf    map[[2]int64]int64
	predOf   map[[2]int64]*predSpec
	lastIds  map[int64][]int // per set: identity labels most recently registered
}

func (g *genState) pickSet() int64 {
	if len(g.cfgs) > 0 && g.r.Chance(1, 2) {
		return int64(g.cfgs[0])
	}
	if len(g.cfgs) > 0 && g.r.Chance(5, 6) {
		return int64(g.cfgs[g.r.Intn(len(g.cfgs))])
	}
	return int64(1 + g.r.Intn(3))
}

func (g *genState) emit(o opSpec) { g.ops = append(g.ops, o) }

func (g *genState) addSet() {
	idx := int32(1 + g.r.Intn(3))
	if len(g.cfgs) < 3 && g.r.Chance(3, 4) { // prefer an index that is still free
		for _, taken := g.cfgAct[idx]; taken; _, taken = g.cfgAct[idx] {
			idx = idx%3 + 1
		}
	}
	var ks []int
	member := g.r.Chance(5, 6)
	n := 1 + g.r.Intn(3)
	for i := 0; i < n; i++ {
		ks = append(ks, 1+g.r.Intn(numAddrs-1))
	}
	if member {
		ks[g.r.Intn(len(ks))] = 0
	}
	act := int64(g.number) + int64(g.r.Intn(4)) - 1
	if act < 0 {
		act = 0
	}
	g.emit(opConfig(idx, act, ks...))
	if _, ok := g.cfgAct[idx]; !ok {
		g.cfgs = append(g.cfgs, idx)
		g.cfgAct[idx] = act
	}
}

func (g *genState) startEon() {
	set := g.pickSet()
	for _, c := range g.cfgs { // a configured set without any eon goes first
		has := false
		for _, s := range g.eonCfg {
			if s == int64(c) {
				has = true
			}
		}
		if !has && g.r.Chance(4, 5) {
			set = int64(c)
			break
		}
	}
	eon := g.nextEon
	g.nextEon++
	if g.r.Chance(1, 10) && len(g.eons) > 0 {
		eon = g.eons[g.r.Intn(len(g.eons))] // primary key conflict
	} else if g.r.Chance(1, 10) {
		eon += 10 // leave a gap so that a later eon can get a smaller number
	}
	g.height++
	act, ok := g.cfgAct[int32(set)]
	if !ok || g.r.Chance(1, 6) {
		act = int64(g.number) + int64(g.r.Intn(4)) - 1
		if act < 0 {
			act = 0
		}
	}
	g.emit(opEon(eon, g.height, act, set))
	if _, dup := g.eonCfg[eon]; !dup {
		g.eons = append(g.eons, eon)
		g.eonCfg[eon] = set
		if eon >= g.nextEon {
			g.nextEon = eon - 3
			if g.nextEon < 1 {
				g.nextEon = eon + 1
			}
		}
	}
}

func (g *genState) dkg() {
	if len(g.eons) == 0 {
		g.emit(opDkg(int64(1+g.r.Intn(3)), true, true))
		return
	}
	var cand []int64
	for _, e := range g.eons {
		if !g.hasDkg[e] {
			cand = append(cand, e)
		}
	}
	e := g.eons[g.r.Intn(len(g.eons))]
	if len(cand) > 0 && g.r.Chance(9, 10) {
		e = cand[g.r.Intn(len(cand))]
	}
	ok := g.r.Chance(3, 4)
	dec := g.r.Chance(9, 10)
	if !ok {
		// the observer stores no key material with a failed result; the schema allows it
		dec = g.r.Chance(1, 3)
	}
	g.emit(opDkg(e, ok, dec))
	g.hasDkg[e] = true
}

func (g *genState) regTime() {
	var key int
	fresh := len(g.timeKeys) == 0 || g.r.Chance(5, 6)
	if fresh {
		g.nextKey++
		key = g.nextKey
	} else {
		key = g.timeKeys[g.r.Intn(len(g.timeKeys))]
	}
	set := g.pickSet()
	id := 10 + key // the identity is a function of the key ...
	if g.r.Chance(1, 8) {
		id = g.r.Intn(6) // ... except for a few short identities (which may collide)
	}
	ts := int64(g.time) + int64(g.r.Intn(6)) - 1
	if g.r.Chance(1, 10) { // a release time around 2^63 / 2^64, stored with the syncer's cast
		ts = u2i(vh.Pick[uint64](g.r, 9223372036854775807, 9223372036854775808, 9223372036854775809, 18446744073709551614, 18446744073709551615))
	}
	blk := int64(g.number) - int64(g.r.Intn(4))
	if blk < 0 {
		blk = 0
	}
	g.emit(opRegTime(key, set, id, ts, blk))
	if fresh {
		g.timeKeys = append(g.timeKeys, key)
		g.keySet[key] = set
	}
	g.keyId[key] = id
	g.lastIds[g.keySet[key]] = append(g.lastIds[g.keySet[key]], id)
}

func (g *genState) regEvent() {
	set := g.pickSet()
	id := 40 + g.r.Intn(8)
	if g.r.Chance(1, 8) {
		id = g.r.Intn(6)
	}
	exp := int64(g.number) + int64(g.r.Intn(8)) - 1
	if exp < 0 {
		exp = 0
	}
	blk := int64(g.number) - int64(g.r.Intn(4))
	if blk < 0 {
		blk = 0
	}
	o := opRegEvent(set, id, exp, blk)
	if g.r.Chance(1, 2) {
		o.Pred = g.genPred()
	}
	g.emit(o)
	k := [2]int64{set, int64(id)}
	g.predOf[k] = o.Pred
	if _, ok := g.expOf[k]; !ok {
		g.evs = append(g.evs, k)
	}
	g.expOf[k] = exp
	g.lastIds[set] = append(g.lastIds[set], id)
}

func (g *genState) fireOrFetch() {
	if len(g.evs) == 0 {
		g.emit(opFire(g.pickSet(), 40+g.r.Intn(8), int64(g.number)))
		return
	}
	if g.r.Chance(1, 3) {
		k := g.evs[g.r.Intn(len(g.evs))]
		g.emit(opFire(k[0], int(k[1]), int64(g.number)-int64(g.r.Intn(3))))
		return
	}
	start := g.number - uint64(g.r.Intn(4))
	if start > g.number {
		start = 0
	}
	end := g.number + uint64(g.r.Intn(4))
	var logs []logSpec
	n := 1 + g.r.Intn(4)
	for i := 0; i < n; i++ {
		k := g.evs[g.r.Intn(len(g.evs))]
		var blk uint64
		switch g.r.Intn(4) {
		case 0: // around the expiry block
			b := g.expOf[k] + int64(g.r.Intn(3)) - 1
			if b < 0 {
				b = 0
			}
			blk = uint64(b)
		case 1: // around the range ends
			blk = vh.Pick(g.r, start, end, end+1)
			if start > 0 && g.r.Chance(1, 3) {
				blk = start - 1
			}
		default:
			blk = start + uint64(g.r.Intn(int(end-start)+1))
		}
		logs = append(logs, logSpec{Eon: k[0], Id: int(k[1]), Blk: blk, Val: g.genVal(g.predOf[k])})
	}
	if g.r.Chance(1, 6) {
		logs = append(logs, logSpec{Eon: g.pickSet(), Id: 48 + g.r.Intn(3), Blk: g.number})
	}
	g.emit(opFetch(start, end, logs...))
}

// genPred: a predicate over a topic, a static or a dynamic data value, with arguments below,
// at and above 2^64.
func (g *genState) genPred() *predSpec {
	p := &predSpec{}
	switch g.r.Intn(6) {
	case 0:
		p.Ref, p.Off = "topic", uint64(1+g.r.Intn(3))
	case 1, 2:
		p.Ref, p.Off = "static", uint64(4+g.r.Intn(3))
	case 3:
		p.Ref, p.Off = "dynamic", uint64(4+g.r.Intn(2))
	default:
		p.Ref, p.Off = "static", 4
	}
	if g.r.Chance(1, 8) && p.Ref != "static" {
		p.Op = "beq"
		n := 32
		if p.Ref == "dynamic" {
			n = 1 + g.r.Intn(40)
		}
		p.Arg = hex.EncodeToString(g.r.Bytes(n))
		return p
	}
	p.Op = vh.Pick(g.r, "lt", "lte", "eq", "eq", "gt", "gte")
	arg := new(big.Int)
	switch g.r.Intn(6) {
	case 0:
		arg.SetInt64(int64(g.r.Intn(10)))
	case 1:
		arg.SetUint64(g.r.U64())
	case 2:
		arg.Sub(two64, big.NewInt(1))
	case 3:
		arg.Set(two64)
	case 4:
		arg.Add(two64, big.NewInt(int64(g.r.Intn(10))))
	default:
		arg.Lsh(big.NewInt(int64(1+g.r.Intn(9))), uint(64+g.r.Intn(100)))
	}
	p.Arg = arg.String()
	return p
}

// genVal: a log value around the predicate's argument, mostly differing from it above bit 63.
func (g *genState) genVal(p *predSpec) string {
	if p == nil {
		return ""
	}
	if p.Op == "beq" {
		b := p.byteArg()
		switch g.r.Intn(3) {
		case 0:
			b[g.r.Intn(len(b))] ^= 0x01
		case 1:
			if p.Ref == "dynamic" {
				b = append(b, 0)
			}
		}
		return hex.EncodeToString(b)
	}
	a := p.intArg()
	v := new(big.Int).Set(a)
	k := big.NewInt(int64(1 + g.r.Intn(3)))
	switch g.r.Intn(9) {
	case 0: // the argument itself
	case 1:
		v.Add(a, big.NewInt(1))
	case 2:
		if a.Sign() > 0 {
			v.Sub(a, big.NewInt(1))
		}
	case 3, 4: // same low 64 bits, more above
		v.Add(a, new(big.Int).Mul(k, two64))
	case 5: // same low 64 bits, less above
		if a.Cmp(two64) >= 0 {
			v.Sub(a, two64)
		} else {
			v.Add(a, two64)
		}
	case 6:
		v.Set(two64)
	case 7:
		v.Add(two64, big.NewInt(int64(g.r.Intn(3))-1))
	default:
		v.SetInt64(0)
	}
	return hex.EncodeToString(v.Bytes())
}

func (g *genState) release() {
	set := g.pickSet()
	ids := g.lastIds[set]
	var pick []int
	if len(ids) > 0 {
		n := 1 + g.r.Intn(3)
		for i := 0; i < n; i++ {
			pick = append(pick, ids[g.r.Intn(len(ids))])
		}
	} else {
		pick = []int{11 + g.r.Intn(5)}
	}
	if g.r.Chance(1, 8) {
		set = int64(1 + g.r.Intn(3))
	}
	g.emit(opReleased(set, pick...))
}

func (g *genState) block() {
	// block numbers mostly advance, block times move by -3..+5
	if g.r.Chance(5, 6) {
		g.number++
	} else if g.number > 0 && g.r.Chance(1, 2) {
		g.number--
	}
	d := g.r.Intn(5)
	if g.r.Chance(1, 6) {
		d = -1 - g.r.Intn(3)
	}
	if d < 0 && uint64(-d) > g.time {
		d = 0
	}
	g.time = uint64(int64(g.time) + int64(d))
	g.emit(opBlock(g.number, g.time))
}

func (g *genState) handle() {
	blk := g.number
	if g.r.Chance(1, 3) {
		blk = uint64(int64(g.number) + int64(g.r.Intn(7)) - 3)
	}
	set := g.pickSet()
	ids := g.lastIds[set]
	var pick []int
	n := g.r.Intn(4)
	for i := 0; i < n; i++ {
		if len(ids) > 0 && g.r.Chance(3, 4) {
			pick = append(pick, ids[g.r.Intn(len(ids))])
		} else {
			pick = append(pick, 11+g.r.Intn(6))
		}
	}
	g.emit(opHandle(blk, pick...))
}

func genHist(r *vh.RNG, i int) histCase {
	g := &genState{r: r, time: 1000, number: 100, nextEon: 1, cfgAct: map[int32]int64{}, eonCfg: map[int64]int64{},
		hasDkg: map[int64]bool{}, keySet: map[int]int64{}, keyId: map[int]int{}, expOf: map[[2]int64]int64{}, predOf: map[[2]int64]*predSpec{}, lastIds: map[int64][]int{}}
	c := histCase{Name: fmt.Sprintf("random-%d", i), Events: r.Chance(4, 5), MaxKeys: uint64(vh.Pick(r, 1, 2, 3, 8, 8, 8, 64)), Auto: r.Chance(4, 5)}
	if r.Chance(1, 2) {
		c.OrderSeed = r.U64() | 1
	}
	// a prefix that usually produces a decryptable keyper set, then a free mix
	switch x := r.Intn(8); {
	case x < 5: // a keyper set that is decryptable from the start
		idx := int32(1 + r.Intn(3))
		ks := []int{1 + r.Intn(numAddrs-1), 1 + r.Intn(numAddrs-1), 1 + r.Intn(numAddrs-1)}[:1+r.Intn(3)]
		ks[r.Intn(len(ks))] = 0
		act := int64(g.number) - int64(r.Intn(2))
		g.emit(opConfig(idx, act, ks...))
		g.cfgs, g.cfgAct[idx] = append(g.cfgs, idx), act
		g.height++
		g.emit(opEon(1, g.height, act, int64(idx)))
		g.eons, g.eonCfg[1], g.nextEon = append(g.eons, 1), int64(idx), 2
		g.emit(opDkg(1, true, true))
		g.hasDkg[1] = true
	case x < 7:
		g.addSet()
		if r.Chance(9, 10) {
			g.startEon()
		}
		if r.Chance(5, 6) {
			g.dkg()
		}
	}
	n := 12 + r.Intn(26)
	for len(g.ops) < n {
		switch x := r.Intn(100); {
		case x < 30:
			g.block()
		case x < 47:
			g.regTime()
		case x < 54:
			g.regEvent()
		case x < 63:
			g.fireOrFetch()
		case x < 66:
			g.addSet()
		case x < 70:
			g.startEon()
		case x < 79:
			g.dkg()
		case x < 86:
			g.release()
		case x < 90:
			g.emit(opRestart())
		case x < 92:
			g.emit(opUnfire(int64(g.number) - int64(r.Intn(4))))
		case x < 94:
			g.emit(opRbTime(int64(g.number) - int64(r.Intn(3))))
		case x < 96:
			g.emit(opRbEvent(int64(g.number) - int64(r.Intn(3))))
		default:
			g.handle()
		}
	}
	// always end with a block so that the last edits are judged
	g.block()
	c.Ops = g.ops
	return c
}
