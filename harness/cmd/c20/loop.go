//go:build verif

// Loop stream of the C20 driver: the real eonPubKeyHandler.loop (ticker, poll, handle) runs in
// a goroutine with a short polling interval against pgfake, with a publication mechanism that
// accepts every key but takes longer than the polling interval for each.  Batches of two or more
// keys are made pending (the first before the loop starts, the others in one transaction each
// while it runs).  The oracle: every key is eventually handed to every configured mechanism
// exactly once, the keys of a batch in the order the query delivered them.
package main

import (
	"context"
	"encoding/json"
	"fmt"
	"os"
	"sync"
	"time"

	ethcrypto "github.com/ethereum/go-ethereum/crypto"
	"github.com/jackc/pgx/v4"

	"github.com/shutter-network/rolling-shutter/rolling-shutter/keyper"
	"github.com/shutter-network/rolling-shutter/rolling-shutter/keyper/database"
	"github.com/shutter-network/rolling-shutter/rolling-shutter/keyper/kprconfig"
	"github.com/shutter-network/rolling-shutter/rolling-shutter/medley/configuration"
	"github.com/shutter-network/rolling-shutter/rolling-shutter/medley/encodeable/keys"
	"github.com/shutter-network/rolling-shutter/rolling-shutter/medley/retry"
	"github.com/shutter-network/rolling-shutter/rolling-shutter/medley/service"
	"github.com/shutter-network/rolling-shutter/rolling-shutter/p2p"
	"github.com/shutter-network/rolling-shutter/rolling-shutter/p2pmsg"

	"verifharness/vh"
)

type loopCase struct {
	Kind       string `json:"kind"` // "loop"
	Bcast      bool   `json:"bcast"`
	Cb         bool   `json:"cb"`
	IntervalMs int    `json:"interval_ms"` // polling interval of the loop
	SlowMs     int    `json:"slow_ms"`     // what one hand-over takes (longer than the interval)
	Batches    []int  `json:"batches"`     // number of keys becoming pending together
	Perm       []int  `json:"perm"`        // row order of the first batch
	// one failing tick: FailKind "refuse" - in batch FailAt the mechanism refuses the call number
	// RefuseCall (counted within the batch, both mechanisms) once; "query" - one execution of
	// GetAndDeleteEonPublicKeys fails before batch FailAt becomes pending.  "" - no failure.
	FailKind   string `json:"fail_kind,omitempty"`
	FailAt     int    `json:"fail_at,omitempty"`
	RefuseCall int    `json:"refuse_call,omitempty"`
}

const (
	keyLoopDrop  = "C20:keys-dropped-when-publication-slower-than-polling-interval"
	keyLoopStops = "C20:keys-recorded-after-a-failed-tick-never-published"
)

type slowRec struct {
	mu       sync.Mutex
	calls    []handed
	slow     time.Duration
	addr     [20]byte
	refuseAt int // index (over all calls of the run) of the one call that is refused; -1: none
}

// add records a call; the mechanism is slow and accepts whatever it is offered, except for the
// one scripted refusal.
func (r *slowRec) add(h handed) bool {
	time.Sleep(r.slow)
	r.mu.Lock()
	defer r.mu.Unlock()
	h.Accepted = len(r.calls) != r.refuseAt
	r.calls = append(r.calls, h)
	return h.Accepted
}

func (r *slowRec) snapshot() []handed {
	r.mu.Lock()
	defer r.mu.Unlock()
	return append([]handed(nil), r.calls...)
}

type slowMessaging struct{ r *slowRec }

func (m *slowMessaging) Start(context.Context, service.Runner) error       { return nil }
func (m *slowMessaging) AddValidator(p2p.ValidatorFunc, ...p2pmsg.Message) {}
func (m *slowMessaging) AddMessageHandler(...p2p.MessageHandler)           {}
func (m *slowMessaging) SendMessage(_ context.Context, msg p2pmsg.Message, _ ...retry.Option) error {
	e, ok := msg.(*p2pmsg.EonPublicKey)
	if !ok {
		return nil
	}
	sok, err := p2pmsg.VerifySignature(e, m.r.addr)
	if !m.r.add(handed{Mech: "broadcast", Instance: e.InstanceId, Key: append([]byte(nil), e.PublicKey...),
		Act: e.ActivationBlock, Kci: e.KeyperConfigIndex, Eon: e.Eon, SigOK: sok && err == nil}) {
		return errRefused
	}
	return nil
}

func runLoop(run *vh.Run, e *env, c loopCase) {
	id := run.NextID()
	violate := func(key, what string, observed, expected any) {
		run.Violate(vh.Violation{Key: key, What: what, Case: c, Observed: observed, Expected: expected})
	}
	e.srv.SetStore(e.empty)
	e.srv.SetRowOrder(nil)
	self := poolAddrs[0]
	cfg := &kprconfig.Config{InstanceID: 9,
		Ethereum: &configuration.EthnodeConfig{PrivateKey: &keys.ECDSAPrivate{Key: poolKeys[0]}}}
	rec := &slowRec{slow: time.Duration(c.SlowMs) * time.Millisecond, addr: ethcrypto.PubkeyToAddress(poolKeys[0].PublicKey), refuseAt: -1}
	var opts []keyper.Option
	if !c.Bcast {
		opts = append(opts, keyper.NoBroadcastEonPublicKey())
	}
	if c.Cb {
		opts = append(opts, keyper.WithEonPublicKeyHandler(func(_ context.Context, pk keyper.EonPublicKey) error {
			if !rec.add(handed{Mech: "callback", Key: append([]byte(nil), pk.PublicKey...), Act: pk.ActivationBlock,
				Kci: pk.KeyperConfigIndex, Eon: pk.Eon}) {
				return errRefused
			}
			return nil
		}))
	}
	h, err := keyper.VerifNewEonPubKeyHandler(cfg, e.pool, &slowMessaging{r: rec}, opts...)
	if err != nil {
		run.Tie("VerifNewEonPubKeyHandler: " + err.Error())
		return
	}
	nmech := 0
	if c.Bcast {
		nmech++
	}
	if c.Cb {
		nmech++
	}
	// tables: one set with the keyper, one eon per key
	var obs []string
	step := func(cop, outc string) {
		obs = append(obs, "("+cop+", "+outc+", "+coqOutRows(e.outgoing())+")")
	}
	keypers := []string{poolAddrs[1], self}
	if err := e.q.InsertBatchConfig(e.ctx, database.InsertBatchConfigParams{KeyperConfigIndex: 3, Height: 1, Keypers: keypers, Threshold: 1, ActivationBlockNumber: 7}); err != nil {
		run.Tie("InsertBatchConfig: " + err.Error())
		return
	}
	step(vh.CApp("KCfg", vh.CZ(3), vh.CList([]string{coqAddr(keypers[0]), coqAddr(keypers[1])})), "(OIns true)")
	total := 0
	for _, n := range c.Batches {
		total += n
	}
	for k := 0; k < total; k++ {
		eon, act := int64(k+1), int64(100+10*k)
		if err := e.q.InsertEon(e.ctx, database.InsertEonParams{Eon: eon, Height: 1, ActivationBlockNumber: act, KeyperConfigIndex: 3}); err != nil {
			run.Tie("InsertEon: " + err.Error())
			return
		}
		step(vh.CApp("KEon", vh.CZ(eon), vh.CZ(act), vh.CZ(3)), "(OIns true)")
	}
	old := keyper.VerifSetEonPubkeyTickerTime(time.Duration(c.IntervalMs) * time.Millisecond)
	defer keyper.VerifSetEonPubkeyTickerTime(old)

	ctx, cancel := context.WithCancel(context.Background())
	done := make(chan struct{})
	started := false
	defer func() {
		cancel()
		if started {
			<-done
		}
	}()
	mechs := []string{}
	if c.Bcast {
		mechs = append(mechs, "broadcast")
	}
	if c.Cb {
		mechs = append(mechs, "callback")
	}
	expected := map[string][]want{} // per mechanism: what it has to accept, in order
	exempt := 0                     // keys behind a refused key in its batch (deleted, never offered: known semantics)
	next := 0
	seenCalls := 0
	afterFailure := false
	for b, n := range c.Batches {
		perm := make([]int, n)
		for j := range perm {
			perm[j] = j
		}
		if b == 0 && len(c.Perm) == n {
			perm = c.Perm
		}
		if c.FailKind == "query" && b == c.FailAt && started {
			// one transient failure of the query: the tick returns its error, nothing is deleted
			e.srv.FailNext("keyper/database.GetAndDeleteEonPublicKeys", "57014", 0)
			time.Sleep(time.Duration(4*c.IntervalMs+20) * time.Millisecond)
			obs = append(obs, "(KTickFails, OQueryFailed, "+coqOutRows(e.outgoing())+")")
			afterFailure = true
		}
		// the keys of one batch become pending together
		var batch []want
		err := e.pool.BeginFunc(e.ctx, func(tx pgx.Tx) error {
			q := database.New(tx)
			for j := 0; j < n; j++ {
				k := next + j
				key := []byte{byte(0x40 + k)}
				if err := q.InsertEonPublicKey(e.ctx, database.InsertEonPublicKeyParams{EonPublicKey: key, Eon: int64(k + 1)}); err != nil {
					return err
				}
				batch = append(batch, want{Key: key, Act: uint64(100 + 10*k), Kci: 3, Eon: uint64(k + 1)})
			}
			return nil
		})
		if err != nil {
			run.Tie("InsertEonPublicKey: " + err.Error())
			return
		}
		ordered := make([]want, n)
		for j, p := range perm {
			ordered[j] = batch[p]
		}
		next += n
		// what this batch's tick has to do
		wantCalls := n * nmech
		var answers []string
		refusedClass := "ENone"
		if c.FailKind == "refuse" && b == c.FailAt && c.RefuseCall >= 0 && c.RefuseCall < n*nmech {
			rec.mu.Lock()
			rec.refuseAt = seenCalls + c.RefuseCall
			rec.mu.Unlock()
			wantCalls = c.RefuseCall + 1
			kr, mp := c.RefuseCall/nmech, c.RefuseCall%nmech
			for pm, m := range mechs {
				expected[m] = append(expected[m], ordered[:kr]...)
				if pm < mp {
					expected[m] = append(expected[m], ordered[kr])
				}
			}
			exempt += n - kr - 1
			for j := 0; j < c.RefuseCall; j++ {
				answers = append(answers, "true")
			}
			answers = append(answers, "false")
			refusedClass = map[string]string{"broadcast": "EBroadcast", "callback": "ECallback"}[mechs[mp]]
		} else {
			for _, m := range mechs {
				expected[m] = append(expected[m], ordered...)
			}
		}
		if b == 0 {
			p0 := perm
			e.srv.SetRowOrder(func(table string, k int) []int {
				if table == "outgoing_eon_keys" && k == len(p0) {
					return p0
				}
				idp := make([]int, k)
				for j := range idp {
					idp[j] = j
				}
				return idp
			})
			started = true
			go func() {
				defer close(done)
				vh.Guard(func() { _ = h.Loop(ctx) })
			}()
		}
		// wait until the batch is out, or for as long as a correct loop could possibly need
		budget := time.Duration(wantCalls*c.SlowMs+8*c.IntervalMs+600) * time.Millisecond
		deadline := time.Now().Add(budget)
		for time.Now().Before(deadline) && len(rec.snapshot()) < seenCalls+wantCalls {
			time.Sleep(2 * time.Millisecond)
		}
		// a few more intervals: nothing else may come
		time.Sleep(time.Duration(3*c.IntervalMs) * time.Millisecond)
		if b == 0 {
			e.srv.SetRowOrder(nil)
		}
		calls := rec.snapshot()
		now := calls[min(seenCalls, len(calls)):]
		if afterFailure && len(now) < wantCalls {
			run.Dist["loop:batch-after-failed-tick-incomplete"]++
		}
		// correspondence: the batch as generations followed by one tick in the given order
		for j := 0; j < n; j++ {
			w := batch[j]
			obs = append(obs, "("+vh.CApp("KGen", vh.CBytes(w.Key), vh.CZ(int64(w.Eon)))+", (OIns true), "+coqOutRowsWant(batch[:j+1])+")")
		}
		ps := make([]string, n)
		for j, p := range perm {
			ps[j] = vh.CNat(p)
		}
		obs = append(obs, "("+vh.CApp("KTick", vh.CList(ps), vh.CList(answers))+", "+vh.CApp("OTick", coqCalls(now), refusedClass)+", "+coqOutRows(e.outgoing())+")")
		seenCalls += wantCalls
		if refusedClass != "ENone" {
			afterFailure = true
		}
	}
	cancel()
	<-done
	started = false

	// ---- oracle ----------------------------------------------------------------------------
	calls := rec.snapshot()
	failed := c.FailKind == "refuse" || c.FailKind == "query"
	for _, m := range mechs {
		var got []want
		for _, cl := range calls {
			if cl.Mech == m && cl.Accepted {
				got = append(got, want{Key: cl.Key, Act: cl.Act, Kci: cl.Kci, Eon: cl.Eon})
				if m == "broadcast" && (!cl.SigOK || cl.Instance != 9) {
					violate("C20:bad-signature", "loop: broadcast message with a wrong instance id or signature", cl, nil)
				}
			}
		}
		exp := expected[m]
		if fmt.Sprint(got) == fmt.Sprint(exp) {
			continue
		}
		gotMS, wantMS := multiset(got), multiset(exp)
		missing, extra := 0, 0
		for k, n := range wantMS {
			if gotMS[k] < n {
				missing += n - gotMS[k]
			}
		}
		for k, n := range gotMS {
			if n > wantMS[k] {
				extra += n - wantMS[k]
			}
		}
		switch {
		case extra > 0:
			violate("C20:handed-twice", fmt.Sprintf("loop: %s accepted %d keys more than it had to be handed (twice, not generated, or from behind a refused key)", m, extra), got, exp)
		case missing > 0 && failed:
			violate(keyLoopStops, fmt.Sprintf("loop (%d ms interval) with one failed tick (%s): %d keys recorded after that tick were never handed to %s although the loop kept running for many intervals (%d rows still in outgoing_eon_keys)", c.IntervalMs, c.FailKind, missing, m, len(e.outgoing())), got, exp)
		case missing > 0:
			violate(keyLoopDrop, fmt.Sprintf("loop with a %d ms polling interval and a mechanism that accepts every key after %d ms: %d of %d pending keys were never handed to %s although the loop ran on (they are no longer in outgoing_eon_keys: %d rows left)", c.IntervalMs, c.SlowMs, missing, len(exp), m, len(e.outgoing())), got, exp)
		default:
			violate("C20:loop-order", fmt.Sprintf("loop: %s was handed the keys of a batch in another order than the query delivered them", m), got, exp)
		}
	}
	if exempt > 0 {
		run.Dist["loop:keys-lost-behind-a-refused-key"] += exempt
	}
	if failed {
		run.Dist["loop:failed-tick="+c.FailKind]++
	}
	run.Dist["loop:runs"]++
	run.Dist[fmt.Sprintf("loop:batches=%d", len(c.Batches))]++
	term := vh.CApp("CHist", vh.CN(id), vh.CApp("mkH", coqAddr(self), "9", vh.CBool(c.Bcast), vh.CBool(c.Cb)), vh.CList(obs))
	b, _ := json.Marshal(c)
	run.AddCase(id, term, c, string(b), true)
}

func coqOutRowsWant(ws []want) string {
	rs := make([]outRow, len(ws))
	for i, w := range ws {
		rs[i] = outRow{Key: w.Key, Eon: int64(w.Eon)}
	}
	return coqOutRows(rs)
}

func forcedLoops() []loopCase {
	return []loopCase{
		{Kind: "loop", Bcast: true, IntervalMs: 20, SlowMs: 30, Batches: []int{2}, Perm: []int{0, 1}},
		{Kind: "loop", Cb: true, IntervalMs: 20, SlowMs: 30, Batches: []int{3, 2}, Perm: []int{2, 0, 1}},
		{Kind: "loop", Bcast: true, Cb: true, IntervalMs: 20, SlowMs: 25, Batches: []int{2, 1, 2}, Perm: []int{1, 0}},
		{Kind: "loop", Cb: true, IntervalMs: 25, SlowMs: 5, Batches: []int{4, 1}, Perm: []int{3, 2, 1, 0}}, // a fast mechanism
		// one failing tick, then two keys within one interval, then a later one
		{Kind: "loop", Bcast: true, IntervalMs: 20, SlowMs: 2, Batches: []int{1, 2, 1}, Perm: []int{0}, FailKind: "refuse", FailAt: 0, RefuseCall: 0},
		{Kind: "loop", Cb: true, IntervalMs: 20, SlowMs: 2, Batches: []int{3, 2, 1}, Perm: []int{1, 2, 0}, FailKind: "refuse", FailAt: 0, RefuseCall: 1},
		{Kind: "loop", Bcast: true, Cb: true, IntervalMs: 20, SlowMs: 2, Batches: []int{2, 2, 2, 1}, Perm: []int{1, 0}, FailKind: "refuse", FailAt: 1, RefuseCall: 1},
		{Kind: "loop", Cb: true, IntervalMs: 20, SlowMs: 2, Batches: []int{1, 2, 1}, Perm: []int{0}, FailKind: "query", FailAt: 1},
		{Kind: "loop", Bcast: true, IntervalMs: 20, SlowMs: 25, Batches: []int{2, 2, 1}, Perm: []int{1, 0}, FailKind: "query", FailAt: 1},
	}
}

func randomLoop(r *vh.RNG) loopCase {
	c := loopCase{Kind: "loop", IntervalMs: 15 + r.Intn(15)}
	c.SlowMs = c.IntervalMs + 5 + r.Intn(15)
	switch r.Intn(5) {
	case 0, 1:
		c.Bcast = true
	case 2, 3:
		c.Cb = true
	default:
		c.Bcast, c.Cb = true, true
	}
	for b, nb := 0, 1+r.Intn(2); b < nb; b++ {
		c.Batches = append(c.Batches, 2+r.Intn(3))
	}
	c.Perm = r.Perm(c.Batches[0])
	if r.Chance(1, 2) {
		// one failing tick followed by further batches
		c.Batches = append(c.Batches, 2, 1)
		c.SlowMs = 1 + r.Intn(c.IntervalMs)
		nm := 1
		if c.Bcast && c.Cb {
			nm = 2
		}
		if r.Chance(1, 2) {
			c.FailKind, c.FailAt = "refuse", r.Intn(len(c.Batches)-2)
			c.RefuseCall = r.Intn(c.Batches[c.FailAt] * nm)
		} else {
			c.FailKind, c.FailAt = "query", 1+r.Intn(len(c.Batches)-2)
		}
	}
	return c
}

func loadLoopCorpus(path string) (loopCase, bool) {
	var w struct {
		Case loopCase `json:"case"`
	}
	b, err := os.ReadFile(path)
	if err != nil || json.Unmarshal(b, &w) != nil || w.Case.Kind != "loop" || len(w.Case.Batches) == 0 || w.Case.IntervalMs <= 0 {
		return loopCase{}, false
	}
	return w.Case, true
}
