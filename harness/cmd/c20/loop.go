//go:build verif

// Loop stream of the C20 driver: the real eonPubKeyHandler.loop (ticker, poll, handle) runs in
// a goroutine with a short polling interval against pgfake, with a publication mechanism that
// accepts every key but takes longer than the polling interval for each.  Batches of two or more
// keys are made pending (the first before the loop starts, the others in one transaction each
// while it runs).  The oracle: every key is eventually handed to every configured mechanism
// exactly once, the keys of a batch in the order the query delivered them.
package main

import (
	"context"
	"encoding/json"
	"fmt"
	"os"
	"sync"
	"time"

	ethcrypto "github.com/ethereum/go-ethereum/crypto"
	"github.com/jackc/pgx/v4"

	"github.com/shutter-network/rolling-shutter/rolling-shutter/keyper"
	"github.com/shutter-network/rolling-shutter/rolling-shutter/keyper/database"
	"github.com/shutter-network/rolling-shutter/rolling-shutter/keyper/kprconfig"
	"github.com/shutter-network/rolling-shutter/rolling-shutter/medley/configuration"
	"github.com/shutter-network/rolling-shutter/rolling-shutter/medley/encodeable/keys"
	"github.com/shutter-network/rolling-shutter/rolling-shutter/medley/retry"
	"github.com/shutter-network/rolling-shutter/rolling-shutter/medley/service"
	"github.com/shutter-network/rolling-shutter/rolling-shutter/p2p"
	"github.com/shutter-network/rolling-shutter/rolling-shutter/p2pmsg"

	"verifharness/vh"
)

type loopCase struct {
	Kind       string `json:"kind"` // "loop"
	Bcast      bool   `json:"bcast"`
	Cb         bool   `json:"cb"`
	IntervalMs int    `json:"interval_ms"` // polling interval of the loop
	SlowMs     int    `json:"slow_ms"`     // what one hand-over takes (longer than the interval)
	Batches    []int  `json:"batches"`     // number of keys becoming pending together
	Perm       []int  `json:"perm"`        // row order of the first batch
}

const keyLoopDrop = "C20:keys-dropped-when-publication-slower-than-polling-interval"

type slowRec struct {
	mu    sync.Mutex
	calls []handed
	slow  time.Duration
	addr  [20]byte
}

func (r *slowRec) add(h handed) {
	time.Sleep(r.slow) // the mechanism is slow; it accepts whatever it is offered
	r.mu.Lock()
	r.calls = append(r.calls, h)
	r.mu.Unlock()
}

func (r *slowRec) snapshot() []handed {
	r.mu.Lock()
	defer r.mu.Unlock()
	return append([]handed(nil), r.calls...)
}

type slowMessaging struct{ r *slowRec }

func (m *slowMessaging) Start(context.Context, service.Runner) error       { return nil }
func (m *slowMessaging) AddValidator(p2p.ValidatorFunc, ...p2pmsg.Message) {}
func (m *slowMessaging) AddMessageHandler(...p2p.MessageHandler)           {}
func (m *slowMessaging) SendMessage(_ context.Context, msg p2pmsg.Message, _ ...retry.Option) error {
	e, ok := msg.(*p2pmsg.EonPublicKey)
	if !ok {
		return nil
	}
	sok, err := p2pmsg.VerifySignature(e, m.r.addr)
	m.r.add(handed{Mech: "broadcast", Instance: e.InstanceId, Key: append([]byte(nil), e.PublicKey...),
		Act: e.ActivationBlock, Kci: e.KeyperConfigIndex, Eon: e.Eon, Accepted: true, SigOK: sok && err == nil})
	return nil
}

func runLoop(run *vh.Run, e *env, c loopCase) {
	id := run.NextID()
	violate := func(key, what string, observed, expected any) {
		run.Violate(vh.Violation{Key: key, What: what, Case: c, Observed: observed, Expected: expected})
	}
	e.srv.SetStore(e.empty)
	e.srv.SetRowOrder(nil)
	self := poolAddrs[0]
	cfg := &kprconfig.Config{InstanceID: 9,
		Ethereum: &configuration.EthnodeConfig{PrivateKey: &keys.ECDSAPrivate{Key: poolKeys[0]}}}
	rec := &slowRec{slow: time.Duration(c.SlowMs) * time.Millisecond, addr: ethcrypto.PubkeyToAddress(poolKeys[0].PublicKey)}
	var opts []keyper.Option
	if !c.Bcast {
		opts = append(opts, keyper.NoBroadcastEonPublicKey())
	}
	if c.Cb {
		opts = append(opts, keyper.WithEonPublicKeyHandler(func(_ context.Context, pk keyper.EonPublicKey) error {
			rec.add(handed{Mech: "callback", Key: append([]byte(nil), pk.PublicKey...), Act: pk.ActivationBlock,
				Kci: pk.KeyperConfigIndex, Eon: pk.Eon, Accepted: true})
			return nil
		}))
	}
	h, err := keyper.VerifNewEonPubKeyHandler(cfg, e.pool, &slowMessaging{r: rec}, opts...)
	if err != nil {
		run.Tie("VerifNewEonPubKeyHandler: " + err.Error())
		return
	}
	nmech := 0
	if c.Bcast {
		nmech++
	}
	if c.Cb {
		nmech++
	}
	// tables: one set with the keyper, one eon per key
	var obs []string
	step := func(cop, outc string) {
		obs = append(obs, "("+cop+", "+outc+", "+coqOutRows(e.outgoing())+")")
	}
	keypers := []string{poolAddrs[1], self}
	if err := e.q.InsertBatchConfig(e.ctx, database.InsertBatchConfigParams{KeyperConfigIndex: 3, Height: 1, Keypers: keypers, Threshold: 1, ActivationBlockNumber: 7}); err != nil {
		run.Tie("InsertBatchConfig: " + err.Error())
		return
	}
	step(vh.CApp("KCfg", vh.CZ(3), vh.CList([]string{coqAddr(keypers[0]), coqAddr(keypers[1])})), "(OIns true)")
	total := 0
	for _, n := range c.Batches {
		total += n
	}
	for k := 0; k < total; k++ {
		eon, act := int64(k+1), int64(100+10*k)
		if err := e.q.InsertEon(e.ctx, database.InsertEonParams{Eon: eon, Height: 1, ActivationBlockNumber: act, KeyperConfigIndex: 3}); err != nil {
			run.Tie("InsertEon: " + err.Error())
			return
		}
		step(vh.CApp("KEon", vh.CZ(eon), vh.CZ(act), vh.CZ(3)), "(OIns true)")
	}
	old := keyper.VerifSetEonPubkeyTickerTime(time.Duration(c.IntervalMs) * time.Millisecond)
	defer keyper.VerifSetEonPubkeyTickerTime(old)

	ctx, cancel := context.WithCancel(context.Background())
	done := make(chan struct{})
	started := false
	defer func() {
		cancel()
		if started {
			<-done
		}
	}()
	var expected []want // in the order in which the keys have to come out
	next := 0
	seen := 0
	for b, n := range c.Batches {
		perm := make([]int, n)
		for j := range perm {
			perm[j] = j
		}
		if b == 0 && len(c.Perm) == n {
			perm = c.Perm
		}
		// the keys of one batch become pending together
		var batch []want
		err := e.pool.BeginFunc(e.ctx, func(tx pgx.Tx) error {
			q := database.New(tx)
			for j := 0; j < n; j++ {
				k := next + j
				key := []byte{byte(0x40 + k)}
				if err := q.InsertEonPublicKey(e.ctx, database.InsertEonPublicKeyParams{EonPublicKey: key, Eon: int64(k + 1)}); err != nil {
					return err
				}
				batch = append(batch, want{Key: key, Act: uint64(100 + 10*k), Kci: 3, Eon: uint64(k + 1)})
			}
			return nil
		})
		if err != nil {
			run.Tie("InsertEonPublicKey: " + err.Error())
			return
		}
		ordered := make([]want, n)
		for j, p := range perm {
			ordered[j] = batch[p]
		}
		expected = append(expected, ordered...)
		next += n
		if b == 0 {
			p0 := perm
			e.srv.SetRowOrder(func(table string, k int) []int {
				if table == "outgoing_eon_keys" && k == len(p0) {
					return p0
				}
				idp := make([]int, k)
				for j := range idp {
					idp[j] = j
				}
				return idp
			})
			started = true
			go func() {
				defer close(done)
				vh.Guard(func() { _ = h.Loop(ctx) })
			}()
		}
		// wait until the batch is out, or for as long as a correct loop could possibly need
		budget := time.Duration(n*nmech*c.SlowMs+6*c.IntervalMs+20000) * time.Millisecond // generous: a loaded machine must not turn into a report
		deadline := time.Now().Add(budget)
		for time.Now().Before(deadline) && len(rec.snapshot()) < (seen+n)*nmech {
			time.Sleep(2 * time.Millisecond)
		}
		// a few more intervals: nothing else may come
		time.Sleep(time.Duration(3*c.IntervalMs) * time.Millisecond)
		if b == 0 {
			e.srv.SetRowOrder(nil)
		}
		calls := rec.snapshot()
		now := calls[min(seen*nmech, len(calls)):]
		// correspondence: the batch as generations followed by one tick in the given order
		for j := 0; j < n; j++ {
			w := batch[j]
			obs = append(obs, "("+vh.CApp("KGen", vh.CBytes(w.Key), vh.CZ(int64(w.Eon)))+", (OIns true), "+coqOutRowsWant(batch[:j+1])+")")
		}
		ps := make([]string, n)
		for j, p := range perm {
			ps[j] = vh.CNat(p)
		}
		obs = append(obs, "("+vh.CApp("KTick", vh.CList(ps), "[]")+", "+vh.CApp("OTick", coqCalls(now), "ENone")+", "+coqOutRows(e.outgoing())+")")
		seen += n
	}
	cancel()
	<-done
	started = false

	// ---- oracle ----------------------------------------------------------------------------
	calls := rec.snapshot()
	for _, m := range []string{"broadcast", "callback"} {
		if (m == "broadcast" && !c.Bcast) || (m == "callback" && !c.Cb) {
			continue
		}
		var got []want
		for _, cl := range calls {
			if cl.Mech == m {
				got = append(got, want{Key: cl.Key, Act: cl.Act, Kci: cl.Kci, Eon: cl.Eon})
				if m == "broadcast" && (!cl.SigOK || cl.Instance != 9) {
					violate("C20:bad-signature", "loop: broadcast message with a wrong instance id or signature", cl, nil)
				}
			}
		}
		gs, ws := fmt.Sprint(got), fmt.Sprint(expected)
		if gs == ws {
			continue
		}
		gotMS, wantMS := multiset(got), multiset(expected)
		missing, extra := 0, 0
		for k, n := range wantMS {
			if gotMS[k] < n {
				missing += n - gotMS[k]
			}
		}
		for k, n := range gotMS {
			if n > wantMS[k] {
				extra += n - wantMS[k]
			}
		}
		switch {
		case extra > 0:
			violate("C20:handed-twice", fmt.Sprintf("loop: %s was handed %d keys more than were generated (or keys that were not generated)", m, extra), got, expected)
		case missing > 0:
			violate(keyLoopDrop, fmt.Sprintf("loop with a %d ms polling interval and a mechanism that accepts every key after %d ms: %d of %d pending keys were never handed to %s although the loop ran on (they are no longer in outgoing_eon_keys: %d rows left)", c.IntervalMs, c.SlowMs, missing, len(expected), m, len(e.outgoing())), got, expected)
		default:
			violate("C20:loop-order", fmt.Sprintf("loop: %s was handed the keys of a batch in another order than the query delivered them", m), got, expected)
		}
	}
	run.Dist["loop:runs"]++
	run.Dist[fmt.Sprintf("loop:batches=%d", len(c.Batches))]++
	term := vh.CApp("CHist", vh.CN(id), vh.CApp("mkH", coqAddr(self), "9", vh.CBool(c.Bcast), vh.CBool(c.Cb)), vh.CList(obs))
	b, _ := json.Marshal(c)
	run.AddCase(id, term, c, string(b), true)
}

func coqOutRowsWant(ws []want) string {
	rs := make([]outRow, len(ws))
	for i, w := range ws {
		rs[i] = outRow{Key: w.Key, Eon: int64(w.Eon)}
	}
	return coqOutRows(rs)
}

func forcedLoops() []loopCase {
	return []loopCase{
		{Kind: "loop", Bcast: true, IntervalMs: 20, SlowMs: 30, Batches: []int{2}, Perm: []int{0, 1}},
		{Kind: "loop", Cb: true, IntervalMs: 20, SlowMs: 30, Batches: []int{3, 2}, Perm: []int{2, 0, 1}},
		{Kind: "loop", Bcast: true, Cb: true, IntervalMs: 20, SlowMs: 25, Batches: []int{2, 1, 2}, Perm: []int{1, 0}},
		{Kind: "loop", Cb: true, IntervalMs: 25, SlowMs: 5, Batches: []int{4, 1}, Perm: []int{3, 2, 1, 0}}, // a fast mechanism
	}
}

func randomLoop(r *vh.RNG) loopCase {
	c := loopCase{Kind: "loop", IntervalMs: 15 + r.Intn(15)}
	c.SlowMs = c.IntervalMs + 5 + r.Intn(15)
	switch r.Intn(5) {
	case 0, 1:
		c.Bcast = true
	case 2, 3:
		c.Cb = true
	default:
		c.Bcast, c.Cb = true, true
	}
	for b, nb := 0, 1+r.Intn(2); b < nb; b++ {
		c.Batches = append(c.Batches, 2+r.Intn(3))
	}
	c.Perm = r.Perm(c.Batches[0])
	return c
}

func loadLoopCorpus(path string) (loopCase, bool) {
	var w struct {
		Case loopCase `json:"case"`
	}
	b, err := os.ReadFile(path)
	if err != nil || json.Unmarshal(b, &w) != nil || w.Case.Kind != "loop" || len(w.Case.Batches) == 0 || w.Case.IntervalMs <= 0 {
		return loopCase{}, false
	}
	return w.Case, true
}
