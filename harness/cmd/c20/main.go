//go:build verif

// Driver for C20 (every generated eon key is handed to publication, even several per
// polling interval).
//
// The real keyper database statements (InsertBatchConfig, InsertEon, InsertEonPublicKey,
// GetAndDeleteEonPublicKeys) and the real eonPubKeyHandler.queryAndHandleNewEonPubKeys (through
// keyper.VerifNewEonPubKeyHandler) run against pgfake.  The publication mechanisms are a
// recording p2p.Messaging and a recording EonPublicKeyHandlerFunc whose answers (accept /
// error) are scripted by the case.
//
// The property oracle is written from the property text and keeps its own books: what was
// recorded as generated for which eon, what each eon's activation block and keyper set are,
// and what each mechanism was handed.
package main

import (
	"context"
	"crypto/ecdsa"
	"crypto/sha256"
	"encoding/json"
	"errors"
	"fmt"
	"math"
	"os"
	"sort"
	"strings"

	"github.com/ethereum/go-ethereum/common"
	ethcrypto "github.com/ethereum/go-ethereum/crypto"
	"github.com/jackc/pgconn"
	"github.com/jackc/pgx/v4/pgxpool"

	"github.com/shutter-network/rolling-shutter/rolling-shutter/keyper"
	"github.com/shutter-network/rolling-shutter/rolling-shutter/keyper/database"
	"github.com/shutter-network/rolling-shutter/rolling-shutter/keyper/kprconfig"
	"github.com/shutter-network/rolling-shutter/rolling-shutter/medley/configuration"
	"github.com/shutter-network/rolling-shutter/rolling-shutter/medley/encodeable/keys"
	"github.com/shutter-network/rolling-shutter/rolling-shutter/medley/retry"
	"github.com/shutter-network/rolling-shutter/rolling-shutter/medley/service"
	"github.com/shutter-network/rolling-shutter/rolling-shutter/p2p"
	"github.com/shutter-network/rolling-shutter/rolling-shutter/p2pmsg"
	"github.com/shutter-network/rolling-shutter/rolling-shutter/shdb"

	"verifharness/dkgrig"
	"verifharness/pgfake"
	"verifharness/vh"
)

// ---------------------------------------------------------------------------------------
// cases

type opJ struct {
	Kind    string   `json:"kind"` // cfg | eon | gen | tick | tickfail
	Kci     int64    `json:"kci,omitempty"`
	Keypers []string `json:"keypers,omitempty"`
	CfgAct  int64    `json:"cfg_act,omitempty"` // activation block of the keyper set (not the eon's)
	Eon     int64    `json:"eon,omitempty"`
	Act     int64    `json:"act,omitempty"`
	Key     []byte   `json:"key,omitempty"`
	Perm    []int    `json:"perm,omitempty"`    // row order of the poll (nil: insertion order)
	Answers []bool   `json:"answers,omitempty"` // per call: true = the mechanism accepts
}

type histCase struct {
	Kind     string `json:"kind"`
	Class    string `json:"class"`
	Self     int    `json:"self"` // index into the address pool
	Instance uint64 `json:"instance"`
	Bcast    bool   `json:"bcast"`
	Cb       bool   `json:"cb"`
	Ops      []opJ  `json:"ops"`
}

// ---------------------------------------------------------------------------------------
// fixed universe of keyper identities (independent of the seed, so that replays are stable)

const nPool = 8

var (
	poolKeys  []*ecdsa.PrivateKey
	poolAddrs []string // shdb.EncodeAddress of the key's address
	// a string that is no member's encoding: differs from pool[0] in the last digit
	nearMiss string
)

func initPool() {
	for i := 0; i < nPool; i++ {
		h := sha256.Sum256([]byte(fmt.Sprintf("verif-c20-identity-%d", i)))
		k, err := ethcrypto.ToECDSA(h[:])
		if err != nil {
			panic(err)
		}
		poolKeys = append(poolKeys, k)
		poolAddrs = append(poolAddrs, shdb.EncodeAddress(ethcrypto.PubkeyToAddress(k.PublicKey)))
	}
	b := []byte(poolAddrs[0])
	if b[len(b)-1] == '0' {
		b[len(b)-1] = '1'
	} else {
		b[len(b)-1] = '0'
	}
	nearMiss = string(b)
}

func coqAddr(a string) string {
	for i, p := range poolAddrs {
		if a == p {
			return fmt.Sprintf("A%d", i)
		}
	}
	if a == nearMiss {
		return "ANear"
	}
	return vh.CStr(a)
}

func preamble() string {
	var sb strings.Builder
	sb.WriteString("From Verif Require Import Model.EonPK.\nOpen Scope Z_scope.\n")
	for i, p := range poolAddrs {
		fmt.Fprintf(&sb, "Definition A%d : bytes := %s.\n", i, vh.CStr(p))
	}
	fmt.Fprintf(&sb, "Definition ANear : bytes := %s.\n", vh.CStr(nearMiss))
	return sb.String()
}

// ---------------------------------------------------------------------------------------
// recording mechanisms

type handed struct {
	Mech     string `json:"mech"` // broadcast | callback
	Instance uint64 `json:"instance,omitempty"`
	Key      []byte `json:"key"`
	Act      uint64 `json:"act"`
	Kci      uint64 `json:"kci"`
	Eon      uint64 `json:"eon"`
	Accepted bool   `json:"accepted"`
	SigOK    bool   `json:"sig_ok,omitempty"`
}

type recorder struct {
	answers []bool
	calls   []handed
	other   []string // messages of an unexpected type
}

func (r *recorder) answer() bool {
	if len(r.answers) == 0 {
		return true
	}
	a := r.answers[0]
	r.answers = r.answers[1:]
	return a
}

var errRefused = errors.New("verif: the publication mechanism refuses")

// recMessaging implements p2p.Messaging.
type recMessaging struct {
	rec  *recorder
	addr common.Address // the keyper's address: every message must be signed by it
}

func (m *recMessaging) Start(context.Context, service.Runner) error       { return nil }
func (m *recMessaging) AddValidator(p2p.ValidatorFunc, ...p2pmsg.Message) {}
func (m *recMessaging) AddMessageHandler(...p2p.MessageHandler)           {}
func (m *recMessaging) SendMessage(_ context.Context, msg p2pmsg.Message, _ ...retry.Option) error {
	e, ok := msg.(*p2pmsg.EonPublicKey)
	if !ok {
		m.rec.other = append(m.rec.other, fmt.Sprintf("%T", msg))
		return nil
	}
	a := m.rec.answer()
	ok, err := p2pmsg.VerifySignature(e, m.addr)
	sigOK := ok && err == nil
	m.rec.calls = append(m.rec.calls, handed{Mech: "broadcast", Instance: e.InstanceId, Key: append([]byte(nil), e.PublicKey...),
		Act: e.ActivationBlock, Kci: e.KeyperConfigIndex, Eon: e.Eon, Accepted: a, SigOK: sigOK})
	if !a {
		return errRefused
	}
	return nil
}

func (r *recorder) callback(_ context.Context, pk keyper.EonPublicKey) error {
	a := r.answer()
	r.calls = append(r.calls, handed{Mech: "callback", Key: append([]byte(nil), pk.PublicKey...),
		Act: pk.ActivationBlock, Kci: pk.KeyperConfigIndex, Eon: pk.Eon, Accepted: a})
	if !a {
		return errRefused
	}
	return nil
}

// ---------------------------------------------------------------------------------------
// environment

type env struct {
	srv   *pgfake.Server
	pool  *pgxpool.Pool
	q     *database.Queries
	empty *pgfake.Store
	ctx   context.Context
}

func newEnv(repo string) *env {
	ctx := context.Background()
	srv, err := pgfake.Start(pgfake.Options{RepoRoot: repo})
	if err != nil {
		panic(err)
	}
	pool, err := srv.Pool(ctx)
	if err != nil {
		panic(err)
	}
	return &env{srv: srv, pool: pool, q: database.New(pool), empty: srv.Store().Snapshot(), ctx: ctx}
}

func isDup(err error) bool {
	var pe *pgconn.PgError
	return errors.As(err, &pe) && pe.Code == "23505"
}

func classify(err error) string {
	if err == nil {
		return "none"
	}
	s := err.Error()
	switch {
	case strings.Contains(s, "own keyper index not found"):
		return "notmember"
	case strings.Contains(s, "failed safe int cast"):
		return "cast"
	case strings.Contains(s, "failed to broadcast eon public key"):
		return "broadcast"
	case strings.Contains(s, "failed to handle eon public key"):
		return "callback"
	}
	var pe *pgconn.PgError
	if errors.As(err, &pe) {
		return "query"
	}
	return "other: " + s
}

func coqErr(class string) string {
	switch class {
	case "none":
		return "ENone"
	case "notmember":
		return "ENotMember"
	case "cast":
		return "ECast"
	case "broadcast":
		return "EBroadcast"
	case "callback":
		return "ECallback"
	}
	return "EUnknown"
}

type outRow struct {
	Key []byte `json:"key"`
	Eon int64  `json:"eon"`
}

func (e *env) outgoing() []outRow {
	var out []outRow
	for _, r := range e.srv.Store().Table("outgoing_eon_keys").Rows() {
		k, _ := r["eon_public_key"].([]byte)
		out = append(out, outRow{Key: k, Eon: r["eon"].(int64)})
	}
	return out
}

func coqOutRows(rs []outRow) string {
	xs := make([]string, len(rs))
	for i, r := range rs {
		xs[i] = vh.CApp("mkOut", vh.CBytes(r.Key), vh.CZ(r.Eon))
	}
	return vh.CList(xs)
}

func coqU(x uint64) string {
	if x > math.MaxInt64 {
		return fmt.Sprintf("(%d)%%Z", x)
	}
	return vh.CZ(int64(x))
}

func coqCalls(cs []handed) string {
	xs := make([]string, len(cs))
	for i, c := range cs {
		pk := vh.CApp("mkPK", vh.CBytes(c.Key), coqU(c.Act), coqU(c.Kci), coqU(c.Eon))
		var call string
		if c.Mech == "broadcast" {
			call = vh.CApp("CBroadcast", coqU(c.Instance), pk)
		} else {
			call = vh.CApp("CCallback", pk)
		}
		xs[i] = vh.CPair(call, vh.CBool(c.Accepted))
	}
	return vh.CList(xs)
}

// ---------------------------------------------------------------------------------------
// the property oracle's books

type want struct {
	Key []byte `json:"key"`
	Act uint64 `json:"act"`
	Kci uint64 `json:"kci"`
	Eon uint64 `json:"eon"`
}

func (w want) String() string { return fmt.Sprintf("%x/%d/%d/%d", w.Key, w.Act, w.Kci, w.Eon) }

type eonInfo struct{ act, kci int64 }

type books struct {
	self    string
	sets    map[int64][]string // keyper set by index (first successful insert)
	eons    map[int64]eonInfo
	due     []want   // successful key generations of sets the keyper belongs to, not yet polled
	foreign []outRow // recorded rows that are no such generation (foreign set, unknown eon, ...)
}

func member(self string, set []string) bool {
	for _, a := range set {
		if a == self {
			return true
		}
	}
	return false
}

// recordGen books a successful InsertEonPublicKey.
func (b *books) recordGen(key []byte, eon int64) {
	ei, ok := b.eons[eon]
	if ok {
		set, ok2 := b.sets[ei.kci]
		if ok2 && member(b.self, set) && eon >= 0 && ei.act >= 0 && ei.kci >= 0 {
			b.due = append(b.due, want{Key: key, Act: uint64(ei.act), Kci: uint64(ei.kci), Eon: uint64(eon)})
			return
		}
	}
	b.foreign = append(b.foreign, outRow{Key: key, Eon: eon})
}

func multiset(ws []want) map[string]int {
	m := map[string]int{}
	for _, w := range ws {
		m[w.String()]++
	}
	return m
}

// ---------------------------------------------------------------------------------------
// running one history

const (
	keyD13      = "C20:several-keys-in-one-tick-only-first-published"
	keyBothMode = "C20:callback-skipped-when-broadcast-enabled"
)

func runHist(run *vh.Run, e *env, c histCase) {
	id := run.NextID()
	e.srv.SetStore(e.empty)
	self := poolAddrs[c.Self]
	cfg := &kprconfig.Config{
		InstanceID: c.Instance,
		Ethereum:   &configuration.EthnodeConfig{PrivateKey: &keys.ECDSAPrivate{Key: poolKeys[c.Self]}},
	}
	rec := &recorder{}
	var opts []keyper.Option
	if !c.Bcast {
		opts = append(opts, keyper.NoBroadcastEonPublicKey())
	}
	if c.Cb {
		opts = append(opts, keyper.WithEonPublicKeyHandler(rec.callback))
	}
	h, err := keyper.VerifNewEonPubKeyHandler(cfg, e.pool, &recMessaging{rec: rec, addr: ethcrypto.PubkeyToAddress(poolKeys[c.Self].PublicKey)}, opts...)
	if err != nil {
		// neither mechanism: validateOptions refuses to build such a keyper
		if !c.Bcast && !c.Cb {
			run.Dist["constructor:refused-without-mechanism"]++
			run.CountOnly(fmt.Sprint(c), false)
			return
		}
		run.Tie("VerifNewEonPubKeyHandler failed: " + err.Error())
		return
	}
	if !c.Bcast && !c.Cb {
		run.Violate(vh.Violation{Key: "C20:keyper-without-publication-mechanism", What: "a keyper with neither broadcast nor callback was accepted by validateOptions", Case: c})
		return
	}
	violate := func(key, what string, observed, expected any) {
		run.Violate(vh.Violation{Key: key, What: what, Case: c, Observed: observed, Expected: expected})
	}

	bk := &books{self: self, sets: map[int64][]string{}, eons: map[int64]eonInfo{}}
	var obs []string
	maxBatch, ticks := 0, 0
	for i, o := range c.Ops {
		var cop, outc string
		switch o.Kind {
		case "cfg":
			err := e.q.InsertBatchConfig(e.ctx, database.InsertBatchConfigParams{KeyperConfigIndex: int32(o.Kci), Height: 1,
				Keypers: o.Keypers, Threshold: 1, Started: false, ActivationBlockNumber: o.CfgAct})
			if err != nil && !isDup(err) {
				run.Tie(fmt.Sprintf("InsertBatchConfig: unexpected error %v", err))
				return
			}
			if err == nil {
				bk.sets[o.Kci] = o.Keypers
			}
			ks := make([]string, len(o.Keypers))
			for j, a := range o.Keypers {
				ks[j] = coqAddr(a)
			}
			cop = vh.CApp("KCfg", vh.CZ(o.Kci), vh.CList(ks))
			outc = vh.CApp("OIns", vh.CBool(err == nil))
		case "eon":
			err := e.q.InsertEon(e.ctx, database.InsertEonParams{Eon: o.Eon, Height: 1, ActivationBlockNumber: o.Act, KeyperConfigIndex: o.Kci})
			if err != nil && !isDup(err) {
				run.Tie(fmt.Sprintf("InsertEon: unexpected error %v", err))
				return
			}
			if err == nil {
				bk.eons[o.Eon] = eonInfo{act: o.Act, kci: o.Kci}
			}
			cop = vh.CApp("KEon", vh.CZ(o.Eon), vh.CZ(o.Act), vh.CZ(o.Kci))
			outc = vh.CApp("OIns", vh.CBool(err == nil))
		case "gen":
			err := e.q.InsertEonPublicKey(e.ctx, database.InsertEonPublicKeyParams{EonPublicKey: o.Key, Eon: o.Eon})
			if err != nil && !isDup(err) {
				run.Tie(fmt.Sprintf("InsertEonPublicKey: unexpected error %v", err))
				return
			}
			if err == nil {
				bk.recordGen(o.Key, o.Eon)
			}
			cop = vh.CApp("KGen", vh.CBytes(o.Key), vh.CZ(o.Eon))
			outc = vh.CApp("OIns", vh.CBool(err == nil))
		case "tickfail":
			e.srv.FailNext("keyper/database.GetAndDeleteEonPublicKeys", "57014", 0)
			rec.answers, rec.calls = nil, nil
			var terr error
			if p, msg := vh.Guard(func() { terr = h.QueryAndHandleNewEonPubKeys(e.ctx) }); p {
				violate("C20:panic", "queryAndHandleNewEonPubKeys panicked: "+msg, nil, nil)
				return
			}
			if cl := classify(terr); cl != "query" {
				violate("C20:query-failure-silent", fmt.Sprintf("the query failed but the tick returned error class %q", cl), cl, "query")
			}
			if len(rec.calls) != 0 {
				violate("C20:handed-without-query", "a mechanism was called although the query failed", rec.calls, nil)
			}
			cop, outc = "KTickFails", "OQueryFailed"
			run.Dist["tick:query-failed"]++
		case "tick":
			before := e.outgoing()
			n := len(before)
			perm := o.Perm
			if len(perm) != n {
				perm = make([]int, n)
				for j := range perm {
					perm[j] = j
				}
			}
			e.srv.SetRowOrder(func(table string, k int) []int {
				if table == "outgoing_eon_keys" && k == len(perm) {
					return perm
				}
				id := make([]int, k)
				for j := range id {
					id[j] = j
				}
				return id
			})
			rec.answers, rec.calls = append([]bool(nil), o.Answers...), nil
			var terr error
			if p, msg := vh.Guard(func() { terr = h.QueryAndHandleNewEonPubKeys(e.ctx) }); p {
				violate("C20:panic", "queryAndHandleNewEonPubKeys panicked: "+msg, nil, nil)
				return
			}
			e.srv.SetRowOrder(nil)
			class := classify(terr)
			if strings.HasPrefix(class, "other") || class == "query" {
				run.Tie(fmt.Sprintf("tick %d: unclassified error: %v", i, terr))
				return
			}
			calls := rec.calls
			ticks++
			if n > maxBatch {
				maxBatch = n
			}
			oracleTick(run, c, bk, i, n, calls, class, violate)
			ps := make([]string, len(perm))
			for j, p := range perm {
				ps[j] = vh.CNat(p)
			}
			as := make([]string, len(o.Answers))
			for j, a := range o.Answers {
				as[j] = vh.CBool(a)
			}
			cop = vh.CApp("KTick", vh.CList(ps), vh.CList(as))
			outc = vh.CApp("OTick", coqCalls(calls), coqErr(class))
			run.Dist[fmt.Sprintf("tick:pending=%d", min(n, 5))]++
			run.Dist["tick:error="+class]++
		default:
			panic("unknown op kind " + o.Kind)
		}
		obs = append(obs, "("+cop+", "+outc+", "+coqOutRows(e.outgoing())+")")
	}
	if len(rec.other) > 0 {
		run.Tie("Messaging was handed a message of another type: " + strings.Join(rec.other, ","))
	}
	mode := "callback"
	if c.Bcast && c.Cb {
		mode = "both"
	} else if c.Bcast {
		mode = "broadcast"
	}
	run.Dist["mode:"+mode]++
	run.Dist["class:"+c.Class]++
	run.Dist[fmt.Sprintf("ticks=%d", min(ticks, 8))]++
	term := vh.CApp("CHist", vh.CN(id),
		vh.CApp("mkH", coqAddr(self), coqU(c.Instance), vh.CBool(c.Bcast), vh.CBool(c.Cb)),
		vh.CList(obs))
	b, _ := json.Marshal(c)
	run.AddCase(id, term, c, string(b), maxBatch >= 2)
}

// oracleTick is the property, read on one polling tick: every successful key generation of a
// set the keyper belongs to, recorded since the previous poll, is handed to every configured
// mechanism exactly once with the right four fields, provided the mechanism accepts; nothing
// else is ever handed; a refusal is not silent.
func oracleTick(run *vh.Run, c histCase, bk *books, opIdx, pending int, calls []handed, class string,
	violate func(key, what string, observed, expected any)) {
	due, foreign := bk.due, bk.foreign
	bk.due, bk.foreign = nil, nil // the poll deleted every row, whatever happened to it
	wantMS := multiset(due)
	refused := false
	perMech := map[string][]want{}
	for _, cl := range calls {
		w := want{Key: cl.Key, Act: cl.Act, Kci: cl.Kci, Eon: cl.Eon}
		if !cl.Accepted {
			refused = true
		}
		if cl.Mech == "broadcast" {
			if cl.Instance != c.Instance {
				violate("C20:wrong-instance-id", fmt.Sprintf("op %d: broadcast message carries instance id %d, configured %d", opIdx, cl.Instance, c.Instance), cl, nil)
			}
			if !cl.SigOK {
				violate("C20:bad-signature", fmt.Sprintf("op %d: broadcast message is not signed by the keyper", opIdx), cl, nil)
			}
		}
		if (cl.Mech == "broadcast" && !c.Bcast) || (cl.Mech == "callback" && !c.Cb) {
			violate("C20:unconfigured-mechanism-called", fmt.Sprintf("op %d: %s called although it is not configured", opIdx, cl.Mech), cl, nil)
		}
		if wantMS[w.String()] == 0 {
			key, what := "C20:handed-something-not-generated", "a key that was not generated was handed over"
			for _, f := range foreign {
				if string(f.Key) == string(cl.Key) && f.Eon >= 0 && uint64(f.Eon) == cl.Eon {
					key, what = "C20:key-of-foreign-set-handed", "a key of an eon whose keyper set the keyper is not in (or that it does not know) was handed over"
				}
			}
			for _, d := range due {
				if string(d.Key) == string(cl.Key) && d.Eon == cl.Eon {
					key, what = "C20:wrong-fields", "a generated key was handed over with wrong activation block / keyper-set index"
				}
			}
			violate(key, fmt.Sprintf("op %d: %s (%s)", opIdx, what, cl.Mech), cl, due)
		}
		perMech[cl.Mech] = append(perMech[cl.Mech], w)
	}
	for m, ws := range perMech {
		for k, n := range multiset(ws) {
			if n > wantMS[k] && wantMS[k] > 0 {
				violate("C20:handed-twice", fmt.Sprintf("op %d: %s was handed %s %d times, generated %d times", opIdx, m, k, n, wantMS[k]), calls, due)
			}
		}
	}
	if refused != (class == "broadcast" || class == "callback") {
		violate("C20:refusal-silent", fmt.Sprintf("op %d: a mechanism refused=%v but the tick returned error class %q", opIdx, refused, class), calls, nil)
	}
	if len(foreign) > 0 {
		// rows no keyper records (foreign set, unknown eon, negative numbers): the loop's
		// defensive checks decide; the property only demands that nothing of them is published
		run.Dist["tick:with-foreign-rows"]++
		// ... and that a key of the keyper's own sets that is dropped with them is not
		// dropped silently
		if class == "none" {
			for _, m := range []string{"broadcast", "callback"} {
				if ((m == "broadcast" && c.Bcast) || (m == "callback" && c.Cb)) && len(perMech[m]) < len(due) {
					violate("C20:key-dropped-silently", fmt.Sprintf("op %d: %d key generations of the keyper's sets were pending next to rows of other kinds, %s was handed %d and the tick returned no error", opIdx, len(due), m, len(perMech[m])), calls, due)
				}
			}
		}
		return
	}
	if refused {
		// refused keys are exempt; keys behind the refused one in the batch were deleted by
		// the query and are not handed any more (C20_failure_is_not_silent_partial states it)
		lost := 0
		for _, ws := range perMech {
			if len(ws) < len(due) {
				lost += len(due) - len(ws)
			}
		}
		if lost > 0 {
			run.Dist["tick:keys-lost-behind-a-refused-key"] += lost
		}
		return
	}
	// every configured mechanism accepts: handed multiset == generated multiset, no error
	mechs := []string{}
	if c.Bcast {
		mechs = append(mechs, "broadcast")
	}
	if c.Cb {
		mechs = append(mechs, "callback")
	}
	for _, m := range mechs {
		got := multiset(perMech[m])
		same := len(got) == len(wantMS)
		for k, n := range wantMS {
			if got[k] != n {
				same = false
			}
		}
		if same {
			continue
		}
		key := "C20:key-not-handed"
		what := fmt.Sprintf("op %d: %d key generations were pending, %s was handed %d", opIdx, len(due), m, len(perMech[m]))
		switch {
		case m == "callback" && c.Bcast && len(perMech[m]) == 0 && len(perMech["broadcast"]) > 0:
			key = keyBothMode
			what += " (the callback is never reached when broadcasting is enabled)"
		case len(due) >= 2 && len(perMech[m]) == 1 && class == "none":
			key = keyD13
			what += " (the loop returned nil after the first key; the others were already deleted)"
		}
		violate(key, what, calls, due)
	}
	if class != "none" {
		violate("C20:error-without-refusal", fmt.Sprintf("op %d: every mechanism accepted but the tick returned error class %q", opIdx, class), calls, due)
	}
}

// ---------------------------------------------------------------------------------------
// generators

func permOf(r *vh.RNG, n int) []int {
	switch r.Intn(4) {
	case 0:
		p := make([]int, n)
		for i := range p {
			p[i] = i
		}
		return p
	case 1:
		p := make([]int, n)
		for i := range p {
			p[i] = n - 1 - i
		}
		return p
	}
	return r.Perm(n)
}

// genHist builds a history of the given class:
//
//	reachable: keys are generated only for eons of sets the keyper belongs to (other sets and
//	           their eons exist); every mechanism accepts
//	refusing:  as reachable, the mechanisms refuse some calls
//	foreign:   rows no keyper records are mixed in: eons of sets the keyper is not in, unknown
//	           eons, eons without set, negative numbers, refused duplicate inserts
func genHist(r *vh.RNG, class string, thorough bool) histCase {
	c := histCase{Kind: "hist", Class: class, Self: r.Intn(3), Instance: uint64(r.Intn(3)) * 21}
	switch r.Intn(5) {
	case 0, 1:
		c.Bcast = true
	case 2, 3:
		c.Cb = true
	default:
		c.Bcast, c.Cb = true, true
	}
	self := poolAddrs[c.Self]
	type setT struct {
		kci    int64
		member bool
	}
	type eonT struct {
		eon    int64
		member bool
		good   bool
	}
	var sets []setT
	var eonsL []eonT
	nextKci, nextEon := int64(r.Intn(2)), int64(r.Intn(3))
	pendingEons := map[int64]bool{}
	addSet := func(member bool) {
		var ks []string
		n := 1 + r.Intn(3)
		for len(ks) < n {
			a := poolAddrs[r.Intn(nPool)]
			if a == self {
				continue
			}
			ks = append(ks, a)
		}
		if member {
			ks[r.Intn(len(ks))] = self
			if r.Chance(1, 3) {
				ks = append(ks, poolAddrs[3+r.Intn(nPool-3)])
			}
		} else if r.Chance(1, 3) && c.Self == 0 {
			ks = append(ks, nearMiss)
		}
		kci := nextKci
		nextKci += 1 + int64(r.Intn(2))
		if class == "foreign" && r.Chance(1, 12) {
			kci = -1 - int64(r.Intn(3))
		}
		c.Ops = append(c.Ops, opJ{Kind: "cfg", Kci: kci, Keypers: ks, CfgAct: int64(1000 + r.Intn(50))})
		sets = append(sets, setT{kci, member})
	}
	addEon := func() {
		if len(sets) == 0 {
			return
		}
		s := sets[r.Intn(len(sets))]
		eon := nextEon
		nextEon += 1 + int64(r.Intn(2))
		act := int64(r.Intn(200))
		if r.Chance(1, 20) {
			act = math.MaxInt64 - int64(r.Intn(2))
		}
		if r.Chance(1, 25) {
			eon = math.MaxInt64 - int64(len(eonsL))
		}
		good := s.kci >= 0
		kci := s.kci
		if class == "foreign" {
			switch r.Intn(14) {
			case 0:
				act, good = -1-int64(r.Intn(5)), false
			case 1:
				eon, good = -1-int64(len(eonsL)), false
			case 2:
				kci, good = 40+int64(r.Intn(3)), false // no such set
			case 3:
				kci, good = int64(math.MaxInt32)+1+int64(r.Intn(2)), false // beyond the integer column
			}
		}
		c.Ops = append(c.Ops, opJ{Kind: "eon", Eon: eon, Act: act, Kci: kci})
		eonsL = append(eonsL, eonT{eon, s.member, good})
	}
	genKey := func() {
		var cand []eonT
		for _, e := range eonsL {
			if (e.member && e.good && !pendingEons[e.eon]) || class == "foreign" {
				cand = append(cand, e)
			}
		}
		if class == "foreign" && r.Chance(1, 10) {
			cand = append(cand, eonT{eon: 900 + int64(r.Intn(3))}) // unknown eon
		}
		if len(cand) == 0 {
			return
		}
		e := cand[r.Intn(len(cand))]
		key := r.Bytes(1 + r.Intn(3))
		if r.Chance(1, 6) {
			key = []byte{0xaa} // the same bytes for several eons
		}
		c.Ops = append(c.Ops, opJ{Kind: "gen", Key: key, Eon: e.eon})
		pendingEons[e.eon] = true
	}
	tick := func() {
		n := len(pendingEons) // an upper bound is enough: the driver re-reads the table
		o := opJ{Kind: "tick", Perm: permOf(r, n)}
		if class == "refusing" {
			m := r.Intn(2*n + 2)
			for i := 0; i < m; i++ {
				o.Answers = append(o.Answers, !r.Chance(1, 3))
			}
		} else if r.Chance(1, 2) {
			for i := 0; i < 2*n; i++ {
				o.Answers = append(o.Answers, true)
			}
		}
		c.Ops = append(c.Ops, o)
		pendingEons = map[int64]bool{}
	}
	// at least one set the keyper is in
	addSet(true)
	for i, n := 0, r.Intn(3); i < n; i++ {
		addSet(r.Chance(1, 2))
	}
	for i, n := 0, 1+r.Intn(4); i < n; i++ {
		addEon()
	}
	nt := 2 + r.Intn(4)
	if thorough {
		nt += r.Intn(4)
	}
	for t := 0; t < nt; t++ {
		k := r.Intn(5) // 0..4 key generations before this tick
		for j := 0; j < k; j++ {
			if r.Chance(1, 4) {
				addEon()
			}
			if r.Chance(1, 10) {
				addSet(r.Chance(1, 2))
			}
			genKey()
		}
		if class == "foreign" && r.Chance(1, 8) && len(c.Ops) > 0 {
			// a refused duplicate insert
			c.Ops = append(c.Ops, c.Ops[r.Intn(len(c.Ops))])
			if c.Ops[len(c.Ops)-1].Kind == "tick" || c.Ops[len(c.Ops)-1].Kind == "tickfail" {
				c.Ops = c.Ops[:len(c.Ops)-1]
			}
		}
		if r.Chance(1, 15) {
			c.Ops = append(c.Ops, opJ{Kind: "tickfail"})
		}
		tick()
	}
	return c
}

// forced builds the boundary histories: k keys of one or two member sets finishing before one
// tick, in every mode, polled in insertion and in reverse order.
func forced() []histCase {
	var out []histCase
	for mode := 0; mode < 3; mode++ {
		for k := 0; k <= 4; k++ {
			for rev := 0; rev < 2; rev++ {
				if rev == 1 && k < 2 {
					continue
				}
				c := histCase{Kind: "hist", Class: "reachable", Self: 0, Instance: 42, Bcast: mode != 1, Cb: mode != 0}
				c.Ops = append(c.Ops,
					opJ{Kind: "cfg", Kci: 0, Keypers: []string{poolAddrs[1], poolAddrs[0], poolAddrs[2]}, CfgAct: 1000},
					opJ{Kind: "cfg", Kci: 1, Keypers: []string{poolAddrs[0], poolAddrs[3]}, CfgAct: 2000},
					opJ{Kind: "cfg", Kci: 2, Keypers: []string{poolAddrs[4], poolAddrs[3]}, CfgAct: 3000})
				for j := 0; j < k; j++ {
					c.Ops = append(c.Ops, opJ{Kind: "eon", Eon: int64(j + 1), Act: int64(100 * (j + 1)), Kci: int64(j % 2)})
				}
				c.Ops = append(c.Ops, opJ{Kind: "eon", Eon: 9, Act: 900, Kci: 2}) // an eon of a set the keyper is not in
				for j := 0; j < k; j++ {
					c.Ops = append(c.Ops, opJ{Kind: "gen", Key: []byte{byte(0x10 + j)}, Eon: int64(j + 1)})
				}
				p := make([]int, k)
				for j := range p {
					p[j] = j
					if rev == 1 {
						p[j] = k - 1 - j
					}
				}
				c.Ops = append(c.Ops, opJ{Kind: "tick", Perm: p}, opJ{Kind: "tick"})
				out = append(out, c)
			}
		}
	}
	// a key of an eon of a set the keyper is not in, of an unknown eon, of an eon with a
	// negative activation block, next to a key of the keyper's own set, in both orders
	for mode := 0; mode < 3; mode++ {
		for kind := 0; kind < 3; kind++ {
			for rev := 0; rev < 2; rev++ {
				c := histCase{Kind: "hist", Class: "foreign", Self: 0, Instance: 42, Bcast: mode != 1, Cb: mode != 0}
				c.Ops = append(c.Ops,
					opJ{Kind: "cfg", Kci: 0, Keypers: []string{poolAddrs[1], poolAddrs[0]}, CfgAct: 1000},
					opJ{Kind: "cfg", Kci: 2, Keypers: []string{poolAddrs[4], nearMiss}, CfgAct: 3000},
					opJ{Kind: "eon", Eon: 1, Act: 100, Kci: 0},
					opJ{Kind: "eon", Eon: 9, Act: 900, Kci: 2},
					opJ{Kind: "eon", Eon: 8, Act: -5, Kci: 0},
					opJ{Kind: "gen", Key: []byte{0x10}, Eon: 1},
					opJ{Kind: "gen", Key: []byte{0x66}, Eon: []int64{9, 77, 8}[kind]},
					opJ{Kind: "tick", Perm: []int{rev, 1 - rev}}, opJ{Kind: "tick"})
				out = append(out, c)
			}
		}
	}
	// three keys in one tick, the p-th call refused
	for mode := 0; mode < 3; mode++ {
		for p := 0; p < 4; p++ {
			c := histCase{Kind: "hist", Class: "refusing", Self: 2, Instance: 5, Bcast: mode != 1, Cb: mode != 0}
			c.Ops = append(c.Ops, opJ{Kind: "cfg", Kci: 1, Keypers: []string{poolAddrs[2], poolAddrs[5]}, CfgAct: 10})
			for j := 1; j <= 3; j++ {
				c.Ops = append(c.Ops, opJ{Kind: "eon", Eon: int64(j), Act: int64(10 * j), Kci: 1})
			}
			for j := 1; j <= 3; j++ {
				c.Ops = append(c.Ops, opJ{Kind: "gen", Key: []byte{byte(j)}, Eon: int64(j)})
			}
			ans := []bool{true, true, true, true}
			ans[p] = false
			c.Ops = append(c.Ops, opJ{Kind: "tick", Perm: []int{2, 0, 1}, Answers: ans}, opJ{Kind: "tick"})
			out = append(out, c)
		}
	}
	// the same eon finishing again after its key was polled: handed once per generation
	out = append(out, histCase{Kind: "hist", Class: "reachable", Self: 1, Instance: 7, Cb: true, Ops: []opJ{
		{Kind: "cfg", Kci: 3, Keypers: []string{poolAddrs[1]}, CfgAct: 5},
		{Kind: "eon", Eon: 4, Act: 77, Kci: 3},
		{Kind: "gen", Key: []byte{1, 2}, Eon: 4}, {Kind: "tick"},
		{Kind: "gen", Key: []byte{1, 2}, Eon: 4}, {Kind: "gen", Key: []byte{3}, Eon: 4}, {Kind: "tick"},
	}})
	// no mechanism at all is refused when the keyper is built
	out = append(out, histCase{Kind: "hist", Class: "reachable", Self: 0, Instance: 1})
	return out
}

func loadCorpus(path string) (histCase, error) {
	var w struct {
		Case json.RawMessage `json:"case"`
	}
	var c histCase
	b, err := os.ReadFile(path)
	if err != nil {
		return c, err
	}
	if err := json.Unmarshal(b, &w); err != nil {
		return c, err
	}
	if err := json.Unmarshal(w.Case, &c); err != nil {
		return c, err
	}
	if c.Kind != "hist" || c.Self < 0 || c.Self >= nPool {
		return c, fmt.Errorf("%s: not a C20 history", path)
	}
	return c, nil
}

func main() {
	run := vh.Start("Verif.Corr.C20", 250)
	defer run.Finish()
	initPool()
	servers, err := dkgrig.NewServers(run.Repo, 3)
	if err != nil {
		panic(err)
	}
	defer servers.Close()
	if err := initRigAddrs(servers); err != nil {
		panic(err)
	}
	run.SetPreamble(preamble() + rigPreamble())
	run.Rule = "histories against a fresh pgfake database: keyper sets (the keyper in or out), eons, 0..4 successful key generations before each of 2..9 polling ticks (rows delivered in insertion, reverse or random order), modes broadcast / callback / both, classes reachable (70%: keys only for eons of sets the keyper is in, accepting mechanisms), refusing (15%: scripted refusals), foreign (15%: rows no keyper records, negative numbers, duplicate inserts), some ticks with a failing query; forced first: 0..4 keys in one tick in every mode and both orders; non-trivial = some tick polled at least two pending keys; distinct by the JSON rendering of the history"
	e := newEnv(run.Repo)
	defer e.srv.Close()
	defer e.pool.Close()
	finish := func() {
		for _, t := range e.srv.Ties() {
			if !t.Informational() {
				run.Tie("pgfake tie: " + t.String())
			}
		}
		for _, ri := range e.srv.RuntimeIssues() {
			run.Tie("pgfake runtime issue: " + ri.String())
		}
	}
	defer finish()
	if run.Replay != "" {
		var k struct {
			Kind string `json:"kind"`
		}
		if err := run.LoadReplay(&k); err != nil {
			panic(err)
		}
		if k.Kind == "loop" {
			var lc loopCase
			if err := run.LoadReplay(&lc); err != nil {
				panic(err)
			}
			runLoop(run, e, lc)
			return
		}
		if k.Kind == "dkg" {
			var pc prodCase
			if err := run.LoadReplay(&pc); err != nil {
				panic(err)
			}
			runProducer(run, servers, pc)
			return
		}
		var c histCase
		if err := run.LoadReplay(&c); err != nil {
			panic(err)
		}
		runHist(run, e, c)
		return
	}
	files := run.CorpusFiles()
	sort.Strings(files)
	for _, f := range files {
		if lc, ok := loadLoopCorpus(f); ok {
			run.Dist["corpus"]++
			runLoop(run, e, lc)
			continue
		}
		if pc, ok := loadProducerCorpus(f); ok {
			run.Dist["corpus"]++
			runProducer(run, servers, pc)
			continue
		}
		c, err := loadCorpus(f)
		if err != nil {
			run.Tie("corpus: " + err.Error())
			continue
		}
		run.Dist["corpus"]++
		runHist(run, e, c)
	}
	for _, c := range forced() {
		runHist(run, e, c)
	}
	for _, lc := range forcedLoops() {
		runLoop(run, e, lc)
	}
	for k, nl := 0, run.Scale(4, 60); k < nl; k++ {
		runLoop(run, e, randomLoop(run.RNG))
	}
	for _, pc := range forcedProducer() {
		runProducer(run, servers, pc)
	}
	for k, np := 0, run.Scale(24, 600); k < np; k++ {
		runProducer(run, servers, randomProducer(run.RNG))
	}
	n := run.Scale(1000, 50000)
	for i := 0; i < n; i++ {
		class := "reachable"
		switch x := run.RNG.Intn(20); {
		case x < 3:
			class = "refusing"
		case x < 6:
			class = "foreign"
		}
		runHist(run, e, genHist(run.RNG, class, run.Thorough))
	}
}
