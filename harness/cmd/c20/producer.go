//go:build verif

// Producer stream of the C20 driver: the property from the key generation on.
//
// n real keyper stacks (dkgrig: the repository's operateShuttermint loop body with the real
// ShuttermintState / handleBlock / shiftPhases / finalizeDKG / Save, puredkg, ECIES, one pgfake
// database each) run complete key generations over the real shuttermint application (tmfake).
// Keyper sets are announced so that their eons start in different blocks or - two sets accepted
// in one shuttermint block - at the same height, so that their key generations also finish in
// the same block.  On every keyper's database the real eonPubKeyHandler polls (every round,
// every few rounds, or only at the end).  The oracle reads the property end to end: every
// dkg_result row with success = true must have been handed to every configured mechanism
// exactly once, with the public key of the stored result, the activation block and index of the
// eon's keyper set (from the chain's EonStarted event) and the eon number.
package main

import (
	"bytes"
	"context"
	"crypto/sha256"
	"encoding/json"
	"fmt"
	"os"
	"sort"

	"github.com/shutter-network/rolling-shutter/rolling-shutter/keyper"
	"github.com/shutter-network/rolling-shutter/rolling-shutter/keyper/shutterevents"
	"github.com/shutter-network/rolling-shutter/rolling-shutter/shdb"
	"github.com/shutter-network/rolling-shutter/rolling-shutter/shmsg"

	"verifharness/dkgrig"
	"verifharness/pgfake"
	"verifharness/vh"
)

type prodSet struct {
	Index      int64 `json:"index"`
	Members    []int `json:"members"` // party indices, in the order of the keyper set
	Threshold  int   `json:"threshold"`
	Activation int64 `json:"activation"`
	AddRound   int   `json:"add_round"` // the round in which the set appears in the keypers' databases
}

type prodCase struct {
	Kind     string    `json:"kind"` // "dkg"
	N        int       `json:"n"`
	T        int       `json:"t"` // threshold of the genesis set
	L        int64     `json:"phase_len"`
	Sets     []prodSet `json:"sets"`
	Passes   int       `json:"passes"`     // loop iterations of every keyper per shuttermint block
	Bcast    bool      `json:"bcast"`      // handler configuration of every keyper
	Cb       bool      `json:"cb"`         //
	TickEach int       `json:"tick_every"` // a handler tick every so many rounds (0: only at the end)
	Slow     int       `json:"slow"`       // this party runs its loop only every second round (-1: none)
	// Restart: in the round in which the second set is announced, before the keypers run, as many
	// members of the first set as its threshold vote "failed" for its (still running) eon, so
	// that shuttermint restarts it: the restarted eon and the second set's eon start in the same
	// block and finish together (the first eon still finishes on its own).
	Restart bool   `json:"restart,omitempty"`
	Seed    uint64 `json:"seed"`
}

type prodParty struct {
	Plan  prodCase `json:"plan"`
	Party int      `json:"party"`
}

func keyLabel(k []byte) []byte {
	h := sha256.Sum256(k)
	return h[:8]
}

type prodObserver struct {
	idx                       int
	self                      string
	h                         *keyper.VerifEonPubKeyHandler
	rec                       *recorder
	seenCfg, seenEon, seenRes int
	lastPos                   int64
	obs                       []string
	handedAll                 []handed
	maxBatch                  int
	mismatchedTables          bool
}

// rigAddrName maps the addresses of the rig's parties to preamble constants.
var rigAddrs = map[string]string{}

func initRigAddrs(servers *dkgrig.Servers) error {
	rig, err := dkgrig.New(dkgrig.Params{N: len(servers.Srv), T: 1, PhaseLen: 2, StartDelta: 1000}, servers)
	if err != nil {
		return err
	}
	defer rig.Close()
	for i, pt := range rig.Parties {
		rigAddrs[shdb.EncodeAddress(pt.Addr)] = fmt.Sprintf("R%d", i)
	}
	return nil
}

func rigPreamble() string {
	var names []string
	for a := range rigAddrs {
		names = append(names, a)
	}
	sort.Slice(names, func(i, j int) bool { return rigAddrs[names[i]] < rigAddrs[names[j]] })
	s := ""
	for _, a := range names {
		s += fmt.Sprintf("Definition %s : bytes := %s.\n", rigAddrs[a], vh.CStr(a))
	}
	return s
}

func coqAnyAddr(a string) string {
	if n, ok := rigAddrs[a]; ok {
		return n
	}
	return coqAddr(a)
}

func coqAddrs(as []string) string {
	xs := make([]string, len(as))
	for i, a := range as {
		xs[i] = coqAnyAddr(a)
	}
	return vh.CList(xs)
}

func labelRows(rs []outRow) []outRow {
	out := make([]outRow, len(rs))
	for i, r := range rs {
		out[i] = outRow{Key: keyLabel(r.Key), Eon: r.Eon}
	}
	return out
}

func partyOutgoing(srv *pgfake.Server) []outRow {
	var out []outRow
	for _, r := range srv.Store().Table("outgoing_eon_keys").Rows() {
		k, _ := r["eon_public_key"].([]byte)
		out = append(out, outRow{Key: k, Eon: r["eon"].(int64)})
	}
	return out
}

func asI64(v any) int64 {
	switch x := v.(type) {
	case int64:
		return x
	case int32:
		return int64(x)
	case int:
		return int64(x)
	}
	panic(fmt.Sprintf("not an integer: %T", v))
}

// runProducer executes one plan and emits one correspondence case per keyper.
func runProducer(run *vh.Run, servers *dkgrig.Servers, pc prodCase) {
	violate := func(key, what string, observed, expected any) {
		run.Violate(vh.Violation{Key: key, What: what, Case: pc, Observed: observed, Expected: expected})
	}
	rig, err := dkgrig.New(dkgrig.Params{N: pc.N, T: pc.T, PhaseLen: pc.L, StartDelta: 1000}, servers)
	if err != nil {
		run.Tie("dkgrig.New: " + err.Error())
		return
	}
	defer rig.Close()
	rng := vh.NewRNG(pc.Seed)
	var opts []keyper.Option
	obsv := make([]*prodObserver, pc.N)
	for i, pt := range rig.Parties {
		o := &prodObserver{idx: i, self: shdb.EncodeAddress(pt.Addr), rec: &recorder{}}
		var opts2 []keyper.Option
		opts2 = append(opts2, opts...)
		if !pc.Bcast {
			opts2 = append(opts2, keyper.NoBroadcastEonPublicKey())
		}
		if pc.Cb {
			opts2 = append(opts2, keyper.WithEonPublicKeyHandler(o.rec.callback))
		}
		h, err := keyper.VerifNewEonPubKeyHandler(pt.Cfg, pt.Pool, &recMessaging{rec: o.rec, addr: pt.Addr}, opts2...)
		if err != nil {
			run.Tie("VerifNewEonPubKeyHandler: " + err.Error())
			return
		}
		o.h = h
		o.lastPos, _ = rig.SyncPos(i)
		obsv[i] = o
	}
	setByIndex := map[int64]prodSet{}
	for _, s := range pc.Sets {
		setByIndex[s.Index] = s
	}

	// what one Sync of party i did, as a KSync observation
	afterSync := func(i int) {
		o, pt := obsv[i], rig.Parties[i]
		pos, _ := rig.SyncPos(i)
		var newCfgs, newEons []string
		for hgt := o.lastPos + 1; hgt <= pos && hgt <= rig.Chain.Height(); hgt++ {
			if hgt < 1 {
				continue
			}
			for _, ev := range dkgrig.EventsOf(rig.Chain.BlockAt(hgt)) {
				switch e := ev.(type) {
				case *shutterevents.BatchConfig:
					newCfgs = append(newCfgs, vh.CApp("mkCfg", vh.CZ(int64(e.KeyperConfigIndex)), coqAddrs(shdb.EncodeAddresses(e.Keypers))))
				case *shutterevents.EonStarted:
					newEons = append(newEons, vh.CApp("mkEon", vh.CZ(int64(e.Eon)), vh.CZ(int64(e.ActivationBlockNumber)), vh.CZ(int64(e.KeyperConfigIndex))))
				}
			}
		}
		o.lastPos = pos
		// the key generations that finished: the new dkg_result rows, in insertion order
		var rs []string
		rows := pt.Srv.Store().Table("dkg_result").Rows()
		for _, row := range rows[o.seenRes:] {
			succ := row["success"].(bool)
			key := []byte{}
			if b, ok := row["pure_result"].([]byte); ok && b != nil {
				res, err := shdb.DecodePureDKGResult(b)
				if err != nil {
					run.Tie(fmt.Sprintf("party %d: stored DKG result does not decode: %v", i, err))
					return
				}
				gk, _ := res.PublicKey.GobEncode()
				key = keyLabel(gk)
			}
			rs = append(rs, vh.CApp("mkRes", vh.CZ(row["eon"].(int64)), vh.CBool(succ), vh.CBytes(key)))
		}
		o.seenRes = len(rows)
		// observed tables
		var oe, oc []string
		for _, row := range pt.Srv.Store().Table("eons").Rows() {
			oe = append(oe, vh.CApp("mkEon", vh.CZ(row["eon"].(int64)), vh.CZ(row["activation_block_number"].(int64)), vh.CZ(asI64(row["keyper_config_index"]))))
		}
		for _, row := range pt.Srv.Store().Table("tendermint_batch_config").Rows() {
			ks, _ := row["keypers"].([]string)
			oc = append(oc, vh.CApp("mkCfg", vh.CZ(asI64(row["keyper_config_index"])), coqAddrs(ks)))
		}
		if len(newCfgs)+len(newEons)+len(rs) == 0 && len(o.obs) > 0 {
			return // nothing happened in this sync
		}
		cop := vh.CApp("KSync", vh.CList(newCfgs), vh.CList(newEons), vh.CList(rs), vh.CList(oe), vh.CList(oc))
		o.obs = append(o.obs, "("+cop+", OIns true, "+coqOutRows(labelRows(partyOutgoing(pt.Srv)))+")")
		if len(rs) > 0 {
			run.Dist[fmt.Sprintf("dkg:finished-in-one-sync=%d", min(len(rs), 4))]++
		}
	}

	tick := func(i, round int) bool {
		o, pt := obsv[i], rig.Parties[i]
		n := len(partyOutgoing(pt.Srv))
		perm := permOf(rng, n)
		pt.Srv.SetRowOrder(func(table string, k int) []int {
			if table == "outgoing_eon_keys" && k == len(perm) {
				return perm
			}
			id := make([]int, k)
			for j := range id {
				id[j] = j
			}
			return id
		})
		o.rec.answers, o.rec.calls = nil, nil
		var terr error
		p, msg := vh.Guard(func() { terr = o.h.QueryAndHandleNewEonPubKeys(rigCtx) })
		pt.Srv.SetRowOrder(nil)
		if p {
			violate("C20:panic", fmt.Sprintf("party %d: queryAndHandleNewEonPubKeys panicked: %s", i, msg), nil, nil)
			return false
		}
		class := classify(terr)
		if class != "none" {
			violate("C20:error-without-refusal", fmt.Sprintf("party %d round %d: every mechanism accepted but the tick returned error class %q (%v)", i, round, class, terr), o.rec.calls, nil)
		}
		if coqErr(class) == "EUnknown" {
			run.Tie(fmt.Sprintf("party %d: unclassified tick error %v", i, terr))
			return false
		}
		calls := o.rec.calls
		o.handedAll = append(o.handedAll, calls...)
		if n > o.maxBatch {
			o.maxBatch = n
		}
		lab := make([]handed, len(calls))
		for j, c := range calls {
			lab[j] = c
			lab[j].Key = keyLabel(c.Key)
		}
		ps := make([]string, len(perm))
		for j, p := range perm {
			ps[j] = vh.CNat(p)
		}
		cop := vh.CApp("KTick", vh.CList(ps), "[]")
		o.obs = append(o.obs, "("+cop+", "+vh.CApp("OTick", coqCalls(lab), coqErr(class))+", "+coqOutRows(labelRows(partyOutgoing(pt.Srv)))+")")
		run.Dist[fmt.Sprintf("dkg:tick-pending=%d", min(n, 4))]++
		return true
	}

	maxAdd := 0
	for _, s := range pc.Sets {
		if s.AddRound > maxAdd {
			maxAdd = s.AddRound
		}
	}
	maxRounds := maxAdd + int(4*pc.L) + 16
	quietSince := -1
	for round := 0; round < maxRounds; round++ {
		for _, s := range pc.Sets {
			if s.AddRound == round {
				if err := rig.AddKeyperSet(s.Index, s.Activation, s.Members, s.Threshold); err != nil {
					run.Tie("AddKeyperSet: " + err.Error())
					return
				}
			}
		}
		if pc.Restart && len(pc.Sets) >= 2 && round == pc.Sets[1].AddRound {
			for _, e := range rig.Eons() {
				if int64(e.CfgIdx) != pc.Sets[0].Index {
					continue
				}
				for k := 0; k < pc.Sets[0].Threshold && k < len(pc.Sets[0].Members); k++ {
					rig.SubmitAs(pc.Sets[0].Members[k], shmsg.NewDKGResult(e.Eon, false))
				}
				run.Dist["dkg:restart-votes-cast"]++
				break
			}
		}
		for pass := 0; pass < max(pc.Passes, 1); pass++ {
			for _, i := range rng.Perm(pc.N) {
				if i == pc.Slow && round%2 == 1 {
					continue
				}
				if res := rig.Iterate(i, uint64(round), nil); !res.OK() {
					run.Tie(fmt.Sprintf("party %d round %d stage %s: %s", i, round, res.Stage, res.Err))
					return
				}
				afterSync(i)
			}
		}
		rig.Chain.NextBlock()
		if pc.TickEach > 0 && round%pc.TickEach == 0 {
			for i := range obsv {
				if !tick(i, round) {
					return
				}
			}
		}
		// stop a few rounds after the last eon is past finalisation
		eons := rig.Eons()
		if len(eons) >= len(pc.Sets) && quietSince < 0 {
			last := eons[len(eons)-1]
			if rig.Chain.Height() >= last.Start+3*pc.L+6 {
				quietSince = round
			}
		}
		if quietSince >= 0 && round >= quietSince+2 {
			break
		}
	}
	// drain: everybody catches up with the chain head, then two final ticks
	for k := 0; k < 3; k++ {
		for i := 0; i < pc.N; i++ {
			if res := rig.Iterate(i, uint64(maxRounds+k), nil); !res.OK() {
				run.Tie(fmt.Sprintf("party %d drain stage %s: %s", i, res.Stage, res.Err))
				return
			}
			afterSync(i)
		}
		rig.Chain.NextBlock()
	}
	for k := 0; k < 2; k++ {
		for i := range obsv {
			if !tick(i, maxRounds+k) {
				return
			}
		}
	}

	// ---- the oracle: the property from the key generation on --------------------------------
	eonInfo := map[uint64]dkgrig.EonInfo{}
	sameHeight := map[int64]int{}
	for _, e := range rig.Eons() {
		eonInfo[e.Eon] = e
		sameHeight[e.Start]++
	}
	if os.Getenv("C20_DEBUG") != "" {
		fmt.Fprintf(os.Stderr, "eons (eon, start, set): %v\n", rig.Eons())
		for i := range obsv {
			for _, rr := range rig.Results(i) {
				fmt.Fprintf(os.Stderr, "party %d eon %d success %v\n", i, rr.Eon, rr.Success)
			}
		}
	}
	for _, n := range sameHeight {
		run.Dist[fmt.Sprintf("dkg:eons-started-at-one-height=%d", min(n, 3))]++
	}
	mechs := []string{}
	if pc.Bcast {
		mechs = append(mechs, "broadcast")
	}
	if pc.Cb {
		mechs = append(mechs, "callback")
	}
	totalSucc := 0
	for i, o := range obsv {
		var want []want
		for _, rr := range rig.Results(i) {
			if !rr.Success {
				run.Dist["dkg:result-failed"]++
				if os.Getenv("C20_DEBUG") != "" {
					fmt.Fprintf(os.Stderr, "party %d eon %d failed: %s (start %v)\n", i, rr.Eon, rr.Error, eonInfo[uint64(rr.Eon)])
				}
				continue
			}
			if rr.Result == nil {
				run.Tie(fmt.Sprintf("party %d eon %d: successful result does not decode: %s", i, rr.Eon, rr.DecErr))
				continue
			}
			info, ok := eonInfo[uint64(rr.Eon)]
			if !ok {
				run.Tie(fmt.Sprintf("party %d: dkg_result for eon %d that the chain never started", i, rr.Eon))
				continue
			}
			set, ok := setByIndex[int64(info.CfgIdx)]
			if !ok {
				run.Tie(fmt.Sprintf("party %d: eon %d belongs to the unplanned keyper set %d", i, rr.Eon, info.CfgIdx))
				continue
			}
			member := false
			for _, m := range set.Members {
				if m == i {
					member = true
				}
			}
			if !member {
				violate("C20:key-generation-of-foreign-set", fmt.Sprintf("party %d recorded a key generation for eon %d of keyper set %d it is not in", i, rr.Eon, set.Index), nil, nil)
				continue
			}
			gk, _ := rr.Result.PublicKey.GobEncode()
			want = append(want, want0(gk, uint64(set.Activation), uint64(set.Index), uint64(rr.Eon)))
		}
		totalSucc += len(want)
		wantMS := multiset(want)
		for _, m := range mechs {
			gotMS := map[string]int{}
			for _, c := range o.handedAll {
				if c.Mech != m {
					continue
				}
				w := want0(c.Key, c.Act, c.Kci, c.Eon)
				gotMS[w.String()]++
				if c.Mech == "broadcast" && (!c.SigOK || c.Instance != 0) {
					violate("C20:bad-signature", fmt.Sprintf("party %d: broadcast message with instance %d, signature ok=%v", i, c.Instance, c.SigOK), c, nil)
				}
			}
			for k, n := range wantMS {
				switch {
				case gotMS[k] == 0:
					wrong := false
					for _, c := range o.handedAll {
						for _, w := range want {
							if c.Mech == m && w.String() == k && c.Eon == w.Eon && bytes.Equal(c.Key, w.Key) {
								wrong = true
							}
						}
					}
					if wrong {
						violate("C20:wrong-fields", fmt.Sprintf("party %d: a successful key generation was handed to %s with wrong activation block / keyper-set index (%s expected)", i, m, k), o.handedAll, want)
					} else {
						violate("C20:successful-key-generation-never-published", fmt.Sprintf("party %d: dkg_result records success for %s (key/activation/set/eon) but it was never handed to %s, although the handler polled after it finished", i, k, m), o.handedAll, want)
					}
				case gotMS[k] > n:
					violate("C20:handed-twice", fmt.Sprintf("party %d: %s was handed %s %d times, generated %d times", i, m, k, gotMS[k], n), o.handedAll, want)
				}
			}
			for k := range gotMS {
				if wantMS[k] == 0 {
					violate("C20:handed-something-not-generated", fmt.Sprintf("party %d: %s was handed %s, which is no successful key generation of the keyper", i, m, k), o.handedAll, want)
				}
			}
		}
		for _, c := range o.handedAll {
			if (c.Mech == "broadcast" && !pc.Bcast) || (c.Mech == "callback" && !pc.Cb) {
				violate("C20:unconfigured-mechanism-called", fmt.Sprintf("party %d: %s called although it is not configured", i, c.Mech), c, nil)
			}
		}
	}
	if totalSucc == 0 {
		run.Dist["dkg:runs-without-success"]++
		if pc.Seed >= 100 && pc.Seed < 200 { // the forced plans must produce keys
			run.Tie("forced producer run without a successful key generation: " + fmt.Sprint(pc))
		}
	}
	for _, is := range servers.Issues() {
		run.Tie(is)
	}

	// ---- correspondence: one case per keyper -------------------------------------------------
	b, _ := json.Marshal(pc)
	for i, o := range obsv {
		id := run.NextID()
		term := vh.CApp("CHist", vh.CN(id),
			vh.CApp("mkH", coqAnyAddr(o.self), "0", vh.CBool(pc.Bcast), vh.CBool(pc.Cb)),
			vh.CList(o.obs))
		run.AddCase(id, term, prodParty{Plan: pc, Party: i}, fmt.Sprintf("%s/%d", b, i), o.maxBatch >= 2)
	}
	run.Dist["dkg:runs"]++
	run.Dist[fmt.Sprintf("dkg:sets=%d", len(pc.Sets))]++
}

func want0(key []byte, act, kci, eon uint64) want {
	return want{Key: key, Act: act, Kci: kci, Eon: eon}
}

var rigCtx = context.Background()

// ---------------------------------------------------------------------------------------
// plans

func allParties(n int) []int {
	m := make([]int, n)
	for i := range m {
		m[i] = i
	}
	return m
}

// forcedProducer: one set; two sets in different blocks; two sets accepted in one block (their
// eons start and finish at the same height) with the keyper in both / in one; three sets.
func forcedProducer() []prodCase {
	var out []prodCase
	modes := [][2]bool{{true, false}, {false, true}, {true, true}}
	k := 0
	for _, sched := range []string{"one", "separate", "same-block", "same-block-partial", "three", "restart"} {
		for _, tickEach := range []int{1, 0} {
			m := modes[k%3]
			k++
			pc := prodCase{Kind: "dkg", N: 3, T: 2, L: 6, Passes: 1, Bcast: m[0], Cb: m[1], TickEach: tickEach, Slow: -1, Seed: uint64(100 + k)}
			switch sched {
			case "one":
				pc.Sets = []prodSet{{Index: 1, Members: []int{0, 1, 2}, Threshold: 2, Activation: 50, AddRound: 5}}
			case "separate":
				pc.Sets = []prodSet{{Index: 1, Members: []int{0, 1, 2}, Threshold: 2, Activation: 50, AddRound: 5},
					{Index: 2, Members: []int{2, 0, 1}, Threshold: 2, Activation: 60, AddRound: 8}}
			case "same-block":
				pc.Passes = 2
				pc.Sets = []prodSet{{Index: 1, Members: []int{0, 1, 2}, Threshold: 2, Activation: 50, AddRound: 5},
					{Index: 2, Members: []int{2, 0, 1}, Threshold: 2, Activation: 60, AddRound: 5}}
			case "same-block-partial":
				pc.Passes = 2
				pc.Sets = []prodSet{{Index: 1, Members: []int{0, 1, 2}, Threshold: 2, Activation: 50, AddRound: 5},
					{Index: 2, Members: []int{1, 2}, Threshold: 1, Activation: 50, AddRound: 5}}
			case "restart":
				pc.Restart = true
				pc.Sets = []prodSet{{Index: 1, Members: []int{0, 1, 2}, Threshold: 2, Activation: 50, AddRound: 5},
					{Index: 2, Members: []int{1, 2, 0}, Threshold: 2, Activation: 60, AddRound: 11}}
			case "three":
				pc.Passes = 3
				pc.Sets = []prodSet{{Index: 1, Members: []int{0, 1, 2}, Threshold: 2, Activation: 50, AddRound: 5},
					{Index: 2, Members: []int{1, 0, 2}, Threshold: 2, Activation: 50, AddRound: 5},
					{Index: 3, Members: []int{2, 1, 0}, Threshold: 2, Activation: 70, AddRound: 5}}
			}
			out = append(out, pc)
		}
	}
	return out
}

func randomProducer(r *vh.RNG) prodCase {
	pc := prodCase{Kind: "dkg", N: 3, T: 1 + r.Intn(2), L: int64(5 + r.Intn(3)), Passes: 1 + r.Intn(3), Slow: -1, Seed: r.U64() % 1000000}
	switch r.Intn(5) {
	case 0, 1:
		pc.Bcast = true
	case 2, 3:
		pc.Cb = true
	default:
		pc.Bcast, pc.Cb = true, true
	}
	pc.TickEach = vh.Pick(r, 0, 1, 1, 2, 3)
	if r.Chance(1, 4) {
		pc.Slow = r.Intn(3)
	}
	nsets := 1 + r.Intn(3)
	round := 4 + r.Intn(3)
	act := int64(40)
	for s := 1; s <= nsets; s++ {
		// the voters of set s are the members of set s-1, so only the last set may leave a
		// party out
		members := r.Perm(3)
		if s == nsets && r.Chance(1, 3) {
			members = members[:2]
		}
		th := 1 + r.Intn(len(members))
		act += int64(r.Intn(3)) * 10
		pc.Sets = append(pc.Sets, prodSet{Index: int64(s), Members: members, Threshold: th, Activation: act, AddRound: round})
		if r.Chance(1, 2) {
			round += 1 + r.Intn(4)
		}
	}
	if len(pc.Sets) >= 2 && pc.Sets[1].AddRound >= pc.Sets[0].AddRound+3 && r.Chance(1, 2) {
		pc.Restart = true
	}
	return pc
}

func loadProducerCorpus(path string) (prodCase, bool) {
	var w struct {
		Case prodCase `json:"case"`
	}
	b, err := os.ReadFile(path)
	if err != nil || json.Unmarshal(b, &w) != nil || w.Case.Kind != "dkg" || w.Case.N < 2 || w.Case.N > 3 {
		return prodCase{}, false
	}
	return w.Case, true
}
