//go:build verif

package main

// The property oracle: a direct reading of C19 over the implementation's trace, computed from
// the driver's own bookkeeping of the queue and of the pointer rows (which keys messages were
// processed, how many slots were triggered since, restarts). It does not use the Coq model.

import (
	"bytes"
	"encoding/binary"
	"fmt"
	"math"
	"sort"

	"github.com/ethereum/go-ethereum/common"
	"github.com/ethereum/go-ethereum/crypto"
)

type bookPtr struct {
	Value int64
	Age   *int64
}

type trigInfo struct {
	Slot int64
	Ptr  int64
	Hash []byte
}

type book struct {
	cfg    jCfg
	ptr    map[int64]*bookPtr
	queue  map[[2]int64]jQ // (index, eon)
	eons   []jE
	ksets  []jK
	synced *jSynced
	trig   map[int64]*trigInfo // current_decryption_trigger rows as the driver expects them
}

func newBook(cfg jCfg, st jState) *book {
	b := &book{cfg: cfg, ptr: map[int64]*bookPtr{}, queue: map[[2]int64]jQ{}, eons: st.Eons, ksets: st.Ksets, trig: map[int64]*trigInfo{}}
	for _, p := range st.Ptrs {
		bp := &bookPtr{Value: p.Value}
		if p.Age != nil {
			a := *p.Age
			bp.Age = &a
		}
		b.ptr[p.Eon] = bp
	}
	for _, q := range st.Queue {
		b.queue[[2]int64{q.Index, q.Eon}] = q
	}
	for _, t := range st.Trigs {
		b.trig[t.Eon] = &trigInfo{Slot: t.Slot, Ptr: t.Ptr, Hash: crypto.Keccak256(concat(t.Ids))}
	}
	if st.Synced != nil {
		s := *st.Synced
		b.synced = &s
	}
	return b
}

func (b *book) eonFor(block int64) (jE, bool) {
	var best jE
	found := false
	for _, e := range b.eons {
		if e.Act > block {
			continue
		}
		if !found || e.Act > best.Act || (e.Act == best.Act && e.Height > best.Height) {
			best, found = e, true
		}
	}
	return best, found
}

func (b *book) ksetFor(block int64) (jK, bool) {
	var best jK
	found := false
	for _, k := range b.ksets {
		if k.Act > block {
			continue
		}
		if !found || k.Act > best.Act {
			best, found = k, true
		}
	}
	return best, found
}

// rowsFrom lists the queue of the eon from index p on, in queue order.
func (b *book) rowsFrom(eon, p int64) []jQ {
	var rows []jQ
	for _, q := range b.queue {
		if q.Eon == eon && q.Index >= p {
			rows = append(rows, q)
		}
	}
	sort.Slice(rows, func(i, j int) bool { return rows[i].Index < rows[j].Index })
	return rows
}

// queueLength: the next index of the eon's queue.
func (b *book) queueLength(eon int64) (int64, bool) {
	n := int64(0)
	for _, q := range b.queue {
		if q.Eon == eon && q.Index >= n {
			if q.Index == math.MaxInt64 {
				return 0, false
			}
			n = q.Index + 1
		}
	}
	return n, true
}

// pointerFor: the pointer the next request must start at: the stored value, or the queue length
// when the age is unknown or exceeds the maximum; a missing row starts at 0 with age 0.
func (b *book) pointerFor(eon int64, maxAge int64) (int64, bool) {
	r := b.ptr[eon]
	if r == nil {
		zero := int64(0)
		b.ptr[eon] = &bookPtr{Value: 0, Age: &zero}
		return 0, true
	}
	if r.Age == nil || *r.Age > maxAge {
		return b.queueLength(eon)
	}
	return r.Value, true
}

func slotIdentity(slot uint64) []byte {
	id := make([]byte, 52)
	binary.BigEndian.PutUint64(id[44:], slot)
	return id
}

func txIdentity(q jQ) ([]byte, bool) {
	if !common.IsHexAddress(q.Sender) {
		return nil, false
	}
	return append(append([]byte{}, q.Prefix...), common.HexToAddress(q.Sender).Bytes()...), true
}

// literalSelection: queued transactions in queue order from p while the cumulative gas stays
// within the limit, but at least one if one is queued. Requires limit < 2^63 (no overflow).
func literalSelection(rows []jQ, limit uint64) []jQ {
	var sel []jQ
	sum := uint64(0)
	for _, r := range rows {
		sum += uint64(r.Gas)
		if sum > limit && len(sel) >= 1 {
			break
		}
		sel = append(sel, r)
	}
	return sel
}

func sortedCopy(ids [][]byte) [][]byte {
	out := append([][]byte{}, ids...)
	sort.SliceStable(out, func(i, j int) bool { return bytes.Compare(out[i], out[j]) < 0 })
	return out
}

func sameIDs(a, b [][]byte) bool {
	if len(a) != len(b) {
		return false
	}
	for i := range a {
		if !bytes.Equal(a[i], b[i]) {
			return false
		}
	}
	return true
}

func hexIDs(ids [][]byte) []string {
	out := make([]string, len(ids))
	for i, id := range ids {
		out[i] = fmt.Sprintf("%x", id)
	}
	return out
}

func (b *book) resync(o obsT) {
	b.ptr = map[int64]*bookPtr{}
	for _, p := range o.Ptrs {
		bp := &bookPtr{Value: p.Value}
		if p.Age != nil {
			a := *p.Age
			bp.Age = &a
		}
		b.ptr[p.Eon] = bp
	}
}

func (b *book) resyncTrigs(o obsT) {
	b.trig = map[int64]*trigInfo{}
	for _, t := range o.Trigs {
		b.trig[t.Eon] = &trigInfo{Slot: t.Slot, Ptr: t.Ptr, Hash: t.Hash}
	}
}

func agesEqual(a, b *int64) bool {
	if a == nil || b == nil {
		return a == nil && b == nil
	}
	return *a == *b
}

// comparePtrs: the tx_pointer table must be what the bookkeeping says.
func (b *book) comparePtrs(s *session, step int, key, what string, o obsT) {
	ok := len(o.Ptrs) == len(b.ptr)
	for _, p := range o.Ptrs {
		r := b.ptr[p.Eon]
		if r == nil || r.Value != p.Value || !agesEqual(r.Age, p.Age) {
			ok = false
		}
	}
	if !ok {
		exp := []string{}
		for e, r := range b.ptr {
			age := "NULL"
			if r.Age != nil {
				age = fmt.Sprint(*r.Age)
			}
			exp = append(exp, fmt.Sprintf("eon=%d value=%d age=%s", e, r.Value, age))
		}
		sort.Strings(exp)
		s.violate(key, fmt.Sprintf("operation %d: %s", step, what), showObs(o)["tx_pointer"], exp)
		b.resync(o)
	}
}

func validatedKeys(op jOp, nkeys int) bool {
	// what ValidateDecryptionKeysBasic admits
	return op.Slot <= math.MaxInt64 && op.Txp <= math.MaxInt32 && nkeys >= 1 && op.Eon <= math.MaxInt64
}

func (b *book) check(s *session, step int, op jOp, o obsT) {
	run := s.run
	switch op.Kind {
	case "trigger":
		e, ok := b.eonFor(op.Block)
		b.checkTrigger(s, step, op, o, op.Slot, op.Block, e.Kci, ok, op.Ks, true)
	case "slot":
		if o.Out.Kind == "trig" {
			block := int64(1)
			if b.synced != nil {
				block = b.synced.Block + 1
			}
			ks, okK := b.ksetFor(block)
			e, okE := b.eonFor(block)
			if !okK {
				s.violate("C19:trigger-without-keyper-set", fmt.Sprintf("operation %d: a slot was triggered although no keyper set is active", step), showObs(o), nil)
				b.resync(o)
				b.resyncTrigs(o)
				return
			}
			// one more slot was triggered for this keyper set: its pointer ages by one
			if r := b.ptr[ks.Kci]; r != nil && r.Age != nil {
				a := *r.Age + 1
				r.Age = &a
			}
			b.checkTrigger(s, step, op, o, op.Slot, block, e.Kci, okE, ks.Kci, false)
		} else {
			// not triggered (already seen, not a member, proposer not registered, error): the
			// pointer values must be untouched; an age may have been incremented, a missing row
			// may have been initialised to (0, 0)
			for _, p := range o.Ptrs {
				r := b.ptr[p.Eon]
				switch {
				case r == nil:
					if p.Value != 0 || p.Age == nil || *p.Age != 0 {
						s.violate("C19:pointer-row-differs", fmt.Sprintf("operation %d: a new pointer row is not (0, age 0)", step), showObs(o)["tx_pointer"], nil)
					}
				case r.Value != p.Value:
					s.violate("C19:pointer-row-differs", fmt.Sprintf("operation %d: a slot that was not triggered changed the pointer of eon %d", step, p.Eon), showObs(o)["tx_pointer"], r.Value)
				case !agesEqual(r.Age, p.Age) && !(r.Age != nil && p.Age != nil && *p.Age == *r.Age+1):
					s.violate("C19:pointer-row-differs", fmt.Sprintf("operation %d: a slot that was not triggered changed the age of eon %d by other than +1", step, p.Eon), showObs(o)["tx_pointer"], nil)
				}
			}
			b.resync(o)
			b.resyncTrigs(o)
			return
		}
	case "getptr":
		if b.cfg.MaxAge > math.MaxInt64 {
			run.Dist["oracle:outside:max-age-config"]++
		}
		p, ok := b.pointerFor(int64(op.Eon), op.MaxAge)
		if o.Out.Kind == "ptr" {
			if !ok || o.Out.V != p {
				s.violate("C19:outdated-pointer-start", fmt.Sprintf("operation %d: getTxPointer(eon %d, max age %d) does not return the stored value / the queue length", step, op.Eon, op.MaxAge), o.Out.V, p)
			}
		} else if ok {
			s.violate("C19:get-pointer-fails", fmt.Sprintf("operation %d: getTxPointer fails", step), showOut(o.Out), p)
		}
	case "keysrecv", "keyssent":
		nkeys := op.NKeys
		if op.Kind == "keysrecv" {
			nkeys = len(op.Ids)
		}
		zero := int64(0)
		at := int64(op.Txp)
		switch {
		case op.Kind == "keysrecv" || op.HasExtra:
			if !validatedKeys(op, nkeys) {
				run.Dist["oracle:outside:unvalidated-keys-message"]++
				b.resync(o)
				return
			}
			if op.Kind == "keyssent" && o.Out.Kind != "sent" {
				s.violate("C19:keys-not-forwarded", fmt.Sprintf("operation %d: a keys message with extra data is not passed on", step), showOut(o.Out), nil)
			}
			b.ptr[int64(op.Eon)] = &bookPtr{Value: int64(op.Txp) + int64(nkeys) - 1, Age: &zero}
		case o.Out.Kind == "sent":
			// self-produced keys: they release the identities of the trigger in flight
			t := b.trig[int64(op.Eon)]
			if t == nil {
				s.violate("C19:keys-without-trigger", fmt.Sprintf("operation %d: self-produced keys are sent although no trigger is in flight", step), showOut(o.Out), nil)
				b.resync(o)
				return
			}
			if o.Out.Txp != uint64(t.Ptr) || o.Out.Slot != uint64(t.Slot) {
				s.violate("C19:self-keys-extra", fmt.Sprintf("operation %d: self-produced keys do not carry the slot and pointer of the trigger in flight", step), showOut(o.Out), fmt.Sprintf("slot=%d txp=%d", t.Slot, t.Ptr))
			}
			at = t.Ptr
			b.ptr[int64(op.Eon)] = &bookPtr{Value: t.Ptr + int64(nkeys) - 1, Age: &zero}
		}
		b.comparePtrs(s, step, "C19:pointer-after-keys", fmt.Sprintf("after a keys message (eon %d, pointer %d, %d keys) the pointer rows are not as the property says (p+k-1, age 0)", op.Eon, at, nkeys), o)
		return
	case "restart":
		for _, r := range b.ptr {
			r.Age = nil
		}
		b.comparePtrs(s, step, "C19:restart-ages", "after a restart the pointer ages are not all unknown / a value changed", o)
		return
	case "sync":
		for _, r := range op.Rows {
			b.queue[[2]int64{r.Index, r.Eon}] = r
		}
	case "synced":
		b.synced = &jSynced{Slot: int64(op.Slot), Block: op.Block}
	case "sigs":
	}
	b.comparePtrs(s, step, "C19:pointer-row-differs", "the pointer rows after "+op.Kind+" are not what the processed keys messages, slots and restarts determine", o)
}

func (b *book) checkTrigger(s *session, step int, op jOp, o obsT, slot uint64, block int64, eon int64, eonOK bool, ks int64, direct bool) {
	run := s.run
	cfg := b.cfg
	if cfg.MaxAge > math.MaxInt64 {
		// Config.Validate refuses it
		run.Dist["oracle:outside:max-age-config"]++
		b.resync(o)
		b.resyncTrigs(o)
		return
	}
	justified := ""
	if !eonOK {
		justified = "no eon for the block"
	}
	var p int64
	if eonOK {
		var ok bool
		p, ok = b.pointerFor(eon, int64(cfg.MaxAge))
		if !ok {
			justified = "queue length overflows"
		}
	}
	var limit uint64
	if cfg.MinGas == 0 {
		justified = "minimum gas is zero"
	} else {
		limit = cfg.GasLimit/cfg.MinGas + 1
		if limit > math.MaxInt32 {
			justified = "row limit too big"
		}
	}
	if limit <= math.MaxInt32 && p > math.MaxInt64-int64(limit) {
		justified = "pointer plus row limit overflows"
	}
	if slot > math.MaxInt64 || p < 0 || eon < 0 {
		justified = "slot, pointer or eon out of the range of the trigger table"
	}
	rows := b.rowsFrom(ks, p)
	for _, r := range rows {
		if _, ok := txIdentity(r); !ok {
			if justified == "" {
				justified = "a queued sender does not decode"
			}
		}
	}
	if o.Out.Kind != "trig" {
		if justified == "" && direct {
			s.violate("C19:trigger-fails", fmt.Sprintf("operation %d: no decryption trigger although one is due", step), showOut(o.Out), nil)
		}
		run.Dist["oracle:no-trigger:"+justified]++
		b.resync(o)
		b.resyncTrigs(o)
		return
	}
	ids := o.Out.Ids
	if o.Out.Block != uint64(block) {
		s.violate("C19:trigger-block", fmt.Sprintf("operation %d: trigger for block %d instead of %d", step, o.Out.Block, block), nil, nil)
	}
	for i := 1; i < len(ids); i++ {
		if bytes.Compare(ids[i-1], ids[i]) > 0 {
			s.violate("C19:identities-not-sorted", fmt.Sprintf("operation %d: the requested identities are not sorted", step), hexIDs(ids), nil)
			break
		}
	}
	sid := slotIdentity(slot)
	switch {
	case !eonOK || cfg.MinGas == 0:
		run.Dist["oracle:outside:trigger-not-expected"]++
	case cfg.GasLimit >= 1<<63:
		// hypothesis 1 (no wrap of the uint64 gas counter) is only guaranteed below 2^63
		run.Dist["oracle:outside:no-wrap-hypothesis"]++
	default:
		sel := literalSelection(rows, cfg.GasLimit)
		want := [][]byte{sid}
		undecodable, small := false, false
		for _, r := range sel {
			id, ok := txIdentity(r)
			if !ok {
				undecodable = true
				continue
			}
			if bytes.Compare(id, sid) < 0 {
				small = true
			}
			want = append(want, id)
		}
		cut := uint64(len(sel)) > limit
		for _, r := range sel {
			if uint64(r.Index-p) >= limit {
				cut = true
			}
		}
		switch {
		case cut:
			// the literal selection reaches beyond the query window (index < pointer + limit,
			// at most limit rows): the implementation cannot return it
			if undecodable || !sameIDs(sortedCopy(want), ids) {
				s.violate(rowWindowKey, fmt.Sprintf("operation %d: the query window (index < pointer + %d, at most %d rows) cuts the selection: not all queued transactions from pointer %d that fit into the encrypted gas limit are requested", step, limit, limit, p), hexIDs(ids), hexIDs(sortedCopy(want)))
			}
		case undecodable:
			s.violate("C19:trigger-with-undecodable-sender", fmt.Sprintf("operation %d: a trigger was sent although a selected sender does not decode", step), hexIDs(ids), nil)
		case !sameIDs(sortedCopy(want), ids):
			s.violate("C19:selection-differs", fmt.Sprintf("operation %d: the requested identities are not the slot identity plus the queued transactions from pointer %d while their gas fits", step, p), hexIDs(ids), hexIDs(sortedCopy(want)))
		case small:
			// hypothesis 2 violated by the input: "sorted" and "slot identity first" contradict
			run.Dist["oracle:outside:small-sender-hypothesis"]++
		case !bytes.Equal(ids[0], sid):
			s.violate("C19:slot-identity-not-first", fmt.Sprintf("operation %d: the slot identity is not the first identity", step), hexIDs(ids), nil)
		default:
			run.Dist["oracle:selection-checked"]++
			run.Dist[fmt.Sprintf("oracle:selected-txs=%d", min(len(sel), 8))]++
		}
	}
	// the trigger in flight: slot, the pointer used, hash of the requested identities
	t := &trigInfo{Slot: int64(slot), Ptr: p, Hash: crypto.Keccak256(concat(ids))}
	b.trig[eon] = t
	okRow := len(o.Trigs) == len(b.trig)
	for _, r := range o.Trigs {
		w := b.trig[r.Eon]
		if w == nil || w.Slot != r.Slot || w.Ptr != r.Ptr || !bytes.Equal(w.Hash, r.Hash) {
			okRow = false
		}
	}
	if !okRow {
		s.violate("C19:trigger-row-differs", fmt.Sprintf("operation %d: current_decryption_trigger is not (eon %d, slot %d, pointer %d, hash of the requested identities)", step, eon, slot, p), showObs(o)["current_decryption_trigger"], nil)
		b.resyncTrigs(o)
	}
	b.comparePtrs(s, step, "C19:pointer-row-differs", "the pointer rows after a trigger are not what the processed keys messages, slots and restarts determine", o)
}
