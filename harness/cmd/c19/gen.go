//go:build verif

package main

// Case generation: forced boundary cases, random state cases, random histories.

import (
	"encoding/binary"
	"encoding/hex"
	"math"
	"strings"

	"github.com/ethereum/go-ethereum/common"

	"github.com/shutter-network/rolling-shutter/rolling-shutter/shdb"

	"verifharness/vh"
)

type gen struct {
	r       *vh.RNG
	maxRows int // queue rows per eon
}

func i64p(v int64) *int64 { return &v }

func clampGas(v uint64) int64 {
	if v > math.MaxInt64 {
		return math.MaxInt64
	}
	return int64(v)
}

func (g *gen) typicalCfg() jCfg {
	r := g.r
	return jCfg{
		GasLimit: vh.Pick(r, uint64(100000), 100000, 63000, 42000, 84000, 1000000),
		MinGas:   vh.Pick(r, uint64(21000), 21000, 10000, 25000),
		MaxAge:   vh.Pick(r, uint64(0), 1, 2, 3, 5),
	}
}

func (g *gen) cfg() jCfg {
	r := g.r
	if r.Chance(7, 10) {
		return g.typicalCfg()
	}
	c := jCfg{
		GasLimit: vh.Pick(r, uint64(0), 1, 20999, 21000, 100000, 1<<40, 1<<63-1, 1<<63, math.MaxUint64),
		MinGas:   vh.Pick(r, uint64(1), 21000, 21000, 100001, 1<<63, math.MaxUint64),
		MaxAge:   vh.Pick(r, uint64(0), 1, 3, 1<<63-1, 1<<63, math.MaxUint64),
	}
	if r.Chance(1, 25) {
		c.MinGas = 0
	}
	if r.Chance(1, 3) {
		c.MinGas = c.GasLimit + 1 // row limit 1 (0 if it wraps)
	}
	return c
}

func (g *gen) gas(c jCfg) int64 {
	r := g.r
	l, m := c.GasLimit, c.MinGas
	switch r.Intn(14) {
	case 0:
		return 0
	case 1:
		return 1
	case 2:
		return clampGas(m - 1)
	case 3, 4:
		return clampGas(m)
	case 5, 6:
		return clampGas(l / 4)
	case 7:
		return clampGas(l / 3)
	case 8:
		return clampGas(l / 2)
	case 9:
		return clampGas(l)
	case 10:
		return clampGas(l + 1)
	case 11:
		return clampGas(l - 1)
	case 12:
		if r.Chance(1, 4) {
			return math.MaxInt64
		}
		return clampGas(l / 4)
	}
	return int64(r.Intn(120000))
}

func addrText(b []byte) string { return shdb.EncodeAddress(common.BytesToAddress(b)) }

func smallAddr(v uint64) []byte {
	b := make([]byte, 20)
	binary.BigEndian.PutUint64(b[12:], v)
	return b
}

// sender returns the text column and whether it is an adversarially small address.
func (g *gen) sender(slotHint uint64) (string, bool) {
	r := g.r
	switch x := r.Intn(100); {
	case x < 72:
		return addrText(r.Bytes(20)), false
	case x < 77:
		return hex.EncodeToString(r.Bytes(20)), false // lower case, no prefix
	case x < 80:
		return "0X" + strings.ToUpper(hex.EncodeToString(r.Bytes(20))), false
	case x < 92:
		v := vh.Pick(r, uint64(0), 1, slotHint, slotHint+1, slotHint-1, 1<<32, math.MaxUint64, r.U64())
		return addrText(smallAddr(v)), true
	case x < 94:
		b := smallAddr(r.U64())
		b[11] = 1 // just above 2^64
		return addrText(b), false
	default:
		return vh.Pick(r, "", "snd", "0x", hex.EncodeToString(r.Bytes(20))[:39], hex.EncodeToString(r.Bytes(21)),
			"0x"+hex.EncodeToString(r.Bytes(19))+"zz", "0x"+hex.EncodeToString(r.Bytes(21)), "0x0x"+hex.EncodeToString(r.Bytes(19)),
			" "+hex.EncodeToString(r.Bytes(20))), false
	}
}

func (g *gen) prefix() []byte {
	r := g.r
	switch x := r.Intn(100); {
	case x < 78:
		return r.Bytes(32)
	case x < 90:
		return make([]byte, 32)
	case x < 93:
		p := make([]byte, 32)
		p[31] = byte(1 + r.Intn(3))
		return p
	case x < 96:
		return r.Bytes(r.Intn(32))
	case x < 98:
		return make([]byte, r.Intn(32))
	default:
		return r.Bytes(33 + r.Intn(8))
	}
}

// eonQueue generates the queue rows of one eon.
func (g *gen) eonQueue(c jCfg, eon int64, maxRows int, slotHint uint64, wild bool) []jQ {
	r := g.r
	n := r.Intn(maxRows + 1)
	idx := vh.Pick(r, int64(0), 0, 0, 0, 3, 1000)
	var rows []jQ
	for i := 0; i < n; i++ {
		if i > 0 && len(rows) > 0 && r.Chance(1, 12) {
			// duplicate (prefix, sender) of an earlier row
			o := rows[r.Intn(len(rows))]
			rows = append(rows, jQ{Index: idx, Eon: eon, Prefix: o.Prefix, Sender: o.Sender, Gas: g.gas(c)})
		} else {
			var s string
			if wild {
				s, _ = g.sender(slotHint)
			} else {
				s = addrText(r.Bytes(20))
			}
			p := r.Bytes(32)
			if wild {
				p = g.prefix()
			}
			rows = append(rows, jQ{Index: idx, Eon: eon, Prefix: p, Sender: s, Gas: g.gas(c)})
		}
		idx++
		if r.Chance(1, 9) { // index gap
			idx += vh.Pick(r, int64(1), 1, 2, 3, 7, 1<<33)
		}
	}
	return rows
}

func rowsOfEon(q []jQ, eon int64) (lo, hi int64, n int) {
	lo, hi = math.MaxInt64, -1
	for _, r := range q {
		if r.Eon == eon {
			n++
			if r.Index < lo {
				lo = r.Index
			}
			if r.Index > hi {
				hi = r.Index
			}
		}
	}
	return
}

func (g *gen) age(c jCfg) *int64 {
	r := g.r
	m := c.MaxAge
	if m > math.MaxInt64 {
		m = 3
	}
	mi := int64(m)
	switch r.Intn(9) {
	case 0, 1:
		return i64p(0)
	case 2:
		return i64p(1)
	case 3:
		return i64p(mi)
	case 4, 5:
		if mi == math.MaxInt64 {
			return i64p(mi)
		}
		return i64p(mi + 1)
	case 6:
		if mi > 0 {
			return i64p(mi - 1)
		}
		return i64p(0)
	case 7:
		if r.Chance(1, 8) {
			return i64p(math.MaxInt64)
		}
		return nil
	}
	return nil
}

func (g *gen) pointerValue(q []jQ, eon int64) int64 {
	r := g.r
	lo, hi, n := rowsOfEon(q, eon)
	if n == 0 {
		return vh.Pick(r, int64(0), 0, 1, 5)
	}
	switch r.Intn(12) {
	case 0:
		return 0
	case 1:
		if lo > 0 {
			return lo - 1
		}
		return 0
	case 2, 3:
		return lo
	case 4, 5, 6:
		return lo + int64(r.Intn(int(min(hi-lo, 40))+1))
	case 7:
		return hi
	case 8, 9:
		return hi + 1
	case 10:
		return hi + int64(2+r.Intn(5))
	}
	if r.Chance(1, 3) {
		return vh.Pick(r, int64(-1), math.MaxInt64, math.MaxInt64-3, 1<<40)
	}
	return hi + 1
}

var stdEons = []jE{{Eon: 0, Height: 0, Act: 0, Kci: 0}, {Eon: 1, Height: 10, Act: 100, Kci: 1}, {Eon: 2, Height: 20, Act: 200, Kci: 2}}

func stdKsets(member bool) []jK {
	return []jK{{Kci: 0, Act: 0, Member: member, Threshold: 2, N: 3}, {Kci: 1, Act: 100, Member: member, Threshold: 2, N: 4},
		{Kci: 2, Act: 200, Member: member, Threshold: 1, N: 3}}
}

func (g *gen) randomIDs(n int) [][]byte {
	ids := make([][]byte, n)
	for i := range ids {
		ids[i] = g.r.Bytes(52)
	}
	return ids
}

// state generates a database.
func (g *gen) state(c jCfg, slotHint uint64, wild bool) jState {
	r := g.r
	st := jState{}
	st.Eons = append([]jE{}, stdEons...)
	if wild && r.Chance(1, 6) {
		// the eon's keyper config index differs from its eon number / is large
		st.Eons[1].Kci = vh.Pick(r, int64(11), 1<<40, 2)
		if st.Eons[1].Kci == 2 {
			st.Eons[2].Kci = 12
		}
	}
	if wild && r.Chance(1, 10) {
		st.Eons = append(st.Eons, jE{Eon: 3, Height: 25, Act: 200, Kci: 3}) // same activation block, larger height wins
	}
	st.Ksets = stdKsets(!r.Chance(1, 10))
	kcis := map[int64]bool{0: true, 1: true, 2: true}
	for _, e := range st.Eons {
		kcis[e.Kci] = true
	}
	for _, k := range []int64{0, 1, 2, 3, 11, 12, 1 << 40} {
		if !kcis[k] {
			continue
		}
		if r.Chance(5, 6) {
			st.Queue = append(st.Queue, g.eonQueue(c, k, g.maxRows, slotHint, wild)...)
		}
		if r.Chance(4, 5) {
			st.Ptrs = append(st.Ptrs, jP{Eon: k, Value: g.pointerValue(st.Queue, k), Age: g.age(c)})
		}
		if r.Chance(1, 4) {
			t := jT{Eon: k, Slot: int64(r.Intn(50)), Ptr: int64(r.Intn(6)), Ids: g.randomIDs(1 + r.Intn(3))}
			st.Trigs = append(st.Trigs, t)
			for i := 0; i < r.Intn(4); i++ {
				st.Sigs = append(st.Sigs, jS{Eon: k, Slot: t.Slot, Kidx: int64(i), Ptr: t.Ptr, Ids: t.Ids})
			}
		}
	}
	// shuffle the queue: the physical row order must not matter
	p := r.Perm(len(st.Queue))
	q := make([]jQ, len(st.Queue))
	for i, j := range p {
		q[i] = st.Queue[j]
	}
	st.Queue = q
	st.Synced = &jSynced{Slot: 10, Block: vh.Pick(r, int64(5), 50, 98, 99, 150, 198, 250)}
	if r.Chance(1, 12) {
		st.Synced = nil
	}
	return st
}

func (g *gen) slot() uint64 {
	r := g.r
	switch r.Intn(10) {
	case 0:
		return 0
	case 1:
		return 1
	case 2:
		return 1 << 32
	case 3:
		return 1<<63 - 1
	case 4:
		if r.Chance(1, 4) {
			return 1 << 63
		}
		if r.Chance(1, 3) {
			return math.MaxUint64
		}
	}
	return uint64(11 + r.Intn(1000))
}

func genStateCase(run *vh.Run, a, b *inst, g *gen) {
	r := g.r
	c := g.cfg()
	slot := g.slot()
	st := g.state(c, slot, true)
	block := vh.Pick(r, int64(0), 50, 99, 100, 150, 199, 200, 250, 250, -5)
	if r.Chance(3, 5) {
		// make the request of this block's eon a live one: pointer inside the queue, age within the maximum
		var kci int64 = -1
		for _, e := range st.Eons {
			if e.Act <= block && (kci < 0 || true) {
				kci = e.Kci // eons are listed by ascending activation block
			}
		}
		lo, hi, n := rowsOfEon(st.Queue, kci)
		if kci >= 0 && n > 0 {
			var ptrs []jP
			for _, p := range st.Ptrs {
				if p.Eon != kci {
					ptrs = append(ptrs, p)
				}
			}
			v := lo
			if r.Chance(1, 2) {
				v = lo + int64(r.Intn(int(min(hi-lo, 10))+1))
			}
			age := int64(0)
			if c.MaxAge <= 1<<62 && c.MaxAge > 0 {
				age = int64(r.Intn(int(min(c.MaxAge, 5)) + 1))
			}
			if !(v == 0 && r.Chance(1, 4)) { // sometimes no row at all: initialised to (0, 0)
				ptrs = append(ptrs, jP{Eon: kci, Value: v, Age: &age})
			}
			st.Ptrs = ptrs
		}
	}
	s := startSession(run, a, b, "state", c, st, r.U64())
	switch x := r.Intn(100); {
	case x < 70:
		ks := int64(0)
		if e, ok := s.bk.eonFor(block); ok {
			ks = e.Kci
		}
		if r.Chance(1, 12) {
			ks = vh.Pick(r, int64(0), 1, 2)
		}
		s.apply(jOp{Kind: "trigger", Slot: slot, Block: block, Ks: ks})
		if r.Chance(1, 3) {
			// the same request again: nothing but the trigger row's slot may change
			s.apply(jOp{Kind: "trigger", Slot: slot, Block: block, Ks: ks})
		}
	case x < 78:
		eon := vh.Pick(r, uint64(0), 1, 2, 7)
		ma := int64(c.MaxAge)
		s.apply(jOp{Kind: "getptr", Eon: eon, MaxAge: ma})
	case x < 90:
		// a keys message straight into the handler, validated or not
		op := jOp{Kind: "keysrecv", Eon: vh.Pick(r, uint64(0), 1, 2, 5, 1<<63, math.MaxUint64), Slot: g.slot(),
			Txp: vh.Pick(r, uint64(0), 1, 5, 17, math.MaxInt32, math.MaxInt32+1, 1<<63-1, 1<<63, math.MaxUint64),
			Ids: g.randomIDs(r.Intn(5))}
		n := r.Intn(4)
		for i := 0; i < n; i++ {
			op.Signers = append(op.Signers, uint64(i*2))
		}
		op.NSigs = n
		if r.Chance(1, 8) && n > 0 {
			op.NSigs = n - 1 // fewer signatures than signers
		}
		if r.Chance(1, 8) {
			op.Signers = append(op.Signers, vh.Pick(r, uint64(1<<63), math.MaxUint64, 0))
			op.NSigs = len(op.Signers)
		}
		s.apply(op)
	default:
		eon := vh.Pick(r, uint64(0), 1, 2, 5)
		if r.Chance(1, 2) {
			s.apply(jOp{Kind: "sigs", Eon: eon, Kidxs: []int64{0, 1, 2}[:r.Intn(4)]})
			s.apply(jOp{Kind: "keyssent", Eon: eon, NKeys: r.Intn(5), Wrapped: r.Bool()})
		} else {
			s.apply(jOp{Kind: "keyssent", Eon: eon, NKeys: r.Intn(5), HasExtra: true, Slot: g.slot(),
				Txp: vh.Pick(r, uint64(0), 3, 9, math.MaxInt32, 1<<63, math.MaxUint64), Signers: []uint64{0, 2}, NSigs: 2, Wrapped: r.Bool()})
		}
	}
	s.finish()
}

func genHistory(run *vh.Run, a, b *inst, g *gen) {
	r := g.r
	c := g.typicalCfg()
	g.maxRows = 24
	defer func() { g.maxRows = 14 }()
	wild := r.Chance(1, 4)
	if r.Chance(1, 10) {
		c = g.cfg()
	}
	st := g.state(c, 12, wild)
	if st.Synced == nil || r.Chance(2, 3) {
		st.Synced = &jSynced{Slot: 10, Block: vh.Pick(r, int64(5), 50, 96, 97, 150, 196, 250)}
	}
	s := startSession(run, a, b, "history", c, st, r.U64())
	slot := uint64(st.Synced.Slot) + 1
	block := st.Synced.Block
	n := 6 + r.Intn(run.Scale(16, 25))
	for i := 0; i < n; i++ {
		switch x := r.Intn(100); {
		case x < 40:
			sl := slot
			if r.Chance(1, 12) && slot > 2 {
				sl = slot - uint64(1+r.Intn(2)) // a slot that was already seen
			} else {
				slot++
			}
			pr := "registered"
			if r.Chance(1, 10) {
				pr = vh.Pick(r, "not-registered", "error")
			}
			o := s.apply(jOp{Kind: "slot", Slot: sl, Proposer: pr})
			if o.Out.Kind != "trig" || !r.Chance(2, 3) {
				continue
			}
			// the keys for this trigger: produced by ourselves or received
			e, _ := s.bk.eonFor(block + 1)
			t := s.bk.trig[e.Kci]
			if t == nil {
				continue
			}
			if r.Chance(1, 2) {
				nk := 2 + r.Intn(2)
				if r.Chance(1, 5) {
					nk = r.Intn(2)
				}
				s.apply(jOp{Kind: "sigs", Eon: uint64(e.Kci), Kidxs: []int64{0, 1, 2, 3}[:nk]})
				s.apply(jOp{Kind: "keyssent", Eon: uint64(e.Kci), NKeys: len(o.Out.Ids), Wrapped: r.Bool()})
			} else {
				s.apply(jOp{Kind: "keysrecv", Eon: uint64(e.Kci), Slot: uint64(t.Slot), Txp: uint64(t.Ptr), Ids: o.Out.Ids,
					Signers: []uint64{0, 1}, NSigs: 2})
			}
			i += 2
		case x < 47:
			s.apply(jOp{Kind: "keysrecv", Eon: vh.Pick(r, uint64(0), 1, 2), Slot: slot, Txp: uint64(r.Intn(12)),
				Ids: g.randomIDs(1 + r.Intn(4)), Signers: []uint64{1, 2}, NSigs: 2})
		case x < 52:
			s.apply(jOp{Kind: "keyssent", Eon: vh.Pick(r, uint64(0), 1, 2), NKeys: 1 + r.Intn(4), HasExtra: true, Slot: slot,
				Txp: uint64(r.Intn(12)), Signers: []uint64{0, 1}, NSigs: 2, Wrapped: r.Bool()})
		case x < 56:
			s.apply(jOp{Kind: "keyssent", Eon: vh.Pick(r, uint64(0), 1, 2), NKeys: 1 + r.Intn(4), Wrapped: r.Bool()})
		case x < 64:
			s.apply(jOp{Kind: "restart"})
		case x < 80:
			eon := vh.Pick(r, int64(0), 1, 2)
			if e, ok := s.bk.eonFor(block + 1); ok && r.Chance(2, 3) {
				eon = e.Kci
			}
			next, ok := s.bk.queueLength(eon)
			if !ok {
				continue
			}
			var rows []jQ
			for k, nk := 0, 1+r.Intn(5); k < nk; k++ {
				snd := addrText(r.Bytes(20))
				if wild {
					snd, _ = g.sender(slot)
				}
				rows = append(rows, jQ{Index: next, Eon: eon, Prefix: r.Bytes(32), Sender: snd, Gas: g.gas(c)})
				next++
				if r.Chance(1, 15) {
					next++
				}
			}
			if r.Chance(1, 12) && next > 2 {
				rows = append(rows, jQ{Index: next - 2, Eon: eon, Prefix: r.Bytes(32), Sender: addrText(r.Bytes(20)), Gas: g.gas(c)}) // re-synced event
			}
			s.apply(jOp{Kind: "sync", Rows: rows})
		case x < 96:
			block += vh.Pick(r, int64(1), 1, 1, 2, 3)
			if r.Chance(1, 10) {
				block = vh.Pick(r, int64(98), 99, 198, 199, block)
			}
			sl := slot - 1
			if r.Chance(1, 20) {
				sl = slot // the block of the coming slot is already synced
			}
			s.apply(jOp{Kind: "synced", Slot: sl, Block: block})
		default:
			s.apply(jOp{Kind: "getptr", Eon: vh.Pick(r, uint64(0), 1, 2), MaxAge: int64(c.MaxAge & math.MaxInt64)})
		}
	}
	s.finish()
}

// ---------------------------------------------------------------------------------------
// forced boundary cases

func fixedAddr(b byte) string {
	a := make([]byte, 20)
	for i := range a {
		a[i] = b
	}
	return addrText(a)
}

func fixedPrefix(b byte) []byte {
	p := make([]byte, 32)
	for i := range p {
		p[i] = b
	}
	return p
}

func queueOf(eon int64, start int64, gases ...int64) []jQ {
	var q []jQ
	for i, gs := range gases {
		q = append(q, jQ{Index: start + int64(i), Eon: eon, Prefix: fixedPrefix(byte(0x10 + i)), Sender: fixedAddr(byte(0xa0 + i)), Gas: gs})
	}
	return q
}

func forced(run *vh.Run, a, b *inst) {
	std := jCfg{GasLimit: 100000, MinGas: 21000, MaxAge: 3} // row limit 5
	base := func(q []jQ, ptrs ...jP) jState {
		return jState{Queue: q, Ptrs: ptrs, Eons: stdEons, Ksets: stdKsets(true), Synced: &jSynced{Slot: 10, Block: 50}}
	}
	one := func(kind string, c jCfg, st jState, ops ...jOp) {
		runCase(run, a, b, jCase{Kind: kind, Cfg: c, St: st, Ops: ops, OrderSeed: 77})
	}
	trig := func(slot uint64, block int64, ks int64) jOp {
		return jOp{Kind: "trigger", Slot: slot, Block: block, Ks: ks}
	}
	// slots 0, 1, 2^32, 2^63-1 (and beyond int64) on an empty queue without a pointer row
	for _, sl := range []uint64{0, 1, 1 << 32, 1<<63 - 1, 1 << 63, math.MaxUint64} {
		one("state", std, base(nil), trig(sl, 50, 0))
	}
	// cumulative gas exactly at the limit after four transactions; the fifth exceeds it
	one("state", std, base(queueOf(0, 0, 25000, 25000, 25000, 25000, 25000), jP{Eon: 0, Value: 0, Age: i64p(0)}), trig(12, 50, 0))
	// one above / one below the limit at the fourth
	one("state", std, base(queueOf(0, 0, 25000, 25000, 25000, 25001, 1), jP{Eon: 0, Value: 0, Age: i64p(0)}), trig(12, 50, 0))
	one("state", std, base(queueOf(0, 0, 25000, 25000, 25000, 24999, 1, 1), jP{Eon: 0, Value: 0, Age: i64p(0)}), trig(12, 50, 0))
	// the first transaction alone exceeds the limit: it is taken, and only it
	one("state", std, base(queueOf(0, 0, 100001, 1, 1), jP{Eon: 0, Value: 0, Age: i64p(0)}), trig(12, 50, 0))
	one("state", std, base(queueOf(0, 0, math.MaxInt64, math.MaxInt64, 1), jP{Eon: 0, Value: 0, Age: i64p(0)}), trig(12, 50, 0))
	// pointer before / inside / at / beyond the end, ages 0, max, max+1, NULL; the queue has an
	// index gap, so max(index)+1 = 5 differs from the row count 4
	gap := append(queueOf(0, 0, 30000, 30000), jQ{Index: 3, Eon: 0, Prefix: fixedPrefix(0x33), Sender: fixedAddr(0xb3), Gas: 30000},
		jQ{Index: 4, Eon: 0, Prefix: fixedPrefix(0x34), Sender: fixedAddr(0xb4), Gas: 30000})
	for _, v := range []int64{0, 1, 2, 4, 5, 9} {
		for _, age := range []*int64{i64p(0), i64p(3), i64p(4), nil} {
			one("state", std, base(gap, jP{Eon: 0, Value: v, Age: age}), trig(12, 50, 0))
		}
	}
	one("state", std, base(gap, jP{Eon: 0, Value: 1, Age: i64p(4)}), jOp{Kind: "getptr", Eon: 0, MaxAge: 3})
	one("state", std, base(gap, jP{Eon: 0, Value: 1, Age: nil}), jOp{Kind: "getptr", Eon: 0, MaxAge: 3})
	one("state", std, base(gap, jP{Eon: 0, Value: 1, Age: i64p(3)}), jOp{Kind: "getptr", Eon: 0, MaxAge: 3})
	one("state", std, base(gap), jOp{Kind: "getptr", Eon: 0, MaxAge: 3})
	// several eons: block 150 belongs to eon 1; other eons' rows and pointers are not touched
	multi := append(append(queueOf(0, 0, 21000, 21000), queueOf(1, 0, 50000, 50000, 50000)...), queueOf(2, 7, 1, 2, 3)...)
	one("state", std, base(multi, jP{Eon: 0, Value: 1, Age: i64p(0)}, jP{Eon: 1, Value: 1, Age: i64p(1)}, jP{Eon: 2, Value: 0, Age: nil}), trig(99, 150, 1))
	one("state", std, base(multi, jP{Eon: 0, Value: 1, Age: i64p(0)}, jP{Eon: 1, Value: 1, Age: i64p(1)}, jP{Eon: 2, Value: 0, Age: nil}), trig(99, 250, 2))
	// duplicate (prefix, sender)
	dup := queueOf(0, 0, 21000, 21000, 21000)
	dup[2].Prefix, dup[2].Sender = dup[0].Prefix, dup[0].Sender
	one("state", std, base(dup, jP{Eon: 0, Value: 0, Age: i64p(0)}), trig(12, 50, 0))
	// the adversarial row: all-zero prefix and a sender below the slot number
	adv := queueOf(0, 0, 21000, 21000)
	adv[1].Prefix, adv[1].Sender = make([]byte, 32), addrText(smallAddr(5))
	one("state", std, base(adv, jP{Eon: 0, Value: 0, Age: i64p(0)}), trig(12, 50, 0))
	adv[1].Sender = addrText(smallAddr(12)) // equal to the slot identity
	one("state", std, base(adv, jP{Eon: 0, Value: 0, Age: i64p(0)}), trig(12, 50, 0))
	// the row window: seven transactions whose gas limits are below MinGasPerTransaction fit into
	// the encrypted gas limit, but the query returns at most 100000/21000+1 = 5 rows
	one("state", std, base(queueOf(0, 0, 0, 0, 0, 0, 0, 0, 0), jP{Eon: 0, Value: 0, Age: i64p(0)}), trig(12, 50, 0))
	// a history: slots, keys received for the trigger, self-produced keys, ageing beyond the maximum, restart
	ids := func(n int) [][]byte {
		out := make([][]byte, n)
		for i := range out {
			out[i] = fixedPrefix(byte(0x70 + i))
		}
		return out
	}
	one("history", std, base(queueOf(0, 0, 40000, 40000, 40000, 40000, 40000, 40000)),
		jOp{Kind: "slot", Slot: 11, Proposer: "registered"},
		jOp{Kind: "keysrecv", Eon: 0, Slot: 11, Txp: 0, Ids: ids(3), Signers: []uint64{0, 1}, NSigs: 2},
		jOp{Kind: "slot", Slot: 12, Proposer: "registered"},
		jOp{Kind: "sigs", Eon: 0, Kidxs: []int64{0, 2}},
		jOp{Kind: "keyssent", Eon: 0, NKeys: 3},
		jOp{Kind: "slot", Slot: 13, Proposer: "registered"},
		jOp{Kind: "slot", Slot: 13, Proposer: "registered"},
		jOp{Kind: "slot", Slot: 14, Proposer: "not-registered"},
		jOp{Kind: "slot", Slot: 15, Proposer: "registered"},
		jOp{Kind: "slot", Slot: 16, Proposer: "registered"},
		jOp{Kind: "slot", Slot: 17, Proposer: "registered"},
		jOp{Kind: "slot", Slot: 18, Proposer: "registered"},
		jOp{Kind: "keyssent", Eon: 0, NKeys: 1, HasExtra: true, Slot: 18, Txp: 6, Signers: []uint64{0, 1}, NSigs: 2, Wrapped: true},
		jOp{Kind: "restart"},
		jOp{Kind: "slot", Slot: 19, Proposer: "registered"},
		jOp{Kind: "sync", Rows: queueOf(0, 6, 1000)},
		jOp{Kind: "slot", Slot: 20, Proposer: "error"},
		jOp{Kind: "slot", Slot: 21, Proposer: "registered"},
	)
}
