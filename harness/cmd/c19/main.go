//go:build verif

// Driver for C19 (Gnosis keypers agree on each slot's identities and on the transaction
// pointer). The real code (triggerDecryption, maybeTriggerDecryption, getTxPointer,
// DecryptionKeysHandler.HandleMessage, MessagingMiddleware) runs against pgfake; two keyper
// instances work on copies of the same database (the second with permuted row order).
package main

import (
	"context"
	"encoding/hex"
	"encoding/json"
	"fmt"
	"math/big"
	"net"
	"net/http"
	"os"
	"sort"
	"strings"
	"sync"
	"time"

	"github.com/ethereum/go-ethereum/crypto"
	"github.com/jackc/pgx/v4/pgxpool"
	pubsub "github.com/libp2p/go-libp2p-pubsub"
	"github.com/rs/zerolog"

	obskeyper "github.com/shutter-network/rolling-shutter/rolling-shutter/chainobserver/db/keyper"
	"github.com/shutter-network/rolling-shutter/rolling-shutter/keyper/epochkghandler"
	"github.com/shutter-network/rolling-shutter/rolling-shutter/keyperimpl/gnosis"
	gdb "github.com/shutter-network/rolling-shutter/rolling-shutter/keyperimpl/gnosis/database"
	"github.com/shutter-network/rolling-shutter/rolling-shutter/medley/broker"
	"github.com/shutter-network/rolling-shutter/rolling-shutter/medley/encodeable/keys"
	"github.com/shutter-network/rolling-shutter/rolling-shutter/medley/retry"
	"github.com/shutter-network/rolling-shutter/rolling-shutter/medley/service"
	"github.com/shutter-network/rolling-shutter/rolling-shutter/p2p"
	"github.com/shutter-network/rolling-shutter/rolling-shutter/p2pmsg"
	"github.com/shutter-network/rolling-shutter/rolling-shutter/shdb"

	"verifharness/pgfake"
	"verifharness/vh"
)

// ---------------------------------------------------------------------------------------
// case description (JSON, replayable)

type jCfg struct {
	GasLimit uint64 `json:"gas_limit"`
	MinGas   uint64 `json:"min_gas"`
	MaxAge   uint64 `json:"max_age"`
}

type jQ struct {
	Index  int64  `json:"index"`
	Eon    int64  `json:"eon"`
	Prefix []byte `json:"prefix"`
	Sender string `json:"sender"`
	Gas    int64  `json:"gas"`
}

type jP struct {
	Eon   int64  `json:"eon"`
	Value int64  `json:"value"`
	Age   *int64 `json:"age"`
}

type jT struct {
	Eon  int64    `json:"eon"`
	Slot int64    `json:"slot"`
	Ptr  int64    `json:"ptr"`
	Ids  [][]byte `json:"ids"`
}

type jS struct {
	Eon  int64    `json:"eon"`
	Slot int64    `json:"slot"`
	Kidx int64    `json:"kidx"`
	Ptr  int64    `json:"ptr"`
	Ids  [][]byte `json:"ids"`
}

type jE struct {
	Eon    int64 `json:"eon"`
	Height int64 `json:"height"`
	Act    int64 `json:"act"`
	Kci    int64 `json:"kci"`
}

type jK struct {
	Kci       int64 `json:"kci"`
	Act       int64 `json:"act"`
	Member    bool  `json:"member"`
	Threshold int32 `json:"threshold"`
	N         int   `json:"n"`
}

type jSynced struct {
	Slot  int64 `json:"slot"`
	Block int64 `json:"block"`
}

type jState struct {
	Queue  []jQ     `json:"queue"`
	Ptrs   []jP     `json:"ptrs"`
	Trigs  []jT     `json:"trigs"`
	Sigs   []jS     `json:"sigs"`
	Eons   []jE     `json:"eons"`
	Ksets  []jK     `json:"ksets"`
	Synced *jSynced `json:"synced"`
}

type jOp struct {
	Kind     string   `json:"kind"` // trigger getptr slot keysrecv keyssent restart sync synced sigs
	Slot     uint64   `json:"slot,omitempty"`
	Block    int64    `json:"block,omitempty"`
	Ks       int64    `json:"ks,omitempty"`
	Eon      uint64   `json:"eon,omitempty"`
	MaxAge   int64    `json:"max_age,omitempty"`
	Proposer string   `json:"proposer,omitempty"` // registered | not-registered | error
	Txp      uint64   `json:"txp,omitempty"`
	Ids      [][]byte `json:"ids,omitempty"`
	Signers  []uint64 `json:"signers,omitempty"`
	NSigs    int      `json:"nsigs,omitempty"`
	NKeys    int      `json:"nkeys,omitempty"`
	HasExtra bool     `json:"has_extra,omitempty"`
	Wrapped  bool     `json:"wrapped,omitempty"` // middleware reached through a wrapped handler instead of SendMessage
	Rows     []jQ     `json:"rows,omitempty"`
	Kidxs    []int64  `json:"kidxs,omitempty"`
}

type jCase struct {
	Kind      string `json:"kind"` // state | history
	Cfg       jCfg   `json:"cfg"`
	St        jState `json:"st"`
	Ops       []jOp  `json:"ops"`
	OrderSeed uint64 `json:"order_seed"` // row order of the second keyper's database
}

// ---------------------------------------------------------------------------------------
// observations

type outT struct {
	Kind    string   `json:"kind"` // trig nil err panic ptr handled sent dropped done
	Block   uint64   `json:"block,omitempty"`
	Ids     [][]byte `json:"ids,omitempty"`
	Err     string   `json:"err,omitempty"`
	Msg     string   `json:"msg,omitempty"`
	V       int64    `json:"v,omitempty"`
	Slot    uint64   `json:"slot,omitempty"`
	Txp     uint64   `json:"txp,omitempty"`
	Signers []uint64 `json:"signers,omitempty"`
}

type obsTrig struct {
	Eon, Slot, Ptr int64
	Hash           []byte
	Pre            []byte // preimage of Hash known to the driver (nil if unknown)
}

type obsSig struct {
	Eon, Slot, Kidx, Ptr int64
	Hash                 []byte
	Pre                  []byte
}

type obsT struct {
	Out    outT
	Ptrs   []jP
	Trigs  []obsTrig
	Sigs   []obsSig
	Latest *uint64
}

// ---------------------------------------------------------------------------------------
// fakes around the keyper: beacon API and p2p messaging

type beacon struct {
	mu       sync.Mutex
	mode     string // registered | not-registered | error
	slot     uint64
	listener net.Listener
	url      string
}

const (
	registeredValidator   = 7
	unregisteredValidator = 8
	slotsPerEpoch         = 16
)

func startBeacon() *beacon {
	b := &beacon{mode: "registered"}
	l, err := net.Listen("tcp", "127.0.0.1:0")
	if err != nil {
		panic(err)
	}
	b.listener = l
	b.url = "http://" + l.Addr().String()
	mux := http.NewServeMux()
	mux.HandleFunc("/eth/v1/validator/duties/proposer/", func(w http.ResponseWriter, r *http.Request) {
		b.mu.Lock()
		mode, slot := b.mode, b.slot
		b.mu.Unlock()
		if mode == "error" {
			http.Error(w, "no duties", http.StatusNotFound)
			return
		}
		v := registeredValidator
		if mode == "not-registered" {
			v = unregisteredValidator
		}
		w.Header().Set("Content-Type", "application/json")
		fmt.Fprintf(w, `{"execution_optimistic":false,"dependent_root":"0x00","data":[{"pubkey":"0x00","validator_index":"%d","slot":"%d"}]}`, v, slot)
	})
	go http.Serve(l, mux)
	return b
}

func (b *beacon) set(mode string, slot uint64) {
	b.mu.Lock()
	b.mode, b.slot = mode, slot
	b.mu.Unlock()
}

type fakeMessaging struct {
	sent     []p2pmsg.Message
	handlers []p2p.MessageHandler
}

func (f *fakeMessaging) Start(context.Context, service.Runner) error { return nil }
func (f *fakeMessaging) SendMessage(_ context.Context, m p2pmsg.Message, _ ...retry.Option) error {
	f.sent = append(f.sent, m)
	return nil
}
func (f *fakeMessaging) AddValidator(p2p.ValidatorFunc, ...p2pmsg.Message) {}
func (f *fakeMessaging) AddMessageHandler(mhs ...p2p.MessageHandler) {
	f.handlers = append(f.handlers, mhs...)
}

// stubHandler stands for the core keyper's key share handler: it returns the keys message
// that it has been loaded with.
type stubHandler struct{ next []p2pmsg.Message }

func (s *stubHandler) MessagePrototypes() []p2pmsg.Message {
	return []p2pmsg.Message{&p2pmsg.DecryptionKeyShares{}}
}
func (s *stubHandler) ValidateMessage(context.Context, p2pmsg.Message) (pubsub.ValidationResult, error) {
	return pubsub.ValidationAccept, nil
}
func (s *stubHandler) HandleMessage(context.Context, p2pmsg.Message) ([]p2pmsg.Message, error) {
	return s.next, nil
}

// ---------------------------------------------------------------------------------------
// one keyper instance on its own database

type inst struct {
	name    string
	srv     *pgfake.Server
	pool    *pgxpool.Pool
	empty   *pgfake.Store
	conf    *gnosis.Config
	kpr     *gnosis.Keyper
	ch      chan *broker.Event[*epochkghandler.DecryptionTrigger]
	handler *gnosis.DecryptionKeysHandler
	msging  *fakeMessaging
	mw      *gnosis.MessagingMiddleware
	stub    *stubHandler
	wrapped p2p.MessageHandler
}

var (
	theBeacon *beacon
	ownKey    *keys.ECDSAPrivate
	ownAddr   string
)

func newInst(run *vh.Run, name string) *inst {
	srv, err := pgfake.Start(pgfake.Options{RepoRoot: run.Repo})
	if err != nil {
		panic(err)
	}
	for _, ti := range srv.Ties() {
		if !ti.Informational() {
			run.Tie("pgfake(" + name + "): " + ti.String())
		}
	}
	ctx, cancel := context.WithTimeout(context.Background(), 20*time.Second)
	defer cancel()
	pool, err := srv.Pool(ctx)
	if err != nil {
		panic(err)
	}
	return &inst{name: name, srv: srv, pool: pool, empty: srv.Store().Snapshot()}
}

func (in *inst) close(run *vh.Run) {
	for _, ri := range in.srv.RuntimeIssues() {
		run.Tie("pgfake(" + in.name + ") runtime: " + ri.String())
	}
	in.pool.Close()
	in.srv.Close()
}

// configure builds the keyper objects for a configuration (also used for a restart).
func (in *inst) configure(c jCfg) {
	conf := gnosis.NewConfig()
	conf.InstanceID = 42
	conf.Gnosis.EncryptedGasLimit = c.GasLimit
	conf.Gnosis.MinGasPerTransaction = c.MinGas
	conf.Gnosis.MaxTxPointerAge = c.MaxAge
	conf.Gnosis.SlotsPerEpoch = slotsPerEpoch
	conf.Gnosis.SecondsPerSlot = 5
	conf.Gnosis.GenesisSlotTimestamp = 1
	conf.Gnosis.Node.PrivateKey = ownKey
	in.conf = conf
	in.newKeyper()
	in.handler = gnosis.VerifNewDecryptionKeysHandler(in.pool)
	in.msging = &fakeMessaging{}
	in.mw = gnosis.NewMessagingMiddleware(in.msging, in.pool, conf)
	in.stub = &stubHandler{}
	in.mw.AddMessageHandler(in.stub)
	in.wrapped = in.msging.handlers[0]
}

func (in *inst) newKeyper() {
	in.ch = make(chan *broker.Event[*epochkghandler.DecryptionTrigger], 8)
	k, err := gnosis.VerifNewKeyper(in.conf, in.pool, in.ch, theBeacon.url)
	if err != nil {
		panic(err)
	}
	in.kpr = k
}

func must(err error) {
	if err != nil {
		panic(err)
	}
}

func concat(ids [][]byte) []byte {
	var out []byte
	for _, i := range ids {
		out = append(out, i...)
	}
	return out
}

func keypersList(k jK) []string {
	var l []string
	for i := 0; i < k.N; i++ {
		a := make([]byte, 20)
		a[0] = 0xaa
		a[18] = byte(k.Kci)
		a[19] = byte(i)
		l = append(l, "0x"+hex.EncodeToString(a))
	}
	if k.Member {
		if len(l) == 0 {
			l = append(l, ownAddr)
		} else {
			l[len(l)/2] = ownAddr
		}
	}
	return l
}

// load replaces the database content by the given state.
func (in *inst) load(st jState) {
	in.srv.SetStore(in.empty)
	s := in.srv.Store()
	for _, q := range st.Queue {
		must(s.Insert("transaction_submitted_event", pgfake.Row{"index": q.Index, "block_number": int64(1), "block_hash": []byte{1},
			"tx_index": int64(0), "log_index": int64(0), "eon": q.Eon, "identity_prefix": q.Prefix, "sender": q.Sender, "gas_limit": q.Gas}))
	}
	for _, p := range st.Ptrs {
		var age any
		if p.Age != nil {
			age = *p.Age
		}
		must(s.Insert("tx_pointer", pgfake.Row{"eon": p.Eon, "age": age, "value": p.Value}))
	}
	for _, t := range st.Trigs {
		must(s.Insert(pgfake.TableGnosisCurrentDecryptionTrigger, pgfake.Row{"eon": t.Eon, "slot": t.Slot, "tx_pointer": t.Ptr,
			"identities_hash": crypto.Keccak256(concat(t.Ids))}))
	}
	for _, g := range st.Sigs {
		must(s.Insert("slot_decryption_signatures", pgfake.Row{"eon": g.Eon, "slot": g.Slot, "keyper_index": g.Kidx, "tx_pointer": g.Ptr,
			"identities_hash": crypto.Keccak256(concat(g.Ids)), "signature": []byte{byte(g.Kidx), 0x51}}))
	}
	for _, e := range st.Eons {
		must(s.Insert("eons", pgfake.Row{"eon": e.Eon, "height": e.Height, "activation_block_number": e.Act, "keyper_config_index": e.Kci}))
	}
	for _, k := range st.Ksets {
		must(s.Insert("keyper_set", pgfake.Row{"keyper_config_index": k.Kci, "activation_block_number": k.Act,
			"keypers": keypersList(k), "threshold": int64(k.Threshold)}))
	}
	if st.Synced != nil {
		must(s.Insert("transaction_submitted_events_synced_until", pgfake.Row{"block_hash": []byte{2}, "block_number": st.Synced.Block, "slot": st.Synced.Slot}))
	}
	// the registered proposer of the fake beacon chain
	must(s.Insert("validator_registrations", pgfake.Row{"block_number": int64(0), "block_hash": []byte{3}, "tx_index": int64(0),
		"log_index": int64(0), "validator_index": int64(registeredValidator), "nonce": int64(0), "is_registration": true}))
}

func classify(err error) string {
	s := err.Error()
	for _, p := range []struct{ sub, class string }{
		{"for which a block has already been processed", "EAlreadyProcessed"},
		{"failed to increment tx pointer age", "EIncrementAge"},
		{"failed to query eon for block number", "ENoEon"},
		{"failed to query transaction submitted event count", "EPointer"},
		{"failed to query tx pointer from db", "EPointer"},
		{"failed to initialize tx pointer", "EPointer"},
		{"gas limit too big", "EGasLimitTooBig"},
		{"failed to query transaction submitted events from index", "ESelect"},
		{"failed to decode sender address", "ESender"},
		{"failed to insert published tx pointer into db", "ESetTrigger"},
		{"failed to insert slot decryption signature", "EInsertSignature"},
		{"failed to get keyper set from database for eon", "EKeyperSet"},
		{"failed to count slot decryption signatures", "ESignatures"},
		{"no proposer duties found", "EProposer"},
		{"failed to get proposer duties", "EProposer"},
		{"does not contain duty for slot", "EProposer"},
		{"proposer index too big", "EProposer"},
		{"failed to query registration status", "EProposer"},
	} {
		if strings.Contains(s, p.sub) {
			return p.class
		}
	}
	return "EUnknown"
}

func drain(ch chan *broker.Event[*epochkghandler.DecryptionTrigger]) []*epochkghandler.DecryptionTrigger {
	var out []*epochkghandler.DecryptionTrigger
	for {
		select {
		case ev := <-ch:
			out = append(out, ev.Value)
		default:
			return out
		}
	}
}

func keysMessage(op jOp) *p2pmsg.DecryptionKeys {
	msg := &p2pmsg.DecryptionKeys{InstanceId: 42, Eon: op.Eon}
	if op.Kind == "keysrecv" {
		for i, id := range op.Ids {
			msg.Keys = append(msg.Keys, &p2pmsg.Key{IdentityPreimage: id, Key: []byte{byte(i), 0x4b}})
		}
	} else {
		for i := 0; i < op.NKeys; i++ {
			msg.Keys = append(msg.Keys, &p2pmsg.Key{IdentityPreimage: []byte{byte(i), 0x1d}, Key: []byte{byte(i), 0x4b}})
		}
	}
	if op.Kind == "keysrecv" || op.HasExtra {
		ex := &p2pmsg.GnosisDecryptionKeysExtra{Slot: op.Slot, TxPointer: op.Txp, SignerIndices: op.Signers}
		for i := 0; i < op.NSigs; i++ {
			ex.Signatures = append(ex.Signatures, []byte{byte(i), 0x51})
		}
		msg.Extra = &p2pmsg.DecryptionKeys_Gnosis{Gnosis: ex}
	}
	return msg
}

func sentOut(m p2pmsg.Message) outT {
	k, ok := m.(*p2pmsg.DecryptionKeys)
	if !ok {
		return outT{Kind: "err", Err: "EUnknown", Msg: fmt.Sprintf("forwarded a %T", m)}
	}
	ex, ok := k.Extra.(*p2pmsg.DecryptionKeys_Gnosis)
	if !ok || ex.Gnosis == nil {
		return outT{Kind: "err", Err: "EUnknown", Msg: "forwarded keys message without Gnosis extra"}
	}
	return outT{Kind: "sent", Slot: ex.Gnosis.Slot, Txp: ex.Gnosis.TxPointer, Signers: append([]uint64{}, ex.Gnosis.SignerIndices...)}
}

// exec runs one operation on this instance and returns its direct result.
func (in *inst) exec(c jCfg, op jOp) outT {
	ctx, cancel := context.WithTimeout(context.Background(), 30*time.Second)
	defer cancel()
	q := gdb.New(in.pool)
	var out outT
	var err error
	panicked, pmsg := vh.Guard(func() {
		switch op.Kind {
		case "trigger":
			ks := &obskeyper.KeyperSet{KeyperConfigIndex: op.Ks, ActivationBlockNumber: 0, Keypers: []string{ownAddr}, Threshold: 1}
			err = in.kpr.VerifTriggerDecryption(ctx, op.Slot, op.Block, ks)
		case "slot":
			theBeacon.set(op.Proposer, op.Slot)
			err = in.kpr.VerifProcessNewSlot(ctx, op.Slot)
		case "getptr":
			var v int64
			v, err = gnosis.VerifGetTxPointer(ctx, in.pool, int64(op.Eon), op.MaxAge)
			out = outT{Kind: "ptr", V: v}
		case "keysrecv":
			var msgs []p2pmsg.Message
			msgs, err = in.handler.HandleMessage(ctx, keysMessage(op))
			out = outT{Kind: "handled"}
			if err == nil && len(msgs) != 0 {
				out = outT{Kind: "err", Err: "EUnknown", Msg: "HandleMessage returned messages"}
			}
		case "keyssent":
			in.msging.sent = nil
			msg := keysMessage(op)
			if op.Wrapped {
				in.stub.next = []p2pmsg.Message{msg}
				var msgs []p2pmsg.Message
				msgs, err = in.wrapped.HandleMessage(ctx, &p2pmsg.DecryptionKeyShares{})
				if err == nil {
					if len(msgs) == 0 {
						out = outT{Kind: "dropped"}
					} else {
						out = sentOut(msgs[0])
					}
				}
			} else {
				err = in.mw.SendMessage(ctx, msg)
				if err == nil {
					if len(in.msging.sent) == 0 {
						out = outT{Kind: "dropped"}
					} else {
						out = sentOut(in.msging.sent[0])
					}
				}
			}
		case "restart":
			// Keyper.Start: ResetAllTxPointerAges, and a new process has no latestTriggeredSlot
			err = q.ResetAllTxPointerAges(ctx)
			in.newKeyper()
			out = outT{Kind: "done"}
		case "sync":
			for _, r := range op.Rows {
				_, err = q.InsertTransactionSubmittedEvent(ctx, gdb.InsertTransactionSubmittedEventParams{Index: r.Index, BlockNumber: 1,
					BlockHash: []byte{1}, TxIndex: 0, LogIndex: 0, Eon: r.Eon, IdentityPrefix: r.Prefix, Sender: r.Sender, GasLimit: r.Gas})
				if err != nil {
					break
				}
			}
			out = outT{Kind: "done"}
		case "synced":
			err = q.SetTransactionSubmittedEventsSyncedUntil(ctx, gdb.SetTransactionSubmittedEventsSyncedUntilParams{BlockHash: []byte{2},
				BlockNumber: op.Block, Slot: int64(op.Slot)})
			out = outT{Kind: "done"}
		case "sigs":
			tr, e2 := q.GetCurrentDecryptionTrigger(ctx, int64(op.Eon))
			if e2 == nil {
				for _, k := range op.Kidxs {
					err = q.InsertSlotDecryptionSignature(ctx, gdb.InsertSlotDecryptionSignatureParams{Eon: tr.Eon, Slot: tr.Slot, KeyperIndex: k,
						TxPointer: tr.TxPointer, IdentitiesHash: tr.IdentitiesHash, Signature: []byte{byte(k), 0x51}})
					if err != nil {
						break
					}
				}
			}
			out = outT{Kind: "done"}
		default:
			panic("unknown op kind " + op.Kind)
		}
	})
	trigs := drain(in.ch)
	if panicked {
		return outT{Kind: "panic", Msg: pmsg}
	}
	if err != nil {
		return outT{Kind: "err", Err: classify(err), Msg: err.Error()}
	}
	if op.Kind == "trigger" || op.Kind == "slot" {
		switch len(trigs) {
		case 0:
			return outT{Kind: "nil"}
		case 1:
			ids := [][]byte{}
			for _, i := range trigs[0].IdentityPreimages {
				ids = append(ids, append([]byte{}, i.Bytes()...))
			}
			return outT{Kind: "trig", Block: trigs[0].BlockNumber, Ids: ids}
		default:
			return outT{Kind: "err", Err: "EUnknown", Msg: "more than one trigger on the channel"}
		}
	}
	return out
}

func i64(v any) int64 {
	switch x := v.(type) {
	case int64:
		return x
	case int32:
		return int64(x)
	case int:
		return int64(x)
	}
	panic(fmt.Sprintf("not an integer: %T", v))
}

// observe reads the tables the property speaks about.
func (in *inst) observe(pre map[string][]byte, out outT) obsT {
	o := obsT{Out: out}
	s := in.srv.Store()
	for _, r := range s.Table("tx_pointer").Rows() {
		p := jP{Eon: i64(r["eon"]), Value: i64(r["value"])}
		if r["age"] != nil {
			a := i64(r["age"])
			p.Age = &a
		}
		o.Ptrs = append(o.Ptrs, p)
	}
	sort.Slice(o.Ptrs, func(i, j int) bool { return o.Ptrs[i].Eon < o.Ptrs[j].Eon })
	for _, r := range s.Table(pgfake.TableGnosisCurrentDecryptionTrigger).Rows() {
		h := r["identities_hash"].([]byte)
		o.Trigs = append(o.Trigs, obsTrig{Eon: i64(r["eon"]), Slot: i64(r["slot"]), Ptr: i64(r["tx_pointer"]), Hash: h, Pre: pre[string(h)]})
	}
	sort.Slice(o.Trigs, func(i, j int) bool { return o.Trigs[i].Eon < o.Trigs[j].Eon })
	for _, r := range s.Table("slot_decryption_signatures").Rows() {
		h := r["identities_hash"].([]byte)
		o.Sigs = append(o.Sigs, obsSig{Eon: i64(r["eon"]), Slot: i64(r["slot"]), Kidx: i64(r["keyper_index"]), Ptr: i64(r["tx_pointer"]), Hash: h, Pre: pre[string(h)]})
	}
	sort.Slice(o.Sigs, func(i, j int) bool {
		a, b := o.Sigs[i], o.Sigs[j]
		if a.Eon != b.Eon {
			return a.Eon < b.Eon
		}
		if a.Slot != b.Slot {
			return a.Slot < b.Slot
		}
		return a.Kidx < b.Kidx
	})
	o.Latest = in.kpr.VerifLatestTriggeredSlot()
	return o
}

// ---------------------------------------------------------------------------------------
// Coq terms

// cb writes a byte string as chunks of up to seven bytes, each a primitive integer literal
// (decoded by Corr.C19.unpack); Coq reads these far faster than string literals.
func cb(b []byte) string {
	var sb strings.Builder
	fmt.Fprintf(&sb, "(unpack (%d)%%Z [", len(b))
	for i := 0; i < len(b); i += 7 {
		j := min(i+7, len(b))
		v := uint64(0)
		for _, x := range b[i:j] {
			v = v<<8 | uint64(x)
		}
		if i > 0 {
			sb.WriteString(";")
		}
		fmt.Fprintf(&sb, "0x%x", v)
	}
	sb.WriteString("])")
	return sb.String()
}
func cbl(bs [][]byte) string { return mapList(bs, cb) }

func cz(x int64) string  { return vh.CZ(x) }
func cu(x uint64) string { return vh.CBigZ(new(big.Int).SetUint64(x)) }
func coptz(p *int64) string {
	if p == nil {
		return "None"
	}
	return vh.CSome(cz(*p))
}

func coqQ(q jQ) string {
	return vh.CApp("mkQ", cz(q.Index), cz(q.Eon), cb(q.Prefix), cb([]byte(q.Sender)), cz(q.Gas))
}
func coqP(p jP) string { return vh.CApp("mkP", cz(p.Eon), cz(p.Value), coptz(p.Age)) }

func mapList[T any](l []T, f func(T) string) string {
	xs := make([]string, len(l))
	for i, x := range l {
		xs[i] = f(x)
	}
	return vh.CList(xs)
}

func coqState(st jState) string {
	synced := "None"
	if st.Synced != nil {
		synced = vh.CSome(vh.CPair(cz(st.Synced.Slot), cz(st.Synced.Block)))
	}
	return vh.CApp("mkState",
		mapList(st.Queue, coqQ),
		mapList(st.Ptrs, coqP),
		mapList(st.Trigs, func(t jT) string { return vh.CApp("mkT", cz(t.Eon), cz(t.Slot), cz(t.Ptr), cb(concat(t.Ids))) }),
		mapList(st.Sigs, func(s jS) string {
			return vh.CApp("mkS", cz(s.Eon), cz(s.Slot), cz(s.Kidx), cz(s.Ptr), cb(concat(s.Ids)))
		}),
		mapList(st.Eons, func(e jE) string { return vh.CApp("mkE", cz(e.Eon), cz(e.Height), cz(e.Act), cz(e.Kci)) }),
		mapList(st.Ksets, func(k jK) string {
			return vh.CApp("mkK", cz(k.Kci), cz(k.Act), vh.CBool(k.Member), cz(int64(k.Threshold)))
		}),
		synced, "None")
}

func culist(l []uint64) string { return mapList(l, cu) }

func coqOp(op jOp) string {
	switch op.Kind {
	case "trigger":
		return vh.CApp("OpTrigger", cu(op.Slot), cz(op.Block), cz(op.Ks))
	case "getptr":
		return vh.CApp("OpGetPtr", cz(int64(op.Eon)), cz(op.MaxAge))
	case "slot":
		pr := map[string]string{"registered": "PRegistered", "not-registered": "PNotRegistered", "error": "PError"}[op.Proposer]
		return vh.CApp("OpSlot", cu(op.Slot), pr)
	case "keysrecv":
		return vh.CApp("OpKeysRecv", cu(op.Eon), cu(op.Slot), cu(op.Txp), cbl(op.Ids), culist(op.Signers), cz(int64(op.NSigs)))
	case "keyssent":
		extra := "None"
		if op.HasExtra {
			extra = vh.CSome(vh.CPair(vh.CPair(cu(op.Slot), cu(op.Txp)), culist(op.Signers)))
		}
		return vh.CApp("OpKeysSent", cu(op.Eon), cz(int64(op.NKeys)), extra)
	case "restart":
		return "OpRestart"
	case "sync":
		return vh.CApp("OpSync", mapList(op.Rows, coqQ))
	case "synced":
		return vh.CApp("OpSynced", cz(int64(op.Slot)), cz(op.Block))
	case "sigs":
		return vh.CApp("OpSigs", cz(int64(op.Eon)), mapList(op.Kidxs, cz))
	}
	panic("coqOp: " + op.Kind)
}

func coqOut(o outT) string {
	switch o.Kind {
	case "trig":
		return vh.CApp("OTrig", cu(o.Block), cbl(o.Ids))
	case "nil":
		return "ONil"
	case "err":
		if o.Err == "EUnknown" {
			return "OPanic" // reported as a tie issue by the caller; never equal to the model's answer by accident
		}
		return vh.CApp("OErr", o.Err)
	case "panic":
		return "OPanic"
	case "ptr":
		return vh.CApp("OPtr", cz(o.V))
	case "handled":
		return "OHandled"
	case "sent":
		return vh.CApp("OSent", cu(o.Slot), cu(o.Txp), culist(o.Signers))
	case "dropped":
		return "ODropped"
	case "done":
		return "ODone"
	}
	panic("coqOut: " + o.Kind)
}

func preOr(pre, hash []byte) []byte {
	if pre != nil {
		return pre
	}
	// unknown hash: a marker that no model row can equal (model preimages are concatenations
	// of identity preimages, which are never 33 bytes starting with ff in the generated cases)
	return append([]byte{0xff}, hash...)
}

// coqObs renders an observation; a table equal to the one of the previous observation of the
// session (prev != nil) is written None.
func coqObs(o obsT, prev *obsT) string {
	latest := "None"
	if o.Latest != nil {
		latest = vh.CSome(cu(*o.Latest))
	}
	ptrs := mapList(o.Ptrs, coqP)
	trigs := mapList(o.Trigs, func(t obsTrig) string {
		return vh.CApp("mkT", cz(t.Eon), cz(t.Slot), cz(t.Ptr), cb(preOr(t.Pre, t.Hash)))
	})
	sigs := mapList(o.Sigs, func(s obsSig) string {
		return vh.CApp("mkS", cz(s.Eon), cz(s.Slot), cz(s.Kidx), cz(s.Ptr), cb(preOr(s.Pre, s.Hash)))
	})
	opt := func(cur, before string) string {
		if prev != nil && cur == before {
			return "None"
		}
		return vh.CSome(cur)
	}
	var pp, pt, ps string
	if prev != nil {
		pp = mapList(prev.Ptrs, coqP)
		pt = mapList(prev.Trigs, func(t obsTrig) string {
			return vh.CApp("mkT", cz(t.Eon), cz(t.Slot), cz(t.Ptr), cb(preOr(t.Pre, t.Hash)))
		})
		ps = mapList(prev.Sigs, func(s obsSig) string {
			return vh.CApp("mkS", cz(s.Eon), cz(s.Slot), cz(s.Kidx), cz(s.Ptr), cb(preOr(s.Pre, s.Hash)))
		})
	}
	return vh.CApp("mkObs", coqOut(o.Out), opt(ptrs, pp), opt(trigs, pt), opt(sigs, ps), latest)
}

// ---------------------------------------------------------------------------------------
// a session: one case executed on both keypers, step by step

type session struct {
	run     *vh.Run
	a, b    *inst
	c       jCase
	pre     map[string][]byte // Keccak256(x) -> x for every concatenation the driver knows
	steps   []string
	bk      *book
	trigs   int // triggers with at least one transaction identity
	keysOps int
	last    obsT
}

func (s *session) know(ids [][]byte) {
	x := concat(ids)
	if x == nil {
		x = []byte{}
	}
	s.pre[string(crypto.Keccak256(x))] = x
}

func permFromSeed(seed uint64) func(table string, n int) []int {
	return func(table string, n int) []int {
		h := uint64(14695981039346656037)
		for _, c := range []byte(table) {
			h = (h ^ uint64(c)) * 1099511628211
		}
		r := vh.NewRNG(seed ^ h ^ uint64(n)*0x9E37)
		return r.Perm(n)
	}
}

func startSession(run *vh.Run, a, b *inst, kind string, cfg jCfg, st jState, orderSeed uint64) *session {
	s := &session{run: run, a: a, b: b, pre: map[string][]byte{}}
	s.c = jCase{Kind: kind, Cfg: cfg, St: st, OrderSeed: orderSeed}
	for _, t := range st.Trigs {
		s.know(t.Ids)
	}
	for _, g := range st.Sigs {
		s.know(g.Ids)
	}
	a.srv.SetRowOrder(nil)
	a.load(st)
	a.configure(cfg)
	// the second keyper works on a copy of the same database whose rows enumerate in another order
	b.srv.SetStore(a.srv.Store().Snapshot())
	b.srv.SetRowOrder(permFromSeed(orderSeed))
	b.configure(cfg)
	s.bk = newBook(cfg, st)
	return s
}

// rowWindowKey is reported at most a few times per run so that it cannot crowd out other
// violations (vh keeps the first 50).
const rowWindowKey = "C19:selection-cut-by-row-window"

var rowWindowReports int

func (s *session) violate(key, what string, observed, expected any) {
	if key == rowWindowKey {
		rowWindowReports++
		if rowWindowReports > 3 {
			s.run.Dist["oracle:row-window-cut-not-reported-again"]++
			return
		}
	}
	s.run.Violate(vh.Violation{Key: key, What: what, Case: s.c, Observed: observed, Expected: expected})
}

// apply executes the operation on both keypers, observes, evaluates the oracle and records the
// step for the model.
func (s *session) apply(op jOp) obsT {
	s.c.Ops = append(s.c.Ops, op)
	if op.Kind == "keysrecv" {
		s.know(op.Ids)
	}
	outA := s.a.exec(s.c.Cfg, op)
	outB := s.b.exec(s.c.Cfg, op)
	if outA.Kind == "trig" {
		s.know(outA.Ids)
	}
	if outB.Kind == "trig" {
		s.know(outB.Ids)
	}
	oa := s.a.observe(s.pre, outA)
	ob := s.b.observe(s.pre, outB)
	if outA.Kind == "err" && outA.Err == "EUnknown" {
		s.run.Tie("unclassified result of " + op.Kind + ": " + outA.Msg)
	}
	s.run.Dist["op:"+op.Kind]++
	s.run.Dist["out:"+op.Kind+":"+outA.Kind+outA.Err]++
	// two keypers with the same synced state: byte-identical requests and the same tables
	if d := diffObs(oa, ob); d != "" {
		s.violate("C19:two-keypers-differ", "two keypers on copies of the same database differ after "+op.Kind+": "+d, showObs(ob), showObs(oa))
	}
	s.bk.check(s, len(s.c.Ops)-1, op, oa)
	if outA.Kind == "trig" && len(outA.Ids) >= 2 {
		s.trigs++
	}
	if (op.Kind == "keysrecv" && outA.Kind == "handled") || (op.Kind == "keyssent" && outA.Kind == "sent") {
		s.keysOps++
	}
	var prev *obsT
	if len(s.steps) > 0 {
		prev = &s.last
	}
	s.steps = append(s.steps, vh.CPair(coqOp(op), coqObs(oa, prev)))
	s.last = oa
	return oa
}

func (s *session) finish() {
	id := s.run.NextID()
	term := vh.CApp("CHist", vh.CN(id),
		vh.CApp("mkCfg", cu(s.c.Cfg.GasLimit), cu(s.c.Cfg.MinGas), cu(s.c.Cfg.MaxAge)),
		coqState(s.c.St), vh.CList(s.steps))
	nontrivial := s.trigs >= 1
	if s.c.Kind == "history" {
		nontrivial = s.trigs >= 1 && s.keysOps >= 1
	}
	b, _ := json.Marshal(s.c)
	s.run.Dist["case:"+s.c.Kind]++
	s.run.AddCase(id, term, s.c, string(b), nontrivial)
}

func showOut(o outT) string {
	switch o.Kind {
	case "trig":
		xs := make([]string, len(o.Ids))
		for i, id := range o.Ids {
			xs[i] = hex.EncodeToString(id)
		}
		return fmt.Sprintf("trigger block=%d ids=[%s]", o.Block, strings.Join(xs, " "))
	case "err":
		return "error " + o.Err + " (" + o.Msg + ")"
	case "panic":
		return "panic (" + o.Msg + ")"
	case "ptr":
		return fmt.Sprintf("pointer %d", o.V)
	case "sent":
		return fmt.Sprintf("sent slot=%d txp=%d signers=%v", o.Slot, o.Txp, o.Signers)
	}
	return o.Kind
}

func showObs(o obsT) map[string]any {
	ptrs := []string{}
	for _, p := range o.Ptrs {
		age := "NULL"
		if p.Age != nil {
			age = fmt.Sprint(*p.Age)
		}
		ptrs = append(ptrs, fmt.Sprintf("eon=%d value=%d age=%s", p.Eon, p.Value, age))
	}
	trigs := []string{}
	for _, t := range o.Trigs {
		trigs = append(trigs, fmt.Sprintf("eon=%d slot=%d tx_pointer=%d identities_hash=%x", t.Eon, t.Slot, t.Ptr, t.Hash))
	}
	return map[string]any{"result": showOut(o.Out), "tx_pointer": ptrs, "current_decryption_trigger": trigs, "slot_decryption_signatures": len(o.Sigs)}
}

func diffObs(a, b obsT) string {
	if showOut(a.Out) != showOut(b.Out) {
		return "results differ"
	}
	ja, _ := json.Marshal([]any{a.Ptrs, a.Trigs, a.Sigs, a.Latest})
	jb, _ := json.Marshal([]any{b.Ptrs, b.Trigs, b.Sigs, b.Latest})
	if string(ja) != string(jb) {
		return "tables differ"
	}
	return ""
}

// runCase executes a recorded case (replay, corpus, forced cases).
func runCase(run *vh.Run, a, b *inst, c jCase) {
	s := startSession(run, a, b, c.Kind, c.Cfg, c.St, c.OrderSeed)
	for _, op := range c.Ops {
		s.apply(op)
	}
	s.finish()
}

func main() {
	run := vh.Start("Verif.Corr.C19", 60)
	run.SetPreamble("From Coq Require Import Uint63.\nFrom Verif Require Import Model.GnosisSlot.\nOpen Scope uint63_scope.")
	defer run.Finish()
	run.Rule = "databases (queue of 0..14 transactions per eon with gas limits below/at/above the encrypted gas limit, index gaps, several eons, duplicate (prefix, sender), undecodable and adversarially small senders; pointer rows before/inside/at/beyond the queue end with ages 0, max, max+1, NULL) under boundary configurations; state cases = one triggerDecryption / getTxPointer / keys message on such a database, histories = 6..30 operations interleaving processNewSlot, received keys (DecryptionKeysHandler.HandleMessage), self-produced and forwarded keys (MessagingMiddleware), signatures, queue growth and restarts; every operation runs on two keyper instances (second database copy with permuted row order); non-trivial = at least one trigger carrying a transaction identity (histories: and at least one processed keys message); distinct by the JSON rendering of the case"
	// the code under test prints and logs; keep the driver's own output clean
	if devnull, err := os.OpenFile(os.DevNull, os.O_WRONLY, 0); err == nil {
		os.Stdout = devnull
	}
	zerolog.SetGlobalLevel(zerolog.Disabled)

	kb := make([]byte, 32)
	kb[31] = 0x19
	kb[0] = 0x0c
	pk, err := crypto.ToECDSA(kb)
	must(err)
	ownKey = &keys.ECDSAPrivate{Key: pk}
	ownAddr = shdb.EncodeAddress(ownKey.EthereumAddress())
	theBeacon = startBeacon()
	a := newInst(run, "A")
	b := newInst(run, "B")
	defer a.close(run)
	defer b.close(run)

	if run.Replay != "" {
		var c jCase
		if err := run.LoadReplay(&c); err != nil {
			panic(err)
		}
		runCase(run, a, b, c)
		return
	}
	for _, f := range run.CorpusFiles() {
		bs, err := os.ReadFile(f)
		if err != nil {
			panic(err)
		}
		var w struct {
			Case jCase `json:"case"`
		}
		if err := json.Unmarshal(bs, &w); err != nil || w.Case.Kind == "" {
			run.Tie("corpus file " + f + " is not a C19 case")
			continue
		}
		runCase(run, a, b, w.Case)
	}
	forced(run, a, b)
	g := &gen{r: run.RNG, maxRows: 14}
	ns := run.Scale(1500, 40000)
	for i := 0; i < ns; i++ {
		genStateCase(run, a, b, g)
	}
	nh := run.Scale(300, 8000)
	for i := 0; i < nh; i++ {
		genHistory(run, a, b, g)
	}
}
