//go:build verif

// Package tmfake is a single-node stand-in for a Tendermint chain running the real shuttermint
// application (rolling-shutter/app.ShutterApp) in process.  It offers the part of
// tendermint/rpc/client.Client that the keyper uses (Block, BlockResults, BroadcastTxCommit,
// BlockchainInfo); every other method of the interface is the nil embedded interface and
// panics when called (the drivers run repository code under a guard and report that as a
// broken tie).
//
// The driver owns time: there is always one *open* block.  A broadcast transaction runs
// CheckTx and, if admitted, DeliverTx inside the open block at once and the caller gets both
// results; the block becomes visible to readers (Block, BlockResults) only when the driver
// closes it (EndBlock, Commit) with NextBlock, which also opens the following block
// (BeginBlock).  For a single-threaded caller this is indistinguishable from a
// BroadcastTxCommit that waits for inclusion, and it lets the schedule decide block boundaries
// and which transactions share a block.  A client can be told to lose the reply of its k-th
// broadcast after the transaction was applied.
package tmfake

import (
	"context"
	"errors"
	"fmt"

	abcitypes "github.com/tendermint/tendermint/abci/types"
	tmproto "github.com/tendermint/tendermint/proto/tendermint/types"
	"github.com/tendermint/tendermint/rpc/client"
	coretypes "github.com/tendermint/tendermint/rpc/core/types"
	tmtypes "github.com/tendermint/tendermint/types"

	"github.com/shutter-network/rolling-shutter/rolling-shutter/app"
)

// ErrReplyLost is what a broadcast returns when the schedule dropped its reply.
var ErrReplyLost = errors.New("tmfake: connection lost before the broadcast reply arrived")

// ErrCrash is returned by every call of a client that has been killed.
var ErrCrash = errors.New("tmfake: client is dead")

// Block is one closed block.
type Block struct {
	Height      int64
	BeginEvents []abcitypes.Event
	Txs         [][]byte
	TxResults   []*abcitypes.ResponseDeliverTx
	EndEvents   []abcitypes.Event
	Updates     []abcitypes.ValidatorUpdate
}

// TxRecord is one transaction the chain received.
type TxRecord struct {
	Seq     int    // position in the sequence of all received transactions
	From    string // name of the submitting client
	Tx      []byte
	Check   uint32 // CheckTx code
	Deliver uint32 // DeliverTx code (meaningful when Check == 0)
	Height  int64  // height of the block that contains it (0 when refused by CheckTx)
	Events  int    // number of events of the DeliverTx response
}

// Chain is the fake node.
type Chain struct {
	App     *app.ShutterApp
	ChainID string
	closed  []*Block // closed[i] has height i+1
	open    *Block
	Log     []TxRecord
	// Broadcasts counts BroadcastTxCommit calls over all clients; PerName counts them per
	// client name (crash-point numbering survives the replacement of a client object).
	Broadcasts int
	PerName    map[string]int
	// OnBroadcast, when set, is called before a client broadcast is processed (the schedule
	// may insert other transactions or close blocks first).
	OnBroadcast func(from string, tx []byte)
}

// New wraps an initialised application (InitChain already done) and opens block 1.
func New(a *app.ShutterApp, chainID string) *Chain {
	c := &Chain{App: a, ChainID: chainID, PerName: map[string]int{}}
	c.openBlock()
	return c
}

func (c *Chain) openBlock() {
	h := int64(len(c.closed) + 1)
	res := c.App.BeginBlock(abcitypes.RequestBeginBlock{Header: tmproto.Header{Height: h, ChainID: c.ChainID}})
	c.open = &Block{Height: h, BeginEvents: res.Events}
}

// Height is the height of the latest closed block (0: none).
func (c *Chain) Height() int64 { return int64(len(c.closed)) }

// OpenHeight is the height of the block under construction.
func (c *Chain) OpenHeight() int64 { return c.open.Height }

// NextBlock closes the open block and opens the next one.
func (c *Chain) NextBlock() *Block {
	b := c.open
	res := c.App.EndBlock(abcitypes.RequestEndBlock{Height: b.Height})
	b.EndEvents = res.Events
	b.Updates = res.ValidatorUpdates
	c.App.Commit()
	c.closed = append(c.closed, b)
	c.openBlock()
	return b
}

// BlockAt returns the closed block of the given height, or nil.
func (c *Chain) BlockAt(h int64) *Block {
	if h < 1 || h > int64(len(c.closed)) {
		return nil
	}
	return c.closed[h-1]
}

// Submit runs CheckTx and, when admitted, DeliverTx in the open block.
func (c *Chain) Submit(from string, tx []byte) (abcitypes.ResponseCheckTx, abcitypes.ResponseDeliverTx, int64) {
	chk := c.App.CheckTx(abcitypes.RequestCheckTx{Tx: tx})
	rec := TxRecord{Seq: len(c.Log), From: from, Tx: append([]byte{}, tx...), Check: chk.Code}
	var dl abcitypes.ResponseDeliverTx
	if chk.Code == 0 {
		dl = c.App.DeliverTx(abcitypes.RequestDeliverTx{Tx: tx})
		cp := dl
		c.open.Txs = append(c.open.Txs, rec.Tx)
		c.open.TxResults = append(c.open.TxResults, &cp)
		rec.Deliver = dl.Code
		rec.Height = c.open.Height
		rec.Events = len(dl.Events)
	}
	c.Log = append(c.Log, rec)
	return chk, dl, rec.Height
}

// Client is one party's RPC client.
type Client struct {
	client.Client // nil: any method not defined below panics
	chain         *Chain
	Name          string
	// DropReplyAt: when > 0, this party's broadcast with that number (Chain.PerName[Name]
	// after the increment) is applied and its reply is lost.
	DropReplyAt int
	// FailBroadcastAt: when > 0, this party's broadcast with that number fails before it
	// reaches the chain.
	FailBroadcastAt int
	Dead            bool
	Calls           map[string]int
	// Cap: when > 0, this client sees the chain only up to that height ("latest" answers are
	// given as if the chain ended there); lets a driver make a party process one block at a time.
	Cap int64
}

// latest is the height this client takes for the newest block.
func (cl *Client) latest() int64 {
	h := cl.chain.Height()
	if cl.Cap > 0 && cl.Cap < h {
		return cl.Cap
	}
	return h
}

// NewClient returns a client of the chain for the named party.
func (c *Chain) NewClient(name string) *Client {
	return &Client{chain: c, Name: name, Calls: map[string]int{}}
}

func (cl *Client) Block(_ context.Context, height *int64) (*coretypes.ResultBlock, error) {
	cl.Calls["Block"]++
	if cl.Dead {
		return nil, ErrCrash
	}
	c := cl.chain
	h := cl.latest()
	if height != nil {
		h = *height
	}
	if h == 0 {
		return &coretypes.ResultBlock{}, nil // no block yet
	}
	b := c.BlockAt(h)
	if b == nil {
		return nil, fmt.Errorf("height %d must be less than or equal to the current blockchain height %d", h, c.Height())
	}
	txs := tmtypes.Txs{}
	for _, t := range b.Txs {
		txs = append(txs, tmtypes.Tx(t))
	}
	return &coretypes.ResultBlock{Block: &tmtypes.Block{
		Header:     tmtypes.Header{ChainID: c.ChainID, Height: h},
		Data:       tmtypes.Data{Txs: txs},
		LastCommit: &tmtypes.Commit{Height: h - 1},
	}}, nil
}

func (cl *Client) BlockResults(_ context.Context, height *int64) (*coretypes.ResultBlockResults, error) {
	cl.Calls["BlockResults"]++
	if cl.Dead {
		return nil, ErrCrash
	}
	c := cl.chain
	h := cl.latest()
	if height != nil {
		h = *height
	}
	b := c.BlockAt(h)
	if b == nil {
		return nil, fmt.Errorf("height %d must be less than or equal to the current blockchain height %d", h, c.Height())
	}
	return &coretypes.ResultBlockResults{
		Height:           h,
		TxsResults:       b.TxResults,
		BeginBlockEvents: b.BeginEvents,
		EndBlockEvents:   b.EndEvents,
		ValidatorUpdates: b.Updates,
	}, nil
}

func (cl *Client) BlockchainInfo(_ context.Context, _, _ int64) (*coretypes.ResultBlockchainInfo, error) {
	cl.Calls["BlockchainInfo"]++
	if cl.Dead {
		return nil, ErrCrash
	}
	c := cl.chain
	res := &coretypes.ResultBlockchainInfo{LastHeight: cl.latest()}
	// newest first, as Tendermint answers; at most 20 metas
	for h := cl.latest(); h >= 1 && len(res.BlockMetas) < 20; h-- {
		res.BlockMetas = append(res.BlockMetas, &tmtypes.BlockMeta{Header: tmtypes.Header{ChainID: c.ChainID, Height: h}})
	}
	return res, nil
}

func (cl *Client) BroadcastTxCommit(_ context.Context, tx tmtypes.Tx) (*coretypes.ResultBroadcastTxCommit, error) {
	cl.Calls["BroadcastTxCommit"]++
	if cl.Dead {
		return nil, ErrCrash
	}
	c := cl.chain
	c.Broadcasts++
	c.PerName[cl.Name]++
	n := c.PerName[cl.Name]
	if cl.FailBroadcastAt > 0 && n == cl.FailBroadcastAt {
		cl.Dead = true
		return nil, ErrCrash
	}
	if c.OnBroadcast != nil {
		c.OnBroadcast(cl.Name, tx)
	}
	chk, dl, h := c.Submit(cl.Name, tx)
	if cl.DropReplyAt > 0 && n == cl.DropReplyAt {
		cl.Dead = true
		return nil, ErrReplyLost
	}
	return &coretypes.ResultBroadcastTxCommit{CheckTx: chk, DeliverTx: dl, Height: h}, nil
}
