//go:build verif

// Package syncrig is the rig shared by the C15 and C16 drivers: a scenario (a block tree with
// contract events and plain logs, a sequence of observed heads with injected faults) is
// executed against the repository's real syncers, which talk to ethfake (execution node) and
// pgfake (PostgreSQL).  Trusted harness code.
package syncrig

import (
	"context"
	"fmt"
	"math/big"
	"sort"
	"strings"
	"time"

	"github.com/ethereum/go-ethereum/common"
	"github.com/ethereum/go-ethereum/core/types"
	"github.com/ethereum/go-ethereum/crypto"
	"github.com/ethereum/go-ethereum/ethclient"
	"github.com/jackc/pgx/v4/pgxpool"
	"github.com/rs/zerolog"

	"verifharness/ethfake"
	"verifharness/pgfake"
)

// ---------------------------------------------------------------------------------------
// scenario format (JSON, replayable)

// Ev is a contract event of the synced contract (which contract depends on the syncer).
type Ev struct {
	Eon   uint64 `json:"eon"`
	P     uint8  `json:"p"`               // identity prefix = 32 bytes {P, 0, ...}
	S     uint8  `json:"s"`               // sender = 20 bytes {0x20, .., S}
	TS    uint64 `json:"ts,omitempty"`    // IdentityRegistered.timestamp
	Def   int    `json:"def,omitempty"`   // EventTriggerRegistered: index into Scenario.Defs
	Exp   uint64 `json:"exp,omitempty"`   //   expirationBlockNumber
	Idx   uint64 `json:"idx,omitempty"`   // TransactionSubmitted.txIndex
	Gas   string `json:"gas,omitempty"`   //   gasLimit (decimal)
	Noise int    `json:"noise,omitempty"` // 1: same event from another contract, 2: another event id of the same contract
}

// Lg is a plain log of some other contract (C16: what triggers are matched against).
type Lg struct {
	A uint8  `json:"a"` // emitting contract = 20 bytes {0xa0, .., A}
	T uint8  `json:"t"` // topic0 = 32 bytes {0x70, .., T}
	V uint64 `json:"v"` // data = one 32-byte word
	// optional: the full first data word (decimal, up to 2^256-1; overrides V), a second data word,
	// and a second topic (decimal value of the 32-byte word)
	W  string `json:"w,omitempty"`
	W2 string `json:"w2,omitempty"`
	T1 string `json:"t1,omitempty"`
}

// Word parses a decimal string into a 32-byte big-endian word (panics on garbage: scenarios are generated).
func Word(dec string) [32]byte {
	var w [32]byte
	n, ok := new(big.Int).SetString(dec, 10)
	if !ok || n.Sign() < 0 || n.BitLen() > 256 {
		panic("bad word " + dec)
	}
	n.FillBytes(w[:])
	return w
}

// DataWords returns the data words of a plain log.
func (l *Lg) DataWords() [][32]byte {
	var w0 [32]byte
	if l.W != "" {
		w0 = Word(l.W)
	} else {
		new(big.Int).SetUint64(l.V).FillBytes(w0[:])
	}
	out := [][32]byte{w0}
	if l.W2 != "" {
		out = append(out, Word(l.W2))
	}
	return out
}

// TopicWords returns the topics of a plain log.
func (l *Lg) TopicWords() [][32]byte {
	out := [][32]byte{Topic(l.T)}
	if l.T1 != "" {
		out = append(out, Word(l.T1))
	}
	return out
}

// Item is one log of a block, in log-index order.
type Item struct {
	Tx uint `json:"tx"`
	Ev *Ev  `json:"ev,omitempty"`
	Lg *Lg  `json:"lg,omitempty"`
}

// BlockSpec adds Count (0 means 1) blocks on top of the block with id Parent; block ids are
// assigned in order of creation, genesis is 0.  Items go into the first of them.
type BlockSpec struct {
	Parent int    `json:"parent"`
	Count  int    `json:"count,omitempty"`
	Salt   uint64 `json:"salt,omitempty"`
	Items  []Item `json:"items,omitempty"`
}

// RPCFault fails the Call-th JSON-RPC request of the step's Sync.
type RPCFault struct {
	Call int    `json:"call"`
	Kind string `json:"kind"` // rpc-error | http-500 | drop | delay
}

// DBFault fails the Op-th database operation (stand-alone query or transaction; taken modulo
// the number of operations of the fault-free run) of the step's Sync.
type DBFault struct {
	Op   int    `json:"op"`
	Mode string `json:"mode"` // stmt | drop | drop-commit | drop-after-commit
	Sub  int    `json:"sub"`  // which statement / message of the operation (modulo)
}

// ---------------------------------------------------------------------------------------

// Rig is the pair of fakes plus one connection pool and one ethclient.
type Rig struct {
	Ctx    context.Context
	PG     *pgfake.Server
	Pool   *pgxpool.Pool
	Chain  *ethfake.Chain
	Eth    *ethfake.Server
	Client *ethclient.Client
	Blocks []*ethfake.Block // by id
	Specs  map[int]*BlockSpec
	Broken bool // a call hit the watchdog: the rig must not be used any more
}

// Addresses of the synced contracts and of the decoys.
var (
	RegistryAddr  = common.HexToAddress("0x1000000000000000000000000000000000000001")
	TriggerAddr   = common.HexToAddress("0x1000000000000000000000000000000000000002")
	SequencerAddr = common.HexToAddress("0x1000000000000000000000000000000000000003")
	DecoyAddr     = common.HexToAddress("0x1000000000000000000000000000000000000009")
)

func Prefix(p uint8) (out [32]byte) { out[0] = p; out[31] = 0x5a; return }
func Sender(s uint8) common.Address {
	var a common.Address
	a[0] = 0x20
	a[19] = s
	return a
}
func LogAddr(a uint8) common.Address {
	var x common.Address
	x[0] = 0xa0
	x[19] = a
	return x
}
func Topic(t uint8) (h common.Hash) { h[0] = 0x70; h[31] = t; return }

// GasOf parses Ev.Gas.
func GasOf(e *Ev) *big.Int {
	if e.Gas == "" {
		return big.NewInt(0)
	}
	g, ok := new(big.Int).SetString(e.Gas, 10)
	if !ok {
		panic("bad gas " + e.Gas)
	}
	return g
}

// New starts both fakes.  kind selects how contract events are packed ("registry", "multi",
// "sequencer"); defs are the trigger definitions Ev.Def refers to.
func New(repo string) (*Rig, error) {
	zerolog.SetGlobalLevel(zerolog.Disabled)
	ctx := context.Background()
	pg, err := pgfake.Start(pgfake.Options{RepoRoot: repo})
	if err != nil {
		return nil, err
	}
	// Several pool connections, as in deployment: code that (wrongly) talks to the pool from inside a
	// BeginFunc gets its own connection and autocommits, instead of dead-locking on a pool of one.
	// Correct code uses one connection at a time, so the order of frontend messages is the order of
	// its calls (pgxpool hands out the most recently released connection).
	cctx, ccancel := context.WithTimeout(ctx, 20*time.Second)
	defer ccancel()
	pool, err := pgxpool.Connect(cctx, strings.Replace(pg.ConnString(), "pool_max_conns=4", "pool_max_conns=3&connect_timeout=10&pool_health_check_period=6h&pool_max_conn_lifetime=12h&pool_max_conn_idle_time=12h", 1))
	if err != nil {
		return nil, err
	}
	r := &Rig{Ctx: ctx, PG: pg, Pool: pool}
	return r, nil
}

// Close stops everything.
func (r *Rig) Close() {
	if r.Client != nil {
		r.Client.Close()
	}
	if r.Eth != nil {
		r.Eth.Close()
	}
	r.Pool.Close()
	r.PG.Close()
}

// PackItem turns a scenario item into a log as the given syncer kind sees it.
func PackItem(kind string, defs [][]byte, it Item) ethfake.LogSpec {
	if it.Lg != nil {
		var data []byte
		for _, w := range it.Lg.DataWords() {
			data = append(data, w[:]...)
		}
		var topics []common.Hash
		for _, t := range it.Lg.TopicWords() {
			topics = append(topics, common.Hash(t))
		}
		return ethfake.LogSpec{Address: LogAddr(it.Lg.A), Topics: topics, Data: data, TxIndex: it.Tx}
	}
	e := it.Ev
	var contract common.Address
	var l ethfake.LogSpec
	switch kind {
	case "registry":
		contract = RegistryAddr
		l = ethfake.IdentityRegistered(contract, it.Tx, e.Eon, Prefix(e.P), Sender(e.S), e.TS)
	case "multi":
		contract = TriggerAddr
		l = ethfake.EventTriggerRegistered(contract, it.Tx, e.Eon, Prefix(e.P), Sender(e.S), defs[e.Def], e.Exp)
	case "sequencer":
		contract = SequencerAddr
		l = ethfake.TransactionSubmitted(contract, it.Tx, e.Eon, e.Idx, Prefix(e.P), Sender(e.S), []byte{0xee, byte(e.Idx)}, GasOf(e))
	default:
		panic("unknown syncer kind " + kind)
	}
	switch e.Noise {
	case 1:
		l.Address = DecoyAddr
	case 2:
		l.Topics[0] = crypto.Keccak256Hash([]byte("SomethingElse(uint64)"))
	}
	return l
}

// Build creates the block tree of a scenario and starts the node fake on it.
func (r *Rig) Build(kind string, defs [][]byte, specs []BlockSpec) error {
	r.Chain = ethfake.NewChain(100)
	r.Blocks = []*ethfake.Block{r.Chain.Genesis()}
	r.Specs = map[int]*BlockSpec{}
	for i := range specs {
		sp := &specs[i]
		if sp.Parent < 0 || sp.Parent >= len(r.Blocks) {
			return fmt.Errorf("block spec %d: parent %d does not exist", i, sp.Parent)
		}
		logs := make([]ethfake.LogSpec, len(sp.Items))
		for j, it := range sp.Items {
			logs[j] = PackItem(kind, defs, it)
		}
		b := r.Chain.Add(r.Blocks[sp.Parent], sp.Salt, logs)
		r.Specs[len(r.Blocks)] = sp
		r.Blocks = append(r.Blocks, b)
		for k := 1; k < sp.Count; k++ {
			b = r.Chain.Add(b, sp.Salt, nil)
			r.Blocks = append(r.Blocks, b)
		}
	}
	var err error
	r.Eth, err = ethfake.Start(r.Chain)
	if err != nil {
		return err
	}
	r.Client, err = r.Eth.Dial(r.Ctx)
	return err
}

// ItemsOf returns the scenario items of a block (by id), nil for filler blocks and genesis.
func (r *Rig) ItemsOf(b *ethfake.Block) []Item {
	if sp := r.Specs[b.ID]; sp != nil {
		return sp.Items
	}
	return nil
}

// ---------------------------------------------------------------------------------------
// running one Sync with faults

// Syncer is what the three syncers have in common.
type Syncer interface {
	Sync(ctx context.Context, header *types.Header) error
}

// DBOp is one database operation of a Sync as seen in pgfake's message log.
type DBOp struct {
	Tx       bool
	Msgs     []int64 // message indices (relative to the start of the Sync)
	Executes []int   // positions in Msgs of the Execute messages
	Stmts    []string
	Commit   int // position in Msgs of the commit, -1 if none
}

func splitOps(log []pgfake.MsgLogEntry) []DBOp {
	var ops []DBOp
	var cur *DBOp
	for _, m := range log {
		switch {
		case m.Kind == "Query" && m.Stmt == "begin":
			ops = append(ops, DBOp{Tx: true, Commit: -1})
			cur = &ops[len(ops)-1]
			cur.Msgs = append(cur.Msgs, m.Index)
		case m.Kind == "Query" && (m.Stmt == "commit" || m.Stmt == "rollback"):
			if cur != nil {
				if m.Stmt == "commit" {
					cur.Commit = len(cur.Msgs)
				}
				cur.Msgs = append(cur.Msgs, m.Index)
			}
			cur = nil
		case m.Kind == "Startup" || m.Kind == "Terminate":
		default:
			if cur == nil {
				// a stand-alone statement: Bind/Describe/Execute/Sync (Parse/Describe/Sync before it when cold)
				if len(ops) == 0 || ops[len(ops)-1].Tx || (len(ops[len(ops)-1].Executes) > 0 && m.Kind != "Sync") {
					ops = append(ops, DBOp{Commit: -1})
				}
				o := &ops[len(ops)-1]
				if m.Kind == "Execute" {
					o.Executes = append(o.Executes, len(o.Msgs))
					o.Stmts = append(o.Stmts, m.Stmt)
				}
				o.Msgs = append(o.Msgs, m.Index)
			} else {
				if m.Kind == "Execute" {
					cur.Executes = append(cur.Executes, len(cur.Msgs))
					cur.Stmts = append(cur.Stmts, m.Stmt)
				}
				cur.Msgs = append(cur.Msgs, m.Index)
			}
		}
	}
	return ops
}

// Outcome of one Sync under faults.
type Outcome struct {
	Err      error
	Panic    string
	RPCCalls []ethfake.Call
	// model-level rendering of the injected faults
	RPCFaults []string // per RPC call index: "" | "fail"
	DBFaults  []string // per DB op index: "" | "fail" | "fail-applied"
	DBNote    string
	// Misplaced: the message sequence of the real run departed from the dry run's before the
	// fault's message (a different pool connection with a cold statement cache, a different
	// iteration order of a Go map ...), so the fault did not hit the operation it was aimed at and
	// its model-level rendering is unknown.  The run is still a valid execution for the oracle.
	Misplaced bool
}

func armRPC(e *ethfake.Server, f *RPCFault) {
	if f == nil {
		return
	}
	k := ethfake.RPCError
	switch f.Kind {
	case "http-500":
		k = ethfake.HTTP500
	case "drop":
		k = ethfake.Drop
	case "delay":
		k = ethfake.Delay
	}
	e.FailCall(f.Call, ethfake.Fault{Kind: k, Delay: 3 * time.Second})
}

// SyncTimeout bounds one Sync call (context deadline); SyncWatchdog is the point at which the
// rig gives up on a call that ignores its context.
const (
	SyncTimeout  = 8 * time.Second
	SyncWatchdog = 20 * time.Second
)

// guard runs f with recover and under a watchdog.
func (r *Rig) guard(f func() error) (err error, panicked string) {
	type res struct {
		err error
		p   string
	}
	ch := make(chan res, 1)
	go func() {
		var out res
		defer func() {
			if e := recover(); e != nil {
				out.p = fmt.Sprint(e)
			}
			ch <- out
		}()
		out.err = f()
	}()
	select {
	case o := <-ch:
		return o.err, o.p
	case <-time.After(SyncWatchdog):
		r.Broken = true
		return nil, fmt.Sprintf("watchdog: the call did not return within %v", SyncWatchdog)
	}
}

// RunSync executes s.Sync(header) with the given faults.  A database fault is placed with
// the help of two fault-free (as to the database) dry runs from the same database state: the
// first warms the prepared-statement cache of the connection, the second yields the message
// sequence, which is then the sequence of the real run.
func (r *Rig) RunSync(s Syncer, header *types.Header, rf *RPCFault, df *DBFault) Outcome {
	var out Outcome
	ctx, cancel0 := context.WithTimeout(r.Ctx, SyncTimeout)
	defer cancel0()
	if rf != nil && rf.Kind == "delay" {
		var cancel context.CancelFunc
		ctx, cancel = context.WithTimeout(ctx, 1500*time.Millisecond)
		defer cancel()
	}
	run := func(c context.Context) (error, string) {
		r.Eth.ResetCalls()
		armRPC(r.Eth, rf)
		r.PG.ResetCounters()
		return r.guard(func() error { return s.Sync(c, header) })
	}
	if df != nil {
		snap := r.PG.Store().Snapshot()
		var ops []DBOp
		var dryLog []pgfake.MsgLogEntry
		for i := 0; i < 2; i++ {
			c2, cancel := context.WithTimeout(r.Ctx, SyncTimeout)
			if rf != nil && rf.Kind == "delay" {
				cancel()
				c2, cancel = context.WithTimeout(r.Ctx, 1500*time.Millisecond)
			}
			run(c2)
			cancel()
			dryLog = r.PG.MsgLog()
			ops = splitOps(dryLog)
			r.PG.SetStore(snap)
		}
		r.Eth.ResetCalls()
		armRPC(r.Eth, rf)
		r.PG.ResetCounters()
		if len(ops) > 0 {
			oi := df.Op % len(ops)
			op := ops[oi]
			out.DBFaults = make([]string, oi+1)
			out.DBFaults[oi] = "fail"
			mode := df.Mode
			if (mode == "drop-after-commit" || mode == "drop-commit") && (!op.Tx || op.Commit < 0) {
				mode = "drop"
			}
			if mode == "stmt" && len(op.Executes) == 0 {
				mode = "drop"
			}
			switch mode {
			case "stmt":
				at := op.Msgs[op.Executes[df.Sub%len(op.Executes)]]
				r.PG.InjectFault(pgfake.Fault{AtMsg: at, Kind: pgfake.FailStatement, SQLState: "XX000"})
				out.DBNote = fmt.Sprintf("op %d/%d: FailStatement at message %d (%s)", oi, len(ops), at, op.Stmts[df.Sub%len(op.Executes)])
			case "drop":
				n := len(op.Msgs)
				if op.Commit >= 0 {
					n = op.Commit + 1 // up to and including the commit message: not applied
				}
				at := op.Msgs[df.Sub%n]
				r.PG.InjectFault(pgfake.Fault{AtMsg: at, Kind: pgfake.DropBefore})
				out.DBNote = fmt.Sprintf("op %d/%d: DropBefore message %d", oi, len(ops), at)
			case "drop-commit":
				at := op.Msgs[op.Commit]
				r.PG.InjectFault(pgfake.Fault{AtMsg: at, Kind: pgfake.DropBefore})
				out.DBNote = fmt.Sprintf("op %d/%d: DropBefore the COMMIT message %d", oi, len(ops), at)
			case "drop-after-commit":
				at := op.Msgs[op.Commit]
				r.PG.InjectFault(pgfake.Fault{AtMsg: at, Kind: pgfake.DropAfterCommit})
				out.DBFaults[oi] = "fail-applied"
				out.DBNote = fmt.Sprintf("op %d/%d: DropAfterCommit at message %d", oi, len(ops), at)
			}
		}
		out.Err, out.Panic = r.guard(func() error { return s.Sync(ctx, header) })
		// the real run must have sent the dry run's messages up to the fault: same operations, same
		// order (statements inside one transaction may be permuted by a map iteration)
		if fired := r.PG.FiredFaults(); len(fired) > 0 {
			at := fired[0].AtMsg
			real := r.PG.MsgLog()
			opOf := func(ops []DBOp, idx int64) int {
				for i, o := range ops {
					for _, m := range o.Msgs {
						if m == idx {
							return i
						}
					}
				}
				return -1
			}
			realOps := splitOps(real)
			want := opOf(ops, at)
			if got := opOf(realOps, at); got != want || want < 0 || ops[want].Tx != realOps[got].Tx {
				out.Misplaced = true
			} else {
				for i := 0; i < want; i++ { // the operations before it are the same
					if ops[i].Tx != realOps[i].Tx || len(ops[i].Msgs) != len(realOps[i].Msgs) || ops[i].Msgs[0] != realOps[i].Msgs[0] {
						out.Misplaced = true
					}
				}
				// inside the operation: a commit-level fault must have hit the commit
				if m := int(at - ops[want].Msgs[0]); !out.Misplaced && m < len(realOps[want].Msgs) {
					dk, rk := "", ""
					if int(at) < len(dryLog) {
						dk = dryLog[at].Kind + " " + dryLog[at].Stmt
					}
					if int(at) < len(real) {
						rk = real[at].Kind + " " + real[at].Stmt
					}
					isCommit := func(s string) bool { return s == "Query commit" }
					if isCommit(dk) != isCommit(rk) || (dryLog[at].Kind == "Execute") != (real[at].Kind == "Execute") {
						out.Misplaced = true
					}
				}
			}
			if out.Misplaced {
				out.DBNote += " (MISPLACED: the real run's message sequence differs from the dry run's)"
			}
		}
		if pend := r.PG.PendingFaults(); len(pend) > 0 {
			// the real run did not reach the message: no database fault happened
			out.DBFaults = nil
			out.DBNote += " (not reached)"
			r.PG.ResetCounters()
		} else {
			for _, ff := range r.PG.FiredFaults() {
				if !ff.Applied {
					out.DBNote += " (fault did not apply: " + ff.Note + ")"
					out.DBFaults = nil
				}
			}
		}
	} else {
		out.Err, out.Panic = run(ctx)
	}
	out.RPCCalls = r.Eth.Calls()
	if rf != nil {
		out.RPCFaults = make([]string, rf.Call+1)
		out.RPCFaults[rf.Call] = "fail"
	}
	return out
}

// ---------------------------------------------------------------------------------------
// observation

// Row is one row of an event table, projected.
type Row struct {
	Block   int64  `json:"block"`
	BHash   []byte `json:"bhash"`
	Tx      int64  `json:"tx"`
	Log     int64  `json:"log"`
	Eon     int64  `json:"eon"`
	Prefix  []byte `json:"prefix"`
	Sender  string `json:"sender"`
	TS      int64  `json:"ts,omitempty"`
	Def     []byte `json:"def,omitempty"`
	Exp     int64  `json:"exp,omitempty"`
	Idx     int64  `json:"idx,omitempty"`
	Gas     int64  `json:"gas,omitempty"`
	Ident   []byte `json:"ident,omitempty"`
	Decrypt bool   `json:"decrypted,omitempty"`
}

// Status is the sync-status row.
type Status struct {
	Present bool   `json:"present"`
	Number  int64  `json:"number"`
	Hash    []byte `json:"hash"`
}

func i64(v any) int64 {
	if v == nil {
		return 0
	}
	return v.(int64)
}
func bs(v any) []byte {
	if v == nil {
		return nil
	}
	return v.([]byte)
}

// Tables names the event and status tables of a syncer kind.
func Tables(kind string) (events, status string) {
	switch kind {
	case "registry":
		return "identity_registered_event", "identity_registered_events_synced_until"
	case "multi":
		return "event_trigger_registered_event", "multi_event_sync_status"
	case "sequencer":
		return "transaction_submitted_event", "transaction_submitted_events_synced_until"
	}
	panic("unknown kind " + kind)
}

// ReadStatus reads the status row of the kind.
func (r *Rig) ReadStatus(kind string) Status {
	_, st := Tables(kind)
	rows := r.PG.Store().Table(st).Rows()
	if len(rows) == 0 {
		return Status{}
	}
	return Status{Present: true, Number: i64(rows[0]["block_number"]), Hash: bs(rows[0]["block_hash"])}
}

// ReadRows reads the event table of the kind in physical (insertion) order.
func (r *Rig) ReadRows(kind string) []Row {
	ev, _ := Tables(kind)
	var out []Row
	for _, x := range r.PG.Store().Table(ev).Rows() {
		row := Row{Block: i64(x["block_number"]), BHash: bs(x["block_hash"]), Tx: i64(x["tx_index"]), Log: i64(x["log_index"]),
			Eon: i64(x["eon"]), Prefix: bs(x["identity_prefix"]), Sender: x["sender"].(string)}
		switch kind {
		case "registry":
			row.TS = i64(x["timestamp"])
			row.Ident = bs(x["identity"])
			row.Decrypt = x["decrypted"].(bool)
		case "multi":
			row.Def = bs(x["definition"])
			row.Exp = i64(x["expiration_block_number"])
			row.Ident = bs(x["identity"])
			row.Decrypt = x["decrypted"].(bool)
		case "sequencer":
			row.Idx = i64(x["index"])
			row.Gas = i64(x["gas_limit"])
		}
		out = append(out, row)
	}
	return out
}

// SortRows orders rows by (block, log index, tx index).
func SortRows(rows []Row) []Row {
	out := append([]Row(nil), rows...)
	sort.SliceStable(out, func(i, j int) bool {
		if out[i].Block != out[j].Block {
			return out[i].Block < out[j].Block
		}
		if out[i].Log != out[j].Log {
			return out[i].Log < out[j].Log
		}
		return out[i].Tx < out[j].Tx
	})
	return out
}

// CheckTies reports pgfake's tie problems through the callback.
func (r *Rig) CheckTies(tie func(string)) {
	for _, t := range r.PG.Ties() {
		if t.Informational() {
			continue
		}
		tie("pgfake tie: " + t.String())
	}
	for _, is := range r.PG.RuntimeIssues() {
		tie("pgfake runtime issue: " + is.String())
	}
}
