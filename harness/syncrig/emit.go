//go:build verif

package syncrig

import (
	"fmt"
	"strings"

	"verifharness/vh"
)

// Emitter writes cases through vh.Run but binds every byte string once per case file
// (Definition bN := hx "...". in the file's preamble): elaborating a 32-byte literal costs
// Coq about 3 ms, and the block hashes, prefixes and definitions of a scenario recur in all
// its cases.  It relies on vh flushing a file exactly when perShard cases have been added and
// on the preamble being read at flush time.
type Emitter struct {
	run      *vh.Run
	perShard int
	n        int
	names    map[string]string
	defs     []string
	extra    string
}

// NewEmitter must be given the perShard value passed to vh.Start.
func NewEmitter(run *vh.Run, perShard int, extraPreamble string) *Emitter {
	return &Emitter{run: run, perShard: perShard, names: map[string]string{}, extra: extraPreamble}
}

// B renders a byte string as a Coq term (a name bound in the preamble of the current file).
func (e *Emitter) B(b []byte) string {
	if len(b) < 6 {
		return vh.CBytes(b)
	}
	k := string(b)
	if n, ok := e.names[k]; ok {
		return n
	}
	n := fmt.Sprintf("b%d", len(e.names))
	e.names[k] = n
	e.defs = append(e.defs, "Definition "+n+" := "+vh.CBytes(b)+".")
	return n
}

func (e *Emitter) preamble() string { return e.extra + "\n" + strings.Join(e.defs, "\n") + "\n" }

// Add records one case (see vh.Run.AddCase).
func (e *Emitter) Add(id uint64, term string, js any, canonKey string, nontrivial bool) {
	e.n++
	if e.n >= e.perShard {
		e.run.SetPreamble(e.preamble())
		e.run.AddCase(id, term, js, canonKey, nontrivial) // flushes the file
		e.n, e.names, e.defs = 0, map[string]string{}, nil
		return
	}
	e.run.AddCase(id, term, js, canonKey, nontrivial)
}

// Close must be called before vh.Run.Finish (which flushes the last, partial file).
func (e *Emitter) Close() { e.run.SetPreamble(e.preamble()) }
