// Package vh holds what every property driver shares: the seeded PRNG, the emitters that
// print values as Coq terms, and the writer of cases_*.v / cases.jsonl / stats.json.
package vh

import (
	"encoding/hex"
	"encoding/json"
	"flag"
	"fmt"
	"math/big"
	"os"
	"path/filepath"
	"sort"
	"strings"
)

// ---------------------------------------------------------------------------------------
// PRNG: splitmix64, every random choice of a run derives from the one seed.

type RNG struct{ s uint64 }

// NewRNG mixes the seed first, so that consecutive seeds give unrelated streams.
func NewRNG(seed uint64) *RNG {
	z := seed + 0x632BE59BD9B4E019
	z = (z ^ (z >> 30)) * 0xBF58476D1CE4E5B9
	z = (z ^ (z >> 27)) * 0x94D049BB133111EB
	z ^= z >> 31
	return &RNG{s: z*0xD6E8FEB86659FD93 + 0x1234567}
}

func (r *RNG) U64() uint64 {
	r.s += 0x9E3779B97F4A7C15
	z := r.s
	z = (z ^ (z >> 30)) * 0xBF58476D1CE4E5B9
	z = (z ^ (z >> 27)) * 0x94D049BB133111EB
	return z ^ (z >> 31)
}

// Intn returns a value in [0,n).
func (r *RNG) Intn(n int) int {
	if n <= 0 {
		return 0
	}
	return int(r.U64() % uint64(n))
}
func (r *RNG) Bool() bool           { return r.U64()&1 == 1 }
func (r *RNG) Chance(p, q int) bool { return r.Intn(q) < p }
func (r *RNG) Bytes(n int) []byte {
	b := make([]byte, n)
	for i := range b {
		b[i] = byte(r.U64())
	}
	return b
}
func (r *RNG) Fork() *RNG { return NewRNG(r.U64()) }
func (r *RNG) Perm(n int) []int {
	p := make([]int, n)
	for i := range p {
		p[i] = i
	}
	for i := n - 1; i > 0; i-- {
		j := r.Intn(i + 1)
		p[i], p[j] = p[j], p[i]
	}
	return p
}

// Pick returns one of the given values.
func Pick[T any](r *RNG, xs ...T) T { return xs[r.Intn(len(xs))] }

// ---------------------------------------------------------------------------------------
// Coq term emitters. Byte strings are `list N` on the Coq side, written (hx "00ff").

func CN(x uint64) string      { return fmt.Sprintf("%d%%N", x) }
func CNat(x int) string       { return fmt.Sprintf("%d%%nat", x) }
func CZ(x int64) string       { return fmt.Sprintf("(%d)%%Z", x) }
func CBigZ(x *big.Int) string { return "(" + x.String() + ")%Z" }
func CBigN(x *big.Int) string { return x.String() + "%N" }
func CBool(b bool) string {
	if b {
		return "true"
	}
	return "false"
}
func CBytes(b []byte) string { return `(hx "` + hex.EncodeToString(b) + `")` }
func CStr(s string) string   { return CBytes([]byte(s)) }
func CList(xs []string) string {
	if len(xs) == 0 {
		return "[]"
	}
	return "[" + strings.Join(xs, "; ") + "]"
}
func CSome(x string) string { return "(Some " + x + ")" }
func COpt(present bool, x string) string {
	if present {
		return CSome(x)
	}
	return "None"
}
func CPair(a, b string) string { return "(" + a + ", " + b + ")" }
func CApp(f string, args ...string) string {
	if len(args) == 0 {
		return f
	}
	return "(" + f + " " + strings.Join(args, " ") + ")"
}
func CBytesList(bs [][]byte) string {
	xs := make([]string, len(bs))
	for i, b := range bs {
		xs[i] = CBytes(b)
	}
	return CList(xs)
}
func CNList(ns []uint64) string {
	xs := make([]string, len(ns))
	for i, n := range ns {
		xs[i] = CN(n)
	}
	return CList(xs)
}

// ---------------------------------------------------------------------------------------
// Run: flags, case collection, output.

type Violation struct {
	Key      string `json:"key"`  // classification; compared with known_findings.json
	What     string `json:"what"` // one line: what fails
	Case     any    `json:"case"` // the concrete failing input (replayable by the driver)
	Observed any    `json:"observed,omitempty"`
	Expected any    `json:"expected,omitempty"`
}

type Run struct {
	Seed     uint64
	Tier     string
	Out      string
	Repo     string
	Corpus   string
	Replay   string
	Search   bool
	RNG      *RNG
	Thorough bool

	corrModule string // e.g. "Verif.Corr.C12"
	preamble   string
	shard      int
	perShard   int
	coqCases   []string
	jsonl      *os.File
	nextID     uint64

	Evaluations int
	nontrivial  map[string]bool
	Dist        map[string]int
	Samples     []any
	Violations  []Violation
	TieIssues   []string
	Rule        string
	Traces      int
	Exhaustive  bool
	caseIndex   []map[string]any
}

// Start parses the standard driver flags. corrModule is the Coq module that defines
// `case` constructors and `mismatches : list case -> list N`.
func Start(corrModule string, perShard int) *Run {
	r := &Run{corrModule: corrModule, perShard: perShard, nontrivial: map[string]bool{}, Dist: map[string]int{}}
	flag.Uint64Var(&r.Seed, "seed", 1, "seed")
	flag.StringVar(&r.Tier, "tier", "quick", "quick|thorough")
	flag.StringVar(&r.Out, "out", "", "output directory")
	flag.StringVar(&r.Repo, "repo", "/repo/rolling-shutter", "repository go module root")
	flag.StringVar(&r.Corpus, "corpus", "", "corpus directory")
	flag.StringVar(&r.Replay, "replay", "", "replay file")
	flag.BoolVar(&r.Search, "search", false, "enlarged oracle-only search")
	flag.Parse()
	if r.Out == "" {
		fmt.Fprintln(os.Stderr, "need -out")
		os.Exit(2)
	}
	os.MkdirAll(r.Out, 0o755)
	r.RNG = NewRNG(r.Seed)
	r.Thorough = r.Tier == "thorough"
	f, err := os.Create(filepath.Join(r.Out, "cases.jsonl"))
	if err != nil {
		panic(err)
	}
	r.jsonl = f
	return r
}

// Scale picks the case budget by tier (search mode multiplies quick by 4).
func (r *Run) Scale(quick, thorough int) int {
	if r.Thorough {
		return thorough
	}
	if r.Search {
		return quick * 4
	}
	return quick
}

// SetPreamble adds Coq text after the Require line of every cases file.
func (r *Run) SetPreamble(s string) { r.preamble = s }

// NextID hands out case ids.
func (r *Run) NextID() uint64 { r.nextID++; return r.nextID }

// AddCase records one executed case: its Coq term (of type `case`, carrying the id, the
// inputs and the implementation's observed outputs), a JSON rendering for replays, a
// canonical key for distinctness, and whether it is non-trivial by the driver's rule.
func (r *Run) AddCase(id uint64, coqTerm string, js any, canonKey string, nontrivial bool) {
	r.Evaluations++
	r.Traces++
	if nontrivial {
		r.nontrivial[canonKey] = true
	}
	r.coqCases = append(r.coqCases, coqTerm)
	b, _ := json.Marshal(map[string]any{"id": id, "case": js})
	r.jsonl.Write(append(b, '\n'))
	if len(r.Samples) < 3 || (len(r.Samples) < 6 && nontrivial && r.Evaluations%97 == 0) {
		r.Samples = append(r.Samples, js)
	}
	if len(r.coqCases) >= r.perShard {
		r.flush()
	}
}

// CountOnly records an evaluation that has no model-side case (oracle-only executions).
func (r *Run) CountOnly(canonKey string, nontrivial bool) {
	r.Evaluations++
	if nontrivial {
		r.nontrivial[canonKey] = true
	}
}

func (r *Run) flush() {
	if len(r.coqCases) == 0 {
		return
	}
	var sb strings.Builder
	fmt.Fprintf(&sb, "From Coq Require Import List NArith ZArith String.\nFrom Verif Require Import Lib.Bytes %s.\nImport ListNotations.\nOpen Scope string_scope.\n%s\n", strings.TrimPrefix(r.corrModule, "Verif."), r.preamble)
	sb.WriteString("Definition cases : list case := [\n")
	sb.WriteString(strings.Join(r.coqCases, ";\n"))
	sb.WriteString("\n].\nDefinition M := Eval vm_compute in mismatches cases.\nPrint M.\n")
	name := filepath.Join(r.Out, fmt.Sprintf("cases_%03d.v", r.shard))
	if err := os.WriteFile(name, []byte(sb.String()), 0o644); err != nil {
		panic(err)
	}
	r.shard++
	r.coqCases = nil
}

// Violate records an oracle violation; at most 5 per key and 60 overall are kept (all are
// counted in the distribution), so that one defect class cannot crowd out another.
func (r *Run) Violate(v Violation) {
	r.Dist["oracle_violation:"+v.Key]++
	if r.Dist["oracle_violation:"+v.Key] <= 5 && len(r.Violations) < 60 {
		r.Violations = append(r.Violations, v)
	}
}

func (r *Run) Tie(issue string) { r.TieIssues = append(r.TieIssues, issue) }

// Finish writes stats.json.
func (r *Run) Finish() {
	r.flush()
	r.jsonl.Close()
	keys := make([]string, 0, len(r.Dist))
	for k := range r.Dist {
		keys = append(keys, k)
	}
	sort.Strings(keys)
	st := map[string]any{
		"evaluations":                   r.Evaluations,
		"distinct_nontrivial":           len(r.nontrivial),
		"rule":                          r.Rule,
		"samples":                       r.Samples,
		"distribution":                  r.Dist,
		"oracle_violations":             r.Violations,
		"tie_issues":                    r.TieIssues,
		"traces_validated_against_impl": r.Traces,
		"exhaustive":                    r.Exhaustive,
	}
	if r.Violations == nil {
		st["oracle_violations"] = []Violation{}
	}
	b, _ := json.MarshalIndent(st, "", " ")
	if err := os.WriteFile(filepath.Join(r.Out, "stats.json"), b, 0o644); err != nil {
		panic(err)
	}
}

// LoadReplay reads a replay file written by ./check and returns its "case" member.
func (r *Run) LoadReplay(into any) error {
	b, err := os.ReadFile(r.Replay)
	if err != nil {
		return err
	}
	var w struct {
		Case json.RawMessage `json:"case"`
	}
	if err := json.Unmarshal(b, &w); err != nil {
		return err
	}
	if len(w.Case) == 0 {
		return fmt.Errorf("replay file has no case")
	}
	return json.Unmarshal(w.Case, into)
}

// CorpusFiles lists the corpus cases for this property.
func (r *Run) CorpusFiles() []string {
	if r.Corpus == "" {
		return nil
	}
	fs, _ := filepath.Glob(filepath.Join(r.Corpus, "*.json"))
	sort.Strings(fs)
	return fs
}

// Guard runs f and reports a panic as (true, message).
func Guard(f func()) (panicked bool, msg string) {
	defer func() {
		if e := recover(); e != nil {
			panicked = true
			msg = fmt.Sprint(e)
		}
	}()
	f()
	return
}
