package ethfake

import (
	"math/big"

	"github.com/ethereum/go-ethereum/accounts/abi"
	"github.com/ethereum/go-ethereum/common"
	sequencerBindings "github.com/shutter-network/gnosh-contracts/gnoshcontracts/sequencer"
	triggerRegistryV1Bindings "github.com/shutter-network/contracts/v2/bindings/shuttereventtriggerregistryv1"
	registryBindings "github.com/shutter-network/contracts/v2/bindings/shutterregistry"
)

// The logs are packed with the ABIs of the very bindings the repository's syncers decode
// them with, so a change of an event's layout in a binding changes both sides together and a
// change of the *use* of a binding in the repository is seen by the differential run.

func mustABI(md interface{ GetAbi() (*abi.ABI, error) }) *abi.ABI {
	a, err := md.GetAbi()
	if err != nil {
		panic(err)
	}
	return a
}

func packEvent(a *abi.ABI, name string, indexed []common.Hash, nonIndexed ...any) ([]common.Hash, []byte) {
	ev, ok := a.Events[name]
	if !ok {
		panic("ethfake: binding has no event " + name)
	}
	data, err := ev.Inputs.NonIndexed().Pack(nonIndexed...)
	if err != nil {
		panic(err)
	}
	return append([]common.Hash{ev.ID}, indexed...), data
}

// IdentityRegistered packs ShutterRegistry.IdentityRegistered(uint64 eon, bytes32 identityPrefix,
// address sender, uint64 timestamp).
func IdentityRegistered(contract common.Address, txIndex uint, eon uint64, prefix [32]byte, sender common.Address, timestamp uint64) LogSpec {
	t, d := packEvent(mustABI(registryBindings.ShutterregistryMetaData), "IdentityRegistered", nil, eon, prefix, sender, timestamp)
	return LogSpec{Address: contract, Topics: t, Data: d, TxIndex: txIndex}
}

// EventTriggerRegistered packs ShutterEventTriggerRegistryV1.EventTriggerRegistered(uint64 indexed eon,
// bytes32 identityPrefix, address sender, bytes triggerDefinition, uint64 expirationBlockNumber).
func EventTriggerRegistered(contract common.Address, txIndex uint, eon uint64, prefix [32]byte, sender common.Address, definition []byte, expiration uint64) LogSpec {
	t, d := packEvent(mustABI(triggerRegistryV1Bindings.Shuttereventtriggerregistryv1MetaData), "EventTriggerRegistered",
		[]common.Hash{common.BigToHash(new(big.Int).SetUint64(eon))}, prefix, sender, definition, expiration)
	return LogSpec{Address: contract, Topics: t, Data: d, TxIndex: txIndex}
}

// TransactionSubmitted packs Sequencer.TransactionSubmitted(uint64 eon, uint64 txIndex, bytes32
// identityPrefix, address sender, bytes encryptedTransaction, uint256 gasLimit).
func TransactionSubmitted(contract common.Address, txIndex uint, eon, index uint64, prefix [32]byte, sender common.Address, encryptedTx []byte, gasLimit *big.Int) LogSpec {
	t, d := packEvent(mustABI(sequencerBindings.SequencerMetaData), "TransactionSubmitted", nil, eon, index, prefix, sender, encryptedTx, gasLimit)
	return LogSpec{Address: contract, Topics: t, Data: d, TxIndex: txIndex}
}
