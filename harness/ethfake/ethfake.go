// Package ethfake is an in-process execution-node fake: a block *tree* of real
// types.Header values (parent hashes and block hashes are what go-ethereum computes) with
// logs attached to blocks, served over JSON-RPC/HTTP on a loopback port the way
// ethclient.Client and bind.BoundContract ask for them:
//
//	eth_chainId, eth_blockNumber, eth_getBlockByNumber (headers only), eth_getHeaderByNumber,
//	eth_getBlockByHash / eth_getHeaderByHash (headers only), eth_getLogs
//
// eth_getLogs filters by block range, address list and positional topic lists exactly like
// go-ethereum's eth/filters.filterLogs.  The canonical branch is "the ancestors of the
// current head" and can be switched at any time (SetHead).  Every JSON-RPC request gets a
// call index (CallCount is the index the next request will get); a fault can be armed for any
// index (FailCall): JSON-RPC error, HTTP 500, dropped connection, or a delay.
//
// Trusted harness code (DESIGN.md section 4.4).  API summary:
//
//	c := ethfake.NewChain(chainID)                  // genesis only
//	b := c.Add(parent, salt, []ethfake.LogSpec{..}) // one block on top of parent
//	b  = c.Extend(parent, n, salt)                  // n empty blocks
//	srv, _ := ethfake.Start(c); defer srv.Close()
//	srv.SetHead(b); cl, _ := srv.Dial(ctx)          // *ethclient.Client
//	srv.FailCall(srv.CallCount()+2, ethfake.Fault{Kind: ethfake.RPCError})
//	srv.Calls()                                     // log of served requests
package ethfake

import (
	"context"
	"encoding/binary"
	"encoding/json"
	"fmt"
	"io"
	"math/big"
	"net"
	"net/http"
	"strings"
	"sync"
	"time"

	"github.com/ethereum/go-ethereum/common"
	"github.com/ethereum/go-ethereum/common/hexutil"
	"github.com/ethereum/go-ethereum/core/types"
	"github.com/ethereum/go-ethereum/crypto"
	"github.com/ethereum/go-ethereum/ethclient"
	"github.com/ethereum/go-ethereum/rlp"
	"github.com/ethereum/go-ethereum/rpc"
)

// LogSpec is one log to be placed in a block: the emitting contract, topics and data
// (ABI-packed by the caller with the repository's bindings), and the index of the
// transaction that emits it.  Log indices are assigned in slice order within the block.
type LogSpec struct {
	Address common.Address
	Topics  []common.Hash
	Data    []byte
	TxIndex uint
}

// Block is a node of the block tree.
type Block struct {
	Number uint64
	Header *types.Header
	Hash   common.Hash
	Parent *Block
	Logs   []types.Log // fully populated (block hash, number, tx hash, indices)
	ID     int         // creation order, 0 = genesis
}

// Chain is a block tree rooted at one genesis block.
type Chain struct {
	mu      sync.Mutex
	ChainID uint64
	blocks  []*Block
	byHash  map[common.Hash]*Block
}

// NewChain makes a tree that contains only the genesis block.
func NewChain(chainID uint64) *Chain {
	c := &Chain{ChainID: chainID, byHash: map[common.Hash]*Block{}}
	h := &types.Header{
		ParentHash:  common.Hash{},
		UncleHash:   types.EmptyUncleHash,
		Root:        crypto.Keccak256Hash([]byte("ethfake genesis")),
		TxHash:      types.EmptyTxsHash,
		ReceiptHash: types.EmptyReceiptsHash,
		Difficulty:  big.NewInt(0),
		Number:      big.NewInt(0),
		GasLimit:    30_000_000,
		Time:        1_700_000_000,
		Extra:       []byte("ethfake"),
		BaseFee:     big.NewInt(7),
	}
	c.install(&Block{Number: 0, Header: h})
	return c
}

func (c *Chain) install(b *Block) *Block {
	b.Hash = b.Header.Hash()
	b.ID = len(c.blocks)
	c.blocks = append(c.blocks, b)
	c.byHash[b.Hash] = b
	return b
}

// Genesis returns block 0.
func (c *Chain) Genesis() *Block { return c.blocks[0] }

// Len is the number of blocks in the tree.
func (c *Chain) Len() int { c.mu.Lock(); defer c.mu.Unlock(); return len(c.blocks) }

// ByID returns the block with the given creation index.
func (c *Chain) ByID(id int) *Block { c.mu.Lock(); defer c.mu.Unlock(); return c.blocks[id] }

// Add appends one block on top of parent.  salt distinguishes siblings; the receipts root
// commits to the logs, so two blocks with the same hash carry the same logs.
func (c *Chain) Add(parent *Block, salt uint64, logs []LogSpec) *Block {
	c.mu.Lock()
	defer c.mu.Unlock()
	return c.add(parent, salt, logs)
}

func (c *Chain) add(parent *Block, salt uint64, logs []LogSpec) *Block {
	var sb [8]byte
	binary.BigEndian.PutUint64(sb[:], salt)
	receipt := types.EmptyReceiptsHash
	if len(logs) > 0 {
		enc, err := rlp.EncodeToBytes(logsForHash(logs))
		if err != nil {
			panic(err)
		}
		receipt = crypto.Keccak256Hash(enc)
	}
	h := &types.Header{
		ParentHash:  parent.Hash,
		UncleHash:   types.EmptyUncleHash,
		Coinbase:    common.BytesToAddress([]byte("ethfake coinbase")),
		Root:        crypto.Keccak256Hash(parent.Header.Root[:], sb[:]),
		TxHash:      types.EmptyTxsHash,
		ReceiptHash: receipt,
		Difficulty:  big.NewInt(0),
		Number:      new(big.Int).SetUint64(parent.Number + 1),
		GasLimit:    30_000_000,
		GasUsed:     uint64(21_000 * len(logs)),
		Time:        parent.Header.Time + 5,
		Extra:       sb[:],
		BaseFee:     big.NewInt(7),
	}
	b := &Block{Number: parent.Number + 1, Header: h, Parent: parent}
	b.Hash = h.Hash()
	for i, l := range logs {
		var tb [8]byte
		binary.BigEndian.PutUint64(tb[:], uint64(l.TxIndex))
		b.Logs = append(b.Logs, types.Log{
			Address:     l.Address,
			Topics:      append([]common.Hash{}, l.Topics...),
			Data:        append([]byte{}, l.Data...),
			BlockNumber: b.Number,
			TxHash:      crypto.Keccak256Hash([]byte("tx"), b.Hash[:], tb[:]),
			TxIndex:     l.TxIndex,
			BlockHash:   b.Hash,
			Index:       uint(i),
		})
	}
	return c.install(b)
}

type hashedLog struct {
	Address common.Address
	Topics  []common.Hash
	Data    []byte
	TxIndex uint64
}

func logsForHash(logs []LogSpec) []hashedLog {
	out := make([]hashedLog, len(logs))
	for i, l := range logs {
		out[i] = hashedLog{l.Address, l.Topics, l.Data, uint64(l.TxIndex)}
	}
	return out
}

// Extend appends n empty blocks on top of parent and returns the last one.
func (c *Chain) Extend(parent *Block, n int, salt uint64) *Block {
	c.mu.Lock()
	defer c.mu.Unlock()
	b := parent
	for i := 0; i < n; i++ {
		b = c.add(b, salt, nil)
	}
	return b
}

// Branch returns the blocks from genesis to tip, indexed by number.
func Branch(tip *Block) []*Block {
	out := make([]*Block, tip.Number+1)
	for b := tip; b != nil; b = b.Parent {
		out[b.Number] = b
	}
	return out
}

// Ancestor returns the ancestor of tip with the given number (nil if number > tip.Number).
func Ancestor(tip *Block, number uint64) *Block {
	if number > tip.Number {
		return nil
	}
	b := tip
	for b.Number > number {
		b = b.Parent
	}
	return b
}

// ---------------------------------------------------------------------------------------
// faults and call log

// FaultKind selects what an armed fault does to the request with its index.
type FaultKind int

const (
	// RPCError answers with a JSON-RPC error object (code -32000).
	RPCError FaultKind = iota
	// HTTP500 answers with status 500 and no JSON body.
	HTTP500
	// Drop closes the TCP connection without answering.
	Drop
	// Delay sleeps for Fault.Delay (or until the request context ends) and then answers normally.
	Delay
)

func (k FaultKind) String() string {
	return [...]string{"RPCError", "HTTP500", "Drop", "Delay"}[k]
}

// Fault is a one-shot fault bound to a call index.
type Fault struct {
	Kind  FaultKind
	Delay time.Duration
}

// Call describes one served JSON-RPC request.
type Call struct {
	Index  int
	Method string
	Params string // raw JSON
	Fault  string // "" or the fault kind applied
}

// Server serves one Chain.
type Server struct {
	chain *Chain
	ln    net.Listener
	hs    *http.Server

	mu     sync.Mutex
	head   *Block
	canon  []*Block
	calls  []Call
	ncalls int
	faults map[int]Fault
}

// Start serves the chain on 127.0.0.1:0; the head is the genesis block.
func Start(c *Chain) (*Server, error) {
	ln, err := net.Listen("tcp", "127.0.0.1:0")
	if err != nil {
		return nil, err
	}
	s := &Server{chain: c, ln: ln, faults: map[int]Fault{}}
	s.SetHead(c.Genesis())
	mux := http.NewServeMux()
	mux.HandleFunc("/", s.serve)
	s.hs = &http.Server{Handler: mux}
	go s.hs.Serve(ln)
	return s, nil
}

// URL is the endpoint for ethclient.Dial.
func (s *Server) URL() string { return "http://" + s.ln.Addr().String() }

// Dial returns an ethclient connected to the fake.  Every HTTP round trip is bounded by a
// client timeout, so that no caller can wait forever on the fake.
func (s *Server) Dial(ctx context.Context) (*ethclient.Client, error) {
	c, err := rpc.DialOptions(ctx, s.URL(), rpc.WithHTTPClient(&http.Client{Timeout: 15 * time.Second}))
	if err != nil {
		return nil, err
	}
	return ethclient.NewClient(c), nil
}

// Close stops the server.
func (s *Server) Close() { s.hs.Close() }

// SetHead makes the ancestors of b the canonical chain.
func (s *Server) SetHead(b *Block) {
	canon := Branch(b)
	s.mu.Lock()
	s.head, s.canon = b, canon
	s.mu.Unlock()
}

// Head returns the current head.
func (s *Server) Head() *Block { s.mu.Lock(); defer s.mu.Unlock(); return s.head }

// CallCount is the number of requests served so far = the index of the next request.
func (s *Server) CallCount() int { s.mu.Lock(); defer s.mu.Unlock(); return s.ncalls }

// Calls returns the log of served requests.
func (s *Server) Calls() []Call {
	s.mu.Lock()
	defer s.mu.Unlock()
	return append([]Call(nil), s.calls...)
}

// ResetCalls clears the call log, the counter and all armed faults.
func (s *Server) ResetCalls() {
	s.mu.Lock()
	s.calls, s.ncalls, s.faults = nil, 0, map[int]Fault{}
	s.mu.Unlock()
}

// FailCall arms a fault for the request with the given index.
func (s *Server) FailCall(index int, f Fault) {
	s.mu.Lock()
	s.faults[index] = f
	s.mu.Unlock()
}

// ---------------------------------------------------------------------------------------
// JSON-RPC

type rpcReq struct {
	JSONRPC string            `json:"jsonrpc"`
	ID      json.RawMessage   `json:"id"`
	Method  string            `json:"method"`
	Params  []json.RawMessage `json:"params"`
}

type rpcErr struct {
	Code    int    `json:"code"`
	Message string `json:"message"`
}

type rpcResp struct {
	JSONRPC string          `json:"jsonrpc"`
	ID      json.RawMessage `json:"id"`
	Result  any             `json:"result,omitempty"`
	Error   *rpcErr         `json:"error,omitempty"`
}

type nullResult struct{}

func (nullResult) MarshalJSON() ([]byte, error) { return []byte("null"), nil }

func (s *Server) serve(w http.ResponseWriter, r *http.Request) {
	body, err := io.ReadAll(r.Body)
	if err != nil {
		http.Error(w, "read", 400)
		return
	}
	trim := strings.TrimSpace(string(body))
	var reqs []rpcReq
	batch := strings.HasPrefix(trim, "[")
	if batch {
		err = json.Unmarshal(body, &reqs)
	} else {
		var one rpcReq
		err = json.Unmarshal(body, &one)
		reqs = []rpcReq{one}
	}
	if err != nil {
		http.Error(w, "bad json", 400)
		return
	}
	resps := make([]rpcResp, 0, len(reqs))
	for _, q := range reqs {
		s.mu.Lock()
		idx := s.ncalls
		s.ncalls++
		f, faulty := s.faults[idx]
		delete(s.faults, idx)
		fs := ""
		if faulty {
			fs = f.Kind.String()
		}
		s.calls = append(s.calls, Call{Index: idx, Method: q.Method, Params: rawJoin(q.Params), Fault: fs})
		s.mu.Unlock()
		if faulty {
			switch f.Kind {
			case RPCError:
				resps = append(resps, rpcResp{JSONRPC: "2.0", ID: q.ID, Error: &rpcErr{Code: -32000, Message: "ethfake: injected failure"}})
				continue
			case HTTP500:
				http.Error(w, "ethfake: injected failure", 500)
				return
			case Drop:
				if hj, ok := w.(http.Hijacker); ok {
					if conn, _, err := hj.Hijack(); err == nil {
						conn.Close()
						return
					}
				}
				http.Error(w, "ethfake: injected failure", 500)
				return
			case Delay:
				select {
				case <-time.After(f.Delay):
				case <-r.Context().Done():
					return
				}
			}
		}
		res, rerr := s.dispatch(q)
		if rerr != nil {
			resps = append(resps, rpcResp{JSONRPC: "2.0", ID: q.ID, Error: rerr})
		} else {
			if res == nil {
				res = nullResult{}
			}
			resps = append(resps, rpcResp{JSONRPC: "2.0", ID: q.ID, Result: res})
		}
	}
	w.Header().Set("Content-Type", "application/json")
	if batch {
		json.NewEncoder(w).Encode(resps)
	} else {
		json.NewEncoder(w).Encode(resps[0])
	}
}

func rawJoin(ps []json.RawMessage) string {
	xs := make([]string, len(ps))
	for i, p := range ps {
		xs[i] = string(p)
	}
	return "[" + strings.Join(xs, ",") + "]"
}

func invalid(format string, a ...any) *rpcErr {
	return &rpcErr{Code: -32602, Message: fmt.Sprintf(format, a...)}
}

// resolve a block-number argument ("latest", "earliest", "pending", "safe", "finalized", hex).
func (s *Server) resolveNumber(raw json.RawMessage, canon []*Block) (uint64, *rpcErr) {
	var str string
	if err := json.Unmarshal(raw, &str); err != nil {
		return 0, invalid("invalid block number argument %s", string(raw))
	}
	switch str {
	case "latest", "pending", "safe", "finalized":
		return uint64(len(canon) - 1), nil
	case "earliest":
		return 0, nil
	}
	n, err := hexutil.DecodeUint64(str)
	if err != nil {
		return 0, invalid("invalid block number %q: %v", str, err)
	}
	return n, nil
}

func headerJSON(b *Block) any {
	// types.Header.MarshalJSON adds "hash"; ethclient recomputes the hash from the fields.
	return b.Header
}

func (s *Server) dispatch(q rpcReq) (any, *rpcErr) {
	s.mu.Lock()
	canon := s.canon
	s.mu.Unlock()
	switch q.Method {
	case "eth_chainId":
		return hexutil.Uint64(s.chain.ChainID), nil
	case "net_version":
		return fmt.Sprint(s.chain.ChainID), nil
	case "eth_blockNumber":
		return hexutil.Uint64(uint64(len(canon) - 1)), nil
	case "eth_getBlockByNumber", "eth_getHeaderByNumber":
		if len(q.Params) < 1 {
			return nil, invalid("missing block number")
		}
		n, e := s.resolveNumber(q.Params[0], canon)
		if e != nil {
			return nil, e
		}
		if n >= uint64(len(canon)) {
			return nil, nil // null: ethclient reports ethereum.NotFound
		}
		return headerJSON(canon[n]), nil
	case "eth_getBlockByHash", "eth_getHeaderByHash":
		if len(q.Params) < 1 {
			return nil, invalid("missing block hash")
		}
		var h common.Hash
		if err := json.Unmarshal(q.Params[0], &h); err != nil {
			return nil, invalid("invalid hash")
		}
		s.chain.mu.Lock()
		b := s.chain.byHash[h]
		s.chain.mu.Unlock()
		if b == nil {
			return nil, nil
		}
		return headerJSON(b), nil
	case "eth_getLogs":
		if len(q.Params) < 1 {
			return nil, invalid("missing filter")
		}
		return s.getLogs(q.Params[0], canon)
	}
	return nil, &rpcErr{Code: -32601, Message: "the method " + q.Method + " does not exist/is not available"}
}

type filterArg struct {
	BlockHash *common.Hash      `json:"blockHash"`
	FromBlock json.RawMessage   `json:"fromBlock"`
	ToBlock   json.RawMessage   `json:"toBlock"`
	Address   json.RawMessage   `json:"address"`
	Topics    []json.RawMessage `json:"topics"`
}

// decode "address": null | "0x.." | ["0x..", ...]
func decodeAddresses(raw json.RawMessage) ([]common.Address, *rpcErr) {
	if len(raw) == 0 || string(raw) == "null" {
		return nil, nil
	}
	var one common.Address
	if err := json.Unmarshal(raw, &one); err == nil {
		return []common.Address{one}, nil
	}
	var many []common.Address
	if err := json.Unmarshal(raw, &many); err != nil {
		return nil, invalid("invalid address criteria: %v", err)
	}
	return many, nil
}

// decode one topic position: null | "0x.." | ["0x..", ...]
func decodeTopic(raw json.RawMessage) ([]common.Hash, *rpcErr) {
	if len(raw) == 0 || string(raw) == "null" {
		return nil, nil
	}
	var one common.Hash
	if err := json.Unmarshal(raw, &one); err == nil {
		return []common.Hash{one}, nil
	}
	var many []*common.Hash
	if err := json.Unmarshal(raw, &many); err != nil {
		return nil, invalid("invalid topic(s): %v", err)
	}
	out := []common.Hash{}
	for _, h := range many {
		if h == nil {
			return nil, nil // a null inside a list makes the position a wildcard (as in geth)
		}
		out = append(out, *h)
	}
	return out, nil
}

// Matches is go-ethereum's filterLogs predicate for one log (addresses, positional topics).
func Matches(l *types.Log, addresses []common.Address, topics [][]common.Hash) bool {
	if len(addresses) > 0 {
		ok := false
		for _, a := range addresses {
			if a == l.Address {
				ok = true
				break
			}
		}
		if !ok {
			return false
		}
	}
	if len(topics) > len(l.Topics) {
		return false
	}
	for i, sub := range topics {
		if len(sub) == 0 {
			continue
		}
		ok := false
		for _, t := range sub {
			if t == l.Topics[i] {
				ok = true
				break
			}
		}
		if !ok {
			return false
		}
	}
	return true
}

func (s *Server) getLogs(raw json.RawMessage, canon []*Block) (any, *rpcErr) {
	var fa filterArg
	if err := json.Unmarshal(raw, &fa); err != nil {
		return nil, invalid("invalid filter: %v", err)
	}
	addrs, e := decodeAddresses(fa.Address)
	if e != nil {
		return nil, e
	}
	if len(fa.Topics) > 4 {
		return nil, invalid("exceed max topics")
	}
	topics := make([][]common.Hash, len(fa.Topics))
	for i, t := range fa.Topics {
		topics[i], e = decodeTopic(t)
		if e != nil {
			return nil, e
		}
	}
	out := []types.Log{}
	if fa.BlockHash != nil {
		if len(fa.FromBlock) > 0 || len(fa.ToBlock) > 0 {
			return nil, invalid("cannot specify both BlockHash and FromBlock/ToBlock, choose one or the other")
		}
		s.chain.mu.Lock()
		b := s.chain.byHash[*fa.BlockHash]
		s.chain.mu.Unlock()
		if b == nil {
			return nil, &rpcErr{Code: -32000, Message: "unknown block"}
		}
		for i := range b.Logs {
			if Matches(&b.Logs[i], addrs, topics) {
				out = append(out, b.Logs[i])
			}
		}
		return out, nil
	}
	head := uint64(len(canon) - 1)
	from, to := head, head // geth: a missing bound means "latest"
	if len(fa.FromBlock) > 0 && string(fa.FromBlock) != "null" {
		if from, e = s.resolveNumber(fa.FromBlock, canon); e != nil {
			return nil, e
		}
	}
	if len(fa.ToBlock) > 0 && string(fa.ToBlock) != "null" {
		if to, e = s.resolveNumber(fa.ToBlock, canon); e != nil {
			return nil, e
		}
	}
	if from > to {
		return nil, invalid("invalid block range params")
	}
	if to > head {
		to = head
	}
	for n := from; n <= to && n < uint64(len(canon)); n++ {
		b := canon[n]
		for i := range b.Logs {
			if Matches(&b.Logs[i], addrs, topics) {
				out = append(out, b.Logs[i])
			}
		}
	}
	return out, nil
}
