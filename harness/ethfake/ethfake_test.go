package ethfake

import (
	"context"
	"math/big"
	"testing"
	"time"

	"github.com/ethereum/go-ethereum"
	"github.com/ethereum/go-ethereum/accounts/abi/bind"
	"github.com/ethereum/go-ethereum/common"
	sequencerBindings "github.com/shutter-network/gnosh-contracts/gnoshcontracts/sequencer"
	triggerRegistryV1Bindings "github.com/shutter-network/contracts/v2/bindings/shuttereventtriggerregistryv1"
	registryBindings "github.com/shutter-network/contracts/v2/bindings/shutterregistry"
)

func TestEthfake(t *testing.T) {
	ctx := context.Background()
	c := NewChain(77)
	reg := common.HexToAddress("0x1000000000000000000000000000000000000001")
	trg := common.HexToAddress("0x1000000000000000000000000000000000000002")
	seq := common.HexToAddress("0x1000000000000000000000000000000000000003")
	other := common.HexToAddress("0x1000000000000000000000000000000000000004")
	sender := common.HexToAddress("0x2000000000000000000000000000000000000001")
	var p1, p2 [32]byte
	p1[0], p2[0] = 1, 2
	g := c.Genesis()
	b1 := c.Add(g, 0, []LogSpec{IdentityRegistered(reg, 0, 3, p1, sender, 1234)})
	b2a := c.Add(b1, 0, []LogSpec{
		EventTriggerRegistered(trg, 0, 5, p1, sender, []byte{2, 0xc0}, 99),
		TransactionSubmitted(seq, 1, 5, 0, p2, sender, []byte("enc"), big.NewInt(21000)),
		{Address: other, Topics: []common.Hash{{1}, {2}}, Data: []byte{9}, TxIndex: 2},
	})
	b2b := c.Add(b1, 1, []LogSpec{IdentityRegistered(reg, 0, 3, p2, sender, 5)})
	b3b := c.Extend(b2b, 3, 1)
	if b2a.Hash == b2b.Hash {
		t.Fatal("siblings share a hash")
	}
	srv, err := Start(c)
	if err != nil {
		t.Fatal(err)
	}
	defer srv.Close()
	cl, err := srv.Dial(ctx)
	if err != nil {
		t.Fatal(err)
	}
	srv.SetHead(b2a)
	h, err := cl.HeaderByNumber(ctx, nil)
	if err != nil || h.Hash() != b2a.Hash || h.ParentHash != b1.Hash {
		t.Fatalf("latest header: %v %v", h, err)
	}
	if _, err := cl.HeaderByNumber(ctx, big.NewInt(3)); err != ethereum.NotFound {
		t.Fatalf("beyond head: %v", err)
	}
	n, err := cl.BlockNumber(ctx)
	if err != nil || n != 2 {
		t.Fatal(n, err)
	}
	id, err := cl.ChainID(ctx)
	if err != nil || id.Uint64() != 77 {
		t.Fatal(id, err)
	}
	rc, _ := registryBindings.NewShutterregistry(reg, cl)
	end := uint64(2)
	it, err := rc.FilterIdentityRegistered(&bind.FilterOpts{Start: 0, End: &end, Context: ctx})
	if err != nil {
		t.Fatal(err)
	}
	cnt := 0
	for it.Next() {
		cnt++
		if it.Event.Eon != 3 || it.Event.IdentityPrefix != p1 || it.Event.Sender != sender || it.Event.Timestamp != 1234 || it.Event.Raw.BlockHash != b1.Hash {
			t.Fatalf("bad event %+v", it.Event)
		}
	}
	if cnt != 1 || it.Error() != nil {
		t.Fatal(cnt, it.Error())
	}
	tc, _ := triggerRegistryV1Bindings.NewShuttereventtriggerregistryv1(trg, cl)
	it2, err := tc.FilterEventTriggerRegistered(&bind.FilterOpts{Start: 0, End: &end, Context: ctx}, []uint64{})
	if err != nil {
		t.Fatal(err)
	}
	cnt = 0
	for it2.Next() {
		cnt++
		if it2.Event.Eon != 5 || it2.Event.ExpirationBlockNumber != 99 || string(it2.Event.TriggerDefinition) != "\x02\xc0" || it2.Event.Raw.Index != 0 {
			t.Fatalf("bad event %+v", it2.Event)
		}
	}
	if cnt != 1 {
		t.Fatal(cnt)
	}
	it2b, _ := tc.FilterEventTriggerRegistered(&bind.FilterOpts{Start: 0, End: &end, Context: ctx}, []uint64{6})
	if it2b.Next() {
		t.Fatal("eon filter ignored")
	}
	sc, _ := sequencerBindings.NewSequencer(seq, cl)
	it3, err := sc.FilterTransactionSubmitted(&bind.FilterOpts{Start: 2, End: &end, Context: ctx})
	if err != nil {
		t.Fatal(err)
	}
	cnt = 0
	for it3.Next() {
		cnt++
		if it3.Event.GasLimit.Int64() != 21000 || it3.Event.Raw.TxIndex != 1 || it3.Event.Raw.Index != 1 {
			t.Fatalf("bad event %+v", it3.Event)
		}
	}
	if cnt != 1 {
		t.Fatal(cnt)
	}
	// raw filter: topic position 1, wildcard position 0
	logs, err := cl.FilterLogs(ctx, ethereum.FilterQuery{FromBlock: big.NewInt(0), ToBlock: big.NewInt(9), Addresses: []common.Address{other}, Topics: [][]common.Hash{{}, {{2}}}})
	if err != nil || len(logs) != 1 || logs[0].Index != 2 {
		t.Fatal(logs, err)
	}
	logs, _ = cl.FilterLogs(ctx, ethereum.FilterQuery{FromBlock: big.NewInt(0), ToBlock: big.NewInt(9), Addresses: []common.Address{other}, Topics: [][]common.Hash{{}, {}, {}}})
	if len(logs) != 0 {
		t.Fatal("more topic positions than topics must not match")
	}
	// switch branch
	srv.SetHead(b3b)
	h, _ = cl.HeaderByNumber(ctx, big.NewInt(2))
	if h.Hash() != b2b.Hash {
		t.Fatal("branch switch not visible")
	}
	end = 5
	it, _ = rc.FilterIdentityRegistered(&bind.FilterOpts{Start: 2, End: &end, Context: ctx})
	cnt = 0
	for it.Next() {
		cnt++
		if it.Event.IdentityPrefix != p2 {
			t.Fatal("wrong branch event")
		}
	}
	if cnt != 1 {
		t.Fatal(cnt)
	}
	// faults
	for _, k := range []FaultKind{RPCError, HTTP500, Drop} {
		srv.FailCall(srv.CallCount(), Fault{Kind: k})
		if _, err := cl.HeaderByNumber(ctx, nil); err == nil {
			t.Fatalf("fault %v not reported", k)
		}
		if _, err := cl.HeaderByNumber(ctx, nil); err != nil {
			t.Fatalf("after fault %v: %v", k, err)
		}
	}
	srv.FailCall(srv.CallCount(), Fault{Kind: Delay, Delay: 2 * time.Second})
	cctx, cancel := context.WithTimeout(ctx, 50*time.Millisecond)
	_, err = cl.HeaderByNumber(cctx, nil)
	cancel()
	if err == nil {
		t.Fatal("delay not effective")
	}
	calls := srv.Calls()
	if calls[len(calls)-1].Fault != "Delay" {
		t.Fatal("call log")
	}
	// long chain
	t0 := time.Now()
	tip := c.Extend(b3b, 25000, 2)
	srv.SetHead(tip)
	h, err = cl.HeaderByNumber(ctx, big.NewInt(20000))
	if err != nil || h.Hash() != Ancestor(tip, 20000).Hash {
		t.Fatal(err)
	}
	t.Logf("25k blocks in %v", time.Since(t0))
}
