#!/bin/bash
# tools/rerefactors.sh [jobs]: re-runs every kept behaviour-preserving refactoring (refactors/<tag>/patch.diff)
# against the checks listed in its results.txt, on a fresh scratch worktree each; prints
# "<tag> <property> exit=<rc> [no-failing-input-found]" and writes refactors/<tag>/recheck.txt.
J=${1:-3}
export GOFLAGS=-mod=mod GOPROXY=off
unset GOTOOLCHAIN GOSUMDB
one() {
  d=$1; tag=$(basename $d)
  WT=/tmp/rr-$tag
  git -C /repo worktree remove --force $WT 2>/dev/null
  git -C /repo worktree add -q $WT HEAD || { echo "$tag worktree-failed"; return; }
  (cd $WT && git apply $d/patch.diff) || { echo "$tag patch-does-not-apply"; git -C /repo worktree remove --force $WT; return; }
  : > $d/recheck.txt
  for P in $(cut -d: -f1 $d/results.txt | grep '^C' | sort -u); do
    OUT=/verif/build/rerefactor-$tag-$P.out
    (cd /verif && VERIF_REPO=$WT ./check $P) > $OUT 2>&1; C=$?
    N=$(grep -o 'no-failing-input-found' $OUT | head -1)
    echo "$tag $P exit=$C $N" | tee -a $d/recheck.txt
  done
  H=$(python3 -c "import hashlib,os;print(hashlib.sha1(os.path.realpath('$WT').encode()).hexdigest()[:8])")
  rm -rf /verif/build/alt-$H
  git -C /repo worktree remove --force $WT
}
export -f one
if [ -n "${TAGS:-}" ]; then for t in $TAGS; do echo /verif/refactors/$t; done; else ls -d /verif/refactors/*/ | sed "s:/$::"; fi | xargs -P $J -I{} bash -c 'one {}'
