#!/bin/bash
# tools/reseedall.sh [jobs]: re-runs every kept seeded change against the check of the property it
# breaks (fresh scratch worktree per seed, removed afterwards) and prints one line per seed:
#   <seed-id> <property> exit=<rc> [no-failing-input-found]
# Used after changes to the checks to confirm that detection has not regressed.
J=${1:-3}
export GOFLAGS=-mod=mod GOPROXY=off
unset GOTOOLCHAIN GOSUMDB
one() {
  d=$1; id=$(basename $d)
  P=$(python3 -c "import json;print(json.load(open('$d/meta.json'))['breaks_property'])")
  WT=/tmp/rs-$id
  git -C /repo worktree remove --force $WT 2>/dev/null
  git -C /repo worktree add -q $WT HEAD || { echo "$id $P worktree-failed"; return; }
  (cd $WT && git apply $d/patch.diff) || { echo "$id $P patch-does-not-apply"; git -C /repo worktree remove --force $WT; return; }
  OUT=/verif/build/reseed/$id.out; mkdir -p /verif/build/reseed
  (cd /verif && VERIF_REPO=$WT ./check $P) > $OUT 2>&1; C=$?
  N=$(grep -o 'no-failing-input-found' $OUT | head -1)
  echo "$id $P exit=$C $N"
  printf '{"property":"%s","exit":%s,"concrete_replay":%s}\n' "$P" "$C" "$([ -z "$N" ] && [ "$C" = 1 ] && echo true || echo false)" > $d/recheck.json
  H=$(python3 -c "import hashlib,os;print(hashlib.sha1(os.path.realpath('$WT').encode()).hexdigest()[:8])")
  rm -rf /verif/build/alt-$H
  git -C /repo worktree remove --force $WT
}
export -f one
# SEEDS="id-prefix ..." restricts the run to those seeds
if [ -n "${SEEDS:-}" ]; then
  for s in $SEEDS; do ls -d /verif/seeded/$s*/; done | sed 's:/$::' | xargs -P $J -I{} bash -c 'one {}'
else
  ls -d /verif/seeded/*/ | sed 's:/$::' | xargs -P $J -I{} bash -c 'one {}'
fi
