#!/usr/bin/env python3
"""Regenerates MANIFEST.json from props/*.json (claimed properties) and props/not_applicable.json."""
import glob, json, os
ROOT = os.path.dirname(os.path.dirname(os.path.abspath(__file__)))
allids = [json.loads(l)["id"] for l in open(os.path.join(ROOT, "properties.jsonl"))]
checks, claimed = [], set()
import subprocess
tracked = set(subprocess.run(["git", "-C", ROOT, "ls-files", "props"], capture_output=True, text=True).stdout.split())
for p in sorted(glob.glob(os.path.join(ROOT, "props", "C*.json"))):
    if os.path.relpath(p, ROOT) not in tracked:
        continue
    c = json.load(open(p))
    if c.get("disabled"):
        continue
    pid = c["id"]
    claimed.add(pid)
    checks.append({
        "property_id": pid,
        "quick_cmd": "./check %s --tier quick" % pid,
        "thorough_cmd": "./check %s --tier thorough" % pid,
        "evidence_file": "/verif/evidence/%s.json" % pid,
        "replay_cmd_template": "./check %s --replay {path}" % pid,
        "engine": "coq-model+go-differential",
        "level_claimed": {"category": "proof", "text": (c.get("level_text", "") if len(c.get("level_text", "")) > 40 else (c.get("explanation") or c.get("level_text", ""))), "design_ref": c.get("design_ref", "DESIGN.md section 5, " + pid)},
        "level_note": c.get("level_note", ""),
        "technique": c.get("technique", "Coq 8.16 theorems over an executable Gallina model; model tied to the Go source by differential execution (vm_compute of the model on the implementation's cases)"),
    })
na_path = os.path.join(ROOT, "props", "not_applicable.json")
na = json.load(open(na_path)) if os.path.exists(na_path) else {}
not_applicable = []
for pid in allids:
    if pid not in claimed:
        not_applicable.append({"property_id": pid, "reason": na.get(pid, "not yet served by a check in this revision (framework under construction; see DESIGN.md section 5 for the plan)")})
hooks = json.load(open(os.path.join(ROOT, "props", "hooks.json")))
import subprocess
try:
    out = subprocess.run(["git", "-C", "/repo", "log", "--format=%H %s"], capture_output=True, text=True).stdout
    hooks["source_commits"] = [l.split()[0] for l in out.splitlines() if l.split(" ", 1)[1].startswith("verif hook")]
except Exception:
    pass
m = {
    "version": 1,
    "setup_cmd": "./setup.sh",
    "hooks": hooks,
    "engines": [{"name": "coq-model+go-differential", "path": "/verif/check",
                 "serves_properties": sorted(claimed),
                 "kind_free_text": "Coq 8.16.1 development (coq/) of executable models + theorems; Go drivers (harness/, -tags verif) run the implementation from /repo's working tree, evaluate a property oracle and emit cases that coqc evaluates on the model"}],
    "checks": checks,
    "not_applicable": not_applicable,
    "notes": "See DESIGN.md. Every check rebuilds the Go driver from /repo's working tree, re-proves the property's Coq closure, and evaluates the model on the implementation's cases.",
}
json.dump(m, open(os.path.join(ROOT, "MANIFEST.json"), "w"), indent=1)
print("MANIFEST.json: %d checks, %d not claimed" % (len(checks), len(not_applicable)))
