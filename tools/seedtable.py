#!/usr/bin/env python3
"""Prints the markdown table of seeded changes (seeded/*/meta.json) for DESIGN.md section 10.3."""
import glob, json, os
ROOT = os.path.dirname(os.path.dirname(os.path.abspath(__file__)))
print("| seeded change | breaks | what it needs to manifest | confirmed (builds / tests pass / demo fails with, passes without) | checks run at first verification -> exit | latest re-run of the broken property's check |")
print("|---|---|---|---|---|---|")
for d in sorted(glob.glob(os.path.join(ROOT, "seeded", "*"))):
    p = os.path.join(d, "meta.json")
    if not os.path.exists(p):
        continue
    m = json.load(open(p))
    c = m["confirmed"]
    ok = "yes / yes / yes / yes" if all(c.values()) else str(c)
    res = ", ".join("%s -> %s" % tuple(x.split(":")) for x in m["check_results"])
    needs = (m.get("needs") or "").replace("\n", " ").replace("|", "/")
    if len(needs) > 260:
        needs = needs[:257] + "..."
    rp = os.path.join(d, "recheck.json")
    latest = "-"
    if os.path.exists(rp):
        r = json.load(open(rp))
        latest = "exit %s%s" % (r["exit"], ", concrete replay" if r.get("concrete_replay") else (", no-failing-input-found" if r["exit"] == 1 else ""))
    print("| `%s` | %s | %s | %s | %s | %s |" % (m["id"], m["breaks_property"], needs, ok, res, latest))
