#!/usr/bin/env python3
"""Replaces the table of seeded changes in DESIGN.md section 10.5 by the current output of tools/seedtable.py."""
import os, subprocess
ROOT = os.path.dirname(os.path.dirname(os.path.abspath(__file__)))
p = os.path.join(ROOT, "DESIGN.md")
lines = open(p).read().split("\n")
start = next(i for i, l in enumerate(lines) if l.startswith("| seeded change |"))
end = start
while end < len(lines) and lines[end].startswith("|"):
    end += 1
table = subprocess.run(["python3", os.path.join(ROOT, "tools", "seedtable.py")], capture_output=True, text=True).stdout.rstrip("\n").split("\n")
lines[start:end] = table
open(p, "w").write("\n".join(lines))
print("rows:", len(table) - 2)
