#!/bin/bash
# tools/refverify.sh <tag> <refactor worktree (with SEED/patch.diff)> <properties...>
# Runs the listed checks against a behaviour-preserving refactoring (false-alarm test) in a fresh
# scratch worktree; records the outcome under /verif/refactors/<tag>/.
set -u
TAG=$1; SRC=$2; shift 2
export GOFLAGS=-mod=mod GOPROXY=off
unset GOTOOLCHAIN GOSUMDB
OUT=/verif/refactors/$TAG
mkdir -p $OUT
cp $SRC/SEED/patch.diff $OUT/patch.diff
cp $SRC/SEED/meta.json $OUT/agent_meta.json
WT=/tmp/rv-$TAG
git -C /repo worktree remove --force $WT 2>/dev/null
git -C /repo worktree add -q $WT HEAD || exit 2
(cd $WT && git apply $OUT/patch.diff) || { echo "PATCH DOES NOT APPLY"; exit 2; }
(cd $WT/rolling-shutter && go build ./... && go build -tags verif ./...) > $OUT/build.log 2>&1 || { echo "BUILD FAILS"; cat $OUT/build.log | tail; }
: > $OUT/results.txt
for P in "$@"; do
  (cd /verif && VERIF_REPO=$WT ./check $P) > $OUT/check_$P.out 2>&1; C=$?
  echo "$P:$C $(grep -c '^VIOLATION' $OUT/check_$P.out) $(grep -o 'no-failing-input-found' $OUT/check_$P.out | head -1)" | tee -a $OUT/results.txt
  if [ $C -ne 0 ]; then
    R=$(grep '^VIOLATION' $OUT/check_$P.out | head -1 | sed 's/.*replay=\([^ ]*\).*/\1/')
    [ -f "$R" ] && cp $R $OUT/replay_$P.json
  fi
done
H=$(python3 -c "import hashlib,os;print(hashlib.sha1(os.path.realpath('$WT').encode()).hexdigest()[:8])")
rm -rf /verif/build/alt-$H
git -C /repo worktree remove --force $WT
