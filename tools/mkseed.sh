#!/bin/bash
# tools/mkseed.sh <property id> <tag>: creates a scratch worktree /tmp/seed-<tag> of /repo HEAD and the
# prompt file /tmp/seed-<tag>.prompt.txt for an independent seeding sub-agent (property text only).
P=$1; TAG=$2; WT=/tmp/seed-$TAG
git -C /repo worktree add -q $WT HEAD || exit 1
python3 - "$P" "$WT" <<'PY'
import json,sys
pid,wt=sys.argv[1],sys.argv[2]
for l in open('/verif/properties.jsonl'):
    p=json.loads(l)
    if p['id']==pid:
        prop="Property %s: %s\n\n%s\n\nQuantifier: %s\n\nWhy the existing tests cannot settle it: %s\n\nAnchors (files): %s\n" % (p['id'],p['title'],p['statement'],p['quantifier']['text'],p['why_tests_cant'],', '.join(p['anchors']['files']))
        t=open('/verif/tools/seedprompt.txt').read().replace('{WT}',wt).replace('{PROP}',prop)
        open(wt+'.prompt.txt','w').write(t)
        print(wt+'.prompt.txt')
PY
