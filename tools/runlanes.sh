#!/bin/bash
# tools/runlanes.sh <tier> <lanes>: like runall.sh, but the properties are distributed over <lanes>
# parallel lanes (thorough runs work in private copies of the Coq development, so they do not
# disturb each other). One line per property is appended to build/runlanes-<tier>.log.
cd /verif
TIER=${1:-thorough}; L=${2:-2}
python3 tools/genmanifest.py >/dev/null
LOG=build/runlanes-$TIER.log; : > $LOG
one() {
  p=$1; s=$(date +%s)
  out=$(./check $p --tier $TIER 2>&1); rc=$?
  e=$(date +%s)
  echo "$p rc=$rc $((e-s))s $(echo "$out" | grep -c '^KNOWN-FINDING') known | $(echo "$out" | grep 'VIOLATION' | head -1) | $(echo "$out" | tail -1 | cut -c1-160)" >> $LOG
}
export -f one; export TIER LOG
python3 -c "import json;print('\n'.join(c['property_id'] for c in json.load(open('MANIFEST.json'))['checks']))" | xargs -P $L -I{} bash -c 'one {}'
echo finished >> $LOG
