#!/bin/bash
# tools/runall.sh [tier]: runs every claimed check once (sequentially), validates MANIFEST and
# evidence against the schemas, prints one line per property.
cd /verif
TIER=${1:-quick}
python3 tools/genmanifest.py >/dev/null
for p in $(python3 -c "import json;print(' '.join(c['property_id'] for c in json.load(open('MANIFEST.json'))['checks']))"); do
  s=$(date +%s)
  out=$(./check $p --tier $TIER 2>&1); rc=$?
  e=$(date +%s)
  echo "$p rc=$rc $((e-s))s $(echo "$out" | grep -c '^KNOWN-FINDING') known | $(echo "$out" | grep 'VIOLATION' | head -1) | $(echo "$out" | tail -1 | cut -c1-160)"
done
python3-vt - <<'PY'
import json, jsonschema, glob
jsonschema.validate(json.load(open('/verif/MANIFEST.json')), json.load(open('/root/.vp/MANIFEST.schema.json')))
sch = json.load(open('/root/.vp/EVIDENCE.schema.json'))
bad = 0
for f in sorted(glob.glob('/verif/evidence/*.json')):
    try:
        jsonschema.validate(json.load(open(f)), sch)
    except Exception as ex:
        bad += 1
        print("EVIDENCE INVALID", f, str(ex)[:200])
print("schemas checked, invalid evidence files:", bad)
PY
