#!/bin/bash
# tools/seedverify.sh <seed-id> <property> <seed worktree (with SEED/)> [extra properties to run...]
# Confirms a seeded change independently (fresh scratch worktree of /repo): patch applies, builds,
# existing tests of the touched area pass, the demonstration fails with the change and passes
# without it; then runs ./check <property> against the changed tree and records everything in
# /verif/seeded/<seed-id>/.
set -u
ID=$1; PROP=$2; SRC=$3; shift 3
export GOFLAGS=-mod=mod GOPROXY=off
unset GOTOOLCHAIN GOSUMDB
OUT=/verif/seeded/$ID
mkdir -p $OUT
cp $SRC/SEED/patch.diff $OUT/patch.diff
cp $SRC/SEED/meta.json $OUT/agent_meta.json
for f in $SRC/SEED/*; do case "$f" in *patch.diff|*meta.json) ;; *) cp "$f" $OUT/;; esac; done
WT=/tmp/sv-$ID
git -C /repo worktree remove --force $WT 2>/dev/null
git -C /repo worktree add -q $WT HEAD || exit 2
LOG=$OUT/verify.log; : > $LOG
(cd $WT && git apply $OUT/patch.diff) >> $LOG 2>&1 || { echo "PATCH DOES NOT APPLY" | tee -a $LOG; exit 2; }
DEMO_CMD=$(python3 -c "import json;print(json.load(open('$OUT/agent_meta.json'))['demo_cmd'])")
# where does the demo live? copy the demo files next to where the agent had them
(cd $SRC && git status --porcelain | grep '^??' | awk '{print $2}' | grep -v '^SEED/' ) > $OUT/demo_paths.txt
echo "== build with change" >> $LOG
(cd $WT/rolling-shutter && go build ./... ) >> $LOG 2>&1; B=$?
echo "== existing tests with change (demo absent)" >> $LOG
(cd $WT/rolling-shutter && go test -count=1 ./app/... ./keyper/shutterevents/... ./shmsg/... ./medley/... ./keyper/epochkg/... ./keyperimpl/shutterservice/... ./keyper/kproapi/... 2>&1 | grep -v "no test files" ) >> $LOG 2>&1; T=${PIPESTATUS[0]}
while read p; do mkdir -p $WT/$(dirname $p); cp -r $SRC/$p $WT/$p; done < $OUT/demo_paths.txt
echo "== demo with change: $DEMO_CMD" >> $LOG
(cd $WT/rolling-shutter && bash -c "$DEMO_CMD") >> $LOG 2>&1; D1=$?
(cd $WT && git apply -R $OUT/patch.diff)
echo "== demo without change" >> $LOG
(cd $WT/rolling-shutter && bash -c "$DEMO_CMD") >> $LOG 2>&1; D0=$?
(cd $WT && git apply $OUT/patch.diff)
while read p; do rm -rf $WT/$p; done < $OUT/demo_paths.txt
echo "build=$B tests=$T demo_with=$D1 demo_without=$D0" | tee -a $LOG
RES=""
for P in $PROP "$@"; do
  echo "== ./check $P against the changed tree" >> $LOG
  (cd /verif && VERIF_REPO=$WT ./check $P) > $OUT/check_$P.out 2>&1; C=$?
  tail -3 $OUT/check_$P.out >> $LOG
  RP=$(grep -o 'replay=[^ ]*' $OUT/check_$P.out | head -1 | cut -d= -f2)
  [ -n "$RP" ] && [ -f "$RP" ] && cp "$RP" $OUT/replay_$P.json
  echo "check $P exit=$C $(grep VIOLATION $OUT/check_$P.out | head -1)" | tee -a $LOG
  RES="$RES $P:$C"
done
git -C /repo worktree remove --force $WT

python3 - <<PY
import json
m=json.load(open('$OUT/agent_meta.json'))
json.dump({"id":"$ID","breaks_property":"$PROP","summary":m.get("summary"),"needs":m.get("needs"),"demo_cmd":m.get("demo_cmd"),
 "confirmed":{"builds":$B==0,"existing_tests_pass":$T==0,"demo_fails_with_change":$D1!=0,"demo_passes_without_change":$D0==0},
 "what_i_ran":"tools/seedverify.sh: fresh worktree of /repo HEAD, git apply patch.diff, go build ./..., go test of app/shutterevents/shmsg/medley/epochkg/shutterservice/kproapi, the demo with and without the change, then VERIF_REPO=<worktree> ./check for: $PROP $*",
 "check_results":"$RES".split()}, open('$OUT/meta.json','w'), indent=1)
PY
cat $OUT/meta.json | head -30
