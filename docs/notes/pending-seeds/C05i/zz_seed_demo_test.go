package gnosisaccessnode

import (
	"bytes"
	"context"
	"crypto/ecdsa"
	"crypto/rand"
	"testing"
	"time"

	"github.com/ethereum/go-ethereum/common"
	ethcrypto "github.com/ethereum/go-ethereum/crypto"
	pubsub "github.com/libp2p/go-libp2p-pubsub"
	pubsubpb "github.com/libp2p/go-libp2p-pubsub/pb"

	obskeyperdatabase "github.com/shutter-network/rolling-shutter/rolling-shutter/chainobserver/db/keyper"
	"github.com/shutter-network/rolling-shutter/rolling-shutter/keyperimpl/gnosis/gnosisssztypes"
	"github.com/shutter-network/rolling-shutter/rolling-shutter/medley/identitypreimage"
	"github.com/shutter-network/rolling-shutter/rolling-shutter/medley/testkeygen"
	"github.com/shutter-network/rolling-shutter/rolling-shutter/p2p"
	"github.com/shutter-network/rolling-shutter/rolling-shutter/p2pmsg"
	"github.com/shutter-network/rolling-shutter/rolling-shutter/shdb"
)

const (
	seedDemoInstanceID = uint64(1000)
	seedDemoEon        = uint64(5)
	seedDemoTimeout    = 10 * time.Second
)

type seedDemoOutcome struct {
	result pubsub.ValidationResult
	err    error
}

// seedDemoDeliver does what the topic validator registered by p2p.P2PMessaging does with the
// bytes of one gossip message: unmarshal the envelope, run the message's own Validate, then the
// handler's ValidateMessage. It reports false if that did not finish within the timeout.
func seedDemoDeliver(handler *DecryptionKeysHandler, data []byte) (seedDemoOutcome, bool) {
	topic := (&p2pmsg.DecryptionKeys{}).Topic()
	done := make(chan seedDemoOutcome, 1)
	go func() {
		msg := &pubsub.Message{Message: &pubsubpb.Message{Data: data, Topic: &topic}}
		unmshl, _, err := p2p.UnmarshalPubsubMessage(msg)
		if err != nil {
			done <- seedDemoOutcome{pubsub.ValidationReject, err}
			return
		}
		res, err := handler.ValidateMessage(context.Background(), unmshl)
		done <- seedDemoOutcome{res, err}
	}()
	select {
	case out := <-done:
		return out, true
	case <-time.After(seedDemoTimeout):
		return seedDemoOutcome{}, false
	}
}

func seedDemoKeysMessage(
	t *testing.T,
	eon uint64,
	eonKeys *testkeygen.EonKeys,
	signerKeys []*ecdsa.PrivateKey,
	signerIndices []uint64,
) []byte {
	t.Helper()
	slot := uint64(77)
	txPointer := uint64(3)

	preimages := []identitypreimage.IdentityPreimage{}
	for i := 0; i < 3; i++ {
		preimage := bytes.Repeat([]byte{byte(i + 1)}, 52)
		preimages = append(preimages, identitypreimage.IdentityPreimage(preimage))
	}
	keys := []*p2pmsg.Key{}
	for _, preimage := range preimages {
		epochSecretKey, err := eonKeys.EpochSecretKey(preimage)
		if err != nil {
			t.Fatalf("epoch secret key: %v", err)
		}
		keys = append(keys, &p2pmsg.Key{
			IdentityPreimage: preimage.Bytes(),
			Key:              epochSecretKey.Marshal(),
		})
	}

	sigData, err := gnosisssztypes.NewSlotDecryptionSignatureData(seedDemoInstanceID, eon, slot, txPointer, preimages)
	if err != nil {
		t.Fatalf("signature data: %v", err)
	}
	signatures := [][]byte{}
	for _, i := range signerIndices {
		sig, err := sigData.ComputeSignature(signerKeys[i])
		if err != nil {
			t.Fatalf("sign: %v", err)
		}
		signatures = append(signatures, sig)
	}

	msg := &p2pmsg.DecryptionKeys{
		InstanceId: seedDemoInstanceID,
		Eon:        eon,
		Keys:       keys,
		Extra: &p2pmsg.DecryptionKeys_Gnosis{
			Gnosis: &p2pmsg.GnosisDecryptionKeysExtra{
				Slot:          slot,
				TxPointer:     txPointer,
				SignerIndices: signerIndices,
				Signatures:    signatures,
			},
		},
	}
	data, err := p2pmsg.Marshal(msg, nil)
	if err != nil {
		t.Fatalf("marshal: %v", err)
	}
	return data
}

// TestSeedDemoAccessNodeValidationFinishes delivers three byte strings on the decryptionKeys
// topic of a Gnosis access node, one after the other: a fully valid keys message, the same
// message for an eon the node has no key for, and the valid message again. Every validation has
// to finish (accept / reject / ignore / error); none may hang.
func TestSeedDemoAccessNodeValidationFinishes(t *testing.T) {
	numKeypers, threshold := uint64(3), uint64(2)
	eonKeys, err := testkeygen.NewEonKeys(rand.Reader, numKeypers, threshold)
	if err != nil {
		t.Fatalf("eon keys: %v", err)
	}
	signerKeys := []*ecdsa.PrivateKey{}
	members := []common.Address{}
	for i := uint64(0); i < numKeypers; i++ {
		k, err := ethcrypto.GenerateKey()
		if err != nil {
			t.Fatalf("generate key: %v", err)
		}
		signerKeys = append(signerKeys, k)
		members = append(members, ethcrypto.PubkeyToAddress(k.PublicKey))
	}

	config := &Config{InstanceID: seedDemoInstanceID, MaxNumKeysPerMessage: 500}
	storage := NewStorage()
	storage.AddEonKey(seedDemoEon, eonKeys.EonPublicKey())
	storage.AddKeyperSet(seedDemoEon, &obskeyperdatabase.KeyperSet{
		KeyperConfigIndex:     int64(seedDemoEon),
		ActivationBlockNumber: 0,
		Keypers:               shdb.EncodeAddresses(members),
		Threshold:             int32(threshold),
	})
	handler := NewDecryptionKeysHandler(config, storage)

	valid := seedDemoKeysMessage(t, seedDemoEon, eonKeys, signerKeys, []uint64{0, 2})
	unknownEon := seedDemoKeysMessage(t, seedDemoEon+1, eonKeys, signerKeys, []uint64{0, 2})

	out, finished := seedDemoDeliver(handler, valid)
	if !finished {
		t.Fatalf("message 1 (valid): validation did not finish within %s", seedDemoTimeout)
	}
	if out.result != pubsub.ValidationAccept || out.err != nil {
		t.Fatalf("message 1 (valid): expected accept, got result=%d err=%v", out.result, out.err)
	}
	t.Logf("message 1 (valid): result=%d err=%v", out.result, out.err)

	out, finished = seedDemoDeliver(handler, unknownEon)
	if !finished {
		t.Fatalf("message 2 (unknown eon): validation did not finish within %s", seedDemoTimeout)
	}
	if out.result != pubsub.ValidationReject {
		t.Fatalf("message 2 (unknown eon): expected reject, got result=%d err=%v", out.result, out.err)
	}
	t.Logf("message 2 (unknown eon): result=%d err=%v", out.result, out.err)

	out, finished = seedDemoDeliver(handler, valid)
	if !finished {
		t.Fatalf("message 3 (valid, after the unknown-eon message): validation HANGS, "+
			"no accept/reject/ignore/error within %s", seedDemoTimeout)
	}
	if out.result != pubsub.ValidationAccept || out.err != nil {
		t.Fatalf("message 3 (valid): expected accept, got result=%d err=%v", out.result, out.err)
	}
	t.Logf("message 3 (valid): result=%d err=%v", out.result, out.err)

	// The chain-sync callbacks of the access node write to the same storage; they must not be
	// blocked by earlier gossip traffic either.
	added := make(chan struct{})
	go func() {
		storage.AddEonKey(seedDemoEon+1, eonKeys.EonPublicKey())
		close(added)
	}()
	select {
	case <-added:
	case <-time.After(seedDemoTimeout):
		t.Fatalf("storage update after gossip traffic did not finish within %s", seedDemoTimeout)
	}
}
