package kprapi

import (
	"net/http"
	"net/http/httptest"
	"strings"
	"testing"
	"time"

	"github.com/ethereum/go-ethereum/common"
)

type demoConfig struct{ enableWrite bool }

func (c demoConfig) GetHTTPListenAddress() string   { return "127.0.0.1:0" }
func (c demoConfig) GetAddress() common.Address     { return common.Address{} }
func (c demoConfig) GetInstanceID() uint64          { return 0 }
func (c demoConfig) GetEnableWriteOperations() bool { return c.enableWrite }

// do sends one request through the real router of srv and reports the status
// code and whether the shutdown or decryption-trigger operation was reached.
func do(t *testing.T, srv *Server, router http.Handler, method, path, body string) (int, bool) {
	t.Helper()
	reached := make(chan struct{}, 2)
	stop := make(chan struct{})
	done := make(chan struct{})
	go func() {
		defer close(done)
		for {
			select {
			case <-srv.shutdownSig:
				reached <- struct{}{}
			case <-srv.trigger:
				reached <- struct{}{}
			case <-stop:
				return
			}
		}
	}()
	req := httptest.NewRequest(method, path, strings.NewReader(body))
	if body != "" {
		req.Header.Set("Content-Type", "application/json")
	}
	rec := httptest.NewRecorder()
	router.ServeHTTP(rec, req)
	time.Sleep(20 * time.Millisecond)
	close(stop)
	<-done
	return rec.Code, len(reached) > 0
}

// Two HTTP services live in one process: one with write operations enabled,
// one read-only. The read-only one must keep blocking the write endpoints no
// matter which of the two served a request first.
func TestSeedDemoReadOnlyServiceBlocksWrites(t *testing.T) {
	rw := NewHTTPService(nil, demoConfig{enableWrite: true}, nil)
	ro := NewHTTPService(nil, demoConfig{enableWrite: false}, nil)
	rwRouter := rw.setupRouter()
	roRouter := ro.setupRouter()

	code, _ := do(t, rw, rwRouter, http.MethodGet, "/v1/ping", "")
	if code != http.StatusOK {
		t.Fatalf("read-write service: GET /v1/ping = %d, want 200", code)
	}

	code, reached := do(t, ro, roRouter, http.MethodGet, "/v1/ping", "")
	if code != http.StatusOK || reached {
		t.Fatalf("read-only service: GET /v1/ping = %d (write op reached: %v), want 200", code, reached)
	}

	code, reached = do(t, ro, roRouter, http.MethodPost, "/v1/shutdown", "")
	if reached || code != http.StatusForbidden {
		t.Errorf("read-only service: POST /v1/shutdown = %d, shutdown operation reached: %v; want 403 and not reached", code, reached)
	}

	trig := `{"epoch_id":"0x` + strings.Repeat("ab", 32) + `","block_number":1}`
	code, reached = do(t, ro, roRouter, http.MethodPost, "/v1/decryptionTrigger", trig)
	if reached || code != http.StatusForbidden {
		t.Errorf("read-only service: POST /v1/decryptionTrigger = %d, trigger operation reached: %v; want 403 and not reached", code, reached)
	}
}
