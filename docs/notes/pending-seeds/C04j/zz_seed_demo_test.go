package epochkghandler

import (
	"context"
	"crypto/rand"
	"encoding/hex"
	"errors"
	"fmt"
	"testing"

	"github.com/jackc/pgconn"
	"github.com/jackc/pgx/v4"
	pubsub "github.com/libp2p/go-libp2p-pubsub"
	pubsubpb "github.com/libp2p/go-libp2p-pubsub/pb"
	"github.com/shutter-network/shutter/shlib/puredkg"
	"github.com/shutter-network/shutter/shlib/shcrypto"

	"github.com/shutter-network/rolling-shutter/rolling-shutter/keyper/database"
	"github.com/shutter-network/rolling-shutter/rolling-shutter/medley/identitypreimage"
	"github.com/shutter-network/rolling-shutter/rolling-shutter/medley/testkeygen"
	"github.com/shutter-network/rolling-shutter/rolling-shutter/p2p"
	"github.com/shutter-network/rolling-shutter/rolling-shutter/p2pmsg"
)

// demoKeyStore is an in-memory stand-in for the decryption_key table. It implements
// database.DBTX for exactly the one statement the keys validator issues (GetDecryptionKey).
type demoKeyStore struct {
	keys map[string][]byte
}

func demoStoreKey(eon int64, epochID []byte) string {
	return fmt.Sprintf("%d/%s", eon, hex.EncodeToString(epochID))
}

type demoRow struct {
	eon     int64
	epochID []byte
	key     []byte
	found   bool
}

func (r demoRow) Scan(dest ...interface{}) error {
	if !r.found {
		return pgx.ErrNoRows
	}
	*(dest[0].(*int64)) = r.eon
	*(dest[1].(*[]byte)) = r.epochID
	*(dest[2].(*[]byte)) = r.key
	return nil
}

func (s *demoKeyStore) QueryRow(_ context.Context, _ string, args ...interface{}) pgx.Row {
	eon := args[0].(int64)
	epochID := args[1].([]byte)
	key, found := s.keys[demoStoreKey(eon, epochID)]
	return demoRow{eon: eon, epochID: epochID, key: key, found: found}
}

func (s *demoKeyStore) Exec(context.Context, string, ...interface{}) (pgconn.CommandTag, error) {
	return nil, errors.New("demoKeyStore: Exec not supported")
}

func (s *demoKeyStore) Query(context.Context, string, ...interface{}) (pgx.Rows, error) {
	return nil, errors.New("demoKeyStore: Query not supported")
}

// demoThroughWire sends the message through the real envelope encoding and the real receive
// path of the p2p layer (p2pmsg.Unmarshal + Message.Validate), as a gossiped message would be.
func demoThroughWire(t *testing.T, msg *p2pmsg.DecryptionKeys) (*p2pmsg.DecryptionKeys, error) {
	t.Helper()
	data, err := p2pmsg.Marshal(msg, nil)
	if err != nil {
		t.Fatalf("marshal: %v", err)
	}
	topic := msg.Topic()
	received, _, err := p2p.UnmarshalPubsubMessage(&pubsub.Message{
		Message: &pubsubpb.Message{Data: data, Topic: &topic},
	})
	if err != nil {
		return nil, err
	}
	return received.(*p2pmsg.DecryptionKeys), nil
}

func TestSeedDemoKeysValidation(t *testing.T) {
	ctx := context.Background()
	const eon = uint64(1)

	eonKeys, err := testkeygen.NewEonKeys(rand.Reader, 3, 2)
	if err != nil {
		t.Fatal(err)
	}
	publicKeyShares := []*shcrypto.EonPublicKeyShare{}
	for i := 0; i < int(eonKeys.NumKeypers); i++ {
		publicKeyShares = append(publicKeyShares, eonKeys.EonPublicKeyShare(i))
	}
	dkgResult := &puredkg.Result{
		Eon:             eon,
		NumKeypers:      eonKeys.NumKeypers,
		Threshold:       eonKeys.Threshold,
		Keyper:          1,
		SecretKeyShare:  eonKeys.EonSecretKeyShare(1),
		PublicKey:       eonKeys.EonPublicKey(),
		PublicKeyShares: publicKeyShares,
	}

	id0 := identitypreimage.Uint64ToIdentityPreimage(10)
	id1 := identitypreimage.Uint64ToIdentityPreimage(11)
	id2 := identitypreimage.Uint64ToIdentityPreimage(12)
	key0, err := eonKeys.EpochSecretKey(id0)
	if err != nil {
		t.Fatal(err)
	}
	key1, err := eonKeys.EpochSecretKey(id1)
	if err != nil {
		t.Fatal(err)
	}

	// receiver state: the key for id0 is already stored, nothing is stored for id1 and id2
	store := &demoKeyStore{keys: map[string][]byte{
		demoStoreKey(int64(eon), id0.Bytes()): key0.Marshal(),
	}}
	queries := database.New(store)

	mk := func(keys ...*p2pmsg.Key) *p2pmsg.DecryptionKeys {
		return &p2pmsg.DecryptionKeys{InstanceId: config.GetInstanceID(), Eon: eon, Keys: keys}
	}

	tests := []struct {
		name string
		msg  *p2pmsg.DecryptionKeys
		want pubsub.ValidationResult
	}{
		{
			name: "valid key, not stored yet",
			msg:  mk(&p2pmsg.Key{IdentityPreimage: id1.Bytes(), Key: key1.Marshal()}),
			want: pubsub.ValidationAccept,
		},
		{
			name: "key equal to the stored one",
			msg:  mk(&p2pmsg.Key{IdentityPreimage: id0.Bytes(), Key: key0.Marshal()}),
			want: pubsub.ValidationAccept,
		},
		{
			name: "key of another identity, not stored",
			msg:  mk(&p2pmsg.Key{IdentityPreimage: id2.Bytes(), Key: key1.Marshal()}),
			want: pubsub.ValidationReject,
		},
		{
			name: "key of another identity where a different key is stored",
			msg:  mk(&p2pmsg.Key{IdentityPreimage: id0.Bytes(), Key: key1.Marshal()}),
			want: pubsub.ValidationReject,
		},
		{
			name: "empty key bytes where a key is stored",
			msg:  mk(&p2pmsg.Key{IdentityPreimage: id0.Bytes(), Key: []byte{}}),
			want: pubsub.ValidationReject,
		},
		{
			name: "empty key bytes, nothing stored for the identity",
			msg:  mk(&p2pmsg.Key{IdentityPreimage: id2.Bytes(), Key: []byte{}}),
			want: pubsub.ValidationReject,
		},
		{
			name: "valid key followed by empty key bytes for an identity without stored key",
			msg: mk(
				&p2pmsg.Key{IdentityPreimage: id1.Bytes(), Key: key1.Marshal()},
				&p2pmsg.Key{IdentityPreimage: id2.Bytes(), Key: nil},
			),
			want: pubsub.ValidationReject,
		},
	}
	for _, tc := range tests {
		t.Run(tc.name, func(t *testing.T) {
			received, err := demoThroughWire(t, tc.msg)
			got := pubsub.ValidationReject
			if err == nil {
				got, err = checkKeysErrors(ctx, received, dkgResult, queries)
			}
			if got != tc.want {
				t.Errorf("validation result %d, want %d (validator error: %v)", got, tc.want, err)
			}
			if got == pubsub.ValidationAccept {
				// an accepted message must consist of valid epoch keys or stored keys only
				for _, k := range received.Keys {
					stored, found := store.keys[demoStoreKey(int64(eon), k.IdentityPreimage)]
					if found && string(stored) == string(k.Key) {
						continue
					}
					sk, err := k.GetEpochSecretKey()
					if err != nil {
						t.Errorf("accepted message carries undecodable key for identity %x", k.IdentityPreimage)
						continue
					}
					ok, err := shcrypto.VerifyEpochSecretKey(sk, dkgResult.PublicKey, k.IdentityPreimage)
					if err != nil || !ok {
						t.Errorf(
							"accepted message carries key %x for identity %x that is neither the valid epoch key nor stored",
							k.Key, k.IdentityPreimage,
						)
					}
				}
			}
		})
	}
}
