package gnosisaccessnode

import (
	"bytes"
	"context"
	"crypto/ecdsa"
	"crypto/rand"
	"sort"
	"testing"

	ethcrypto "github.com/ethereum/go-ethereum/crypto"
	pubsub "github.com/libp2p/go-libp2p-pubsub"

	obskeyperdatabase "github.com/shutter-network/rolling-shutter/rolling-shutter/chainobserver/db/keyper"
	"github.com/shutter-network/rolling-shutter/rolling-shutter/keyperimpl/gnosis"
	"github.com/shutter-network/rolling-shutter/rolling-shutter/keyperimpl/gnosis/gnosisssztypes"
	"github.com/shutter-network/rolling-shutter/rolling-shutter/medley/identitypreimage"
	"github.com/shutter-network/rolling-shutter/rolling-shutter/medley/testkeygen"
	"github.com/shutter-network/rolling-shutter/rolling-shutter/p2pmsg"
	"github.com/shutter-network/rolling-shutter/rolling-shutter/shdb"
)

const (
	seedInstanceID = uint64(1000)
	seedEon        = uint64(3)
	seedSlot       = uint64(77)
	seedTxPointer  = uint64(5)
	seedNumKeypers = 4
	seedThreshold  = 2
)

type seedRig struct {
	keyperKeys []*ecdsa.PrivateKey
	outsider   *ecdsa.PrivateKey
	keyperSet  *obskeyperdatabase.KeyperSet
	handler    *DecryptionKeysHandler
	keys       []*p2pmsg.Key
	sigData    *gnosisssztypes.SlotDecryptionSignatureData
}

func newSeedRig(t *testing.T) *seedRig {
	t.Helper()
	rig := &seedRig{}

	addresses := []string{}
	for i := 0; i < seedNumKeypers; i++ {
		k, err := ethcrypto.GenerateKey()
		if err != nil {
			t.Fatal(err)
		}
		rig.keyperKeys = append(rig.keyperKeys, k)
		addresses = append(addresses, shdb.EncodeAddress(ethcrypto.PubkeyToAddress(k.PublicKey)))
	}
	outsider, err := ethcrypto.GenerateKey()
	if err != nil {
		t.Fatal(err)
	}
	rig.outsider = outsider

	rig.keyperSet = &obskeyperdatabase.KeyperSet{
		KeyperConfigIndex:     int64(seedEon),
		ActivationBlockNumber: 0,
		Keypers:               addresses,
		Threshold:             seedThreshold,
	}

	eonKeys, err := testkeygen.NewEonKeys(rand.Reader, seedNumKeypers, seedThreshold)
	if err != nil {
		t.Fatal(err)
	}

	preimages := []identitypreimage.IdentityPreimage{}
	for i := 0; i < 3; i++ {
		p := make([]byte, 52)
		if _, err := rand.Read(p); err != nil {
			t.Fatal(err)
		}
		preimages = append(preimages, identitypreimage.IdentityPreimage(p))
	}
	sort.Slice(preimages, func(i, j int) bool { return bytes.Compare(preimages[i], preimages[j]) < 0 })
	for _, p := range preimages {
		sk, err := eonKeys.EpochSecretKey(p)
		if err != nil {
			t.Fatal(err)
		}
		rig.keys = append(rig.keys, &p2pmsg.Key{IdentityPreimage: p.Bytes(), Key: sk.Marshal()})
	}

	rig.sigData, err = gnosisssztypes.NewSlotDecryptionSignatureData(
		seedInstanceID, seedEon, seedSlot, seedTxPointer, preimages,
	)
	if err != nil {
		t.Fatal(err)
	}

	storage := NewStorage()
	storage.AddEonKey(seedEon, eonKeys.EonPublicKey())
	storage.AddKeyperSet(seedEon, rig.keyperSet)
	rig.handler = NewDecryptionKeysHandler(
		&Config{InstanceID: seedInstanceID, MaxNumKeysPerMessage: 500},
		storage,
	)
	return rig
}

func (rig *seedRig) sign(t *testing.T, key *ecdsa.PrivateKey) []byte {
	t.Helper()
	sig, err := rig.sigData.ComputeSignature(key)
	if err != nil {
		t.Fatal(err)
	}
	return sig
}

func (rig *seedRig) msg(signers []uint64, signatures [][]byte) *p2pmsg.DecryptionKeys {
	return &p2pmsg.DecryptionKeys{
		InstanceId: seedInstanceID,
		Eon:        seedEon,
		Keys:       rig.keys,
		Extra: &p2pmsg.DecryptionKeys_Gnosis{
			Gnosis: &p2pmsg.GnosisDecryptionKeysExtra{
				Slot:          seedSlot,
				TxPointer:     seedTxPointer,
				SignerIndices: signers,
				Signatures:    signatures,
			},
		},
	}
}

// accepted reports whether the message passes the keyper-side signature rule and whether it
// passes the access node's message validator.
func (rig *seedRig) accepted(t *testing.T, m *p2pmsg.DecryptionKeys) (keyper bool, accessNode bool) {
	t.Helper()
	extra := m.Extra.(*p2pmsg.DecryptionKeys_Gnosis).Gnosis
	res, err := gnosis.ValidateDecryptionKeysBasic(m)
	if res != pubsub.ValidationAccept || err != nil {
		t.Fatalf("basic validation failed: %v %v", res, err)
	}
	res, err = gnosis.ValidateDecryptionKeysSignatures(m, extra, rig.keyperSet)
	keyper = res == pubsub.ValidationAccept && err == nil
	res, err = rig.handler.ValidateMessage(context.Background(), m)
	accessNode = res == pubsub.ValidationAccept && err == nil
	return keyper, accessNode
}

func TestSeedDemoC06(t *testing.T) {
	rig := newSeedRig(t)

	sig0 := rig.sign(t, rig.keyperKeys[0])
	sig1 := rig.sign(t, rig.keyperKeys[1])
	sig2 := rig.sign(t, rig.keyperKeys[2])
	sigOutsider := rig.sign(t, rig.outsider)
	garbage := bytes.Repeat([]byte{0xab}, 65)

	// sanity: a well-formed message with exactly threshold signers is accepted
	k, a := rig.accepted(t, rig.msg([]uint64{0, 1}, [][]byte{sig0, sig1}))
	if !k || !a {
		t.Fatalf("well-formed message not accepted: keyper=%v accessNode=%v", k, a)
	}
	// sanity: a wrong signature inside the first threshold entries is rejected
	k, a = rig.accepted(t, rig.msg([]uint64{0, 1}, [][]byte{sig0, sigOutsider}))
	if k || a {
		t.Fatalf("message with outsider signature accepted: keyper=%v accessNode=%v", k, a)
	}

	cases := []struct {
		name       string
		signers    []uint64
		signatures [][]byte
	}{
		{
			name:       "threshold+1 signers, all signatures genuine",
			signers:    []uint64{0, 1, 2},
			signatures: [][]byte{sig0, sig1, sig2},
		},
		{
			name:       "threshold+1 signers, last signature by an outsider",
			signers:    []uint64{0, 1, 2},
			signatures: [][]byte{sig0, sig1, sigOutsider},
		},
		{
			name:       "threshold+1 signers, last signature by another member",
			signers:    []uint64{0, 1, 2},
			signatures: [][]byte{sig0, sig1, sig0},
		},
		{
			name:       "all keypers named, trailing signatures garbage",
			signers:    []uint64{0, 1, 2, 3},
			signatures: [][]byte{sig0, sig1, garbage, garbage},
		},
	}
	for _, tc := range cases {
		k, a := rig.accepted(t, rig.msg(tc.signers, tc.signatures))
		if k {
			t.Errorf("%s: accepted by keyper validation (threshold %d, %d signers)", tc.name, seedThreshold, len(tc.signers))
		}
		if a {
			t.Errorf("%s: accepted by access node (threshold %d, %d signers)", tc.name, seedThreshold, len(tc.signers))
		}
	}
}
