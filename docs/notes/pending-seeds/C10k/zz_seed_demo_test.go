package app

import (
	"crypto/ecdsa"
	"encoding/base64"
	"reflect"
	"testing"

	"github.com/ethereum/go-ethereum/common"
	"github.com/ethereum/go-ethereum/crypto"
	"github.com/tendermint/go-amino"
	abcitypes "github.com/tendermint/tendermint/abci/types"
	tmproto "github.com/tendermint/tendermint/proto/tendermint/types"

	"github.com/shutter-network/rolling-shutter/rolling-shutter/shmsg"
)

const seedDemoChainID = "seed-demo-chain"

type seedDemoKeyper struct {
	key  *ecdsa.PrivateKey
	addr common.Address
}

type seedDemoChain struct {
	t       *testing.T
	app     *ShutterApp
	keypers []seedDemoKeyper
	nonce   uint64
	height  int64
}

func seedDemoKeys(t *testing.T) []seedDemoKeyper {
	t.Helper()
	hexkeys := []string{
		"b71c71a67e1177ad4e901695e1b4b9ee17ae16c6668d313eac2f96dbcda3f291",
		"8a1f9a8f95be41cd7ccb6168179afb4504aefe388d1e14474d32c45c72ce7b7a",
		"49a7b37aa6f6645917e7b807e9d1c00d4fa71f18343b0d4122a4d2df64dd6fee",
	}
	var res []seedDemoKeyper
	for _, h := range hexkeys {
		k, err := crypto.HexToECDSA(h)
		if err != nil {
			t.Fatal(err)
		}
		res = append(res, seedDemoKeyper{key: k, addr: crypto.PubkeyToAddress(k.PublicKey)})
	}
	return res
}

// tx builds a correctly signed, base64 encoded transaction the same way a keyper does.
func (c *seedDemoChain) tx(signer int, msg *shmsg.Message) []byte {
	c.t.Helper()
	c.nonce++
	signed, err := shmsg.SignMessage(&shmsg.MessageWithNonce{
		ChainId:     []byte(seedDemoChainID),
		RandomNonce: c.nonce,
		Msg:         msg,
	}, c.keypers[signer].key)
	if err != nil {
		c.t.Fatal(err)
	}
	return []byte(base64.RawURLEncoding.EncodeToString(signed))
}

// block executes one block with the given transactions and returns the DeliverTx responses. A
// panic inside the app is turned into a test failure.
func (c *seedDemoChain) block(txs ...[]byte) []abcitypes.ResponseDeliverTx {
	c.t.Helper()
	defer func() {
		if r := recover(); r != nil {
			c.t.Fatalf("shuttermint panicked: %v", r)
		}
	}()
	c.height++
	c.app.BeginBlock(abcitypes.RequestBeginBlock{Header: tmproto.Header{Height: c.height}})
	var res []abcitypes.ResponseDeliverTx
	for _, tx := range txs {
		res = append(res, c.app.DeliverTx(abcitypes.RequestDeliverTx{Tx: tx}))
	}
	c.app.EndBlock(abcitypes.RequestEndBlock{Height: c.height})
	c.app.Commit()
	return res
}

// newSeedDemoChain creates a chain with three keypers and runs it up to the point where the
// first keyper config has been voted in and the DKG for eon 1 is running.
func newSeedDemoChain(t *testing.T) *seedDemoChain {
	t.Helper()
	c := &seedDemoChain{t: t, app: NewShutterApp(), keypers: seedDemoKeys(t)}
	var addrs []common.Address
	for _, k := range c.keypers {
		addrs = append(addrs, k.addr)
	}
	genesis, err := amino.NewCodec().MarshalJSON(NewGenesisAppState(addrs, 2, 0, NewForkHeightsAllDisabled()))
	if err != nil {
		t.Fatal(err)
	}
	c.app.InitChain(abcitypes.RequestInitChain{ChainId: seedDemoChainID, AppStateBytes: genesis})

	vote := func(i int) []byte { return c.tx(i, shmsg.NewBatchConfig(10, addrs, 2, 1)) }
	res := c.block(vote(0), vote(1))
	for i, r := range res {
		if r.Code != 0 {
			t.Fatalf("setup: config vote %d refused: %s", i, r.Log)
		}
	}
	if c.app.DKGMap[1] == nil {
		t.Fatalf("setup: DKG for eon 1 not started")
	}
	return c
}

// TestSeedDemoMalformedPolyEvalIsRefused injects a correctly signed PolyEval transaction with a
// structurally invalid payload (the same receiver listed twice, with two different evals) into a
// chain with a running DKG and compares the execution against one without that transaction.
func TestSeedDemoMalformedPolyEvalIsRefused(t *testing.T) {
	with := newSeedDemoChain(t)
	without := newSeedDemoChain(t)

	a, b, cc := with.keypers[0].addr, with.keypers[1].addr, with.keypers[2].addr

	malformed := shmsg.NewPolyEval(1,
		[]common.Address{b, b},
		[][]byte{[]byte("eval number one"), []byte("eval number two")},
	)
	res := with.block(with.tx(0, malformed))[0]
	without.nonce++ // keep the nonces of the follow-up transactions identical in both runs
	without.block()

	if res.Code == 0 {
		t.Errorf("malformed PolyEval (duplicate receiver) got code 0, expected a non-zero code")
	}
	if len(res.Events) != 0 {
		t.Errorf("malformed PolyEval (duplicate receiver) produced %d event(s): %v", len(res.Events), res.Events)
	}

	// Later, well-formed transactions must be answered the same with and without the malformed
	// transaction in the history.
	followUp := func(c *seedDemoChain) []abcitypes.ResponseDeliverTx {
		return c.block(
			c.tx(1, shmsg.NewPolyEval(1, []common.Address{a, cc}, [][]byte{[]byte("b->a"), []byte("b->c")})),
			c.tx(2, shmsg.NewPolyEval(1, []common.Address{a, b}, [][]byte{[]byte("c->a"), []byte("c->b")})),
			c.tx(0, shmsg.NewPolyEval(1, []common.Address{b, cc}, [][]byte{[]byte("a->b"), []byte("a->c")})),
		)
	}
	r1 := followUp(with)
	r2 := followUp(without)
	names := []string{"keyper B", "keyper C", "keyper A"}
	for i := range r1 {
		if !reflect.DeepEqual(r1[i], r2[i]) {
			t.Errorf("follow-up PolyEval of %s answered differently:\n  with malformed tx:    code=%d log=%q events=%d\n  without malformed tx: code=%d log=%q events=%d",
				names[i], r1[i].Code, r1[i].Log, len(r1[i].Events), r2[i].Code, r2[i].Log, len(r2[i].Events))
		}
	}
}
