package smobserver

// Demonstration for property C07 (honest keypers agree on the eon key despite Byzantine
// participants).
//
// The test runs a complete distributed key generation for n=3, t=2 through the real components:
//   - the shuttermint application (app.ShutterApp: InitChain/BeginBlock/DeliverTx/EndBlock/Commit)
//     with signed transactions,
//   - two honest keypers, each a ShuttermintState driven block by block by
//     ShuttermintDriver.handleBlock, with their outgoing messages picked up from the (in-memory)
//     database by fx.SendShutterMessages, signed with the keyper's key and put into the next block,
//   - one Byzantine keyper scripted by the test: it deals correctly (valid commitment, valid ECIES
//     encrypted evaluations) and then sends one false accusation against an honest keyper during
//     the accusing phase. Everything lands inside its phase.
//
// The honest keypers must both report success and hold the same eon public key, the same vector of
// public key shares, matching secret shares, and their t=2 shares must decrypt a message encrypted
// to the eon key.

import (
	"context"
	"crypto/ecdsa"
	"crypto/ed25519"
	"crypto/rand"
	"database/sql"
	"encoding/base64"
	"fmt"
	"reflect"
	"sort"
	"strings"
	"testing"
	"time"

	"github.com/ethereum/go-ethereum/common"
	ethcrypto "github.com/ethereum/go-ethereum/crypto"
	"github.com/ethereum/go-ethereum/crypto/ecies"
	"github.com/jackc/pgconn"
	"github.com/jackc/pgx/v4"
	"github.com/tendermint/go-amino"
	abcitypes "github.com/tendermint/tendermint/abci/types"
	tmproto "github.com/tendermint/tendermint/proto/tendermint/types"
	coretypes "github.com/tendermint/tendermint/rpc/core/types"

	"github.com/shutter-network/shutter/shlib/puredkg"
	"github.com/shutter-network/shutter/shlib/shcrypto"

	"github.com/shutter-network/rolling-shutter/rolling-shutter/app"
	"github.com/shutter-network/rolling-shutter/rolling-shutter/keyper/database"
	"github.com/shutter-network/rolling-shutter/rolling-shutter/keyper/dkgphase"
	"github.com/shutter-network/rolling-shutter/rolling-shutter/keyper/fx"
	"github.com/shutter-network/rolling-shutter/rolling-shutter/shdb"
	"github.com/shutter-network/rolling-shutter/rolling-shutter/shmsg"
)

// ---------------------------------------------------------------------------------------------
// in-memory stand-in for the keyper's postgres database (only the statements the DKG driver uses)
// ---------------------------------------------------------------------------------------------

type demoSyncMeta struct {
	currentBlock, lastCommittedHeight int64
	ts                                time.Time
}

type demoPolyEval struct {
	eon      int64
	receiver string
	eval     []byte
}

type demoEncKey struct {
	address string
	key     []byte
	height  int64
}

type demoDB struct {
	batchConfigs map[int32]database.TendermintBatchConfig
	eons         map[int64]database.Eon
	puredkg      map[int64][]byte
	syncMeta     []demoSyncMeta
	polyEvals    []demoPolyEval
	encKeys      []demoEncKey
	outgoing     []database.TendermintOutgoingMessage
	nextMsgID    int32
	dkgResults   map[int64]database.DkgResult
	eonKeys      map[int64][]byte
}

func newDemoDB() *demoDB {
	return &demoDB{
		batchConfigs: map[int32]database.TendermintBatchConfig{},
		eons:         map[int64]database.Eon{},
		puredkg:      map[int64][]byte{},
		syncMeta:     []demoSyncMeta{{0, 0, time.Now()}},
		nextMsgID:    1,
		dkgResults:   map[int64]database.DkgResult{},
		eonKeys:      map[int64][]byte{},
	}
}

func demoQueryName(sqltext string) string {
	const prefix = "-- name: "
	if !strings.HasPrefix(sqltext, prefix) {
		panic("unexpected sql: " + sqltext)
	}
	rest := sqltext[len(prefix):]
	return rest[:strings.IndexAny(rest, " \n")]
}

type demoRow struct {
	vals []interface{}
	err  error
}

func (r demoRow) Scan(dest ...interface{}) error {
	if r.err != nil {
		return r.err
	}
	if len(dest) != len(r.vals) {
		return fmt.Errorf("demoRow: %d columns, %d destinations", len(r.vals), len(dest))
	}
	for i, d := range dest {
		reflect.ValueOf(d).Elem().Set(reflect.ValueOf(r.vals[i]))
	}
	return nil
}

// demoRows implements the part of pgx.Rows that the generated query code uses; the remaining
// methods come from the embedded (nil) interface and are never called.
type demoRows struct {
	pgx.Rows
	rows [][]interface{}
	pos  int
}

func (r *demoRows) Close()     {}
func (r *demoRows) Err() error { return nil }
func (r *demoRows) Next() bool { r.pos++; return r.pos <= len(r.rows) }
func (r *demoRows) Scan(dest ...interface{}) error {
	return demoRow{vals: r.rows[r.pos-1]}.Scan(dest...)
}

func (db *demoDB) latestMeta() demoSyncMeta {
	best := db.syncMeta[0]
	for _, m := range db.syncMeta {
		if m.currentBlock > best.currentBlock ||
			(m.currentBlock == best.currentBlock && m.lastCommittedHeight > best.lastCommittedHeight) {
			best = m
		}
	}
	return best
}

func (db *demoDB) Exec(_ context.Context, sqltext string, args ...interface{}) (pgconn.CommandTag, error) {
	switch name := demoQueryName(sqltext); name {
	case "TMSetSyncMeta":
		db.syncMeta = append(db.syncMeta, demoSyncMeta{args[0].(int64), args[1].(int64), args[2].(time.Time)})
	case "InsertPureDKG":
		db.puredkg[args[0].(int64)] = args[1].([]byte)
	case "DeletePureDKG":
		delete(db.puredkg, args[0].(int64))
	case "InsertPolyEval":
		db.polyEvals = append(db.polyEvals, demoPolyEval{args[0].(int64), args[1].(string), args[2].([]byte)})
	case "DeletePolyEval":
		kept := db.polyEvals[:0]
		for _, e := range db.polyEvals {
			if !(e.eon == args[0].(int64) && e.receiver == args[1].(string)) {
				kept = append(kept, e)
			}
		}
		db.polyEvals = kept
	case "DeletePolyEvalByEon":
		kept := db.polyEvals[:0]
		n := 0
		for _, e := range db.polyEvals {
			if e.eon != args[0].(int64) {
				kept = append(kept, e)
			} else {
				n++
			}
		}
		db.polyEvals = kept
		return pgconn.CommandTag(fmt.Sprintf("DELETE %d", n)), nil
	case "InsertBatchConfig":
		idx := args[0].(int32)
		if _, ok := db.batchConfigs[idx]; ok {
			return nil, fmt.Errorf("duplicate batch config %d", idx)
		}
		db.batchConfigs[idx] = database.TendermintBatchConfig{
			KeyperConfigIndex:     idx,
			Height:                args[1].(int64),
			Keypers:               args[2].([]string),
			Threshold:             args[3].(int32),
			Started:               args[4].(bool),
			ActivationBlockNumber: args[5].(int64),
		}
	case "SetBatchConfigStarted":
		bc := db.batchConfigs[args[0].(int32)]
		bc.Started = true
		db.batchConfigs[args[0].(int32)] = bc
	case "DeleteShutterMessageByDesc":
		kept := db.outgoing[:0]
		for _, m := range db.outgoing {
			if m.Description != args[0].(string) {
				kept = append(kept, m)
			}
		}
		db.outgoing = kept
	case "DeleteShutterMessage":
		kept := db.outgoing[:0]
		for _, m := range db.outgoing {
			if m.ID != args[0].(int32) {
				kept = append(kept, m)
			}
		}
		db.outgoing = kept
	case "InsertEon":
		eon := args[0].(int64)
		if _, ok := db.eons[eon]; ok {
			return nil, fmt.Errorf("duplicate eon %d", eon)
		}
		db.eons[eon] = database.Eon{
			Eon: eon, Height: args[1].(int64), ActivationBlockNumber: args[2].(int64), KeyperConfigIndex: args[3].(int64),
		}
	case "InsertEonPublicKey":
		db.eonKeys[args[1].(int64)] = args[0].([]byte)
	case "InsertDKGResult":
		eon := args[0].(int64)
		if _, ok := db.dkgResults[eon]; ok {
			return nil, fmt.Errorf("duplicate dkg result %d", eon)
		}
		db.dkgResults[eon] = database.DkgResult{
			Eon: eon, Success: args[1].(bool), Error: args[2].(sql.NullString), PureResult: args[3].([]byte),
		}
	case "InsertEncryptionKey":
		for i, k := range db.encKeys {
			if k.address == args[0].(string) && k.height == args[2].(int64) {
				db.encKeys[i].key = args[1].([]byte)
				return nil, nil
			}
		}
		db.encKeys = append(db.encKeys, demoEncKey{args[0].(string), args[1].([]byte), args[2].(int64)})
	default:
		panic("demoDB.Exec: statement not supported: " + name)
	}
	return nil, nil
}

func (db *demoDB) Query(_ context.Context, sqltext string, _ ...interface{}) (pgx.Rows, error) {
	switch name := demoQueryName(sqltext); name {
	case "SelectPureDKG":
		rows := &demoRows{}
		for eon, b := range db.puredkg {
			rows.rows = append(rows.rows, []interface{}{eon, b})
		}
		return rows, nil
	case "PolyEvalsWithEncryptionKeys":
		latest := map[string]demoEncKey{}
		for _, k := range db.encKeys {
			if cur, ok := latest[k.address]; !ok || k.height > cur.height {
				latest[k.address] = k
			}
		}
		rows := &demoRows{}
		for _, ev := range db.polyEvals {
			k, ok := latest[ev.receiver]
			if !ok {
				continue
			}
			eon, ok := db.eons[ev.eon]
			if !ok {
				continue
			}
			rows.rows = append(rows.rows, []interface{}{ev.eon, ev.receiver, ev.eval, k.key, eon.Height})
		}
		sort.SliceStable(rows.rows, func(i, j int) bool { return rows.rows[i][0].(int64) < rows.rows[j][0].(int64) })
		return rows, nil
	default:
		panic("demoDB.Query: statement not supported: " + name)
	}
}

func (db *demoDB) QueryRow(_ context.Context, sqltext string, args ...interface{}) pgx.Row {
	switch name := demoQueryName(sqltext); name {
	case "CountBatchConfigs":
		return demoRow{vals: []interface{}{int64(len(db.batchConfigs))}}
	case "GetEon":
		e, ok := db.eons[args[0].(int64)]
		if !ok {
			return demoRow{err: pgx.ErrNoRows}
		}
		return demoRow{vals: []interface{}{e.Eon, e.Height, e.ActivationBlockNumber, e.KeyperConfigIndex}}
	case "GetBatchConfig":
		bc, ok := db.batchConfigs[args[0].(int32)]
		if !ok {
			return demoRow{err: pgx.ErrNoRows}
		}
		return demoRow{vals: []interface{}{
			bc.KeyperConfigIndex, bc.Height, bc.Keypers, bc.Threshold, bc.Started, bc.ActivationBlockNumber,
		}}
	case "TMGetSyncMeta":
		m := db.latestMeta()
		return demoRow{vals: []interface{}{m.currentBlock, m.lastCommittedHeight, m.ts}}
	case "GetLastCommittedHeight":
		return demoRow{vals: []interface{}{db.latestMeta().lastCommittedHeight}}
	case "GetLatestEonForKeyperConfig":
		found := false
		var maxEon int64
		for _, e := range db.eons {
			if e.KeyperConfigIndex == args[0].(int64) && (!found || e.Eon > maxEon) {
				found, maxEon = true, e.Eon
			}
		}
		if !found {
			return demoRow{err: fmt.Errorf("cannot scan NULL into int32")}
		}
		return demoRow{vals: []interface{}{int32(maxEon)}}
	case "ScheduleSerializedShutterMessage":
		id := db.nextMsgID
		db.nextMsgID++
		db.outgoing = append(db.outgoing, database.TendermintOutgoingMessage{
			ID: id, Description: args[0].(string), Msg: args[1].([]byte),
		})
		return demoRow{vals: []interface{}{id}}
	case "GetNextShutterMessage":
		if len(db.outgoing) == 0 {
			return demoRow{err: pgx.ErrNoRows}
		}
		first := db.outgoing[0]
		for _, m := range db.outgoing {
			if m.ID < first.ID {
				first = m
			}
		}
		return demoRow{vals: []interface{}{first.ID, first.Description, first.Msg}}
	default:
		panic("demoDB.QueryRow: statement not supported: " + name)
	}
}

// ---------------------------------------------------------------------------------------------
// chain: the real shuttermint app, blocks are produced by the test
// ---------------------------------------------------------------------------------------------

const demoChainID = "demo-chain"

type demoChain struct {
	t       *testing.T
	app     *app.ShutterApp
	height  int64
	mempool [][]byte
}

func demoSignedTx(t *testing.T, key *ecdsa.PrivateKey, msg *shmsg.Message) []byte {
	t.Helper()
	var nonce [8]byte
	_, err := rand.Read(nonce[:])
	if err != nil {
		t.Fatal(err)
	}
	var n uint64
	for _, b := range nonce {
		n = n<<8 | uint64(b)
	}
	signed, err := shmsg.SignMessage(&shmsg.MessageWithNonce{
		ChainId:     []byte(demoChainID),
		RandomNonce: n,
		Msg:         msg,
	}, key)
	if err != nil {
		t.Fatal(err)
	}
	return []byte(base64.RawURLEncoding.EncodeToString(signed))
}

// nextBlock executes all transactions of the mempool in a new block and returns what a keyper
// gets from the BlockResults RPC call for that block.
func (c *demoChain) nextBlock() *coretypes.ResultBlockResults {
	c.height++
	res := &coretypes.ResultBlockResults{Height: c.height}
	res.BeginBlockEvents = c.app.BeginBlock(abcitypes.RequestBeginBlock{Header: tmproto.Header{Height: c.height}}).Events
	txs := c.mempool
	c.mempool = nil
	for _, tx := range txs {
		r := c.app.DeliverTx(abcitypes.RequestDeliverTx{Tx: tx})
		res.TxsResults = append(res.TxsResults, &r)
	}
	res.EndBlockEvents = c.app.EndBlock(abcitypes.RequestEndBlock{Height: c.height}).Events
	c.app.Commit()
	return res
}

// chainSender is the keyper's fx.MessageSender: like fx.RPCMessageSender it adds chain id and
// nonce and signs with the keyper's key; the transaction goes into the next block.
type chainSender struct {
	t     *testing.T
	chain *demoChain
	key   *ecdsa.PrivateKey
	sent  []*shmsg.Message
}

func (s *chainSender) SendMessage(_ context.Context, msg *shmsg.Message) error {
	s.chain.mempool = append(s.chain.mempool, demoSignedTx(s.t, s.key, msg))
	s.sent = append(s.sent, msg)
	return nil
}

// ---------------------------------------------------------------------------------------------
// honest keyper
// ---------------------------------------------------------------------------------------------

type demoConfig struct {
	address   common.Address
	phases    *dkgphase.PhaseLength
	validator ed25519.PublicKey
	encKey    *ecies.PrivateKey
}

func (c *demoConfig) GetAddress() common.Address               { return c.address }
func (c *demoConfig) GetDKGPhaseLength() *dkgphase.PhaseLength { return c.phases }
func (c *demoConfig) GetValidatorPublicKey() ed25519.PublicKey { return c.validator }
func (c *demoConfig) GetEncryptionKey() *ecies.PrivateKey      { return c.encKey }

type demoKeyper struct {
	name   string
	key    *ecdsa.PrivateKey
	config *demoConfig
	db     *demoDB
	driver *ShuttermintDriver
	sender *chainSender
}

func newDemoIdentity(t *testing.T, phaseLength int64) (*ecdsa.PrivateKey, *demoConfig) {
	t.Helper()
	key, err := ethcrypto.GenerateKey()
	if err != nil {
		t.Fatal(err)
	}
	encKeyECDSA, err := ethcrypto.GenerateKey()
	if err != nil {
		t.Fatal(err)
	}
	validator, _, err := ed25519.GenerateKey(rand.Reader)
	if err != nil {
		t.Fatal(err)
	}
	return key, &demoConfig{
		address:   ethcrypto.PubkeyToAddress(key.PublicKey),
		phases:    dkgphase.NewConstantPhaseLength(phaseLength),
		validator: validator,
		encKey:    ecies.ImportECDSA(encKeyECDSA),
	}
}

func newDemoKeyper(t *testing.T, name string, chain *demoChain, phaseLength int64) *demoKeyper {
	key, config := newDemoIdentity(t, phaseLength)
	return &demoKeyper{
		name:   name,
		key:    key,
		config: config,
		db:     newDemoDB(),
		driver: &ShuttermintDriver{shuttermintState: NewShuttermintState(config)},
		sender: &chainSender{t: t, chain: chain, key: key},
	}
}

// handleBlock lets the keyper process one block like the sync loop does and then sends the
// shuttermint messages that were scheduled.
func (k *demoKeyper) handleBlock(ctx context.Context, t *testing.T, block *coretypes.ResultBlockResults) {
	t.Helper()
	queries := database.New(k.db)
	err := k.driver.handleBlock(ctx, queries, block, block.Height+1)
	if err != nil {
		t.Fatalf("keyper %s: handleBlock %d: %s", k.name, block.Height, err)
	}
	err = fx.SendShutterMessages(ctx, queries, k.sender)
	if err != nil {
		t.Fatalf("keyper %s: send messages: %s", k.name, err)
	}
}

func (k *demoKeyper) reportedSuccess(eon uint64) (reported, success bool) {
	for _, m := range k.sender.sent {
		if r := m.GetDkgResult(); r != nil && r.Eon == eon {
			return true, r.Success
		}
	}
	return false, false
}

// ---------------------------------------------------------------------------------------------
// the run
// ---------------------------------------------------------------------------------------------

func TestSeedDemoAgreementWithFalseAccusation(t *testing.T) {
	runSeedDemo(t, true)
}

// The same run without the accusation (the third keyper behaves correctly throughout); passes
// with and without the seeded change.
func TestSeedDemoControlNoAccusation(t *testing.T) {
	runSeedDemo(t, false)
}

func runSeedDemo(t *testing.T, falseAccusation bool) {
	ctx := context.Background()
	const (
		phaseLength = 5
		threshold   = 2
		eon         = uint64(1)
	)

	shapp := app.NewShutterApp()
	chain := &demoChain{t: t, app: shapp}

	alice := newDemoKeyper(t, "alice", chain, phaseLength)
	bob := newDemoKeyper(t, "bob", chain, phaseLength)
	honest := []*demoKeyper{alice, bob}
	malloryKey, malloryConfig := newDemoIdentity(t, phaseLength)
	keypers := []common.Address{alice.config.address, bob.config.address, malloryConfig.address}
	const malloryIndex = 2

	genesis, err := amino.NewCodec().MarshalJSON(app.NewGenesisAppState(keypers, threshold, 0, nil))
	if err != nil {
		t.Fatal(err)
	}
	shapp.InitChain(abcitypes.RequestInitChain{ChainId: demoChainID, AppStateBytes: genesis})

	step := func() *coretypes.ResultBlockResults {
		block := chain.nextBlock()
		for _, k := range honest {
			k.handleBlock(ctx, t, block)
		}
		return block
	}
	malloryTx := func(msg *shmsg.Message) {
		chain.mempool = append(chain.mempool, demoSignedTx(t, malloryKey, msg))
	}

	// block 1: the genesis batch config is announced, the honest keypers schedule their check-in
	step()
	malloryTx(shmsg.NewCheckIn(malloryConfig.validator, &malloryConfig.encKey.PublicKey))
	// block 2: all check-ins
	step()
	// block 3: alice and bob vote for keyper config 1, which starts the DKG for eon 1
	for _, k := range honest {
		chain.mempool = append(chain.mempool, demoSignedTx(t, k.key, shmsg.NewBatchConfig(100, keypers, threshold, 1)))
	}
	block := step()
	startHeight := block.Height
	if _, ok := shapp.DKGMap[eon]; !ok {
		t.Fatalf("setup: DKG for eon %d was not started in block %d", eon, startHeight)
	}
	phaseAt := func(h int64) puredkg.Phase { return alice.config.phases.GetPhaseAtHeight(h, startHeight) }

	// Mallory deals correctly: commitment plus ECIES encrypted evaluations, landing in the first
	// block of the dealing phase after the start.
	mallory := puredkg.NewPureDKG(eon, uint64(len(keypers)), threshold, malloryIndex)
	commitment, evals, err := mallory.StartPhase1Dealing()
	if err != nil {
		t.Fatal(err)
	}
	malloryTx(shmsg.NewPolyCommitment(eon, commitment.Gammas))
	var receivers []common.Address
	var encrypted [][]byte
	for _, ev := range evals {
		receiver := honest[ev.Receiver]
		enc, err := ecies.Encrypt(rand.Reader, &receiver.config.encKey.PublicKey, shdb.EncodeBigint(ev.Eval), nil, nil)
		if err != nil {
			t.Fatal(err)
		}
		receivers = append(receivers, receiver.config.address)
		encrypted = append(encrypted, enc)
	}
	malloryTx(shmsg.NewPolyEval(eon, receivers, encrypted))

	// run to the second block of the accusing phase; all dealing messages land well inside the
	// dealing phase
	for phaseAt(chain.height+1) != puredkg.Accusing {
		step()
	}
	step()
	// Mallory's false accusation against bob, lands inside the accusing phase
	if falseAccusation {
		malloryTx(shmsg.NewAccusation(eon, []common.Address{bob.config.address}))
	}
	block = step()
	if phaseAt(block.Height) != puredkg.Accusing {
		t.Fatalf("setup: accusation landed in phase %s", phaseAt(block.Height))
	}

	// run until the DKG is over for everybody; bob's apology lands inside the apologizing phase
	for phaseAt(chain.height) != puredkg.Finalized {
		step()
	}
	step()
	step()

	// every message of the honest keypers and of mallory must have been accepted by the app
	dkginstance := shapp.DKGMap[eon]
	if len(dkginstance.PolyCommitmentsSeen) != 3 || len(dkginstance.PolyEvalsSeen) != 6 {
		t.Fatalf("setup: app saw %d commitments, %d evals", len(dkginstance.PolyCommitmentsSeen), len(dkginstance.PolyEvalsSeen))
	}
	if _, ok := dkginstance.ApologiesSeen[bob.config.address]; !ok && falseAccusation {
		t.Fatalf("setup: bob's apology did not reach the chain")
	}

	// ---- the property ----
	results := map[string]*puredkg.Result{}
	for _, k := range honest {
		reported, success := k.reportedSuccess(eon)
		if !reported {
			t.Fatalf("keyper %s did not report a DKG result", k.name)
		}
		row, ok := k.db.dkgResults[int64(eon)]
		if !ok {
			t.Fatalf("keyper %s has no dkg_result row", k.name)
		}
		t.Logf("keyper %s: reported success=%t, stored success=%t error=%q", k.name, success, row.Success, row.Error.String)
		if !success || !row.Success {
			continue
		}
		res, err := shdb.DecodePureDKGResult(row.PureResult)
		if err != nil {
			t.Fatal(err)
		}
		results[k.name] = res
		t.Logf("keyper %s: eon public key %x", k.name, res.PublicKey.Marshal()[:16])
	}
	if len(results) != len(honest) {
		t.Fatalf("C07: with in-phase messages and one Byzantine keyper (n-t=1) both honest keypers must succeed, only %d did", len(results))
	}
	ra, rb := results["alice"], results["bob"]

	epochID := shcrypto.ComputeEpochID([]byte("seed demo epoch"))
	for name, r := range results {
		share := shcrypto.ComputeEpochSecretKeyShare(r.SecretKeyShare, epochID)
		if !shcrypto.VerifyEpochSecretKeyShare(share, r.PublicKeyShares[r.Keyper], epochID) {
			t.Errorf("C07 violated: secret share of %s does not match its public key share", name)
		}
	}

	if !ra.PublicKey.Equal(rb.PublicKey) {
		t.Errorf("C07 violated: alice and bob both report success but hold different eon public keys")
	}
	if len(ra.PublicKeyShares) != len(rb.PublicKeyShares) {
		t.Errorf("C07 violated: different number of public key shares")
	} else {
		for i := range ra.PublicKeyShares {
			if !ra.PublicKeyShares[i].Equal(rb.PublicKeyShares[i]) {
				t.Errorf("C07 violated: public key share %d differs between alice and bob", i)
			}
		}
	}

	// t=2 shares of the honest keypers must decrypt what was encrypted to the eon key
	message := []byte("a message encrypted for eon 1")
	sigma, err := shcrypto.RandomSigma(rand.Reader)
	if err != nil {
		t.Fatal(err)
	}
	for name, r := range results {
		ciphertext := shcrypto.Encrypt(message, r.PublicKey, epochID, sigma)
		epochKey, err := shcrypto.ComputeEpochSecretKey(
			[]int{int(ra.Keyper), int(rb.Keyper)},
			[]*shcrypto.EpochSecretKeyShare{
				shcrypto.ComputeEpochSecretKeyShare(ra.SecretKeyShare, epochID),
				shcrypto.ComputeEpochSecretKeyShare(rb.SecretKeyShare, epochID),
			},
			threshold,
		)
		if err != nil {
			t.Fatal(err)
		}
		decrypted, err := ciphertext.Decrypt(epochKey)
		if err != nil || string(decrypted) != string(message) {
			t.Errorf("C07 violated: the shares of alice and bob do not decrypt a message encrypted to the eon key held by %s (err=%v)", name, err)
		}
	}
}
