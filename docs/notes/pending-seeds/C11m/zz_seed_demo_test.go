package app

import (
	"crypto/ecdsa"
	"encoding/base64"
	"testing"

	"github.com/ethereum/go-ethereum/common"
	ethcrypto "github.com/ethereum/go-ethereum/crypto"
	"github.com/tendermint/go-amino"
	abcitypes "github.com/tendermint/tendermint/abci/types"
	tmproto "github.com/tendermint/tendermint/proto/tendermint/types"

	"github.com/shutter-network/rolling-shutter/rolling-shutter/shmsg"
)

const seedDemoChainID = "seed-demo-chain"

type seedDemoKeyper struct {
	key  *ecdsa.PrivateKey
	addr common.Address
}

func seedDemoKeypers(t *testing.T, n int) []seedDemoKeyper {
	t.Helper()
	var res []seedDemoKeyper
	for i := 0; i < n; i++ {
		k, err := ethcrypto.GenerateKey()
		if err != nil {
			t.Fatal(err)
		}
		res = append(res, seedDemoKeyper{key: k, addr: ethcrypto.PubkeyToAddress(k.PublicKey)})
	}
	return res
}

func seedDemoAddrs(ks []seedDemoKeyper) []common.Address {
	var res []common.Address
	for _, k := range ks {
		res = append(res, k.addr)
	}
	return res
}

// seedDemoTx builds a real signed shuttermint transaction the way a keyper would.
func seedDemoTx(t *testing.T, k seedDemoKeyper, nonce uint64, msg *shmsg.Message) []byte {
	t.Helper()
	signed, err := shmsg.SignMessage(&shmsg.MessageWithNonce{
		Msg:         msg,
		ChainId:     []byte(seedDemoChainID),
		RandomNonce: nonce,
	}, k.key)
	if err != nil {
		t.Fatal(err)
	}
	return []byte(base64.RawURLEncoding.EncodeToString(signed))
}

func seedDemoApp(t *testing.T, keypers []common.Address, threshold int) *ShutterApp {
	t.Helper()
	app := NewShutterApp()
	genesis := NewGenesisAppState(keypers, threshold, 0, nil)
	appState, err := amino.NewCodec().MarshalJSONIndent(genesis, "", "  ")
	if err != nil {
		t.Fatal(err)
	}
	app.InitChain(abcitypes.RequestInitChain{
		ChainId:       seedDemoChainID,
		AppStateBytes: appState,
	})
	return app
}

// TestSeedConfigNeedsCurrentThreshold drives the real ABCI entry points (InitChain, BeginBlock,
// DeliverTx, EndBlock, Commit) with properly signed BatchConfig transactions.
//
// Property C11: a new keyper configuration may only be accepted when at least the CURRENT
// configuration's threshold of distinct current keypers voted for that identical configuration.
//
// The current configuration has 3 keypers and threshold 2. The candidate configuration hands
// control to a completely new keyper set and declares threshold 1. A single current keyper votes
// for it. With only one vote (< current threshold 2) the candidate must not be accepted and no eon
// may be started.
func TestSeedConfigNeedsCurrentThreshold(t *testing.T) {
	current := seedDemoKeypers(t, 3)
	next := seedDemoKeypers(t, 3)
	app := seedDemoApp(t, seedDemoAddrs(current), 2)

	if got := app.LastConfig().Threshold; got != 2 {
		t.Fatalf("setup: current threshold = %d, want 2", got)
	}

	candidate := shmsg.NewBatchConfig(100, seedDemoAddrs(next), 1, 1)

	app.BeginBlock(abcitypes.RequestBeginBlock{Header: tmproto.Header{Height: 1}})
	resp := app.DeliverTx(abcitypes.RequestDeliverTx{Tx: seedDemoTx(t, current[0], 1, candidate)})
	if resp.Code != 0 {
		t.Fatalf("first vote was rejected: code=%d log=%q", resp.Code, resp.Log)
	}
	app.EndBlock(abcitypes.RequestEndBlock{Height: 1})
	app.Commit()

	votes := len(app.ConfigVoting.Votes)
	if len(app.Configs) != 1 || app.LastConfig().KeyperConfigIndex != 0 {
		t.Errorf("C11 violated: config index %d (keypers replaced, threshold %d) accepted after a "+
			"single vote, but the current configuration requires %d votes",
			app.LastConfig().KeyperConfigIndex, app.LastConfig().Threshold, 2)
	}
	if app.EONCounter != 0 || len(app.DKGMap) != 0 {
		t.Errorf("C11 violated: eon %d started (%d dkg instances) although the configuration "+
			"change only has one vote", app.EONCounter, len(app.DKGMap))
	}
	if len(resp.Events) != 0 {
		t.Errorf("C11 violated: a single vote emitted %d events (new config / eon started)", len(resp.Events))
	}
	if t.Failed() {
		return
	}
	if votes != 1 {
		t.Fatalf("expected exactly one recorded vote, got %d", votes)
	}

	// Control: the second distinct current keyper reaches the current threshold; now the
	// configuration is accepted and exactly one fresh eon is started.
	app.BeginBlock(abcitypes.RequestBeginBlock{Header: tmproto.Header{Height: 2}})
	resp = app.DeliverTx(abcitypes.RequestDeliverTx{Tx: seedDemoTx(t, current[1], 1, candidate)})
	if resp.Code != 0 {
		t.Fatalf("second vote was rejected: code=%d log=%q", resp.Code, resp.Log)
	}
	app.EndBlock(abcitypes.RequestEndBlock{Height: 2})
	app.Commit()

	if len(app.Configs) != 2 || app.LastConfig().KeyperConfigIndex != 1 {
		t.Fatalf("configuration not accepted after threshold (2) votes")
	}
	if app.EONCounter != 1 || len(app.DKGMap) != 1 {
		t.Fatalf("expected exactly one eon after acceptance, got counter=%d instances=%d",
			app.EONCounter, len(app.DKGMap))
	}
}
