package smobserver

// Demonstration for property C08 (a keyper survives a crash at any instant).
//
// Three keypers run a complete DKG against a small in-process stand-in for the shuttermint
// chain. Every keyper uses the real block handler (ShuttermintDriver.handleBlock), the real
// ShuttermintState and the real outbox sender (fx.SendShutterMessages); the database is an
// in-memory implementation of database.DBTX with snapshot transactions. After keyper 0 has
// committed the transaction of block N its process is killed (driver and ShuttermintState are
// thrown away) and a new process is started on the same database. The keyper must resume and
// the DKG must end like a run without a crash: every keyper stores a successful result, all of
// them agree on the eon public key, keyper 0 published exactly one polynomial commitment and
// all outboxes are drained.

import (
	"bytes"
	"context"
	"crypto/ed25519"
	"crypto/rand"
	"database/sql"
	"fmt"
	"reflect"
	"sort"
	"strings"
	"testing"
	"time"

	"github.com/ethereum/go-ethereum/common"
	ethcrypto "github.com/ethereum/go-ethereum/crypto"
	"github.com/ethereum/go-ethereum/crypto/ecies"
	"github.com/jackc/pgconn"
	"github.com/jackc/pgx/v4"
	"github.com/pkg/errors"
	"github.com/rs/zerolog"
	abcitypes "github.com/tendermint/tendermint/abci/types"
	coretypes "github.com/tendermint/tendermint/rpc/core/types"

	"github.com/shutter-network/rolling-shutter/rolling-shutter/app"
	"github.com/shutter-network/rolling-shutter/rolling-shutter/keyper/database"
	"github.com/shutter-network/rolling-shutter/rolling-shutter/keyper/dkgphase"
	"github.com/shutter-network/rolling-shutter/rolling-shutter/keyper/fx"
	"github.com/shutter-network/rolling-shutter/rolling-shutter/keyper/shutterevents"
	"github.com/shutter-network/rolling-shutter/rolling-shutter/shdb"
	"github.com/shutter-network/rolling-shutter/rolling-shutter/shmsg"
)

// ---------------------------------------------------------------------------------------------
// in-memory database (only the statements used by handleBlock and SendShutterMessages)

type seedDB struct {
	syncMeta      []database.TendermintSyncMetum
	pureDKG       map[int64][]byte
	encKeys       []database.TendermintEncryptionKey
	outbox        []database.TendermintOutgoingMessage
	nextMsgID     int32
	batchConfigs  map[int32]database.TendermintBatchConfig
	eons          map[int64]database.Eon
	polyEvals     []database.PolyEval
	dkgResults    map[int64]database.DkgResult
	eonPublicKeys map[int64][]byte
}

func newSeedDB() *seedDB {
	return &seedDB{
		pureDKG:       map[int64][]byte{},
		batchConfigs:  map[int32]database.TendermintBatchConfig{},
		eons:          map[int64]database.Eon{},
		dkgResults:    map[int64]database.DkgResult{},
		eonPublicKeys: map[int64][]byte{},
		nextMsgID:     1,
	}
}

// clone returns a copy; a transaction works on a clone which replaces the original on commit.
func (d *seedDB) clone() *seedDB {
	c := newSeedDB()
	c.syncMeta = append(c.syncMeta, d.syncMeta...)
	for k, v := range d.pureDKG {
		c.pureDKG[k] = v
	}
	c.encKeys = append(c.encKeys, d.encKeys...)
	c.outbox = append(c.outbox, d.outbox...)
	c.nextMsgID = d.nextMsgID
	for k, v := range d.batchConfigs {
		c.batchConfigs[k] = v
	}
	for k, v := range d.eons {
		c.eons[k] = v
	}
	c.polyEvals = append(c.polyEvals, d.polyEvals...)
	for k, v := range d.dkgResults {
		c.dkgResults[k] = v
	}
	for k, v := range d.eonPublicKeys {
		c.eonPublicKeys[k] = v
	}
	return c
}

type seedConn struct {
	db *seedDB
}

var _ database.DBTX = &seedConn{}

func queryName(sqltext string) string {
	line := strings.SplitN(sqltext, "\n", 2)[0]
	fields := strings.Fields(line)
	if len(fields) >= 3 && fields[0] == "--" && fields[1] == "name:" {
		return fields[2]
	}
	return ""
}

func cp(b []byte) []byte {
	return append([]byte{}, b...)
}

type seedRow struct {
	vals []interface{}
	err  error
}

func (r *seedRow) Scan(dest ...interface{}) error {
	if r.err != nil {
		return r.err
	}
	if len(dest) != len(r.vals) {
		return errors.Errorf("scan: have %d columns, want %d", len(r.vals), len(dest))
	}
	for i := range dest {
		reflect.ValueOf(dest[i]).Elem().Set(reflect.ValueOf(r.vals[i]))
	}
	return nil
}

type seedRows struct {
	pgx.Rows
	rows [][]interface{}
	pos  int
}

func (r *seedRows) Close()     {}
func (r *seedRows) Err() error { return nil }
func (r *seedRows) Next() bool {
	r.pos++
	return r.pos <= len(r.rows)
}

func (r *seedRows) Scan(dest ...interface{}) error {
	return (&seedRow{vals: r.rows[r.pos-1]}).Scan(dest...)
}

func (c *seedConn) latestSyncMeta() (database.TendermintSyncMetum, bool) {
	if len(c.db.syncMeta) == 0 {
		return database.TendermintSyncMetum{}, false
	}
	best := c.db.syncMeta[0]
	for _, m := range c.db.syncMeta[1:] {
		if m.CurrentBlock > best.CurrentBlock ||
			(m.CurrentBlock == best.CurrentBlock && m.LastCommittedHeight > best.LastCommittedHeight) {
			best = m
		}
	}
	return best, true
}

func (c *seedConn) Exec(_ context.Context, sqltext string, args ...interface{}) (pgconn.CommandTag, error) {
	d := c.db
	switch name := queryName(sqltext); name {
	case "TMSetSyncMeta":
		m := database.TendermintSyncMetum{
			CurrentBlock:        args[0].(int64),
			LastCommittedHeight: args[1].(int64),
			SyncTimestamp:       args[2].(time.Time),
		}
		for _, o := range d.syncMeta {
			if o.CurrentBlock == m.CurrentBlock && o.LastCommittedHeight == m.LastCommittedHeight {
				return nil, errors.New("duplicate key value violates unique constraint tendermint_sync_meta_pkey")
			}
		}
		d.syncMeta = append(d.syncMeta, m)
	case "InsertEncryptionKey":
		k := database.TendermintEncryptionKey{
			Address:             args[0].(string),
			EncryptionPublicKey: cp(args[1].([]byte)),
			Height:              args[2].(int64),
		}
		for i, o := range d.encKeys {
			if o.Address == k.Address && o.Height == k.Height {
				d.encKeys[i] = k
				return pgconn.CommandTag("INSERT 0 1"), nil
			}
		}
		d.encKeys = append(d.encKeys, k)
	case "InsertBatchConfig":
		idx := args[0].(int32)
		if _, ok := d.batchConfigs[idx]; ok {
			return nil, errors.New("duplicate key value violates unique constraint tendermint_batch_config_pkey")
		}
		d.batchConfigs[idx] = database.TendermintBatchConfig{
			KeyperConfigIndex:     idx,
			Height:                args[1].(int64),
			Keypers:               append([]string{}, args[2].([]string)...),
			Threshold:             args[3].(int32),
			Started:               args[4].(bool),
			ActivationBlockNumber: args[5].(int64),
		}
	case "DeleteShutterMessageByDesc":
		desc := args[0].(string)
		kept := d.outbox[:0:0]
		for _, m := range d.outbox {
			if m.Description != desc {
				kept = append(kept, m)
			}
		}
		d.outbox = kept
	case "DeleteShutterMessage":
		id := args[0].(int32)
		kept := d.outbox[:0:0]
		for _, m := range d.outbox {
			if m.ID != id {
				kept = append(kept, m)
			}
		}
		d.outbox = kept
	case "InsertEon":
		eon := args[0].(int64)
		if _, ok := d.eons[eon]; ok {
			return nil, errors.New("duplicate key value violates unique constraint eons_pkey")
		}
		d.eons[eon] = database.Eon{
			Eon:                   eon,
			Height:                args[1].(int64),
			ActivationBlockNumber: args[2].(int64),
			KeyperConfigIndex:     args[3].(int64),
		}
	case "InsertPolyEval":
		pe := database.PolyEval{Eon: args[0].(int64), ReceiverAddress: args[1].(string), Eval: cp(args[2].([]byte))}
		for _, o := range d.polyEvals {
			if o.Eon == pe.Eon && o.ReceiverAddress == pe.ReceiverAddress {
				return nil, errors.New("duplicate key value violates unique constraint poly_evals_pkey")
			}
		}
		d.polyEvals = append(d.polyEvals, pe)
	case "DeletePolyEval":
		eon, receiver := args[0].(int64), args[1].(string)
		kept := d.polyEvals[:0:0]
		for _, o := range d.polyEvals {
			if !(o.Eon == eon && o.ReceiverAddress == receiver) {
				kept = append(kept, o)
			}
		}
		d.polyEvals = kept
	case "DeletePolyEvalByEon":
		eon := args[0].(int64)
		kept := d.polyEvals[:0:0]
		for _, o := range d.polyEvals {
			if o.Eon != eon {
				kept = append(kept, o)
			}
		}
		n := len(d.polyEvals) - len(kept)
		d.polyEvals = kept
		return pgconn.CommandTag(fmt.Sprintf("DELETE %d", n)), nil
	case "InsertPureDKG":
		d.pureDKG[args[0].(int64)] = cp(args[1].([]byte))
	case "DeletePureDKG":
		delete(d.pureDKG, args[0].(int64))
	case "InsertEonPublicKey":
		eon := args[1].(int64)
		if _, ok := d.eonPublicKeys[eon]; ok {
			return nil, errors.New("duplicate key value violates unique constraint outgoing_eon_keys_pkey")
		}
		d.eonPublicKeys[eon] = cp(args[0].([]byte))
	case "InsertDKGResult":
		eon := args[0].(int64)
		if _, ok := d.dkgResults[eon]; ok {
			return nil, errors.New("duplicate key value violates unique constraint dkg_result_pkey")
		}
		var pure []byte
		if args[3] != nil && args[3].([]byte) != nil {
			pure = cp(args[3].([]byte))
		}
		d.dkgResults[eon] = database.DkgResult{
			Eon:        eon,
			Success:    args[1].(bool),
			Error:      args[2].(sql.NullString),
			PureResult: pure,
		}
	default:
		return nil, errors.Errorf("seedConn.Exec: statement %q not implemented", name)
	}
	return pgconn.CommandTag("OK 1"), nil
}

func (c *seedConn) QueryRow(_ context.Context, sqltext string, args ...interface{}) pgx.Row {
	d := c.db
	switch name := queryName(sqltext); name {
	case "CountBatchConfigs":
		return &seedRow{vals: []interface{}{int64(len(d.batchConfigs))}}
	case "GetEon":
		e, ok := d.eons[args[0].(int64)]
		if !ok {
			return &seedRow{err: pgx.ErrNoRows}
		}
		return &seedRow{vals: []interface{}{e.Eon, e.Height, e.ActivationBlockNumber, e.KeyperConfigIndex}}
	case "GetBatchConfig":
		b, ok := d.batchConfigs[args[0].(int32)]
		if !ok {
			return &seedRow{err: pgx.ErrNoRows}
		}
		return &seedRow{vals: []interface{}{
			b.KeyperConfigIndex, b.Height, append([]string{}, b.Keypers...), b.Threshold, b.Started, b.ActivationBlockNumber,
		}}
	case "TMGetSyncMeta":
		m, ok := c.latestSyncMeta()
		if !ok {
			return &seedRow{err: pgx.ErrNoRows}
		}
		return &seedRow{vals: []interface{}{m.CurrentBlock, m.LastCommittedHeight, m.SyncTimestamp}}
	case "GetLastCommittedHeight":
		m, ok := c.latestSyncMeta()
		if !ok {
			return &seedRow{err: pgx.ErrNoRows}
		}
		return &seedRow{vals: []interface{}{m.LastCommittedHeight}}
	case "ScheduleSerializedShutterMessage":
		id := d.nextMsgID
		d.nextMsgID++
		d.outbox = append(d.outbox, database.TendermintOutgoingMessage{
			ID: id, Description: args[0].(string), Msg: cp(args[1].([]byte)),
		})
		return &seedRow{vals: []interface{}{id}}
	case "GetNextShutterMessage":
		if len(d.outbox) == 0 {
			return &seedRow{err: pgx.ErrNoRows}
		}
		best := d.outbox[0]
		for _, m := range d.outbox[1:] {
			if m.ID < best.ID {
				best = m
			}
		}
		return &seedRow{vals: []interface{}{best.ID, best.Description, cp(best.Msg)}}
	default:
		return &seedRow{err: errors.Errorf("seedConn.QueryRow: statement %q not implemented", name)}
	}
}

func (c *seedConn) Query(_ context.Context, sqltext string, _ ...interface{}) (pgx.Rows, error) {
	d := c.db
	switch name := queryName(sqltext); name {
	case "SelectPureDKG":
		eons := []int64{}
		for eon := range d.pureDKG {
			eons = append(eons, eon)
		}
		sort.Slice(eons, func(i, j int) bool { return eons[i] < eons[j] })
		rows := [][]interface{}{}
		for _, eon := range eons {
			rows = append(rows, []interface{}{eon, cp(d.pureDKG[eon])})
		}
		return &seedRows{rows: rows}, nil
	case "PolyEvalsWithEncryptionKeys":
		evals := append([]database.PolyEval{}, d.polyEvals...)
		sort.SliceStable(evals, func(i, j int) bool { return evals[i].Eon < evals[j].Eon })
		rows := [][]interface{}{}
		for _, ev := range evals {
			var key *database.TendermintEncryptionKey
			for i := range d.encKeys {
				k := d.encKeys[i]
				if k.Address == ev.ReceiverAddress && (key == nil || k.Height > key.Height) {
					key = &d.encKeys[i]
				}
			}
			eon, ok := d.eons[ev.Eon]
			if key == nil || !ok {
				continue
			}
			rows = append(rows, []interface{}{
				ev.Eon, ev.ReceiverAddress, cp(ev.Eval), cp(key.EncryptionPublicKey), eon.Height,
			})
		}
		return &seedRows{rows: rows}, nil
	default:
		return nil, errors.Errorf("seedConn.Query: statement %q not implemented", name)
	}
}

// ---------------------------------------------------------------------------------------------
// stand-in for the shuttermint chain: turns accepted messages into the events of the next block

type seedChain struct {
	blocks          []*coretypes.ResultBlockResults // blocks[h-1] is the block at height h
	pending         []*abcitypes.ResponseDeliverTx
	commitmentsSeen map[common.Address][][]byte // every PolyCommitment broadcast, per sender
	commitmentOnce  map[common.Address]bool
	polyEvalsSeen   map[[2]common.Address]bool
	accusationsSeen map[common.Address]bool
	apologiesSeen   map[common.Address]bool
	dkgResultVotes  map[common.Address]bool
}

func newSeedChain() *seedChain {
	return &seedChain{
		commitmentsSeen: map[common.Address][][]byte{},
		commitmentOnce:  map[common.Address]bool{},
		polyEvalsSeen:   map[[2]common.Address]bool{},
		accusationsSeen: map[common.Address]bool{},
		apologiesSeen:   map[common.Address]bool{},
		dkgResultVotes:  map[common.Address]bool{},
	}
}

func (c *seedChain) addTx(events ...abcitypes.Event) {
	c.pending = append(c.pending, &abcitypes.ResponseDeliverTx{Code: 0, Events: events})
}

func (c *seedChain) commitBlock() {
	c.blocks = append(c.blocks, &coretypes.ResultBlockResults{
		Height:     int64(len(c.blocks) + 1),
		TxsResults: c.pending,
	})
	c.pending = nil
}

// deliver mirrors ShutterApp.deliverMessage for the DKG messages: parse with the app's parsers,
// answer duplicates with "seen" (no event), otherwise emit the event.
func (c *seedChain) deliver(sender common.Address, msg *shmsg.Message) error {
	switch {
	case msg.GetCheckIn() != nil:
		pk, err := ethcrypto.DecompressPubkey(msg.GetCheckIn().EncryptionPublicKey)
		if err != nil {
			return err
		}
		c.addTx(shutterevents.CheckIn{Sender: sender, EncryptionPublicKey: ecies.ImportECDSAPublic(pk)}.MakeABCIEvent())
	case msg.GetPolyCommitment() != nil:
		m, err := app.ParsePolyCommitmentMsg(msg.GetPolyCommitment(), sender)
		if err != nil {
			return err
		}
		raw := bytes.Join(msg.GetPolyCommitment().Gammas, nil)
		c.commitmentsSeen[sender] = append(c.commitmentsSeen[sender], raw)
		if c.commitmentOnce[sender] {
			return nil
		}
		c.commitmentOnce[sender] = true
		c.addTx(m.MakeABCIEvent())
	case msg.GetPolyEval() != nil:
		m, err := app.ParsePolyEvalMsg(msg.GetPolyEval(), sender)
		if err != nil {
			return err
		}
		for _, r := range m.Receivers {
			if c.polyEvalsSeen[[2]common.Address{sender, r}] {
				return nil
			}
		}
		for _, r := range m.Receivers {
			c.polyEvalsSeen[[2]common.Address{sender, r}] = true
		}
		c.addTx(m.MakeABCIEvent())
	case msg.GetAccusation() != nil:
		m, err := app.ParseAccusationMsg(msg.GetAccusation(), sender)
		if err != nil {
			return err
		}
		if c.accusationsSeen[sender] {
			return nil
		}
		c.accusationsSeen[sender] = true
		c.addTx(m.MakeABCIEvent())
	case msg.GetApology() != nil:
		m, err := app.ParseApologyMsg(msg.GetApology(), sender)
		if err != nil {
			return err
		}
		if c.apologiesSeen[sender] {
			return nil
		}
		c.apologiesSeen[sender] = true
		c.addTx(m.MakeABCIEvent())
	case msg.GetDkgResult() != nil:
		c.dkgResultVotes[sender] = msg.GetDkgResult().Success
	default:
		return errors.Errorf("unexpected message %s", msg.String())
	}
	return nil
}

type seedSender struct {
	chain  *seedChain
	sender common.Address
}

func (s *seedSender) SendMessage(_ context.Context, msg *shmsg.Message) error {
	return s.chain.deliver(s.sender, msg)
}

// ---------------------------------------------------------------------------------------------
// one keyper: persistent database + volatile process state

type seedConfig struct {
	address     common.Address
	phaseLength *dkgphase.PhaseLength
	validator   ed25519.PublicKey
	encryption  *ecies.PrivateKey
}

func (c *seedConfig) GetAddress() common.Address               { return c.address }
func (c *seedConfig) GetDKGPhaseLength() *dkgphase.PhaseLength { return c.phaseLength }
func (c *seedConfig) GetValidatorPublicKey() ed25519.PublicKey { return c.validator }
func (c *seedConfig) GetEncryptionKey() *ecies.PrivateKey      { return c.encryption }

type seedKeyper struct {
	config *seedConfig
	db     *seedDB            // survives a crash
	driver *ShuttermintDriver // lost in a crash, together with its ShuttermintState
}

func newSeedKeyper(t *testing.T, phaseLength int64) *seedKeyper {
	t.Helper()
	key, err := ethcrypto.GenerateKey()
	if err != nil {
		t.Fatal(err)
	}
	encKey, err := ecies.GenerateKey(rand.Reader, ethcrypto.S256(), nil)
	if err != nil {
		t.Fatal(err)
	}
	valKey, _, err := ed25519.GenerateKey(rand.Reader)
	if err != nil {
		t.Fatal(err)
	}
	k := &seedKeyper{
		config: &seedConfig{
			address:     ethcrypto.PubkeyToAddress(key.PublicKey),
			phaseLength: dkgphase.NewConstantPhaseLength(phaseLength),
			validator:   valKey,
			encryption:  encKey,
		},
		db: newSeedDB(),
	}
	// what database.Definition.Init does for this table
	err = database.New(&seedConn{db: k.db}).TMSetSyncMeta(context.Background(), database.TMSetSyncMetaParams{
		CurrentBlock: 0, LastCommittedHeight: 0, SyncTimestamp: time.Now(),
	})
	if err != nil {
		t.Fatal(err)
	}
	k.startProcess()
	return k
}

// startProcess is what a freshly started keyper process has: an empty ShuttermintState.
func (k *seedKeyper) startProcess() {
	k.driver = &ShuttermintDriver{shuttermintState: NewShuttermintState(k.config)}
}

// sync follows ShuttermintDriver.sync/fetchEvents2: one transaction per block, in order.
func (k *seedKeyper) sync(ctx context.Context, chain *seedChain) error {
	meta, err := database.New(&seedConn{db: k.db}).TMGetSyncMeta(ctx)
	if err != nil {
		return err
	}
	lastCommittedHeight := int64(len(chain.blocks)) + 1
	for h := meta.CurrentBlock + 1; h < lastCommittedHeight; h++ {
		work := k.db.clone()
		err = k.driver.handleBlock(ctx, database.New(&seedConn{db: work}), chain.blocks[h-1], lastCommittedHeight)
		if err != nil {
			k.driver.shuttermintState.Invalidate()
			return err
		}
		k.db = work
	}
	return nil
}

func (k *seedKeyper) send(ctx context.Context, chain *seedChain) error {
	return fx.SendShutterMessages(
		ctx, database.New(&seedConn{db: k.db}), &seedSender{chain: chain, sender: k.config.address},
	)
}

// ---------------------------------------------------------------------------------------------

const (
	seedPhaseLength = 5
	seedEon         = 1
	seedNumBlocks   = 3*seedPhaseLength + 4
)

// runSeedDKG runs one DKG with three keypers; keyper 0 crashes after it has committed the
// transaction of block crashAfterBlock (0: never) and is restarted at once.
func runSeedDKG(t *testing.T, crashAfterBlock int64) {
	t.Helper()
	ctx := context.Background()
	keypers := []*seedKeyper{}
	addresses := []common.Address{}
	for i := 0; i < 3; i++ {
		k := newSeedKeyper(t, seedPhaseLength)
		keypers = append(keypers, k)
		addresses = append(addresses, k.config.address)
	}

	chain := newSeedChain()
	chain.addTx(
		shutterevents.BatchConfig{
			Keypers: addresses, ActivationBlockNumber: 100, Threshold: 2, KeyperConfigIndex: 1,
		}.MakeABCIEvent(),
		shutterevents.EonStarted{
			Eon: seedEon, ActivationBlockNumber: 100, KeyperConfigIndex: 1,
		}.MakeABCIEvent(),
	)
	chain.commitBlock()

	for len(chain.blocks) < seedNumBlocks {
		height := int64(len(chain.blocks))
		for i, k := range keypers {
			if err := k.sync(ctx, chain); err != nil {
				t.Fatalf("keyper %d: handling block %d failed: %v", i, height, err)
			}
			if i == 0 && height == crashAfterBlock {
				// the process dies after the block transaction is committed and before any of
				// the queued messages is sent; a new process starts on the same database
				k.startProcess()
			}
			if err := k.send(ctx, chain); err != nil {
				t.Fatalf("keyper %d: sending messages after block %d failed: %v", i, height, err)
			}
		}
		chain.commitBlock()
	}

	var publicKey []byte
	for i, k := range keypers {
		res, ok := k.db.dkgResults[seedEon]
		if !ok {
			t.Fatalf("keyper %d has no DKG result for eon %d", i, seedEon)
		}
		if !res.Success {
			t.Fatalf("keyper %d: DKG failed: %s", i, res.Error.String)
		}
		pure, err := shdb.DecodePureDKGResult(res.PureResult)
		if err != nil {
			t.Fatal(err)
		}
		pk, err := pure.PublicKey.GobEncode()
		if err != nil {
			t.Fatal(err)
		}
		if i == 0 {
			publicKey = pk
		} else if !bytes.Equal(publicKey, pk) {
			t.Fatalf("keyper %d computed a different eon public key than keyper 0", i)
		}
		if len(k.db.outbox) != 0 {
			t.Fatalf("keyper %d: %d messages still queued", i, len(k.db.outbox))
		}
		if len(k.db.pureDKG) != 0 {
			t.Fatalf("keyper %d: puredkg row left behind", i)
		}
		if success, ok := chain.dkgResultVotes[k.config.address]; !ok || !success {
			t.Fatalf("keyper %d did not report a successful DKG to the chain", i)
		}
		distinct := map[string]bool{}
		for _, c := range chain.commitmentsSeen[k.config.address] {
			distinct[string(c)] = true
		}
		if len(distinct) != 1 {
			t.Fatalf("keyper %d published %d different polynomial commitments", i, len(distinct))
		}
	}
	if len(chain.accusationsSeen) != 0 {
		t.Fatalf("unexpected accusations in an honest run: %d", len(chain.accusationsSeen))
	}
}

func TestSeedCrashAfterBlockTransaction(t *testing.T) {
	zerolog.SetGlobalLevel(zerolog.ErrorLevel)
	t.Run("no crash", func(t *testing.T) {
		runSeedDKG(t, 0)
	})
	for crashAfter := int64(1); crashAfter < seedNumBlocks; crashAfter++ {
		crashAfter := crashAfter
		t.Run(fmt.Sprintf("crash after block %d", crashAfter), func(t *testing.T) {
			runSeedDKG(t, crashAfter)
		})
	}
}
