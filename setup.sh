#!/bin/sh
# Builds the framework from files on disk only (offline): the whole Coq development and all drivers.
set -e
cd "$(dirname "$0")"
export GOFLAGS=-mod=mod GOPROXY=off
unset GOTOOLCHAIN GOSUMDB || true
mkdir -p build/bin evidence replays
cp /repo/rolling-shutter/go.sum harness/go.sum
python3 - <<'PY'
import importlib.machinery, importlib.util, os
l = importlib.machinery.SourceFileLoader("check", os.path.join(os.getcwd(), "check"))
spec = importlib.util.spec_from_loader("check", l); m = importlib.util.module_from_spec(spec); l.exec_module(m)
m.ensure_coq_makefile()
PY
(cd coq && timeout 3000 make -j16 >/dev/null 2>../build/coq_setup.log || { tail -30 ../build/coq_setup.log; echo "coq build failed (checks will report it)"; })
for d in harness/cmd/*/; do
  n=$(basename "$d")
  (cd harness && go build -tags verif -o ../build/bin/"$n" ./cmd/"$n") || echo "driver $n failed to build (its check will report it)"
done
echo setup done
