(* Correspondence for C13: the implementation is stopped after [before], restarted from the
   state file written at that commit, and replays [after]; the model does snapshot/load at the
   same point. *)
From Coq Require Import List NArith ZArith Bool.
From Verif Require Import Lib.Bytes Lib.Assoc Model.Powermap Model.App Model.AppPersist Corr.App.
Import ListNotations.

Inductive case :=
| CRestart (id : N) (g : genesis) (before after : list call)
           (info : Z)                      (* Info().LastBlockHeight of the restarted node *)
           (resps_after : list response)   (* of the restarted node *)
           (final : proj).                 (* of the restarted node *)

Definition check_case (c : case) : list N :=
  match c with
  | CRestart id g before after info resps final =>
      match init_chain g with
      | None => [id]
      | Some s0 =>
          let s1 := fst (run enum_id s0 before) in
          let sr := load (snapshot s1) in
          let '(s2, rs) := run enum_id sr after in
          if Z.eqb (info_height sr) info && list_eqb response_eqb rs resps && proj_eqb (project s2) final
          then [] else [id]
      end
  end.

Definition mismatches (cs : list case) : list N := flat_map check_case cs.
