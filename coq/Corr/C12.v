(* Correspondence stream for C12: the implementation's observations, replayed on the model. *)
From Coq Require Import List NArith ZArith Bool.
From Verif Require Import Lib.Bytes Lib.Assoc Lib.Sorting Model.Powermap Model.App Corr.App.
Import ListNotations.

Fixpoint kvlist_eqb (a b : list (bytes * Z)) : bool :=
  match a, b with
  | [], [] => true
  | (k, v) :: a', (k', v') :: b' => bytes_eqb k k' && Z.eqb v v' && kvlist_eqb a' b'
  | _, _ => false
  end.

Inductive case :=
  (* DiffPowermaps(old,new).ValidatorUpdates() observed as [obs] *)
| CDiff (id : N) (oldpm newpm : list (bytes * Z)) (obs : list (bytes * Z))
  (* an ABCI history on the real application (responses incl. validator updates, final state) *)
| CHist (a : app_case).

Definition check_case (c : case) : list N :=
  match c with
  | CDiff id o n obs =>
      if kvlist_eqb (validator_updates (diff_powermaps o n)) obs then [] else [id]
  | CHist a => check_app_case a
  end.

Definition mismatches (cs : list case) : list N := flat_map check_case cs.
