(* Correspondence stream for C02: histories of operations run against the real shutterservice
   keyper (pgfake database), with what the implementation did after every operation, replayed
   on Model.ServiceTrigger. *)
From Coq Require Import List NArith ZArith Bool.
From Verif Require Import Lib.Bytes Lib.Assoc Lib.Sorting Model.ServiceTrigger.
Import ListNotations.
Open Scope Z_scope.

(* The model is evaluated with the maps enumerated in first-insertion order; the trigger lists
   are compared as multisets (Proofs.ServiceTrigger.new_block_enum_perm: any other enumeration
   yields a permutation). *)
Definition canon : list Z -> list Z := fun ks => ks.

Fixpoint remove_first {A : Type} (eqb : A -> A -> bool) (x : A) (l : list A) : option (list A) :=
  match l with
  | [] => None
  | y :: r => if eqb x y then Some r
              else match remove_first eqb x r with Some r' => Some (y :: r') | None => None end
  end.

Fixpoint mset_eqb {A : Type} (eqb : A -> A -> bool) (a b : list A) : bool :=
  match a with
  | [] => match b with [] => true | _ => false end
  | x :: a' => match remove_first eqb x b with
               | Some b' => mset_eqb eqb a' b'
               | None => false
               end
  end.

Fixpoint list_eqb {A : Type} (eqb : A -> A -> bool) (a b : list A) : bool :=
  match a, b with
  | [], [] => true
  | x :: a', y :: b' => eqb x y && list_eqb eqb a' b'
  | _, _ => false
  end.

Definition opt_z_eqb (a b : option Z) : bool :=
  match a, b with
  | None, None => true
  | Some x, Some y => x =? y
  | _, _ => false
  end.

Definition ir_eqb (a b : ir_row) : bool :=
  bytes_eqb (ir_key a) (ir_key b) && (ir_eon a =? ir_eon b) && bytes_eqb (ir_identity a) (ir_identity b)
  && (ir_timestamp a =? ir_timestamp b) && Bool.eqb (ir_decrypted a) (ir_decrypted b) && (ir_block a =? ir_block b).
Definition et_eqb (a b : et_row) : bool :=
  (et_eon a =? et_eon b) && bytes_eqb (et_identity a) (et_identity b) && (et_expiration a =? et_expiration b)
  && Bool.eqb (et_decrypted a) (et_decrypted b) && (et_block a =? et_block b).
Definition ft_eqb (a b : ft_row) : bool :=
  (ft_eon a =? ft_eon b) && bytes_eqb (ft_identity a) (ft_identity b) && (ft_block a =? ft_block b).
Definition sk_eqb (a b : share_key) : bool :=
  let '(e, i, k) := a in let '(e', i', k') := b in (e =? e') && bytes_eqb i i' && (k =? k').

Definition trig_eqb (a b : Z * list bytes) : bool :=
  (fst a =? fst b) && list_eqb bytes_eqb (snd a) (snd b).

Definition share_error_eqb (a b : share_error) : bool :=
  match a, b with
  | EBlockRange, EBlockRange | ENoEon, ENoEon | EEmpty, EEmpty | ETooMany, ETooMany
  | ENoConfig, ENoConfig | ENotKeyper, ENotKeyper | ENegativeIndex, ENegativeIndex
  | ESharesExist, ESharesExist | ENoDkgResult, ENoDkgResult | EDkgFailed, EDkgFailed
  | EDecode, EDecode => true
  | _, _ => false
  end.

Definition share_result_eqb (a b : share_result) : bool :=
  match a, b with
  | ShErr x, ShErr y => share_error_eqb x y
  | ShOk m, ShOk m' => (sm_eon m =? sm_eon m') && (sm_keyper_index m =? sm_keyper_index m')
                       && list_eqb bytes_eqb (sm_ids m) (sm_ids m')
  | _, _ => false
  end.

(* What the driver saw an operation do. *)
Inductive out_obs :=
| ObNone
| ObDb (accepted : bool)
| ObTriggers (l : list (Z * list bytes))    (* (BlockNumber, IdentityPreimages) in channel order *)
| ObShares (r : share_result).

(* ... and the projection of the state after it. *)
Record obs := mkObs {
  ob_out : out_obs;
  ob_latest : option Z;             (* Keyper.latestTriggeredTime *)
  ob_irs : list ir_row;             (* identity_registered_event *)
  ob_ets : list et_row;             (* event_trigger_registered_event *)
  ob_fts : list ft_row;             (* fired_triggers *)
  ob_shares : list share_key }.     (* decryption_key_share (key columns) *)

Definition out_agrees (m : out) (o : out_obs) : bool :=
  match m, o with
  | OutNone, ObNone => true
  | OutDb a, ObDb b => Bool.eqb a b
  | OutTriggers ts, ObTriggers l => mset_eqb trig_eqb (map (fun t => (tg_block t, tg_ids t)) ts) l
  | OutShares r, ObShares r' => share_result_eqb r r'
  | _, _ => false
  end.

Definition state_agrees (s : state) (o : obs) : bool :=
  opt_z_eqb (st_latest s) (ob_latest o)
  && mset_eqb ir_eqb (irs (st_db s)) (ob_irs o)
  && mset_eqb et_eqb (ets (st_db s)) (ob_ets o)
  && mset_eqb ft_eqb (fts (st_db s)) (ob_fts o)
  && mset_eqb sk_eqb (shares (st_db s)) (ob_shares o).

Fixpoint replay (c : config) (s : state) (steps : list (op * obs)) : bool :=
  match steps with
  | [] => true
  | (o, ob) :: rest =>
      let '(s', out) := step c s o in
      out_agrees out (ob_out ob) && state_agrees s' ob && replay c s' rest
  end.

Inductive case :=
  (* a history from the empty database and a freshly started keyper *)
| CHist (id : N) (c : config) (steps : list (op * obs)).

Definition check_case (c : case) : list N :=
  match c with
  | CHist id cf steps => if replay cf init steps then [] else [id]
  end.

Definition mismatches (cs : list case) : list N := flat_map check_case cs.
