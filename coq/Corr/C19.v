(* Correspondence stream for C19: histories of operations executed on the real Gnosis keyper
   code (against pgfake), with the observation after every operation, replayed on the model. *)
From Coq Require Import List NArith ZArith Bool Uint63.
From Verif Require Import Lib.Bytes Model.GnosisSlot.
Import ListNotations.
Open Scope Z_scope.

(* Byte strings in the case files are written as chunks of up to seven bytes, each chunk one
   primitive integer literal (big endian), with the total length [n]: such literals are read
   about twenty times faster than string or Z literals. Primitive integers are used for this
   decoding only; no theorem depends on them. *)
Fixpoint chunk_bytes (k : nat) (c : int) : bytes :=
  match k with
  | O => []
  | S k' => Z.to_N (Uint63.to_Z (Uint63.land (Uint63.lsr c (Uint63.mul 8 (Uint63.of_Z (Z.of_nat k')))) 255))
            :: chunk_bytes k' c
  end.

Fixpoint unpack (n : Z) (l : list int) : bytes :=
  match l with
  | [] => []
  | c :: t => chunk_bytes (Z.to_nat (Z.min n 7)) c ++ unpack (n - 7) t
  end.
Arguments unpack n%Z l%uint63.

Fixpoint blist_eqb (a b : list bytes) : bool :=
  match a, b with
  | [], [] => true
  | x :: a', y :: b' => bytes_eqb x y && blist_eqb a' b'
  | _, _ => false
  end.

Fixpoint zlist_eqb (a b : list Z) : bool :=
  match a, b with
  | [], [] => true
  | x :: a', y :: b' => (x =? y) && zlist_eqb a' b'
  | _, _ => false
  end.

Definition optz_eqb (a b : option Z) : bool :=
  match a, b with
  | None, None => true
  | Some x, Some y => x =? y
  | _, _ => false
  end.

Definition err_code (c : errclass) : Z :=
  match c with
  | EAlreadyProcessed => 1 | EProposer => 2 | EIncrementAge => 3 | ENoEon => 4 | EPointer => 5
  | EGasLimitTooBig => 6 | ESelect => 7 | ESender => 8 | ESetTrigger => 9 | EInsertSignature => 10
  | EKeyperSet => 11 | ESignatures => 12
  end.

Definition out_eqb (a b : out) : bool :=
  match a, b with
  | OTrig b1 i1, OTrig b2 i2 => (b1 =? b2) && blist_eqb i1 i2
  | ONil, ONil => true
  | OErr c1, OErr c2 => err_code c1 =? err_code c2
  | OPanic, OPanic => true
  | OPtr v1, OPtr v2 => v1 =? v2
  | OHandled, OHandled => true
  | OSent s1 p1 g1, OSent s2 p2 g2 => (s1 =? s2) && (p1 =? p2) && zlist_eqb g1 g2
  | ODropped, ODropped => true
  | ODone, ODone => true
  | _, _ => false
  end.

Definition prow_eqb (a b : prow) : bool :=
  (p_eon a =? p_eon b) && (p_value a =? p_value b) && optz_eqb (p_age a) (p_age b).
Definition trow_eqb (a b : trow) : bool :=
  (t_eon a =? t_eon b) && (t_slot a =? t_slot b) && (t_ptr a =? t_ptr b) && bytes_eqb (t_ids a) (t_ids b).
Definition srow_eqb (a b : srow) : bool :=
  (s_eon a =? s_eon b) && (s_slot a =? s_slot b) && (s_kidx a =? s_kidx b) && (s_ptr a =? s_ptr b)
  && bytes_eqb (s_ids a) (s_ids b).

(* the tables are compared as sets of rows: the observed rows come from tables with a primary
   key (no duplicates), so equal length plus inclusion is equality *)
Definition same_rows {A : Type} (eqb : A -> A -> bool) (obs model : list A) : bool :=
  (Nat.eqb (length obs) (length model)) && forallb (fun o => existsb (eqb o) model) obs.

(* what the driver observes after an operation: its result, the tx_pointer,
   current_decryption_trigger and slot_decryption_signatures tables (identities_hash replaced
   by the preimage the driver knows for it), and latestTriggeredSlot. A table that is the same
   as in the previous observation of the history is written None (the first observation of a
   history always carries all tables). *)
Record obs := mkObs {
  ob_out : out;
  ob_ptrs : option (list prow);
  ob_trigs : option (list trow);
  ob_sigs : option (list srow);
  ob_latest : option Z
}.

Record tables := mkTables { tb_ptrs : list prow; tb_trigs : list trow; tb_sigs : list srow }.

Definition observed_tables (last : tables) (o : obs) : tables :=
  mkTables (match ob_ptrs o with Some x => x | None => tb_ptrs last end)
           (match ob_trigs o with Some x => x | None => tb_trigs last end)
           (match ob_sigs o with Some x => x | None => tb_sigs last end).

Definition obs_ok (st : state) (x : out) (o : obs) (tb : tables) : bool :=
  out_eqb x (ob_out o)
  && same_rows prow_eqb (tb_ptrs tb) (st_ptrs st)
  && same_rows trow_eqb (tb_trigs tb) (st_trigs st)
  && same_rows srow_eqb (tb_sigs tb) (st_sigs st)
  && optz_eqb (ob_latest o) (st_latest st).

Fixpoint replay (cfg : config) (st : state) (last : tables) (steps : list (op * obs)) : bool :=
  match steps with
  | [] => true
  | (o, ob) :: t =>
      let '(st1, x) := step cfg st o in
      let tb := observed_tables last ob in
      obs_ok st1 x ob tb && replay cfg st1 tb t
  end.

Inductive case :=
  (* a history from the initial database [st0] under configuration [cfg] *)
| CHist (id : N) (cfg : config) (st0 : state) (steps : list (op * obs)).

Definition check_case (c : case) : list N :=
  match c with
  | CHist id cfg st0 steps => if replay cfg st0 (mkTables [] [] []) steps then [] else [id]
  end.

Definition mismatches (cs : list case) : list N := flat_map check_case cs.
