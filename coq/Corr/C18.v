(* Correspondence stream for C18: what the real HTTP stack did with a request, replayed on the
   model (Model/HttpGuard.v instantiated with the regenerated Generated/OapiTable.v). *)
From Coq Require Import List NArith Bool.
From Verif Require Import Lib.Bytes Model.HttpGuard Generated.OapiTable.
Import ListNotations.

(* Observable classes of one served request (harness/cmd/c18 classifies by the chi route
   patterns that were matched, the status and the fixed bodies of the guard / of net/http). *)
Inductive obs :=
| OBadURI                              (* http.ReadRequest refused the request target *)
| OOuter405                            (* root router: method unknown to chi *)
| OOutside                             (* not below the API mount *)
| OValidator                           (* answered by OapiRequestValidator *)
| OGuard404 | OGuard403                (* answered by the guard *)
| OPlain404                            (* "404 page not found" below the mount *)
| OInner405                            (* api router: method not allowed *)
| ODispatch (method pattern : bytes)   (* a generated wrapper ran: chi RouteMethod / RoutePattern *).

Definition obs_eqb (a b : obs) : bool :=
  match a, b with
  | OBadURI, OBadURI | OOuter405, OOuter405 | OOutside, OOutside | OValidator, OValidator
  | OGuard404, OGuard404 | OGuard403, OGuard403 | OPlain404, OPlain404 | OInner405, OInner405 => true
  | ODispatch m p, ODispatch m' p' => bytes_eqb m m' && bytes_eqb p p'
  | _, _ => false
  end.

Definition obs_of_verdict (v : verdict) : obs :=
  match v with
  | VBadRequestURI => OBadURI
  | VOuterMethodNotAllowed => OOuter405
  | VOutside => OOutside
  | VStripNotFound => OPlain404
  | VValidatorReject => OValidator
  | VGuardNotFound => OGuard404
  | VGuardForbidden => OGuard403
  | VInnerNotFound => OPlain404
  | VInnerMethodNotAllowed => OInner405
  | VDispatch r => ODispatch (r_method r) (r_pattern r)
  end.

(* the enumeration orders of Go's map iteration are not observable; C18_deterministic shows
   they do not matter, the replay uses the table's order *)
Definition enum_of (tbl : HttpGuard.table) : list bytes := templates_of (t_embedded_ops tbl).

(* [with_validator]: the full stack of setupRouter; otherwise the same stack without
   OapiRequestValidator. The validator is not modelled: when the implementation's answer came
   from it, the model must agree that the request got as far as the validator, otherwise the
   model is run with a validator that accepts. *)
Definition predict_on (tbl : HttpGuard.table) (with_validator enable_write : bool) (m raw : bytes) (o : obs) : obs :=
  let accepts := negb (with_validator && obs_eqb o OValidator) in
  obs_of_verdict (serve tbl (fun _ _ _ => accepts) enable_write (enum_of tbl) (enum_of tbl) m raw).

Definition predict := predict_on table.

(* Spec variants (harness/cmd/c18/variants.go): the real document plus added operations, each
   served by an added route; the guard is given the extended spec through
   ConfigMiddlewareWithSpec. They exist to exercise the guard's lookup order (exact path
   before templates) on specs in which a concrete path is matched by a template too. *)
Definition variant_table (added : list spec_op) : HttpGuard.table := {|
  t_mount := t_mount table;
  t_yaml_ops := t_yaml_ops table ++ added;
  t_embedded_ops := t_embedded_ops table ++ added;
  t_routes := t_routes table ++ map (fun o => mk_route (op_method o) (op_template o) (ucfirst (op_id o))) added;
  t_guard_switch := t_guard_switch table;
  t_should_enable := t_should_enable table;
  t_senders := t_senders table
|}.

Definition parse_eqb (a b : option (bytes * bytes)) : bool :=
  match a, b with
  | None, None => true
  | Some (p, r), Some (p', r') => bytes_eqb p p' && bytes_eqb r r'
  | _, _ => false
  end.

Inductive case :=
  (* request (method, path part of the request target); URL.Path / URL.RawPath as net/http
     parsed them (None: refused); observations on: full stack write-disabled, full stack
     write-enabled, validator-less stack write-disabled, validator-less write-enabled *)
| CReq (id : N) (method raw : bytes) (parsed : option (bytes * bytes)) (full_off full_on nv_off nv_on : obs)
  (* the same on a spec variant *)
| CVar (id : N) (added : list spec_op) (method raw : bytes) (parsed : option (bytes * bytes))
       (full_off full_on nv_off nv_on : obs).

Definition check_case (c : case) : list N :=
  match c with
  | CReq id m raw parsed fo fn no nn =>
      if parse_eqb (parse_path raw) parsed
         && obs_eqb (predict true false m raw fo) fo
         && obs_eqb (predict true true m raw fn) fn
         && obs_eqb (predict false false m raw no) no
         && obs_eqb (predict false true m raw nn) nn
      then [] else [id]
  | CVar id added m raw parsed fo fn no nn =>
      let tbl := variant_table added in
      if parse_eqb (parse_path raw) parsed
         && obs_eqb (predict_on tbl true false m raw fo) fo
         && obs_eqb (predict_on tbl true true m raw fn) fn
         && obs_eqb (predict_on tbl false false m raw no) no
         && obs_eqb (predict_on tbl false true m raw nn) nn
      then [] else [id]
  end.

Definition mismatches (cs : list case) : list N := flat_map check_case cs.
