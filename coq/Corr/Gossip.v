(* Correspondence cases shared by C04 and C05 (and the handler stream of C01): what the real
   validators, the real combined topic validator and the real P2PMessaging.Handle did, replayed
   on Model/Gossip.v and Model/GossipMisc.v. *)
From Coq Require Import List NArith ZArith Bool.
From Verif Require Import Lib.Bytes Model.EpochKG Model.EpochKGLabels Model.EpochKGHandler.
From Verif Require Export Model.GossipMisc.
Import ListNotations.

(* Which variant of the model the tree under test implements: the repaired functions (after
   /repo commits "fix: key shares validation rejects a keyper index outside the DKG result" and
   "fix: getBidderNodeAddress refuses a signature that is not 65 bytes long"). *)
Definition impl_v_core_shares : validator := v_core_shares.
Definition impl_h_commit : handler := h_commit.

(* one handler object's ValidateMessage *)
Inductive vsel :=
| VsCoreShares | VsCoreKeys | VsCoreEonPK | VsGnosisShares | VsGnosisKeys
| VsServiceShares | VsServiceKeys | VsTrigger | VsCommit | VsAccessKeys.

Definition direct (v : vsel) : gstate -> gmsg -> gverdict :=
  match v with
  | VsCoreShares => snd impl_v_core_shares
  | VsCoreKeys => snd v_core_keys
  | VsCoreEonPK => snd v_core_eonpk
  | VsGnosisShares => snd v_gnosis_shares
  | VsGnosisKeys => snd v_gnosis_keys
  | VsServiceShares => snd v_service_shares
  | VsServiceKeys => snd v_service_keys
  | VsTrigger => snd v_trigger
  | VsCommit => snd v_commit
  | VsAccessKeys => snd v_access_keys
  end.

(* the number of SQL statements the validator executed (observed for the core validators) *)
Definition direct_stmts (v : vsel) (st : gstate) (m : gmsg) : option nat :=
  match v, m with
  | VsCoreShares, MShares s => Some (db_stmts (cost_validate_shares (g_core st) s))
  | VsCoreKeys, MKeys k => Some (db_stmts (cost_validate_keys (g_core st) k))
  | _, _ => None
  end.

(* a row order oracle from the permutations the fake database applied, one per SELECT of the
   share table, in call order *)
Definition apply_perm {A} (p : list nat) (rows : list A) : list A :=
  if (length p =? length rows)%nat
  then flat_map (fun j => match nth_error rows j with Some r => [r] | None => [] end) p
  else rows.

Definition oracle_of (perms : list (list nat)) : oracle kv :=
  fun i rows => match nth_error perms i with Some p => apply_perm p rows | None => rows end.

(* ---- the handler history stream (C01 (b)) ---- *)

Definition herr_code (e : herr) : N :=
  match e with EEonOverflow => 1 | ENoDkgResult => 2 | EDkgDecode => 3 | EEnoughSharesNoKey => 4 end%N.

Definition lbl_eqb (a b : lbl) : bool :=
  match a, b with
  | LShare e i x, LShare e' i' x' => (e =? e')%N && (i =? i')%N && bytes_eqb x x'
  | LKey e x, LKey e' x' => (e =? e')%N && bytes_eqb x x'
  | LOther, LOther => true
  | _, _ => false
  end.

Fixpoint keylist_eqb (a b : list (bytes * lbl)) : bool :=
  match a, b with
  | [], [] => true
  | (x, k) :: a', (x', k') :: b' => bytes_eqb x x' && lbl_eqb k k' && keylist_eqb a' b'
  | _, _ => false
  end.

Definition hout_eqb (a b : hout lbl) : bool :=
  match a, b with
  | HNone, HNone => true
  | HKeys k, HKeys k' => keylist_eqb k k'
  | HErr e, HErr e' => (herr_code e =? herr_code e')%N
  | HPanic, HPanic => true
  | _, _ => false
  end.

(* observed rows: decryption_key_share (eon, epoch_id, keyper_index, bytes) and decryption_key
   (eon, epoch_id, label of the stored bytes), both in insertion order *)
Definition obs_share := (Z * bytes * Z * bytes)%type.
Definition obs_key := (Z * bytes * lbl)%type.

Fixpoint shares_eqb (a : list (share_row kv)) (b : list obs_share) : bool :=
  match a, b with
  | [], [] => true
  | r :: a', (e, x, k, v) :: b' =>
      (r_eon r =? e)%Z && bytes_eqb (r_ident r) x && (r_kidx r =? k)%Z
      && bytes_eqb (kv_bytes (r_share r)) v && shares_eqb a' b'
  | _, _ => false
  end.

Fixpoint keyrows_eqb (a : list (key_row lbl)) (b : list obs_key) : bool :=
  match a, b with
  | [], [] => true
  | r :: a', (e, x, k) :: b' =>
      (EpochKGHandler.k_eon r =? e)%Z && bytes_eqb (k_ident r) x && lbl_eqb (k_key r) k && keyrows_eqb a' b'
  | _, _ => false
  end.

Record hstep := mkHStep {
  hs_msg : shares_msg;
  hs_perms : list (list nat);
  hs_out : hout lbl;
  hs_shares : list obs_share;
  hs_keys : list obs_key
}.

(* the state of the history: the static tables of [st] plus the two tables the handler writes *)
Fixpoint replay_hist (st : cstate) (shares : list (share_row kv)) (keys : list (key_row lbl))
         (steps : list hstep) : bool :=
  match steps with
  | [] => true
  | s :: rest =>
      let m := hs_msg s in
      let eon := i64_of_u64 (s_eon m) in
      let d := mkDb shares keys (hdkg_rows st eon) in
      let '(d', out) := handle_message lbl kv (verify_share (hkeyset st eon)) combine_l kv_lbl
                                       (oracle_of (hs_perms s)) d (hmsg m) in
      hout_eqb out (hs_out s) && shares_eqb (share_tbl d') (hs_shares s)
      && keyrows_eqb (key_tbl d') (hs_keys s) && replay_hist st (share_tbl d') (key_tbl d') rest
  end.

Definition key_rows_of (l : list obs_key) : list (key_row lbl) :=
  map (fun r => match r with (e, x, k) => mkKeyRow e x k end) l.

Inductive case :=
  (* ValidateMessage of one handler object on an in-memory message *)
| CDirect (id : N) (v : vsel) (st : gstate) (m : gmsg) (obs : gverdict) (stmts : nat)
  (* the combined validator of topic [tp] on node [nd], for a pubsub message whose topic field
     is [msg_tp] and whose data decode to [w] *)
| CCombined (id : N) (nd : node) (st : gstate) (tp msg_tp : topic) (w : wire) (obs : vres)
  (* P2PMessaging.Handle on node [nd] *)
| CHandle (id : N) (nd : node) (st : gstate) (perms : list (list nat)) (m : gmsg) (obs : hres)
  (* a history of DecryptionKeyShareHandler.HandleMessage calls on the core tables of [st];
     [keys0]: the decryption_key table at the start, with labels *)
| CHist (id : N) (st : cstate) (keys0 : list obs_key) (steps : list hstep).

Definition check_case (c : case) : list N :=
  match c with
  | CDirect id v st m obs stmts =>
      if gverdict_eqb (direct v st m) obs
         && match direct_stmts v st m with Some n => (n =? stmts)%nat | None => true end
      then [] else [id]
  | CCombined id nd st tp msg_tp w obs =>
      if vres_eqb (combined_of (validators_of (registered_with impl_v_core_shares nd) tp) st msg_tp w) obs
      then [] else [id]
  | CHandle id nd st perms m obs =>
      if hres_eqb (run_handlers (handlers_with impl_h_commit nd) (oracle_of perms) st m) obs
      then [] else [id]
  | CHist id st keys0 steps =>
      if replay_hist st (c_shares st) (key_rows_of keys0) steps then [] else [id]
  end.

Definition mismatches (cs : list case) : list N := flat_map check_case cs.
