(* Correspondence stream for C20: what the real keyper database statements and the real
   eonPubKeyHandler.queryAndHandleNewEonPubKeys (through the verif hook, against pgfake) did on a
   history, replayed on the model.  Observed per operation: the outcome (insert accepted or
   refused; for a tick every call handed to the recording Messaging / the recording callback,
   in order, with all fields and the mechanism's answer, and the class of the returned error)
   and the outgoing_eon_keys table afterwards, in insertion order.
   A second stream (KSync) starts at the key generation: n real keyper stacks run complete DKGs
   over the real shuttermint app (dkgrig / tmfake), each Sync of the real observer is replayed
   on the producer model (Model.EonPK.sync_blocks), the handler ticks run on the same database.
   In that stream eon keys (96-byte group elements) are abbreviated to the first 8 bytes of their
   SHA-256 on both sides (the model only compares keys); the oracle compares the full bytes. *)
From Coq Require Import List NArith ZArith Bool.
From Verif Require Import Lib.Bytes Model.EonPK.
Import ListNotations.
Open Scope Z_scope.

Fixpoint list_eqb {A} (eqb : A -> A -> bool) (a b : list A) : bool :=
  match a, b with
  | [], [] => true
  | x :: a', y :: b' => eqb x y && list_eqb eqb a' b'
  | _, _ => false
  end.

Definition out_row_eqb (a b : out_row) : bool :=
  bytes_eqb (or_key a) (or_key b) && (or_eon a =? or_eon b).

Definition pubkey_eqb (a b : pubkey) : bool :=
  bytes_eqb (pk_key a) (pk_key b) && (pk_act a =? pk_act b) && (pk_kci a =? pk_kci b)
  && (pk_eon a =? pk_eon b).

Definition call_eqb (a b : call) : bool :=
  match a, b with
  | CBroadcast i p, CBroadcast j q => (i =? j) && pubkey_eqb p q
  | CCallback p, CCallback q => pubkey_eqb p q
  | _, _ => false
  end.

Definition callres_eqb (a b : call * bool) : bool :=
  call_eqb (fst a) (fst b) && Bool.eqb (snd a) (snd b).

Definition err_eqb (a b : err) : bool :=
  match a, b with
  | ENone, ENone | ENotMember, ENotMember | ECast, ECast
  | EBroadcast, EBroadcast | ECallback, ECallback => true
  | _, _ => false
  end.

Definition outcome_eqb (a b : outcome) : bool :=
  match a, b with
  | OIns x, OIns y => Bool.eqb x y
  | OTick cs e, OTick cs' e' => list_eqb callres_eqb cs cs' && err_eqb e e'
  | OQueryFailed, OQueryFailed => true
  | _, _ => false
  end.

(* the row order oracle given to pgfake: the deleted rows are delivered as row[p0], row[p1], ...
   where row[] is the table in insertion order *)
Definition apply_perm (p : list nat) (rows : list out_row) : list out_row :=
  flat_map (fun i => match nth_error rows i with Some r => [r] | None => [] end) p.

(* operations as the driver performed them *)
Inductive cop :=
| KCfg (kci : Z) (keypers : list bytes)
| KEon (e act kci : Z)
| KGen (key : bytes) (e : Z)
| KTick (perm : list nat) (answers : list bool)
| KTickFails
  (* producer stream: one Sync of the real shuttermint observer.  Inputs: the keyper sets and
     eons announced by the BatchConfig / EonStarted events of the synced blocks (read from the
     chain), the key generations that finished (the new dkg_result rows, in insertion order; the
     key is the public key of the stored result).  Observed besides the outgoing table: the eons
     and tendermint_batch_config tables afterwards. *)
| KSync (new_cfgs : list cfg_row) (new_eons : list eon_row) (rs : list dkg_outcome)
        (obs_eons : list eon_row) (obs_cfgs : list cfg_row).

Definition op_of (d : db) (c : cop) : op :=
  match c with
  | KCfg kci ks => OpCfg kci ks
  | KEon e act kci => OpEon e act kci
  | KGen key e => OpGen key e
  | KTick p answers => OpTick (apply_perm p (outgoing d)) answers
  | KTickFails => OpTickFails
  | KSync _ _ _ _ _ => OpTickFails   (* not used: KSync is replayed by sync_blocks *)
  end.

Definition eon_row_eqb (a b : eon_row) : bool :=
  (er_eon a =? er_eon b) && (er_act a =? er_act b) && (er_kci a =? er_kci b).
Definition cfg_row_eqb (a b : cfg_row) : bool :=
  (cr_kci a =? cr_kci b) && list_eqb bytes_eqb (cr_keypers a) (cr_keypers b).

(* one observed step: the operation, its observed outcome, the outgoing table afterwards *)
Definition obs := (cop * outcome * list out_row)%type.

Fixpoint replay (loopf : loop_fn) (h : hcfg) (d : db) (l : list obs) : bool :=
  match l with
  | [] => true
  | (KSync nc ne rs oe oc, _, tbl) :: r =>
      let d' := sync_blocks d nc ne rs in
      list_eqb eon_row_eqb (eons d') oe && list_eqb cfg_row_eqb (cfgs d') oc
      && list_eqb out_row_eqb (outgoing d') tbl && replay loopf h d' r
  | (c, out, tbl) :: r =>
      let (d', out') := step_gen loopf h d (op_of d c) in
      outcome_eqb out' out && list_eqb out_row_eqb (outgoing d') tbl && replay loopf h d' r
  end.

Inductive case :=
  (* a history run against a fresh database with the handler configured as [h] *)
| CHist (id : N) (h : hcfg) (l : list obs).

(* The loop the tree under test has: the repaired one (the defective loop of the pinned tree
   is kept as [legacy_handle_rows] for the refutation only). *)
Definition tree_loop : loop_fn := handle_rows.

Definition check_case (c : case) : list N :=
  match c with
  | CHist id h l => if replay tree_loop h empty_db l then [] else [id]
  end.

Definition mismatches (cs : list case) : list N := flat_map check_case cs.
