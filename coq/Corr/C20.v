(* Correspondence stream for C20: what the real keyper database statements and the real
   eonPubKeyHandler.queryAndHandleNewEonPubKeys (through the verif hook, against pgfake) did on a
   history, replayed on the model.  Observed per operation: the outcome (insert accepted or
   refused; for a tick every call handed to the recording Messaging / the recording callback,
   in order, with all fields and the mechanism's answer, and the class of the returned error)
   and the outgoing_eon_keys table afterwards, in insertion order. *)
From Coq Require Import List NArith ZArith Bool.
From Verif Require Import Lib.Bytes Model.EonPK.
Import ListNotations.
Open Scope Z_scope.

Fixpoint list_eqb {A} (eqb : A -> A -> bool) (a b : list A) : bool :=
  match a, b with
  | [], [] => true
  | x :: a', y :: b' => eqb x y && list_eqb eqb a' b'
  | _, _ => false
  end.

Definition out_row_eqb (a b : out_row) : bool :=
  bytes_eqb (or_key a) (or_key b) && (or_eon a =? or_eon b).

Definition pubkey_eqb (a b : pubkey) : bool :=
  bytes_eqb (pk_key a) (pk_key b) && (pk_act a =? pk_act b) && (pk_kci a =? pk_kci b)
  && (pk_eon a =? pk_eon b).

Definition call_eqb (a b : call) : bool :=
  match a, b with
  | CBroadcast i p, CBroadcast j q => (i =? j) && pubkey_eqb p q
  | CCallback p, CCallback q => pubkey_eqb p q
  | _, _ => false
  end.

Definition callres_eqb (a b : call * bool) : bool :=
  call_eqb (fst a) (fst b) && Bool.eqb (snd a) (snd b).

Definition err_eqb (a b : err) : bool :=
  match a, b with
  | ENone, ENone | ENotMember, ENotMember | ECast, ECast
  | EBroadcast, EBroadcast | ECallback, ECallback => true
  | _, _ => false
  end.

Definition outcome_eqb (a b : outcome) : bool :=
  match a, b with
  | OIns x, OIns y => Bool.eqb x y
  | OTick cs e, OTick cs' e' => list_eqb callres_eqb cs cs' && err_eqb e e'
  | OQueryFailed, OQueryFailed => true
  | _, _ => false
  end.

(* the row order oracle given to pgfake: the deleted rows are delivered as row[p0], row[p1], ...
   where row[] is the table in insertion order *)
Definition apply_perm (p : list nat) (rows : list out_row) : list out_row :=
  flat_map (fun i => match nth_error rows i with Some r => [r] | None => [] end) p.

(* operations as the driver performed them *)
Inductive cop :=
| KCfg (kci : Z) (keypers : list bytes)
| KEon (e act kci : Z)
| KGen (key : bytes) (e : Z)
| KTick (perm : list nat) (answers : list bool)
| KTickFails.

Definition op_of (d : db) (c : cop) : op :=
  match c with
  | KCfg kci ks => OpCfg kci ks
  | KEon e act kci => OpEon e act kci
  | KGen key e => OpGen key e
  | KTick p answers => OpTick (apply_perm p (outgoing d)) answers
  | KTickFails => OpTickFails
  end.

(* one observed step: the operation, its observed outcome, the outgoing table afterwards *)
Definition obs := (cop * outcome * list out_row)%type.

Fixpoint replay (loopf : loop_fn) (h : hcfg) (d : db) (l : list obs) : bool :=
  match l with
  | [] => true
  | (c, out, tbl) :: r =>
      let (d', out') := step_gen loopf h d (op_of d c) in
      outcome_eqb out' out && list_eqb out_row_eqb (outgoing d') tbl && replay loopf h d' r
  end.

Inductive case :=
  (* a history run against a fresh database with the handler configured as [h] *)
| CHist (id : N) (h : hcfg) (l : list obs).

(* The loop the tree under test has: the repaired one (the defective loop of the pinned tree
   is kept as [legacy_handle_rows] for the refutation only). *)
Definition tree_loop : loop_fn := handle_rows.

Definition check_case (c : case) : list N :=
  match c with
  | CHist id h l => if replay tree_loop h empty_db l then [] else [id]
  end.

Definition mismatches (cs : list case) : list N := flat_map check_case cs.
