(* Correspondence stream for C05: the cases are those of Corr/Gossip.v, over every node flavour
   (combined validator verdicts incl. panics, panic-or-not of Handle). *)
From Verif Require Export Corr.Gossip.
