From Coq Require Import List NArith.
From Verif Require Import Lib.Bytes Model.Powermap Model.App Corr.App.
Import ListNotations.
Definition case := app_case.
Definition mismatches (cs : list case) : list N := flat_map check_app_case cs.
