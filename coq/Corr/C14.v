(* Correspondence stream for C14: what the real shutterevents / smobserver code did, replayed on
   the model.  Points and keys are represented by their canonical encodings (compressed G2 point,
   65-byte uncompressed secp256k1 point); the codecs of the dependencies (blst, go-ethereum
   crypto, Keccak casing) are instantiated per case by tables the driver computed with those
   dependencies directly. *)
From Coq Require Import String List NArith ZArith Bool Uint63.
From Verif Require Import Lib.Bytes Generated.EventSchema Model.Events Model.AppEvents.
From Verif Require Model.App.
Import ListNotations.

(* Byte-string literals of the case files: [pk len [i1; ...; ik]] packs 7 bytes (big endian) per
   primitive 63-bit integer, the last integer holds the remaining len - 7*(k-1) bytes.  (A
   string literal costs the parser about ten constructor nodes per character; this costs one
   node per seven bytes.) *)
Definition nib (i : int) : N :=
  if is_zero (i land 8)%uint63 then
    if is_zero (i land 4)%uint63 then
      if is_zero (i land 2)%uint63 then (if is_zero (i land 1)%uint63 then 0 else 1)
      else (if is_zero (i land 1)%uint63 then 2 else 3)
    else
      if is_zero (i land 2)%uint63 then (if is_zero (i land 1)%uint63 then 4 else 5)
      else (if is_zero (i land 1)%uint63 then 6 else 7)
  else
    if is_zero (i land 4)%uint63 then
      if is_zero (i land 2)%uint63 then (if is_zero (i land 1)%uint63 then 8 else 9)
      else (if is_zero (i land 1)%uint63 then 10 else 11)
    else
      if is_zero (i land 2)%uint63 then (if is_zero (i land 1)%uint63 then 12 else 13)
      else (if is_zero (i land 1)%uint63 then 14 else 15).

Definition byte_of (i : int) : N := (nib (i >> 4)%uint63 * 16 + nib i)%N.

(* the k low bytes of i, most significant first, in front of acc *)
Fixpoint unpack (k : nat) (i : int) (acc : bytes) : bytes :=
  match k with
  | O => acc
  | S k' => unpack k' (i >> 8)%uint63 (byte_of i :: acc)
  end.

Fixpoint pk (len : nat) (l : list int) : bytes :=
  match l with
  | [] => []
  | i :: r => match r with
              | [] => unpack len i []
              | _ => unpack 7 i (pk (len - 7) r)
              end
  end.

(* t_case: address -> 40 bytes, 1 where Address.Hex() prints an upper-case letter
   t_pts : 96-byte chunk accepted by Uncompress+InG2 -> Compress of the point
   t_keys: 65-byte string accepted by UnmarshalPubkey -> FromECDSAPub of the key
   t_ckeys: 33-byte compressed key accepted by DecompressPubkey -> FromECDSAPub of the key *)
Record tables := mk_tables {
  t_case : list (bytes * bytes);
  t_pts : list (bytes * bytes);
  t_keys : list (bytes * bytes);
  t_ckeys : list (bytes * bytes)
}.

Definition alookup (t : list (bytes * bytes)) (k : bytes) : option bytes :=
  option_map snd (find (fun p => bytes_eqb (fst p) k) t).

Definition cs_of (t : tables) (a : bytes) : list bool :=
  match alookup (t_case t) a with
  | Some m => map (fun x => N.eqb x 1) m
  | None => []
  end.

Definition ev := event bytes bytes.

(* a key is represented by its canonical 65-byte encoding; the model's encoder does not copy
   it but marshals the two coordinates again, each padded to 32 bytes (FromECDSAPub) *)
Definition key_x (k : bytes) : N := of_be_bytes (firstn 32 (skipn 1 k)).
Definition key_y (k : bytes) : N := of_be_bytes (skipn 33 k).
Definition m_enc_key (k : bytes) : bytes := marshal_pubkey (key_x k) (key_y k).

Definition m_make_abci (t : tables) (e : ev) : outcome abci_event :=
  make_abci_event bytes bytes (cs_of t) (fun p => p) m_enc_key e.
Definition m_make_event (t : tables) (a : abci_event) (h : Z) : outcome ev :=
  make_event bytes bytes (cs_of t) (alookup (t_pts t)) (alookup (t_keys t)) a h.
Definition m_make_events (t : tables) (h : Z) (l : list abci_event) : outcome (list ev) :=
  make_events bytes bytes (cs_of t) (alookup (t_pts t)) (alookup (t_keys t)) h l.

Fixpoint list_eqb {A : Type} (eqb : A -> A -> bool) (a b : list A) : bool :=
  match a, b with
  | [], [] => true
  | x :: a', y :: b' => eqb x y && list_eqb eqb a' b'
  | _, _ => false
  end.

Definition attr_eqb (a b : attr) : bool :=
  bytes_eqb (a_key a) (a_key b) && bytes_eqb (a_value a) (a_value b) && Bool.eqb (a_index a) (a_index b).

Definition abci_eqb (a b : abci_event) : bool :=
  bytes_eqb (fst a) (fst b) && list_eqb attr_eqb (snd a) (snd b).

Definition bl_eqb := list_eqb bytes_eqb.

Definition ev_eqb (a b : ev) : bool :=
  match a, b with
  | EvCheckIn _ _ h s k, EvCheckIn _ _ h' s' k' => Z.eqb h h' && bytes_eqb s s' && bytes_eqb k k'
  | EvBatchConfig _ _ h ks a t i st vu, EvBatchConfig _ _ h' ks' a' t' i' st' vu' =>
      Z.eqb h h' && bl_eqb ks ks' && N.eqb a a' && N.eqb t t' && N.eqb i i' && Bool.eqb st st' && Bool.eqb vu vu'
  | EvBatchConfigStarted _ _ h i, EvBatchConfigStarted _ _ h' i' => Z.eqb h h' && N.eqb i i'
  | EvEonStarted _ _ h e a i, EvEonStarted _ _ h' e' a' i' => Z.eqb h h' && N.eqb e e' && N.eqb a a' && N.eqb i i'
  | EvPolyCommitment _ _ h e s g, EvPolyCommitment _ _ h' e' s' g' =>
      Z.eqb h h' && N.eqb e e' && bytes_eqb s s' && bl_eqb g g'
  | EvPolyEval _ _ h s e rs evs, EvPolyEval _ _ h' s' e' rs' evs' =>
      Z.eqb h h' && bytes_eqb s s' && N.eqb e e' && bl_eqb rs rs' && bl_eqb evs evs'
  | EvAccusation _ _ h e s acc, EvAccusation _ _ h' e' s' acc' =>
      Z.eqb h h' && N.eqb e e' && bytes_eqb s s' && bl_eqb acc acc'
  | EvApology _ _ h e s acc pe, EvApology _ _ h' e' s' acc' pe' =>
      Z.eqb h h' && N.eqb e e' && bytes_eqb s s' && bl_eqb acc acc' && list_eqb N.eqb pe pe'
  | _, _ => false
  end.

Definition codec_eqb (a b : codec) : bool :=
  match a, b with
  | CUint64, CUint64 | CSprintfD, CSprintfD | CAddress, CAddress | CAddresses, CAddresses
  | CByteSequence, CByteSequence | CGammas, CGammas | CECIESPublicKey, CECIESPublicKey => true
  | _, _ => false
  end.

Definition err_eqb (a b : err) : bool :=
  match a, b with
  | EUnknownType, EUnknownType => true
  | ETooFew, ETooFew => true
  | EBadKey i, EBadKey j => Nat.eqb i j
  | EDecode c, EDecode d => codec_eqb c d
  | _, _ => false
  end.

(* what the implementation did: a value, an error of some class, or a panic *)
Inductive result (A : Type) := ROk (a : A) | RErr (e : err) | RPanic.
Arguments ROk {A} a.
Arguments RErr {A} e.
Arguments RPanic {A}.

Definition agree {A : Type} (eqb : A -> A -> bool) (m : outcome A) (r : result A) : bool :=
  match m, r with
  | Ok a, ROk b => eqb a b
  | Error e, RErr f => err_eqb e f
  | Panic, RPanic => true
  | _, _ => false
  end.

(* the application model's event as the exact ABCI event app.go emits: points are kept as the
   96 bytes received (Compress of Uncompress of a valid encoding), the check-in key is
   decompressed through the table *)
Definition m_app_abci (t : tables) (e : App.event) : outcome abci_event :=
  app_abci_event bytes bytes (cs_of t) (fun p => p) m_enc_key (fun g => g)
                 (fun k => match alookup (t_ckeys t) k with Some u => u | None => [] end) e.

Fixpoint list_agree2 {A B : Type} (f : A -> B -> bool) (a : list A) (b : list B) : bool :=
  match a, b with
  | [], [] => true
  | x :: a', y :: b' => f x y && list_agree2 f a' b'
  | _, _ => false
  end.

Definition app_events_agree (t : tables) (evs : list App.event) (raw : list abci_event) : bool :=
  list_agree2 (fun e a => match m_app_abci t e with Ok a' => abci_eqb a' a | _ => false end) evs raw.

Definition app_response_agrees (t : tables) (r : App.response) (o : option (list abci_event)) : bool :=
  match response_events r, o with
  | Some evs, Some raw => app_events_agree t evs raw
  | None, None => true
  | _, _ => false
  end.

Inductive case :=
  (* x.MakeABCIEvent() observed as [obs] *)
| CEnc (id : N) (t : tables) (x : ev) (obs : result abci_event)
  (* MakeEvent(a, h) observed as [obs] *)
| CDec (id : N) (t : tables) (a : abci_event) (h : Z) (obs : result ev)
  (* makeEvents(h, l) observed as [obs] *)
| CList (id : N) (t : tables) (h : Z) (l : list abci_event) (obs : result (list ev))
  (* a history of ABCI calls on the real application: the raw events of every response
     (None = the call panicked) *)
| CApp (id : N) (t : tables) (g : App.genesis) (calls : list App.call)
       (obs : list (option (list abci_event))).

Definition check_case (c : case) : list N :=
  match c with
  | CEnc id t x obs => if agree abci_eqb (m_make_abci t x) obs then [] else [id]
  | CDec id t a h obs => if agree ev_eqb (m_make_event t a h) obs then [] else [id]
  | CList id t h l obs => if agree (list_eqb ev_eqb) (m_make_events t h l) obs then [] else [id]
  | CApp id t g calls obs =>
      match App.init_chain g with
      | None => [id]
      | Some s0 =>
          if list_agree2 (app_response_agrees t) (snd (App.run App.enum_id s0 calls)) obs then [] else [id]
      end
  end.

Definition mismatches (cs : list case) : list N := flat_map check_case cs.

(* short names for the case files *)
Definition A := mk_attr.
Definition T := mk_tables.
Definition XCheckIn : Z -> bytes -> bytes -> ev := EvCheckIn bytes bytes.
Definition XBatchConfig : Z -> list bytes -> N -> N -> N -> bool -> bool -> ev := EvBatchConfig bytes bytes.
Definition XBatchConfigStarted : Z -> N -> ev := EvBatchConfigStarted bytes bytes.
Definition XEonStarted : Z -> N -> N -> N -> ev := EvEonStarted bytes bytes.
Definition XPolyCommitment : Z -> N -> bytes -> list bytes -> ev := EvPolyCommitment bytes bytes.
Definition XPolyEval : Z -> bytes -> N -> list bytes -> list bytes -> ev := EvPolyEval bytes bytes.
Definition XAccusation : Z -> N -> bytes -> list bytes -> ev := EvAccusation bytes bytes.
Definition XApology : Z -> N -> bytes -> list bytes -> list N -> ev := EvApology bytes bytes.
