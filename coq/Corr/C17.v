(* Correspondence stream for C17: what the real Validate / MarshalBytes / UnmarshalBytes /
   Match / ToFilterQuery did, replayed on the model. *)
From Coq Require Import List NArith ZArith Bool.
From Verif Require Import Lib.Bytes Lib.Rlp Model.TriggerDef.
Import ListNotations.

(* compact rendering of byte strings in the generated case files (elaborating a string literal
   costs about 50 us per character): hex text, runs of zero bytes, named constants *)
Inductive chunk := CH (h : String.string) | CZ (n : nat) | CB (b : bytes).
Definition chunk_bytes (c : chunk) : bytes :=
  match c with CH h => hx h | CZ n => repeat 0%N n | CB b => b end.
Definition dx (cs : list chunk) : bytes := flat_map chunk_bytes cs.

Definition optZ_eqb (a b : option Z) : bool :=
  match a, b with
  | None, None => true
  | Some x, Some y => Z.eqb x y
  | _, _ => false
  end.

Fixpoint list_eqb {A} (eqb : A -> A -> bool) (a b : list A) : bool :=
  match a, b with
  | [], [] => true
  | x :: a', y :: b' => eqb x y && list_eqb eqb a' b'
  | _, _ => false
  end.

Definition pred_eqb (p q : pred) : bool :=
  Bool.eqb (p_dyn p) (p_dyn q) && N.eqb (p_off p) (p_off q) && N.eqb (p_op p) (p_op q)
  && list_eqb optZ_eqb (p_ints p) (p_ints q) && list_eqb bytes_eqb (p_bytes p) (p_bytes q).

Definition def_eqb (d e : def) : bool :=
  bytes_eqb (d_contract d) (d_contract e) && list_eqb pred_eqb (d_preds d) (d_preds e).

Definition ures_eqb (a b : ures) : bool :=
  match a, b with
  | UOk d, UOk e => def_eqb d e
  | UEmpty, UEmpty | UVersion, UVersion | UDecode, UDecode | UInvalid, UInvalid => true
  | _, _ => false
  end.

Definition mres_eqb (a b : mres) : bool :=
  match a, b with
  | MOk x, MOk y => Bool.eqb x y
  | MErr, MErr | MPanic, MPanic => true
  | _, _ => false
  end.

Definition fres_eqb (a b : fres) : bool :=
  match a, b with
  | FOk x, FOk y => list_eqb (list_eqb bytes_eqb) x y
  | FErr, FErr | FPanic, FPanic => true
  | _, _ => false
  end.

Definition optbytes_eqb (a b : option bytes) : bool :=
  match a, b with
  | None, None => true
  | Some x, Some y => bytes_eqb x y
  | _, _ => false
  end.

Inductive case :=
  (* one definition: Validate() == nil, MarshalBytes() (None = panicked), ToFilterQuery(),
     and per log: Match (MPanic = panicked, MErr = returned an error) and the driver's
     evaluation of go-ethereum's filter rule on the derived query (false when there is none) *)
| CDef (id : N) (d : def) (vobs : bool) (mobs : option bytes) (fobs : fres)
       (logs : list (log * mres * bool))
  (* UnmarshalBytes on arbitrary bytes: the decoded definition or the error class *)
| CDecode (id : N) (b : bytes) (obs : ures)
  (* a batch: every definition was encoded first (all byte slices retained), then every retained
     slice was decoded; obs are the decoder's answers in order. Only definitions whose
     MarshalBytes does not panic are put in a batch. *)
| CBatch (id : N) (ds : list def) (obs : list ures).

Definition model_passes (d : def) (lg : log) : bool :=
  match to_filter d with
  | FOk q => passes_filter (d_contract d) q lg
  | _ => false
  end.

Definition check_log (d : def) (x : log * mres * bool) : bool :=
  let '(lg, mobs, pobs) := x in
  mres_eqb (match_def d lg) mobs && Bool.eqb (model_passes d lg) pobs.

(* encoding is a function of the definition alone: decoding what MarshalBytes returned gives the
   same answer however many other definitions were encoded in between *)
Definition roundtrip_model (d : def) : ures :=
  match marshal d with Some b => unmarshal b | None => UDecode end.

Definition check_case (c : case) : list N :=
  match c with
  | CDef id d vobs mobs fobs logs =>
      if Bool.eqb (validate d) vobs
         && optbytes_eqb (marshal d) mobs
         && fres_eqb (to_filter d) fobs
         && forallb (check_log d) logs
      then [] else [id]
  | CDecode id b obs =>
      if ures_eqb (unmarshal b) obs then [] else [id]
  | CBatch id ds obs =>
      if list_eqb ures_eqb (map roundtrip_model ds) obs then [] else [id]
  end.

Definition mismatches (cs : list case) : list N := flat_map check_case cs.
